import Cgm.E2E.C15b
import Cgm.Trace.C15Paths
import Cgm.Props.C15c
/-!
# C15 (third part), end to end: the opposite / fallback / same paths and the `Basis3` kernel

The kernels traced in `Cgm/Trace/C15Paths.lean` (and `t_q_from_arc_same` of `Cgm/Trace/C15.lean`), at the
real instances: `approx` relations of `Cg.RealApprox` (`ε = 2⁻⁵²`, 4 ulps), literals and `%` of
`RealInst2` (full turn `2π`).  Hypotheses are the path conditions (outcomes of the code's comparisons) and
what the property grants (unit `a`; non-zero `src`), plus, for `from_arc` without fallback on the path where
`x̂ × src` tests as zero, the side condition on `src` that is necessary (`Cg.C15.fromArc_tiny_src_counterexample`).
For exactly opposite inputs the first two path conditions are derived, not assumed.
-/
set_option linter.unusedSectionVars false
namespace Cg.E2E.C15
open Cg Cg.Gen.C15
open scoped Cg.RealApprox

/-! ## path conditions → model branch -/

theorem bv_branch_of_path_opp (a b : V3 ℝ) (h1 : ulpsEqD (V3.dot a b) 1 = false)
    (h2 : ulpsEqD (V3.dot a b / Transc.sqrt (a.magnitude2 * b.magnitude2)) (-1) = true) :
    Quat.betweenVectorsBranch a b = .opposite := by
  unfold Quat.betweenVectorsBranch
  simp only [h1, h2]
  rfl
theorem arc_branch_of_path_opp (src dst : V3 ℝ)
    (h1 : ulpsEqD (V3.dot src dst) (Transc.sqrt (src.magnitude2 * dst.magnitude2)) = false)
    (h2 : ulpsEqD (V3.dot src dst) (-Transc.sqrt (src.magnitude2 * dst.magnitude2)) = true) :
    Quat.fromArcBranch src dst = .opposite := by
  unfold Quat.fromArcBranch
  simp only [h1, h2]
  rfl
theorem arc_branch_of_path_same (src dst : V3 ℝ)
    (h1 : ulpsEqD (V3.dot src dst) (Transc.sqrt (src.magnitude2 * dst.magnitude2)) = true) :
    Quat.fromArcBranch src dst = .same := by
  unfold Quat.fromArcBranch
  simp only [h1]
  rfl

/-! ## 1. `between_vectors`, opposite vectors -/

/-- `Quaternion::between_vectors(a, b)` for a unit `a`, on the path "not parallel, antiparallel, `a × x̂` accepted":
the kernel outputs a unit quaternion with zero scalar part (a half turn) whose axis is the normalised `a × x̂`,
a unit vector `⟂ a`, and which sends `a` to `-a`; so does its matrix (`Basis3`) -/
theorem code_between_vectors_opp_x_real (a b : V3 ℝ) (ha : V3.dot a a = 1)
    (h1 : ulpsEqD (V3.dot a b) 1 = false)
    (h2 : ulpsEqD (V3.dot a b / Transc.sqrt (a.magnitude2 * b.magnitude2)) (-1) = true)
    (h3 : ulpsEqD (V3.cross a V3.unitX).magnitude2 0 = false) :
    ∃ r : Quat ℝ, t_q_between_vectors_opp_x (envL (a.toList ++ b.toList)) = .okG r.toList
        [.ulps (V3.dot a b) 1 Trace.C15.eps52 4 false,
         .ulps (V3.dot a b / Transc.sqrt (a.magnitude2 * b.magnitude2)) (-1) Trace.C15.eps52 4 true,
         .ulps (V3.cross a V3.unitX).magnitude2 0 Trace.C15.eps52 4 false] ∧
      r.magnitude2 = 1 ∧ r.s = 0 ∧ r.v = (V3.cross a V3.unitX).normalize ∧ V3.dot r.v r.v = 1 ∧
      V3.dot r.v a = 0 ∧ r * a = -a ∧ r.toM3 * a = -a ∧
      (Basis3.betweenVectors a b).rotateVector a = -a := by
  have hbr := bv_branch_of_path_opp a b h1 h2
  obtain ⟨k0, k1, k2, k3, k4, k5, k6, k7⟩ := C15.betweenVectors_opposite_unit_real a b ha hbr
  have hax : C15.bvAxis a = V3.cross a V3.unitX := by
    simp only [C15.bvAxis, h3, Bool.false_eq_true, if_false]
  rw [hax] at k0 k1 k2
  refine ⟨Quat.betweenVectors a b, Trace.C15Paths.t_q_between_vectors_opp_x a b h1 h2 h3,
    k3, k4, by rw [k0]; rfl, by rw [k0]; exact k1, k5, k6, ?_, k7⟩
  rw [Cg.C05.toM3_mulVec]; exact k6

/-- the same on the path where `a × x̂` tests as zero (`a` within `ε` of `±x̂`): axis = normalised `a × ŷ` -/
theorem code_between_vectors_opp_y_real (a b : V3 ℝ) (ha : V3.dot a a = 1)
    (h1 : ulpsEqD (V3.dot a b) 1 = false)
    (h2 : ulpsEqD (V3.dot a b / Transc.sqrt (a.magnitude2 * b.magnitude2)) (-1) = true)
    (h3 : ulpsEqD (V3.cross a V3.unitX).magnitude2 0 = true) :
    ∃ r : Quat ℝ, t_q_between_vectors_opp_y (envL (a.toList ++ b.toList)) = .okG r.toList
        [.ulps (V3.dot a b) 1 Trace.C15.eps52 4 false,
         .ulps (V3.dot a b / Transc.sqrt (a.magnitude2 * b.magnitude2)) (-1) Trace.C15.eps52 4 true,
         .ulps (V3.cross a V3.unitX).magnitude2 0 Trace.C15.eps52 4 true] ∧
      r.magnitude2 = 1 ∧ r.s = 0 ∧ r.v = (V3.cross a V3.unitY).normalize ∧ V3.dot r.v r.v = 1 ∧
      V3.dot r.v a = 0 ∧ r * a = -a ∧ r.toM3 * a = -a ∧
      (Basis3.betweenVectors a b).rotateVector a = -a := by
  have hbr := bv_branch_of_path_opp a b h1 h2
  obtain ⟨k0, k1, k2, k3, k4, k5, k6, k7⟩ := C15.betweenVectors_opposite_unit_real a b ha hbr
  have hax : C15.bvAxis a = V3.cross a V3.unitY := by
    simp only [C15.bvAxis, h3, if_true]
  rw [hax] at k0 k1 k2
  refine ⟨Quat.betweenVectors a b, Trace.C15Paths.t_q_between_vectors_opp_y a b h1 h2 h3,
    k3, k4, by rw [k0]; rfl, by rw [k0]; exact k1, k5, k6, ?_, k7⟩
  rw [Cg.C05.toM3_mulVec]; exact k6

/-- **exactly opposite unit vectors** `b = -a`: the first two comparisons are decided by the inputs, only the
axis choice remains a path condition, and it is exhaustive.  Whichever of the two kernels applies outputs a unit
quaternion `r` with zero scalar part, axis `⟂ a`, and `r a = -a = b` -/
theorem code_between_vectors_neg_real (a : V3 ℝ) (ha : V3.dot a a = 1) :
    ∃ r : Quat ℝ, (r.magnitude2 = 1 ∧ r.s = 0 ∧ V3.dot r.v r.v = 1 ∧ V3.dot r.v a = 0 ∧ r * a = -a ∧
        r.toM3 * a = -a) ∧
      (ulpsEqD (V3.cross a V3.unitX).magnitude2 0 = false →
        r.v = (V3.cross a V3.unitX).normalize ∧
        t_q_between_vectors_opp_x (envL (a.toList ++ (-a).toList)) = .okG r.toList
          [.ulps (V3.dot a (-a)) 1 Trace.C15.eps52 4 false,
           .ulps (V3.dot a (-a) / Transc.sqrt (a.magnitude2 * (-a).magnitude2)) (-1) Trace.C15.eps52 4 true,
           .ulps (V3.cross a V3.unitX).magnitude2 0 Trace.C15.eps52 4 false]) ∧
      (ulpsEqD (V3.cross a V3.unitX).magnitude2 0 = true →
        r.v = (V3.cross a V3.unitY).normalize ∧
        t_q_between_vectors_opp_y (envL (a.toList ++ (-a).toList)) = .okG r.toList
          [.ulps (V3.dot a (-a)) 1 Trace.C15.eps52 4 false,
           .ulps (V3.dot a (-a) / Transc.sqrt (a.magnitude2 * (-a).magnitude2)) (-1) Trace.C15.eps52 4 true,
           .ulps (V3.cross a V3.unitX).magnitude2 0 Trace.C15.eps52 4 true]) := by
  obtain ⟨h1, h2⟩ := C15.bv_neg_path_real a ha
  cases h3 : ulpsEqD (V3.cross a V3.unitX).magnitude2 0
  · obtain ⟨r, hk, g1, g2, g3, g4, g5, g6, g7, _⟩ := code_between_vectors_opp_x_real a (-a) ha h1 h2 h3
    exact ⟨r, ⟨g1, g2, g4, g5, g6, g7⟩, fun _ => ⟨g3, hk⟩, fun h => absurd h (by decide)⟩
  · obtain ⟨r, hk, g1, g2, g3, g4, g5, g6, g7, _⟩ := code_between_vectors_opp_y_real a (-a) ha h1 h2 h3
    exact ⟨r, ⟨g1, g2, g4, g5, g6, g7⟩, fun h => absurd h (by decide), fun _ => ⟨g3, hk⟩⟩

/-- both axis choices occur for unit vectors: `a = ŷ` takes the `a × x̂` kernel, `a = x̂` the `a × ŷ` kernel -/
example : V3.dot (V3.unitY : V3 ℝ) V3.unitY = 1 ∧
    ulpsEqD (V3.cross (V3.unitY : V3 ℝ) V3.unitX).magnitude2 0 = false := by
  refine ⟨by simp [V3.unitY], ?_⟩
  have e : (V3.cross (V3.unitY : V3 ℝ) V3.unitX).magnitude2 = 1 := by simp [V3.cross, V3.unitX, V3.unitY]
  rw [e, ← Bool.not_eq_true, real_ulpsEqD_zero]; norm_num [eps52R]
example : V3.dot (V3.unitX : V3 ℝ) V3.unitX = 1 ∧
    ulpsEqD (V3.cross (V3.unitX : V3 ℝ) V3.unitX).magnitude2 0 = true := by
  refine ⟨by simp [V3.unitX], ?_⟩
  have e : (V3.cross (V3.unitX : V3 ℝ) V3.unitX).magnitude2 = 0 := by simp [V3.cross, V3.unitX]
  rw [e]; exact C15.ulps00_real

/-! ## 2. `from_arc`, opposite vectors -/

/-- `from_arc(src, dst, Some(f))` on the opposite path with a unit fallback axis `f ⟂ src`: the kernel outputs the
half turn about `f` -- the quaternion `(0; f)`, unit, sending `src` to `-src` and `src/|src|` to its negation -/
theorem code_from_arc_fb_opp_real (src dst f : V3 ℝ) (hf : V3.dot f f = 1) (hfs : V3.dot f src = 0)
    (h1 : ulpsEqD (V3.dot src dst) (Transc.sqrt (src.magnitude2 * dst.magnitude2)) = false)
    (h2 : ulpsEqD (V3.dot src dst) (-Transc.sqrt (src.magnitude2 * dst.magnitude2)) = true) :
    ∃ r : Quat ℝ, t_q_from_arc_fb_opp (envL (src.toList ++ dst.toList ++ f.toList)) = .okG r.toList
        [.ulps (V3.dot src dst) (Transc.sqrt (src.magnitude2 * dst.magnitude2)) Trace.C15.eps52 4 false,
         .ulps (V3.dot src dst) (-Transc.sqrt (src.magnitude2 * dst.magnitude2)) Trace.C15.eps52 4 true] ∧
      r = Quat.fromSv 0 f ∧ r.magnitude2 = 1 ∧ r * src = -src ∧
      r * (src * (1 / src.magnitude)) = -(src * (1 / src.magnitude)) := by
  have hbr := arc_branch_of_path_opp src dst h1 h2
  exact ⟨Quat.fromArc src dst (some f), Trace.C15Paths.t_q_from_arc_fb_opp src dst f h1 h2,
    C15.fromArc_opposite_fallback_real src dst f hbr hf hfs⟩

/-- the hypotheses of `code_from_arc_fb_opp_real` are satisfiable: `src = (2,0,0)`, `dst = -3 src`, `f = ẑ` -/
example : let src : V3 ℝ := ⟨2, 0, 0⟩; let dst := src * (-3 : ℝ); let f : V3 ℝ := ⟨0, 0, 1⟩
    V3.dot f f = 1 ∧ V3.dot f src = 0 ∧
    ulpsEqD (V3.dot src dst) (Transc.sqrt (src.magnitude2 * dst.magnitude2)) = false ∧
    ulpsEqD (V3.dot src dst) (-Transc.sqrt (src.magnitude2 * dst.magnitude2)) = true := by
  intro src dst f
  have hm : src.magnitude2 = 4 := by simp [src]; norm_num
  have h1 : eps52R < 1 := by unfold eps52R; norm_num
  obtain ⟨k1, k2⟩ := C15.arc_neg_path_real src 3 (by norm_num) (by rw [hm]; linarith)
  exact ⟨by simp [f], by simp [f, src], k1, k2⟩

/-- `from_arc(src, dst, None)` on the opposite path where `x̂ × src = (0, -src.z, src.y)` is NOT `ulps_eq` to zero
(its first two components are, the third is not).  No side condition on `src` is needed here: the path
condition makes the axis non-zero.  The kernel outputs a unit quaternion with zero scalar part, axis the
normalised `x̂ × src` (unit, `⟂ src`), sending `src/|src|` to its negation -/
theorem code_from_arc_opp_x_real (src dst : V3 ℝ)
    (h1 : ulpsEqD (V3.dot src dst) (Transc.sqrt (src.magnitude2 * dst.magnitude2)) = false)
    (h2 : ulpsEqD (V3.dot src dst) (-Transc.sqrt (src.magnitude2 * dst.magnitude2)) = true)
    (h3 : ulpsEqD (V3.cross V3.unitX src).x 0 = true) (h4 : ulpsEqD (V3.cross V3.unitX src).y 0 = true)
    (h5 : ulpsEqD (V3.cross V3.unitX src).z 0 = false) :
    ∃ r : Quat ℝ, t_q_from_arc_opp_x (envL (src.toList ++ dst.toList)) = .okG r.toList
        [.ulps (V3.dot src dst) (Transc.sqrt (src.magnitude2 * dst.magnitude2)) Trace.C15.eps52 4 false,
         .ulps (V3.dot src dst) (-Transc.sqrt (src.magnitude2 * dst.magnitude2)) Trace.C15.eps52 4 true,
         .ulps (V3.cross V3.unitX src).x 0 Trace.C15.eps52 4 true,
         .ulps (V3.cross V3.unitX src).y 0 Trace.C15.eps52 4 true,
         .ulps (V3.cross V3.unitX src).z 0 Trace.C15.eps52 4 false] ∧
      r.magnitude2 = 1 ∧ r.s = 0 ∧ r.v = (V3.cross V3.unitX src).normalize ∧ V3.dot r.v r.v = 1 ∧
      V3.dot r.v src = 0 ∧ r * src = -src ∧
      r * (src * (1 / src.magnitude)) = -(src * (1 / src.magnitude)) := by
  have hbr := arc_branch_of_path_opp src dst h1 h2
  have hz : V3.ulpsEqZero (V3.cross V3.unitX src) = false := by
    simp only [V3.ulpsEqZero, h3, h4, h5, Bool.and_false]
  have hax : C15.arcAxis src = V3.cross V3.unitX src := by
    simp only [C15.arcAxis, hz, Bool.false_eq_true, if_false]
  have hsrc : ¬ (src.x = 0 ∧ src.z = 0 ∧ |src.y| ≤ eps52R) := by
    rintro ⟨-, -, hy⟩
    rw [C15.cross_unitX, ← Bool.not_eq_true, real_ulpsEqD_zero] at h5
    exact h5 hy
  obtain ⟨k0, k1, k2, k3, k4, k5, k6, k7⟩ := C15.fromArc_opposite_none_real' src dst hbr hsrc
  rw [hax] at k0 k1 k2
  exact ⟨Quat.fromArc src dst none, Trace.C15Paths.t_q_from_arc_opp_x src dst h1 h2 h3 h4 h5,
    k3, k4, by rw [k0]; rfl, by rw [k0]; exact k1, k5, k6, k7⟩

/-- `from_arc(src, dst, None)` on the opposite path where `x̂ × src` IS `ulps_eq` to zero (`|src.y|, |src.z| ≤ ε`): the
axis is the normalised `ŷ × src = (src.z, 0, -src.x)`.  Here a side condition is needed (and necessary, see
`Cg.C15.fromArc_opposite_none_unit_iff_real`): `src` is not `(0, y, 0)`; it follows from `|src| > ε`
(`src_cond_of_length`) -/
theorem code_from_arc_opp_y_real (src dst : V3 ℝ) (hsrc : ¬ (src.x = 0 ∧ src.z = 0))
    (h1 : ulpsEqD (V3.dot src dst) (Transc.sqrt (src.magnitude2 * dst.magnitude2)) = false)
    (h2 : ulpsEqD (V3.dot src dst) (-Transc.sqrt (src.magnitude2 * dst.magnitude2)) = true)
    (h3 : ulpsEqD (V3.cross V3.unitX src).x 0 = true) (h4 : ulpsEqD (V3.cross V3.unitX src).y 0 = true)
    (h5 : ulpsEqD (V3.cross V3.unitX src).z 0 = true) :
    ∃ r : Quat ℝ, t_q_from_arc_opp_y (envL (src.toList ++ dst.toList)) = .okG r.toList
        [.ulps (V3.dot src dst) (Transc.sqrt (src.magnitude2 * dst.magnitude2)) Trace.C15.eps52 4 false,
         .ulps (V3.dot src dst) (-Transc.sqrt (src.magnitude2 * dst.magnitude2)) Trace.C15.eps52 4 true,
         .ulps (V3.cross V3.unitX src).x 0 Trace.C15.eps52 4 true,
         .ulps (V3.cross V3.unitX src).y 0 Trace.C15.eps52 4 true,
         .ulps (V3.cross V3.unitX src).z 0 Trace.C15.eps52 4 true] ∧
      r.magnitude2 = 1 ∧ r.s = 0 ∧ r.v = (V3.cross V3.unitY src).normalize ∧ V3.dot r.v r.v = 1 ∧
      V3.dot r.v src = 0 ∧ r * src = -src ∧
      r * (src * (1 / src.magnitude)) = -(src * (1 / src.magnitude)) := by
  have hbr := arc_branch_of_path_opp src dst h1 h2
  have hz : V3.ulpsEqZero (V3.cross V3.unitX src) = true := by
    simp only [V3.ulpsEqZero, h3, h4, h5, Bool.and_self]
  have hax : C15.arcAxis src = V3.cross V3.unitY src := by
    simp only [C15.arcAxis, hz, if_true]
  have hsrc' : ¬ (src.x = 0 ∧ src.z = 0 ∧ |src.y| ≤ eps52R) := fun h => hsrc ⟨h.1, h.2.1⟩
  obtain ⟨k0, k1, k2, k3, k4, k5, k6, k7⟩ := C15.fromArc_opposite_none_real' src dst hbr hsrc'
  rw [hax] at k0 k1 k2
  exact ⟨Quat.fromArc src dst none, Trace.C15Paths.t_q_from_arc_opp_y src dst h1 h2 h3 h4 h5,
    k3, k4, by rw [k0]; rfl, by rw [k0]; exact k1, k5, k6, k7⟩

/-- on that path `|src| > ε` implies the side condition -/
theorem src_cond_of_length (src : V3 ℝ) (hs : eps52R ^ 2 < src.magnitude2)
    (h5 : ulpsEqD (V3.cross V3.unitX src).z 0 = true) : ¬ (src.x = 0 ∧ src.z = 0) := by
  rintro ⟨hx, hz⟩
  rw [C15.cross_unitX, real_ulpsEqD_zero] at h5
  exact (C15.arcAxis_pos_real_iff src).1 (C15.arcAxis_pos_real src hs) ⟨hx, hz, h5⟩

/-- **exactly antiparallel inputs of `from_arc`**, `dst = -k src` (`k > 0`), no fallback, with the two length
conditions that are necessary (`|src| > ε`: otherwise the axis may vanish; `2|src||dst| > ε`: otherwise the
code answers the identity, `Cg.C15.fromArc_short_neg_same_real`).  The first three comparisons are decided by the
inputs; on the traced paths (second component of `x̂ × src` tests as zero) whichever kernel applies outputs a
unit quaternion with zero scalar part, axis `⟂ src`, sending `src/|src|` to `dst/|dst|` -/
theorem code_from_arc_neg_real (src : V3 ℝ) (k : ℝ) (hk : 0 < k)
    (hs : eps52R ^ 2 < src.magnitude2) (hlen : eps52R < 2 * k * src.magnitude2)
    (h4 : ulpsEqD (V3.cross V3.unitX src).y 0 = true) :
    let dst := src * (-k)
    ∃ r : Quat ℝ, (r.magnitude2 = 1 ∧ r.s = 0 ∧ V3.dot r.v r.v = 1 ∧ V3.dot r.v src = 0 ∧
        r * (src * (1 / src.magnitude)) = dst * (1 / dst.magnitude)) ∧
      (ulpsEqD (V3.cross V3.unitX src).z 0 = false →
        r.v = (V3.cross V3.unitX src).normalize ∧
        t_q_from_arc_opp_x (envL (src.toList ++ dst.toList)) = .okG r.toList
          [.ulps (V3.dot src dst) (Transc.sqrt (src.magnitude2 * dst.magnitude2)) Trace.C15.eps52 4 false,
           .ulps (V3.dot src dst) (-Transc.sqrt (src.magnitude2 * dst.magnitude2)) Trace.C15.eps52 4 true,
           .ulps (V3.cross V3.unitX src).x 0 Trace.C15.eps52 4 true,
           .ulps (V3.cross V3.unitX src).y 0 Trace.C15.eps52 4 true,
           .ulps (V3.cross V3.unitX src).z 0 Trace.C15.eps52 4 false]) ∧
      (ulpsEqD (V3.cross V3.unitX src).z 0 = true →
        r.v = (V3.cross V3.unitY src).normalize ∧
        t_q_from_arc_opp_y (envL (src.toList ++ dst.toList)) = .okG r.toList
          [.ulps (V3.dot src dst) (Transc.sqrt (src.magnitude2 * dst.magnitude2)) Trace.C15.eps52 4 false,
           .ulps (V3.dot src dst) (-Transc.sqrt (src.magnitude2 * dst.magnitude2)) Trace.C15.eps52 4 true,
           .ulps (V3.cross V3.unitX src).x 0 Trace.C15.eps52 4 true,
           .ulps (V3.cross V3.unitX src).y 0 Trace.C15.eps52 4 true,
           .ulps (V3.cross V3.unitX src).z 0 Trace.C15.eps52 4 true]) := by
  intro dst
  obtain ⟨h1, h2⟩ := C15.arc_neg_path_real src k hk hlen
  have h3 : ulpsEqD (V3.cross V3.unitX src).x 0 = true := by
    rw [C15.cross_unitX]; exact C15.ulps00_real
  have hs0 : 0 < src.magnitude2 := lt_trans (by have := eps52R_pos; positivity) hs
  have hdir := C15.neg_scale_direction src k hk hs0
  cases h5 : ulpsEqD (V3.cross V3.unitX src).z 0
  · obtain ⟨r, hk', g1, g2, g3, g4, g5, _, g7⟩ := code_from_arc_opp_x_real src dst h1 h2 h3 h4 h5
    exact ⟨r, ⟨g1, g2, g4, g5, by rw [g7]; exact hdir.symm⟩, fun _ => ⟨g3, hk'⟩, fun h => absurd h (by decide)⟩
  · obtain ⟨r, hk', g1, g2, g3, g4, g5, _, g7⟩ :=
      code_from_arc_opp_y_real src dst (src_cond_of_length src hs h5) h1 h2 h3 h4 h5
    exact ⟨r, ⟨g1, g2, g4, g5, by rw [g7]; exact hdir.symm⟩, fun h => absurd h (by decide), fun _ => ⟨g3, hk'⟩⟩

/-- the path conditions of the two `from_arc` opposite kernels are satisfiable at the real instance:
`src = (0, 2, 0)` takes the `x̂ × src` kernel, `src = (2, 0, 0)` the `ŷ × src` kernel (with `dst = -3 src`) -/
example : let src : V3 ℝ := ⟨0, 2, 0⟩
    eps52R ^ 2 < src.magnitude2 ∧ eps52R < 2 * 3 * src.magnitude2 ∧
    ulpsEqD (V3.cross V3.unitX src).y 0 = true ∧ ulpsEqD (V3.cross V3.unitX src).z 0 = false := by
  intro src
  have hm : src.magnitude2 = 4 := by simp [src]; norm_num
  have h1 : eps52R < 1 := by unfold eps52R; norm_num
  refine ⟨by rw [hm]; nlinarith [eps52R_pos], by rw [hm]; linarith, ?_, ?_⟩
  · rw [C15.cross_unitX]; show ulpsEqD (-(0 : ℝ)) 0 = true; rw [neg_zero]; exact C15.ulps00_real
  · rw [C15.cross_unitX, ← Bool.not_eq_true, real_ulpsEqD_zero]
    show ¬ |(2 : ℝ)| ≤ eps52R
    rw [abs_of_pos (by norm_num)]; linarith
example : let src : V3 ℝ := ⟨2, 0, 0⟩
    eps52R ^ 2 < src.magnitude2 ∧ eps52R < 2 * 3 * src.magnitude2 ∧
    ulpsEqD (V3.cross V3.unitX src).y 0 = true ∧ ulpsEqD (V3.cross V3.unitX src).z 0 = true := by
  intro src
  have hm : src.magnitude2 = 4 := by simp [src]; norm_num
  have h1 : eps52R < 1 := by unfold eps52R; norm_num
  refine ⟨by rw [hm]; nlinarith [eps52R_pos], by rw [hm]; linarith, ?_, ?_⟩
  · rw [C15.cross_unitX]; show ulpsEqD (-(0 : ℝ)) 0 = true; rw [neg_zero]; exact C15.ulps00_real
  · rw [C15.cross_unitX]; exact C15.ulps00_real

/-! ## 3. `from_arc`: the fallback is ignored off the opposite path; parallel path -/

/-- `from_arc(src, dst, None)`: the kernel of the parallel path returns the identity (the equality holds for every input: the
kernel is a closed term and `h1` is logically unused; that this path is the one taken exactly when the comparison is true is
`q_from_arc_same_consistent`, `E2E/C15g.lean`) -/
theorem code_from_arc_same_real (src dst : V3 ℝ)
    (h1 : ulpsEqD (V3.dot src dst) (Transc.sqrt (src.magnitude2 * dst.magnitude2)) = true) :
    t_q_from_arc_same (envL (src.toList ++ dst.toList)) = .okG (Quat.one : Quat ℝ).toList
      [.ulps (V3.dot src dst) (Transc.sqrt (src.magnitude2 * dst.magnitude2)) Trace.C15.eps52 4 true] := by
  rw [Trace.C15.t_q_from_arc_same src dst h1,
    (C15.fromArc_branches src dst none).1 (arc_branch_of_path_same src dst h1)]

/-- `from_arc(src, dst, Some(f))`: the kernel of the parallel path has the same output (the identity) and the same recorded
comparison as without fallback, whatever `f` (holds for every input, `h1` is logically unused; consistency:
`q_from_arc_fb_same_consistent`, `E2E/C15g.lean`) -/
theorem code_from_arc_fb_same_real (src dst f : V3 ℝ)
    (h1 : ulpsEqD (V3.dot src dst) (Transc.sqrt (src.magnitude2 * dst.magnitude2)) = true) :
    t_q_from_arc_fb_same (envL (src.toList ++ dst.toList ++ f.toList)) = .okG (Quat.one : Quat ℝ).toList
      [.ulps (V3.dot src dst) (Transc.sqrt (src.magnitude2 * dst.magnitude2)) Trace.C15.eps52 4 true] ∧
    t_q_from_arc_fb_same (envL (src.toList ++ dst.toList ++ f.toList)) =
      t_q_from_arc_same (envL (src.toList ++ dst.toList)) := by
  have e : t_q_from_arc_fb_same (envL (src.toList ++ dst.toList ++ f.toList)) = .okG (Quat.one : Quat ℝ).toList
      [.ulps (V3.dot src dst) (Transc.sqrt (src.magnitude2 * dst.magnitude2)) Trace.C15.eps52 4 true] := by
    rw [Trace.C15Paths.t_q_from_arc_fb_same src dst f h1,
      (C15.fromArc_branches src dst (some f)).1 (arc_branch_of_path_same src dst h1)]
  exact ⟨e, by rw [e, code_from_arc_same_real src dst h1]⟩

/-- `from_arc(src, dst, Some(f))` on the general path: the fallback kernel and the no-fallback kernel produce the
same output under the same comparisons, whatever `f`; that output is the unit quaternion of the smaller rotation
`src/|src| ↦ dst/|dst|` (non-zero `src`, `dst`), with rotation angle the angle between them -/
theorem code_from_arc_fb_general_real (src dst f : V3 ℝ) (hs : 0 < src.magnitude2) (hd : 0 < dst.magnitude2)
    (h1 : ulpsEqD (V3.dot src dst) (Transc.sqrt (src.magnitude2 * dst.magnitude2)) = false)
    (h2 : ulpsEqD (V3.dot src dst) (-Transc.sqrt (src.magnitude2 * dst.magnitude2)) = false) :
    ∃ r : Quat ℝ, t_q_from_arc_fb_general (envL (src.toList ++ dst.toList ++ f.toList)) = .okG r.toList
        [.ulps (V3.dot src dst) (Transc.sqrt (src.magnitude2 * dst.magnitude2)) Trace.C15.eps52 4 false,
         .ulps (V3.dot src dst) (-Transc.sqrt (src.magnitude2 * dst.magnitude2)) Trace.C15.eps52 4 false] ∧
      t_q_from_arc_fb_general (envL (src.toList ++ dst.toList ++ f.toList)) =
        t_q_from_arc_general (envL (src.toList ++ dst.toList)) ∧
      r.magnitude2 = 1 ∧ r * (src * (1 / src.magnitude)) = dst * (1 / dst.magnitude) ∧ 0 < r.s ∧
      2 * Real.arccos r.s = V3.angle src dst := by
  have hbr := arc_branch_of_path src dst h1 h2
  have e1 := (C15.fromArc_branches src dst (some f)).2.1 hbr
  have e2 := (C15.fromArc_branches src dst none).2.1 hbr
  have hsame : Quat.fromArc src dst (some f) = Quat.fromArc src dst none := by rw [e1, e2]
  obtain ⟨k1, k2, k3, k4⟩ := C15.fromArc_general_of_refl src dst (some f) C15.ulps_refl_real hbr hs hd
  refine ⟨Quat.fromArc src dst (some f), Trace.C15Paths.t_q_from_arc_fb_general src dst f h1 h2, ?_, k1, k2, k3, k4⟩
  rw [Trace.C15Paths.t_q_from_arc_fb_general src dst f h1 h2, Trace.C15.t_q_from_arc_general src dst h1 h2, hsame]

/-! ## 4. the `Basis3` kernel -/

/-- `Basis3::between_vectors(a, b)` on the general path, about its own kernel: the matrix it outputs is the matrix
of the quaternion the `Quaternion` kernel outputs (same comparisons), and it maps `a` to `b` (unit `a`, `b`) -/
theorem code_b3_between_vectors_general_real (a b : V3 ℝ) (ha : V3.dot a a = 1) (hb : V3.dot b b = 1)
    (h1 : ulpsEqD (V3.dot a b) 1 = false)
    (h2 : ulpsEqD (V3.dot a b / Transc.sqrt (a.magnitude2 * b.magnitude2)) (-1) = false) :
    ∃ (m : M3 ℝ) (r : Quat ℝ),
      t_b3_between_vectors_general (envL (a.toList ++ b.toList)) = .okG m.toList
        [.ulps (V3.dot a b) 1 Trace.C15.eps52 4 false,
         .ulps (V3.dot a b / Transc.sqrt (a.magnitude2 * b.magnitude2)) (-1) Trace.C15.eps52 4 false] ∧
      t_q_between_vectors_general (envL (a.toList ++ b.toList)) = .okG r.toList
        [.ulps (V3.dot a b) 1 Trace.C15.eps52 4 false,
         .ulps (V3.dot a b / Transc.sqrt (a.magnitude2 * b.magnitude2)) (-1) Trace.C15.eps52 4 false] ∧
      m = r.toM3 ∧ m * a = b ∧ r * a = b ∧ r.magnitude2 = 1 ∧
      2 * Real.arccos r.s = V3.angle a b ∧ 0 < r.s ∧ V3.dot r.v a = 0 ∧ V3.dot r.v b = 0 := by
  have hbr := bv_branch_of_path a b h1 h2
  obtain ⟨g1, g2, g3, g4, g5, g6, g7⟩ := C15.betweenVectors_general_of_refl a b ha hb C15.ulps_refl_real hbr
  exact ⟨(Basis3.betweenVectors a b).mat, Quat.betweenVectors a b,
    Trace.C15Paths.t_b3_between_vectors_general a b h1 h2, Trace.C15.t_q_between_vectors_general a b h1 h2,
    rfl, g3, g2, g1, g4, g5, g6, g7⟩

end Cg.E2E.C15
