import Cgm.E2E.C01
import Cgm.Trace.C01Auto
/-!
# C01 (completion), end to end: transpose / diagonal / trace / `from_value` / `from_diagonal` / identity / element-wise
`+`, `-`, unary `-`, `* s`, `/ s`, sums and products of lists, as the code computes them, for `Matrix2`, `Matrix3`, `Matrix4`:
each kernel reads and writes exactly the documented elements (`toMatrix m i j` is row `i`, column `j`)

`row()` and `Index<usize>` (columns) are traced at every index in `Cgm/Trace/C01Idx.lean` (end to end: `Cgm/E2E/C01i.lean`);
`Matrix2::transpose` is traced under C02 (`t_m2_transpose`, `Cgm/Trace/C02.lean`; `Cgm/E2E/C02i.lean`).  Neither is restated here.
-/
set_option linter.unusedSectionVars false
namespace Cg.E2E.C01
open Cg Cg.Gen.C01 Matrix
variable {K : Type} [Field K] [Transc K] [FRem K] [Lits K]

/-! ## transpose -/
/-- `transpose()` as computed: element (row i, column j) of the result is element (row j, column i) of the argument; applying
the kernel to its own output returns the original -/
theorem code_m4_transpose (a : M4 K) :
    ∃ t : M4 K, t_m4_transpose (envL a.toList) = .okS t.toList ∧ (∀ i j, t.toMatrix i j = a.toMatrix j i) ∧
      t.x = ⟨a.x.x, a.y.x, a.z.x, a.w.x⟩ ∧ t.y = ⟨a.x.y, a.y.y, a.z.y, a.w.y⟩ ∧ t.z = ⟨a.x.z, a.y.z, a.z.z, a.w.z⟩ ∧
      t.w = ⟨a.x.w, a.y.w, a.z.w, a.w.w⟩ ∧ t_m4_transpose (envL t.toList) = .okS a.toList :=
  ⟨a.transpose, Trace.C01.t_m4_transpose a, C01.M4.transpose_get a, rfl, rfl, rfl, rfl, by
    rw [Trace.C01.t_m4_transpose]; rfl⟩
theorem code_m3_transpose (a : M3 K) :
    ∃ t : M3 K, t_m3_transpose (envL a.toList) = .okS t.toList ∧ (∀ i j, t.toMatrix i j = a.toMatrix j i) ∧
      t.x = ⟨a.x.x, a.y.x, a.z.x⟩ ∧ t.y = ⟨a.x.y, a.y.y, a.z.y⟩ ∧ t.z = ⟨a.x.z, a.y.z, a.z.z⟩ ∧
      t_m3_transpose (envL t.toList) = .okS a.toList :=
  ⟨a.transpose, Trace.C01.t_m3_transpose a, C01.M3.transpose_get a, rfl, rfl, rfl, by
    rw [Trace.C01.t_m3_transpose]; rfl⟩

/-! ## diagonal, trace -/
/-- `diagonal()` and `trace()` as computed read exactly the elements `m[c][c]` -/
theorem code_m4_diagonal_trace (a : M4 K) :
    ∃ (d : V4 K) (tr : K), t_m4_diagonal (envL a.toList) = .okS d.toList ∧ t_m4_trace (envL a.toList) = .okS [tr] ∧
      d = ⟨a.x.x, a.y.y, a.z.z, a.w.w⟩ ∧ d.toFun = Matrix.diag a.toMatrix ∧
      tr = a.x.x + a.y.y + a.z.z + a.w.w ∧ tr = Matrix.trace a.toMatrix :=
  ⟨a.diagonal, a.trace, Trace.C01Auto.t_m4_diagonal a, Trace.C01Auto.t_m4_trace a, rfl, C01.M4.diagonal_get a,
    (C01.M4.trace_eq a).1, (C01.M4.trace_eq a).2⟩
theorem code_m3_diagonal_trace (a : M3 K) :
    ∃ (d : V3 K) (tr : K), t_m3_diagonal (envL a.toList) = .okS d.toList ∧ t_m3_trace (envL a.toList) = .okS [tr] ∧
      d = ⟨a.x.x, a.y.y, a.z.z⟩ ∧ d.toFun = Matrix.diag a.toMatrix ∧
      tr = a.x.x + a.y.y + a.z.z ∧ tr = Matrix.trace a.toMatrix :=
  ⟨a.diagonal, a.trace, Trace.C01Auto.t_m3_diagonal a, Trace.C01Auto.t_m3_trace a, rfl, C01.M3.diagonal_get a,
    (C01.M3.trace_eq a).1, (C01.M3.trace_eq a).2⟩
theorem code_m2_diagonal_trace (a : M2 K) :
    ∃ (d : V2 K) (tr : K), t_m2_diagonal (envL a.toList) = .okS d.toList ∧ t_m2_trace (envL a.toList) = .okS [tr] ∧
      d = ⟨a.x.x, a.y.y⟩ ∧ d.toFun = Matrix.diag a.toMatrix ∧
      tr = a.x.x + a.y.y ∧ tr = Matrix.trace a.toMatrix :=
  ⟨a.diagonal, a.trace, Trace.C01Auto.t_m2_diagonal a, Trace.C01Auto.t_m2_trace a, rfl, C01.M2.diagonal_get a,
    (C01.M2.trace_eq a).1, (C01.M2.trace_eq a).2⟩

/-! ## `from_value`, `from_diagonal`, `identity` / `one`, `zero` -/
/-- `Matrix4::from_value(s)`, `from_diagonal(d)`, `identity()`, `one()`, `zero()` as computed: diagonal matrices with the
documented entries; multiplying a vector -- with the traced `Matrix4 * Vector4` -- scales it by `s`, resp. component-wise by
`d`, resp. leaves it unchanged -/
theorem code_m4_from_value (s : K) (d v : V4 K) :
    ∃ ms md : M4 K, t_m4_from_value (envL [s]) = .okS ms.toList ∧ t_m4_from_diagonal (envL d.toList) = .okS md.toList ∧
      ms.toMatrix = Matrix.diagonal (fun _ => s) ∧ md.toMatrix = Matrix.diagonal d.toFun ∧
      t_m4_mul_v (envL (ms.toList ++ v.toList)) = .okS (v * s).toList ∧
      t_m4_mul_v (envL (md.toList ++ v.toList)) = .okS (V4.mulEw d v).toList ∧
      t_m4_identity (envL ([] : List K)) = .okS (M4.one : M4 K).toList ∧
      t_m4_one (envL ([] : List K)) = .okS (M4.one : M4 K).toList ∧
      t_m4_zero (envL ([] : List K)) = .okS (M4.zero : M4 K).toList ∧
      (M4.one : M4 K).toMatrix = 1 ∧ (M4.zero : M4 K).toMatrix = 0 ∧
      t_m4_mul_v (envL ((M4.one : M4 K).toList ++ v.toList)) = .okS v.toList := by
  obtain ⟨h1, h2, h3, h4, h5⟩ := C01.M4.fromValue_spec s d v
  obtain ⟨-, -, -, -, e0, e1⟩ := C01.M4.elementwise (M4.one : M4 K) M4.one (1 : K)
  refine ⟨_, _, Trace.C01Auto.t_m4_from_value s, Trace.C01Auto.t_m4_from_diagonal d, h1, h2, ?_, ?_,
    Trace.C01Auto.t_m4_identity, Trace.C01Auto.t_m4_one, Trace.C01Auto.t_m4_zero, e1, e0, ?_⟩
  · rw [Trace.C01.t_m4_mul_v]; exact congrArg (fun w : V4 K => Tr.okS w.toList) h3
  · rw [Trace.C01.t_m4_mul_v]; exact congrArg (fun w : V4 K => Tr.okS w.toList) h4
  · rw [Trace.C01.t_m4_mul_v]; exact congrArg (fun w : V4 K => Tr.okS w.toList) h5
theorem code_m3_from_value (s : K) (d v : V3 K) :
    ∃ ms md : M3 K, t_m3_from_value (envL [s]) = .okS ms.toList ∧ t_m3_from_diagonal (envL d.toList) = .okS md.toList ∧
      ms.toMatrix = Matrix.diagonal (fun _ => s) ∧ md.toMatrix = Matrix.diagonal d.toFun ∧
      t_m3_mul_v (envL (ms.toList ++ v.toList)) = .okS (v * s).toList ∧
      t_m3_mul_v (envL (md.toList ++ v.toList)) = .okS (V3.mulEw d v).toList ∧
      t_m3_identity (envL ([] : List K)) = .okS (M3.one : M3 K).toList ∧
      t_m3_one (envL ([] : List K)) = .okS (M3.one : M3 K).toList ∧
      t_m3_zero (envL ([] : List K)) = .okS (M3.zero : M3 K).toList ∧
      (M3.one : M3 K).toMatrix = 1 ∧ (M3.zero : M3 K).toMatrix = 0 ∧
      t_m3_mul_v (envL ((M3.one : M3 K).toList ++ v.toList)) = .okS v.toList := by
  obtain ⟨h1, h2, h3, h4, h5⟩ := C01.M3.fromValue_spec s d v
  obtain ⟨-, -, -, -, e0, e1⟩ := C01.M3.elementwise (M3.one : M3 K) M3.one (1 : K)
  refine ⟨_, _, Trace.C01Auto.t_m3_from_value s, Trace.C01Auto.t_m3_from_diagonal d, h1, h2, ?_, ?_,
    Trace.C01Auto.t_m3_identity, Trace.C01Auto.t_m3_one, Trace.C01Auto.t_m3_zero, e1, e0, ?_⟩
  · rw [Trace.C01.t_m3_mul_v]; exact congrArg (fun w : V3 K => Tr.okS w.toList) h3
  · rw [Trace.C01.t_m3_mul_v]; exact congrArg (fun w : V3 K => Tr.okS w.toList) h4
  · rw [Trace.C01.t_m3_mul_v]; exact congrArg (fun w : V3 K => Tr.okS w.toList) h5
theorem code_m2_from_value (s : K) (d v : V2 K) :
    ∃ ms md : M2 K, t_m2_from_value (envL [s]) = .okS ms.toList ∧ t_m2_from_diagonal (envL d.toList) = .okS md.toList ∧
      ms.toMatrix = Matrix.diagonal (fun _ => s) ∧ md.toMatrix = Matrix.diagonal d.toFun ∧
      t_m2_mul_v (envL (ms.toList ++ v.toList)) = .okS (v * s).toList ∧
      t_m2_mul_v (envL (md.toList ++ v.toList)) = .okS (V2.mulEw d v).toList ∧
      t_m2_identity (envL ([] : List K)) = .okS (M2.one : M2 K).toList ∧
      t_m2_one (envL ([] : List K)) = .okS (M2.one : M2 K).toList ∧
      t_m2_zero (envL ([] : List K)) = .okS (M2.zero : M2 K).toList ∧
      (M2.one : M2 K).toMatrix = 1 ∧ (M2.zero : M2 K).toMatrix = 0 ∧
      t_m2_mul_v (envL ((M2.one : M2 K).toList ++ v.toList)) = .okS v.toList := by
  obtain ⟨h1, h2, h3, h4, h5⟩ := C01.M2.fromValue_spec s d v
  obtain ⟨-, -, -, -, e0, e1⟩ := C01.M2.elementwise (M2.one : M2 K) M2.one (1 : K)
  refine ⟨_, _, Trace.C01Auto.t_m2_from_value s, Trace.C01Auto.t_m2_from_diagonal d, h1, h2, ?_, ?_,
    Trace.C01Auto.t_m2_identity, Trace.C01Auto.t_m2_one, Trace.C01Auto.t_m2_zero, e1, e0, ?_⟩
  · rw [Trace.C01.t_m2_mul_v]; exact congrArg (fun w : V2 K => Tr.okS w.toList) h3
  · rw [Trace.C01.t_m2_mul_v]; exact congrArg (fun w : V2 K => Tr.okS w.toList) h4
  · rw [Trace.C01.t_m2_mul_v]; exact congrArg (fun w : V2 K => Tr.okS w.toList) h5

/-! ### `from_value` / `from_diagonal` as transforms -/
/-- model lemma: **`Matrix4::from_value(s)` fixes every point** when `s ≠ 0` -- the homogeneous coordinate is scaled by `s` too
and `transform_point` divides by it -- while it scales vectors by `s` (`transform_vector` drops `w`); `from_diagonal(d)` scales
a point by `d.xyz / d.w` -/
theorem M4.fromValue_transform (s : K) (d : V4 K) (p : P3 K) (v : V3 K) :
    (s ≠ 0 → (M4.fromValue s).transformPoint p = p) ∧ (M4.fromValue s).transformVector v = v * s ∧
    (d.w ≠ 0 → (M4.fromDiagonal d).transformPoint p = ⟨d.x * p.x / d.w, d.y * p.y / d.w, d.z * p.z / d.w⟩) ∧
    (M4.fromDiagonal d).transformVector v = V3.mulEw d.truncate v := by
  refine ⟨fun hs => ?_, ?_, fun hw => ?_, ?_⟩
  · ext <;> simp [M4.fromValue, M4.transformPoint] <;> field_simp
  · ext <;> simp [M4.fromValue, M4.transformVector] <;> ring
  · ext <;> simp [M4.fromDiagonal, M4.transformPoint] <;> ring
  · ext <;> simp [M4.fromDiagonal, M4.transformVector]
/-- ... as computed: the traced `transform_point` on the traced `from_value(s)` matrix returns the point itself (`s ≠ 0`), the
traced `transform_vector` returns `v * s` -/
theorem code_m4_from_value_transform (s : K) (hs : s ≠ 0) (d : V4 K) (hw : d.w ≠ 0) (p : P3 K) (v : V3 K) :
    t_m4_transform_point (envL ((t_m4_from_value (envL [s])).out ++ p.toList)) = .okS p.toList ∧
    t_m4_transform_vector (envL ((t_m4_from_value (envL [s])).out ++ v.toList)) = .okS (v * s).toList ∧
    t_m4_transform_point (envL ((t_m4_from_diagonal (envL d.toList)).out ++ p.toList)) =
      .okS (⟨d.x * p.x / d.w, d.y * p.y / d.w, d.z * p.z / d.w⟩ : P3 K).toList ∧
    t_m4_transform_vector (envL ((t_m4_from_diagonal (envL d.toList)).out ++ v.toList)) =
      .okS (V3.mulEw d.truncate v).toList := by
  obtain ⟨h1, h2, h3, h4⟩ := M4.fromValue_transform s d p v
  rw [Trace.C01Auto.t_m4_from_value, Trace.C01Auto.t_m4_from_diagonal]
  refine ⟨?_, ?_, ?_, ?_⟩
  · show t_m4_transform_point (envL ((M4.fromValue s).toList ++ p.toList)) = _
    rw [Trace.C01.t_m4_transform_point, h1 hs]
  · show t_m4_transform_vector (envL ((M4.fromValue s).toList ++ v.toList)) = _
    rw [Trace.C01.t_m4_transform_vector, h2]
  · show t_m4_transform_point (envL ((M4.fromDiagonal d).toList ++ p.toList)) = _
    rw [Trace.C01.t_m4_transform_point, h3 hw]
  · show t_m4_transform_vector (envL ((M4.fromDiagonal d).toList ++ v.toList)) = _
    rw [Trace.C01.t_m4_transform_vector, h4]
/-- the hypotheses are satisfiable, and for `s = 0` the point is NOT fixed (it goes to the origin: `0/0 = 0` in a field; the
code returns NaNs) -/
example : (2 : ℚ) ≠ 0 ∧ (M4.fromValue (0 : ℚ)).transformPoint ⟨1, 2, 3⟩ ≠ ⟨1, 2, 3⟩ := by
  refine ⟨by norm_num, ?_⟩
  intro h
  have := congrArg P3.x h
  simp [M4.fromValue, M4.transformPoint] at this

/-- `Matrix3::from_value(s)` / `from_diagonal(d)` as 2-D transforms (no division: the homogeneous coordinate is dropped) and as
3-D transforms, as computed -/
theorem code_m3_from_value_transform (s : K) (d : V3 K) (p2 : P2 K) (v2 : V2 K) (p : P3 K) (v : V3 K) :
    t_m3_transform_point2 (envL ((t_m3_from_value (envL [s])).out ++ p2.toList)) = .okS (p2 * s).toList ∧
    t_m3_transform_vector2 (envL ((t_m3_from_value (envL [s])).out ++ v2.toList)) = .okS (v2 * s).toList ∧
    t_m3_transform_point2 (envL ((t_m3_from_diagonal (envL d.toList)).out ++ p2.toList)) =
      .okS (P2.mulEw ⟨d.x, d.y⟩ p2).toList ∧
    t_m3_transform_vector2 (envL ((t_m3_from_diagonal (envL d.toList)).out ++ v2.toList)) =
      .okS (V2.mulEw ⟨d.x, d.y⟩ v2).toList ∧
    t_m3_transform_point (envL ((t_m3_from_value (envL [s])).out ++ p.toList)) = .okS (p * s).toList ∧
    t_m3_transform_vector (envL ((t_m3_from_value (envL [s])).out ++ v.toList)) = .okS (v * s).toList ∧
    t_m3_transform_point (envL ((t_m3_from_diagonal (envL d.toList)).out ++ p.toList)) =
      .okS (P3.mulEw ⟨d.x, d.y, d.z⟩ p).toList ∧
    t_m3_transform_vector (envL ((t_m3_from_diagonal (envL d.toList)).out ++ v.toList)) = .okS (V3.mulEw d v).toList := by
  rw [Trace.C01Auto.t_m3_from_value, Trace.C01Auto.t_m3_from_diagonal]
  have a1 : (M3.fromValue s).transformPoint2 p2 = p2 * s := by cg_ring
  have a2 : (M3.fromValue s).transformVector2 v2 = v2 * s := by cg_ring
  have a3 : (M3.fromDiagonal d).transformPoint2 p2 = P2.mulEw ⟨d.x, d.y⟩ p2 := by cg_ring
  have a4 : (M3.fromDiagonal d).transformVector2 v2 = V2.mulEw ⟨d.x, d.y⟩ v2 := by cg_ring
  have a5 : (M3.fromValue s).transformPoint p = p * s := by cg_ring
  have a6 : (M3.fromValue s).transformVector v = v * s := by cg_ring
  have a7 : (M3.fromDiagonal d).transformPoint p = P3.mulEw ⟨d.x, d.y, d.z⟩ p := by cg_ring
  have a8 : (M3.fromDiagonal d).transformVector v = V3.mulEw d v := by cg_ring
  refine ⟨?_, ?_, ?_, ?_, ?_, ?_, ?_, ?_⟩
  · show t_m3_transform_point2 (envL ((M3.fromValue s).toList ++ p2.toList)) = _
    rw [Trace.C01.t_m3_transform_point2, a1]
  · show t_m3_transform_vector2 (envL ((M3.fromValue s).toList ++ v2.toList)) = _
    rw [Trace.C01.t_m3_transform_vector2, a2]
  · show t_m3_transform_point2 (envL ((M3.fromDiagonal d).toList ++ p2.toList)) = _
    rw [Trace.C01.t_m3_transform_point2, a3]
  · show t_m3_transform_vector2 (envL ((M3.fromDiagonal d).toList ++ v2.toList)) = _
    rw [Trace.C01.t_m3_transform_vector2, a4]
  · show t_m3_transform_point (envL ((M3.fromValue s).toList ++ p.toList)) = _
    rw [Trace.C01.t_m3_transform_point, a5]
  · show t_m3_transform_vector (envL ((M3.fromValue s).toList ++ v.toList)) = _
    rw [Trace.C01.t_m3_transform_vector, a6]
  · show t_m3_transform_point (envL ((M3.fromDiagonal d).toList ++ p.toList)) = _
    rw [Trace.C01.t_m3_transform_point, a7]
  · show t_m3_transform_vector (envL ((M3.fromDiagonal d).toList ++ v.toList)) = _
    rw [Trace.C01.t_m3_transform_vector, a8]

/-- the 2-D constructors `Matrix3::from_scale / from_nonuniform_scale / from_translation` as computed, applied with the traced
2-D `transform_point` / `transform_vector` -/
theorem code_m3_constructors (s x y : K) (t : V2 K) (p : P2 K) (v : V2 K) :
    t_m3_transform_point2 (envL ((t_m3_from_scale (envL [s])).out ++ p.toList)) = .okS (p * s).toList ∧
    t_m3_transform_vector2 (envL ((t_m3_from_scale (envL [s])).out ++ v.toList)) = .okS (v * s).toList ∧
    t_m3_transform_point2 (envL ((t_m3_from_nonuniform_scale (envL [x, y])).out ++ p.toList)) =
      .okS (P2.mulEw ⟨x, y⟩ p).toList ∧
    t_m3_transform_vector2 (envL ((t_m3_from_nonuniform_scale (envL [x, y])).out ++ v.toList)) =
      .okS (V2.mulEw ⟨x, y⟩ v).toList ∧
    t_m3_transform_point2 (envL ((t_m3_from_translation (envL t.toList)).out ++ p.toList)) = .okS (p + t).toList ∧
    t_m3_transform_vector2 (envL ((t_m3_from_translation (envL t.toList)).out ++ v.toList)) = .okS v.toList := by
  obtain ⟨h1, h2, h3, h4, h5, h6⟩ := C01.M3.scale_translation s x y t p v
  rw [Trace.C01.t_m3_from_scale, Trace.C01.t_m3_from_nonuniform_scale, Trace.C01.t_m3_from_translation]
  refine ⟨?_, ?_, ?_, ?_, ?_, ?_⟩
  · show t_m3_transform_point2 (envL ((M3.fromScale s).toList ++ p.toList)) = _
    rw [Trace.C01.t_m3_transform_point2, h1]
  · show t_m3_transform_vector2 (envL ((M3.fromScale s).toList ++ v.toList)) = _
    rw [Trace.C01.t_m3_transform_vector2, h2]
  · show t_m3_transform_point2 (envL ((M3.fromNonuniformScale x y).toList ++ p.toList)) = _
    rw [Trace.C01.t_m3_transform_point2, h3]
  · show t_m3_transform_vector2 (envL ((M3.fromNonuniformScale x y).toList ++ v.toList)) = _
    rw [Trace.C01.t_m3_transform_vector2, h4]
  · show t_m3_transform_point2 (envL ((M3.fromTranslation t).toList ++ p.toList)) = _
    rw [Trace.C01.t_m3_transform_point2, h5]
  · show t_m3_transform_vector2 (envL ((M3.fromTranslation t).toList ++ v.toList)) = _
    rw [Trace.C01.t_m3_transform_vector2, h6]

/-- the 3-D constructors of `Matrix4` as computed, applied with the traced `transform_point` / `transform_vector` (kernel on
kernel; `Cgm/E2E/C01.lean` applies the model's functions), including the `from_nonuniform_scale` action on vectors -/
theorem code_m4_constructors_apply (s x y z : K) (t : V3 K) (p : P3 K) (v : V3 K) :
    t_m4_transform_point (envL ((t_m4_from_scale (envL [s])).out ++ p.toList)) = .okS (p * s).toList ∧
    t_m4_transform_vector (envL ((t_m4_from_scale (envL [s])).out ++ v.toList)) = .okS (v * s).toList ∧
    t_m4_transform_point (envL ((t_m4_from_nonuniform_scale (envL [x, y, z])).out ++ p.toList)) =
      .okS (P3.mulEw ⟨x, y, z⟩ p).toList ∧
    t_m4_transform_vector (envL ((t_m4_from_nonuniform_scale (envL [x, y, z])).out ++ v.toList)) =
      .okS (V3.mulEw ⟨x, y, z⟩ v).toList ∧
    t_m4_transform_point (envL ((t_m4_from_translation (envL t.toList)).out ++ p.toList)) = .okS (p + t).toList ∧
    t_m4_transform_vector (envL ((t_m4_from_translation (envL t.toList)).out ++ v.toList)) = .okS v.toList := by
  obtain ⟨h1, h2, h3, h4, h5, h6⟩ := C01.M4.scale_translation s x y z t p v
  rw [Trace.C01.t_m4_from_scale, Trace.C01.t_m4_from_nonuniform_scale, Trace.C01.t_m4_from_translation]
  refine ⟨?_, ?_, ?_, ?_, ?_, ?_⟩
  · show t_m4_transform_point (envL ((M4.fromScale s).toList ++ p.toList)) = _
    rw [Trace.C01.t_m4_transform_point, h1]
  · show t_m4_transform_vector (envL ((M4.fromScale s).toList ++ v.toList)) = _
    rw [Trace.C01.t_m4_transform_vector, h2]
  · show t_m4_transform_point (envL ((M4.fromNonuniformScale x y z).toList ++ p.toList)) = _
    rw [Trace.C01.t_m4_transform_point, h3]
  · show t_m4_transform_vector (envL ((M4.fromNonuniformScale x y z).toList ++ v.toList)) = _
    rw [Trace.C01.t_m4_transform_vector, h4]
  · show t_m4_transform_point (envL ((M4.fromTranslation t).toList ++ p.toList)) = _
    rw [Trace.C01.t_m4_transform_point, h5]
  · show t_m4_transform_vector (envL ((M4.fromTranslation t).toList ++ v.toList)) = _
    rw [Trace.C01.t_m4_transform_vector, h6]

/-! ## element-wise `+`, `-`, unary `-`, `* s`, `/ s` -/
/-- the element-wise operators as computed are Mathlib's entry-wise operations on the matrices with the same entries (so entry
`(i, j)` of the result only involves entries `(i, j)` of the arguments); `/ s` is `* s⁻¹` -/
theorem code_m4_elementwise (a b : M4 K) (s : K) :
    ∃ p q n ms md : M4 K, t_m4_add (envL (a.toList ++ b.toList)) = .okS p.toList ∧
      t_m4_sub (envL (a.toList ++ b.toList)) = .okS q.toList ∧ t_m4_neg (envL a.toList) = .okS n.toList ∧
      t_m4_mul_s (envL (a.toList ++ [s])) = .okS ms.toList ∧ t_m4_div_s (envL (a.toList ++ [s])) = .okS md.toList ∧
      p.toMatrix = a.toMatrix + b.toMatrix ∧ q.toMatrix = a.toMatrix - b.toMatrix ∧ n.toMatrix = -a.toMatrix ∧
      ms.toMatrix = s • a.toMatrix ∧ md.toMatrix = s⁻¹ • a.toMatrix := by
  obtain ⟨h1, h2, h3, h4, -, -⟩ := C01.M4.elementwise a b s
  refine ⟨a + b, a - b, -a, a * s, a / s, Trace.C01.t_m4_add a b, Trace.C01Auto.t_m4_sub a b, Trace.C01Auto.t_m4_neg a,
    Trace.C01.t_m4_mul_s a s, Trace.C01.t_m4_div_s a s, h1, h2, h3, h4, ?_⟩
  rw [C01.M4.div_eq]; exact (C01.M4.elementwise a b s⁻¹).2.2.2.1
theorem code_m3_elementwise (a b : M3 K) (s : K) :
    ∃ p q n ms md : M3 K, t_m3_add (envL (a.toList ++ b.toList)) = .okS p.toList ∧
      t_m3_sub (envL (a.toList ++ b.toList)) = .okS q.toList ∧ t_m3_neg (envL a.toList) = .okS n.toList ∧
      t_m3_mul_s (envL (a.toList ++ [s])) = .okS ms.toList ∧ t_m3_div_s (envL (a.toList ++ [s])) = .okS md.toList ∧
      p.toMatrix = a.toMatrix + b.toMatrix ∧ q.toMatrix = a.toMatrix - b.toMatrix ∧ n.toMatrix = -a.toMatrix ∧
      ms.toMatrix = s • a.toMatrix ∧ md.toMatrix = s⁻¹ • a.toMatrix := by
  obtain ⟨h1, h2, h3, h4, -, -⟩ := C01.M3.elementwise a b s
  refine ⟨a + b, a - b, -a, a * s, a / s, Trace.C01Auto.t_m3_add a b, Trace.C01Auto.t_m3_sub a b, Trace.C01Auto.t_m3_neg a,
    Trace.C01Auto.t_m3_mul_s a s, Trace.C01Auto.t_m3_div_s a s, h1, h2, h3, h4, ?_⟩
  rw [C01.M3.div_eq]; exact (C01.M3.elementwise a b s⁻¹).2.2.2.1
theorem code_m2_elementwise (a b : M2 K) (s : K) :
    ∃ p q n ms md : M2 K, t_m2_add (envL (a.toList ++ b.toList)) = .okS p.toList ∧
      t_m2_sub (envL (a.toList ++ b.toList)) = .okS q.toList ∧ t_m2_neg (envL a.toList) = .okS n.toList ∧
      t_m2_mul_s (envL (a.toList ++ [s])) = .okS ms.toList ∧ t_m2_div_s (envL (a.toList ++ [s])) = .okS md.toList ∧
      p.toMatrix = a.toMatrix + b.toMatrix ∧ q.toMatrix = a.toMatrix - b.toMatrix ∧ n.toMatrix = -a.toMatrix ∧
      ms.toMatrix = s • a.toMatrix ∧ md.toMatrix = s⁻¹ • a.toMatrix := by
  obtain ⟨h1, h2, h3, h4, -, -⟩ := C01.M2.elementwise a b s
  refine ⟨a + b, a - b, -a, a * s, a / s, Trace.C01Auto.t_m2_add a b, Trace.C01Auto.t_m2_sub a b, Trace.C01Auto.t_m2_neg a,
    Trace.C01Auto.t_m2_mul_s a s, Trace.C01Auto.t_m2_div_s a s, h1, h2, h3, h4, ?_⟩
  rw [C01.M2.div_eq]; exact (C01.M2.elementwise a b s⁻¹).2.2.2.1

/-! ## ring laws on the kernels: associativity, distributivity, `Sum` / `Product` of a list -/
/-- two ring laws on the traced product and sum (associativity and left distributivity; only these two laws are stated in this theorem): `(a b) c = a (b c)`
and `a (b + c) = a b + a c` with every operation the traced one; `Sum` / `Product` over a three-element list are `l1 + l2 + l3` and `l1 l2 l3` -/
theorem code_m4_ring (a b c : M4 K) :
    t_m4_mul (envL ((t_m4_mul (envL (a.toList ++ b.toList))).out ++ c.toList)) =
      t_m4_mul (envL (a.toList ++ (t_m4_mul (envL (b.toList ++ c.toList))).out)) ∧
    t_m4_mul (envL (a.toList ++ (t_m4_add (envL (b.toList ++ c.toList))).out)) =
      t_m4_add (envL ((t_m4_mul (envL (a.toList ++ b.toList))).out ++ (t_m4_mul (envL (a.toList ++ c.toList))).out)) ∧
    t_m4_sum_list (envL (a.toList ++ b.toList ++ c.toList)) = .okS (a + b + c).toList ∧
    t_m4_product_list (envL (a.toList ++ b.toList ++ c.toList)) = .okS (a * b * c).toList := by
  obtain ⟨r1, r2, -, r4, -⟩ := C01.M4.ring_laws a b c a.x a.x 0
  rw [Trace.C01.t_m4_mul a b, Trace.C01.t_m4_mul b c, Trace.C01.t_m4_mul a c, Trace.C01.t_m4_add b c]
  refine ⟨?_, ?_, ?_, ?_⟩
  · show t_m4_mul (envL ((a * b).toList ++ c.toList)) = t_m4_mul (envL (a.toList ++ (b * c).toList))
    rw [Trace.C01.t_m4_mul, Trace.C01.t_m4_mul, r1]
  · show t_m4_mul (envL (a.toList ++ (b + c).toList)) = t_m4_add (envL ((a * b).toList ++ (a * c).toList))
    rw [Trace.C01.t_m4_mul, Trace.C01.t_m4_add, r2]
  · rw [Trace.C01Auto.t_m4_sum_list]
    have e : M4.sumList [a, b, c] = a + b + c := by simp only [M4.sumList, List.foldl]; cg_ring
    rw [e]
  · rw [Trace.C01Auto.t_m4_product_list]
    have e : M4.productList [a, b, c] = a * b * c := by
      simp only [M4.productList, List.foldl]; rw [(C01.M4.ring_laws a b c a.x a.x 0).2.2.2.1]
    rw [e]
end Cg.E2E.C01
