import Cgm.Trace.C07Rest
import Cgm.Trace.C07
import Cgm.Props.C07
import Cgm.E2E.C07
/-!
# C07, end to end, remaining kernels: the Euler-angle constructors given angles in degrees (`From<Euler<Deg>>`)

Each angle is converted with `Rad::from(Deg)` (`degToRad`) first: the `Deg` kernels are the `Rad` kernels run at the converted
angles, hence satisfy the clause of `code_from_euler`: the matrix is `from_angle_x(x) * from_angle_y(y) * from_angle_z(z)` at the
converted angles and the quaternion has that same matrix.
-/
set_option linter.unusedSectionVars false
namespace Cg.E2E.C07
open Cg Cg.Gen.C07 Real

section field
variable {K : Type} [Field K] [LinearOrder K] [Transc K] [FRem K] [Lits K]
/-- the `Deg` constructors as computed are the `Rad` constructors as computed at the converted angles -/
theorem code_from_euler_deg_eq_rad (x y z : K) :
    t_m3_from_euler_deg (envL [x, y, z]) = t_m3_from_euler (envL [degToRad x, degToRad y, degToRad z]) ∧
    t_q_from_euler_deg (envL [x, y, z]) = t_q_from_euler (envL [degToRad x, degToRad y, degToRad z]) := by
  constructor
  · rw [Trace.C07Rest.t_m3_from_euler_deg, Trace.C07.t_m3_from_euler]
  · rw [Trace.C07Rest.t_q_from_euler_deg, Trace.C07.t_q_from_euler]
end field

section real
variable [FRem ℝ] [Lits ℝ]
/-- **`Matrix3::from(Euler<Deg>)` / `Quaternion::from(Euler<Deg>)` as computed**: the product of the three axis rotations at the
converted angles, and the quaternion is the product of the three axis quaternions, with that same matrix -/
theorem code_from_euler_deg (x y z : ℝ) :
    t_m3_from_euler_deg (envL [x, y, z]) =
      .okS (M3.fromAngleX (degToRad x) * M3.fromAngleY (degToRad y) * M3.fromAngleZ (degToRad z)).toList ∧
    (∃ q : Quat ℝ, t_q_from_euler_deg (envL [x, y, z]) = .okS q.toList ∧
      q = Quat.fromAngleX (degToRad x) * Quat.fromAngleY (degToRad y) * Quat.fromAngleZ (degToRad z) ∧
      q.toM3 = M3.fromAngleX (degToRad x) * M3.fromAngleY (degToRad y) * M3.fromAngleZ (degToRad z)) := by
  obtain ⟨h1, -, h3⟩ := code_from_euler (degToRad x) (degToRad y) (degToRad z)
  refine ⟨by rw [(code_from_euler_deg_eq_rad x y z).1, h1], ?_⟩
  obtain ⟨q, hq, e1, e2⟩ := h3
  exact ⟨q, by rw [(code_from_euler_deg_eq_rad x y z).2, hq], e1, e2⟩
end real
end Cg.E2E.C07
