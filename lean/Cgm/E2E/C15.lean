import Cgm.Trace.C15
import Cgm.Props.C15
/-!
# C15, end to end: `between_vectors` and `from_arc` as the code computes them, over the reals (see `Cgm/E2E/C02.lean`)
-/
set_option linter.unusedSectionVars false
namespace Cg.E2E.C15
open Cg Cg.Gen.C15
variable [FRem ℝ] [Lits ℝ] [Approx ℝ]

/-- `Quaternion::between_vectors(a, b)` on the general path (both of the code's approximate comparisons false): a unit quaternion
with `r(a) = b`, scalar part `cos(angle/2)`, axis a positive multiple of `a x b`; `Basis3` is its matrix -/
theorem code_between_vectors_general (a b : V3 ℝ) (ha : V3.dot a a = 1) (hb : V3.dot b b = 1) (hc : 0 < 1 + V3.dot a b)
    (h1 : ulpsEqD (V3.dot a b) 1 = false)
    (h2 : ulpsEqD (V3.dot a b / Transc.sqrt (a.magnitude2 * b.magnitude2)) (-1) = false) :
    ∃ r : Quat ℝ, t_q_between_vectors_general (envL (a.toList ++ b.toList)) = .okG r.toList
        [.ulps (V3.dot a b) 1 Trace.C15.eps52 4 false,
         .ulps (V3.dot a b / Transc.sqrt (a.magnitude2 * b.magnitude2)) (-1) Trace.C15.eps52 4 false] ∧
      r.magnitude2 = 1 ∧ r * a = b ∧ r.s = Real.sqrt ((1 + V3.dot a b) / 2) ∧ (∃ k : ℝ, 0 < k ∧ r.v = V3.cross a b * k) ∧
      (Basis3.betweenVectors a b).mat = r.toM3 := by
  have hbr : Quat.betweenVectorsBranch a b = .general := by
    unfold Quat.betweenVectorsBranch
    simp only [h1, h2]
    rfl
  exact ⟨Quat.betweenVectors a b, Trace.C15.t_q_between_vectors_general a b h1 h2, C15.betweenVectors_general a b ha hb hc hbr⟩

/-- the kernel of the path on which the first comparison (`a.b` approximately 1) is recorded as true returns the identity (the
equality holds for every input: the kernel is a closed term and `h1` is logically unused; that this path is the one taken
exactly when the comparison is true is `q_between_vectors_same_consistent`, `E2E/C15g.lean`) -/
theorem code_between_vectors_same (a b : V3 ℝ) (h1 : ulpsEqD (V3.dot a b) 1 = true) :
    t_q_between_vectors_same (envL (a.toList ++ b.toList)) = .okG (Quat.one : Quat ℝ).toList [.ulps (V3.dot a b) 1 Trace.C15.eps52 4 true] := by
  have hbr : Quat.betweenVectorsBranch a b = .same := by
    unfold Quat.betweenVectorsBranch
    simp only [h1]
    rfl
  rw [Trace.C15.t_q_between_vectors_same a b h1, (C15.betweenVectors_same a b hbr).1]

/-- 2-D: `Basis2::between_vectors(a, b)` as computed maps `a` onto `b`, is the rotation by the signed angle `V2.angle a b` from `a` to `b`
(the orientation reading -- clockwise when `b` is clockwise of `a` -- is not a conjunct of this statement), and has determinant +1 -/
theorem code_between_vectors_2d (a b : V2 ℝ) (ha : V2.dot a a = 1) (hb : V2.dot b b = 1) :
    ∃ m : M2 ℝ, t_b2_between_vectors (envL (a.toList ++ b.toList)) = .okS m.toList ∧ m * a = b ∧
      m = M2.fromAngle (V2.angle a b) ∧ m.det = 1 := by
  have h := C15.basis2_betweenVectors a b ha hb
  exact ⟨(Basis2.betweenVectors a b).mat, Trace.C15.t_b2_between_vectors a b, h.1, h.2.1, h.2.2⟩

/-- `from_arc(src, dst, None)` on the general path: a unit quaternion rotating `src/|src|` onto `dst/|dst|` -/
theorem code_from_arc_general (src dst : V3 ℝ) (hs : 0 < src.magnitude2) (hd : 0 < dst.magnitude2)
    (hc : 0 < Real.sqrt (src.magnitude2 * dst.magnitude2) + V3.dot src dst)
    (h1 : ulpsEqD (V3.dot src dst) (Transc.sqrt (src.magnitude2 * dst.magnitude2)) = false)
    (h2 : ulpsEqD (V3.dot src dst) (-Transc.sqrt (src.magnitude2 * dst.magnitude2)) = false) :
    ∃ r : Quat ℝ, t_q_from_arc_general (envL (src.toList ++ dst.toList)) = .okG r.toList
        [.ulps (V3.dot src dst) (Transc.sqrt (src.magnitude2 * dst.magnitude2)) Trace.C15.eps52 4 false,
         .ulps (V3.dot src dst) (-Transc.sqrt (src.magnitude2 * dst.magnitude2)) Trace.C15.eps52 4 false] ∧
      r.magnitude2 = 1 ∧ r * (src * (1 / src.magnitude)) = dst * (1 / dst.magnitude) := by
  have hbr : Quat.fromArcBranch src dst = .general := by
    unfold Quat.fromArcBranch
    simp only [h1, h2]
    rfl
  have he := (C15.fromArc_branches src dst none).2.1 hbr
  have hg := C15.fromArc_general src dst hs hd hc
  exact ⟨Quat.fromArc src dst none, Trace.C15.t_q_from_arc_general src dst h1 h2, by rw [he]; exact hg⟩
end Cg.E2E.C15
