import Cgm.E2E.C17
import Cgm.Trace.C01
import Cgm.Trace.C01Auto
import Cgm.Trace.C03
import Cgm.Trace.C03Auto
import Cgm.Trace.C04
import Cgm.Trace.C04Auto
import Cgm.Trace.C04Rest
import Cgm.Trace.C12
import Cgm.Trace.C12Auto
import Cgm.Trace.C13Auto
import Cgm.Trace.C17Rest
import Cgm.Trace.C17Ops
import Cgm.Trace.C17OpsM
import Cgm.Trace.C17OpsQ
import Cgm.Trace.C17OpsP
import Cgm.Trace.C17OpsA
import Cgm.Trace.C17OpsF
import Cgm.Props.C17c
/-!
# C17, end to end (second part): every traced spelling of an operator returns what the by-value spelling returns; `Sum` /
`Product` by reference and by value agree at every traced length

GENERATED once by `tools/gen_c17_forms.py`; kept as an ordinary source file.

* `forms_<t>_<op>`: the kernels traced from the reference-operand impls (`&a op b`, `a op &b`, `&a op &b`, `-&a`) and from the
  compound-assignment impl (`a op= b`) of one operator (`Gen.C17`, obligations `Cgm/Trace/C17Ops*.lean`) return, on the same
  symbolic operands, the very `Tr` the by-value kernel returns (`Gen.C01` / `C03` / `C04` / `C12` / `C13`), and that is the
  model's operator.  For `a op= b` the chain is: kernel = the field-by-field assignment definition (`Cgm/Model/Assign.lean`,
  T obligation) = the by-value operator (`Cg.C17.<T>.<op>Assign_eq`, `Cgm/Props/C17c.lean`) = the by-value kernel.
* `fold_<t>_<op>_n<k>`: at the lengths 0, 1, 2, 4, 5 the by-reference fold kernel equals the by-value one and both are the
  left fold from `zero()` / `one()` (length 3: `Cgm/E2E/C17.lean`).
-/
set_option linter.unusedSectionVars false
set_option linter.unusedVariables false
namespace Cg.E2E.C17
open Cg
variable {K : Type} [Field K] [Transc K] [FRem K] [Lits K]

/-- `v1.add`: the traced forms `&a + b`, `a + &b`, `&a + &b`, `a += b` return what the by-value kernel (`Gen.C03.t_v1_add`) returns, the compound assignment through the assignment code of `Assign.lean` and its `_eq` theorem -/
theorem forms_v1_add (u v : V1 K) :
    Gen.C17.t_v1_add_rv (envL (u.toList ++ v.toList)) = Gen.C03.t_v1_add (envL (u.toList ++ v.toList)) ∧
    Gen.C17.t_v1_add_vr (envL (u.toList ++ v.toList)) = Gen.C03.t_v1_add (envL (u.toList ++ v.toList)) ∧
    Gen.C17.t_v1_add_rr (envL (u.toList ++ v.toList)) = Gen.C03.t_v1_add (envL (u.toList ++ v.toList)) ∧
    Gen.C17.t_v1_add_asg (envL (u.toList ++ v.toList)) = Gen.C03.t_v1_add (envL (u.toList ++ v.toList)) ∧
    Gen.C03.t_v1_add (envL (u.toList ++ v.toList)) = .okS (u + v).toList := by
  have hv : Gen.C03.t_v1_add (envL (u.toList ++ v.toList)) = .okS (u + v).toList := Trace.C03Auto.t_v1_add u v
  exact ⟨(Trace.C17Ops.t_v1_add_rv u v).trans hv.symm,
    (Trace.C17Ops.t_v1_add_vr u v).trans hv.symm,
    (Trace.C17Ops.t_v1_add_rr u v).trans hv.symm,
    (Trace.C17Ops.t_v1_add_asg u v).trans ((congrArg (fun w => Tr.okS (V1.toList w)) (Cg.C17.V1.addAssign_eq u v)).trans hv.symm),
    hv⟩
/-- `v2.add`: the traced forms `&a + b`, `a + &b`, `&a + &b`, `a += b` return what the by-value kernel (`Gen.C03.t_v2_add`) returns, the compound assignment through the assignment code of `Assign.lean` and its `_eq` theorem -/
theorem forms_v2_add (u v : V2 K) :
    Gen.C17.t_v2_add_rv (envL (u.toList ++ v.toList)) = Gen.C03.t_v2_add (envL (u.toList ++ v.toList)) ∧
    Gen.C17.t_v2_add_vr (envL (u.toList ++ v.toList)) = Gen.C03.t_v2_add (envL (u.toList ++ v.toList)) ∧
    Gen.C17.t_v2_add_rr (envL (u.toList ++ v.toList)) = Gen.C03.t_v2_add (envL (u.toList ++ v.toList)) ∧
    Gen.C17.t_v2_add_asg (envL (u.toList ++ v.toList)) = Gen.C03.t_v2_add (envL (u.toList ++ v.toList)) ∧
    Gen.C03.t_v2_add (envL (u.toList ++ v.toList)) = .okS (u + v).toList := by
  have hv : Gen.C03.t_v2_add (envL (u.toList ++ v.toList)) = .okS (u + v).toList := Trace.C03Auto.t_v2_add u v
  exact ⟨(Trace.C17Ops.t_v2_add_rv u v).trans hv.symm,
    (Trace.C17Ops.t_v2_add_vr u v).trans hv.symm,
    (Trace.C17Ops.t_v2_add_rr u v).trans hv.symm,
    (Trace.C17Ops.t_v2_add_asg u v).trans ((congrArg (fun w => Tr.okS (V2.toList w)) (Cg.C17.V2.addAssign_eq u v)).trans hv.symm),
    hv⟩
/-- `v3.add`: the traced forms `&a + b`, `a + &b`, `&a + &b`, `a += b` return what the by-value kernel (`Gen.C03.t_v3_add`) returns, the compound assignment through the assignment code of `Assign.lean` and its `_eq` theorem -/
theorem forms_v3_add (u v : V3 K) :
    Gen.C17.t_v3_add_rv (envL (u.toList ++ v.toList)) = Gen.C03.t_v3_add (envL (u.toList ++ v.toList)) ∧
    Gen.C17.t_v3_add_vr (envL (u.toList ++ v.toList)) = Gen.C03.t_v3_add (envL (u.toList ++ v.toList)) ∧
    Gen.C17.t_v3_add_rr (envL (u.toList ++ v.toList)) = Gen.C03.t_v3_add (envL (u.toList ++ v.toList)) ∧
    Gen.C17.t_v3_add_asg (envL (u.toList ++ v.toList)) = Gen.C03.t_v3_add (envL (u.toList ++ v.toList)) ∧
    Gen.C03.t_v3_add (envL (u.toList ++ v.toList)) = .okS (u + v).toList := by
  have hv : Gen.C03.t_v3_add (envL (u.toList ++ v.toList)) = .okS (u + v).toList := Trace.C03.t_v3_add u v
  exact ⟨(Trace.C17Ops.t_v3_add_rv u v).trans hv.symm,
    (Trace.C17Ops.t_v3_add_vr u v).trans hv.symm,
    (Trace.C17Ops.t_v3_add_rr u v).trans hv.symm,
    (Trace.C17Ops.t_v3_add_asg u v).trans ((congrArg (fun w => Tr.okS (V3.toList w)) (Cg.C17.V3.addAssign_eq u v)).trans hv.symm),
    hv⟩
/-- `v4.add`: the traced forms `&a + b`, `a + &b`, `&a + &b`, `a += b` return what the by-value kernel (`Gen.C03.t_v4_add`) returns, the compound assignment through the assignment code of `Assign.lean` and its `_eq` theorem -/
theorem forms_v4_add (u v : V4 K) :
    Gen.C17.t_v4_add_rv (envL (u.toList ++ v.toList)) = Gen.C03.t_v4_add (envL (u.toList ++ v.toList)) ∧
    Gen.C17.t_v4_add_vr (envL (u.toList ++ v.toList)) = Gen.C03.t_v4_add (envL (u.toList ++ v.toList)) ∧
    Gen.C17.t_v4_add_rr (envL (u.toList ++ v.toList)) = Gen.C03.t_v4_add (envL (u.toList ++ v.toList)) ∧
    Gen.C17.t_v4_add_asg (envL (u.toList ++ v.toList)) = Gen.C03.t_v4_add (envL (u.toList ++ v.toList)) ∧
    Gen.C03.t_v4_add (envL (u.toList ++ v.toList)) = .okS (u + v).toList := by
  have hv : Gen.C03.t_v4_add (envL (u.toList ++ v.toList)) = .okS (u + v).toList := Trace.C03Auto.t_v4_add u v
  exact ⟨(Trace.C17Ops.t_v4_add_rv u v).trans hv.symm,
    (Trace.C17Ops.t_v4_add_vr u v).trans hv.symm,
    (Trace.C17Ops.t_v4_add_rr u v).trans hv.symm,
    (Trace.C17Ops.t_v4_add_asg u v).trans ((congrArg (fun w => Tr.okS (V4.toList w)) (Cg.C17.V4.addAssign_eq u v)).trans hv.symm),
    hv⟩
/-- `v1.sub`: the traced forms `&a - b`, `a - &b`, `&a - &b`, `a -= b` return what the by-value kernel (`Gen.C03.t_v1_sub`) returns, the compound assignment through the assignment code of `Assign.lean` and its `_eq` theorem -/
theorem forms_v1_sub (u v : V1 K) :
    Gen.C17.t_v1_sub_rv (envL (u.toList ++ v.toList)) = Gen.C03.t_v1_sub (envL (u.toList ++ v.toList)) ∧
    Gen.C17.t_v1_sub_vr (envL (u.toList ++ v.toList)) = Gen.C03.t_v1_sub (envL (u.toList ++ v.toList)) ∧
    Gen.C17.t_v1_sub_rr (envL (u.toList ++ v.toList)) = Gen.C03.t_v1_sub (envL (u.toList ++ v.toList)) ∧
    Gen.C17.t_v1_sub_asg (envL (u.toList ++ v.toList)) = Gen.C03.t_v1_sub (envL (u.toList ++ v.toList)) ∧
    Gen.C03.t_v1_sub (envL (u.toList ++ v.toList)) = .okS (u - v).toList := by
  have hv : Gen.C03.t_v1_sub (envL (u.toList ++ v.toList)) = .okS (u - v).toList := Trace.C03Auto.t_v1_sub u v
  exact ⟨(Trace.C17Ops.t_v1_sub_rv u v).trans hv.symm,
    (Trace.C17Ops.t_v1_sub_vr u v).trans hv.symm,
    (Trace.C17Ops.t_v1_sub_rr u v).trans hv.symm,
    (Trace.C17Ops.t_v1_sub_asg u v).trans ((congrArg (fun w => Tr.okS (V1.toList w)) (Cg.C17.V1.subAssign_eq u v)).trans hv.symm),
    hv⟩
/-- `v2.sub`: the traced forms `&a - b`, `a - &b`, `&a - &b`, `a -= b` return what the by-value kernel (`Gen.C03.t_v2_sub`) returns, the compound assignment through the assignment code of `Assign.lean` and its `_eq` theorem -/
theorem forms_v2_sub (u v : V2 K) :
    Gen.C17.t_v2_sub_rv (envL (u.toList ++ v.toList)) = Gen.C03.t_v2_sub (envL (u.toList ++ v.toList)) ∧
    Gen.C17.t_v2_sub_vr (envL (u.toList ++ v.toList)) = Gen.C03.t_v2_sub (envL (u.toList ++ v.toList)) ∧
    Gen.C17.t_v2_sub_rr (envL (u.toList ++ v.toList)) = Gen.C03.t_v2_sub (envL (u.toList ++ v.toList)) ∧
    Gen.C17.t_v2_sub_asg (envL (u.toList ++ v.toList)) = Gen.C03.t_v2_sub (envL (u.toList ++ v.toList)) ∧
    Gen.C03.t_v2_sub (envL (u.toList ++ v.toList)) = .okS (u - v).toList := by
  have hv : Gen.C03.t_v2_sub (envL (u.toList ++ v.toList)) = .okS (u - v).toList := Trace.C03Auto.t_v2_sub u v
  exact ⟨(Trace.C17Ops.t_v2_sub_rv u v).trans hv.symm,
    (Trace.C17Ops.t_v2_sub_vr u v).trans hv.symm,
    (Trace.C17Ops.t_v2_sub_rr u v).trans hv.symm,
    (Trace.C17Ops.t_v2_sub_asg u v).trans ((congrArg (fun w => Tr.okS (V2.toList w)) (Cg.C17.V2.subAssign_eq u v)).trans hv.symm),
    hv⟩
/-- `v3.sub`: the traced forms `&a - b`, `a - &b`, `&a - &b`, `a -= b` return what the by-value kernel (`Gen.C03.t_v3_sub`) returns, the compound assignment through the assignment code of `Assign.lean` and its `_eq` theorem -/
theorem forms_v3_sub (u v : V3 K) :
    Gen.C17.t_v3_sub_rv (envL (u.toList ++ v.toList)) = Gen.C03.t_v3_sub (envL (u.toList ++ v.toList)) ∧
    Gen.C17.t_v3_sub_vr (envL (u.toList ++ v.toList)) = Gen.C03.t_v3_sub (envL (u.toList ++ v.toList)) ∧
    Gen.C17.t_v3_sub_rr (envL (u.toList ++ v.toList)) = Gen.C03.t_v3_sub (envL (u.toList ++ v.toList)) ∧
    Gen.C17.t_v3_sub_asg (envL (u.toList ++ v.toList)) = Gen.C03.t_v3_sub (envL (u.toList ++ v.toList)) ∧
    Gen.C03.t_v3_sub (envL (u.toList ++ v.toList)) = .okS (u - v).toList := by
  have hv : Gen.C03.t_v3_sub (envL (u.toList ++ v.toList)) = .okS (u - v).toList := Trace.C03.t_v3_sub u v
  exact ⟨(Trace.C17Ops.t_v3_sub_rv u v).trans hv.symm,
    (Trace.C17Ops.t_v3_sub_vr u v).trans hv.symm,
    (Trace.C17Ops.t_v3_sub_rr u v).trans hv.symm,
    (Trace.C17Ops.t_v3_sub_asg u v).trans ((congrArg (fun w => Tr.okS (V3.toList w)) (Cg.C17.V3.subAssign_eq u v)).trans hv.symm),
    hv⟩
/-- `v4.sub`: the traced forms `&a - b`, `a - &b`, `&a - &b`, `a -= b` return what the by-value kernel (`Gen.C03.t_v4_sub`) returns, the compound assignment through the assignment code of `Assign.lean` and its `_eq` theorem -/
theorem forms_v4_sub (u v : V4 K) :
    Gen.C17.t_v4_sub_rv (envL (u.toList ++ v.toList)) = Gen.C03.t_v4_sub (envL (u.toList ++ v.toList)) ∧
    Gen.C17.t_v4_sub_vr (envL (u.toList ++ v.toList)) = Gen.C03.t_v4_sub (envL (u.toList ++ v.toList)) ∧
    Gen.C17.t_v4_sub_rr (envL (u.toList ++ v.toList)) = Gen.C03.t_v4_sub (envL (u.toList ++ v.toList)) ∧
    Gen.C17.t_v4_sub_asg (envL (u.toList ++ v.toList)) = Gen.C03.t_v4_sub (envL (u.toList ++ v.toList)) ∧
    Gen.C03.t_v4_sub (envL (u.toList ++ v.toList)) = .okS (u - v).toList := by
  have hv : Gen.C03.t_v4_sub (envL (u.toList ++ v.toList)) = .okS (u - v).toList := Trace.C03Auto.t_v4_sub u v
  exact ⟨(Trace.C17Ops.t_v4_sub_rv u v).trans hv.symm,
    (Trace.C17Ops.t_v4_sub_vr u v).trans hv.symm,
    (Trace.C17Ops.t_v4_sub_rr u v).trans hv.symm,
    (Trace.C17Ops.t_v4_sub_asg u v).trans ((congrArg (fun w => Tr.okS (V4.toList w)) (Cg.C17.V4.subAssign_eq u v)).trans hv.symm),
    hv⟩
/-- `v1.mul`: the traced forms `&a * b`, `a *= b` return what the by-value kernel (`Gen.C03.t_v1_mul`) returns, the compound assignment through the assignment code of `Assign.lean` and its `_eq` theorem -/
theorem forms_v1_mul (u : V1 K) (v : K) :
    Gen.C17.t_v1_mul_rv (envL (u.toList ++ [v])) = Gen.C03.t_v1_mul (envL (u.toList ++ [v])) ∧
    Gen.C17.t_v1_mul_asg (envL (u.toList ++ [v])) = Gen.C03.t_v1_mul (envL (u.toList ++ [v])) ∧
    Gen.C03.t_v1_mul (envL (u.toList ++ [v])) = .okS (u * v).toList := by
  have hv : Gen.C03.t_v1_mul (envL (u.toList ++ [v])) = .okS (u * v).toList := Trace.C03Auto.t_v1_mul u v
  exact ⟨(Trace.C17Ops.t_v1_mul_rv u v).trans hv.symm,
    (Trace.C17Ops.t_v1_mul_asg u v).trans ((congrArg (fun w => Tr.okS (V1.toList w)) (Cg.C17.V1.mulAssignS_eq u v)).trans hv.symm),
    hv⟩
/-- `v2.mul`: the traced forms `&a * b`, `a *= b` return what the by-value kernel (`Gen.C03.t_v2_mul`) returns, the compound assignment through the assignment code of `Assign.lean` and its `_eq` theorem -/
theorem forms_v2_mul (u : V2 K) (v : K) :
    Gen.C17.t_v2_mul_rv (envL (u.toList ++ [v])) = Gen.C03.t_v2_mul (envL (u.toList ++ [v])) ∧
    Gen.C17.t_v2_mul_asg (envL (u.toList ++ [v])) = Gen.C03.t_v2_mul (envL (u.toList ++ [v])) ∧
    Gen.C03.t_v2_mul (envL (u.toList ++ [v])) = .okS (u * v).toList := by
  have hv : Gen.C03.t_v2_mul (envL (u.toList ++ [v])) = .okS (u * v).toList := Trace.C03Auto.t_v2_mul u v
  exact ⟨(Trace.C17Ops.t_v2_mul_rv u v).trans hv.symm,
    (Trace.C17Ops.t_v2_mul_asg u v).trans ((congrArg (fun w => Tr.okS (V2.toList w)) (Cg.C17.V2.mulAssignS_eq u v)).trans hv.symm),
    hv⟩
/-- `v3.mul`: the traced forms `&a * b`, `a *= b` return what the by-value kernel (`Gen.C03.t_v3_mul`) returns, the compound assignment through the assignment code of `Assign.lean` and its `_eq` theorem -/
theorem forms_v3_mul (u : V3 K) (v : K) :
    Gen.C17.t_v3_mul_rv (envL (u.toList ++ [v])) = Gen.C03.t_v3_mul (envL (u.toList ++ [v])) ∧
    Gen.C17.t_v3_mul_asg (envL (u.toList ++ [v])) = Gen.C03.t_v3_mul (envL (u.toList ++ [v])) ∧
    Gen.C03.t_v3_mul (envL (u.toList ++ [v])) = .okS (u * v).toList := by
  have hv : Gen.C03.t_v3_mul (envL (u.toList ++ [v])) = .okS (u * v).toList := Trace.C03.t_v3_mul u v
  exact ⟨(Trace.C17Ops.t_v3_mul_rv u v).trans hv.symm,
    (Trace.C17Ops.t_v3_mul_asg u v).trans ((congrArg (fun w => Tr.okS (V3.toList w)) (Cg.C17.V3.mulAssignS_eq u v)).trans hv.symm),
    hv⟩
/-- `v4.mul`: the traced forms `&a * b`, `a *= b` return what the by-value kernel (`Gen.C03.t_v4_mul`) returns, the compound assignment through the assignment code of `Assign.lean` and its `_eq` theorem -/
theorem forms_v4_mul (u : V4 K) (v : K) :
    Gen.C17.t_v4_mul_rv (envL (u.toList ++ [v])) = Gen.C03.t_v4_mul (envL (u.toList ++ [v])) ∧
    Gen.C17.t_v4_mul_asg (envL (u.toList ++ [v])) = Gen.C03.t_v4_mul (envL (u.toList ++ [v])) ∧
    Gen.C03.t_v4_mul (envL (u.toList ++ [v])) = .okS (u * v).toList := by
  have hv : Gen.C03.t_v4_mul (envL (u.toList ++ [v])) = .okS (u * v).toList := Trace.C03.t_v4_mul u v
  exact ⟨(Trace.C17Ops.t_v4_mul_rv u v).trans hv.symm,
    (Trace.C17Ops.t_v4_mul_asg u v).trans ((congrArg (fun w => Tr.okS (V4.toList w)) (Cg.C17.V4.mulAssignS_eq u v)).trans hv.symm),
    hv⟩
/-- `v1.div`: the traced forms `&a / b`, `a /= b` return what the by-value kernel (`Gen.C03.t_v1_div`) returns, the compound assignment through the assignment code of `Assign.lean` and its `_eq` theorem -/
theorem forms_v1_div (u : V1 K) (v : K) :
    Gen.C17.t_v1_div_rv (envL (u.toList ++ [v])) = Gen.C03.t_v1_div (envL (u.toList ++ [v])) ∧
    Gen.C17.t_v1_div_asg (envL (u.toList ++ [v])) = Gen.C03.t_v1_div (envL (u.toList ++ [v])) ∧
    Gen.C03.t_v1_div (envL (u.toList ++ [v])) = .okS (u / v).toList := by
  have hv : Gen.C03.t_v1_div (envL (u.toList ++ [v])) = .okS (u / v).toList := Trace.C03Auto.t_v1_div u v
  exact ⟨(Trace.C17Ops.t_v1_div_rv u v).trans hv.symm,
    (Trace.C17Ops.t_v1_div_asg u v).trans ((congrArg (fun w => Tr.okS (V1.toList w)) (Cg.C17.V1.divAssignS_eq u v)).trans hv.symm),
    hv⟩
/-- `v2.div`: the traced forms `&a / b`, `a /= b` return what the by-value kernel (`Gen.C03.t_v2_div`) returns, the compound assignment through the assignment code of `Assign.lean` and its `_eq` theorem -/
theorem forms_v2_div (u : V2 K) (v : K) :
    Gen.C17.t_v2_div_rv (envL (u.toList ++ [v])) = Gen.C03.t_v2_div (envL (u.toList ++ [v])) ∧
    Gen.C17.t_v2_div_asg (envL (u.toList ++ [v])) = Gen.C03.t_v2_div (envL (u.toList ++ [v])) ∧
    Gen.C03.t_v2_div (envL (u.toList ++ [v])) = .okS (u / v).toList := by
  have hv : Gen.C03.t_v2_div (envL (u.toList ++ [v])) = .okS (u / v).toList := Trace.C03.t_v2_div u v
  exact ⟨(Trace.C17Ops.t_v2_div_rv u v).trans hv.symm,
    (Trace.C17Ops.t_v2_div_asg u v).trans ((congrArg (fun w => Tr.okS (V2.toList w)) (Cg.C17.V2.divAssignS_eq u v)).trans hv.symm),
    hv⟩
/-- `v3.div`: the traced forms `&a / b`, `a /= b` return what the by-value kernel (`Gen.C03.t_v3_div`) returns, the compound assignment through the assignment code of `Assign.lean` and its `_eq` theorem -/
theorem forms_v3_div (u : V3 K) (v : K) :
    Gen.C17.t_v3_div_rv (envL (u.toList ++ [v])) = Gen.C03.t_v3_div (envL (u.toList ++ [v])) ∧
    Gen.C17.t_v3_div_asg (envL (u.toList ++ [v])) = Gen.C03.t_v3_div (envL (u.toList ++ [v])) ∧
    Gen.C03.t_v3_div (envL (u.toList ++ [v])) = .okS (u / v).toList := by
  have hv : Gen.C03.t_v3_div (envL (u.toList ++ [v])) = .okS (u / v).toList := Trace.C03.t_v3_div u v
  exact ⟨(Trace.C17Ops.t_v3_div_rv u v).trans hv.symm,
    (Trace.C17Ops.t_v3_div_asg u v).trans ((congrArg (fun w => Tr.okS (V3.toList w)) (Cg.C17.V3.divAssignS_eq u v)).trans hv.symm),
    hv⟩
/-- `v4.div`: the traced forms `&a / b`, `a /= b` return what the by-value kernel (`Gen.C03.t_v4_div`) returns, the compound assignment through the assignment code of `Assign.lean` and its `_eq` theorem -/
theorem forms_v4_div (u : V4 K) (v : K) :
    Gen.C17.t_v4_div_rv (envL (u.toList ++ [v])) = Gen.C03.t_v4_div (envL (u.toList ++ [v])) ∧
    Gen.C17.t_v4_div_asg (envL (u.toList ++ [v])) = Gen.C03.t_v4_div (envL (u.toList ++ [v])) ∧
    Gen.C03.t_v4_div (envL (u.toList ++ [v])) = .okS (u / v).toList := by
  have hv : Gen.C03.t_v4_div (envL (u.toList ++ [v])) = .okS (u / v).toList := Trace.C03.t_v4_div u v
  exact ⟨(Trace.C17Ops.t_v4_div_rv u v).trans hv.symm,
    (Trace.C17Ops.t_v4_div_asg u v).trans ((congrArg (fun w => Tr.okS (V4.toList w)) (Cg.C17.V4.divAssignS_eq u v)).trans hv.symm),
    hv⟩
/-- `v1.rem`: the traced forms `&a % b`, `a %= b` return what the by-value kernel (`Gen.C03.t_v1_rem`) returns, the compound assignment through the assignment code of `Assign.lean` and its `_eq` theorem -/
theorem forms_v1_rem (u : V1 K) (v : K) :
    Gen.C17.t_v1_rem_rv (envL (u.toList ++ [v])) = Gen.C03.t_v1_rem (envL (u.toList ++ [v])) ∧
    Gen.C17.t_v1_rem_asg (envL (u.toList ++ [v])) = Gen.C03.t_v1_rem (envL (u.toList ++ [v])) ∧
    Gen.C03.t_v1_rem (envL (u.toList ++ [v])) = .okS (u.rem v).toList := by
  have hv : Gen.C03.t_v1_rem (envL (u.toList ++ [v])) = .okS (u.rem v).toList := Trace.C03Auto.t_v1_rem u v
  exact ⟨(Trace.C17Ops.t_v1_rem_rv u v).trans hv.symm,
    (Trace.C17Ops.t_v1_rem_asg u v).trans ((congrArg (fun w => Tr.okS (V1.toList w)) (Cg.C17.V1.remAssignS_eq u v)).trans hv.symm),
    hv⟩
/-- `v2.rem`: the traced forms `&a % b`, `a %= b` return what the by-value kernel (`Gen.C03.t_v2_rem`) returns, the compound assignment through the assignment code of `Assign.lean` and its `_eq` theorem -/
theorem forms_v2_rem (u : V2 K) (v : K) :
    Gen.C17.t_v2_rem_rv (envL (u.toList ++ [v])) = Gen.C03.t_v2_rem (envL (u.toList ++ [v])) ∧
    Gen.C17.t_v2_rem_asg (envL (u.toList ++ [v])) = Gen.C03.t_v2_rem (envL (u.toList ++ [v])) ∧
    Gen.C03.t_v2_rem (envL (u.toList ++ [v])) = .okS (u.rem v).toList := by
  have hv : Gen.C03.t_v2_rem (envL (u.toList ++ [v])) = .okS (u.rem v).toList := Trace.C03Auto.t_v2_rem u v
  exact ⟨(Trace.C17Ops.t_v2_rem_rv u v).trans hv.symm,
    (Trace.C17Ops.t_v2_rem_asg u v).trans ((congrArg (fun w => Tr.okS (V2.toList w)) (Cg.C17.V2.remAssignS_eq u v)).trans hv.symm),
    hv⟩
/-- `v3.rem`: the traced forms `&a % b`, `a %= b` return what the by-value kernel (`Gen.C03.t_v3_rem`) returns, the compound assignment through the assignment code of `Assign.lean` and its `_eq` theorem -/
theorem forms_v3_rem (u : V3 K) (v : K) :
    Gen.C17.t_v3_rem_rv (envL (u.toList ++ [v])) = Gen.C03.t_v3_rem (envL (u.toList ++ [v])) ∧
    Gen.C17.t_v3_rem_asg (envL (u.toList ++ [v])) = Gen.C03.t_v3_rem (envL (u.toList ++ [v])) ∧
    Gen.C03.t_v3_rem (envL (u.toList ++ [v])) = .okS (u.rem v).toList := by
  have hv : Gen.C03.t_v3_rem (envL (u.toList ++ [v])) = .okS (u.rem v).toList := Trace.C03Auto.t_v3_rem u v
  exact ⟨(Trace.C17Ops.t_v3_rem_rv u v).trans hv.symm,
    (Trace.C17Ops.t_v3_rem_asg u v).trans ((congrArg (fun w => Tr.okS (V3.toList w)) (Cg.C17.V3.remAssignS_eq u v)).trans hv.symm),
    hv⟩
/-- `v4.rem`: the traced forms `&a % b`, `a %= b` return what the by-value kernel (`Gen.C03.t_v4_rem`) returns, the compound assignment through the assignment code of `Assign.lean` and its `_eq` theorem -/
theorem forms_v4_rem (u : V4 K) (v : K) :
    Gen.C17.t_v4_rem_rv (envL (u.toList ++ [v])) = Gen.C03.t_v4_rem (envL (u.toList ++ [v])) ∧
    Gen.C17.t_v4_rem_asg (envL (u.toList ++ [v])) = Gen.C03.t_v4_rem (envL (u.toList ++ [v])) ∧
    Gen.C03.t_v4_rem (envL (u.toList ++ [v])) = .okS (u.rem v).toList := by
  have hv : Gen.C03.t_v4_rem (envL (u.toList ++ [v])) = .okS (u.rem v).toList := Trace.C03Auto.t_v4_rem u v
  exact ⟨(Trace.C17Ops.t_v4_rem_rv u v).trans hv.symm,
    (Trace.C17Ops.t_v4_rem_asg u v).trans ((congrArg (fun w => Tr.okS (V4.toList w)) (Cg.C17.V4.remAssignS_eq u v)).trans hv.symm),
    hv⟩
/-- `m2.add`: the traced forms `&a + b`, `a + &b`, `&a + &b`, `a += b` return what the by-value kernel (`Gen.C01.t_m2_add`) returns, the compound assignment through the assignment code of `Assign.lean` and its `_eq` theorem -/
theorem forms_m2_add (u v : M2 K) :
    Gen.C17.t_m2_add_rv (envL (u.toList ++ v.toList)) = Gen.C01.t_m2_add (envL (u.toList ++ v.toList)) ∧
    Gen.C17.t_m2_add_vr (envL (u.toList ++ v.toList)) = Gen.C01.t_m2_add (envL (u.toList ++ v.toList)) ∧
    Gen.C17.t_m2_add_rr (envL (u.toList ++ v.toList)) = Gen.C01.t_m2_add (envL (u.toList ++ v.toList)) ∧
    Gen.C17.t_m2_add_asg (envL (u.toList ++ v.toList)) = Gen.C01.t_m2_add (envL (u.toList ++ v.toList)) ∧
    Gen.C01.t_m2_add (envL (u.toList ++ v.toList)) = .okS (u + v).toList := by
  have hv : Gen.C01.t_m2_add (envL (u.toList ++ v.toList)) = .okS (u + v).toList := Trace.C01Auto.t_m2_add u v
  exact ⟨(Trace.C17OpsM.t_m2_add_rv u v).trans hv.symm,
    (Trace.C17OpsM.t_m2_add_vr u v).trans hv.symm,
    (Trace.C17OpsM.t_m2_add_rr u v).trans hv.symm,
    (Trace.C17OpsM.t_m2_add_asg u v).trans ((congrArg (fun w => Tr.okS (M2.toList w)) (Cg.C17.M2.addAssign_eq u v)).trans hv.symm),
    hv⟩
/-- `m3.add`: the traced forms `&a + b`, `a + &b`, `&a + &b`, `a += b` return what the by-value kernel (`Gen.C01.t_m3_add`) returns, the compound assignment through the assignment code of `Assign.lean` and its `_eq` theorem -/
theorem forms_m3_add (u v : M3 K) :
    Gen.C17.t_m3_add_rv (envL (u.toList ++ v.toList)) = Gen.C01.t_m3_add (envL (u.toList ++ v.toList)) ∧
    Gen.C17.t_m3_add_vr (envL (u.toList ++ v.toList)) = Gen.C01.t_m3_add (envL (u.toList ++ v.toList)) ∧
    Gen.C17.t_m3_add_rr (envL (u.toList ++ v.toList)) = Gen.C01.t_m3_add (envL (u.toList ++ v.toList)) ∧
    Gen.C17.t_m3_add_asg (envL (u.toList ++ v.toList)) = Gen.C01.t_m3_add (envL (u.toList ++ v.toList)) ∧
    Gen.C01.t_m3_add (envL (u.toList ++ v.toList)) = .okS (u + v).toList := by
  have hv : Gen.C01.t_m3_add (envL (u.toList ++ v.toList)) = .okS (u + v).toList := Trace.C01Auto.t_m3_add u v
  exact ⟨(Trace.C17OpsM.t_m3_add_rv u v).trans hv.symm,
    (Trace.C17OpsM.t_m3_add_vr u v).trans hv.symm,
    (Trace.C17OpsM.t_m3_add_rr u v).trans hv.symm,
    (Trace.C17OpsM.t_m3_add_asg u v).trans ((congrArg (fun w => Tr.okS (M3.toList w)) (Cg.C17.M3.addAssign_eq u v)).trans hv.symm),
    hv⟩
/-- `m4.add`: the traced forms `&a + b`, `a + &b`, `&a + &b`, `a += b` return what the by-value kernel (`Gen.C01.t_m4_add`) returns, the compound assignment through the assignment code of `Assign.lean` and its `_eq` theorem -/
theorem forms_m4_add (u v : M4 K) :
    Gen.C17.t_m4_add_rv (envL (u.toList ++ v.toList)) = Gen.C01.t_m4_add (envL (u.toList ++ v.toList)) ∧
    Gen.C17.t_m4_add_vr (envL (u.toList ++ v.toList)) = Gen.C01.t_m4_add (envL (u.toList ++ v.toList)) ∧
    Gen.C17.t_m4_add_rr (envL (u.toList ++ v.toList)) = Gen.C01.t_m4_add (envL (u.toList ++ v.toList)) ∧
    Gen.C17.t_m4_add_asg (envL (u.toList ++ v.toList)) = Gen.C01.t_m4_add (envL (u.toList ++ v.toList)) ∧
    Gen.C01.t_m4_add (envL (u.toList ++ v.toList)) = .okS (u + v).toList := by
  have hv : Gen.C01.t_m4_add (envL (u.toList ++ v.toList)) = .okS (u + v).toList := Trace.C01.t_m4_add u v
  exact ⟨(Trace.C17OpsM.t_m4_add_rv u v).trans hv.symm,
    (Trace.C17OpsM.t_m4_add_vr u v).trans hv.symm,
    (Trace.C17OpsM.t_m4_add_rr u v).trans hv.symm,
    (Trace.C17OpsM.t_m4_add_asg u v).trans ((congrArg (fun w => Tr.okS (M4.toList w)) (Cg.C17.M4.addAssign_eq u v)).trans hv.symm),
    hv⟩
/-- `m2.sub`: the traced forms `&a - b`, `a - &b`, `&a - &b`, `a -= b` return what the by-value kernel (`Gen.C01.t_m2_sub`) returns, the compound assignment through the assignment code of `Assign.lean` and its `_eq` theorem -/
theorem forms_m2_sub (u v : M2 K) :
    Gen.C17.t_m2_sub_rv (envL (u.toList ++ v.toList)) = Gen.C01.t_m2_sub (envL (u.toList ++ v.toList)) ∧
    Gen.C17.t_m2_sub_vr (envL (u.toList ++ v.toList)) = Gen.C01.t_m2_sub (envL (u.toList ++ v.toList)) ∧
    Gen.C17.t_m2_sub_rr (envL (u.toList ++ v.toList)) = Gen.C01.t_m2_sub (envL (u.toList ++ v.toList)) ∧
    Gen.C17.t_m2_sub_asg (envL (u.toList ++ v.toList)) = Gen.C01.t_m2_sub (envL (u.toList ++ v.toList)) ∧
    Gen.C01.t_m2_sub (envL (u.toList ++ v.toList)) = .okS (u - v).toList := by
  have hv : Gen.C01.t_m2_sub (envL (u.toList ++ v.toList)) = .okS (u - v).toList := Trace.C01Auto.t_m2_sub u v
  exact ⟨(Trace.C17OpsM.t_m2_sub_rv u v).trans hv.symm,
    (Trace.C17OpsM.t_m2_sub_vr u v).trans hv.symm,
    (Trace.C17OpsM.t_m2_sub_rr u v).trans hv.symm,
    (Trace.C17OpsM.t_m2_sub_asg u v).trans ((congrArg (fun w => Tr.okS (M2.toList w)) (Cg.C17.M2.subAssign_eq u v)).trans hv.symm),
    hv⟩
/-- `m3.sub`: the traced forms `&a - b`, `a - &b`, `&a - &b`, `a -= b` return what the by-value kernel (`Gen.C01.t_m3_sub`) returns, the compound assignment through the assignment code of `Assign.lean` and its `_eq` theorem -/
theorem forms_m3_sub (u v : M3 K) :
    Gen.C17.t_m3_sub_rv (envL (u.toList ++ v.toList)) = Gen.C01.t_m3_sub (envL (u.toList ++ v.toList)) ∧
    Gen.C17.t_m3_sub_vr (envL (u.toList ++ v.toList)) = Gen.C01.t_m3_sub (envL (u.toList ++ v.toList)) ∧
    Gen.C17.t_m3_sub_rr (envL (u.toList ++ v.toList)) = Gen.C01.t_m3_sub (envL (u.toList ++ v.toList)) ∧
    Gen.C17.t_m3_sub_asg (envL (u.toList ++ v.toList)) = Gen.C01.t_m3_sub (envL (u.toList ++ v.toList)) ∧
    Gen.C01.t_m3_sub (envL (u.toList ++ v.toList)) = .okS (u - v).toList := by
  have hv : Gen.C01.t_m3_sub (envL (u.toList ++ v.toList)) = .okS (u - v).toList := Trace.C01Auto.t_m3_sub u v
  exact ⟨(Trace.C17OpsM.t_m3_sub_rv u v).trans hv.symm,
    (Trace.C17OpsM.t_m3_sub_vr u v).trans hv.symm,
    (Trace.C17OpsM.t_m3_sub_rr u v).trans hv.symm,
    (Trace.C17OpsM.t_m3_sub_asg u v).trans ((congrArg (fun w => Tr.okS (M3.toList w)) (Cg.C17.M3.subAssign_eq u v)).trans hv.symm),
    hv⟩
/-- `m4.sub`: the traced forms `&a - b`, `a - &b`, `&a - &b`, `a -= b` return what the by-value kernel (`Gen.C01.t_m4_sub`) returns, the compound assignment through the assignment code of `Assign.lean` and its `_eq` theorem -/
theorem forms_m4_sub (u v : M4 K) :
    Gen.C17.t_m4_sub_rv (envL (u.toList ++ v.toList)) = Gen.C01.t_m4_sub (envL (u.toList ++ v.toList)) ∧
    Gen.C17.t_m4_sub_vr (envL (u.toList ++ v.toList)) = Gen.C01.t_m4_sub (envL (u.toList ++ v.toList)) ∧
    Gen.C17.t_m4_sub_rr (envL (u.toList ++ v.toList)) = Gen.C01.t_m4_sub (envL (u.toList ++ v.toList)) ∧
    Gen.C17.t_m4_sub_asg (envL (u.toList ++ v.toList)) = Gen.C01.t_m4_sub (envL (u.toList ++ v.toList)) ∧
    Gen.C01.t_m4_sub (envL (u.toList ++ v.toList)) = .okS (u - v).toList := by
  have hv : Gen.C01.t_m4_sub (envL (u.toList ++ v.toList)) = .okS (u - v).toList := Trace.C01Auto.t_m4_sub u v
  exact ⟨(Trace.C17OpsM.t_m4_sub_rv u v).trans hv.symm,
    (Trace.C17OpsM.t_m4_sub_vr u v).trans hv.symm,
    (Trace.C17OpsM.t_m4_sub_rr u v).trans hv.symm,
    (Trace.C17OpsM.t_m4_sub_asg u v).trans ((congrArg (fun w => Tr.okS (M4.toList w)) (Cg.C17.M4.subAssign_eq u v)).trans hv.symm),
    hv⟩
/-- `m2.mul_s`: the traced forms `&a * b`, `a *= b` return what the by-value kernel (`Gen.C01.t_m2_mul_s`) returns, the compound assignment through the assignment code of `Assign.lean` and its `_eq` theorem -/
theorem forms_m2_mul_s (u : M2 K) (v : K) :
    Gen.C17.t_m2_mul_s_rv (envL (u.toList ++ [v])) = Gen.C01.t_m2_mul_s (envL (u.toList ++ [v])) ∧
    Gen.C17.t_m2_mul_s_asg (envL (u.toList ++ [v])) = Gen.C01.t_m2_mul_s (envL (u.toList ++ [v])) ∧
    Gen.C01.t_m2_mul_s (envL (u.toList ++ [v])) = .okS (u * v).toList := by
  have hv : Gen.C01.t_m2_mul_s (envL (u.toList ++ [v])) = .okS (u * v).toList := Trace.C01Auto.t_m2_mul_s u v
  exact ⟨(Trace.C17OpsM.t_m2_mul_s_rv u v).trans hv.symm,
    (Trace.C17OpsM.t_m2_mul_s_asg u v).trans ((congrArg (fun w => Tr.okS (M2.toList w)) (Cg.C17.M2.mulAssignS_eq u v)).trans hv.symm),
    hv⟩
/-- `m3.mul_s`: the traced forms `&a * b`, `a *= b` return what the by-value kernel (`Gen.C01.t_m3_mul_s`) returns, the compound assignment through the assignment code of `Assign.lean` and its `_eq` theorem -/
theorem forms_m3_mul_s (u : M3 K) (v : K) :
    Gen.C17.t_m3_mul_s_rv (envL (u.toList ++ [v])) = Gen.C01.t_m3_mul_s (envL (u.toList ++ [v])) ∧
    Gen.C17.t_m3_mul_s_asg (envL (u.toList ++ [v])) = Gen.C01.t_m3_mul_s (envL (u.toList ++ [v])) ∧
    Gen.C01.t_m3_mul_s (envL (u.toList ++ [v])) = .okS (u * v).toList := by
  have hv : Gen.C01.t_m3_mul_s (envL (u.toList ++ [v])) = .okS (u * v).toList := Trace.C01Auto.t_m3_mul_s u v
  exact ⟨(Trace.C17OpsM.t_m3_mul_s_rv u v).trans hv.symm,
    (Trace.C17OpsM.t_m3_mul_s_asg u v).trans ((congrArg (fun w => Tr.okS (M3.toList w)) (Cg.C17.M3.mulAssignS_eq u v)).trans hv.symm),
    hv⟩
/-- `m4.mul_s`: the traced forms `&a * b`, `a *= b` return what the by-value kernel (`Gen.C01.t_m4_mul_s`) returns, the compound assignment through the assignment code of `Assign.lean` and its `_eq` theorem -/
theorem forms_m4_mul_s (u : M4 K) (v : K) :
    Gen.C17.t_m4_mul_s_rv (envL (u.toList ++ [v])) = Gen.C01.t_m4_mul_s (envL (u.toList ++ [v])) ∧
    Gen.C17.t_m4_mul_s_asg (envL (u.toList ++ [v])) = Gen.C01.t_m4_mul_s (envL (u.toList ++ [v])) ∧
    Gen.C01.t_m4_mul_s (envL (u.toList ++ [v])) = .okS (u * v).toList := by
  have hv : Gen.C01.t_m4_mul_s (envL (u.toList ++ [v])) = .okS (u * v).toList := Trace.C01.t_m4_mul_s u v
  exact ⟨(Trace.C17OpsM.t_m4_mul_s_rv u v).trans hv.symm,
    (Trace.C17OpsM.t_m4_mul_s_asg u v).trans ((congrArg (fun w => Tr.okS (M4.toList w)) (Cg.C17.M4.mulAssignS_eq u v)).trans hv.symm),
    hv⟩
/-- `m2.div_s`: the traced forms `&a / b`, `a /= b` return what the by-value kernel (`Gen.C01.t_m2_div_s`) returns, the compound assignment through the assignment code of `Assign.lean` and its `_eq` theorem -/
theorem forms_m2_div_s (u : M2 K) (v : K) :
    Gen.C17.t_m2_div_s_rv (envL (u.toList ++ [v])) = Gen.C01.t_m2_div_s (envL (u.toList ++ [v])) ∧
    Gen.C17.t_m2_div_s_asg (envL (u.toList ++ [v])) = Gen.C01.t_m2_div_s (envL (u.toList ++ [v])) ∧
    Gen.C01.t_m2_div_s (envL (u.toList ++ [v])) = .okS (u / v).toList := by
  have hv : Gen.C01.t_m2_div_s (envL (u.toList ++ [v])) = .okS (u / v).toList := Trace.C01Auto.t_m2_div_s u v
  exact ⟨(Trace.C17OpsM.t_m2_div_s_rv u v).trans hv.symm,
    (Trace.C17OpsM.t_m2_div_s_asg u v).trans ((congrArg (fun w => Tr.okS (M2.toList w)) (Cg.C17.M2.divAssignS_eq u v)).trans hv.symm),
    hv⟩
/-- `m3.div_s`: the traced forms `&a / b`, `a /= b` return what the by-value kernel (`Gen.C01.t_m3_div_s`) returns, the compound assignment through the assignment code of `Assign.lean` and its `_eq` theorem -/
theorem forms_m3_div_s (u : M3 K) (v : K) :
    Gen.C17.t_m3_div_s_rv (envL (u.toList ++ [v])) = Gen.C01.t_m3_div_s (envL (u.toList ++ [v])) ∧
    Gen.C17.t_m3_div_s_asg (envL (u.toList ++ [v])) = Gen.C01.t_m3_div_s (envL (u.toList ++ [v])) ∧
    Gen.C01.t_m3_div_s (envL (u.toList ++ [v])) = .okS (u / v).toList := by
  have hv : Gen.C01.t_m3_div_s (envL (u.toList ++ [v])) = .okS (u / v).toList := Trace.C01Auto.t_m3_div_s u v
  exact ⟨(Trace.C17OpsM.t_m3_div_s_rv u v).trans hv.symm,
    (Trace.C17OpsM.t_m3_div_s_asg u v).trans ((congrArg (fun w => Tr.okS (M3.toList w)) (Cg.C17.M3.divAssignS_eq u v)).trans hv.symm),
    hv⟩
/-- `m4.div_s`: the traced forms `&a / b`, `a /= b` return what the by-value kernel (`Gen.C01.t_m4_div_s`) returns, the compound assignment through the assignment code of `Assign.lean` and its `_eq` theorem -/
theorem forms_m4_div_s (u : M4 K) (v : K) :
    Gen.C17.t_m4_div_s_rv (envL (u.toList ++ [v])) = Gen.C01.t_m4_div_s (envL (u.toList ++ [v])) ∧
    Gen.C17.t_m4_div_s_asg (envL (u.toList ++ [v])) = Gen.C01.t_m4_div_s (envL (u.toList ++ [v])) ∧
    Gen.C01.t_m4_div_s (envL (u.toList ++ [v])) = .okS (u / v).toList := by
  have hv : Gen.C01.t_m4_div_s (envL (u.toList ++ [v])) = .okS (u / v).toList := Trace.C01.t_m4_div_s u v
  exact ⟨(Trace.C17OpsM.t_m4_div_s_rv u v).trans hv.symm,
    (Trace.C17OpsM.t_m4_div_s_asg u v).trans ((congrArg (fun w => Tr.okS (M4.toList w)) (Cg.C17.M4.divAssignS_eq u v)).trans hv.symm),
    hv⟩
/-- `m2.rem_s`: the traced forms `&a % b`, `a %= b` return what the by-value kernel (`Gen.C01.t_m2_rem_s`) returns, the compound assignment through the assignment code of `Assign.lean` and its `_eq` theorem -/
theorem forms_m2_rem_s (u : M2 K) (v : K) :
    Gen.C17.t_m2_rem_s_rv (envL (u.toList ++ [v])) = Gen.C01.t_m2_rem_s (envL (u.toList ++ [v])) ∧
    Gen.C17.t_m2_rem_s_asg (envL (u.toList ++ [v])) = Gen.C01.t_m2_rem_s (envL (u.toList ++ [v])) ∧
    Gen.C01.t_m2_rem_s (envL (u.toList ++ [v])) = .okS (u.rem v).toList := by
  have hv : Gen.C01.t_m2_rem_s (envL (u.toList ++ [v])) = .okS (u.rem v).toList := Trace.C01Auto.t_m2_rem_s u v
  exact ⟨(Trace.C17OpsM.t_m2_rem_s_rv u v).trans hv.symm,
    (Trace.C17OpsM.t_m2_rem_s_asg u v).trans ((congrArg (fun w => Tr.okS (M2.toList w)) (Cg.C17.M2.remAssignS_eq u v)).trans hv.symm),
    hv⟩
/-- `m3.rem_s`: the traced forms `&a % b`, `a %= b` return what the by-value kernel (`Gen.C01.t_m3_rem_s`) returns, the compound assignment through the assignment code of `Assign.lean` and its `_eq` theorem -/
theorem forms_m3_rem_s (u : M3 K) (v : K) :
    Gen.C17.t_m3_rem_s_rv (envL (u.toList ++ [v])) = Gen.C01.t_m3_rem_s (envL (u.toList ++ [v])) ∧
    Gen.C17.t_m3_rem_s_asg (envL (u.toList ++ [v])) = Gen.C01.t_m3_rem_s (envL (u.toList ++ [v])) ∧
    Gen.C01.t_m3_rem_s (envL (u.toList ++ [v])) = .okS (u.rem v).toList := by
  have hv : Gen.C01.t_m3_rem_s (envL (u.toList ++ [v])) = .okS (u.rem v).toList := Trace.C01Auto.t_m3_rem_s u v
  exact ⟨(Trace.C17OpsM.t_m3_rem_s_rv u v).trans hv.symm,
    (Trace.C17OpsM.t_m3_rem_s_asg u v).trans ((congrArg (fun w => Tr.okS (M3.toList w)) (Cg.C17.M3.remAssignS_eq u v)).trans hv.symm),
    hv⟩
/-- `m4.rem_s`: the traced forms `&a % b`, `a %= b` return what the by-value kernel (`Gen.C01.t_m4_rem_s`) returns, the compound assignment through the assignment code of `Assign.lean` and its `_eq` theorem -/
theorem forms_m4_rem_s (u : M4 K) (v : K) :
    Gen.C17.t_m4_rem_s_rv (envL (u.toList ++ [v])) = Gen.C01.t_m4_rem_s (envL (u.toList ++ [v])) ∧
    Gen.C17.t_m4_rem_s_asg (envL (u.toList ++ [v])) = Gen.C01.t_m4_rem_s (envL (u.toList ++ [v])) ∧
    Gen.C01.t_m4_rem_s (envL (u.toList ++ [v])) = .okS (u.rem v).toList := by
  have hv : Gen.C01.t_m4_rem_s (envL (u.toList ++ [v])) = .okS (u.rem v).toList := Trace.C01Auto.t_m4_rem_s u v
  exact ⟨(Trace.C17OpsM.t_m4_rem_s_rv u v).trans hv.symm,
    (Trace.C17OpsM.t_m4_rem_s_asg u v).trans ((congrArg (fun w => Tr.okS (M4.toList w)) (Cg.C17.M4.remAssignS_eq u v)).trans hv.symm),
    hv⟩
/-- `m2.mul`: the traced forms `&a * b`, `a * &b`, `&a * &b` return what the by-value kernel (`Gen.C01.t_m2_mul`) returns -/
theorem forms_m2_mul (u v : M2 K) :
    Gen.C17.t_m2_mul_rv (envL (u.toList ++ v.toList)) = Gen.C01.t_m2_mul (envL (u.toList ++ v.toList)) ∧
    Gen.C17.t_m2_mul_vr (envL (u.toList ++ v.toList)) = Gen.C01.t_m2_mul (envL (u.toList ++ v.toList)) ∧
    Gen.C17.t_m2_mul_rr (envL (u.toList ++ v.toList)) = Gen.C01.t_m2_mul (envL (u.toList ++ v.toList)) ∧
    Gen.C01.t_m2_mul (envL (u.toList ++ v.toList)) = .okS (u * v).toList := by
  have hv : Gen.C01.t_m2_mul (envL (u.toList ++ v.toList)) = .okS (u * v).toList := Trace.C01.t_m2_mul u v
  exact ⟨(Trace.C17OpsM.t_m2_mul_rv u v).trans hv.symm,
    (Trace.C17OpsM.t_m2_mul_vr u v).trans hv.symm,
    (Trace.C17OpsM.t_m2_mul_rr u v).trans hv.symm,
    hv⟩
/-- `m3.mul`: the traced forms `&a * b`, `a * &b`, `&a * &b` return what the by-value kernel (`Gen.C01.t_m3_mul`) returns -/
theorem forms_m3_mul (u v : M3 K) :
    Gen.C17.t_m3_mul_rv (envL (u.toList ++ v.toList)) = Gen.C01.t_m3_mul (envL (u.toList ++ v.toList)) ∧
    Gen.C17.t_m3_mul_vr (envL (u.toList ++ v.toList)) = Gen.C01.t_m3_mul (envL (u.toList ++ v.toList)) ∧
    Gen.C17.t_m3_mul_rr (envL (u.toList ++ v.toList)) = Gen.C01.t_m3_mul (envL (u.toList ++ v.toList)) ∧
    Gen.C01.t_m3_mul (envL (u.toList ++ v.toList)) = .okS (u * v).toList := by
  have hv : Gen.C01.t_m3_mul (envL (u.toList ++ v.toList)) = .okS (u * v).toList := Trace.C01.t_m3_mul u v
  exact ⟨(Trace.C17OpsM.t_m3_mul_rv u v).trans hv.symm,
    (Trace.C17OpsM.t_m3_mul_vr u v).trans hv.symm,
    (Trace.C17OpsM.t_m3_mul_rr u v).trans hv.symm,
    hv⟩
/-- `m4.mul`: the traced forms `&a * b`, `a * &b`, `&a * &b` return what the by-value kernel (`Gen.C01.t_m4_mul`) returns -/
theorem forms_m4_mul (u v : M4 K) :
    Gen.C17.t_m4_mul_rv (envL (u.toList ++ v.toList)) = Gen.C01.t_m4_mul (envL (u.toList ++ v.toList)) ∧
    Gen.C17.t_m4_mul_vr (envL (u.toList ++ v.toList)) = Gen.C01.t_m4_mul (envL (u.toList ++ v.toList)) ∧
    Gen.C17.t_m4_mul_rr (envL (u.toList ++ v.toList)) = Gen.C01.t_m4_mul (envL (u.toList ++ v.toList)) ∧
    Gen.C01.t_m4_mul (envL (u.toList ++ v.toList)) = .okS (u * v).toList := by
  have hv : Gen.C01.t_m4_mul (envL (u.toList ++ v.toList)) = .okS (u * v).toList := Trace.C01.t_m4_mul u v
  exact ⟨(Trace.C17OpsM.t_m4_mul_rv u v).trans hv.symm,
    (Trace.C17OpsM.t_m4_mul_vr u v).trans hv.symm,
    (Trace.C17OpsM.t_m4_mul_rr u v).trans hv.symm,
    hv⟩
/-- `m2.mul_v`: the traced forms `&a * b`, `a * &b`, `&a * &b` return what the by-value kernel (`Gen.C01.t_m2_mul_v`) returns -/
theorem forms_m2_mul_v (u : M2 K) (v : V2 K) :
    Gen.C17.t_m2_mul_v_rv (envL (u.toList ++ v.toList)) = Gen.C01.t_m2_mul_v (envL (u.toList ++ v.toList)) ∧
    Gen.C17.t_m2_mul_v_vr (envL (u.toList ++ v.toList)) = Gen.C01.t_m2_mul_v (envL (u.toList ++ v.toList)) ∧
    Gen.C17.t_m2_mul_v_rr (envL (u.toList ++ v.toList)) = Gen.C01.t_m2_mul_v (envL (u.toList ++ v.toList)) ∧
    Gen.C01.t_m2_mul_v (envL (u.toList ++ v.toList)) = .okS (V2.toList (u.mulVec v)) := by
  have hv : Gen.C01.t_m2_mul_v (envL (u.toList ++ v.toList)) = .okS (V2.toList (u.mulVec v)) := Trace.C01.t_m2_mul_v u v
  exact ⟨(Trace.C17OpsM.t_m2_mul_v_rv u v).trans hv.symm,
    (Trace.C17OpsM.t_m2_mul_v_vr u v).trans hv.symm,
    (Trace.C17OpsM.t_m2_mul_v_rr u v).trans hv.symm,
    hv⟩
/-- `m3.mul_v`: the traced forms `&a * b`, `a * &b`, `&a * &b` return what the by-value kernel (`Gen.C01.t_m3_mul_v`) returns -/
theorem forms_m3_mul_v (u : M3 K) (v : V3 K) :
    Gen.C17.t_m3_mul_v_rv (envL (u.toList ++ v.toList)) = Gen.C01.t_m3_mul_v (envL (u.toList ++ v.toList)) ∧
    Gen.C17.t_m3_mul_v_vr (envL (u.toList ++ v.toList)) = Gen.C01.t_m3_mul_v (envL (u.toList ++ v.toList)) ∧
    Gen.C17.t_m3_mul_v_rr (envL (u.toList ++ v.toList)) = Gen.C01.t_m3_mul_v (envL (u.toList ++ v.toList)) ∧
    Gen.C01.t_m3_mul_v (envL (u.toList ++ v.toList)) = .okS (V3.toList (u.mulVec v)) := by
  have hv : Gen.C01.t_m3_mul_v (envL (u.toList ++ v.toList)) = .okS (V3.toList (u.mulVec v)) := Trace.C01.t_m3_mul_v u v
  exact ⟨(Trace.C17OpsM.t_m3_mul_v_rv u v).trans hv.symm,
    (Trace.C17OpsM.t_m3_mul_v_vr u v).trans hv.symm,
    (Trace.C17OpsM.t_m3_mul_v_rr u v).trans hv.symm,
    hv⟩
/-- `m4.mul_v`: the traced forms `&a * b`, `a * &b`, `&a * &b` return what the by-value kernel (`Gen.C01.t_m4_mul_v`) returns -/
theorem forms_m4_mul_v (u : M4 K) (v : V4 K) :
    Gen.C17.t_m4_mul_v_rv (envL (u.toList ++ v.toList)) = Gen.C01.t_m4_mul_v (envL (u.toList ++ v.toList)) ∧
    Gen.C17.t_m4_mul_v_vr (envL (u.toList ++ v.toList)) = Gen.C01.t_m4_mul_v (envL (u.toList ++ v.toList)) ∧
    Gen.C17.t_m4_mul_v_rr (envL (u.toList ++ v.toList)) = Gen.C01.t_m4_mul_v (envL (u.toList ++ v.toList)) ∧
    Gen.C01.t_m4_mul_v (envL (u.toList ++ v.toList)) = .okS (V4.toList (u.mulVec v)) := by
  have hv : Gen.C01.t_m4_mul_v (envL (u.toList ++ v.toList)) = .okS (V4.toList (u.mulVec v)) := Trace.C01.t_m4_mul_v u v
  exact ⟨(Trace.C17OpsM.t_m4_mul_v_rv u v).trans hv.symm,
    (Trace.C17OpsM.t_m4_mul_v_vr u v).trans hv.symm,
    (Trace.C17OpsM.t_m4_mul_v_rr u v).trans hv.symm,
    hv⟩
/-- `m2.neg`: the traced forms `-&a` return what the by-value kernel (`Gen.C01.t_m2_neg`) returns -/
theorem forms_m2_neg (u : M2 K) :
    Gen.C17.t_m2_neg_r (envL u.toList) = Gen.C01.t_m2_neg (envL u.toList) ∧
    Gen.C01.t_m2_neg (envL u.toList) = .okS (-u).toList := by
  have hv : Gen.C01.t_m2_neg (envL u.toList) = .okS (-u).toList := Trace.C01Auto.t_m2_neg u
  exact ⟨(Trace.C17OpsM.t_m2_neg_r u).trans hv.symm,
    hv⟩
/-- `m3.neg`: the traced forms `-&a` return what the by-value kernel (`Gen.C01.t_m3_neg`) returns -/
theorem forms_m3_neg (u : M3 K) :
    Gen.C17.t_m3_neg_r (envL u.toList) = Gen.C01.t_m3_neg (envL u.toList) ∧
    Gen.C01.t_m3_neg (envL u.toList) = .okS (-u).toList := by
  have hv : Gen.C01.t_m3_neg (envL u.toList) = .okS (-u).toList := Trace.C01Auto.t_m3_neg u
  exact ⟨(Trace.C17OpsM.t_m3_neg_r u).trans hv.symm,
    hv⟩
/-- `m4.neg`: the traced forms `-&a` return what the by-value kernel (`Gen.C01.t_m4_neg`) returns -/
theorem forms_m4_neg (u : M4 K) :
    Gen.C17.t_m4_neg_r (envL u.toList) = Gen.C01.t_m4_neg (envL u.toList) ∧
    Gen.C01.t_m4_neg (envL u.toList) = .okS (-u).toList := by
  have hv : Gen.C01.t_m4_neg (envL u.toList) = .okS (-u).toList := Trace.C01Auto.t_m4_neg u
  exact ⟨(Trace.C17OpsM.t_m4_neg_r u).trans hv.symm,
    hv⟩
/-- `q.add`: the traced forms `&a + b`, `a + &b`, `&a + &b`, `a += b` return what the by-value kernel (`Gen.C04.t_q_add`) returns, the compound assignment through the assignment code of `Assign.lean` and its `_eq` theorem -/
theorem forms_q_add (u v : Quat K) :
    Gen.C17.t_q_add_rv (envL (u.toList ++ v.toList)) = Gen.C04.t_q_add (envL (u.toList ++ v.toList)) ∧
    Gen.C17.t_q_add_vr (envL (u.toList ++ v.toList)) = Gen.C04.t_q_add (envL (u.toList ++ v.toList)) ∧
    Gen.C17.t_q_add_rr (envL (u.toList ++ v.toList)) = Gen.C04.t_q_add (envL (u.toList ++ v.toList)) ∧
    Gen.C17.t_q_add_asg (envL (u.toList ++ v.toList)) = Gen.C04.t_q_add (envL (u.toList ++ v.toList)) ∧
    Gen.C04.t_q_add (envL (u.toList ++ v.toList)) = .okS (u + v).toList := by
  have hv : Gen.C04.t_q_add (envL (u.toList ++ v.toList)) = .okS (u + v).toList := Trace.C04.t_q_add u v
  exact ⟨(Trace.C17OpsQ.t_q_add_rv u v).trans hv.symm,
    (Trace.C17OpsQ.t_q_add_vr u v).trans hv.symm,
    (Trace.C17OpsQ.t_q_add_rr u v).trans hv.symm,
    (Trace.C17OpsQ.t_q_add_asg u v).trans ((congrArg (fun w => Tr.okS (Quat.toList w)) (Cg.C17.Quat.addAssign_eq u v)).trans hv.symm),
    hv⟩
/-- `q.sub`: the traced forms `&a - b`, `a - &b`, `&a - &b`, `a -= b` return what the by-value kernel (`Gen.C04.t_q_sub`) returns, the compound assignment through the assignment code of `Assign.lean` and its `_eq` theorem -/
theorem forms_q_sub (u v : Quat K) :
    Gen.C17.t_q_sub_rv (envL (u.toList ++ v.toList)) = Gen.C04.t_q_sub (envL (u.toList ++ v.toList)) ∧
    Gen.C17.t_q_sub_vr (envL (u.toList ++ v.toList)) = Gen.C04.t_q_sub (envL (u.toList ++ v.toList)) ∧
    Gen.C17.t_q_sub_rr (envL (u.toList ++ v.toList)) = Gen.C04.t_q_sub (envL (u.toList ++ v.toList)) ∧
    Gen.C17.t_q_sub_asg (envL (u.toList ++ v.toList)) = Gen.C04.t_q_sub (envL (u.toList ++ v.toList)) ∧
    Gen.C04.t_q_sub (envL (u.toList ++ v.toList)) = .okS (u - v).toList := by
  have hv : Gen.C04.t_q_sub (envL (u.toList ++ v.toList)) = .okS (u - v).toList := Trace.C04Auto.t_q_sub u v
  exact ⟨(Trace.C17OpsQ.t_q_sub_rv u v).trans hv.symm,
    (Trace.C17OpsQ.t_q_sub_vr u v).trans hv.symm,
    (Trace.C17OpsQ.t_q_sub_rr u v).trans hv.symm,
    (Trace.C17OpsQ.t_q_sub_asg u v).trans ((congrArg (fun w => Tr.okS (Quat.toList w)) (Cg.C17.Quat.subAssign_eq u v)).trans hv.symm),
    hv⟩
/-- `q.mul_s`: the traced forms `&a * b`, `a *= b` return what the by-value kernel (`Gen.C04.t_q_mul_s`) returns, the compound assignment through the assignment code of `Assign.lean` and its `_eq` theorem -/
theorem forms_q_mul_s (u : Quat K) (v : K) :
    Gen.C17.t_q_mul_s_rv (envL (u.toList ++ [v])) = Gen.C04.t_q_mul_s (envL (u.toList ++ [v])) ∧
    Gen.C17.t_q_mul_s_asg (envL (u.toList ++ [v])) = Gen.C04.t_q_mul_s (envL (u.toList ++ [v])) ∧
    Gen.C04.t_q_mul_s (envL (u.toList ++ [v])) = .okS (u * v).toList := by
  have hv : Gen.C04.t_q_mul_s (envL (u.toList ++ [v])) = .okS (u * v).toList := Trace.C04.t_q_mul_s u v
  exact ⟨(Trace.C17OpsQ.t_q_mul_s_rv u v).trans hv.symm,
    (Trace.C17OpsQ.t_q_mul_s_asg u v).trans ((congrArg (fun w => Tr.okS (Quat.toList w)) (Cg.C17.Quat.mulAssignS_eq u v)).trans hv.symm),
    hv⟩
/-- `q.div_s`: the traced forms `&a / b`, `a /= b` return what the by-value kernel (`Gen.C04.t_q_div_s`) returns, the compound assignment through the assignment code of `Assign.lean` and its `_eq` theorem -/
theorem forms_q_div_s (u : Quat K) (v : K) :
    Gen.C17.t_q_div_s_rv (envL (u.toList ++ [v])) = Gen.C04.t_q_div_s (envL (u.toList ++ [v])) ∧
    Gen.C17.t_q_div_s_asg (envL (u.toList ++ [v])) = Gen.C04.t_q_div_s (envL (u.toList ++ [v])) ∧
    Gen.C04.t_q_div_s (envL (u.toList ++ [v])) = .okS (u / v).toList := by
  have hv : Gen.C04.t_q_div_s (envL (u.toList ++ [v])) = .okS (u / v).toList := Trace.C04.t_q_div_s u v
  exact ⟨(Trace.C17OpsQ.t_q_div_s_rv u v).trans hv.symm,
    (Trace.C17OpsQ.t_q_div_s_asg u v).trans ((congrArg (fun w => Tr.okS (Quat.toList w)) (Cg.C17.Quat.divAssignS_eq u v)).trans hv.symm),
    hv⟩
/-- `q.rem_s`: the traced forms `&a % b`, `a %= b` return what the by-value kernel (`Gen.C04.t_q_rem_s`) returns, the compound assignment through the assignment code of `Assign.lean` and its `_eq` theorem -/
theorem forms_q_rem_s (u : Quat K) (v : K) :
    Gen.C17.t_q_rem_s_rv (envL (u.toList ++ [v])) = Gen.C04.t_q_rem_s (envL (u.toList ++ [v])) ∧
    Gen.C17.t_q_rem_s_asg (envL (u.toList ++ [v])) = Gen.C04.t_q_rem_s (envL (u.toList ++ [v])) ∧
    Gen.C04.t_q_rem_s (envL (u.toList ++ [v])) = .okS (u.rem v).toList := by
  have hv : Gen.C04.t_q_rem_s (envL (u.toList ++ [v])) = .okS (u.rem v).toList := Trace.C04Rest.t_q_rem_s u v
  exact ⟨(Trace.C17OpsQ.t_q_rem_s_rv u v).trans hv.symm,
    (Trace.C17OpsQ.t_q_rem_s_asg u v).trans ((congrArg (fun w => Tr.okS (Quat.toList w)) (Cg.C17.Quat.remAssignS_eq u v)).trans hv.symm),
    hv⟩
/-- `q.mul`: the traced forms `&a * b`, `a * &b`, `&a * &b` return what the by-value kernel (`Gen.C04.t_q_mul`) returns -/
theorem forms_q_mul (u v : Quat K) :
    Gen.C17.t_q_mul_rv (envL (u.toList ++ v.toList)) = Gen.C04.t_q_mul (envL (u.toList ++ v.toList)) ∧
    Gen.C17.t_q_mul_vr (envL (u.toList ++ v.toList)) = Gen.C04.t_q_mul (envL (u.toList ++ v.toList)) ∧
    Gen.C17.t_q_mul_rr (envL (u.toList ++ v.toList)) = Gen.C04.t_q_mul (envL (u.toList ++ v.toList)) ∧
    Gen.C04.t_q_mul (envL (u.toList ++ v.toList)) = .okS (u * v).toList := by
  have hv : Gen.C04.t_q_mul (envL (u.toList ++ v.toList)) = .okS (u * v).toList := Trace.C04.t_q_mul u v
  exact ⟨(Trace.C17OpsQ.t_q_mul_rv u v).trans hv.symm,
    (Trace.C17OpsQ.t_q_mul_vr u v).trans hv.symm,
    (Trace.C17OpsQ.t_q_mul_rr u v).trans hv.symm,
    hv⟩
/-- `q.mul_v`: the traced forms `&a * b`, `a * &b`, `&a * &b` return what the by-value kernel (`Gen.C04.t_q_mul_v`) returns -/
theorem forms_q_mul_v (u : Quat K) (v : V3 K) :
    Gen.C17.t_q_mul_v_rv (envL (u.toList ++ v.toList)) = Gen.C04.t_q_mul_v (envL (u.toList ++ v.toList)) ∧
    Gen.C17.t_q_mul_v_vr (envL (u.toList ++ v.toList)) = Gen.C04.t_q_mul_v (envL (u.toList ++ v.toList)) ∧
    Gen.C17.t_q_mul_v_rr (envL (u.toList ++ v.toList)) = Gen.C04.t_q_mul_v (envL (u.toList ++ v.toList)) ∧
    Gen.C04.t_q_mul_v (envL (u.toList ++ v.toList)) = .okS (V3.toList (u.mulVec v)) := by
  have hv : Gen.C04.t_q_mul_v (envL (u.toList ++ v.toList)) = .okS (V3.toList (u.mulVec v)) := Trace.C04.t_q_mul_v u v
  exact ⟨(Trace.C17OpsQ.t_q_mul_v_rv u v).trans hv.symm,
    (Trace.C17OpsQ.t_q_mul_v_vr u v).trans hv.symm,
    (Trace.C17OpsQ.t_q_mul_v_rr u v).trans hv.symm,
    hv⟩
/-- `q.neg`: the traced forms `-&a` return what the by-value kernel (`Gen.C04.t_q_neg`) returns -/
theorem forms_q_neg (u : Quat K) :
    Gen.C17.t_q_neg_r (envL u.toList) = Gen.C04.t_q_neg (envL u.toList) ∧
    Gen.C04.t_q_neg (envL u.toList) = .okS (-u).toList := by
  have hv : Gen.C04.t_q_neg (envL u.toList) = .okS (-u).toList := Trace.C04Auto.t_q_neg u
  exact ⟨(Trace.C17OpsQ.t_q_neg_r u).trans hv.symm,
    hv⟩
/-- `p1.add_v`: the traced forms `&a + b`, `a + &b`, `&a + &b`, `a += b` return what the by-value kernel (`Gen.C12.t_p1_add_v`) returns, the compound assignment through the assignment code of `Assign.lean` and its `_eq` theorem -/
theorem forms_p1_add_v (u : P1 K) (v : V1 K) :
    Gen.C17.t_p1_add_v_rv (envL (u.toList ++ v.toList)) = Gen.C12.t_p1_add_v (envL (u.toList ++ v.toList)) ∧
    Gen.C17.t_p1_add_v_vr (envL (u.toList ++ v.toList)) = Gen.C12.t_p1_add_v (envL (u.toList ++ v.toList)) ∧
    Gen.C17.t_p1_add_v_rr (envL (u.toList ++ v.toList)) = Gen.C12.t_p1_add_v (envL (u.toList ++ v.toList)) ∧
    Gen.C17.t_p1_add_v_asg (envL (u.toList ++ v.toList)) = Gen.C12.t_p1_add_v (envL (u.toList ++ v.toList)) ∧
    Gen.C12.t_p1_add_v (envL (u.toList ++ v.toList)) = .okS (u + v).toList := by
  have hv : Gen.C12.t_p1_add_v (envL (u.toList ++ v.toList)) = .okS (u + v).toList := Trace.C12Auto.t_p1_add_v u v
  exact ⟨(Trace.C17OpsP.t_p1_add_v_rv u v).trans hv.symm,
    (Trace.C17OpsP.t_p1_add_v_vr u v).trans hv.symm,
    (Trace.C17OpsP.t_p1_add_v_rr u v).trans hv.symm,
    (Trace.C17OpsP.t_p1_add_v_asg u v).trans ((congrArg (fun w => Tr.okS (P1.toList w)) (Cg.C17.P1.addAssignV_eq u v)).trans hv.symm),
    hv⟩
/-- `p2.add_v`: the traced forms `&a + b`, `a + &b`, `&a + &b`, `a += b` return what the by-value kernel (`Gen.C12.t_p2_add_v`) returns, the compound assignment through the assignment code of `Assign.lean` and its `_eq` theorem -/
theorem forms_p2_add_v (u : P2 K) (v : V2 K) :
    Gen.C17.t_p2_add_v_rv (envL (u.toList ++ v.toList)) = Gen.C12.t_p2_add_v (envL (u.toList ++ v.toList)) ∧
    Gen.C17.t_p2_add_v_vr (envL (u.toList ++ v.toList)) = Gen.C12.t_p2_add_v (envL (u.toList ++ v.toList)) ∧
    Gen.C17.t_p2_add_v_rr (envL (u.toList ++ v.toList)) = Gen.C12.t_p2_add_v (envL (u.toList ++ v.toList)) ∧
    Gen.C17.t_p2_add_v_asg (envL (u.toList ++ v.toList)) = Gen.C12.t_p2_add_v (envL (u.toList ++ v.toList)) ∧
    Gen.C12.t_p2_add_v (envL (u.toList ++ v.toList)) = .okS (u + v).toList := by
  have hv : Gen.C12.t_p2_add_v (envL (u.toList ++ v.toList)) = .okS (u + v).toList := Trace.C12Auto.t_p2_add_v u v
  exact ⟨(Trace.C17OpsP.t_p2_add_v_rv u v).trans hv.symm,
    (Trace.C17OpsP.t_p2_add_v_vr u v).trans hv.symm,
    (Trace.C17OpsP.t_p2_add_v_rr u v).trans hv.symm,
    (Trace.C17OpsP.t_p2_add_v_asg u v).trans ((congrArg (fun w => Tr.okS (P2.toList w)) (Cg.C17.P2.addAssignV_eq u v)).trans hv.symm),
    hv⟩
/-- `p3.add_v`: the traced forms `&a + b`, `a + &b`, `&a + &b`, `a += b` return what the by-value kernel (`Gen.C12.t_p3_add_v`) returns, the compound assignment through the assignment code of `Assign.lean` and its `_eq` theorem -/
theorem forms_p3_add_v (u : P3 K) (v : V3 K) :
    Gen.C17.t_p3_add_v_rv (envL (u.toList ++ v.toList)) = Gen.C12.t_p3_add_v (envL (u.toList ++ v.toList)) ∧
    Gen.C17.t_p3_add_v_vr (envL (u.toList ++ v.toList)) = Gen.C12.t_p3_add_v (envL (u.toList ++ v.toList)) ∧
    Gen.C17.t_p3_add_v_rr (envL (u.toList ++ v.toList)) = Gen.C12.t_p3_add_v (envL (u.toList ++ v.toList)) ∧
    Gen.C17.t_p3_add_v_asg (envL (u.toList ++ v.toList)) = Gen.C12.t_p3_add_v (envL (u.toList ++ v.toList)) ∧
    Gen.C12.t_p3_add_v (envL (u.toList ++ v.toList)) = .okS (u + v).toList := by
  have hv : Gen.C12.t_p3_add_v (envL (u.toList ++ v.toList)) = .okS (u + v).toList := Trace.C12.t_p3_add_v u v
  exact ⟨(Trace.C17OpsP.t_p3_add_v_rv u v).trans hv.symm,
    (Trace.C17OpsP.t_p3_add_v_vr u v).trans hv.symm,
    (Trace.C17OpsP.t_p3_add_v_rr u v).trans hv.symm,
    (Trace.C17OpsP.t_p3_add_v_asg u v).trans ((congrArg (fun w => Tr.okS (P3.toList w)) (Cg.C17.P3.addAssignV_eq u v)).trans hv.symm),
    hv⟩
/-- `p1.sub_v`: the traced forms `&a - b`, `a - &b`, `&a - &b`, `a -= b` return what the by-value kernel (`Gen.C12.t_p1_sub_v`) returns, the compound assignment through the assignment code of `Assign.lean` and its `_eq` theorem -/
theorem forms_p1_sub_v (u : P1 K) (v : V1 K) :
    Gen.C17.t_p1_sub_v_rv (envL (u.toList ++ v.toList)) = Gen.C12.t_p1_sub_v (envL (u.toList ++ v.toList)) ∧
    Gen.C17.t_p1_sub_v_vr (envL (u.toList ++ v.toList)) = Gen.C12.t_p1_sub_v (envL (u.toList ++ v.toList)) ∧
    Gen.C17.t_p1_sub_v_rr (envL (u.toList ++ v.toList)) = Gen.C12.t_p1_sub_v (envL (u.toList ++ v.toList)) ∧
    Gen.C17.t_p1_sub_v_asg (envL (u.toList ++ v.toList)) = Gen.C12.t_p1_sub_v (envL (u.toList ++ v.toList)) ∧
    Gen.C12.t_p1_sub_v (envL (u.toList ++ v.toList)) = .okS (u - v).toList := by
  have hv : Gen.C12.t_p1_sub_v (envL (u.toList ++ v.toList)) = .okS (u - v).toList := Trace.C12Auto.t_p1_sub_v u v
  exact ⟨(Trace.C17OpsP.t_p1_sub_v_rv u v).trans hv.symm,
    (Trace.C17OpsP.t_p1_sub_v_vr u v).trans hv.symm,
    (Trace.C17OpsP.t_p1_sub_v_rr u v).trans hv.symm,
    (Trace.C17OpsP.t_p1_sub_v_asg u v).trans ((congrArg (fun w => Tr.okS (P1.toList w)) (Cg.C17.P1.subAssignV_eq u v)).trans hv.symm),
    hv⟩
/-- `p2.sub_v`: the traced forms `&a - b`, `a - &b`, `&a - &b`, `a -= b` return what the by-value kernel (`Gen.C12.t_p2_sub_v`) returns, the compound assignment through the assignment code of `Assign.lean` and its `_eq` theorem -/
theorem forms_p2_sub_v (u : P2 K) (v : V2 K) :
    Gen.C17.t_p2_sub_v_rv (envL (u.toList ++ v.toList)) = Gen.C12.t_p2_sub_v (envL (u.toList ++ v.toList)) ∧
    Gen.C17.t_p2_sub_v_vr (envL (u.toList ++ v.toList)) = Gen.C12.t_p2_sub_v (envL (u.toList ++ v.toList)) ∧
    Gen.C17.t_p2_sub_v_rr (envL (u.toList ++ v.toList)) = Gen.C12.t_p2_sub_v (envL (u.toList ++ v.toList)) ∧
    Gen.C17.t_p2_sub_v_asg (envL (u.toList ++ v.toList)) = Gen.C12.t_p2_sub_v (envL (u.toList ++ v.toList)) ∧
    Gen.C12.t_p2_sub_v (envL (u.toList ++ v.toList)) = .okS (u - v).toList := by
  have hv : Gen.C12.t_p2_sub_v (envL (u.toList ++ v.toList)) = .okS (u - v).toList := Trace.C12Auto.t_p2_sub_v u v
  exact ⟨(Trace.C17OpsP.t_p2_sub_v_rv u v).trans hv.symm,
    (Trace.C17OpsP.t_p2_sub_v_vr u v).trans hv.symm,
    (Trace.C17OpsP.t_p2_sub_v_rr u v).trans hv.symm,
    (Trace.C17OpsP.t_p2_sub_v_asg u v).trans ((congrArg (fun w => Tr.okS (P2.toList w)) (Cg.C17.P2.subAssignV_eq u v)).trans hv.symm),
    hv⟩
/-- `p3.sub_v`: the traced forms `&a - b`, `a - &b`, `&a - &b`, `a -= b` return what the by-value kernel (`Gen.C12.t_p3_sub_v`) returns, the compound assignment through the assignment code of `Assign.lean` and its `_eq` theorem -/
theorem forms_p3_sub_v (u : P3 K) (v : V3 K) :
    Gen.C17.t_p3_sub_v_rv (envL (u.toList ++ v.toList)) = Gen.C12.t_p3_sub_v (envL (u.toList ++ v.toList)) ∧
    Gen.C17.t_p3_sub_v_vr (envL (u.toList ++ v.toList)) = Gen.C12.t_p3_sub_v (envL (u.toList ++ v.toList)) ∧
    Gen.C17.t_p3_sub_v_rr (envL (u.toList ++ v.toList)) = Gen.C12.t_p3_sub_v (envL (u.toList ++ v.toList)) ∧
    Gen.C17.t_p3_sub_v_asg (envL (u.toList ++ v.toList)) = Gen.C12.t_p3_sub_v (envL (u.toList ++ v.toList)) ∧
    Gen.C12.t_p3_sub_v (envL (u.toList ++ v.toList)) = .okS (u - v).toList := by
  have hv : Gen.C12.t_p3_sub_v (envL (u.toList ++ v.toList)) = .okS (u - v).toList := Trace.C12.t_p3_sub_v u v
  exact ⟨(Trace.C17OpsP.t_p3_sub_v_rv u v).trans hv.symm,
    (Trace.C17OpsP.t_p3_sub_v_vr u v).trans hv.symm,
    (Trace.C17OpsP.t_p3_sub_v_rr u v).trans hv.symm,
    (Trace.C17OpsP.t_p3_sub_v_asg u v).trans ((congrArg (fun w => Tr.okS (P3.toList w)) (Cg.C17.P3.subAssignV_eq u v)).trans hv.symm),
    hv⟩
/-- `p1.sub_p`: the traced forms `&a - b`, `a - &b`, `&a - &b` return what the by-value kernel (`Gen.C12.t_p1_sub_p`) returns -/
theorem forms_p1_sub_p (u v : P1 K) :
    Gen.C17.t_p1_sub_p_rv (envL (u.toList ++ v.toList)) = Gen.C12.t_p1_sub_p (envL (u.toList ++ v.toList)) ∧
    Gen.C17.t_p1_sub_p_vr (envL (u.toList ++ v.toList)) = Gen.C12.t_p1_sub_p (envL (u.toList ++ v.toList)) ∧
    Gen.C17.t_p1_sub_p_rr (envL (u.toList ++ v.toList)) = Gen.C12.t_p1_sub_p (envL (u.toList ++ v.toList)) ∧
    Gen.C12.t_p1_sub_p (envL (u.toList ++ v.toList)) = .okS (V1.toList (u - v)) := by
  have hv : Gen.C12.t_p1_sub_p (envL (u.toList ++ v.toList)) = .okS (V1.toList (u - v)) := Trace.C12Auto.t_p1_sub_p u v
  exact ⟨(Trace.C17OpsP.t_p1_sub_p_rv u v).trans hv.symm,
    (Trace.C17OpsP.t_p1_sub_p_vr u v).trans hv.symm,
    (Trace.C17OpsP.t_p1_sub_p_rr u v).trans hv.symm,
    hv⟩
/-- `p2.sub_p`: the traced forms `&a - b`, `a - &b`, `&a - &b` return what the by-value kernel (`Gen.C12.t_p2_sub_p`) returns -/
theorem forms_p2_sub_p (u v : P2 K) :
    Gen.C17.t_p2_sub_p_rv (envL (u.toList ++ v.toList)) = Gen.C12.t_p2_sub_p (envL (u.toList ++ v.toList)) ∧
    Gen.C17.t_p2_sub_p_vr (envL (u.toList ++ v.toList)) = Gen.C12.t_p2_sub_p (envL (u.toList ++ v.toList)) ∧
    Gen.C17.t_p2_sub_p_rr (envL (u.toList ++ v.toList)) = Gen.C12.t_p2_sub_p (envL (u.toList ++ v.toList)) ∧
    Gen.C12.t_p2_sub_p (envL (u.toList ++ v.toList)) = .okS (V2.toList (u - v)) := by
  have hv : Gen.C12.t_p2_sub_p (envL (u.toList ++ v.toList)) = .okS (V2.toList (u - v)) := Trace.C12Auto.t_p2_sub_p u v
  exact ⟨(Trace.C17OpsP.t_p2_sub_p_rv u v).trans hv.symm,
    (Trace.C17OpsP.t_p2_sub_p_vr u v).trans hv.symm,
    (Trace.C17OpsP.t_p2_sub_p_rr u v).trans hv.symm,
    hv⟩
/-- `p3.sub_p`: the traced forms `&a - b`, `a - &b`, `&a - &b` return what the by-value kernel (`Gen.C12.t_p3_sub_p`) returns -/
theorem forms_p3_sub_p (u v : P3 K) :
    Gen.C17.t_p3_sub_p_rv (envL (u.toList ++ v.toList)) = Gen.C12.t_p3_sub_p (envL (u.toList ++ v.toList)) ∧
    Gen.C17.t_p3_sub_p_vr (envL (u.toList ++ v.toList)) = Gen.C12.t_p3_sub_p (envL (u.toList ++ v.toList)) ∧
    Gen.C17.t_p3_sub_p_rr (envL (u.toList ++ v.toList)) = Gen.C12.t_p3_sub_p (envL (u.toList ++ v.toList)) ∧
    Gen.C12.t_p3_sub_p (envL (u.toList ++ v.toList)) = .okS (V3.toList (u - v)) := by
  have hv : Gen.C12.t_p3_sub_p (envL (u.toList ++ v.toList)) = .okS (V3.toList (u - v)) := Trace.C12.t_p3_sub_p u v
  exact ⟨(Trace.C17OpsP.t_p3_sub_p_rv u v).trans hv.symm,
    (Trace.C17OpsP.t_p3_sub_p_vr u v).trans hv.symm,
    (Trace.C17OpsP.t_p3_sub_p_rr u v).trans hv.symm,
    hv⟩
/-- `p1.mul`: the traced forms `&a * b`, `a *= b` return what the by-value kernel (`Gen.C12.t_p1_mul`) returns, the compound assignment through the assignment code of `Assign.lean` and its `_eq` theorem -/
theorem forms_p1_mul (u : P1 K) (v : K) :
    Gen.C17.t_p1_mul_rv (envL (u.toList ++ [v])) = Gen.C12.t_p1_mul (envL (u.toList ++ [v])) ∧
    Gen.C17.t_p1_mul_asg (envL (u.toList ++ [v])) = Gen.C12.t_p1_mul (envL (u.toList ++ [v])) ∧
    Gen.C12.t_p1_mul (envL (u.toList ++ [v])) = .okS (u * v).toList := by
  have hv : Gen.C12.t_p1_mul (envL (u.toList ++ [v])) = .okS (u * v).toList := Trace.C12Auto.t_p1_mul u v
  exact ⟨(Trace.C17OpsP.t_p1_mul_rv u v).trans hv.symm,
    (Trace.C17OpsP.t_p1_mul_asg u v).trans ((congrArg (fun w => Tr.okS (P1.toList w)) (Cg.C17.P1.mulAssignS_eq u v)).trans hv.symm),
    hv⟩
/-- `p2.mul`: the traced forms `&a * b`, `a *= b` return what the by-value kernel (`Gen.C12.t_p2_mul`) returns, the compound assignment through the assignment code of `Assign.lean` and its `_eq` theorem -/
theorem forms_p2_mul (u : P2 K) (v : K) :
    Gen.C17.t_p2_mul_rv (envL (u.toList ++ [v])) = Gen.C12.t_p2_mul (envL (u.toList ++ [v])) ∧
    Gen.C17.t_p2_mul_asg (envL (u.toList ++ [v])) = Gen.C12.t_p2_mul (envL (u.toList ++ [v])) ∧
    Gen.C12.t_p2_mul (envL (u.toList ++ [v])) = .okS (u * v).toList := by
  have hv : Gen.C12.t_p2_mul (envL (u.toList ++ [v])) = .okS (u * v).toList := Trace.C12Auto.t_p2_mul u v
  exact ⟨(Trace.C17OpsP.t_p2_mul_rv u v).trans hv.symm,
    (Trace.C17OpsP.t_p2_mul_asg u v).trans ((congrArg (fun w => Tr.okS (P2.toList w)) (Cg.C17.P2.mulAssignS_eq u v)).trans hv.symm),
    hv⟩
/-- `p3.mul`: the traced forms `&a * b`, `a *= b` return what the by-value kernel (`Gen.C12.t_p3_mul`) returns, the compound assignment through the assignment code of `Assign.lean` and its `_eq` theorem -/
theorem forms_p3_mul (u : P3 K) (v : K) :
    Gen.C17.t_p3_mul_rv (envL (u.toList ++ [v])) = Gen.C12.t_p3_mul (envL (u.toList ++ [v])) ∧
    Gen.C17.t_p3_mul_asg (envL (u.toList ++ [v])) = Gen.C12.t_p3_mul (envL (u.toList ++ [v])) ∧
    Gen.C12.t_p3_mul (envL (u.toList ++ [v])) = .okS (u * v).toList := by
  have hv : Gen.C12.t_p3_mul (envL (u.toList ++ [v])) = .okS (u * v).toList := Trace.C12Auto.t_p3_mul u v
  exact ⟨(Trace.C17OpsP.t_p3_mul_rv u v).trans hv.symm,
    (Trace.C17OpsP.t_p3_mul_asg u v).trans ((congrArg (fun w => Tr.okS (P3.toList w)) (Cg.C17.P3.mulAssignS_eq u v)).trans hv.symm),
    hv⟩
/-- `p1.div`: the traced forms `&a / b`, `a /= b` return what the by-value kernel (`Gen.C12.t_p1_div`) returns, the compound assignment through the assignment code of `Assign.lean` and its `_eq` theorem -/
theorem forms_p1_div (u : P1 K) (v : K) :
    Gen.C17.t_p1_div_rv (envL (u.toList ++ [v])) = Gen.C12.t_p1_div (envL (u.toList ++ [v])) ∧
    Gen.C17.t_p1_div_asg (envL (u.toList ++ [v])) = Gen.C12.t_p1_div (envL (u.toList ++ [v])) ∧
    Gen.C12.t_p1_div (envL (u.toList ++ [v])) = .okS (u / v).toList := by
  have hv : Gen.C12.t_p1_div (envL (u.toList ++ [v])) = .okS (u / v).toList := Trace.C12Auto.t_p1_div u v
  exact ⟨(Trace.C17OpsP.t_p1_div_rv u v).trans hv.symm,
    (Trace.C17OpsP.t_p1_div_asg u v).trans ((congrArg (fun w => Tr.okS (P1.toList w)) (Cg.C17.P1.divAssignS_eq u v)).trans hv.symm),
    hv⟩
/-- `p2.div`: the traced forms `&a / b`, `a /= b` return what the by-value kernel (`Gen.C12.t_p2_div`) returns, the compound assignment through the assignment code of `Assign.lean` and its `_eq` theorem -/
theorem forms_p2_div (u : P2 K) (v : K) :
    Gen.C17.t_p2_div_rv (envL (u.toList ++ [v])) = Gen.C12.t_p2_div (envL (u.toList ++ [v])) ∧
    Gen.C17.t_p2_div_asg (envL (u.toList ++ [v])) = Gen.C12.t_p2_div (envL (u.toList ++ [v])) ∧
    Gen.C12.t_p2_div (envL (u.toList ++ [v])) = .okS (u / v).toList := by
  have hv : Gen.C12.t_p2_div (envL (u.toList ++ [v])) = .okS (u / v).toList := Trace.C12Auto.t_p2_div u v
  exact ⟨(Trace.C17OpsP.t_p2_div_rv u v).trans hv.symm,
    (Trace.C17OpsP.t_p2_div_asg u v).trans ((congrArg (fun w => Tr.okS (P2.toList w)) (Cg.C17.P2.divAssignS_eq u v)).trans hv.symm),
    hv⟩
/-- `p3.div`: the traced forms `&a / b`, `a /= b` return what the by-value kernel (`Gen.C12.t_p3_div`) returns, the compound assignment through the assignment code of `Assign.lean` and its `_eq` theorem -/
theorem forms_p3_div (u : P3 K) (v : K) :
    Gen.C17.t_p3_div_rv (envL (u.toList ++ [v])) = Gen.C12.t_p3_div (envL (u.toList ++ [v])) ∧
    Gen.C17.t_p3_div_asg (envL (u.toList ++ [v])) = Gen.C12.t_p3_div (envL (u.toList ++ [v])) ∧
    Gen.C12.t_p3_div (envL (u.toList ++ [v])) = .okS (u / v).toList := by
  have hv : Gen.C12.t_p3_div (envL (u.toList ++ [v])) = .okS (u / v).toList := Trace.C12Auto.t_p3_div u v
  exact ⟨(Trace.C17OpsP.t_p3_div_rv u v).trans hv.symm,
    (Trace.C17OpsP.t_p3_div_asg u v).trans ((congrArg (fun w => Tr.okS (P3.toList w)) (Cg.C17.P3.divAssignS_eq u v)).trans hv.symm),
    hv⟩
/-- `p1.rem`: the traced forms `&a % b`, `a %= b` return what the by-value kernel (`Gen.C12.t_p1_rem`) returns, the compound assignment through the assignment code of `Assign.lean` and its `_eq` theorem -/
theorem forms_p1_rem (u : P1 K) (v : K) :
    Gen.C17.t_p1_rem_rv (envL (u.toList ++ [v])) = Gen.C12.t_p1_rem (envL (u.toList ++ [v])) ∧
    Gen.C17.t_p1_rem_asg (envL (u.toList ++ [v])) = Gen.C12.t_p1_rem (envL (u.toList ++ [v])) ∧
    Gen.C12.t_p1_rem (envL (u.toList ++ [v])) = .okS (u.rem v).toList := by
  have hv : Gen.C12.t_p1_rem (envL (u.toList ++ [v])) = .okS (u.rem v).toList := Trace.C12Auto.t_p1_rem u v
  exact ⟨(Trace.C17OpsP.t_p1_rem_rv u v).trans hv.symm,
    (Trace.C17OpsP.t_p1_rem_asg u v).trans ((congrArg (fun w => Tr.okS (P1.toList w)) (Cg.C17.P1.remAssignS_eq u v)).trans hv.symm),
    hv⟩
/-- `p2.rem`: the traced forms `&a % b`, `a %= b` return what the by-value kernel (`Gen.C12.t_p2_rem`) returns, the compound assignment through the assignment code of `Assign.lean` and its `_eq` theorem -/
theorem forms_p2_rem (u : P2 K) (v : K) :
    Gen.C17.t_p2_rem_rv (envL (u.toList ++ [v])) = Gen.C12.t_p2_rem (envL (u.toList ++ [v])) ∧
    Gen.C17.t_p2_rem_asg (envL (u.toList ++ [v])) = Gen.C12.t_p2_rem (envL (u.toList ++ [v])) ∧
    Gen.C12.t_p2_rem (envL (u.toList ++ [v])) = .okS (u.rem v).toList := by
  have hv : Gen.C12.t_p2_rem (envL (u.toList ++ [v])) = .okS (u.rem v).toList := Trace.C12Auto.t_p2_rem u v
  exact ⟨(Trace.C17OpsP.t_p2_rem_rv u v).trans hv.symm,
    (Trace.C17OpsP.t_p2_rem_asg u v).trans ((congrArg (fun w => Tr.okS (P2.toList w)) (Cg.C17.P2.remAssignS_eq u v)).trans hv.symm),
    hv⟩
/-- `p3.rem`: the traced forms `&a % b`, `a %= b` return what the by-value kernel (`Gen.C12.t_p3_rem`) returns, the compound assignment through the assignment code of `Assign.lean` and its `_eq` theorem -/
theorem forms_p3_rem (u : P3 K) (v : K) :
    Gen.C17.t_p3_rem_rv (envL (u.toList ++ [v])) = Gen.C12.t_p3_rem (envL (u.toList ++ [v])) ∧
    Gen.C17.t_p3_rem_asg (envL (u.toList ++ [v])) = Gen.C12.t_p3_rem (envL (u.toList ++ [v])) ∧
    Gen.C12.t_p3_rem (envL (u.toList ++ [v])) = .okS (u.rem v).toList := by
  have hv : Gen.C12.t_p3_rem (envL (u.toList ++ [v])) = .okS (u.rem v).toList := Trace.C12Auto.t_p3_rem u v
  exact ⟨(Trace.C17OpsP.t_p3_rem_rv u v).trans hv.symm,
    (Trace.C17OpsP.t_p3_rem_asg u v).trans ((congrArg (fun w => Tr.okS (P3.toList w)) (Cg.C17.P3.remAssignS_eq u v)).trans hv.symm),
    hv⟩
/-- `rad.add`: the traced forms `&a + b`, `a + &b`, `&a + &b`, `a += b` return what the by-value kernel (`Gen.C13.t_rad_add`) returns, the compound assignment through the assignment code of `Assign.lean` and its `_eq` theorem -/
theorem forms_rad_add (u v : K) :
    Gen.C17.t_rad_add_rv (envL [u, v]) = Gen.C13.t_rad_add (envL [u, v]) ∧
    Gen.C17.t_rad_add_vr (envL [u, v]) = Gen.C13.t_rad_add (envL [u, v]) ∧
    Gen.C17.t_rad_add_rr (envL [u, v]) = Gen.C13.t_rad_add (envL [u, v]) ∧
    Gen.C17.t_rad_add_asg (envL [u, v]) = Gen.C13.t_rad_add (envL [u, v]) ∧
    Gen.C13.t_rad_add (envL [u, v]) = .okS [u + v] := by
  have hv : Gen.C13.t_rad_add (envL [u, v]) = .okS [u + v] := Trace.C13Auto.t_rad_add u v
  exact ⟨(Trace.C17OpsA.t_rad_add_rv u v).trans hv.symm,
    (Trace.C17OpsA.t_rad_add_vr u v).trans hv.symm,
    (Trace.C17OpsA.t_rad_add_rr u v).trans hv.symm,
    (Trace.C17OpsA.t_rad_add_asg u v).trans ((congrArg (fun w => Tr.okS [w]) ((Cg.C17.angle_assign_eq (α := K)).1 u v)).trans hv.symm),
    hv⟩
/-- `deg.add`: the traced forms `&a + b`, `a + &b`, `&a + &b`, `a += b` return what the by-value kernel (`Gen.C13.t_deg_add`) returns, the compound assignment through the assignment code of `Assign.lean` and its `_eq` theorem -/
theorem forms_deg_add (u v : K) :
    Gen.C17.t_deg_add_rv (envL [u, v]) = Gen.C13.t_deg_add (envL [u, v]) ∧
    Gen.C17.t_deg_add_vr (envL [u, v]) = Gen.C13.t_deg_add (envL [u, v]) ∧
    Gen.C17.t_deg_add_rr (envL [u, v]) = Gen.C13.t_deg_add (envL [u, v]) ∧
    Gen.C17.t_deg_add_asg (envL [u, v]) = Gen.C13.t_deg_add (envL [u, v]) ∧
    Gen.C13.t_deg_add (envL [u, v]) = .okS [u + v] := by
  have hv : Gen.C13.t_deg_add (envL [u, v]) = .okS [u + v] := Trace.C13Auto.t_deg_add u v
  exact ⟨(Trace.C17OpsA.t_deg_add_rv u v).trans hv.symm,
    (Trace.C17OpsA.t_deg_add_vr u v).trans hv.symm,
    (Trace.C17OpsA.t_deg_add_rr u v).trans hv.symm,
    (Trace.C17OpsA.t_deg_add_asg u v).trans ((congrArg (fun w => Tr.okS [w]) ((Cg.C17.angle_assign_eq (α := K)).1 u v)).trans hv.symm),
    hv⟩
/-- `rad.sub`: the traced forms `&a - b`, `a - &b`, `&a - &b`, `a -= b` return what the by-value kernel (`Gen.C13.t_rad_sub`) returns, the compound assignment through the assignment code of `Assign.lean` and its `_eq` theorem -/
theorem forms_rad_sub (u v : K) :
    Gen.C17.t_rad_sub_rv (envL [u, v]) = Gen.C13.t_rad_sub (envL [u, v]) ∧
    Gen.C17.t_rad_sub_vr (envL [u, v]) = Gen.C13.t_rad_sub (envL [u, v]) ∧
    Gen.C17.t_rad_sub_rr (envL [u, v]) = Gen.C13.t_rad_sub (envL [u, v]) ∧
    Gen.C17.t_rad_sub_asg (envL [u, v]) = Gen.C13.t_rad_sub (envL [u, v]) ∧
    Gen.C13.t_rad_sub (envL [u, v]) = .okS [u - v] := by
  have hv : Gen.C13.t_rad_sub (envL [u, v]) = .okS [u - v] := Trace.C13Auto.t_rad_sub u v
  exact ⟨(Trace.C17OpsA.t_rad_sub_rv u v).trans hv.symm,
    (Trace.C17OpsA.t_rad_sub_vr u v).trans hv.symm,
    (Trace.C17OpsA.t_rad_sub_rr u v).trans hv.symm,
    (Trace.C17OpsA.t_rad_sub_asg u v).trans ((congrArg (fun w => Tr.okS [w]) ((Cg.C17.angle_assign_eq (α := K)).2.1 u v)).trans hv.symm),
    hv⟩
/-- `deg.sub`: the traced forms `&a - b`, `a - &b`, `&a - &b`, `a -= b` return what the by-value kernel (`Gen.C13.t_deg_sub`) returns, the compound assignment through the assignment code of `Assign.lean` and its `_eq` theorem -/
theorem forms_deg_sub (u v : K) :
    Gen.C17.t_deg_sub_rv (envL [u, v]) = Gen.C13.t_deg_sub (envL [u, v]) ∧
    Gen.C17.t_deg_sub_vr (envL [u, v]) = Gen.C13.t_deg_sub (envL [u, v]) ∧
    Gen.C17.t_deg_sub_rr (envL [u, v]) = Gen.C13.t_deg_sub (envL [u, v]) ∧
    Gen.C17.t_deg_sub_asg (envL [u, v]) = Gen.C13.t_deg_sub (envL [u, v]) ∧
    Gen.C13.t_deg_sub (envL [u, v]) = .okS [u - v] := by
  have hv : Gen.C13.t_deg_sub (envL [u, v]) = .okS [u - v] := Trace.C13Auto.t_deg_sub u v
  exact ⟨(Trace.C17OpsA.t_deg_sub_rv u v).trans hv.symm,
    (Trace.C17OpsA.t_deg_sub_vr u v).trans hv.symm,
    (Trace.C17OpsA.t_deg_sub_rr u v).trans hv.symm,
    (Trace.C17OpsA.t_deg_sub_asg u v).trans ((congrArg (fun w => Tr.okS [w]) ((Cg.C17.angle_assign_eq (α := K)).2.1 u v)).trans hv.symm),
    hv⟩
/-- `rad.rem`: the traced forms `&a % b`, `a % &b`, `&a % &b`, `a %= b` return what the by-value kernel (`Gen.C13.t_rad_rem`) returns, the compound assignment through the assignment code of `Assign.lean` and its `_eq` theorem -/
theorem forms_rad_rem (u v : K) :
    Gen.C17.t_rad_rem_rv (envL [u, v]) = Gen.C13.t_rad_rem (envL [u, v]) ∧
    Gen.C17.t_rad_rem_vr (envL [u, v]) = Gen.C13.t_rad_rem (envL [u, v]) ∧
    Gen.C17.t_rad_rem_rr (envL [u, v]) = Gen.C13.t_rad_rem (envL [u, v]) ∧
    Gen.C17.t_rad_rem_asg (envL [u, v]) = Gen.C13.t_rad_rem (envL [u, v]) ∧
    Gen.C13.t_rad_rem (envL [u, v]) = .okS [FRem.frem u v] := by
  have hv : Gen.C13.t_rad_rem (envL [u, v]) = .okS [FRem.frem u v] := Trace.C13Auto.t_rad_rem u v
  exact ⟨(Trace.C17OpsA.t_rad_rem_rv u v).trans hv.symm,
    (Trace.C17OpsA.t_rad_rem_vr u v).trans hv.symm,
    (Trace.C17OpsA.t_rad_rem_rr u v).trans hv.symm,
    (Trace.C17OpsA.t_rad_rem_asg u v).trans ((congrArg (fun w => Tr.okS [w]) ((Cg.C17.angle_assign_eq (α := K)).2.2.1 u v)).trans hv.symm),
    hv⟩
/-- `deg.rem`: the traced forms `&a % b`, `a % &b`, `&a % &b`, `a %= b` return what the by-value kernel (`Gen.C13.t_deg_rem`) returns, the compound assignment through the assignment code of `Assign.lean` and its `_eq` theorem -/
theorem forms_deg_rem (u v : K) :
    Gen.C17.t_deg_rem_rv (envL [u, v]) = Gen.C13.t_deg_rem (envL [u, v]) ∧
    Gen.C17.t_deg_rem_vr (envL [u, v]) = Gen.C13.t_deg_rem (envL [u, v]) ∧
    Gen.C17.t_deg_rem_rr (envL [u, v]) = Gen.C13.t_deg_rem (envL [u, v]) ∧
    Gen.C17.t_deg_rem_asg (envL [u, v]) = Gen.C13.t_deg_rem (envL [u, v]) ∧
    Gen.C13.t_deg_rem (envL [u, v]) = .okS [FRem.frem u v] := by
  have hv : Gen.C13.t_deg_rem (envL [u, v]) = .okS [FRem.frem u v] := Trace.C13Auto.t_deg_rem u v
  exact ⟨(Trace.C17OpsA.t_deg_rem_rv u v).trans hv.symm,
    (Trace.C17OpsA.t_deg_rem_vr u v).trans hv.symm,
    (Trace.C17OpsA.t_deg_rem_rr u v).trans hv.symm,
    (Trace.C17OpsA.t_deg_rem_asg u v).trans ((congrArg (fun w => Tr.okS [w]) ((Cg.C17.angle_assign_eq (α := K)).2.2.1 u v)).trans hv.symm),
    hv⟩
/-- `rad.mul_s`: the traced forms `&a * b`, `a *= b` return what the by-value kernel (`Gen.C13.t_rad_mul_s`) returns, the compound assignment through the assignment code of `Assign.lean` and its `_eq` theorem -/
theorem forms_rad_mul_s (u : K) (v : K) :
    Gen.C17.t_rad_mul_s_rv (envL [u, v]) = Gen.C13.t_rad_mul_s (envL [u, v]) ∧
    Gen.C17.t_rad_mul_s_asg (envL [u, v]) = Gen.C13.t_rad_mul_s (envL [u, v]) ∧
    Gen.C13.t_rad_mul_s (envL [u, v]) = .okS [u * v] := by
  have hv : Gen.C13.t_rad_mul_s (envL [u, v]) = .okS [u * v] := Trace.C13Auto.t_rad_mul_s u v
  exact ⟨(Trace.C17OpsA.t_rad_mul_s_rv u v).trans hv.symm,
    (Trace.C17OpsA.t_rad_mul_s_asg u v).trans ((congrArg (fun w => Tr.okS [w]) ((Cg.C17.angle_assign_eq (α := K)).2.2.2.1 u v)).trans hv.symm),
    hv⟩
/-- `deg.mul_s`: the traced forms `&a * b`, `a *= b` return what the by-value kernel (`Gen.C13.t_deg_mul_s`) returns, the compound assignment through the assignment code of `Assign.lean` and its `_eq` theorem -/
theorem forms_deg_mul_s (u : K) (v : K) :
    Gen.C17.t_deg_mul_s_rv (envL [u, v]) = Gen.C13.t_deg_mul_s (envL [u, v]) ∧
    Gen.C17.t_deg_mul_s_asg (envL [u, v]) = Gen.C13.t_deg_mul_s (envL [u, v]) ∧
    Gen.C13.t_deg_mul_s (envL [u, v]) = .okS [u * v] := by
  have hv : Gen.C13.t_deg_mul_s (envL [u, v]) = .okS [u * v] := Trace.C13Auto.t_deg_mul_s u v
  exact ⟨(Trace.C17OpsA.t_deg_mul_s_rv u v).trans hv.symm,
    (Trace.C17OpsA.t_deg_mul_s_asg u v).trans ((congrArg (fun w => Tr.okS [w]) ((Cg.C17.angle_assign_eq (α := K)).2.2.2.1 u v)).trans hv.symm),
    hv⟩
/-- `rad.div_s`: the traced forms `&a / b`, `a /= b` return what the by-value kernel (`Gen.C13.t_rad_div_s`) returns, the compound assignment through the assignment code of `Assign.lean` and its `_eq` theorem -/
theorem forms_rad_div_s (u : K) (v : K) :
    Gen.C17.t_rad_div_s_rv (envL [u, v]) = Gen.C13.t_rad_div_s (envL [u, v]) ∧
    Gen.C17.t_rad_div_s_asg (envL [u, v]) = Gen.C13.t_rad_div_s (envL [u, v]) ∧
    Gen.C13.t_rad_div_s (envL [u, v]) = .okS [u / v] := by
  have hv : Gen.C13.t_rad_div_s (envL [u, v]) = .okS [u / v] := Trace.C13Auto.t_rad_div_s u v
  exact ⟨(Trace.C17OpsA.t_rad_div_s_rv u v).trans hv.symm,
    (Trace.C17OpsA.t_rad_div_s_asg u v).trans ((congrArg (fun w => Tr.okS [w]) ((Cg.C17.angle_assign_eq (α := K)).2.2.2.2 u v)).trans hv.symm),
    hv⟩
/-- `deg.div_s`: the traced forms `&a / b`, `a /= b` return what the by-value kernel (`Gen.C13.t_deg_div_s`) returns, the compound assignment through the assignment code of `Assign.lean` and its `_eq` theorem -/
theorem forms_deg_div_s (u : K) (v : K) :
    Gen.C17.t_deg_div_s_rv (envL [u, v]) = Gen.C13.t_deg_div_s (envL [u, v]) ∧
    Gen.C17.t_deg_div_s_asg (envL [u, v]) = Gen.C13.t_deg_div_s (envL [u, v]) ∧
    Gen.C13.t_deg_div_s (envL [u, v]) = .okS [u / v] := by
  have hv : Gen.C13.t_deg_div_s (envL [u, v]) = .okS [u / v] := Trace.C13Auto.t_deg_div_s u v
  exact ⟨(Trace.C17OpsA.t_deg_div_s_rv u v).trans hv.symm,
    (Trace.C17OpsA.t_deg_div_s_asg u v).trans ((congrArg (fun w => Tr.okS [w]) ((Cg.C17.angle_assign_eq (α := K)).2.2.2.2 u v)).trans hv.symm),
    hv⟩
/-- `rad.div_a`: the traced forms `&a / b`, `a / &b`, `&a / &b` return what the by-value kernel (`Gen.C13.t_rad_div_a`) returns -/
theorem forms_rad_div_a (u v : K) :
    Gen.C17.t_rad_div_a_rv (envL [u, v]) = Gen.C13.t_rad_div_a (envL [u, v]) ∧
    Gen.C17.t_rad_div_a_vr (envL [u, v]) = Gen.C13.t_rad_div_a (envL [u, v]) ∧
    Gen.C17.t_rad_div_a_rr (envL [u, v]) = Gen.C13.t_rad_div_a (envL [u, v]) ∧
    Gen.C13.t_rad_div_a (envL [u, v]) = .okS [u / v] := by
  have hv : Gen.C13.t_rad_div_a (envL [u, v]) = .okS [u / v] := Trace.C13Auto.t_rad_div_a u v
  exact ⟨(Trace.C17OpsA.t_rad_div_a_rv u v).trans hv.symm,
    (Trace.C17OpsA.t_rad_div_a_vr u v).trans hv.symm,
    (Trace.C17OpsA.t_rad_div_a_rr u v).trans hv.symm,
    hv⟩
/-- `deg.div_a`: the traced forms `&a / b`, `a / &b`, `&a / &b` return what the by-value kernel (`Gen.C13.t_deg_div_a`) returns -/
theorem forms_deg_div_a (u v : K) :
    Gen.C17.t_deg_div_a_rv (envL [u, v]) = Gen.C13.t_deg_div_a (envL [u, v]) ∧
    Gen.C17.t_deg_div_a_vr (envL [u, v]) = Gen.C13.t_deg_div_a (envL [u, v]) ∧
    Gen.C17.t_deg_div_a_rr (envL [u, v]) = Gen.C13.t_deg_div_a (envL [u, v]) ∧
    Gen.C13.t_deg_div_a (envL [u, v]) = .okS [u / v] := by
  have hv : Gen.C13.t_deg_div_a (envL [u, v]) = .okS [u / v] := Trace.C13Auto.t_deg_div_a u v
  exact ⟨(Trace.C17OpsA.t_deg_div_a_rv u v).trans hv.symm,
    (Trace.C17OpsA.t_deg_div_a_vr u v).trans hv.symm,
    (Trace.C17OpsA.t_deg_div_a_rr u v).trans hv.symm,
    hv⟩
/-- `rad.neg`: the traced forms `-&a` return what the by-value kernel (`Gen.C13.t_rad_neg`) returns -/
theorem forms_rad_neg (u : K) :
    Gen.C17.t_rad_neg_r (envL [u]) = Gen.C13.t_rad_neg (envL [u]) ∧
    Gen.C13.t_rad_neg (envL [u]) = .okS [-u] := by
  have hv : Gen.C13.t_rad_neg (envL [u]) = .okS [-u] := Trace.C13Auto.t_rad_neg u
  exact ⟨(Trace.C17OpsA.t_rad_neg_r u).trans hv.symm,
    hv⟩
/-- `deg.neg`: the traced forms `-&a` return what the by-value kernel (`Gen.C13.t_deg_neg`) returns -/
theorem forms_deg_neg (u : K) :
    Gen.C17.t_deg_neg_r (envL [u]) = Gen.C13.t_deg_neg (envL [u]) ∧
    Gen.C13.t_deg_neg (envL [u]) = .okS [-u] := by
  have hv : Gen.C13.t_deg_neg (envL [u]) = .okS [-u] := Trace.C13Auto.t_deg_neg u
  exact ⟨(Trace.C17OpsA.t_deg_neg_r u).trans hv.symm,
    hv⟩
/-- `v2`: `iter().sum()` and `into_iter().sum()` of 0 operands as computed agree, and are the left fold -/
theorem fold_v2_sum_list_n0 :
    Gen.C17.t_v2_sum_list_ref_n0 (envL ([] : List K)) = Gen.C17.t_v2_sum_list_n0 (envL ([] : List K)) ∧
    Gen.C17.t_v2_sum_list_n0 (envL ([] : List K)) = .okS (([] : List (V2 K)).foldl (· + ·) V2.zero).toList :=
  ⟨(Trace.C17OpsF.t_v2_sum_list_ref_n0 (K := K)).trans (Trace.C17OpsF.t_v2_sum_list_n0 (K := K)).symm, Trace.C17OpsF.t_v2_sum_list_n0 (K := K)⟩
/-- `v2`: `iter().sum()` and `into_iter().sum()` of 1 operands as computed agree, and are the left fold -/
theorem fold_v2_sum_list_n1 (l1 : V2 K) :
    Gen.C17.t_v2_sum_list_ref_n1 (envL l1.toList) = Gen.C17.t_v2_sum_list_n1 (envL l1.toList) ∧
    Gen.C17.t_v2_sum_list_n1 (envL l1.toList) = .okS ([l1].foldl (· + ·) V2.zero).toList :=
  ⟨(Trace.C17OpsF.t_v2_sum_list_ref_n1 l1).trans (Trace.C17OpsF.t_v2_sum_list_n1 l1).symm, Trace.C17OpsF.t_v2_sum_list_n1 l1⟩
/-- `v2`: `iter().sum()` and `into_iter().sum()` of 2 operands as computed agree, and are the left fold -/
theorem fold_v2_sum_list_n2 (l1 l2 : V2 K) :
    Gen.C17.t_v2_sum_list_ref_n2 (envL (l1.toList ++ l2.toList)) = Gen.C17.t_v2_sum_list_n2 (envL (l1.toList ++ l2.toList)) ∧
    Gen.C17.t_v2_sum_list_n2 (envL (l1.toList ++ l2.toList)) = .okS ([l1, l2].foldl (· + ·) V2.zero).toList :=
  ⟨(Trace.C17OpsF.t_v2_sum_list_ref_n2 l1 l2).trans (Trace.C17OpsF.t_v2_sum_list_n2 l1 l2).symm, Trace.C17OpsF.t_v2_sum_list_n2 l1 l2⟩
/-- `v2`: `iter().sum()` and `into_iter().sum()` of 4 operands as computed agree, and are the left fold -/
theorem fold_v2_sum_list_n4 (l1 l2 l3 l4 : V2 K) :
    Gen.C17.t_v2_sum_list_ref_n4 (envL (l1.toList ++ l2.toList ++ l3.toList ++ l4.toList)) = Gen.C17.t_v2_sum_list_n4 (envL (l1.toList ++ l2.toList ++ l3.toList ++ l4.toList)) ∧
    Gen.C17.t_v2_sum_list_n4 (envL (l1.toList ++ l2.toList ++ l3.toList ++ l4.toList)) = .okS ([l1, l2, l3, l4].foldl (· + ·) V2.zero).toList :=
  ⟨(Trace.C17OpsF.t_v2_sum_list_ref_n4 l1 l2 l3 l4).trans (Trace.C17OpsF.t_v2_sum_list_n4 l1 l2 l3 l4).symm, Trace.C17OpsF.t_v2_sum_list_n4 l1 l2 l3 l4⟩
/-- `v2`: `iter().sum()` and `into_iter().sum()` of 5 operands as computed agree, and are the left fold -/
theorem fold_v2_sum_list_n5 (l1 l2 l3 l4 l5 : V2 K) :
    Gen.C17.t_v2_sum_list_ref_n5 (envL (l1.toList ++ l2.toList ++ l3.toList ++ l4.toList ++ l5.toList)) = Gen.C17.t_v2_sum_list_n5 (envL (l1.toList ++ l2.toList ++ l3.toList ++ l4.toList ++ l5.toList)) ∧
    Gen.C17.t_v2_sum_list_n5 (envL (l1.toList ++ l2.toList ++ l3.toList ++ l4.toList ++ l5.toList)) = .okS ([l1, l2, l3, l4, l5].foldl (· + ·) V2.zero).toList :=
  ⟨(Trace.C17OpsF.t_v2_sum_list_ref_n5 l1 l2 l3 l4 l5).trans (Trace.C17OpsF.t_v2_sum_list_n5 l1 l2 l3 l4 l5).symm, Trace.C17OpsF.t_v2_sum_list_n5 l1 l2 l3 l4 l5⟩
/-- `v4`: `iter().sum()` and `into_iter().sum()` of 0 operands as computed agree, and are the left fold -/
theorem fold_v4_sum_list_n0 :
    Gen.C17.t_v4_sum_list_ref_n0 (envL ([] : List K)) = Gen.C17.t_v4_sum_list_n0 (envL ([] : List K)) ∧
    Gen.C17.t_v4_sum_list_n0 (envL ([] : List K)) = .okS (([] : List (V4 K)).foldl (· + ·) V4.zero).toList :=
  ⟨(Trace.C17OpsF.t_v4_sum_list_ref_n0 (K := K)).trans (Trace.C17OpsF.t_v4_sum_list_n0 (K := K)).symm, Trace.C17OpsF.t_v4_sum_list_n0 (K := K)⟩
/-- `v4`: `iter().sum()` and `into_iter().sum()` of 1 operands as computed agree, and are the left fold -/
theorem fold_v4_sum_list_n1 (l1 : V4 K) :
    Gen.C17.t_v4_sum_list_ref_n1 (envL l1.toList) = Gen.C17.t_v4_sum_list_n1 (envL l1.toList) ∧
    Gen.C17.t_v4_sum_list_n1 (envL l1.toList) = .okS ([l1].foldl (· + ·) V4.zero).toList :=
  ⟨(Trace.C17OpsF.t_v4_sum_list_ref_n1 l1).trans (Trace.C17OpsF.t_v4_sum_list_n1 l1).symm, Trace.C17OpsF.t_v4_sum_list_n1 l1⟩
/-- `v4`: `iter().sum()` and `into_iter().sum()` of 2 operands as computed agree, and are the left fold -/
theorem fold_v4_sum_list_n2 (l1 l2 : V4 K) :
    Gen.C17.t_v4_sum_list_ref_n2 (envL (l1.toList ++ l2.toList)) = Gen.C17.t_v4_sum_list_n2 (envL (l1.toList ++ l2.toList)) ∧
    Gen.C17.t_v4_sum_list_n2 (envL (l1.toList ++ l2.toList)) = .okS ([l1, l2].foldl (· + ·) V4.zero).toList :=
  ⟨(Trace.C17OpsF.t_v4_sum_list_ref_n2 l1 l2).trans (Trace.C17OpsF.t_v4_sum_list_n2 l1 l2).symm, Trace.C17OpsF.t_v4_sum_list_n2 l1 l2⟩
/-- `v4`: `iter().sum()` and `into_iter().sum()` of 4 operands as computed agree, and are the left fold -/
theorem fold_v4_sum_list_n4 (l1 l2 l3 l4 : V4 K) :
    Gen.C17.t_v4_sum_list_ref_n4 (envL (l1.toList ++ l2.toList ++ l3.toList ++ l4.toList)) = Gen.C17.t_v4_sum_list_n4 (envL (l1.toList ++ l2.toList ++ l3.toList ++ l4.toList)) ∧
    Gen.C17.t_v4_sum_list_n4 (envL (l1.toList ++ l2.toList ++ l3.toList ++ l4.toList)) = .okS ([l1, l2, l3, l4].foldl (· + ·) V4.zero).toList :=
  ⟨(Trace.C17OpsF.t_v4_sum_list_ref_n4 l1 l2 l3 l4).trans (Trace.C17OpsF.t_v4_sum_list_n4 l1 l2 l3 l4).symm, Trace.C17OpsF.t_v4_sum_list_n4 l1 l2 l3 l4⟩
/-- `v4`: `iter().sum()` and `into_iter().sum()` of 5 operands as computed agree, and are the left fold -/
theorem fold_v4_sum_list_n5 (l1 l2 l3 l4 l5 : V4 K) :
    Gen.C17.t_v4_sum_list_ref_n5 (envL (l1.toList ++ l2.toList ++ l3.toList ++ l4.toList ++ l5.toList)) = Gen.C17.t_v4_sum_list_n5 (envL (l1.toList ++ l2.toList ++ l3.toList ++ l4.toList ++ l5.toList)) ∧
    Gen.C17.t_v4_sum_list_n5 (envL (l1.toList ++ l2.toList ++ l3.toList ++ l4.toList ++ l5.toList)) = .okS ([l1, l2, l3, l4, l5].foldl (· + ·) V4.zero).toList :=
  ⟨(Trace.C17OpsF.t_v4_sum_list_ref_n5 l1 l2 l3 l4 l5).trans (Trace.C17OpsF.t_v4_sum_list_n5 l1 l2 l3 l4 l5).symm, Trace.C17OpsF.t_v4_sum_list_n5 l1 l2 l3 l4 l5⟩
/-- `m2`: `iter().sum()` and `into_iter().sum()` of 0 operands as computed agree, and are the left fold -/
theorem fold_m2_sum_list_n0 :
    Gen.C17.t_m2_sum_list_ref_n0 (envL ([] : List K)) = Gen.C17.t_m2_sum_list_n0 (envL ([] : List K)) ∧
    Gen.C17.t_m2_sum_list_n0 (envL ([] : List K)) = .okS (([] : List (M2 K)).foldl (· + ·) M2.zero).toList :=
  ⟨(Trace.C17OpsF.t_m2_sum_list_ref_n0 (K := K)).trans (Trace.C17OpsF.t_m2_sum_list_n0 (K := K)).symm, Trace.C17OpsF.t_m2_sum_list_n0 (K := K)⟩
/-- `m2`: `iter().sum()` and `into_iter().sum()` of 1 operands as computed agree, and are the left fold -/
theorem fold_m2_sum_list_n1 (l1 : M2 K) :
    Gen.C17.t_m2_sum_list_ref_n1 (envL l1.toList) = Gen.C17.t_m2_sum_list_n1 (envL l1.toList) ∧
    Gen.C17.t_m2_sum_list_n1 (envL l1.toList) = .okS ([l1].foldl (· + ·) M2.zero).toList :=
  ⟨(Trace.C17OpsF.t_m2_sum_list_ref_n1 l1).trans (Trace.C17OpsF.t_m2_sum_list_n1 l1).symm, Trace.C17OpsF.t_m2_sum_list_n1 l1⟩
/-- `m2`: `iter().sum()` and `into_iter().sum()` of 2 operands as computed agree, and are the left fold -/
theorem fold_m2_sum_list_n2 (l1 l2 : M2 K) :
    Gen.C17.t_m2_sum_list_ref_n2 (envL (l1.toList ++ l2.toList)) = Gen.C17.t_m2_sum_list_n2 (envL (l1.toList ++ l2.toList)) ∧
    Gen.C17.t_m2_sum_list_n2 (envL (l1.toList ++ l2.toList)) = .okS ([l1, l2].foldl (· + ·) M2.zero).toList :=
  ⟨(Trace.C17OpsF.t_m2_sum_list_ref_n2 l1 l2).trans (Trace.C17OpsF.t_m2_sum_list_n2 l1 l2).symm, Trace.C17OpsF.t_m2_sum_list_n2 l1 l2⟩
/-- `m2`: `iter().sum()` and `into_iter().sum()` of 4 operands as computed agree, and are the left fold -/
theorem fold_m2_sum_list_n4 (l1 l2 l3 l4 : M2 K) :
    Gen.C17.t_m2_sum_list_ref_n4 (envL (l1.toList ++ l2.toList ++ l3.toList ++ l4.toList)) = Gen.C17.t_m2_sum_list_n4 (envL (l1.toList ++ l2.toList ++ l3.toList ++ l4.toList)) ∧
    Gen.C17.t_m2_sum_list_n4 (envL (l1.toList ++ l2.toList ++ l3.toList ++ l4.toList)) = .okS ([l1, l2, l3, l4].foldl (· + ·) M2.zero).toList :=
  ⟨(Trace.C17OpsF.t_m2_sum_list_ref_n4 l1 l2 l3 l4).trans (Trace.C17OpsF.t_m2_sum_list_n4 l1 l2 l3 l4).symm, Trace.C17OpsF.t_m2_sum_list_n4 l1 l2 l3 l4⟩
/-- `m2`: `iter().sum()` and `into_iter().sum()` of 5 operands as computed agree, and are the left fold -/
theorem fold_m2_sum_list_n5 (l1 l2 l3 l4 l5 : M2 K) :
    Gen.C17.t_m2_sum_list_ref_n5 (envL (l1.toList ++ l2.toList ++ l3.toList ++ l4.toList ++ l5.toList)) = Gen.C17.t_m2_sum_list_n5 (envL (l1.toList ++ l2.toList ++ l3.toList ++ l4.toList ++ l5.toList)) ∧
    Gen.C17.t_m2_sum_list_n5 (envL (l1.toList ++ l2.toList ++ l3.toList ++ l4.toList ++ l5.toList)) = .okS ([l1, l2, l3, l4, l5].foldl (· + ·) M2.zero).toList :=
  ⟨(Trace.C17OpsF.t_m2_sum_list_ref_n5 l1 l2 l3 l4 l5).trans (Trace.C17OpsF.t_m2_sum_list_n5 l1 l2 l3 l4 l5).symm, Trace.C17OpsF.t_m2_sum_list_n5 l1 l2 l3 l4 l5⟩
/-- `m2`: `iter().product()` and `into_iter().product()` of 0 operands as computed agree, and are the left fold -/
theorem fold_m2_product_list_n0 :
    Gen.C17.t_m2_product_list_ref_n0 (envL ([] : List K)) = Gen.C17.t_m2_product_list_n0 (envL ([] : List K)) ∧
    Gen.C17.t_m2_product_list_n0 (envL ([] : List K)) = .okS (([] : List (M2 K)).foldl (· * ·) M2.one).toList :=
  ⟨(Trace.C17OpsF.t_m2_product_list_ref_n0 (K := K)).trans (Trace.C17OpsF.t_m2_product_list_n0 (K := K)).symm, Trace.C17OpsF.t_m2_product_list_n0 (K := K)⟩
/-- `m2`: `iter().product()` and `into_iter().product()` of 1 operands as computed agree, and are the left fold -/
theorem fold_m2_product_list_n1 (l1 : M2 K) :
    Gen.C17.t_m2_product_list_ref_n1 (envL l1.toList) = Gen.C17.t_m2_product_list_n1 (envL l1.toList) ∧
    Gen.C17.t_m2_product_list_n1 (envL l1.toList) = .okS ([l1].foldl (· * ·) M2.one).toList :=
  ⟨(Trace.C17OpsF.t_m2_product_list_ref_n1 l1).trans (Trace.C17OpsF.t_m2_product_list_n1 l1).symm, Trace.C17OpsF.t_m2_product_list_n1 l1⟩
/-- `m2`: `iter().product()` and `into_iter().product()` of 2 operands as computed agree, and are the left fold -/
theorem fold_m2_product_list_n2 (l1 l2 : M2 K) :
    Gen.C17.t_m2_product_list_ref_n2 (envL (l1.toList ++ l2.toList)) = Gen.C17.t_m2_product_list_n2 (envL (l1.toList ++ l2.toList)) ∧
    Gen.C17.t_m2_product_list_n2 (envL (l1.toList ++ l2.toList)) = .okS ([l1, l2].foldl (· * ·) M2.one).toList :=
  ⟨(Trace.C17OpsF.t_m2_product_list_ref_n2 l1 l2).trans (Trace.C17OpsF.t_m2_product_list_n2 l1 l2).symm, Trace.C17OpsF.t_m2_product_list_n2 l1 l2⟩
/-- `m2`: `iter().product()` and `into_iter().product()` of 4 operands as computed agree, and are the left fold -/
theorem fold_m2_product_list_n4 (l1 l2 l3 l4 : M2 K) :
    Gen.C17.t_m2_product_list_ref_n4 (envL (l1.toList ++ l2.toList ++ l3.toList ++ l4.toList)) = Gen.C17.t_m2_product_list_n4 (envL (l1.toList ++ l2.toList ++ l3.toList ++ l4.toList)) ∧
    Gen.C17.t_m2_product_list_n4 (envL (l1.toList ++ l2.toList ++ l3.toList ++ l4.toList)) = .okS ([l1, l2, l3, l4].foldl (· * ·) M2.one).toList :=
  ⟨(Trace.C17OpsF.t_m2_product_list_ref_n4 l1 l2 l3 l4).trans (Trace.C17OpsF.t_m2_product_list_n4 l1 l2 l3 l4).symm, Trace.C17OpsF.t_m2_product_list_n4 l1 l2 l3 l4⟩
/-- `m2`: `iter().product()` and `into_iter().product()` of 5 operands as computed agree, and are the left fold -/
theorem fold_m2_product_list_n5 (l1 l2 l3 l4 l5 : M2 K) :
    Gen.C17.t_m2_product_list_ref_n5 (envL (l1.toList ++ l2.toList ++ l3.toList ++ l4.toList ++ l5.toList)) = Gen.C17.t_m2_product_list_n5 (envL (l1.toList ++ l2.toList ++ l3.toList ++ l4.toList ++ l5.toList)) ∧
    Gen.C17.t_m2_product_list_n5 (envL (l1.toList ++ l2.toList ++ l3.toList ++ l4.toList ++ l5.toList)) = .okS ([l1, l2, l3, l4, l5].foldl (· * ·) M2.one).toList :=
  ⟨(Trace.C17OpsF.t_m2_product_list_ref_n5 l1 l2 l3 l4 l5).trans (Trace.C17OpsF.t_m2_product_list_n5 l1 l2 l3 l4 l5).symm, Trace.C17OpsF.t_m2_product_list_n5 l1 l2 l3 l4 l5⟩
/-- `m3`: `iter().sum()` and `into_iter().sum()` of 0 operands as computed agree, and are the left fold -/
theorem fold_m3_sum_list_n0 :
    Gen.C17.t_m3_sum_list_ref_n0 (envL ([] : List K)) = Gen.C17.t_m3_sum_list_n0 (envL ([] : List K)) ∧
    Gen.C17.t_m3_sum_list_n0 (envL ([] : List K)) = .okS (([] : List (M3 K)).foldl (· + ·) M3.zero).toList :=
  ⟨(Trace.C17OpsF.t_m3_sum_list_ref_n0 (K := K)).trans (Trace.C17OpsF.t_m3_sum_list_n0 (K := K)).symm, Trace.C17OpsF.t_m3_sum_list_n0 (K := K)⟩
/-- `m3`: `iter().sum()` and `into_iter().sum()` of 1 operands as computed agree, and are the left fold -/
theorem fold_m3_sum_list_n1 (l1 : M3 K) :
    Gen.C17.t_m3_sum_list_ref_n1 (envL l1.toList) = Gen.C17.t_m3_sum_list_n1 (envL l1.toList) ∧
    Gen.C17.t_m3_sum_list_n1 (envL l1.toList) = .okS ([l1].foldl (· + ·) M3.zero).toList :=
  ⟨(Trace.C17OpsF.t_m3_sum_list_ref_n1 l1).trans (Trace.C17OpsF.t_m3_sum_list_n1 l1).symm, Trace.C17OpsF.t_m3_sum_list_n1 l1⟩
/-- `m3`: `iter().sum()` and `into_iter().sum()` of 2 operands as computed agree, and are the left fold -/
theorem fold_m3_sum_list_n2 (l1 l2 : M3 K) :
    Gen.C17.t_m3_sum_list_ref_n2 (envL (l1.toList ++ l2.toList)) = Gen.C17.t_m3_sum_list_n2 (envL (l1.toList ++ l2.toList)) ∧
    Gen.C17.t_m3_sum_list_n2 (envL (l1.toList ++ l2.toList)) = .okS ([l1, l2].foldl (· + ·) M3.zero).toList :=
  ⟨(Trace.C17OpsF.t_m3_sum_list_ref_n2 l1 l2).trans (Trace.C17OpsF.t_m3_sum_list_n2 l1 l2).symm, Trace.C17OpsF.t_m3_sum_list_n2 l1 l2⟩
/-- `m3`: `iter().sum()` and `into_iter().sum()` of 4 operands as computed agree, and are the left fold -/
theorem fold_m3_sum_list_n4 (l1 l2 l3 l4 : M3 K) :
    Gen.C17.t_m3_sum_list_ref_n4 (envL (l1.toList ++ l2.toList ++ l3.toList ++ l4.toList)) = Gen.C17.t_m3_sum_list_n4 (envL (l1.toList ++ l2.toList ++ l3.toList ++ l4.toList)) ∧
    Gen.C17.t_m3_sum_list_n4 (envL (l1.toList ++ l2.toList ++ l3.toList ++ l4.toList)) = .okS ([l1, l2, l3, l4].foldl (· + ·) M3.zero).toList :=
  ⟨(Trace.C17OpsF.t_m3_sum_list_ref_n4 l1 l2 l3 l4).trans (Trace.C17OpsF.t_m3_sum_list_n4 l1 l2 l3 l4).symm, Trace.C17OpsF.t_m3_sum_list_n4 l1 l2 l3 l4⟩
/-- `m3`: `iter().sum()` and `into_iter().sum()` of 5 operands as computed agree, and are the left fold -/
theorem fold_m3_sum_list_n5 (l1 l2 l3 l4 l5 : M3 K) :
    Gen.C17.t_m3_sum_list_ref_n5 (envL (l1.toList ++ l2.toList ++ l3.toList ++ l4.toList ++ l5.toList)) = Gen.C17.t_m3_sum_list_n5 (envL (l1.toList ++ l2.toList ++ l3.toList ++ l4.toList ++ l5.toList)) ∧
    Gen.C17.t_m3_sum_list_n5 (envL (l1.toList ++ l2.toList ++ l3.toList ++ l4.toList ++ l5.toList)) = .okS ([l1, l2, l3, l4, l5].foldl (· + ·) M3.zero).toList :=
  ⟨(Trace.C17OpsF.t_m3_sum_list_ref_n5 l1 l2 l3 l4 l5).trans (Trace.C17OpsF.t_m3_sum_list_n5 l1 l2 l3 l4 l5).symm, Trace.C17OpsF.t_m3_sum_list_n5 l1 l2 l3 l4 l5⟩
/-- `m3`: `iter().product()` and `into_iter().product()` of 0 operands as computed agree, and are the left fold -/
theorem fold_m3_product_list_n0 :
    Gen.C17.t_m3_product_list_ref_n0 (envL ([] : List K)) = Gen.C17.t_m3_product_list_n0 (envL ([] : List K)) ∧
    Gen.C17.t_m3_product_list_n0 (envL ([] : List K)) = .okS (([] : List (M3 K)).foldl (· * ·) M3.one).toList :=
  ⟨(Trace.C17OpsF.t_m3_product_list_ref_n0 (K := K)).trans (Trace.C17OpsF.t_m3_product_list_n0 (K := K)).symm, Trace.C17OpsF.t_m3_product_list_n0 (K := K)⟩
/-- `m3`: `iter().product()` and `into_iter().product()` of 1 operands as computed agree, and are the left fold -/
theorem fold_m3_product_list_n1 (l1 : M3 K) :
    Gen.C17.t_m3_product_list_ref_n1 (envL l1.toList) = Gen.C17.t_m3_product_list_n1 (envL l1.toList) ∧
    Gen.C17.t_m3_product_list_n1 (envL l1.toList) = .okS ([l1].foldl (· * ·) M3.one).toList :=
  ⟨(Trace.C17OpsF.t_m3_product_list_ref_n1 l1).trans (Trace.C17OpsF.t_m3_product_list_n1 l1).symm, Trace.C17OpsF.t_m3_product_list_n1 l1⟩
/-- `m3`: `iter().product()` and `into_iter().product()` of 2 operands as computed agree, and are the left fold -/
theorem fold_m3_product_list_n2 (l1 l2 : M3 K) :
    Gen.C17.t_m3_product_list_ref_n2 (envL (l1.toList ++ l2.toList)) = Gen.C17.t_m3_product_list_n2 (envL (l1.toList ++ l2.toList)) ∧
    Gen.C17.t_m3_product_list_n2 (envL (l1.toList ++ l2.toList)) = .okS ([l1, l2].foldl (· * ·) M3.one).toList :=
  ⟨(Trace.C17OpsF.t_m3_product_list_ref_n2 l1 l2).trans (Trace.C17OpsF.t_m3_product_list_n2 l1 l2).symm, Trace.C17OpsF.t_m3_product_list_n2 l1 l2⟩
/-- `m3`: `iter().product()` and `into_iter().product()` of 4 operands as computed agree, and are the left fold -/
theorem fold_m3_product_list_n4 (l1 l2 l3 l4 : M3 K) :
    Gen.C17.t_m3_product_list_ref_n4 (envL (l1.toList ++ l2.toList ++ l3.toList ++ l4.toList)) = Gen.C17.t_m3_product_list_n4 (envL (l1.toList ++ l2.toList ++ l3.toList ++ l4.toList)) ∧
    Gen.C17.t_m3_product_list_n4 (envL (l1.toList ++ l2.toList ++ l3.toList ++ l4.toList)) = .okS ([l1, l2, l3, l4].foldl (· * ·) M3.one).toList :=
  ⟨(Trace.C17OpsF.t_m3_product_list_ref_n4 l1 l2 l3 l4).trans (Trace.C17OpsF.t_m3_product_list_n4 l1 l2 l3 l4).symm, Trace.C17OpsF.t_m3_product_list_n4 l1 l2 l3 l4⟩
/-- `m3`: `iter().product()` and `into_iter().product()` of 5 operands as computed agree, and are the left fold -/
theorem fold_m3_product_list_n5 (l1 l2 l3 l4 l5 : M3 K) :
    Gen.C17.t_m3_product_list_ref_n5 (envL (l1.toList ++ l2.toList ++ l3.toList ++ l4.toList ++ l5.toList)) = Gen.C17.t_m3_product_list_n5 (envL (l1.toList ++ l2.toList ++ l3.toList ++ l4.toList ++ l5.toList)) ∧
    Gen.C17.t_m3_product_list_n5 (envL (l1.toList ++ l2.toList ++ l3.toList ++ l4.toList ++ l5.toList)) = .okS ([l1, l2, l3, l4, l5].foldl (· * ·) M3.one).toList :=
  ⟨(Trace.C17OpsF.t_m3_product_list_ref_n5 l1 l2 l3 l4 l5).trans (Trace.C17OpsF.t_m3_product_list_n5 l1 l2 l3 l4 l5).symm, Trace.C17OpsF.t_m3_product_list_n5 l1 l2 l3 l4 l5⟩
/-- `m4`: `iter().sum()` and `into_iter().sum()` of 0 operands as computed agree, and are the left fold -/
theorem fold_m4_sum_list_n0 :
    Gen.C17.t_m4_sum_list_ref_n0 (envL ([] : List K)) = Gen.C17.t_m4_sum_list_n0 (envL ([] : List K)) ∧
    Gen.C17.t_m4_sum_list_n0 (envL ([] : List K)) = .okS (([] : List (M4 K)).foldl (· + ·) M4.zero).toList :=
  ⟨(Trace.C17OpsF.t_m4_sum_list_ref_n0 (K := K)).trans (Trace.C17OpsF.t_m4_sum_list_n0 (K := K)).symm, Trace.C17OpsF.t_m4_sum_list_n0 (K := K)⟩
/-- `m4`: `iter().sum()` and `into_iter().sum()` of 1 operands as computed agree, and are the left fold -/
theorem fold_m4_sum_list_n1 (l1 : M4 K) :
    Gen.C17.t_m4_sum_list_ref_n1 (envL l1.toList) = Gen.C17.t_m4_sum_list_n1 (envL l1.toList) ∧
    Gen.C17.t_m4_sum_list_n1 (envL l1.toList) = .okS ([l1].foldl (· + ·) M4.zero).toList :=
  ⟨(Trace.C17OpsF.t_m4_sum_list_ref_n1 l1).trans (Trace.C17OpsF.t_m4_sum_list_n1 l1).symm, Trace.C17OpsF.t_m4_sum_list_n1 l1⟩
/-- `m4`: `iter().sum()` and `into_iter().sum()` of 2 operands as computed agree, and are the left fold -/
theorem fold_m4_sum_list_n2 (l1 l2 : M4 K) :
    Gen.C17.t_m4_sum_list_ref_n2 (envL (l1.toList ++ l2.toList)) = Gen.C17.t_m4_sum_list_n2 (envL (l1.toList ++ l2.toList)) ∧
    Gen.C17.t_m4_sum_list_n2 (envL (l1.toList ++ l2.toList)) = .okS ([l1, l2].foldl (· + ·) M4.zero).toList :=
  ⟨(Trace.C17OpsF.t_m4_sum_list_ref_n2 l1 l2).trans (Trace.C17OpsF.t_m4_sum_list_n2 l1 l2).symm, Trace.C17OpsF.t_m4_sum_list_n2 l1 l2⟩
/-- `q`: `iter().sum()` and `into_iter().sum()` of 0 operands as computed agree, and are the left fold -/
theorem fold_q_sum_list_n0 :
    Gen.C17.t_q_sum_list_ref_n0 (envL ([] : List K)) = Gen.C17.t_q_sum_list_n0 (envL ([] : List K)) ∧
    Gen.C17.t_q_sum_list_n0 (envL ([] : List K)) = .okS (([] : List (Quat K)).foldl (· + ·) Quat.zero).toList :=
  ⟨(Trace.C17OpsF.t_q_sum_list_ref_n0 (K := K)).trans (Trace.C17OpsF.t_q_sum_list_n0 (K := K)).symm, Trace.C17OpsF.t_q_sum_list_n0 (K := K)⟩
/-- `q`: `iter().sum()` and `into_iter().sum()` of 1 operands as computed agree, and are the left fold -/
theorem fold_q_sum_list_n1 (l1 : Quat K) :
    Gen.C17.t_q_sum_list_ref_n1 (envL l1.toList) = Gen.C17.t_q_sum_list_n1 (envL l1.toList) ∧
    Gen.C17.t_q_sum_list_n1 (envL l1.toList) = .okS ([l1].foldl (· + ·) Quat.zero).toList :=
  ⟨(Trace.C17OpsF.t_q_sum_list_ref_n1 l1).trans (Trace.C17OpsF.t_q_sum_list_n1 l1).symm, Trace.C17OpsF.t_q_sum_list_n1 l1⟩
/-- `q`: `iter().sum()` and `into_iter().sum()` of 2 operands as computed agree, and are the left fold -/
theorem fold_q_sum_list_n2 (l1 l2 : Quat K) :
    Gen.C17.t_q_sum_list_ref_n2 (envL (l1.toList ++ l2.toList)) = Gen.C17.t_q_sum_list_n2 (envL (l1.toList ++ l2.toList)) ∧
    Gen.C17.t_q_sum_list_n2 (envL (l1.toList ++ l2.toList)) = .okS ([l1, l2].foldl (· + ·) Quat.zero).toList :=
  ⟨(Trace.C17OpsF.t_q_sum_list_ref_n2 l1 l2).trans (Trace.C17OpsF.t_q_sum_list_n2 l1 l2).symm, Trace.C17OpsF.t_q_sum_list_n2 l1 l2⟩
/-- `q`: `iter().sum()` and `into_iter().sum()` of 4 operands as computed agree, and are the left fold -/
theorem fold_q_sum_list_n4 (l1 l2 l3 l4 : Quat K) :
    Gen.C17.t_q_sum_list_ref_n4 (envL (l1.toList ++ l2.toList ++ l3.toList ++ l4.toList)) = Gen.C17.t_q_sum_list_n4 (envL (l1.toList ++ l2.toList ++ l3.toList ++ l4.toList)) ∧
    Gen.C17.t_q_sum_list_n4 (envL (l1.toList ++ l2.toList ++ l3.toList ++ l4.toList)) = .okS ([l1, l2, l3, l4].foldl (· + ·) Quat.zero).toList :=
  ⟨(Trace.C17OpsF.t_q_sum_list_ref_n4 l1 l2 l3 l4).trans (Trace.C17OpsF.t_q_sum_list_n4 l1 l2 l3 l4).symm, Trace.C17OpsF.t_q_sum_list_n4 l1 l2 l3 l4⟩
/-- `q`: `iter().sum()` and `into_iter().sum()` of 5 operands as computed agree, and are the left fold -/
theorem fold_q_sum_list_n5 (l1 l2 l3 l4 l5 : Quat K) :
    Gen.C17.t_q_sum_list_ref_n5 (envL (l1.toList ++ l2.toList ++ l3.toList ++ l4.toList ++ l5.toList)) = Gen.C17.t_q_sum_list_n5 (envL (l1.toList ++ l2.toList ++ l3.toList ++ l4.toList ++ l5.toList)) ∧
    Gen.C17.t_q_sum_list_n5 (envL (l1.toList ++ l2.toList ++ l3.toList ++ l4.toList ++ l5.toList)) = .okS ([l1, l2, l3, l4, l5].foldl (· + ·) Quat.zero).toList :=
  ⟨(Trace.C17OpsF.t_q_sum_list_ref_n5 l1 l2 l3 l4 l5).trans (Trace.C17OpsF.t_q_sum_list_n5 l1 l2 l3 l4 l5).symm, Trace.C17OpsF.t_q_sum_list_n5 l1 l2 l3 l4 l5⟩
/-- `q`: `iter().product()` and `into_iter().product()` of 0 operands as computed agree, and are the left fold -/
theorem fold_q_product_list_n0 :
    Gen.C17.t_q_product_list_ref_n0 (envL ([] : List K)) = Gen.C17.t_q_product_list_n0 (envL ([] : List K)) ∧
    Gen.C17.t_q_product_list_n0 (envL ([] : List K)) = .okS (([] : List (Quat K)).foldl (· * ·) Quat.one).toList :=
  ⟨(Trace.C17OpsF.t_q_product_list_ref_n0 (K := K)).trans (Trace.C17OpsF.t_q_product_list_n0 (K := K)).symm, Trace.C17OpsF.t_q_product_list_n0 (K := K)⟩
/-- `q`: `iter().product()` and `into_iter().product()` of 1 operands as computed agree, and are the left fold -/
theorem fold_q_product_list_n1 (l1 : Quat K) :
    Gen.C17.t_q_product_list_ref_n1 (envL l1.toList) = Gen.C17.t_q_product_list_n1 (envL l1.toList) ∧
    Gen.C17.t_q_product_list_n1 (envL l1.toList) = .okS ([l1].foldl (· * ·) Quat.one).toList :=
  ⟨(Trace.C17OpsF.t_q_product_list_ref_n1 l1).trans (Trace.C17OpsF.t_q_product_list_n1 l1).symm, Trace.C17OpsF.t_q_product_list_n1 l1⟩
/-- `q`: `iter().product()` and `into_iter().product()` of 2 operands as computed agree, and are the left fold -/
theorem fold_q_product_list_n2 (l1 l2 : Quat K) :
    Gen.C17.t_q_product_list_ref_n2 (envL (l1.toList ++ l2.toList)) = Gen.C17.t_q_product_list_n2 (envL (l1.toList ++ l2.toList)) ∧
    Gen.C17.t_q_product_list_n2 (envL (l1.toList ++ l2.toList)) = .okS ([l1, l2].foldl (· * ·) Quat.one).toList :=
  ⟨(Trace.C17OpsF.t_q_product_list_ref_n2 l1 l2).trans (Trace.C17OpsF.t_q_product_list_n2 l1 l2).symm, Trace.C17OpsF.t_q_product_list_n2 l1 l2⟩
/-- `q`: `iter().product()` and `into_iter().product()` of 4 operands as computed agree, and are the left fold -/
theorem fold_q_product_list_n4 (l1 l2 l3 l4 : Quat K) :
    Gen.C17.t_q_product_list_ref_n4 (envL (l1.toList ++ l2.toList ++ l3.toList ++ l4.toList)) = Gen.C17.t_q_product_list_n4 (envL (l1.toList ++ l2.toList ++ l3.toList ++ l4.toList)) ∧
    Gen.C17.t_q_product_list_n4 (envL (l1.toList ++ l2.toList ++ l3.toList ++ l4.toList)) = .okS ([l1, l2, l3, l4].foldl (· * ·) Quat.one).toList :=
  ⟨(Trace.C17OpsF.t_q_product_list_ref_n4 l1 l2 l3 l4).trans (Trace.C17OpsF.t_q_product_list_n4 l1 l2 l3 l4).symm, Trace.C17OpsF.t_q_product_list_n4 l1 l2 l3 l4⟩
/-- `q`: `iter().product()` and `into_iter().product()` of 5 operands as computed agree, and are the left fold -/
theorem fold_q_product_list_n5 (l1 l2 l3 l4 l5 : Quat K) :
    Gen.C17.t_q_product_list_ref_n5 (envL (l1.toList ++ l2.toList ++ l3.toList ++ l4.toList ++ l5.toList)) = Gen.C17.t_q_product_list_n5 (envL (l1.toList ++ l2.toList ++ l3.toList ++ l4.toList ++ l5.toList)) ∧
    Gen.C17.t_q_product_list_n5 (envL (l1.toList ++ l2.toList ++ l3.toList ++ l4.toList ++ l5.toList)) = .okS ([l1, l2, l3, l4, l5].foldl (· * ·) Quat.one).toList :=
  ⟨(Trace.C17OpsF.t_q_product_list_ref_n5 l1 l2 l3 l4 l5).trans (Trace.C17OpsF.t_q_product_list_n5 l1 l2 l3 l4 l5).symm, Trace.C17OpsF.t_q_product_list_n5 l1 l2 l3 l4 l5⟩
/-- `rad`: `iter().sum()` and `into_iter().sum()` of 0 operands as computed agree, and are the left fold -/
theorem fold_rad_sum_list_n0 :
    Gen.C17.t_rad_sum_list_ref_n0 (envL ([] : List K)) = Gen.C17.t_rad_sum_list_n0 (envL ([] : List K)) ∧
    Gen.C17.t_rad_sum_list_n0 (envL ([] : List K)) = .okS [([] : List K).foldl (· + ·) 0] :=
  ⟨(Trace.C17OpsF.t_rad_sum_list_ref_n0 (K := K)).trans (Trace.C17OpsF.t_rad_sum_list_n0 (K := K)).symm, Trace.C17OpsF.t_rad_sum_list_n0 (K := K)⟩
/-- `rad`: `iter().sum()` and `into_iter().sum()` of 1 operands as computed agree, and are the left fold -/
theorem fold_rad_sum_list_n1 (l1 : K) :
    Gen.C17.t_rad_sum_list_ref_n1 (envL [l1]) = Gen.C17.t_rad_sum_list_n1 (envL [l1]) ∧
    Gen.C17.t_rad_sum_list_n1 (envL [l1]) = .okS [[l1].foldl (· + ·) 0] :=
  ⟨(Trace.C17OpsF.t_rad_sum_list_ref_n1 l1).trans (Trace.C17OpsF.t_rad_sum_list_n1 l1).symm, Trace.C17OpsF.t_rad_sum_list_n1 l1⟩
/-- `rad`: `iter().sum()` and `into_iter().sum()` of 2 operands as computed agree, and are the left fold -/
theorem fold_rad_sum_list_n2 (l1 l2 : K) :
    Gen.C17.t_rad_sum_list_ref_n2 (envL [l1, l2]) = Gen.C17.t_rad_sum_list_n2 (envL [l1, l2]) ∧
    Gen.C17.t_rad_sum_list_n2 (envL [l1, l2]) = .okS [[l1, l2].foldl (· + ·) 0] :=
  ⟨(Trace.C17OpsF.t_rad_sum_list_ref_n2 l1 l2).trans (Trace.C17OpsF.t_rad_sum_list_n2 l1 l2).symm, Trace.C17OpsF.t_rad_sum_list_n2 l1 l2⟩
/-- `rad`: `iter().sum()` and `into_iter().sum()` of 4 operands as computed agree, and are the left fold -/
theorem fold_rad_sum_list_n4 (l1 l2 l3 l4 : K) :
    Gen.C17.t_rad_sum_list_ref_n4 (envL [l1, l2, l3, l4]) = Gen.C17.t_rad_sum_list_n4 (envL [l1, l2, l3, l4]) ∧
    Gen.C17.t_rad_sum_list_n4 (envL [l1, l2, l3, l4]) = .okS [[l1, l2, l3, l4].foldl (· + ·) 0] :=
  ⟨(Trace.C17OpsF.t_rad_sum_list_ref_n4 l1 l2 l3 l4).trans (Trace.C17OpsF.t_rad_sum_list_n4 l1 l2 l3 l4).symm, Trace.C17OpsF.t_rad_sum_list_n4 l1 l2 l3 l4⟩
/-- `rad`: `iter().sum()` and `into_iter().sum()` of 5 operands as computed agree, and are the left fold -/
theorem fold_rad_sum_list_n5 (l1 l2 l3 l4 l5 : K) :
    Gen.C17.t_rad_sum_list_ref_n5 (envL [l1, l2, l3, l4, l5]) = Gen.C17.t_rad_sum_list_n5 (envL [l1, l2, l3, l4, l5]) ∧
    Gen.C17.t_rad_sum_list_n5 (envL [l1, l2, l3, l4, l5]) = .okS [[l1, l2, l3, l4, l5].foldl (· + ·) 0] :=
  ⟨(Trace.C17OpsF.t_rad_sum_list_ref_n5 l1 l2 l3 l4 l5).trans (Trace.C17OpsF.t_rad_sum_list_n5 l1 l2 l3 l4 l5).symm, Trace.C17OpsF.t_rad_sum_list_n5 l1 l2 l3 l4 l5⟩
/-- `b2`: `iter().product()` and `into_iter().product()` of 0 operands as computed agree, and are the left fold -/
theorem fold_b2_product_list_n0 :
    Gen.C17.t_b2_product_list_ref_n0 (envL ([] : List K)) = Gen.C17.t_b2_product_list_n0 (envL ([] : List K)) ∧
    Gen.C17.t_b2_product_list_n0 (envL ([] : List K)) = .okS (([] : List (Basis2 K)).foldl Basis2.mul Basis2.one).mat.toList :=
  ⟨(Trace.C17OpsF.t_b2_product_list_ref_n0 (K := K)).trans (Trace.C17OpsF.t_b2_product_list_n0 (K := K)).symm, Trace.C17OpsF.t_b2_product_list_n0 (K := K)⟩
/-- `b2`: `iter().product()` and `into_iter().product()` of 1 operands as computed agree, and are the left fold -/
theorem fold_b2_product_list_n1 (l1 : K) :
    Gen.C17.t_b2_product_list_ref_n1 (envL [l1]) = Gen.C17.t_b2_product_list_n1 (envL [l1]) ∧
    Gen.C17.t_b2_product_list_n1 (envL [l1]) = .okS ([⟨M2.fromAngle l1⟩].foldl Basis2.mul Basis2.one).mat.toList :=
  ⟨(Trace.C17OpsF.t_b2_product_list_ref_n1 l1).trans (Trace.C17OpsF.t_b2_product_list_n1 l1).symm, Trace.C17OpsF.t_b2_product_list_n1 l1⟩
/-- `b2`: `iter().product()` and `into_iter().product()` of 2 operands as computed agree, and are the left fold -/
theorem fold_b2_product_list_n2 (l1 l2 : K) :
    Gen.C17.t_b2_product_list_ref_n2 (envL [l1, l2]) = Gen.C17.t_b2_product_list_n2 (envL [l1, l2]) ∧
    Gen.C17.t_b2_product_list_n2 (envL [l1, l2]) = .okS ([⟨M2.fromAngle l1⟩, ⟨M2.fromAngle l2⟩].foldl Basis2.mul Basis2.one).mat.toList :=
  ⟨(Trace.C17OpsF.t_b2_product_list_ref_n2 l1 l2).trans (Trace.C17OpsF.t_b2_product_list_n2 l1 l2).symm, Trace.C17OpsF.t_b2_product_list_n2 l1 l2⟩
/-- `m2`: `iter().sum()` of three operands as computed is what `into_iter().sum()` (`Gen.C01.t_m2_sum_list`) returns, the left fold -/
theorem fold_m2_sum_list_ref_n3 (l1 l2 l3 : M2 K) :
    Gen.C17.t_m2_sum_list_ref_n3 (envL (l1.toList ++ l2.toList ++ l3.toList)) = Gen.C01.t_m2_sum_list (envL (l1.toList ++ l2.toList ++ l3.toList)) ∧
    Gen.C17.t_m2_sum_list_ref_n3 (envL (l1.toList ++ l2.toList ++ l3.toList)) = .okS ([l1, l2, l3].foldl (· + ·) M2.zero).toList := by
  have hv := Trace.C01Auto.t_m2_sum_list l1 l2 l3
  have hr := Trace.C17OpsF.t_m2_sum_list_ref_n3 l1 l2 l3
  exact ⟨hr.trans hv.symm, hr⟩
/-- `m3`: `iter().sum()` of three operands as computed is what `into_iter().sum()` (`Gen.C01.t_m3_sum_list`) returns, the left fold -/
theorem fold_m3_sum_list_ref_n3 (l1 l2 l3 : M3 K) :
    Gen.C17.t_m3_sum_list_ref_n3 (envL (l1.toList ++ l2.toList ++ l3.toList)) = Gen.C01.t_m3_sum_list (envL (l1.toList ++ l2.toList ++ l3.toList)) ∧
    Gen.C17.t_m3_sum_list_ref_n3 (envL (l1.toList ++ l2.toList ++ l3.toList)) = .okS ([l1, l2, l3].foldl (· + ·) M3.zero).toList := by
  have hv := Trace.C01Auto.t_m3_sum_list l1 l2 l3
  have hr := Trace.C17OpsF.t_m3_sum_list_ref_n3 l1 l2 l3
  exact ⟨hr.trans hv.symm, hr⟩
/-- `m4`: `iter().sum()` of three operands as computed is what `into_iter().sum()` (`Gen.C01.t_m4_sum_list`) returns, the left fold -/
theorem fold_m4_sum_list_ref_n3 (l1 l2 l3 : M4 K) :
    Gen.C17.t_m4_sum_list_ref_n3 (envL (l1.toList ++ l2.toList ++ l3.toList)) = Gen.C01.t_m4_sum_list (envL (l1.toList ++ l2.toList ++ l3.toList)) ∧
    Gen.C17.t_m4_sum_list_ref_n3 (envL (l1.toList ++ l2.toList ++ l3.toList)) = .okS ([l1, l2, l3].foldl (· + ·) M4.zero).toList := by
  have hv := Trace.C01Auto.t_m4_sum_list l1 l2 l3
  have hr := Trace.C17OpsF.t_m4_sum_list_ref_n3 l1 l2 l3
  exact ⟨hr.trans hv.symm, hr⟩
/-- `b2`: `iter().product()` of three operands as computed is what `into_iter().product()` (`Gen.C17.t_b2_product_list`) returns, the left fold -/
theorem fold_b2_product_list_ref_n3 (l1 l2 l3 : K) :
    Gen.C17.t_b2_product_list_ref_n3 (envL [l1, l2, l3]) = Gen.C17.t_b2_product_list (envL [l1, l2, l3]) ∧
    Gen.C17.t_b2_product_list_ref_n3 (envL [l1, l2, l3]) = .okS ([⟨M2.fromAngle l1⟩, ⟨M2.fromAngle l2⟩, ⟨M2.fromAngle l3⟩].foldl Basis2.mul Basis2.one).mat.toList := by
  have hv := Trace.C17Rest.t_b2_product_list l1 l2 l3
  have hr := Trace.C17OpsF.t_b2_product_list_ref_n3 l1 l2 l3
  exact ⟨hr.trans hv.symm, hr⟩
end Cg.E2E.C17
