import Cgm.E2E.C14
import Cgm.Props.C14b
import Cgm.Lemmas.RealInst2
/-!
# C14 (continued), end to end: the unified `slerp` clauses about the four traced `slerp` kernels (far/near x sign of `a.b`),
with the hand-over literal instantiated (`0.9995`) and the two clamp comparisons discharged from `|a.b| ≤ 1`
-/
set_option linter.unusedSectionVars false
namespace Cg.E2E.C14
open Cg Cg.Gen.C14

/-- the four traced paths of `slerp`, with path conditions reduced to the two decisions that matter for unit quaternions (the sign
of `a.b` and the hand-over test `0.9995 < |a.b|`): the clamp comparisons `1 < |a.b|`, `|a.b| < -1` are always false -/
theorem code_slerp_paths (a b : Quat ℝ) (ha : a.magnitude2 = 1) (hb : b.magnitude2 = 1) (t : ℝ) :
    (¬ Quat.dot a b < 0 → ¬ Lits.thr < Quat.dot a b →
      t_q_slerp_far_pos (envL (a.toList ++ b.toList ++ [t])) = .okG (a.slerp b t).toList
        [.lt (Quat.dot a b) 0 false, .lt Lits.thr (Quat.dot a b) false, .lt 1 (Quat.dot a b) false,
         .lt (Quat.dot a b) (-1) false]) ∧
    (Quat.dot a b < 0 → ¬ Lits.thr < -Quat.dot a b →
      t_q_slerp_far_neg (envL (a.toList ++ b.toList ++ [t])) = .okG (a.slerp b t).toList
        [.lt (Quat.dot a b) 0 true, .lt Lits.thr (-Quat.dot a b) false, .lt 1 (-Quat.dot a b) false,
         .lt (-Quat.dot a b) (-1) false]) ∧
    (¬ Quat.dot a b < 0 → Lits.thr < Quat.dot a b →
      t_q_slerp_near (envL (a.toList ++ b.toList ++ [t])) = .okG (a.slerp b t).toList
        [.lt (Quat.dot a b) 0 false, .lt Lits.thr (Quat.dot a b) true, .lt (Quat.dot a b) 0 false]) ∧
    (Quat.dot a b < 0 → Lits.thr < -Quat.dot a b →
      t_q_slerp_near_neg (envL (a.toList ++ b.toList ++ [t])) = .okG (a.slerp b t).toList
        [.lt (Quat.dot a b) 0 true, .lt Lits.thr (-Quat.dot a b) true, .lt (Quat.dot a (-b)) 0 false]) := by
  obtain ⟨l1, l2⟩ := abs_le.mp (C14.abs_dot_le_one a b ha hb)
  refine ⟨fun h0 h1 => Trace.C14.t_q_slerp_far_pos a b t h0 h1 (by linarith) (by linarith),
    fun h0 h1 => Trace.C14.t_q_slerp_far_neg a b t h0 h1 (by linarith) (by linarith),
    fun h0 h1 => Trace.C14.t_q_slerp_near a b t h0 h1, fun h0 h1 => Trace.C14.t_q_slerp_near_neg a b t h0 h1 ?_⟩
  have e : Quat.dot a (-b) = -Quat.dot a b := by simp; ring
  rw [e]; linarith

/-- the four path conditions are exhaustive and, in terms of `|a.b|`: the `far` paths are `|a.b| ≤ 0.9995`, the `near` ones
`0.9995 < |a.b|` -/
theorem slerp_paths_exhaustive (a b : Quat ℝ) :
    ((¬ Quat.dot a b < 0 ∧ ¬ Lits.thr < Quat.dot a b) ∨ (Quat.dot a b < 0 ∧ ¬ Lits.thr < -Quat.dot a b) ↔
      |Quat.dot a b| ≤ (0.9995 : ℝ)) ∧
    ((¬ Quat.dot a b < 0 ∧ Lits.thr < Quat.dot a b) ∨ (Quat.dot a b < 0 ∧ Lits.thr < -Quat.dot a b) ↔
      (0.9995 : ℝ) < |Quat.dot a b|) := by
  rw [lits_thr]
  by_cases h : Quat.dot a b < 0
  · rw [abs_of_neg h]
    constructor
    · constructor
      · rintro (⟨k, -⟩ | ⟨-, k⟩)
        · exact absurd h k
        · exact not_lt.mp k
      · intro k; exact Or.inr ⟨h, not_lt.mpr k⟩
    · constructor
      · rintro (⟨k, -⟩ | ⟨-, k⟩)
        · exact absurd h k
        · exact k
      · intro k; exact Or.inr ⟨h, k⟩
  · rw [abs_of_nonneg (not_lt.mp h)]
    constructor
    · constructor
      · rintro (⟨-, k⟩ | ⟨k, -⟩)
        · exact not_lt.mp k
        · exact absurd k h
      · intro k; exact Or.inl ⟨h, not_lt.mpr k⟩
    · constructor
      · rintro (⟨-, k⟩ | ⟨k, -⟩)
        · exact k
        · exact absurd k h
      · intro k; exact Or.inl ⟨h, k⟩

/-- **`slerp` as computed, every path at once**: for unit `a`, `b` and `t ∈ [0, 1]` there is one quaternion `r` which each of
the four traced kernels outputs on its path, and `r` is a unit quaternion, a non-negative combination of `a` and `b' = ±b`
with `a.b' = |a.b|` (the shorter arc); at `t = 0` the output is `a`, at `t = 1` it is `b'`; the arc from `a` to `r` is `t` times
the whole arc exactly on the far paths and within `1e-5` rad on the near paths -/
theorem code_slerp_spec (a b : Quat ℝ) (ha : a.magnitude2 = 1) (hb : b.magnitude2 = 1) (t : ℝ) (h0 : 0 ≤ t) (h1 : t ≤ 1) :
    ∃ r : Quat ℝ,
      (¬ Quat.dot a b < 0 → ¬ Lits.thr < Quat.dot a b →
        t_q_slerp_far_pos (envL (a.toList ++ b.toList ++ [t])) = .okG r.toList
          [.lt (Quat.dot a b) 0 false, .lt Lits.thr (Quat.dot a b) false, .lt 1 (Quat.dot a b) false,
           .lt (Quat.dot a b) (-1) false] ∧
        Real.arccos (Quat.dot a r) = t * Real.arccos |Quat.dot a b|) ∧
      (Quat.dot a b < 0 → ¬ Lits.thr < -Quat.dot a b →
        t_q_slerp_far_neg (envL (a.toList ++ b.toList ++ [t])) = .okG r.toList
          [.lt (Quat.dot a b) 0 true, .lt Lits.thr (-Quat.dot a b) false, .lt 1 (-Quat.dot a b) false,
           .lt (-Quat.dot a b) (-1) false] ∧
        Real.arccos (Quat.dot a r) = t * Real.arccos |Quat.dot a b|) ∧
      (¬ Quat.dot a b < 0 → Lits.thr < Quat.dot a b →
        t_q_slerp_near (envL (a.toList ++ b.toList ++ [t])) = .okG r.toList
          [.lt (Quat.dot a b) 0 false, .lt Lits.thr (Quat.dot a b) true, .lt (Quat.dot a b) 0 false]) ∧
      (Quat.dot a b < 0 → Lits.thr < -Quat.dot a b →
        t_q_slerp_near_neg (envL (a.toList ++ b.toList ++ [t])) = .okG r.toList
          [.lt (Quat.dot a b) 0 true, .lt Lits.thr (-Quat.dot a b) true, .lt (Quat.dot a (-b)) 0 false]) ∧
      r.magnitude2 = 1 ∧ (∃ α β : ℝ, 0 ≤ α ∧ 0 ≤ β ∧ r = a * α + C14.flip a b * β) ∧
      (C14.flip a b = b ∨ C14.flip a b = -b) ∧ Quat.dot a (C14.flip a b) = |Quat.dot a b| ∧
      (t = 0 → r = a) ∧ (t = 1 → r = C14.flip a b) ∧
      abs (Real.arccos (Quat.dot a r) - t * Real.arccos (abs (Quat.dot a b))) ≤ 1e-5 := by
  obtain ⟨s1, s2, s3, s4, s5, s6, sfar, -⟩ := C14.slerp_spec a b ha hb t h0 h1 lits_thr
  obtain ⟨p1, p2, p3, p4⟩ := code_slerp_paths a b ha hb t
  refine ⟨a.slerp b t, fun k0 k1 => ⟨p1 k0 k1, sfar ?_⟩, fun k0 k1 => ⟨p2 k0 k1, sfar ?_⟩, p3, p4, s1, s2, s5, s6,
    fun e => by rw [e]; exact s3, fun e => by rw [e]; exact s4, C14.slerp_arc_bound a b ha hb t h0 h1 lits_thr⟩
  · rw [abs_of_nonneg (not_lt.mp k0)]; exact not_lt.mp k1
  · rw [abs_of_neg k0]; exact not_lt.mp k1

/-- the whole arc `arccos |a.b|` is at most a quarter turn, and is what the traced `slerp` has covered at `t = 1` (shown on
the far path with `a.b ≥ 0`, where the output at `t = 1` is `b` itself, and at `t = 0`, where it is `a`) -/
theorem code_slerp_endpoints (a b : Quat ℝ) (ha : a.magnitude2 = 1) (hb : b.magnitude2 = 1)
    (k0 : ¬ Quat.dot a b < 0) (k1 : ¬ Lits.thr < Quat.dot a b) :
    t_q_slerp_far_pos (envL (a.toList ++ b.toList ++ [0])) = .okG a.toList
      [.lt (Quat.dot a b) 0 false, .lt Lits.thr (Quat.dot a b) false, .lt 1 (Quat.dot a b) false,
       .lt (Quat.dot a b) (-1) false] ∧
    t_q_slerp_far_pos (envL (a.toList ++ b.toList ++ [1])) = .okG b.toList
      [.lt (Quat.dot a b) 0 false, .lt Lits.thr (Quat.dot a b) false, .lt 1 (Quat.dot a b) false,
       .lt (Quat.dot a b) (-1) false] ∧
    Real.arccos |Quat.dot a b| ≤ Real.pi / 2 := by
  obtain ⟨-, -, e0, e1, -, -, -, -⟩ := C14.slerp_spec a b ha hb 1 zero_le_one le_rfl lits_thr
  have hf : C14.flip a b = b := by unfold C14.flip; rw [if_neg k0]
  refine ⟨?_, ?_, (C14.slerp_whole_arc a b ha hb lits_thr).2.1⟩
  · rw [(code_slerp_paths a b ha hb 0).1 k0 k1, e0]
  · rw [(code_slerp_paths a b ha hb 1).1 k0 k1, e1, hf]

/-- the hypotheses and each kind of path are inhabited: a far pair (`a.b = 0`), a negative far pair (`a.b = -3/5`) and a near
pair (`a.b = 9999/10001`) of unit quaternions -/
example :
    let a : Quat ℝ := ⟨⟨0, 0, 0⟩, 1⟩
    let b : Quat ℝ := ⟨⟨1, 0, 0⟩, 0⟩
    let c : Quat ℝ := ⟨⟨4 / 5, 0, 0⟩, -3 / 5⟩
    let d : Quat ℝ := ⟨⟨200 / 10001, 0, 0⟩, 9999 / 10001⟩
    a.magnitude2 = 1 ∧ b.magnitude2 = 1 ∧ c.magnitude2 = 1 ∧ d.magnitude2 = 1 ∧
    (¬ Quat.dot a b < 0 ∧ ¬ Lits.thr < Quat.dot a b) ∧ (Quat.dot a c < 0 ∧ ¬ Lits.thr < -Quat.dot a c) ∧
    (¬ Quat.dot a d < 0 ∧ Lits.thr < Quat.dot a d) := by
  simp only [lits_thr]
  refine ⟨by norm_num [Quat.magnitude2, Quat.dot], by norm_num [Quat.magnitude2, Quat.dot],
    by norm_num [Quat.magnitude2, Quat.dot], by norm_num [Quat.magnitude2, Quat.dot], ?_, ?_, ?_⟩ <;>
  norm_num [Quat.dot]
end Cg.E2E.C14
