import Cgm.Trace.C03
import Cgm.Trace.C03Auto
import Cgm.Props.C03
/-!
# C03, end to end: the inner-product-space laws, cross and perp-dot stated about the definitions regenerated
from the source (see `Cgm/E2E/C02.lean` for how these are obtained)
-/
set_option linter.unusedSectionVars false
namespace Cg.E2E.C03
open Cg Cg.Gen.C03
variable {K : Type} [Field K] [Transc K] [FRem K] [Lits K]

/-- `cross` as computed is anticommutative, orthogonal to both arguments, and satisfies Lagrange's identity and the
triple-product expansion -/
theorem code_cross (u v w : V3 K) :
    ∃ c : V3 K → V3 K → V3 K, (∀ a b, t_v3_cross (envL (a.toList ++ b.toList)) = .okS (c a b).toList) ∧
      c u v = -c v u ∧ V3.dot u (c u v) = 0 ∧ V3.dot v (c u v) = 0 ∧
      (c u v).magnitude2 = u.magnitude2 * v.magnitude2 - (V3.dot u v) ^ 2 ∧
      c u (c v w) = v * V3.dot u w - w * V3.dot u v :=
  ⟨V3.cross, fun a b => Trace.C03.t_v3_cross a b, C03.V3.cross_anticomm u v, (C03.V3.dot_cross_self u v).1,
    (C03.V3.dot_cross_self u v).2, C03.V3.lagrange u v, C03.V3.cross_cross u v w⟩

/-- `perp_dot(u, v) = u.x * v.y - u.y * v.x` -/
theorem code_perp_dot (u v : V2 K) : t_v2_perp_dot (envL (u.toList ++ v.toList)) = .okS [u.x * v.y - u.y * v.x] := by
  rw [Trace.C03.t_v2_perp_dot, C03.V2.perpDot_eq]

/-- `dot` as computed is symmetric and bilinear, with `magnitude2(v) = dot(v, v)` -- stated for Vector4 (other dimensions: `E2E/C03h.lean` where present; obligations in Trace/C03*.lean) -/
theorem code_dot (u v w : V4 K) (a : K) :
    ∃ d : V4 K → V4 K → K, (∀ x y, t_v4_dot (envL (x.toList ++ y.toList)) = .okS [d x y]) ∧
      (∀ x, t_v4_magnitude2 (envL x.toList) = .okS [d x x]) ∧
      d u v = d v u ∧ d (u + v) w = d u w + d v w ∧ d (u * a) w = a * d u w :=
  ⟨V4.dot, fun x y => Trace.C03.t_v4_dot x y, fun x => Trace.C03Auto.t_v4_magnitude2 x, C03.V4.dot_comm u v,
    (C03.V4.dot_bilinear u v w a).1, (C03.V4.dot_bilinear u v w a).2.1⟩
theorem code_dot3 (u v w : V3 K) (a : K) :
    ∃ d : V3 K → V3 K → K, (∀ x y, t_v3_dot (envL (x.toList ++ y.toList)) = .okS [d x y]) ∧
      d u v = d v u ∧ d (u + v) w = d u w + d v w ∧ d (u * a) w = a * d u w :=
  ⟨V3.dot, fun x y => Trace.C03.t_v3_dot x y, C03.V3.dot_comm u v, (C03.V3.dot_bilinear u v w a).1, (C03.V3.dot_bilinear u v w a).2.1⟩

/-- the operators as computed act component by component (dimension 4; the others are the same macro) -/
theorem code_componentwise (u v : V4 K) (s : K) :
    t_v4_add (envL (u.toList ++ v.toList)) = .okS [u.x + v.x, u.y + v.y, u.z + v.z, u.w + v.w] ∧
    t_v4_sub (envL (u.toList ++ v.toList)) = .okS [u.x - v.x, u.y - v.y, u.z - v.z, u.w - v.w] ∧
    t_v4_neg (envL u.toList) = .okS [-u.x, -u.y, -u.z, -u.w] ∧
    t_v4_mul (envL (u.toList ++ [s])) = .okS [u.x * s, u.y * s, u.z * s, u.w * s] ∧
    t_v4_div (envL (u.toList ++ [s])) = .okS [u.x / s, u.y / s, u.z / s, u.w / s] ∧
    t_v4_sum (envL u.toList) = .okS [u.sum] ∧ t_v4_product (envL u.toList) = .okS [u.product] :=
  ⟨Trace.C03Auto.t_v4_add u v, Trace.C03Auto.t_v4_sub u v, Trace.C03Auto.t_v4_neg u, Trace.C03.t_v4_mul u s,
    Trace.C03.t_v4_div u s, Trace.C03.t_v4_sum u, Trace.C03.t_v4_product u⟩
end Cg.E2E.C03
