import Cgm.Trace.C12
import Cgm.Trace.C12Auto
import Cgm.Props.C12
/-!
# C12, end to end: the affine-space laws and homogeneous coordinates as the code computes them (see `Cgm/E2E/C02.lean`)
-/
set_option linter.unusedSectionVars false
namespace Cg.E2E.C12
open Cg Cg.Gen.C12
variable {K : Type} [Field K] [Transc K] [FRem K] [Lits K]

/-- `(p + v) - p = v`, `p + (q - p) = q`, `(p + v) + w = p + (v + w)`, `p - v = p + (-v)` for the operators as computed -/
theorem code_affine (p q : P3 K) (v w : V3 K) :
    ∃ (add : P3 K → V3 K → P3 K) (sub : P3 K → P3 K → V3 K) (subv : P3 K → V3 K → P3 K),
      (∀ a b, t_p3_add_v (envL (a.toList ++ b.toList)) = .okS (add a b).toList) ∧
      (∀ a b, t_p3_sub_p (envL (a.toList ++ b.toList)) = .okS (sub a b).toList) ∧
      (∀ a b, t_p3_sub_v (envL (a.toList ++ b.toList)) = .okS (subv a b).toList) ∧
      sub (add p v) p = v ∧ add p (sub q p) = q ∧ add (add p v) w = add p (v + w) ∧ subv p v = add p (-v) := by
  have h := C12.P3.affine p q v w
  exact ⟨(· + ·), (· - ·), (· - ·), fun a b => Trace.C12.t_p3_add_v a b, fun a b => Trace.C12.t_p3_sub_p a b,
    fun a b => Trace.C12.t_p3_sub_v a b, h.1, h.2.1, h.2.2.1, h.2.2.2⟩

/-- `midpoint(p, q) = p + (q - p)/2`; the centroid of three points is the sum of their position vectors divided by 3 -/
theorem code_midpoint_centroid (p q r : P3 K) :
    t_p3_midpoint (envL (p.toList ++ q.toList)) = .okS (p + (q - p : V3 K) / (2 : K)).toList ∧
    (∃ c : P3 K, t_p3_centroid_3 (envL (p.toList ++ q.toList ++ r.toList)) = .okS c.toList ∧
      c.x = (p.x + q.x + r.x) / 3 ∧ c.y = (p.y + q.y + r.y) / 3 ∧ c.z = (p.z + q.z + r.z) / 3) := by
  refine ⟨by rw [Trace.C12.t_p3_midpoint, C12.P3.midpoint_eq], P3.centroid [p, q, r], Trace.C12.t_p3_centroid_3 p q r, ?_⟩
  have h := C12.P3.centroid_eq [p, q, r]
  simp only [List.map, List.sum_cons, List.sum_nil, List.length, add_zero] at h
  norm_num at h
  refine ⟨by rw [h.1]; ring, by rw [h.2.1]; ring, by rw [h.2.2]; ring⟩

/-- `from_homogeneous(k * to_homogeneous(p)) = p` for every `k != 0`, composing the two functions as computed -/
theorem code_homogeneous (p : P3 K) (k : K) (hk : k ≠ 0) :
    ∃ h : V4 K, t_p3_to_homogeneous (envL p.toList) = .okS h.toList ∧ h.w = 1 ∧
      t_p3_from_homogeneous (envL (h * k).toList) = .okS p.toList := by
  refine ⟨p.toHomogeneous, Trace.C12.t_p3_to_homogeneous p, rfl, ?_⟩
  rw [Trace.C12.t_p3_from_homogeneous, C12.P3.homogeneous_roundtrip p k hk]
end Cg.E2E.C12
