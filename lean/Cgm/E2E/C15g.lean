import Cgm.Lemmas.GuardSem
import Cgm.E2E.C15c
import Cgm.Trace.C15More
import Cgm.Trace.Cover4
/-!
# C15, end to end, with the guard semantics: the paths of `between_vectors` and `from_arc`

`Quaternion::between_vectors` / `Basis3::between_vectors` (four traced paths each: parallel, general, antiparallel with
the axis `a × x̂` accepted, antiparallel with `a × ŷ`), `Quaternion::from_arc(.., None)` (five paths) and
`from_arc(.., Some(f))` (three paths) record `ulps_eq!` comparisons with the tolerances the harness's scalar uses
(`epsilon = 2^-52`, `max_ulps = 4`).  With `Tr.Consistent` (`Cgm/Lemmas/GuardSem.lean`):

* each kernel is the path the code takes iff its path condition holds (`…_consistent`, any scalar field);
* for every input exactly one of the kernels of a function is (`…_exactly_one`; for `from_arc(.., None)` given
  `ulps_eq!(0, 0)`, which discharges the infeasible path of `Cover4.from_arc_cover`);
* the path conditions are the entries of `Cover2.betweenVectorsPaths`, `Cover4.fromArcPaths`, `Cover2.fromArcFbPaths`
  once the recorded tolerances are the default ones (`…_consistent_cover`);
* at the real instances (`open scoped Cg.RealApprox`) one statement per function: for unit `a`, `b` (non-zero `src`, `dst`)
  the consistent path outputs the flattening of ONE unit quaternion with the property clause of its path.
-/
set_option linter.unusedSectionVars false
set_option linter.unusedSimpArgs false
namespace Cg.E2E.C15
open Cg Cg.Gen.C15 Cg.Trace.C15

section field
variable {K : Type} [Field K] [LinearOrder K] [Approx K] [Transc K] [FRem K] [Lits K]

/-- the approximate test the code records: `ulps_eq` with the tolerances the harness's scalar uses -/
def u52 (x y : K) : Bool := Approx.ulpsEq x y (eps52 : K) 4

/-! ## the comparisons each path records, for every input; consistency of a path ↔ its path condition -/
theorem g_q_between_vectors_same (a b : V3 K) :
    (t_q_between_vectors_same (envL (a.toList ++ b.toList))).guards =
      [.ulps (V3.dot a b) (1) eps52 4 true] := by
  simp [eps52]; tr_auto_nf
theorem g_q_between_vectors_general (a b : V3 K) :
    (t_q_between_vectors_general (envL (a.toList ++ b.toList))).guards =
      [.ulps (V3.dot a b) (1) eps52 4 false,
       .ulps (V3.dot a b / Transc.sqrt (a.magnitude2 * b.magnitude2)) (-1) eps52 4 false] := by
  simp [eps52]; tr_auto_nf
theorem g_q_between_vectors_opp_x (a b : V3 K) :
    (t_q_between_vectors_opp_x (envL (a.toList ++ b.toList))).guards =
      [.ulps (V3.dot a b) (1) eps52 4 false,
       .ulps (V3.dot a b / Transc.sqrt (a.magnitude2 * b.magnitude2)) (-1) eps52 4 true,
       .ulps ((V3.cross a V3.unitX).magnitude2) (0) eps52 4 false] := by
  simp [eps52]; tr_auto_nf
theorem g_q_between_vectors_opp_y (a b : V3 K) :
    (t_q_between_vectors_opp_y (envL (a.toList ++ b.toList))).guards =
      [.ulps (V3.dot a b) (1) eps52 4 false,
       .ulps (V3.dot a b / Transc.sqrt (a.magnitude2 * b.magnitude2)) (-1) eps52 4 true,
       .ulps ((V3.cross a V3.unitX).magnitude2) (0) eps52 4 true] := by
  simp [eps52]; tr_auto_nf
theorem q_between_vectors_same_consistent (a b : V3 K) :
    (t_q_between_vectors_same (envL (a.toList ++ b.toList))).Consistent ↔
      u52 (V3.dot a b) (1) = true := by
  rw [Tr.Consistent, g_q_between_vectors_same]; simp [u52, -V3.dot, -V3.cross, -V3.magnitude2]
theorem q_between_vectors_general_consistent (a b : V3 K) :
    (t_q_between_vectors_general (envL (a.toList ++ b.toList))).Consistent ↔
      u52 (V3.dot a b) (1) = false ∧
      u52 (V3.dot a b / Transc.sqrt (a.magnitude2 * b.magnitude2)) (-1) = false := by
  rw [Tr.Consistent, g_q_between_vectors_general]; simp [u52, -V3.dot, -V3.cross, -V3.magnitude2]
theorem q_between_vectors_opp_x_consistent (a b : V3 K) :
    (t_q_between_vectors_opp_x (envL (a.toList ++ b.toList))).Consistent ↔
      u52 (V3.dot a b) (1) = false ∧
      u52 (V3.dot a b / Transc.sqrt (a.magnitude2 * b.magnitude2)) (-1) = true ∧
      u52 ((V3.cross a V3.unitX).magnitude2) (0) = false := by
  rw [Tr.Consistent, g_q_between_vectors_opp_x]; simp [u52, -V3.dot, -V3.cross, -V3.magnitude2]
theorem q_between_vectors_opp_y_consistent (a b : V3 K) :
    (t_q_between_vectors_opp_y (envL (a.toList ++ b.toList))).Consistent ↔
      u52 (V3.dot a b) (1) = false ∧
      u52 (V3.dot a b / Transc.sqrt (a.magnitude2 * b.magnitude2)) (-1) = true ∧
      u52 ((V3.cross a V3.unitX).magnitude2) (0) = true := by
  rw [Tr.Consistent, g_q_between_vectors_opp_y]; simp [u52, -V3.dot, -V3.cross, -V3.magnitude2]
theorem g_b3_between_vectors_same (a b : V3 K) :
    (t_b3_between_vectors_same (envL (a.toList ++ b.toList))).guards =
      [.ulps (V3.dot a b) (1) eps52 4 true] := by
  simp [eps52]; tr_auto_nf
theorem g_b3_between_vectors_general (a b : V3 K) :
    (t_b3_between_vectors_general (envL (a.toList ++ b.toList))).guards =
      [.ulps (V3.dot a b) (1) eps52 4 false,
       .ulps (V3.dot a b / Transc.sqrt (a.magnitude2 * b.magnitude2)) (-1) eps52 4 false] := by
  simp [eps52]; tr_auto_nf
theorem g_b3_between_vectors_opp_x (a b : V3 K) :
    (t_b3_between_vectors_opp_x (envL (a.toList ++ b.toList))).guards =
      [.ulps (V3.dot a b) (1) eps52 4 false,
       .ulps (V3.dot a b / Transc.sqrt (a.magnitude2 * b.magnitude2)) (-1) eps52 4 true,
       .ulps ((V3.cross a V3.unitX).magnitude2) (0) eps52 4 false] := by
  simp [eps52]; tr_auto_nf
theorem g_b3_between_vectors_opp_y (a b : V3 K) :
    (t_b3_between_vectors_opp_y (envL (a.toList ++ b.toList))).guards =
      [.ulps (V3.dot a b) (1) eps52 4 false,
       .ulps (V3.dot a b / Transc.sqrt (a.magnitude2 * b.magnitude2)) (-1) eps52 4 true,
       .ulps ((V3.cross a V3.unitX).magnitude2) (0) eps52 4 true] := by
  simp [eps52]; tr_auto_nf
theorem b3_between_vectors_same_consistent (a b : V3 K) :
    (t_b3_between_vectors_same (envL (a.toList ++ b.toList))).Consistent ↔
      u52 (V3.dot a b) (1) = true := by
  rw [Tr.Consistent, g_b3_between_vectors_same]; simp [u52, -V3.dot, -V3.cross, -V3.magnitude2]
theorem b3_between_vectors_general_consistent (a b : V3 K) :
    (t_b3_between_vectors_general (envL (a.toList ++ b.toList))).Consistent ↔
      u52 (V3.dot a b) (1) = false ∧
      u52 (V3.dot a b / Transc.sqrt (a.magnitude2 * b.magnitude2)) (-1) = false := by
  rw [Tr.Consistent, g_b3_between_vectors_general]; simp [u52, -V3.dot, -V3.cross, -V3.magnitude2]
theorem b3_between_vectors_opp_x_consistent (a b : V3 K) :
    (t_b3_between_vectors_opp_x (envL (a.toList ++ b.toList))).Consistent ↔
      u52 (V3.dot a b) (1) = false ∧
      u52 (V3.dot a b / Transc.sqrt (a.magnitude2 * b.magnitude2)) (-1) = true ∧
      u52 ((V3.cross a V3.unitX).magnitude2) (0) = false := by
  rw [Tr.Consistent, g_b3_between_vectors_opp_x]; simp [u52, -V3.dot, -V3.cross, -V3.magnitude2]
theorem b3_between_vectors_opp_y_consistent (a b : V3 K) :
    (t_b3_between_vectors_opp_y (envL (a.toList ++ b.toList))).Consistent ↔
      u52 (V3.dot a b) (1) = false ∧
      u52 (V3.dot a b / Transc.sqrt (a.magnitude2 * b.magnitude2)) (-1) = true ∧
      u52 ((V3.cross a V3.unitX).magnitude2) (0) = true := by
  rw [Tr.Consistent, g_b3_between_vectors_opp_y]; simp [u52, -V3.dot, -V3.cross, -V3.magnitude2]
theorem g_q_from_arc_same (a b : V3 K) :
    (t_q_from_arc_same (envL (a.toList ++ b.toList))).guards =
      [.ulps (V3.dot a b) (Transc.sqrt (a.magnitude2 * b.magnitude2)) eps52 4 true] := by
  simp [eps52]; tr_auto_nf
theorem g_q_from_arc_general (a b : V3 K) :
    (t_q_from_arc_general (envL (a.toList ++ b.toList))).guards =
      [.ulps (V3.dot a b) (Transc.sqrt (a.magnitude2 * b.magnitude2)) eps52 4 false,
       .ulps (V3.dot a b) (-Transc.sqrt (a.magnitude2 * b.magnitude2)) eps52 4 false] := by
  simp [eps52]; tr_auto_nf
theorem g_q_from_arc_opp_x (a b : V3 K) :
    (t_q_from_arc_opp_x (envL (a.toList ++ b.toList))).guards =
      [.ulps (V3.dot a b) (Transc.sqrt (a.magnitude2 * b.magnitude2)) eps52 4 false,
       .ulps (V3.dot a b) (-Transc.sqrt (a.magnitude2 * b.magnitude2)) eps52 4 true,
       .ulps ((V3.cross V3.unitX a).x) (0) eps52 4 true,
       .ulps ((V3.cross V3.unitX a).y) (0) eps52 4 true,
       .ulps ((V3.cross V3.unitX a).z) (0) eps52 4 false] := by
  simp [eps52]; tr_auto_nf
theorem g_q_from_arc_opp_y (a b : V3 K) :
    (t_q_from_arc_opp_y (envL (a.toList ++ b.toList))).guards =
      [.ulps (V3.dot a b) (Transc.sqrt (a.magnitude2 * b.magnitude2)) eps52 4 false,
       .ulps (V3.dot a b) (-Transc.sqrt (a.magnitude2 * b.magnitude2)) eps52 4 true,
       .ulps ((V3.cross V3.unitX a).x) (0) eps52 4 true,
       .ulps ((V3.cross V3.unitX a).y) (0) eps52 4 true,
       .ulps ((V3.cross V3.unitX a).z) (0) eps52 4 true] := by
  simp [eps52]; tr_auto_nf
theorem g_q_from_arc_opp_x_y (a b : V3 K) :
    (t_q_from_arc_opp_x_y (envL (a.toList ++ b.toList))).guards =
      [.ulps (V3.dot a b) (Transc.sqrt (a.magnitude2 * b.magnitude2)) eps52 4 false,
       .ulps (V3.dot a b) (-Transc.sqrt (a.magnitude2 * b.magnitude2)) eps52 4 true,
       .ulps ((V3.cross V3.unitX a).x) (0) eps52 4 true,
       .ulps ((V3.cross V3.unitX a).y) (0) eps52 4 false] := by
  simp [eps52]; tr_auto_nf
theorem q_from_arc_same_consistent (a b : V3 K) :
    (t_q_from_arc_same (envL (a.toList ++ b.toList))).Consistent ↔
      u52 (V3.dot a b) (Transc.sqrt (a.magnitude2 * b.magnitude2)) = true := by
  rw [Tr.Consistent, g_q_from_arc_same]; simp [u52, -V3.dot, -V3.cross, -V3.magnitude2]
theorem q_from_arc_general_consistent (a b : V3 K) :
    (t_q_from_arc_general (envL (a.toList ++ b.toList))).Consistent ↔
      u52 (V3.dot a b) (Transc.sqrt (a.magnitude2 * b.magnitude2)) = false ∧
      u52 (V3.dot a b) (-Transc.sqrt (a.magnitude2 * b.magnitude2)) = false := by
  rw [Tr.Consistent, g_q_from_arc_general]; simp [u52, -V3.dot, -V3.cross, -V3.magnitude2]
theorem q_from_arc_opp_x_consistent (a b : V3 K) :
    (t_q_from_arc_opp_x (envL (a.toList ++ b.toList))).Consistent ↔
      u52 (V3.dot a b) (Transc.sqrt (a.magnitude2 * b.magnitude2)) = false ∧
      u52 (V3.dot a b) (-Transc.sqrt (a.magnitude2 * b.magnitude2)) = true ∧
      u52 ((V3.cross V3.unitX a).x) (0) = true ∧
      u52 ((V3.cross V3.unitX a).y) (0) = true ∧
      u52 ((V3.cross V3.unitX a).z) (0) = false := by
  rw [Tr.Consistent, g_q_from_arc_opp_x]; simp [u52, -V3.dot, -V3.cross, -V3.magnitude2]
theorem q_from_arc_opp_y_consistent (a b : V3 K) :
    (t_q_from_arc_opp_y (envL (a.toList ++ b.toList))).Consistent ↔
      u52 (V3.dot a b) (Transc.sqrt (a.magnitude2 * b.magnitude2)) = false ∧
      u52 (V3.dot a b) (-Transc.sqrt (a.magnitude2 * b.magnitude2)) = true ∧
      u52 ((V3.cross V3.unitX a).x) (0) = true ∧
      u52 ((V3.cross V3.unitX a).y) (0) = true ∧
      u52 ((V3.cross V3.unitX a).z) (0) = true := by
  rw [Tr.Consistent, g_q_from_arc_opp_y]; simp [u52, -V3.dot, -V3.cross, -V3.magnitude2]
theorem q_from_arc_opp_x_y_consistent (a b : V3 K) :
    (t_q_from_arc_opp_x_y (envL (a.toList ++ b.toList))).Consistent ↔
      u52 (V3.dot a b) (Transc.sqrt (a.magnitude2 * b.magnitude2)) = false ∧
      u52 (V3.dot a b) (-Transc.sqrt (a.magnitude2 * b.magnitude2)) = true ∧
      u52 ((V3.cross V3.unitX a).x) (0) = true ∧
      u52 ((V3.cross V3.unitX a).y) (0) = false := by
  rw [Tr.Consistent, g_q_from_arc_opp_x_y]; simp [u52, -V3.dot, -V3.cross, -V3.magnitude2]
theorem g_q_from_arc_fb_same (a b f : V3 K) :
    (t_q_from_arc_fb_same (envL (a.toList ++ b.toList ++ f.toList))).guards =
      [.ulps (V3.dot a b) (Transc.sqrt (a.magnitude2 * b.magnitude2)) eps52 4 true] := by
  simp [eps52]; tr_auto_nf
theorem g_q_from_arc_fb_general (a b f : V3 K) :
    (t_q_from_arc_fb_general (envL (a.toList ++ b.toList ++ f.toList))).guards =
      [.ulps (V3.dot a b) (Transc.sqrt (a.magnitude2 * b.magnitude2)) eps52 4 false,
       .ulps (V3.dot a b) (-Transc.sqrt (a.magnitude2 * b.magnitude2)) eps52 4 false] := by
  simp [eps52]; tr_auto_nf
theorem g_q_from_arc_fb_opp (a b f : V3 K) :
    (t_q_from_arc_fb_opp (envL (a.toList ++ b.toList ++ f.toList))).guards =
      [.ulps (V3.dot a b) (Transc.sqrt (a.magnitude2 * b.magnitude2)) eps52 4 false,
       .ulps (V3.dot a b) (-Transc.sqrt (a.magnitude2 * b.magnitude2)) eps52 4 true] := by
  simp [eps52]; tr_auto_nf
theorem q_from_arc_fb_same_consistent (a b f : V3 K) :
    (t_q_from_arc_fb_same (envL (a.toList ++ b.toList ++ f.toList))).Consistent ↔
      u52 (V3.dot a b) (Transc.sqrt (a.magnitude2 * b.magnitude2)) = true := by
  rw [Tr.Consistent, g_q_from_arc_fb_same]; simp [u52, -V3.dot, -V3.cross, -V3.magnitude2]
theorem q_from_arc_fb_general_consistent (a b f : V3 K) :
    (t_q_from_arc_fb_general (envL (a.toList ++ b.toList ++ f.toList))).Consistent ↔
      u52 (V3.dot a b) (Transc.sqrt (a.magnitude2 * b.magnitude2)) = false ∧
      u52 (V3.dot a b) (-Transc.sqrt (a.magnitude2 * b.magnitude2)) = false := by
  rw [Tr.Consistent, g_q_from_arc_fb_general]; simp [u52, -V3.dot, -V3.cross, -V3.magnitude2]
theorem q_from_arc_fb_opp_consistent (a b f : V3 K) :
    (t_q_from_arc_fb_opp (envL (a.toList ++ b.toList ++ f.toList))).Consistent ↔
      u52 (V3.dot a b) (Transc.sqrt (a.magnitude2 * b.magnitude2)) = false ∧
      u52 (V3.dot a b) (-Transc.sqrt (a.magnitude2 * b.magnitude2)) = true := by
  rw [Tr.Consistent, g_q_from_arc_fb_opp]; simp [u52, -V3.dot, -V3.cross, -V3.magnitude2]

/-! ## the kernels of each function; exactly one is the path the code takes -/
/-- the four traced paths of `Quaternion::between_vectors` -/
def qBvKernels (a b : V3 K) : List (Tr K) :=
  [t_q_between_vectors_same (envL (a.toList ++ b.toList)), t_q_between_vectors_general (envL (a.toList ++ b.toList)),
   t_q_between_vectors_opp_x (envL (a.toList ++ b.toList)), t_q_between_vectors_opp_y (envL (a.toList ++ b.toList))]
/-- the four traced paths of `Basis3::between_vectors` -/
def b3BvKernels (a b : V3 K) : List (Tr K) :=
  [t_b3_between_vectors_same (envL (a.toList ++ b.toList)), t_b3_between_vectors_general (envL (a.toList ++ b.toList)),
   t_b3_between_vectors_opp_x (envL (a.toList ++ b.toList)), t_b3_between_vectors_opp_y (envL (a.toList ++ b.toList))]
/-- the five traced paths of `Quaternion::from_arc(src, dst, None)` -/
def arcKernels (a b : V3 K) : List (Tr K) :=
  [t_q_from_arc_same (envL (a.toList ++ b.toList)), t_q_from_arc_general (envL (a.toList ++ b.toList)),
   t_q_from_arc_opp_x (envL (a.toList ++ b.toList)), t_q_from_arc_opp_y (envL (a.toList ++ b.toList)),
   t_q_from_arc_opp_x_y (envL (a.toList ++ b.toList))]
/-- the three traced paths of `Quaternion::from_arc(src, dst, Some(f))` -/
def arcFbKernels (a b f : V3 K) : List (Tr K) :=
  [t_q_from_arc_fb_same (envL (a.toList ++ b.toList ++ f.toList)),
   t_q_from_arc_fb_general (envL (a.toList ++ b.toList ++ f.toList)),
   t_q_from_arc_fb_opp (envL (a.toList ++ b.toList ++ f.toList))]

/-- for every input exactly one of the four paths of `Quaternion::between_vectors` is the one the code takes -/
theorem q_between_vectors_exactly_one (a b : V3 K) : Tr.ExactlyOne (qBvKernels a b) := by
  unfold Tr.ExactlyOne qBvKernels
  simp only [List.pairwise_cons, List.mem_cons, List.not_mem_nil, or_false, forall_eq_or_imp, forall_eq, exists_eq_or_imp,
    exists_eq_left, List.Pairwise.nil, and_true, IsEmpty.forall_iff, implies_true,
    q_between_vectors_same_consistent, q_between_vectors_general_consistent, q_between_vectors_opp_x_consistent,
    q_between_vectors_opp_y_consistent]
  generalize u52 (V3.dot a b) 1 = t1
  generalize u52 (V3.dot a b / Transc.sqrt (a.magnitude2 * b.magnitude2)) (-1) = t2
  generalize u52 (V3.cross a V3.unitX).magnitude2 0 = t3
  cases t1 <;> cases t2 <;> cases t3 <;> simp
/-- the same for `Basis3::between_vectors` -/
theorem b3_between_vectors_exactly_one (a b : V3 K) : Tr.ExactlyOne (b3BvKernels a b) := by
  unfold Tr.ExactlyOne b3BvKernels
  simp only [List.pairwise_cons, List.mem_cons, List.not_mem_nil, or_false, forall_eq_or_imp, forall_eq, exists_eq_or_imp,
    exists_eq_left, List.Pairwise.nil, and_true, IsEmpty.forall_iff, implies_true,
    b3_between_vectors_same_consistent, b3_between_vectors_general_consistent, b3_between_vectors_opp_x_consistent,
    b3_between_vectors_opp_y_consistent]
  generalize u52 (V3.dot a b) 1 = t1
  generalize u52 (V3.dot a b / Transc.sqrt (a.magnitude2 * b.magnitude2)) (-1) = t2
  generalize u52 (V3.cross a V3.unitX).magnitude2 0 = t3
  cases t1 <;> cases t2 <;> cases t3 <;> simp
/-- the `Basis3` entry point takes the path the `Quaternion` one takes: path by path the same comparisons -/
theorem b3_between_vectors_consistent_iff (a b : V3 K) :
    ((t_b3_between_vectors_same (envL (a.toList ++ b.toList))).Consistent ↔
      (t_q_between_vectors_same (envL (a.toList ++ b.toList))).Consistent) ∧
    ((t_b3_between_vectors_general (envL (a.toList ++ b.toList))).Consistent ↔
      (t_q_between_vectors_general (envL (a.toList ++ b.toList))).Consistent) ∧
    ((t_b3_between_vectors_opp_x (envL (a.toList ++ b.toList))).Consistent ↔
      (t_q_between_vectors_opp_x (envL (a.toList ++ b.toList))).Consistent) ∧
    ((t_b3_between_vectors_opp_y (envL (a.toList ++ b.toList))).Consistent ↔
      (t_q_between_vectors_opp_y (envL (a.toList ++ b.toList))).Consistent) := by
  simp only [q_between_vectors_same_consistent, q_between_vectors_general_consistent, q_between_vectors_opp_x_consistent,
    q_between_vectors_opp_y_consistent, b3_between_vectors_same_consistent, b3_between_vectors_general_consistent,
    b3_between_vectors_opp_x_consistent, b3_between_vectors_opp_y_consistent, and_self]

omit [LinearOrder K] [Approx K] [Transc K] [FRem K] [Lits K] in
theorem cross_unitX_x0 (a : V3 K) : (V3.cross V3.unitX a).x = 0 := by simp [V3.cross, V3.unitX]

/-- no two of the five paths of `from_arc(.., None)` are consistent together, and once `ulps_eq!(0, 0)` holds (reflexivity of
the recorded test at zero: the first component of `x̂ × src` is `0·z - 0·y`) one of them is, for every input -/
theorem q_from_arc_exactly_one (a b : V3 K) (h00 : u52 (0 : K) 0 = true) : Tr.ExactlyOne (arcKernels a b) := by
  unfold Tr.ExactlyOne arcKernels
  simp only [List.pairwise_cons, List.mem_cons, List.not_mem_nil, or_false, forall_eq_or_imp, forall_eq, exists_eq_or_imp,
    exists_eq_left, List.Pairwise.nil, and_true, IsEmpty.forall_iff, implies_true,
    q_from_arc_same_consistent, q_from_arc_general_consistent, q_from_arc_opp_x_consistent, q_from_arc_opp_y_consistent,
    q_from_arc_opp_x_y_consistent, cross_unitX_x0, h00]
  generalize u52 (V3.dot a b) (Transc.sqrt (a.magnitude2 * b.magnitude2)) = t1
  generalize u52 (V3.dot a b) (-Transc.sqrt (a.magnitude2 * b.magnitude2)) = t2
  generalize u52 (V3.cross V3.unitX a).y 0 = ty
  generalize u52 (V3.cross V3.unitX a).z 0 = tz
  cases t1 <;> cases t2 <;> cases ty <;> cases tz <;> simp
/-- without the reflexivity hypothesis: no two of the five paths are consistent together -/
theorem q_from_arc_pairwise (a b : V3 K) :
    (arcKernels a b).Pairwise (fun s t => ¬ (s.Consistent ∧ t.Consistent)) := by
  unfold arcKernels
  simp only [List.pairwise_cons, List.mem_cons, List.not_mem_nil, or_false, forall_eq_or_imp, forall_eq,
    List.Pairwise.nil, and_true, IsEmpty.forall_iff, implies_true,
    q_from_arc_same_consistent, q_from_arc_general_consistent, q_from_arc_opp_x_consistent, q_from_arc_opp_y_consistent,
    q_from_arc_opp_x_y_consistent]
  generalize u52 (V3.dot a b) (Transc.sqrt (a.magnitude2 * b.magnitude2)) = t1
  generalize u52 (V3.dot a b) (-Transc.sqrt (a.magnitude2 * b.magnitude2)) = t2
  generalize u52 (V3.cross V3.unitX a).x 0 = tx
  generalize u52 (V3.cross V3.unitX a).y 0 = ty
  generalize u52 (V3.cross V3.unitX a).z 0 = tz
  cases t1 <;> cases t2 <;> cases tx <;> cases ty <;> cases tz <;> simp
/-- for every input exactly one of the three paths of `from_arc(.., Some(f))` is the one the code takes -/
theorem q_from_arc_fb_exactly_one (a b f : V3 K) : Tr.ExactlyOne (arcFbKernels a b f) := by
  unfold Tr.ExactlyOne arcFbKernels
  simp only [List.pairwise_cons, List.mem_cons, List.not_mem_nil, or_false, forall_eq_or_imp, forall_eq, exists_eq_or_imp,
    exists_eq_left, List.Pairwise.nil, and_true, IsEmpty.forall_iff, implies_true,
    q_from_arc_fb_same_consistent, q_from_arc_fb_general_consistent, q_from_arc_fb_opp_consistent]
  generalize u52 (V3.dot a b) (Transc.sqrt (a.magnitude2 * b.magnitude2)) = t1
  generalize u52 (V3.dot a b) (-Transc.sqrt (a.magnitude2 * b.magnitude2)) = t2
  cases t1 <;> cases t2 <;> simp

/-! ## the path conditions are the entries of the coverage lists (`Cgm/Trace/Cover2.lean`, `Cover4.lean`) once the recorded
tolerances are the default ones; so `Cover2.between_vectors_cover` etc. say that some kernel is consistent -/
open Cg.Trace.Cover in
theorem q_between_vectors_consistent_cover (hD : ∀ x y : K, u52 x y = ulpsEqD x y) (a b : V3 K) :
    ((t_q_between_vectors_same (envL (a.toList ++ b.toList))).Consistent ↔ nth (Trace.Cover2.betweenVectorsPaths a b) 0) ∧
    ((t_q_between_vectors_general (envL (a.toList ++ b.toList))).Consistent ↔ nth (Trace.Cover2.betweenVectorsPaths a b) 1) ∧
    ((t_q_between_vectors_opp_x (envL (a.toList ++ b.toList))).Consistent ↔ nth (Trace.Cover2.betweenVectorsPaths a b) 2) ∧
    ((t_q_between_vectors_opp_y (envL (a.toList ++ b.toList))).Consistent ↔ nth (Trace.Cover2.betweenVectorsPaths a b) 3) := by
  simp only [q_between_vectors_same_consistent, q_between_vectors_general_consistent, q_between_vectors_opp_x_consistent,
    q_between_vectors_opp_y_consistent, hD, Trace.Cover2.betweenVectorsPaths, nth, and_self]
open Cg.Trace.Cover in
theorem b3_between_vectors_consistent_cover (hD : ∀ x y : K, u52 x y = ulpsEqD x y) (a b : V3 K) :
    ((t_b3_between_vectors_same (envL (a.toList ++ b.toList))).Consistent ↔ nth (Trace.Cover4.b3BetweenVectorsPaths a b) 0) ∧
    ((t_b3_between_vectors_general (envL (a.toList ++ b.toList))).Consistent ↔ nth (Trace.Cover4.b3BetweenVectorsPaths a b) 1) ∧
    ((t_b3_between_vectors_opp_x (envL (a.toList ++ b.toList))).Consistent ↔ nth (Trace.Cover4.b3BetweenVectorsPaths a b) 2) ∧
    ((t_b3_between_vectors_opp_y (envL (a.toList ++ b.toList))).Consistent ↔ nth (Trace.Cover4.b3BetweenVectorsPaths a b) 3) := by
  simp only [b3_between_vectors_same_consistent, b3_between_vectors_general_consistent, b3_between_vectors_opp_x_consistent,
    b3_between_vectors_opp_y_consistent, hD, Trace.Cover4.b3BetweenVectorsPaths, Trace.Cover2.betweenVectorsPaths, nth, and_self]
open Cg.Trace.Cover in
theorem q_from_arc_consistent_cover (hD : ∀ x y : K, u52 x y = ulpsEqD x y) (a b : V3 K) :
    ((t_q_from_arc_same (envL (a.toList ++ b.toList))).Consistent ↔ nth (Trace.Cover4.fromArcPaths a b) 0) ∧
    ((t_q_from_arc_general (envL (a.toList ++ b.toList))).Consistent ↔ nth (Trace.Cover4.fromArcPaths a b) 1) ∧
    ((t_q_from_arc_opp_x (envL (a.toList ++ b.toList))).Consistent ↔ nth (Trace.Cover4.fromArcPaths a b) 2) ∧
    ((t_q_from_arc_opp_y (envL (a.toList ++ b.toList))).Consistent ↔ nth (Trace.Cover4.fromArcPaths a b) 3) ∧
    ((t_q_from_arc_opp_x_y (envL (a.toList ++ b.toList))).Consistent ↔ nth (Trace.Cover4.fromArcPaths a b) 4) := by
  simp only [q_from_arc_same_consistent, q_from_arc_general_consistent, q_from_arc_opp_x_consistent, q_from_arc_opp_y_consistent,
    q_from_arc_opp_x_y_consistent, hD, Trace.Cover4.fromArcPaths, Trace.Cover2.fromArcPaths, List.cons_append, List.nil_append, nth,
    and_self]
open Cg.Trace.Cover in
theorem q_from_arc_fb_consistent_cover (hD : ∀ x y : K, u52 x y = ulpsEqD x y) (a b f : V3 K) :
    ((t_q_from_arc_fb_same (envL (a.toList ++ b.toList ++ f.toList))).Consistent ↔ nth (Trace.Cover2.fromArcFbPaths a b) 0) ∧
    ((t_q_from_arc_fb_general (envL (a.toList ++ b.toList ++ f.toList))).Consistent ↔ nth (Trace.Cover2.fromArcFbPaths a b) 1) ∧
    ((t_q_from_arc_fb_opp (envL (a.toList ++ b.toList ++ f.toList))).Consistent ↔ nth (Trace.Cover2.fromArcFbPaths a b) 2) := by
  simp only [q_from_arc_fb_same_consistent, q_from_arc_fb_general_consistent, q_from_arc_fb_opp_consistent, hD,
    Trace.Cover2.fromArcFbPaths, nth, and_self]
open Cg.Trace.Cover in
/-- the existence half of `q_between_vectors_exactly_one`, read off `Cover2.between_vectors_cover` -/
theorem q_between_vectors_some_consistent_of_cover (hD : ∀ x y : K, u52 x y = ulpsEqD x y) (a b : V3 K) :
    ∃ t ∈ qBvKernels a b, t.Consistent := by
  obtain ⟨c0, c1, c2, c3⟩ := q_between_vectors_consistent_cover hD a b
  have h := (Trace.Cover2.between_vectors_cover a b).2 trivial
  simp only [Trace.Cover2.betweenVectorsPaths, AnyOf, or_false] at h
  simp only [Trace.Cover2.betweenVectorsPaths, nth] at c0 c1 c2 c3
  unfold qBvKernels
  simp only [List.mem_cons, List.not_mem_nil, or_false, exists_eq_or_imp, exists_eq_left]
  rcases h with h | h | h | h
  · exact Or.inl (c0.2 h)
  · exact Or.inr (Or.inl (c1.2 h))
  · exact Or.inr (Or.inr (Or.inl (c2.2 h)))
  · exact Or.inr (Or.inr (Or.inr (c3.2 h)))
open Cg.Trace.Cover in
/-- the existence half of `q_from_arc_exactly_one`, read off `Cover4.from_arc_cover` -/
theorem q_from_arc_some_consistent_of_cover (hD : ∀ x y : K, u52 x y = ulpsEqD x y) (a b : V3 K)
    (h00 : ulpsEqD (0 : K) 0 = true) : ∃ t ∈ arcKernels a b, t.Consistent := by
  obtain ⟨c0, c1, c2, c3, c4⟩ := q_from_arc_consistent_cover hD a b
  have h := (Trace.Cover4.from_arc_cover a b h00).2 trivial
  simp only [Trace.Cover4.fromArcPaths, Trace.Cover2.fromArcPaths, List.cons_append, List.nil_append, AnyOf, or_false] at h
  simp only [Trace.Cover4.fromArcPaths, Trace.Cover2.fromArcPaths, List.cons_append, List.nil_append, nth] at c0 c1 c2 c3 c4
  unfold arcKernels
  simp only [List.mem_cons, List.not_mem_nil, or_false, exists_eq_or_imp, exists_eq_left]
  rcases h with h | h | h | h | h
  · exact Or.inl (c0.2 h)
  · exact Or.inr (Or.inl (c1.2 h))
  · exact Or.inr (Or.inr (Or.inl (c2.2 h)))
  · exact Or.inr (Or.inr (Or.inr (Or.inl (c3.2 h))))
  · exact Or.inr (Or.inr (Or.inr (Or.inr (c4.2 h))))
end field

/-! ## at the real instances: one statement per function -/
section real
open scoped Cg.RealApprox
open Real

/-- with the real relations the recorded test (tolerances `2^-52`, `4`) is the default `ulps_eq!` -/
theorem u52_real (x y : ℝ) : u52 x y = ulpsEqD x y := rfl
theorem u52_00_real : u52 (0 : ℝ) 0 = true := C15.ulps00_real

/-- a kernel equal to `okG r.toList g` returns, and pins `r` -/
theorem fin_quat (r : Quat ℝ) (k : Tr ℝ) (g : List (G ℝ)) (hk : k = .okG r.toList g) :
    k.res = .ok ∧ k.out = r.toList ∧ ∀ r' : Quat ℝ, k.out = r'.toList → r' = r := by
  subst hk
  exact ⟨rfl, rfl, fun r' h => (Quat.toList_injective h).symm⟩
theorem fin_m3 (m : M3 ℝ) (k : Tr ℝ) (g : List (G ℝ)) (hk : k = .okG m.toList g) :
    k.res = .ok ∧ k.out = m.toList ∧ ∀ m' : M3 ℝ, k.out = m'.toList → m' = m := by
  subst hk
  exact ⟨rfl, rfl, fun r' h => (M3.toList_injective h).symm⟩

/-- **`Quaternion::between_vectors`, one statement**: for unit `a`, `b` exactly one of the four paths is the one the code takes,
and on it the output is the flattening of ONE unit quaternion `r` (pinned).  On the general path `r a = b`, the rotation angle
`2 acos(w)` is the angle between `a` and `b`, `w > 0`, the axis is perpendicular to both; the parallel path (taken only when the
angle is below `1e-7` rad) returns the identity; on the two antiparallel paths (taken only within `1e-7` rad of a half turn) `r`
is a half turn (`w = 0`) about a unit axis perpendicular to `a`, and `r a = -a` -/
theorem code_between_vectors_exact (a b : V3 ℝ) (ha : V3.dot a a = 1) (hb : V3.dot b b = 1) :
    Tr.ExactlyOne (qBvKernels a b) ∧
    ∃ r : Quat ℝ, r.magnitude2 = 1 ∧
      (∀ k ∈ qBvKernels a b, k.Consistent → k.res = .ok ∧ k.out = r.toList ∧ ∀ r' : Quat ℝ, k.out = r'.toList → r' = r) ∧
      ((t_q_between_vectors_general (envL (a.toList ++ b.toList))).Consistent →
        r * a = b ∧ 2 * Real.arccos r.s = V3.angle a b ∧ 0 < r.s ∧ V3.dot r.v a = 0 ∧ V3.dot r.v b = 0) ∧
      ((t_q_between_vectors_same (envL (a.toList ++ b.toList))).Consistent → r = Quat.one ∧ V3.angle a b < 1e-7) ∧
      ((t_q_between_vectors_opp_x (envL (a.toList ++ b.toList))).Consistent ∨
        (t_q_between_vectors_opp_y (envL (a.toList ++ b.toList))).Consistent →
        r.s = 0 ∧ V3.dot r.v r.v = 1 ∧ V3.dot r.v a = 0 ∧ r * a = -a ∧ π - 1e-7 < V3.angle a b) := by
  refine ⟨q_between_vectors_exactly_one a b, Quat.betweenVectors a b, ?_⟩
  simp only [qBvKernels, List.mem_cons, List.not_mem_nil, or_false, forall_eq_or_imp, forall_eq,
    q_between_vectors_same_consistent, q_between_vectors_general_consistent, q_between_vectors_opp_x_consistent,
    q_between_vectors_opp_y_consistent, u52_real]
  cases h1 : ulpsEqD (V3.dot a b) 1
  · cases h2 : ulpsEqD (V3.dot a b / Transc.sqrt (a.magnitude2 * b.magnitude2)) (-1)
    · -- general
      have hbr := bv_branch_of_path a b h1 h2
      obtain ⟨g1, g2, -, g4, g5, g6, g7⟩ := C15.betweenVectors_general_of_refl a b ha hb C15.ulps_refl_real hbr
      refine ⟨g1, ⟨by simp, fun _ => fin_quat _ _ _ (Trace.C15.t_q_between_vectors_general a b h1 h2), by simp, by simp⟩,
        fun _ => ⟨g2, g4, g5, g6, g7⟩, by simp, by simp⟩
    · -- opposite
      have hbr := bv_branch_of_path_opp a b h1 h2
      obtain ⟨k0, k1, k2, k3, k4, k5, k6, -⟩ := C15.betweenVectors_opposite_unit_real a b ha hbr
      have hang := C15.betweenVectors_opposite_angle_real a b ha hb hbr
      have hvv : V3.dot (Quat.betweenVectors a b).v (Quat.betweenVectors a b).v = 1 := by rw [k0]; exact k1
      refine ⟨k3, ⟨by simp, by simp, ?_, ?_⟩, by simp, by simp, fun _ => ⟨k4, hvv, k5, k6, hang⟩⟩
      · rintro ⟨-, -, h3⟩; exact fin_quat _ _ _ (Trace.C15Paths.t_q_between_vectors_opp_x a b h1 h2 h3)
      · rintro ⟨-, -, h3⟩; exact fin_quat _ _ _ (Trace.C15Paths.t_q_between_vectors_opp_y a b h1 h2 h3)
  · -- same
    have hbr : Quat.betweenVectorsBranch a b = .same := by
      unfold Quat.betweenVectorsBranch; simp only [h1]; rfl
    have e := (C15.betweenVectors_same a b hbr).1
    have hang := C15.betweenVectors_same_angle_real a b ha hb hbr
    refine ⟨by rw [e]; simp [Quat.one], ⟨fun _ => fin_quat _ _ _ (Trace.C15.t_q_between_vectors_same a b h1), by simp, by simp,
      by simp⟩, by simp, fun _ => ⟨e, hang⟩, by simp⟩

theorem one_toM3 : (Quat.one : Quat ℝ).toM3 = M3.one := by ext <;> simp [Quat.one, Quat.toM3, M3.one]

/-- **`Basis3::between_vectors`, one statement**: for unit `a`, `b` exactly one of its four paths is the one the code takes (the one
with the comparisons of the `Quaternion` path); on it the output is the flattening of ONE matrix `m` (pinned), the matrix of the
unit quaternion the `Quaternion` entry point outputs, orthonormal with determinant `+1`; `m a = b` on the general path, `m` is
the identity on the parallel path (angle below `1e-7` rad), `m a = -a` on the antiparallel paths (within `1e-7` rad of a half turn) -/
theorem code_b3_between_vectors_exact (a b : V3 ℝ) (ha : V3.dot a a = 1) (hb : V3.dot b b = 1) :
    Tr.ExactlyOne (b3BvKernels a b) ∧
    ∃ (m : M3 ℝ) (r : Quat ℝ), m = r.toM3 ∧ r.magnitude2 = 1 ∧ m.transpose * m = M3.one ∧ m.det = 1 ∧
      (∀ k ∈ b3BvKernels a b, k.Consistent → k.res = .ok ∧ k.out = m.toList ∧ ∀ m' : M3 ℝ, k.out = m'.toList → m' = m) ∧
      (∀ k ∈ qBvKernels a b, k.Consistent → k.out = r.toList) ∧
      ((t_b3_between_vectors_general (envL (a.toList ++ b.toList))).Consistent →
        m * a = b ∧ 2 * Real.arccos r.s = V3.angle a b ∧ 0 < r.s ∧ V3.dot r.v a = 0 ∧ V3.dot r.v b = 0) ∧
      ((t_b3_between_vectors_same (envL (a.toList ++ b.toList))).Consistent → m = M3.one ∧ V3.angle a b < 1e-7) ∧
      ((t_b3_between_vectors_opp_x (envL (a.toList ++ b.toList))).Consistent ∨
        (t_b3_between_vectors_opp_y (envL (a.toList ++ b.toList))).Consistent →
        r.s = 0 ∧ V3.dot r.v r.v = 1 ∧ V3.dot r.v a = 0 ∧ m * a = -a ∧ π - 1e-7 < V3.angle a b) := by
  refine ⟨b3_between_vectors_exactly_one a b, ?_⟩
  obtain ⟨-, r, hu, hpin, hg, hsame, hopp⟩ := code_between_vectors_exact a b ha hb
  obtain ⟨c0, c1, c2, c3⟩ := b3_between_vectors_consistent_iff a b
  -- `r` is the model's quaternion: some `Quaternion` kernel is consistent and pins it
  have hr : r = Quat.betweenVectors a b := by
    have hq : ∀ (k : Tr ℝ) (g : List (G ℝ)), k.Consistent → k ∈ qBvKernels a b →
        k = .okG (Quat.betweenVectors a b).toList g → r = Quat.betweenVectors a b := by
      intro k g hc hm hk
      have := (hpin k hm hc).2.1
      rw [hk] at this
      exact (Quat.toList_injective this).symm
    simp only [qBvKernels, List.mem_cons, List.not_mem_nil, or_false] at hq
    cases h1 : ulpsEqD (V3.dot a b) 1
    · cases h2 : ulpsEqD (V3.dot a b / Transc.sqrt (a.magnitude2 * b.magnitude2)) (-1)
      · exact hq _ _ ((q_between_vectors_general_consistent a b).2 ⟨h1, h2⟩) (Or.inr (Or.inl rfl))
          (Trace.C15.t_q_between_vectors_general a b h1 h2)
      · cases h3 : ulpsEqD (V3.cross a V3.unitX).magnitude2 0
        · exact hq _ _ ((q_between_vectors_opp_x_consistent a b).2 ⟨h1, h2, h3⟩) (Or.inr (Or.inr (Or.inl rfl)))
            (Trace.C15Paths.t_q_between_vectors_opp_x a b h1 h2 h3)
        · exact hq _ _ ((q_between_vectors_opp_y_consistent a b).2 ⟨h1, h2, h3⟩) (Or.inr (Or.inr (Or.inr rfl)))
            (Trace.C15Paths.t_q_between_vectors_opp_y a b h1 h2 h3)
    · exact hq _ _ ((q_between_vectors_same_consistent a b).2 h1) (Or.inl rfl) (Trace.C15.t_q_between_vectors_same a b h1)
  obtain ⟨o1, -, o3⟩ := Cg.C05.toM3_orthonormal r hu
  refine ⟨r.toM3, r, rfl, hu, o1, o3, ?_, fun k hk hc => (hpin k hk hc).2.1, ?_, ?_, ?_⟩
  · have hm : (Basis3.betweenVectors a b).mat = r.toM3 := by rw [hr]; rfl
    intro k hk
    simp only [b3BvKernels, List.mem_cons, List.not_mem_nil, or_false] at hk
    rcases hk with rfl | rfl | rfl | rfl
    · intro hc; have h := (b3_between_vectors_same_consistent a b).1 hc
      exact fin_m3 _ _ _ (by rw [← hm]; exact Trace.C15More.t_b3_between_vectors_same a b h)
    · intro hc; obtain ⟨h1, h2⟩ := (b3_between_vectors_general_consistent a b).1 hc
      exact fin_m3 _ _ _ (by rw [← hm]; exact Trace.C15Paths.t_b3_between_vectors_general a b h1 h2)
    · intro hc; obtain ⟨h1, h2, h3⟩ := (b3_between_vectors_opp_x_consistent a b).1 hc
      exact fin_m3 _ _ _ (by rw [← hm]; exact Trace.C15More.t_b3_between_vectors_opp_x a b h1 h2 h3)
    · intro hc; obtain ⟨h1, h2, h3⟩ := (b3_between_vectors_opp_y_consistent a b).1 hc
      exact fin_m3 _ _ _ (by rw [← hm]; exact Trace.C15More.t_b3_between_vectors_opp_y a b h1 h2 h3)
  · intro hc
    obtain ⟨g1, g2⟩ := hg (c1.1 hc)
    exact ⟨by rw [Cg.C05.toM3_mulVec]; exact g1, g2⟩
  · intro hc
    obtain ⟨g1, g2⟩ := hsame (c0.1 hc)
    exact ⟨by rw [g1]; exact one_toM3, g2⟩
  · intro hc
    obtain ⟨g1, g2, g3, g4, g5⟩ := hopp (hc.imp c2.1 c3.1)
    exact ⟨g1, g2, g3, by rw [Cg.C05.toM3_mulVec]; exact g4, g5⟩

/-- not vacuous: each of the four paths of `between_vectors` is taken by some pair of unit vectors -/
example : (t_q_between_vectors_general (envL ((⟨1, 0, 0⟩ : V3 ℝ).toList ++ (⟨0, 1, 0⟩ : V3 ℝ).toList))).Consistent := by
  rw [q_between_vectors_general_consistent]
  have key : ∀ y : ℝ, |y| = 1 → u52 (0 : ℝ) y = false := by
    intro y hy
    rw [u52_real, ← Bool.not_eq_true, real_ulpsEqD, zero_sub, abs_neg, hy, abs_zero, max_eq_right zero_le_one]
    unfold eps52R; norm_num
  have hd : V3.dot (⟨1, 0, 0⟩ : V3 ℝ) ⟨0, 1, 0⟩ = 0 := by simp [V3.dot]
  rw [hd, zero_div]
  exact ⟨key 1 (by norm_num), key (-1) (by norm_num)⟩
example (a : V3 ℝ) (ha : V3.dot a a = 1) : (t_q_between_vectors_same (envL (a.toList ++ a.toList))).Consistent := by
  rw [q_between_vectors_same_consistent, u52_real, ha]; exact C15.ulps_refl_real 1
example (a : V3 ℝ) (ha : V3.dot a a = 1) :
    (t_q_between_vectors_opp_x (envL (a.toList ++ (-a).toList))).Consistent ∨
      (t_q_between_vectors_opp_y (envL (a.toList ++ (-a).toList))).Consistent := by
  rw [q_between_vectors_opp_x_consistent, q_between_vectors_opp_y_consistent]
  simp only [u52_real]
  obtain ⟨h1, h2⟩ := C15.bv_neg_path_real a ha
  cases h3 : ulpsEqD (V3.cross a V3.unitX).magnitude2 0
  · exact Or.inl ⟨h1, h2, rfl⟩
  · exact Or.inr ⟨h1, h2, rfl⟩

/-! ### `from_arc` -/

/-- **`Quaternion::from_arc(src, dst, None)`, one statement**: for non-zero `src`, `dst` exactly one of the five paths is the one
the code takes, and on it the output is the flattening of ONE quaternion `r` (pinned).  General path: `r` is the unit quaternion
of the smaller rotation `src/|src| ↦ dst/|dst|` (`w > 0`, rotation angle `2 acos w` = the angle between them); parallel path: the
identity; antiparallel paths with the axis `x̂ × src` accepted (`opp_x`: the component-wise test stops at `z`, `opp_x_y`: at `y`):
a unit half turn about the normalised `x̂ × src ⟂ src`, sending `src/|src|` to its negation, with no side condition; antiparallel
path with `x̂ × src` rejected (`opp_y`): the same about the normalised `ŷ × src`, under the side condition `src ≠ (0, y, 0)` that
`Cgm/E2E/C15c.lean` states (necessary: `Cg.C15.fromArc_tiny_src_counterexample`), which follows from `|src| > ε` -/
theorem code_from_arc_exact (src dst : V3 ℝ) (hs : 0 < src.magnitude2) (hd : 0 < dst.magnitude2) :
    Tr.ExactlyOne (arcKernels src dst) ∧
    ∃ r : Quat ℝ,
      (∀ k ∈ arcKernels src dst, k.Consistent → k.res = .ok ∧ k.out = r.toList ∧ ∀ r' : Quat ℝ, k.out = r'.toList → r' = r) ∧
      ((t_q_from_arc_general (envL (src.toList ++ dst.toList))).Consistent →
        r.magnitude2 = 1 ∧ r * (src * (1 / src.magnitude)) = dst * (1 / dst.magnitude) ∧ 0 < r.s ∧
        2 * Real.arccos r.s = V3.angle src dst) ∧
      ((t_q_from_arc_same (envL (src.toList ++ dst.toList))).Consistent → r = Quat.one) ∧
      ((t_q_from_arc_opp_x (envL (src.toList ++ dst.toList))).Consistent ∨
        (t_q_from_arc_opp_x_y (envL (src.toList ++ dst.toList))).Consistent →
        r.magnitude2 = 1 ∧ r.s = 0 ∧ r.v = (V3.cross V3.unitX src).normalize ∧ V3.dot r.v r.v = 1 ∧ V3.dot r.v src = 0 ∧
        r * src = -src ∧ r * (src * (1 / src.magnitude)) = -(src * (1 / src.magnitude))) ∧
      ((t_q_from_arc_opp_y (envL (src.toList ++ dst.toList))).Consistent →
        (eps52R ^ 2 < src.magnitude2 → ¬ (src.x = 0 ∧ src.z = 0)) ∧
        (¬ (src.x = 0 ∧ src.z = 0) →
          r.magnitude2 = 1 ∧ r.s = 0 ∧ r.v = (V3.cross V3.unitY src).normalize ∧ V3.dot r.v r.v = 1 ∧ V3.dot r.v src = 0 ∧
          r * src = -src ∧ r * (src * (1 / src.magnitude)) = -(src * (1 / src.magnitude)))) := by
  refine ⟨q_from_arc_exactly_one src dst u52_00_real, Quat.fromArc src dst none, ?_⟩
  have hx : ulpsEqD (V3.cross V3.unitX src).x 0 = true := by rw [C15.cross_unitX]; exact C15.ulps00_real
  simp only [arcKernels, List.mem_cons, List.not_mem_nil, or_false, forall_eq_or_imp, forall_eq,
    q_from_arc_same_consistent, q_from_arc_general_consistent, q_from_arc_opp_x_consistent, q_from_arc_opp_y_consistent,
    q_from_arc_opp_x_y_consistent, u52_real]
  cases h1 : ulpsEqD (V3.dot src dst) (Transc.sqrt (src.magnitude2 * dst.magnitude2))
  · cases h2 : ulpsEqD (V3.dot src dst) (-Transc.sqrt (src.magnitude2 * dst.magnitude2))
    · -- general
      have hbr := arc_branch_of_path src dst h1 h2
      obtain ⟨k1, k2, k3, k4⟩ := C15.fromArc_general_of_refl src dst none C15.ulps_refl_real hbr hs hd
      exact ⟨⟨by simp, fun _ => fin_quat _ _ _ (Trace.C15.t_q_from_arc_general src dst h1 h2), by simp, by simp, by simp⟩,
        fun _ => ⟨k1, k2, k3, k4⟩, by simp, by simp, by simp⟩
    · -- opposite
      have hbr := arc_branch_of_path_opp src dst h1 h2
      -- the axis `x̂ × src` is accepted: the clause, given the outcome that rejects it is false
      have hX : V3.ulpsEqZero (V3.cross V3.unitX src) = false →
          ¬ (src.x = 0 ∧ src.z = 0 ∧ |src.y| ≤ eps52R) →
          (Quat.fromArc src dst none).magnitude2 = 1 ∧ (Quat.fromArc src dst none).s = 0 ∧
          (Quat.fromArc src dst none).v = (V3.cross V3.unitX src).normalize ∧
          V3.dot (Quat.fromArc src dst none).v (Quat.fromArc src dst none).v = 1 ∧
          V3.dot (Quat.fromArc src dst none).v src = 0 ∧ Quat.fromArc src dst none * src = -src ∧
          Quat.fromArc src dst none * (src * (1 / src.magnitude)) = -(src * (1 / src.magnitude)) := by
        intro hz hsrc
        have hax : C15.arcAxis src = V3.cross V3.unitX src := by
          simp only [C15.arcAxis, hz, Bool.false_eq_true, if_false]
        obtain ⟨k0, k1, k2, k3, k4, k5, k6, k7⟩ := C15.fromArc_opposite_none_real' src dst hbr hsrc
        rw [hax] at k0 k1 k2
        exact ⟨k3, k4, by rw [k0]; rfl, by rw [k0]; exact k1, k5, k6, k7⟩
      refine ⟨⟨by simp, by simp, ?_, ?_, ?_⟩, by simp, by simp, ?_, ?_⟩
      · rintro ⟨-, -, h3, h4, h5⟩; exact fin_quat _ _ _ (Trace.C15Paths.t_q_from_arc_opp_x src dst h1 h2 h3 h4 h5)
      · rintro ⟨-, -, h3, h4, h5⟩; exact fin_quat _ _ _ (Trace.C15Paths.t_q_from_arc_opp_y src dst h1 h2 h3 h4 h5)
      · rintro ⟨-, -, h3, h4⟩; exact fin_quat _ _ _ (Trace.C15More.t_q_from_arc_opp_x_y src dst h1 h2 h3 h4)
      · rintro (⟨-, -, h3, h4, h5⟩ | ⟨-, -, h3, h4⟩)
        · refine hX (by simp only [V3.ulpsEqZero, h3, h4, h5, Bool.and_false]) ?_
          rintro ⟨-, -, hy⟩
          rw [C15.cross_unitX, ← Bool.not_eq_true, real_ulpsEqD_zero] at h5
          exact h5 hy
        · refine hX (by simp only [V3.ulpsEqZero, h3, h4, Bool.and_false, Bool.false_and]) ?_
          rintro ⟨-, hz, -⟩
          rw [C15.cross_unitX, ← Bool.not_eq_true, real_ulpsEqD_zero] at h4
          apply h4
          show |-src.z| ≤ eps52R
          rw [hz, neg_zero, abs_zero]; exact eps52R_pos.le
      · rintro ⟨-, -, h3, h4, h5⟩
        refine ⟨fun hlen => src_cond_of_length src hlen h5, fun hsrc => ?_⟩
        have hz : V3.ulpsEqZero (V3.cross V3.unitX src) = true := by
          simp only [V3.ulpsEqZero, h3, h4, h5, Bool.and_self]
        have hax : C15.arcAxis src = V3.cross V3.unitY src := by
          simp only [C15.arcAxis, hz, if_true]
        have hsrc' : ¬ (src.x = 0 ∧ src.z = 0 ∧ |src.y| ≤ eps52R) := fun h => hsrc ⟨h.1, h.2.1⟩
        obtain ⟨k0, k1, k2, k3, k4, k5, k6, k7⟩ := C15.fromArc_opposite_none_real' src dst hbr hsrc'
        rw [hax] at k0 k1 k2
        exact ⟨k3, k4, by rw [k0]; rfl, by rw [k0]; exact k1, k5, k6, k7⟩
  · -- same
    have e := (C15.fromArc_branches src dst none).1 (arc_branch_of_path_same src dst h1)
    exact ⟨⟨fun _ => fin_quat _ _ _ (Trace.C15.t_q_from_arc_same src dst h1), by simp, by simp, by simp, by simp⟩,
      by simp, fun _ => e, by simp, by simp⟩

/-- the tolerance clause, about the kernels: for lengths `≥ 1e-3` the parallel path is taken only below `1e-4` rad, an
antiparallel path only within `1e-4` rad of a half turn -/
theorem code_from_arc_tolerance (src dst : V3 ℝ) (hs : 1e-6 ≤ src.magnitude2) (hd : 1e-6 ≤ dst.magnitude2) :
    ((t_q_from_arc_same (envL (src.toList ++ dst.toList))).Consistent → V3.angle src dst < 1e-4) ∧
    ((t_q_from_arc_opp_x (envL (src.toList ++ dst.toList))).Consistent ∨
      (t_q_from_arc_opp_y (envL (src.toList ++ dst.toList))).Consistent ∨
      (t_q_from_arc_opp_x_y (envL (src.toList ++ dst.toList))).Consistent → π - 1e-4 < V3.angle src dst) := by
  obtain ⟨t1, t2⟩ := C15.fromArc_tolerance_real src dst hs hd
  simp only [q_from_arc_same_consistent, q_from_arc_opp_x_consistent, q_from_arc_opp_y_consistent,
    q_from_arc_opp_x_y_consistent, u52_real]
  refine ⟨fun h => t1 (arc_branch_of_path_same src dst h), ?_⟩
  rintro (⟨h1, h2, -⟩ | ⟨h1, h2, -⟩ | ⟨h1, h2, -⟩) <;> exact t2 (arc_branch_of_path_opp src dst h1 h2)

/-- **`Quaternion::from_arc(src, dst, Some(f))`, one statement**: for non-zero `src`, `dst` exactly one of the three paths is the
one the code takes, and on it the output is the flattening of ONE quaternion `r` (pinned).  General and parallel paths: as
without fallback (same comparisons, same output, whatever `f`); antiparallel path: for a unit `f ⟂ src` the half turn about `f`,
unit, sending `src/|src|` to its negation -/
theorem code_from_arc_fb_exact (src dst f : V3 ℝ) (hs : 0 < src.magnitude2) (hd : 0 < dst.magnitude2) :
    Tr.ExactlyOne (arcFbKernels src dst f) ∧
    ∃ r : Quat ℝ,
      (∀ k ∈ arcFbKernels src dst f, k.Consistent →
        k.res = .ok ∧ k.out = r.toList ∧ ∀ r' : Quat ℝ, k.out = r'.toList → r' = r) ∧
      ((t_q_from_arc_fb_general (envL (src.toList ++ dst.toList ++ f.toList))).Consistent →
        t_q_from_arc_fb_general (envL (src.toList ++ dst.toList ++ f.toList)) =
          t_q_from_arc_general (envL (src.toList ++ dst.toList)) ∧
        r.magnitude2 = 1 ∧ r * (src * (1 / src.magnitude)) = dst * (1 / dst.magnitude) ∧ 0 < r.s ∧
        2 * Real.arccos r.s = V3.angle src dst) ∧
      ((t_q_from_arc_fb_same (envL (src.toList ++ dst.toList ++ f.toList))).Consistent →
        t_q_from_arc_fb_same (envL (src.toList ++ dst.toList ++ f.toList)) =
          t_q_from_arc_same (envL (src.toList ++ dst.toList)) ∧ r = Quat.one) ∧
      ((t_q_from_arc_fb_opp (envL (src.toList ++ dst.toList ++ f.toList))).Consistent →
        V3.dot f f = 1 → V3.dot f src = 0 →
        r = Quat.fromSv 0 f ∧ r.magnitude2 = 1 ∧ r * src = -src ∧
        r * (src * (1 / src.magnitude)) = -(src * (1 / src.magnitude))) := by
  refine ⟨q_from_arc_fb_exactly_one src dst f, Quat.fromArc src dst (some f), ?_⟩
  simp only [arcFbKernels, List.mem_cons, List.not_mem_nil, or_false, forall_eq_or_imp, forall_eq,
    q_from_arc_fb_same_consistent, q_from_arc_fb_general_consistent, q_from_arc_fb_opp_consistent, u52_real]
  cases h1 : ulpsEqD (V3.dot src dst) (Transc.sqrt (src.magnitude2 * dst.magnitude2))
  · cases h2 : ulpsEqD (V3.dot src dst) (-Transc.sqrt (src.magnitude2 * dst.magnitude2))
    · have hbr := arc_branch_of_path src dst h1 h2
      have e1 := (C15.fromArc_branches src dst (some f)).2.1 hbr
      have e2 := (C15.fromArc_branches src dst none).2.1 hbr
      have hsame : Quat.fromArc src dst (some f) = Quat.fromArc src dst none := by rw [e1, e2]
      obtain ⟨k1, k2, k3, k4⟩ := C15.fromArc_general_of_refl src dst (some f) C15.ulps_refl_real hbr hs hd
      refine ⟨⟨by simp, fun _ => fin_quat _ _ _ (Trace.C15Paths.t_q_from_arc_fb_general src dst f h1 h2), by simp⟩,
        fun _ => ⟨?_, k1, k2, k3, k4⟩, by simp, by simp⟩
      rw [Trace.C15Paths.t_q_from_arc_fb_general src dst f h1 h2, Trace.C15.t_q_from_arc_general src dst h1 h2, hsame]
    · have hbr := arc_branch_of_path_opp src dst h1 h2
      refine ⟨⟨by simp, by simp, fun _ => fin_quat _ _ _ (Trace.C15Paths.t_q_from_arc_fb_opp src dst f h1 h2)⟩,
        by simp, by simp, fun _ hf hfs => C15.fromArc_opposite_fallback_real src dst f hbr hf hfs⟩
  · have e := (C15.fromArc_branches src dst (some f)).1 (arc_branch_of_path_same src dst h1)
    refine ⟨⟨fun _ => fin_quat _ _ _ (Trace.C15Paths.t_q_from_arc_fb_same src dst f h1), by simp, by simp⟩,
      by simp, fun _ => ⟨(code_from_arc_fb_same_real src dst f h1).2, e⟩, by simp⟩

/-- not vacuous: `src = (0, 0, 1)`, `dst = -src` takes the path `opp_x_y` (the component-wise test stops at `y`) -/
example : (t_q_from_arc_opp_x_y (envL ((⟨0, 0, 1⟩ : V3 ℝ).toList ++ (⟨0, 0, -1⟩ : V3 ℝ).toList))).Consistent := by
  rw [q_from_arc_opp_x_y_consistent]
  simp only [u52_real]
  have hd : V3.dot (⟨0, 0, 1⟩ : V3 ℝ) ⟨0, 0, -1⟩ = -1 := by simp [V3.dot]
  have hm : Transc.sqrt ((⟨0, 0, 1⟩ : V3 ℝ).magnitude2 * (⟨0, 0, -1⟩ : V3 ℝ).magnitude2) = (1 : ℝ) := by
    simp [V3.magnitude2, V3.dot, transc_sqrt]
  rw [hd, hm, C15.cross_unitX]
  refine ⟨?_, C15.ulps_refl_real _, C15.ulps00_real, ?_⟩
  · rw [← Bool.not_eq_true, real_ulpsEqD]; norm_num [eps52R]
  · rw [← Bool.not_eq_true, real_ulpsEqD_zero]; norm_num [eps52R]
end real
end Cg.E2E.C15
