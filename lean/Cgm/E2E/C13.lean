import Cgm.Trace.C13
import Cgm.Trace.C13Auto
import Cgm.Props.C13
/-!
# C13, end to end: `normalize`, `normalize_signed`, `opposite`, `bisect`, the unit conversions and the trigonometric wrappers
as the code computes them, over an ordered field whose `%` is C `fmod` (`FRemSpec`; see `Cgm/E2E/C02.lean`)
-/
set_option linter.unusedSectionVars false
namespace Cg.E2E.C13
open Cg Cg.Gen.C13
section ordered
variable {K : Type} [Field K] [LinearOrder K] [IsStrictOrderedRing K] [Transc K] [FRem K] [Lits K]
variable (hF : C13.FRemSpec K)
include hF

/-- `normalize(a)` as computed (either outcome of its comparison of the remainder with 0) lies in `[0, full turn)` and differs
from `a` by a whole number of turns -/
theorem code_deg_normalize (a : K) :
    ∃ r : K, (0 < FRem.frem a (360 : K) → t_deg_normalize_pos (envL [a]) = .okG [r] [.cmp (FRem.frem a 360) 0 .gt]) ∧
      (FRem.frem a (360 : K) < 0 → t_deg_normalize_neg (envL [a]) = .okG [r] [.cmp (FRem.frem a 360) 0 .lt]) ∧
      (FRem.frem a (360 : K) = 0 → t_deg_normalize_zero (envL [a]) = .okG [r] [.cmp (FRem.frem a 360) 0 .eq]) ∧
      0 ≤ r ∧ r < 360 ∧ ∃ k : ℤ, r = a + k * 360 := by
  have h := C13.normalize_spec hF (degFull : K) a (by simp [degFull])
  rw [C13.degFull_eq] at h
  exact ⟨Angle.normalize degFull a, fun hh => Trace.C13.t_deg_normalize_pos a hh, fun hh => Trace.C13.t_deg_normalize_neg a hh,
    fun hh => Trace.C13.t_deg_normalize_zero a hh, by simpa [C13.degFull_eq] using h⟩

/-- `normalize_signed(a)` as computed lies in `(-half turn, half turn]` and differs from `a` by a whole number of turns -- here
only for inputs with a positive remainder (hypothesis `h : 0 < a % 360`; the two kernels are the `hi` / `lo` paths of that
case, the half-turn tie has no kernel here).  Every `a`, every path: `code_deg_normalize_signed_total`, `E2E/C13d.lean` -/
theorem code_deg_normalize_signed (a : K) (h : 0 < FRem.frem a (360 : K)) :
    ∃ r : K, ((360 : K) / 2 < FRem.frem a 360 → t_deg_normalize_signed_hi (envL [a]) =
        .okG [r] [.cmp (FRem.frem a 360) 0 .gt, .cmp (360 / 2) (FRem.frem a 360) .lt]) ∧
      (FRem.frem a 360 < (360 : K) / 2 → t_deg_normalize_signed_lo (envL [a]) =
        .okG [r] [.cmp (FRem.frem a 360) 0 .gt, .cmp (360 / 2) (FRem.frem a 360) .gt]) ∧
      -(360 / 2) < r ∧ r ≤ 360 / 2 ∧ ∃ k : ℤ, r = a + k * 360 := by
  have hs := C13.normalizeSigned_spec hF (degFull : K) a (by simp [degFull])
  exact ⟨Angle.normalizeSigned degFull a, fun h2 => Trace.C13.t_deg_normalize_signed_hi a h h2,
    fun h2 => Trace.C13.t_deg_normalize_signed_lo a h h2, by simpa [C13.degFull_eq] using hs⟩

/-- `bisect(a, b)` as computed (non-wrapping path) is midway between `a` and `b`: equal signed distance to both, at most a
quarter turn from each, and normalised -/
theorem code_deg_bisect (a b : K) (h : 0 < FRem.frem (b - a) (360 : K)) (h2 : FRem.frem (b - a) 360 < (360 : K) / 2)
    (h3 : 0 < FRem.frem (a + FRem.frem (b - a) 360 * (1 / 2)) (360 : K)) :
    ∃ r : K, t_deg_bisect_near (envL [a, b]) = .okG [r]
        [.cmp (FRem.frem (b - a) 360) 0 .gt, .cmp (360 / 2) (FRem.frem (b - a) 360) .gt,
         .cmp (FRem.frem (a + FRem.frem (b - a) 360 * (1 / 2)) 360) 0 .gt] ∧
      Angle.normalizeSigned degFull (r - a) = Angle.normalizeSigned degFull (b - r) ∧
      |Angle.normalizeSigned degFull (r - a)| ≤ (degFull : K) / 4 ∧ 0 ≤ r ∧ r < degFull :=
  ⟨Angle.bisect degFull a b, Trace.C13.t_deg_bisect_near a b h h2 h3, C13.bisect_midway hF (degFull : K) a b (by simp [degFull])⟩
end ordered

section units
variable {K : Type} [Field K] [LinearOrder K] [IsStrictOrderedRing K] [Transc K] [FRem K] [Lits K]
/-- one full turn is `360 deg`; `turn_div_k() * k = full_turn()`; the unit conversions are multiplication by the two constants -/
theorem code_turns (a : K) :
    t_deg_full_turn (envL ([] : List K)) = .okS [(360 : K)] ∧
    (∃ t : K, t_deg_turn_div_3 (envL ([] : List K)) = .okS [t] ∧ t * 3 = degFull) ∧
    (∃ t : K, t_rad_turn_div_6 (envL ([] : List K)) = .okS [t] ∧ t * 6 = Lits.radFull) ∧
    t_rad_to_deg (envL [a]) = .okS [a * Lits.rad2deg] ∧ t_deg_to_rad (envL [a]) = .okS [a * Lits.deg2rad] := by
  refine ⟨by rw [Trace.C13Auto.t_deg_full_turn, C13.degFull_eq], ⟨_, Trace.C13.t_deg_turn_div_3, (C13.turnDiv_mul (degFull : K)).2.1⟩,
    ⟨_, Trace.C13.t_rad_turn_div_6, (C13.turnDiv_mul (Lits.radFull : K)).2.2.2⟩, ?_, ?_⟩
  · rw [Trace.C13.t_rad_to_deg]; rfl
  · rw [Trace.C13.t_deg_to_rad]; rfl
end units

section real
variable [FRem ℝ] [Lits ℝ]
/-- `sin`, `cos`, `tan` of an angle in degrees as computed are the real functions of its radian measure; the inverse functions
return the principal value converted to the caller's unit -/
theorem code_trig (x y : ℝ) :
    t_deg_sin (envL [x]) = .okS [Real.sin (degToRad x)] ∧ t_deg_cos (envL [x]) = .okS [Real.cos (degToRad x)] ∧
    t_deg_tan (envL [x]) = .okS [Real.tan (degToRad x)] ∧ t_rad_sin (envL [x]) = .okS [Real.sin x] ∧
    t_deg_acos (envL [x]) = .okS [radToDeg (Real.arccos x)] ∧ t_deg_asin (envL [x]) = .okS [radToDeg (Real.arcsin x)] ∧
    t_deg_atan2 (envL [y, x]) = .okS [radToDeg (Complex.arg ⟨x, y⟩)] ∧ t_rad_acos (envL [x]) = .okS [Real.arccos x] :=
  ⟨Trace.C13.t_deg_sin x, Trace.C13.t_deg_cos x, Trace.C13.t_deg_tan x, Trace.C13.t_rad_sin x, Trace.C13.t_deg_acos x,
    Trace.C13.t_deg_asin x, Trace.C13.t_deg_atan2 y x, Trace.C13.t_rad_acos x⟩
end real
end Cg.E2E.C13
