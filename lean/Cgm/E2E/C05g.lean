import Cgm.Lemmas.GuardSem
import Cgm.E2E.C05b
import Cgm.Trace.C05Paths
/-!
# C05, end to end, with the guard semantics: the five paths of `From<Matrix3> for Quaternion`

The five traced paths (non-negative trace; negative trace with `xx`, `yy`, `zz` largest, the last reached in two ways because
`&&` short-circuits) record `0 <= trace`, `yy < xx`, `zz < xx`, `zz < yy` with the outcomes that select them.  With
`Tr.Consistent` (`Cgm/Lemmas/GuardSem.lean`): each path is the one the code takes iff its path condition holds, and for every
matrix exactly one of the five is -- so the theorems of `Cgm/E2E/C05.lean` / `C05b.lean`, which give the output on each path
under its condition, pin the output of the conversion for every input.
-/
set_option linter.unusedSectionVars false
namespace Cg.E2E.C05
open Cg Cg.Gen.C05

section field
variable {K : Type} [Field K] [LinearOrder K] [Approx K] [Transc K] [FRem K] [Lits K]

/-! ## the comparisons each path records, for every input -/
theorem g_m3_to_quat_trace (m : M3 K) :
    (t_m3_to_quat_trace (envL m.toList)).guards = [.le 0 m.trace true] := by tr_auto
theorem g_m3_to_quat_xx (m : M3 K) :
    (t_m3_to_quat_xx (envL m.toList)).guards = [.le 0 m.trace false, .lt m.y.y m.x.x true, .lt m.z.z m.x.x true] := by tr_auto
theorem g_m3_to_quat_yy (m : M3 K) :
    (t_m3_to_quat_yy (envL m.toList)).guards = [.le 0 m.trace false, .lt m.y.y m.x.x false, .lt m.z.z m.y.y true] := by tr_auto
theorem g_m3_to_quat_zz (m : M3 K) :
    (t_m3_to_quat_zz (envL m.toList)).guards = [.le 0 m.trace false, .lt m.y.y m.x.x false, .lt m.z.z m.y.y false] := by tr_auto
theorem g_m3_to_quat_zz2 (m : M3 K) :
    (t_m3_to_quat_zz2 (envL m.toList)).guards =
      [.le 0 m.trace false, .lt m.y.y m.x.x true, .lt m.z.z m.x.x false, .lt m.z.z m.y.y false] := by tr_auto

/-! ## consistency of a path ↔ its path condition -/
theorem m3_to_quat_trace_consistent (m : M3 K) : (t_m3_to_quat_trace (envL m.toList)).Consistent ↔ 0 ≤ m.trace := by
  rw [Tr.Consistent, g_m3_to_quat_trace]; simp [-M3.trace]
theorem m3_to_quat_xx_consistent (m : M3 K) :
    (t_m3_to_quat_xx (envL m.toList)).Consistent ↔ ¬ 0 ≤ m.trace ∧ m.y.y < m.x.x ∧ m.z.z < m.x.x := by
  rw [Tr.Consistent, g_m3_to_quat_xx]; simp [-M3.trace]
theorem m3_to_quat_yy_consistent (m : M3 K) :
    (t_m3_to_quat_yy (envL m.toList)).Consistent ↔ ¬ 0 ≤ m.trace ∧ ¬ m.y.y < m.x.x ∧ m.z.z < m.y.y := by
  rw [Tr.Consistent, g_m3_to_quat_yy]; simp [-M3.trace]
theorem m3_to_quat_zz_consistent (m : M3 K) :
    (t_m3_to_quat_zz (envL m.toList)).Consistent ↔ ¬ 0 ≤ m.trace ∧ ¬ m.y.y < m.x.x ∧ ¬ m.z.z < m.y.y := by
  rw [Tr.Consistent, g_m3_to_quat_zz]; simp [-M3.trace]
theorem m3_to_quat_zz2_consistent (m : M3 K) :
    (t_m3_to_quat_zz2 (envL m.toList)).Consistent ↔
      ¬ 0 ≤ m.trace ∧ m.y.y < m.x.x ∧ ¬ m.z.z < m.x.x ∧ ¬ m.z.z < m.y.y := by
  rw [Tr.Consistent, g_m3_to_quat_zz2]; simp [-M3.trace]

/-- for every matrix exactly one of the five paths is the one the code takes -/
theorem m3_to_quat_exactly_one (m : M3 K) :
    Tr.ExactlyOne [t_m3_to_quat_trace (envL m.toList), t_m3_to_quat_xx (envL m.toList), t_m3_to_quat_yy (envL m.toList),
      t_m3_to_quat_zz (envL m.toList), t_m3_to_quat_zz2 (envL m.toList)] := by
  unfold Tr.ExactlyOne
  simp only [List.pairwise_cons, List.mem_cons, List.not_mem_nil, or_false, forall_eq_or_imp, forall_eq, exists_eq_or_imp,
    exists_eq_left, List.Pairwise.nil, and_true, IsEmpty.forall_iff, implies_true, false_imp_iff, exists_false,
    m3_to_quat_trace_consistent, m3_to_quat_xx_consistent, m3_to_quat_yy_consistent, m3_to_quat_zz_consistent,
    m3_to_quat_zz2_consistent]
  generalize m.trace = T
  by_cases h0 : 0 ≤ T <;> by_cases h1 : m.y.y < m.x.x <;> by_cases h2 : m.z.z < m.x.x <;> by_cases h3 : m.z.z < m.y.y <;>
    simp [h0, h1, h2, h3]
  all_goals exact absurd (lt_trans h3 h1) h2
/-! ## the same five paths reached through `Quaternion::from(Basis3)` (the harness builds the `Basis3` from a quaternion `q`;
`bm q` is its matrix) -/
section basis3
open Cg.Trace.C05Paths
theorem g_b3_to_quat_trace (q : Quat K) :
    (t_b3_to_quat_trace (envL q.toList)).guards =
      [.le 0 (bm q).trace true] := by
  simp [bm, Basis3.fromQuaternion, Quat.toM3, M3.trace]; tr_auto_nf
theorem g_b3_to_quat_xx (q : Quat K) :
    (t_b3_to_quat_xx (envL q.toList)).guards =
      [.le 0 (bm q).trace false, .lt (bm q).y.y (bm q).x.x true, .lt (bm q).z.z (bm q).x.x true] := by
  simp [bm, Basis3.fromQuaternion, Quat.toM3, M3.trace]; tr_auto_nf
theorem g_b3_to_quat_yy (q : Quat K) :
    (t_b3_to_quat_yy (envL q.toList)).guards =
      [.le 0 (bm q).trace false, .lt (bm q).y.y (bm q).x.x false, .lt (bm q).z.z (bm q).y.y true] := by
  simp [bm, Basis3.fromQuaternion, Quat.toM3, M3.trace]; tr_auto_nf
theorem g_b3_to_quat_zz (q : Quat K) :
    (t_b3_to_quat_zz (envL q.toList)).guards =
      [.le 0 (bm q).trace false, .lt (bm q).y.y (bm q).x.x false, .lt (bm q).z.z (bm q).y.y false] := by
  simp [bm, Basis3.fromQuaternion, Quat.toM3, M3.trace]; tr_auto_nf
theorem g_b3_to_quat_zz2 (q : Quat K) :
    (t_b3_to_quat_zz2 (envL q.toList)).guards =
      [.le 0 (bm q).trace false, .lt (bm q).y.y (bm q).x.x true, .lt (bm q).z.z (bm q).x.x false,
        .lt (bm q).z.z (bm q).y.y false] := by
  simp [bm, Basis3.fromQuaternion, Quat.toM3, M3.trace]; tr_auto_nf
theorem b3_to_quat_trace_consistent (q : Quat K) :
    (t_b3_to_quat_trace (envL q.toList)).Consistent ↔ 0 ≤ (bm q).trace := by
  rw [Tr.Consistent, g_b3_to_quat_trace]; simp [-M3.trace, -bm]
theorem b3_to_quat_xx_consistent (q : Quat K) :
    (t_b3_to_quat_xx (envL q.toList)).Consistent ↔ ¬ 0 ≤ (bm q).trace ∧ (bm q).y.y < (bm q).x.x ∧ (bm q).z.z < (bm q).x.x := by
  rw [Tr.Consistent, g_b3_to_quat_xx]; simp [-M3.trace, -bm]
theorem b3_to_quat_yy_consistent (q : Quat K) :
    (t_b3_to_quat_yy (envL q.toList)).Consistent ↔ ¬ 0 ≤ (bm q).trace ∧ ¬ (bm q).y.y < (bm q).x.x ∧ (bm q).z.z < (bm q).y.y := by
  rw [Tr.Consistent, g_b3_to_quat_yy]; simp [-M3.trace, -bm]
theorem b3_to_quat_zz_consistent (q : Quat K) :
    (t_b3_to_quat_zz (envL q.toList)).Consistent ↔ ¬ 0 ≤ (bm q).trace ∧ ¬ (bm q).y.y < (bm q).x.x ∧ ¬ (bm q).z.z < (bm q).y.y := by
  rw [Tr.Consistent, g_b3_to_quat_zz]; simp [-M3.trace, -bm]
theorem b3_to_quat_zz2_consistent (q : Quat K) :
    (t_b3_to_quat_zz2 (envL q.toList)).Consistent ↔ ¬ 0 ≤ (bm q).trace ∧ (bm q).y.y < (bm q).x.x ∧ ¬ (bm q).z.z < (bm q).x.x ∧ ¬ (bm q).z.z < (bm q).y.y := by
  rw [Tr.Consistent, g_b3_to_quat_zz2]; simp [-M3.trace, -bm]
/-- for every quaternion exactly one of the five paths of `Quaternion::from(Basis3::from(q))` is the one the code takes -/
theorem b3_to_quat_exactly_one (q : Quat K) :
    Tr.ExactlyOne [t_b3_to_quat_trace (envL q.toList), t_b3_to_quat_xx (envL q.toList), t_b3_to_quat_yy (envL q.toList),
      t_b3_to_quat_zz (envL q.toList), t_b3_to_quat_zz2 (envL q.toList)] := by
  unfold Tr.ExactlyOne
  simp only [List.pairwise_cons, List.mem_cons, List.not_mem_nil, or_false, forall_eq_or_imp, forall_eq, exists_eq_or_imp,
    exists_eq_left, List.Pairwise.nil, and_true, IsEmpty.forall_iff, implies_true,
    b3_to_quat_trace_consistent, b3_to_quat_xx_consistent, b3_to_quat_yy_consistent, b3_to_quat_zz_consistent,
    b3_to_quat_zz2_consistent]
  generalize (bm q).trace = T
  generalize (bm q).x.x = X
  generalize (bm q).y.y = Y
  generalize (bm q).z.z = Z
  by_cases h0 : 0 ≤ T <;> by_cases h1 : Y < X <;> by_cases h2 : Z < X <;> by_cases h3 : Z < Y <;>
    simp [h0, h1, h2, h3]
  all_goals exact absurd (lt_trans h3 h1) h2
end basis3
end field

section real
variable [FRem ℝ] [Lits ℝ] [Approx ℝ]

/-- **matrix → quaternion, one statement**: for a rotation matrix `R` there is ONE unit quaternion `r` with matrix `R` such
that whichever of the five paths is the one the code takes on `R` (exactly one is), the code's output on it is the flattening
of `r` (and of no other quaternion), and the traced quaternion→matrix conversion of that output is `R` -/
theorem code_m3_to_quat_exact (R : M3 ℝ) (hR : R.transpose * R = M3.one) (hdet : R.det = 1) :
    Tr.ExactlyOne [t_m3_to_quat_trace (envL R.toList), t_m3_to_quat_xx (envL R.toList), t_m3_to_quat_yy (envL R.toList),
      t_m3_to_quat_zz (envL R.toList), t_m3_to_quat_zz2 (envL R.toList)] ∧
    ∃ r : Quat ℝ, r.magnitude2 = 1 ∧ r.toM3 = R ∧ t_q_to_m3 (envL r.toList) = .okS R.toList ∧
      ∀ t ∈ [t_m3_to_quat_trace (envL R.toList), t_m3_to_quat_xx (envL R.toList), t_m3_to_quat_yy (envL R.toList),
          t_m3_to_quat_zz (envL R.toList), t_m3_to_quat_zz2 (envL R.toList)],
        t.Consistent → t.res = .ok ∧ t.out = r.toList ∧ ∀ r' : Quat ℝ, t.out = r'.toList → r' = r := by
  refine ⟨m3_to_quat_exactly_one R, ?_⟩
  obtain ⟨r, hu, hm, -, p1, p2, p3, p4, p5, hb⟩ := code_reverse_round_trip R hR hdet
  refine ⟨r, hu, hm, hb, ?_⟩
  have fin : ∀ (t : Tr ℝ) (g : List (G ℝ)), t = .okG r.toList g →
      t.res = .ok ∧ t.out = r.toList ∧ ∀ r' : Quat ℝ, t.out = r'.toList → r' = r := by
    intro t g ht
    subst ht
    exact ⟨rfl, rfl, fun r' h => (Quat.toList_injective h).symm⟩
  intro t ht
  simp only [List.mem_cons, List.not_mem_nil, or_false] at ht
  rcases ht with rfl | rfl | rfl | rfl | rfl
  · intro hc; exact fin _ _ (p1 ((m3_to_quat_trace_consistent R).1 hc))
  · intro hc; obtain ⟨a, b, c⟩ := (m3_to_quat_xx_consistent R).1 hc; exact fin _ _ (p2 a b c)
  · intro hc; obtain ⟨a, b, c⟩ := (m3_to_quat_yy_consistent R).1 hc; exact fin _ _ (p3 a b c)
  · intro hc; obtain ⟨a, b, c⟩ := (m3_to_quat_zz_consistent R).1 hc; exact fin _ _ (p4 a b c)
  · intro hc; obtain ⟨a, b, c, d⟩ := (m3_to_quat_zz2_consistent R).1 hc; exact fin _ _ (p5 a b c d)

/-- quaternion → matrix → quaternion: for a unit `q`, whichever path the code takes on the matrix of `q`, its output is the
flattening of `q` or of `-q` -/
theorem code_round_trip_exact (q : Quat ℝ) (hq : q.magnitude2 = 1) :
    ∃ r : Quat ℝ, (r = q ∨ r = -q) ∧
      ∀ t ∈ [t_m3_to_quat_trace (envL q.toM3.toList), t_m3_to_quat_xx (envL q.toM3.toList),
          t_m3_to_quat_yy (envL q.toM3.toList), t_m3_to_quat_zz (envL q.toM3.toList), t_m3_to_quat_zz2 (envL q.toM3.toList)],
        t.Consistent → t.res = .ok ∧ t.out = r.toList := by
  refine ⟨q.toM3.toQuat, C05.toQuat_toM3 q hq, ?_⟩
  intro t ht
  simp only [List.mem_cons, List.not_mem_nil, or_false] at ht
  rcases ht with rfl | rfl | rfl | rfl | rfl
  · intro hc; rw [Trace.C05.t_m3_to_quat_trace _ ((m3_to_quat_trace_consistent _).1 hc)]; exact ⟨rfl, rfl⟩
  · intro hc; obtain ⟨a, b, c⟩ := (m3_to_quat_xx_consistent _).1 hc
    rw [Trace.C05.t_m3_to_quat_xx _ a b c]; exact ⟨rfl, rfl⟩
  · intro hc; obtain ⟨a, b, c⟩ := (m3_to_quat_yy_consistent _).1 hc
    rw [Trace.C05.t_m3_to_quat_yy _ a b c]; exact ⟨rfl, rfl⟩
  · intro hc; obtain ⟨a, b, c⟩ := (m3_to_quat_zz_consistent _).1 hc
    rw [Trace.C05.t_m3_to_quat_zz _ a b c]; exact ⟨rfl, rfl⟩
  · intro hc; obtain ⟨a, b, c, d⟩ := (m3_to_quat_zz2_consistent _).1 hc
    rw [Trace.C05.t_m3_to_quat_zz2 _ a b c d]; exact ⟨rfl, rfl⟩

/-- not vacuous: the identity takes the non-negative-trace path, the half turn about `x` the `xx` path -/
example : (t_m3_to_quat_trace (envL (M3.one : M3 ℝ).toList)).Consistent := by
  rw [m3_to_quat_trace_consistent]; norm_num [M3.one, M3.fromValue, M3.new, M3.trace, M3.diagonal, V3.sum]
example : (t_m3_to_quat_xx (envL (M3.new 1 0 0 0 (-1) 0 0 0 (-1) : M3 ℝ).toList)).Consistent := by
  rw [m3_to_quat_xx_consistent]; norm_num [M3.new, M3.trace, M3.diagonal, V3.sum]
end real
end Cg.E2E.C05
