import Cgm.Trace.C02IdxAll
import Cgm.Trace.C02
import Cgm.Props.C02b
import Cgm.Props.C16b
/-!
# C02, end to end, the index-taking operations: `swap_rows`, `swap_columns`, `swap_elements`, `replace_col`, `transpose_self`

Every statement is about the kernel tables of `Cgm/Trace/C02IdxAll.lean` (`kSwapRows n a b` is the kernel traced from the real
`swap_rows(a, b)`), for EVERY in-range index tuple of every dimension:

* `code_mN_swap_rows` / `_swap_columns`: the output is a matrix whose entry `(c, r)` is the input's entry with the two named rows
  (columns) exchanged: the named rows (columns) are exchanged, every other element is untouched; running the same kernel on the
  output restores the input;
* `code_mN_swap_elements`: the two named elements are exchanged, every other element is untouched, twice = identity;
* `code_mN_replace_col`: the kernel returns the old column and the matrix with the new column written, the other columns
  untouched; replacing back restores the matrix and returns the new column;
* `code_mN_transpose_self`: the in-place transpose is the `transpose` kernel's output, entry `(c, r)` = old `(r, c)`, twice = identity;
* `code_mN_idx_oob`: each kernel traced at an out-of-range tuple panics, because the model's function is `none` there
  (`Cg.C02.MN.swap_oob`, `swapElements_oob`, `replaceCol?_eq_none_iff`); in range none panics (`code_mN_idx_inrange_ok`).
-/
set_option linter.unusedSectionVars false
set_option linter.unusedVariables false
set_option linter.unusedSimpArgs false
namespace Cg.E2E.C02
open Cg Cg.Trace.C02IdxAll

section model
variable {α : Type}
/-- position `k` of a list with positions `i`, `j` exchanged -/
theorem swapList_getElem? (l : List α) (i j k : Nat) (hi : i < l.length) (hj : j < l.length) :
    (Cg.C02.swapList l i j)[k]? = if k = j then l[i]? else if k = i then l[j]? else l[k]? := by
  unfold Cg.C02.swapList
  rw [List.getElem?_eq_getElem hi, List.getElem?_eq_getElem hj]
  simp only [List.getElem?_set, List.length_set]
  by_cases h1 : k = j
  · subst h1; simp [hj]
  · have h1' : ¬ j = k := fun h => h1 h.symm
    by_cases h2 : k = i
    · subst h2; simp [h1, h1', hi]
    · have h2' : ¬ i = k := fun h => h2 h.symm
      simp [h1, h1', h2, h2']

theorem M2.swapRows_twice (m : M2 α) (a b : Fin 2) : (m.swapRows? a b).bind (·.swapRows? a b) = some m := by
  fin_cases a <;> fin_cases b <;> rfl
theorem M2.swapColumns_twice (m : M2 α) (a b : Fin 2) : (m.swapColumns? a b).bind (·.swapColumns? a b) = some m := by
  fin_cases a <;> fin_cases b <;> rfl
theorem M2.swapElements_twice (m : M2 α) (a b c d : Fin 2) :
    (m.swapElements? a b c d).bind (·.swapElements? a b c d) = some m := by
  fin_cases a <;> fin_cases b <;> fin_cases c <;> fin_cases d <;> rfl
theorem M2.replaceCol_twice (m : M2 α) (c : Fin 2) (u : V2 α) :
    (m.replaceCol? c u).bind (fun p => p.1.replaceCol? c p.2) = some (m, u) := by
  fin_cases c <;> rfl
theorem M2.toList_length (m : M2 α) : m.toList.length = 4 := rfl
theorem M3.swapRows_twice (m : M3 α) (a b : Fin 3) : (m.swapRows? a b).bind (·.swapRows? a b) = some m := by
  fin_cases a <;> fin_cases b <;> rfl
theorem M3.swapColumns_twice (m : M3 α) (a b : Fin 3) : (m.swapColumns? a b).bind (·.swapColumns? a b) = some m := by
  fin_cases a <;> fin_cases b <;> rfl
theorem M3.swapElements_twice (m : M3 α) (a b c d : Fin 3) :
    (m.swapElements? a b c d).bind (·.swapElements? a b c d) = some m := by
  fin_cases a <;> fin_cases b <;> fin_cases c <;> fin_cases d <;> rfl
theorem M3.replaceCol_twice (m : M3 α) (c : Fin 3) (u : V3 α) :
    (m.replaceCol? c u).bind (fun p => p.1.replaceCol? c p.2) = some (m, u) := by
  fin_cases c <;> rfl
theorem M3.toList_length (m : M3 α) : m.toList.length = 9 := rfl
theorem M4.swapRows_twice (m : M4 α) (a b : Fin 4) : (m.swapRows? a b).bind (·.swapRows? a b) = some m := by
  fin_cases a <;> fin_cases b <;> rfl
theorem M4.swapColumns_twice (m : M4 α) (a b : Fin 4) : (m.swapColumns? a b).bind (·.swapColumns? a b) = some m := by
  fin_cases a <;> fin_cases b <;> rfl
theorem M4.swapElements_twice (m : M4 α) (a b c d : Fin 4) :
    (m.swapElements? a b c d).bind (·.swapElements? a b c d) = some m := by
  fin_cases a <;> fin_cases b <;> fin_cases c <;> fin_cases d <;> rfl
theorem M4.replaceCol_twice (m : M4 α) (c : Fin 4) (u : V4 α) :
    (m.replaceCol? c u).bind (fun p => p.1.replaceCol? c p.2) = some (m, u) := by
  fin_cases c <;> rfl
theorem M4.toList_length (m : M4 α) : m.toList.length = 16 := rfl
end model

variable {K : Type} [Field K] [Transc K] [FRem K] [Lits K]

/-! ## `Matrix2` -/
/-- **`swap_rows(a, b)` as computed**, every in-range `a`, `b`: the output `m'` has the two named rows exchanged and every
other element untouched; the same swap applied to the output (kernel on kernel output) restores the matrix -/
theorem code_m2_swap_rows (m : M2 K) (a b : Fin 2) :
    ∃ m' : M2 K, kSwapRows2 a b (envL m.toList) = .okS m'.toList ∧
      (∀ c r : Fin 2, m'.get? c r = m.get? c (Equiv.swap a b r)) ∧
      (∀ c : Fin 2, m'.get? c a = m.get? c b ∧ m'.get? c b = m.get? c a) ∧
      (∀ c r : Fin 2, r ≠ a → r ≠ b → m'.get? c r = m.get? c r) ∧
      kSwapRows2 a b (envL m'.toList) = .okS m.toList := by
  obtain ⟨h1, h2⟩ := kSwapRows2_all m a b
  obtain ⟨m', hm⟩ := Option.isSome_iff_exists.mp h2
  have hg : ∀ c r : Fin 2, m'.get? c r = m.get? c (Equiv.swap a b r) := by
    intro c r
    have h := Cg.C02.M2.swapRows_spec m a b c r
    rw [hm] at h; simpa using h
  refine ⟨m', by rw [h1, hm]; rfl, hg, ?_, ?_, ?_⟩
  · intro c; exact ⟨by rw [hg, Equiv.swap_apply_left], by rw [hg, Equiv.swap_apply_right]⟩
  · intro c r ha hb; rw [hg, Equiv.swap_apply_of_ne_of_ne ha hb]
  · have ht := M2.swapRows_twice m a b
    rw [hm, Option.bind_some] at ht
    rw [(kSwapRows2_all m' a b).1, ht]; rfl

/-- **`swap_columns(a, b)` as computed**, every in-range `a`, `b`: the output `m'` has the two named columns exchanged and every
other element untouched; the same swap applied to the output (kernel on kernel output) restores the matrix -/
theorem code_m2_swap_columns (m : M2 K) (a b : Fin 2) :
    ∃ m' : M2 K, kSwapColumns2 a b (envL m.toList) = .okS m'.toList ∧
      (∀ c r : Fin 2, m'.get? c r = m.get? (Equiv.swap a b c) r) ∧
      (∀ r : Fin 2, m'.get? a r = m.get? b r ∧ m'.get? b r = m.get? a r) ∧
      (∀ c r : Fin 2, c ≠ a → c ≠ b → m'.get? c r = m.get? c r) ∧
      kSwapColumns2 a b (envL m'.toList) = .okS m.toList := by
  obtain ⟨h1, h2⟩ := kSwapColumns2_all m a b
  obtain ⟨m', hm⟩ := Option.isSome_iff_exists.mp h2
  have hg : ∀ c r : Fin 2, m'.get? c r = m.get? (Equiv.swap a b c) r := by
    intro c r
    have h := Cg.C02.M2.swapColumns_spec m a b c r
    rw [hm] at h; simpa using h
  refine ⟨m', by rw [h1, hm]; rfl, hg, ?_, ?_, ?_⟩
  · intro r; exact ⟨by rw [hg, Equiv.swap_apply_left], by rw [hg, Equiv.swap_apply_right]⟩
  · intro c r ha hb; rw [hg, Equiv.swap_apply_of_ne_of_ne ha hb]
  · have ht := M2.swapColumns_twice m a b
    rw [hm, Option.bind_some] at ht
    rw [(kSwapColumns2_all m' a b).1, ht]; rfl

/-- **`swap_elements((ac, ar), (bc, br))` as computed**, every in-range tuple: the output's flat array is the input's with the two
positions exchanged; element `(ac, ar)` now holds the old `(bc, br)` and conversely, every other element is untouched; the same
swap applied to the output restores the matrix -/
theorem code_m2_swap_elements (m : M2 K) (ac ar bc br : Fin 2) :
    ∃ m' : M2 K, kSwapElements2 ac ar bc br (envL m.toList) = .okS m'.toList ∧
      m'.toList = Cg.C02.swapList m.toList (2 * ac.val + ar.val) (2 * bc.val + br.val) ∧
      m'.get? ac ar = m.get? bc br ∧ m'.get? bc br = m.get? ac ar ∧
      (∀ c r : Fin 2, ¬ (c = ac ∧ r = ar) → ¬ (c = bc ∧ r = br) → m'.get? c r = m.get? c r) ∧
      kSwapElements2 ac ar bc br (envL m'.toList) = .okS m.toList := by
  obtain ⟨h1, h2⟩ := kSwapElements2_all m ac ar bc br
  obtain ⟨m', hm⟩ := Option.isSome_iff_exists.mp h2
  have hl : m'.toList = Cg.C02.swapList m.toList (2 * ac.val + ar.val) (2 * bc.val + br.val) := by
    have h := Cg.C02.M2.swapElements_spec m ac ar bc br
    rw [hm, Option.map_some, Option.some.injEq] at h; exact h
  have hg : ∀ c r : Fin 2, m'.get? c r =
      if 2 * c.val + r.val = 2 * bc.val + br.val then m.get? ac ar
      else if 2 * c.val + r.val = 2 * ac.val + ar.val then m.get? bc br else m.get? c r := by
    intro c r
    rw [(Cg.C16.M2.matrix_views m' c r).2.1, hl, swapList_getElem? _ _ _ _ (by rw [M2.toList_length]; omega) (by rw [M2.toList_length]; omega),
      (Cg.C16.M2.matrix_views m ac ar).2.1, (Cg.C16.M2.matrix_views m bc br).2.1, (Cg.C16.M2.matrix_views m c r).2.1]
  refine ⟨m', by rw [h1, hm]; rfl, hl, ?_, ?_, ?_, ?_⟩
  · rw [hg]; split_ifs with h h'
    · have : ac = bc ∧ ar = br := ⟨Fin.ext (by omega), Fin.ext (by omega)⟩
      rw [this.1, this.2]
    · rfl
    · exact absurd rfl h'
  · rw [hg, if_pos rfl]
  · intro c r ha hb
    rw [hg, if_neg, if_neg]
    · intro h; exact ha ⟨Fin.ext (by omega), Fin.ext (by omega)⟩
    · intro h; exact hb ⟨Fin.ext (by omega), Fin.ext (by omega)⟩
  · have ht := M2.swapElements_twice m ac ar bc br
    rw [hm, Option.bind_some] at ht
    rw [(kSwapElements2_all m' ac ar bc br).1, ht]; rfl

/-- **`replace_col(c, u)` as computed**, every in-range `c`: the kernel returns the new matrix followed by the OLD column `c`;
the new matrix has `u` as column `c` and every other column untouched; replacing column `c` of the result by the returned old
column restores the matrix and returns `u` -/
theorem code_m2_replace_col (m : M2 K) (u : V2 K) (c : Fin 2) :
    ∃ (m' : M2 K) (old : V2 K), kReplaceCol2 c (envL (m.toList ++ u.toList)) = .okS (m'.toList ++ old.toList) ∧
      m.col? c = some old ∧ m'.col? c = some u ∧ (∀ c' : Fin 2, c' ≠ c → m'.col? c' = m.col? c') ∧
      m'.cols = m.cols.set c u ∧
      kReplaceCol2 c (envL (m'.toList ++ old.toList)) = .okS (m.toList ++ u.toList) := by
  obtain ⟨m', hm, hc⟩ := Cg.C02.M2.replaceCol_spec m c u
  have hlen : c.val < m.cols.length := by have := c.isLt; simp [M2.cols] <;> omega
  refine ⟨m', m.cols[c.val], by rw [(kReplaceCol2_all m u c).1, hm]; rfl, ?_, ?_, ?_, hc, ?_⟩
  · simp [M2.col?]
  · simp [M2.col?, hc, hlen]
  · intro c' hne
    have : c.val ≠ c'.val := fun h => hne (Fin.ext h.symm)
    simp [M2.col?, hc, List.getElem?_set, this]
  · have ht := M2.replaceCol_twice m c u
    rw [hm, Option.bind_some] at ht
    rw [(kReplaceCol2_all m' _ c).1, ht]; rfl

/-- **`transpose_self` as computed** is the output of the `transpose` kernel; entry `(c, r)` of the result is the old `(r, c)`;
applied twice (kernel on kernel output) it restores the matrix -/
theorem code_m2_transpose_self (m : M2 K) :
    Gen.C02.t_m2_transpose_self (envL m.toList) = .okS m.transpose.toList ∧
    Gen.C02.t_m2_transpose_self (envL m.toList) = Gen.C02.t_m2_transpose (envL m.toList) ∧
    (∀ c r : Fin 2, m.transpose.get? c r = m.get? r c) ∧
    Gen.C02.t_m2_transpose_self (envL m.transpose.toList) = .okS m.toList := by
  classical
  refine ⟨transpose_self_m2 m, by rw [transpose_self_m2 m, Trace.C02.t_m2_transpose], ?_, ?_⟩
  · intro c r; exact (Cg.C16.M2.row_get m c r).2
  · rw [transpose_self_m2 m.transpose, (Cg.C02.transpose_transpose (K := K) m M3.one M4.one).1]

/-- **out of range ⇒ panic**: every kernel traced at an out-of-range index tuple panics -- the T obligation makes it the model's
function at that tuple, which is `none` by the range theorems of `Props/C02.lean` / `C02b.lean` -/
theorem code_m2_idx_oob (m : M2 K) (u : V2 K) :
    Gen.C02.t_m2_swap_rows_0_2_oob (envL m.toList) = .panicG [] ∧
    Gen.C02.t_m2_swap_rows_2_0_oob (envL m.toList) = .panicG [] ∧
    Gen.C02.t_m2_swap_rows_2_2_oob (envL m.toList) = .panicG [] ∧
    Gen.C02.t_m2_swap_columns_0_2_oob (envL m.toList) = .panicG [] ∧
    Gen.C02.t_m2_swap_columns_2_0_oob (envL m.toList) = .panicG [] ∧
    Gen.C02.t_m2_swap_columns_2_2_oob (envL m.toList) = .panicG [] ∧
    Gen.C02.t_m2_swap_elements_02_11_oob (envL m.toList) = .panicG [] ∧
    Gen.C02.t_m2_swap_elements_11_02_oob (envL m.toList) = .panicG [] ∧
    Gen.C02.t_m2_swap_elements_20_00_oob (envL m.toList) = .panicG [] ∧
    Gen.C02.t_m2_swap_elements_00_20_oob (envL m.toList) = .panicG [] ∧
    Gen.C02.t_m2_swap_elements_02_02_oob (envL m.toList) = .panicG [] ∧
    Gen.C02.t_m2_swap_elements_22_22_oob (envL m.toList) = .panicG [] ∧
    Gen.C02.t_m2_swap_elements_11_15_oob (envL m.toList) = .panicG [] ∧
    Gen.C02.t_m2_replace_col_2_oob (envL (m.toList ++ u.toList)) = .panicG [] := by
  refine ⟨?_, ?_, ?_, ?_, ?_, ?_, ?_, ?_, ?_, ?_, ?_, ?_, ?_, ?_⟩
  · rw [(Trace.C02Idx.t_m2_swap_rows_0_2_oob m).1, (Cg.C02.M2.swap_oob m 0 2 (by omega)).1]; rfl
  · rw [(Trace.C02Idx.t_m2_swap_rows_2_0_oob m).1, (Cg.C02.M2.swap_oob m 2 0 (by omega)).1]; rfl
  · rw [(Trace.C02Idx.t_m2_swap_rows_2_2_oob m).1, (Cg.C02.M2.swap_oob m 2 2 (by omega)).1]; rfl
  · rw [(Trace.C02Idx.t_m2_swap_columns_0_2_oob m).1, (Cg.C02.M2.swap_oob m 0 2 (by omega)).2]; rfl
  · rw [(Trace.C02Idx.t_m2_swap_columns_2_0_oob m).1, (Cg.C02.M2.swap_oob m 2 0 (by omega)).2]; rfl
  · rw [(Trace.C02Idx.t_m2_swap_columns_2_2_oob m).1, (Cg.C02.M2.swap_oob m 2 2 (by omega)).2]; rfl
  · rw [(Trace.C02Idx.t_m2_swap_elements_02_11_oob m).1, Cg.C02.M2.swapElements_oob m 0 2 1 1 (by omega)]; rfl
  · rw [(Trace.C02Idx.t_m2_swap_elements_11_02_oob m).1, Cg.C02.M2.swapElements_oob m 1 1 0 2 (by omega)]; rfl
  · rw [(Trace.C02Idx.t_m2_swap_elements_20_00_oob m).1, Cg.C02.M2.swapElements_oob m 2 0 0 0 (by omega)]; rfl
  · rw [(Trace.C02Idx.t_m2_swap_elements_00_20_oob m).1, Cg.C02.M2.swapElements_oob m 0 0 2 0 (by omega)]; rfl
  · rw [(Trace.C02Idx.t_m2_swap_elements_02_02_oob m).1, Cg.C02.M2.swapElements_oob m 0 2 0 2 (by omega)]; rfl
  · rw [(Trace.C02Idx.t_m2_swap_elements_22_22_oob m).1, Cg.C02.M2.swapElements_oob m 2 2 2 2 (by omega)]; rfl
  · rw [(Trace.C02Idx.t_m2_swap_elements_11_15_oob m).1, Cg.C02.M2.swapElements_oob m 1 1 1 5 (by omega)]; rfl
  · rw [(Trace.C02Idx.t_m2_replace_col_2_oob m u).1, (Cg.C02.M2.replaceCol?_eq_none_iff m 2 u).2 (by omega)]; rfl

/-- in range no kernel panics: every in-range tuple returns normally -/
theorem code_m2_idx_inrange_ok (m : M2 K) (u : V2 K) (a b c d : Fin 2) :
    (kSwapRows2 a b (envL m.toList)).res = .ok ∧ (kSwapColumns2 a b (envL m.toList)).res = .ok ∧
    (kSwapElements2 a b c d (envL m.toList)).res = .ok ∧ (kReplaceCol2 a (envL (m.toList ++ u.toList))).res = .ok := by
  refine ⟨?_, ?_, ?_, ?_⟩
  · rw [(kSwapRows2_all m a b).1, Tr.ofPanic_res_ok, Option.isSome_map]; exact (kSwapRows2_all m a b).2
  · rw [(kSwapColumns2_all m a b).1, Tr.ofPanic_res_ok, Option.isSome_map]; exact (kSwapColumns2_all m a b).2
  · rw [(kSwapElements2_all m a b c d).1, Tr.ofPanic_res_ok, Option.isSome_map]; exact (kSwapElements2_all m a b c d).2
  · rw [(kReplaceCol2_all m u a).1, Tr.ofPanic_res_ok, Option.isSome_map]; exact (kReplaceCol2_all m u a).2

/-! ## `Matrix3` -/
/-- **`swap_rows(a, b)` as computed**, every in-range `a`, `b`: the output `m'` has the two named rows exchanged and every
other element untouched; the same swap applied to the output (kernel on kernel output) restores the matrix -/
theorem code_m3_swap_rows (m : M3 K) (a b : Fin 3) :
    ∃ m' : M3 K, kSwapRows3 a b (envL m.toList) = .okS m'.toList ∧
      (∀ c r : Fin 3, m'.get? c r = m.get? c (Equiv.swap a b r)) ∧
      (∀ c : Fin 3, m'.get? c a = m.get? c b ∧ m'.get? c b = m.get? c a) ∧
      (∀ c r : Fin 3, r ≠ a → r ≠ b → m'.get? c r = m.get? c r) ∧
      kSwapRows3 a b (envL m'.toList) = .okS m.toList := by
  obtain ⟨h1, h2⟩ := kSwapRows3_all m a b
  obtain ⟨m', hm⟩ := Option.isSome_iff_exists.mp h2
  have hg : ∀ c r : Fin 3, m'.get? c r = m.get? c (Equiv.swap a b r) := by
    intro c r
    have h := Cg.C02.M3.swapRows_spec m a b c r
    rw [hm] at h; simpa using h
  refine ⟨m', by rw [h1, hm]; rfl, hg, ?_, ?_, ?_⟩
  · intro c; exact ⟨by rw [hg, Equiv.swap_apply_left], by rw [hg, Equiv.swap_apply_right]⟩
  · intro c r ha hb; rw [hg, Equiv.swap_apply_of_ne_of_ne ha hb]
  · have ht := M3.swapRows_twice m a b
    rw [hm, Option.bind_some] at ht
    rw [(kSwapRows3_all m' a b).1, ht]; rfl

/-- **`swap_columns(a, b)` as computed**, every in-range `a`, `b`: the output `m'` has the two named columns exchanged and every
other element untouched; the same swap applied to the output (kernel on kernel output) restores the matrix -/
theorem code_m3_swap_columns (m : M3 K) (a b : Fin 3) :
    ∃ m' : M3 K, kSwapColumns3 a b (envL m.toList) = .okS m'.toList ∧
      (∀ c r : Fin 3, m'.get? c r = m.get? (Equiv.swap a b c) r) ∧
      (∀ r : Fin 3, m'.get? a r = m.get? b r ∧ m'.get? b r = m.get? a r) ∧
      (∀ c r : Fin 3, c ≠ a → c ≠ b → m'.get? c r = m.get? c r) ∧
      kSwapColumns3 a b (envL m'.toList) = .okS m.toList := by
  obtain ⟨h1, h2⟩ := kSwapColumns3_all m a b
  obtain ⟨m', hm⟩ := Option.isSome_iff_exists.mp h2
  have hg : ∀ c r : Fin 3, m'.get? c r = m.get? (Equiv.swap a b c) r := by
    intro c r
    have h := Cg.C02.M3.swapColumns_spec m a b c r
    rw [hm] at h; simpa using h
  refine ⟨m', by rw [h1, hm]; rfl, hg, ?_, ?_, ?_⟩
  · intro r; exact ⟨by rw [hg, Equiv.swap_apply_left], by rw [hg, Equiv.swap_apply_right]⟩
  · intro c r ha hb; rw [hg, Equiv.swap_apply_of_ne_of_ne ha hb]
  · have ht := M3.swapColumns_twice m a b
    rw [hm, Option.bind_some] at ht
    rw [(kSwapColumns3_all m' a b).1, ht]; rfl

/-- **`swap_elements((ac, ar), (bc, br))` as computed**, every in-range tuple: the output's flat array is the input's with the two
positions exchanged; element `(ac, ar)` now holds the old `(bc, br)` and conversely, every other element is untouched; the same
swap applied to the output restores the matrix -/
theorem code_m3_swap_elements (m : M3 K) (ac ar bc br : Fin 3) :
    ∃ m' : M3 K, kSwapElements3 ac ar bc br (envL m.toList) = .okS m'.toList ∧
      m'.toList = Cg.C02.swapList m.toList (3 * ac.val + ar.val) (3 * bc.val + br.val) ∧
      m'.get? ac ar = m.get? bc br ∧ m'.get? bc br = m.get? ac ar ∧
      (∀ c r : Fin 3, ¬ (c = ac ∧ r = ar) → ¬ (c = bc ∧ r = br) → m'.get? c r = m.get? c r) ∧
      kSwapElements3 ac ar bc br (envL m'.toList) = .okS m.toList := by
  obtain ⟨h1, h2⟩ := kSwapElements3_all m ac ar bc br
  obtain ⟨m', hm⟩ := Option.isSome_iff_exists.mp h2
  have hl : m'.toList = Cg.C02.swapList m.toList (3 * ac.val + ar.val) (3 * bc.val + br.val) := by
    have h := Cg.C02.M3.swapElements_spec m ac ar bc br
    rw [hm, Option.map_some, Option.some.injEq] at h; exact h
  have hg : ∀ c r : Fin 3, m'.get? c r =
      if 3 * c.val + r.val = 3 * bc.val + br.val then m.get? ac ar
      else if 3 * c.val + r.val = 3 * ac.val + ar.val then m.get? bc br else m.get? c r := by
    intro c r
    rw [(Cg.C16.M3.matrix_views m' c r).2.1, hl, swapList_getElem? _ _ _ _ (by rw [M3.toList_length]; omega) (by rw [M3.toList_length]; omega),
      (Cg.C16.M3.matrix_views m ac ar).2.1, (Cg.C16.M3.matrix_views m bc br).2.1, (Cg.C16.M3.matrix_views m c r).2.1]
  refine ⟨m', by rw [h1, hm]; rfl, hl, ?_, ?_, ?_, ?_⟩
  · rw [hg]; split_ifs with h h'
    · have : ac = bc ∧ ar = br := ⟨Fin.ext (by omega), Fin.ext (by omega)⟩
      rw [this.1, this.2]
    · rfl
    · exact absurd rfl h'
  · rw [hg, if_pos rfl]
  · intro c r ha hb
    rw [hg, if_neg, if_neg]
    · intro h; exact ha ⟨Fin.ext (by omega), Fin.ext (by omega)⟩
    · intro h; exact hb ⟨Fin.ext (by omega), Fin.ext (by omega)⟩
  · have ht := M3.swapElements_twice m ac ar bc br
    rw [hm, Option.bind_some] at ht
    rw [(kSwapElements3_all m' ac ar bc br).1, ht]; rfl

/-- **`replace_col(c, u)` as computed**, every in-range `c`: the kernel returns the new matrix followed by the OLD column `c`;
the new matrix has `u` as column `c` and every other column untouched; replacing column `c` of the result by the returned old
column restores the matrix and returns `u` -/
theorem code_m3_replace_col (m : M3 K) (u : V3 K) (c : Fin 3) :
    ∃ (m' : M3 K) (old : V3 K), kReplaceCol3 c (envL (m.toList ++ u.toList)) = .okS (m'.toList ++ old.toList) ∧
      m.col? c = some old ∧ m'.col? c = some u ∧ (∀ c' : Fin 3, c' ≠ c → m'.col? c' = m.col? c') ∧
      m'.cols = m.cols.set c u ∧
      kReplaceCol3 c (envL (m'.toList ++ old.toList)) = .okS (m.toList ++ u.toList) := by
  obtain ⟨m', hm, hc⟩ := Cg.C02.M3.replaceCol_spec m c u
  have hlen : c.val < m.cols.length := by have := c.isLt; simp [M3.cols] <;> omega
  refine ⟨m', m.cols[c.val], by rw [(kReplaceCol3_all m u c).1, hm]; rfl, ?_, ?_, ?_, hc, ?_⟩
  · simp [M3.col?]
  · simp [M3.col?, hc, hlen]
  · intro c' hne
    have : c.val ≠ c'.val := fun h => hne (Fin.ext h.symm)
    simp [M3.col?, hc, List.getElem?_set, this]
  · have ht := M3.replaceCol_twice m c u
    rw [hm, Option.bind_some] at ht
    rw [(kReplaceCol3_all m' _ c).1, ht]; rfl

/-- **`transpose_self` as computed** is the output of the `transpose` kernel; entry `(c, r)` of the result is the old `(r, c)`;
applied twice (kernel on kernel output) it restores the matrix -/
theorem code_m3_transpose_self (m : M3 K) :
    Gen.C02.t_m3_transpose_self (envL m.toList) = .okS m.transpose.toList ∧
    Gen.C02.t_m3_transpose_self (envL m.toList) = Gen.C02.t_m3_transpose (envL m.toList) ∧
    (∀ c r : Fin 3, m.transpose.get? c r = m.get? r c) ∧
    Gen.C02.t_m3_transpose_self (envL m.transpose.toList) = .okS m.toList := by
  classical
  refine ⟨transpose_self_m3 m, by rw [transpose_self_m3 m, Trace.C02.t_m3_transpose], ?_, ?_⟩
  · intro c r; exact (Cg.C16.M3.row_get m c r).2
  · rw [transpose_self_m3 m.transpose, (Cg.C02.transpose_transpose (K := K) M2.one m M4.one).2.1]

/-- **out of range ⇒ panic**: every kernel traced at an out-of-range index tuple panics -- the T obligation makes it the model's
function at that tuple, which is `none` by the range theorems of `Props/C02.lean` / `C02b.lean` -/
theorem code_m3_idx_oob (m : M3 K) (u : V3 K) :
    Gen.C02.t_m3_swap_rows_0_3_oob (envL m.toList) = .panicG [] ∧
    Gen.C02.t_m3_swap_rows_3_0_oob (envL m.toList) = .panicG [] ∧
    Gen.C02.t_m3_swap_rows_3_3_oob (envL m.toList) = .panicG [] ∧
    Gen.C02.t_m3_swap_columns_0_3_oob (envL m.toList) = .panicG [] ∧
    Gen.C02.t_m3_swap_columns_3_0_oob (envL m.toList) = .panicG [] ∧
    Gen.C02.t_m3_swap_columns_3_3_oob (envL m.toList) = .panicG [] ∧
    Gen.C02.t_m3_swap_elements_03_22_oob (envL m.toList) = .panicG [] ∧
    Gen.C02.t_m3_swap_elements_22_03_oob (envL m.toList) = .panicG [] ∧
    Gen.C02.t_m3_swap_elements_30_00_oob (envL m.toList) = .panicG [] ∧
    Gen.C02.t_m3_swap_elements_00_30_oob (envL m.toList) = .panicG [] ∧
    Gen.C02.t_m3_swap_elements_03_03_oob (envL m.toList) = .panicG [] ∧
    Gen.C02.t_m3_swap_elements_33_33_oob (envL m.toList) = .panicG [] ∧
    Gen.C02.t_m3_swap_elements_11_16_oob (envL m.toList) = .panicG [] ∧
    Gen.C02.t_m3_replace_col_3_oob (envL (m.toList ++ u.toList)) = .panicG [] := by
  refine ⟨?_, ?_, ?_, ?_, ?_, ?_, ?_, ?_, ?_, ?_, ?_, ?_, ?_, ?_⟩
  · rw [(Trace.C02Idx.t_m3_swap_rows_0_3_oob m).1, (Cg.C02.M3.swap_oob m 0 3 (by omega)).1]; rfl
  · rw [(Trace.C02Idx.t_m3_swap_rows_3_0_oob m).1, (Cg.C02.M3.swap_oob m 3 0 (by omega)).1]; rfl
  · rw [(Trace.C02Idx.t_m3_swap_rows_3_3_oob m).1, (Cg.C02.M3.swap_oob m 3 3 (by omega)).1]; rfl
  · rw [(Trace.C02Idx.t_m3_swap_columns_0_3_oob m).1, (Cg.C02.M3.swap_oob m 0 3 (by omega)).2]; rfl
  · rw [(Trace.C02Idx.t_m3_swap_columns_3_0_oob m).1, (Cg.C02.M3.swap_oob m 3 0 (by omega)).2]; rfl
  · rw [(Trace.C02Idx.t_m3_swap_columns_3_3_oob m).1, (Cg.C02.M3.swap_oob m 3 3 (by omega)).2]; rfl
  · rw [(Trace.C02Idx.t_m3_swap_elements_03_22_oob m).1, Cg.C02.M3.swapElements_oob m 0 3 2 2 (by omega)]; rfl
  · rw [(Trace.C02Idx.t_m3_swap_elements_22_03_oob m).1, Cg.C02.M3.swapElements_oob m 2 2 0 3 (by omega)]; rfl
  · rw [(Trace.C02Idx.t_m3_swap_elements_30_00_oob m).1, Cg.C02.M3.swapElements_oob m 3 0 0 0 (by omega)]; rfl
  · rw [(Trace.C02Idx.t_m3_swap_elements_00_30_oob m).1, Cg.C02.M3.swapElements_oob m 0 0 3 0 (by omega)]; rfl
  · rw [(Trace.C02Idx.t_m3_swap_elements_03_03_oob m).1, Cg.C02.M3.swapElements_oob m 0 3 0 3 (by omega)]; rfl
  · rw [(Trace.C02Idx.t_m3_swap_elements_33_33_oob m).1, Cg.C02.M3.swapElements_oob m 3 3 3 3 (by omega)]; rfl
  · rw [(Trace.C02Idx.t_m3_swap_elements_11_16_oob m).1, Cg.C02.M3.swapElements_oob m 1 1 1 6 (by omega)]; rfl
  · rw [(Trace.C02Idx.t_m3_replace_col_3_oob m u).1, (Cg.C02.M3.replaceCol?_eq_none_iff m 3 u).2 (by omega)]; rfl

/-- in range no kernel panics: every in-range tuple returns normally -/
theorem code_m3_idx_inrange_ok (m : M3 K) (u : V3 K) (a b c d : Fin 3) :
    (kSwapRows3 a b (envL m.toList)).res = .ok ∧ (kSwapColumns3 a b (envL m.toList)).res = .ok ∧
    (kSwapElements3 a b c d (envL m.toList)).res = .ok ∧ (kReplaceCol3 a (envL (m.toList ++ u.toList))).res = .ok := by
  refine ⟨?_, ?_, ?_, ?_⟩
  · rw [(kSwapRows3_all m a b).1, Tr.ofPanic_res_ok, Option.isSome_map]; exact (kSwapRows3_all m a b).2
  · rw [(kSwapColumns3_all m a b).1, Tr.ofPanic_res_ok, Option.isSome_map]; exact (kSwapColumns3_all m a b).2
  · rw [(kSwapElements3_all m a b c d).1, Tr.ofPanic_res_ok, Option.isSome_map]; exact (kSwapElements3_all m a b c d).2
  · rw [(kReplaceCol3_all m u a).1, Tr.ofPanic_res_ok, Option.isSome_map]; exact (kReplaceCol3_all m u a).2

/-! ## `Matrix4` -/
/-- **`swap_rows(a, b)` as computed**, every in-range `a`, `b`: the output `m'` has the two named rows exchanged and every
other element untouched; the same swap applied to the output (kernel on kernel output) restores the matrix -/
theorem code_m4_swap_rows (m : M4 K) (a b : Fin 4) :
    ∃ m' : M4 K, kSwapRows4 a b (envL m.toList) = .okS m'.toList ∧
      (∀ c r : Fin 4, m'.get? c r = m.get? c (Equiv.swap a b r)) ∧
      (∀ c : Fin 4, m'.get? c a = m.get? c b ∧ m'.get? c b = m.get? c a) ∧
      (∀ c r : Fin 4, r ≠ a → r ≠ b → m'.get? c r = m.get? c r) ∧
      kSwapRows4 a b (envL m'.toList) = .okS m.toList := by
  obtain ⟨h1, h2⟩ := kSwapRows4_all m a b
  obtain ⟨m', hm⟩ := Option.isSome_iff_exists.mp h2
  have hg : ∀ c r : Fin 4, m'.get? c r = m.get? c (Equiv.swap a b r) := by
    intro c r
    have h := Cg.C02.M4.swapRows_spec m a b c r
    rw [hm] at h; simpa using h
  refine ⟨m', by rw [h1, hm]; rfl, hg, ?_, ?_, ?_⟩
  · intro c; exact ⟨by rw [hg, Equiv.swap_apply_left], by rw [hg, Equiv.swap_apply_right]⟩
  · intro c r ha hb; rw [hg, Equiv.swap_apply_of_ne_of_ne ha hb]
  · have ht := M4.swapRows_twice m a b
    rw [hm, Option.bind_some] at ht
    rw [(kSwapRows4_all m' a b).1, ht]; rfl

/-- **`swap_columns(a, b)` as computed**, every in-range `a`, `b`: the output `m'` has the two named columns exchanged and every
other element untouched; the same swap applied to the output (kernel on kernel output) restores the matrix -/
theorem code_m4_swap_columns (m : M4 K) (a b : Fin 4) :
    ∃ m' : M4 K, kSwapColumns4 a b (envL m.toList) = .okS m'.toList ∧
      (∀ c r : Fin 4, m'.get? c r = m.get? (Equiv.swap a b c) r) ∧
      (∀ r : Fin 4, m'.get? a r = m.get? b r ∧ m'.get? b r = m.get? a r) ∧
      (∀ c r : Fin 4, c ≠ a → c ≠ b → m'.get? c r = m.get? c r) ∧
      kSwapColumns4 a b (envL m'.toList) = .okS m.toList := by
  obtain ⟨h1, h2⟩ := kSwapColumns4_all m a b
  obtain ⟨m', hm⟩ := Option.isSome_iff_exists.mp h2
  have hg : ∀ c r : Fin 4, m'.get? c r = m.get? (Equiv.swap a b c) r := by
    intro c r
    have h := Cg.C02.M4.swapColumns_spec m a b c r
    rw [hm] at h; simpa using h
  refine ⟨m', by rw [h1, hm]; rfl, hg, ?_, ?_, ?_⟩
  · intro r; exact ⟨by rw [hg, Equiv.swap_apply_left], by rw [hg, Equiv.swap_apply_right]⟩
  · intro c r ha hb; rw [hg, Equiv.swap_apply_of_ne_of_ne ha hb]
  · have ht := M4.swapColumns_twice m a b
    rw [hm, Option.bind_some] at ht
    rw [(kSwapColumns4_all m' a b).1, ht]; rfl

/-- **`swap_elements((ac, ar), (bc, br))` as computed**, every in-range tuple: the output's flat array is the input's with the two
positions exchanged; element `(ac, ar)` now holds the old `(bc, br)` and conversely, every other element is untouched; the same
swap applied to the output restores the matrix -/
theorem code_m4_swap_elements (m : M4 K) (ac ar bc br : Fin 4) :
    ∃ m' : M4 K, kSwapElements4 ac ar bc br (envL m.toList) = .okS m'.toList ∧
      m'.toList = Cg.C02.swapList m.toList (4 * ac.val + ar.val) (4 * bc.val + br.val) ∧
      m'.get? ac ar = m.get? bc br ∧ m'.get? bc br = m.get? ac ar ∧
      (∀ c r : Fin 4, ¬ (c = ac ∧ r = ar) → ¬ (c = bc ∧ r = br) → m'.get? c r = m.get? c r) ∧
      kSwapElements4 ac ar bc br (envL m'.toList) = .okS m.toList := by
  obtain ⟨h1, h2⟩ := kSwapElements4_all m ac ar bc br
  obtain ⟨m', hm⟩ := Option.isSome_iff_exists.mp h2
  have hl : m'.toList = Cg.C02.swapList m.toList (4 * ac.val + ar.val) (4 * bc.val + br.val) := by
    have h := Cg.C02.M4.swapElements_spec m ac ar bc br
    rw [hm, Option.map_some, Option.some.injEq] at h; exact h
  have hg : ∀ c r : Fin 4, m'.get? c r =
      if 4 * c.val + r.val = 4 * bc.val + br.val then m.get? ac ar
      else if 4 * c.val + r.val = 4 * ac.val + ar.val then m.get? bc br else m.get? c r := by
    intro c r
    rw [(Cg.C16.matrix_views m' c r).2.1, hl, swapList_getElem? _ _ _ _ (by rw [M4.toList_length]; omega) (by rw [M4.toList_length]; omega),
      (Cg.C16.matrix_views m ac ar).2.1, (Cg.C16.matrix_views m bc br).2.1, (Cg.C16.matrix_views m c r).2.1]
  refine ⟨m', by rw [h1, hm]; rfl, hl, ?_, ?_, ?_, ?_⟩
  · rw [hg]; split_ifs with h h'
    · have : ac = bc ∧ ar = br := ⟨Fin.ext (by omega), Fin.ext (by omega)⟩
      rw [this.1, this.2]
    · rfl
    · exact absurd rfl h'
  · rw [hg, if_pos rfl]
  · intro c r ha hb
    rw [hg, if_neg, if_neg]
    · intro h; exact ha ⟨Fin.ext (by omega), Fin.ext (by omega)⟩
    · intro h; exact hb ⟨Fin.ext (by omega), Fin.ext (by omega)⟩
  · have ht := M4.swapElements_twice m ac ar bc br
    rw [hm, Option.bind_some] at ht
    rw [(kSwapElements4_all m' ac ar bc br).1, ht]; rfl

/-- **`replace_col(c, u)` as computed**, every in-range `c`: the kernel returns the new matrix followed by the OLD column `c`;
the new matrix has `u` as column `c` and every other column untouched; replacing column `c` of the result by the returned old
column restores the matrix and returns `u` -/
theorem code_m4_replace_col (m : M4 K) (u : V4 K) (c : Fin 4) :
    ∃ (m' : M4 K) (old : V4 K), kReplaceCol4 c (envL (m.toList ++ u.toList)) = .okS (m'.toList ++ old.toList) ∧
      m.col? c = some old ∧ m'.col? c = some u ∧ (∀ c' : Fin 4, c' ≠ c → m'.col? c' = m.col? c') ∧
      m'.cols = m.cols.set c u ∧
      kReplaceCol4 c (envL (m'.toList ++ old.toList)) = .okS (m.toList ++ u.toList) := by
  obtain ⟨m', hm, hc⟩ := Cg.C02.M4.replaceCol_spec m c u
  have hlen : c.val < m.cols.length := by have := c.isLt; simp [M4.cols] <;> omega
  refine ⟨m', m.cols[c.val], by rw [(kReplaceCol4_all m u c).1, hm]; rfl, ?_, ?_, ?_, hc, ?_⟩
  · simp [M4.col?]
  · simp [M4.col?, hc, hlen]
  · intro c' hne
    have : c.val ≠ c'.val := fun h => hne (Fin.ext h.symm)
    simp [M4.col?, hc, List.getElem?_set, this]
  · have ht := M4.replaceCol_twice m c u
    rw [hm, Option.bind_some] at ht
    rw [(kReplaceCol4_all m' _ c).1, ht]; rfl

/-- **`transpose_self` as computed** is the output of the `transpose` kernel; entry `(c, r)` of the result is the old `(r, c)`;
applied twice (kernel on kernel output) it restores the matrix -/
theorem code_m4_transpose_self (m : M4 K) :
    Gen.C02.t_m4_transpose_self (envL m.toList) = .okS m.transpose.toList ∧
    Gen.C02.t_m4_transpose_self (envL m.toList) = Gen.C02.t_m4_transpose (envL m.toList) ∧
    (∀ c r : Fin 4, m.transpose.get? c r = m.get? r c) ∧
    Gen.C02.t_m4_transpose_self (envL m.transpose.toList) = .okS m.toList := by
  classical
  refine ⟨transpose_self_m4 m, by rw [transpose_self_m4 m, Trace.C02.t_m4_transpose], ?_, ?_⟩
  · intro c r; exact (Cg.C16.M4.row_get m c r).2
  · rw [transpose_self_m4 m.transpose, (Cg.C02.transpose_transpose (K := K) M2.one M3.one m).2.2]

/-- **out of range ⇒ panic**: every kernel traced at an out-of-range index tuple panics -- the T obligation makes it the model's
function at that tuple, which is `none` by the range theorems of `Props/C02.lean` / `C02b.lean` -/
theorem code_m4_idx_oob (m : M4 K) (u : V4 K) :
    Gen.C02.t_m4_swap_rows_0_4_oob (envL m.toList) = .panicG [] ∧
    Gen.C02.t_m4_swap_rows_4_0_oob (envL m.toList) = .panicG [] ∧
    Gen.C02.t_m4_swap_rows_4_4_oob (envL m.toList) = .panicG [] ∧
    Gen.C02.t_m4_swap_columns_0_4_oob (envL m.toList) = .panicG [] ∧
    Gen.C02.t_m4_swap_columns_4_0_oob (envL m.toList) = .panicG [] ∧
    Gen.C02.t_m4_swap_columns_4_4_oob (envL m.toList) = .panicG [] ∧
    Gen.C02.t_m4_swap_elements_04_33_oob (envL m.toList) = .panicG [] ∧
    Gen.C02.t_m4_swap_elements_33_04_oob (envL m.toList) = .panicG [] ∧
    Gen.C02.t_m4_swap_elements_40_00_oob (envL m.toList) = .panicG [] ∧
    Gen.C02.t_m4_swap_elements_00_40_oob (envL m.toList) = .panicG [] ∧
    Gen.C02.t_m4_swap_elements_04_04_oob (envL m.toList) = .panicG [] ∧
    Gen.C02.t_m4_swap_elements_44_44_oob (envL m.toList) = .panicG [] ∧
    Gen.C02.t_m4_swap_elements_11_17_oob (envL m.toList) = .panicG [] ∧
    Gen.C02.t_m4_replace_col_4_oob (envL (m.toList ++ u.toList)) = .panicG [] := by
  refine ⟨?_, ?_, ?_, ?_, ?_, ?_, ?_, ?_, ?_, ?_, ?_, ?_, ?_, ?_⟩
  · rw [(Trace.C02Idx.t_m4_swap_rows_0_4_oob m).1, (Cg.C02.M4.swap_oob m 0 4 (by omega)).1]; rfl
  · rw [(Trace.C02Idx.t_m4_swap_rows_4_0_oob m).1, (Cg.C02.M4.swap_oob m 4 0 (by omega)).1]; rfl
  · rw [(Trace.C02Idx.t_m4_swap_rows_4_4_oob m).1, (Cg.C02.M4.swap_oob m 4 4 (by omega)).1]; rfl
  · rw [(Trace.C02Idx.t_m4_swap_columns_0_4_oob m).1, (Cg.C02.M4.swap_oob m 0 4 (by omega)).2]; rfl
  · rw [(Trace.C02Idx.t_m4_swap_columns_4_0_oob m).1, (Cg.C02.M4.swap_oob m 4 0 (by omega)).2]; rfl
  · rw [(Trace.C02Idx.t_m4_swap_columns_4_4_oob m).1, (Cg.C02.M4.swap_oob m 4 4 (by omega)).2]; rfl
  · rw [(Trace.C02Idx.t_m4_swap_elements_04_33_oob m).1, Cg.C02.M4.swapElements_oob m 0 4 3 3 (by omega)]; rfl
  · rw [(Trace.C02Idx.t_m4_swap_elements_33_04_oob m).1, Cg.C02.M4.swapElements_oob m 3 3 0 4 (by omega)]; rfl
  · rw [(Trace.C02Idx.t_m4_swap_elements_40_00_oob m).1, Cg.C02.M4.swapElements_oob m 4 0 0 0 (by omega)]; rfl
  · rw [(Trace.C02Idx.t_m4_swap_elements_00_40_oob m).1, Cg.C02.M4.swapElements_oob m 0 0 4 0 (by omega)]; rfl
  · rw [(Trace.C02Idx.t_m4_swap_elements_04_04_oob m).1, Cg.C02.M4.swapElements_oob m 0 4 0 4 (by omega)]; rfl
  · rw [(Trace.C02Idx.t_m4_swap_elements_44_44_oob m).1, Cg.C02.M4.swapElements_oob m 4 4 4 4 (by omega)]; rfl
  · rw [(Trace.C02Idx.t_m4_swap_elements_11_17_oob m).1, Cg.C02.M4.swapElements_oob m 1 1 1 7 (by omega)]; rfl
  · rw [(Trace.C02Idx.t_m4_replace_col_4_oob m u).1, (Cg.C02.M4.replaceCol?_eq_none_iff m 4 u).2 (by omega)]; rfl

/-- in range no kernel panics: every in-range tuple returns normally -/
theorem code_m4_idx_inrange_ok (m : M4 K) (u : V4 K) (a b c d : Fin 4) :
    (kSwapRows4 a b (envL m.toList)).res = .ok ∧ (kSwapColumns4 a b (envL m.toList)).res = .ok ∧
    (kSwapElements4 a b c d (envL m.toList)).res = .ok ∧ (kReplaceCol4 a (envL (m.toList ++ u.toList))).res = .ok := by
  refine ⟨?_, ?_, ?_, ?_⟩
  · rw [(kSwapRows4_all m a b).1, Tr.ofPanic_res_ok, Option.isSome_map]; exact (kSwapRows4_all m a b).2
  · rw [(kSwapColumns4_all m a b).1, Tr.ofPanic_res_ok, Option.isSome_map]; exact (kSwapColumns4_all m a b).2
  · rw [(kSwapElements4_all m a b c d).1, Tr.ofPanic_res_ok, Option.isSome_map]; exact (kSwapElements4_all m a b c d).2
  · rw [(kReplaceCol4_all m u a).1, Tr.ofPanic_res_ok, Option.isSome_map]; exact (kReplaceCol4_all m u a).2

end Cg.E2E.C02
