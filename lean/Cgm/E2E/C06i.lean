import Cgm.Trace.C06Rest
import Cgm.Trace.C06
import Cgm.Props.C06
import Cgm.Lemmas.GuardSem
/-!
# C06, end to end, remaining kernels: axis-angle constructors given degrees, `Basis3::from_axis_angle`, `Basis2::invert`,
`Basis3::invert`

* the `Deg` constructors as computed are the `Rad` constructors' kernels run at the converted angle `degToRad t = t * deg2rad`,
  hence satisfy the clauses of `Cgm/E2E/C06.lean` at that angle (Rodrigues action, axis fixed, orthonormal, determinant `+1`,
  angles -- in degrees -- add);
* `Basis3::from_axis_angle` as computed is `Matrix3::from_axis_angle`'s kernel output;
* `BasisN::invert` (`self.mat.invert().unwrap()`): on the `some` path the output is a two-sided inverse (the transpose for a
  rotation); the `some` path of `Basis2` is always the one taken over the reals (`det = cos² + sin² = 1`); the `panic` path of
  `Basis3` is taken iff the determinant of the underlying matrix is exactly zero, which never happens for a unit quaternion
  (determinant `1`): only for a singular "rotation".
-/
set_option linter.unusedSectionVars false
set_option linter.unusedVariables false
set_option linter.unusedSimpArgs false
namespace Cg.E2E.C06
open Cg Cg.Gen.C06

section field
variable {K : Type} [Field K] [DecidableEq K] [Transc K] [FRem K] [Lits K]

/-- the `Deg` constructors as computed are the `Rad` constructors as computed at the converted angle; `Basis3::from_axis_angle`
as computed is `Matrix3::from_axis_angle` as computed -/
theorem code_axis_angle_deg_eq_rad (a : V3 K) (t : K) :
    t_m3_from_axis_angle_deg (envL (a.toList ++ [t])) = t_m3_from_axis_angle (envL (a.toList ++ [degToRad t])) ∧
    t_q_from_axis_angle_deg (envL (a.toList ++ [t])) = t_q_from_axis_angle (envL (a.toList ++ [degToRad t])) ∧
    t_b3_from_axis_angle (envL (a.toList ++ [t])) = t_m3_from_axis_angle (envL (a.toList ++ [t])) ∧
    t_b3_from_axis_angle (envL (a.toList ++ [t])) = .okS (Basis3.mk (M3.fromAxisAngle a t)).mat.toList := by
  refine ⟨?_, ?_, ?_, ?_⟩
  · rw [Trace.C06Rest.t_m3_from_axis_angle_deg, Trace.C06.t_m3_from_axis_angle]
  · rw [Trace.C06Rest.t_q_from_axis_angle_deg, Trace.C06.t_q_from_axis_angle]
  · rw [Trace.C06Rest.t_b3_from_axis_angle, Trace.C06.t_m3_from_axis_angle]
  · rw [Trace.C06Rest.t_b3_from_axis_angle]

/-- degrees add: the conversion is linear -/
theorem degToRad_add (s t : K) : degToRad (s + t) = degToRad s + degToRad t := by
  simp only [degToRad]; ring

/-- **`Basis2::invert`, `some` path** (the determinant of the underlying matrix is non-zero): the output is a two-sided inverse
of the underlying matrix, and the model's `invert?` returns it -/
theorem code_b2_invert_some (a : K) (hd : (M2.fromAngle a).det ≠ 0) :
    ∃ i : M2 K, t_b2_invert_some (envL [a]) = .okG i.toList [.eq (M2.fromAngle a).det 0 false] ∧
      (Trace.C06Rest.b2 a).invert? = some ⟨i⟩ ∧ M2.fromAngle a * i = M2.one ∧ i * M2.fromAngle a = M2.one := by
  obtain ⟨h1, h2⟩ := Trace.C06Rest.t_b2_invert_some a hd
  obtain ⟨i, hi⟩ := Option.isSome_iff_exists.mp h2
  have hm : (M2.fromAngle a).invert = some i.mat := by
    have : (M2.fromAngle a).invert.map Basis2.mk = some i := hi
    cases hx : (M2.fromAngle a).invert with
    | none => rw [hx] at this; simp at this
    | some j => rw [hx] at this; simp at this; rw [← this]
  obtain ⟨l, r⟩ := Cg.C02.M2.invert_spec _ _ hm
  exact ⟨i.mat, by rw [h1, hi]; rfl, hi, l, r⟩

/-- **`Basis3::invert`, `some` path**: a two-sided inverse of the underlying matrix -/
theorem code_b3_invert_some (q : Quat K) (hd : q.toM3.det ≠ 0) :
    ∃ i : M3 K, t_b3_invert_some (envL q.toList) = .okG i.toList [.eq q.toM3.det 0 false] ∧
      (Basis3.fromQuaternion q).invert? = some ⟨i⟩ ∧ q.toM3 * i = M3.one ∧ i * q.toM3 = M3.one := by
  obtain ⟨h1, h2⟩ := Trace.C06Rest.t_b3_invert_some q hd
  obtain ⟨i, hi⟩ := Option.isSome_iff_exists.mp h2
  have hm : q.toM3.invert = some i.mat := by
    have : q.toM3.invert.map Basis3.mk = some i := hi
    cases hx : q.toM3.invert with
    | none => rw [hx] at this; simp at this
    | some j => rw [hx] at this; simp at this; rw [← this]
  obtain ⟨l, r⟩ := Cg.C02.M3.invert_spec _ _ hm
  exact ⟨i.mat, by rw [h1, hi]; rfl, hi, l, r⟩

/-- for a unit quaternion the inverse returned on the `some` path is the transpose (the inverse rotation) -/
theorem code_b3_invert_unit (q : Quat K) (hq : q.magnitude2 = 1) :
    ∃ g, t_b3_invert_some (envL q.toList) = .okG q.toM3.transpose.toList g ∧
      (Basis3.fromQuaternion q).invert? = some ⟨q.toM3.transpose⟩ := by
  obtain ⟨ho, ho', hdet⟩ := Cg.C05.toM3_orthonormal q hq
  have hd : q.toM3.det ≠ 0 := by rw [hdet]; exact one_ne_zero
  obtain ⟨i, h1, h2, l, r⟩ := code_b3_invert_some q hd
  have hi : i = q.toM3.transpose := by
    have e1 : q.toM3.transpose * (q.toM3 * i) = q.toM3.transpose := by
      rw [l, (Cg.C01.M3.ring_laws q.toM3.transpose i i q.v q.v 0).2.2.2.2.1]
    rw [← (Cg.C01.M3.ring_laws q.toM3.transpose q.toM3 i q.v q.v 0).1, ho, (Cg.C01.M3.ring_laws i i i q.v q.v 0).2.2.2.1] at e1
    exact e1
  subst hi
  exact ⟨_, h1, h2⟩
end field

section guards
variable {K : Type} [Field K] [DecidableEq K] [LinearOrder K] [Approx K] [Transc K] [FRem K] [Lits K]

/-- the comparison each `invert` path records, for every input -/
theorem g_b3_invert (q : Quat K) :
    (t_b3_invert_panic (envL q.toList)).guards = [.eq q.toM3.det 0 true] ∧
    (t_b3_invert_some (envL q.toList)).guards = [.eq q.toM3.det 0 false] ∧
    (t_b3_invert_panic (envL q.toList)).res = .panic ∧ (t_b3_invert_some (envL q.toList)).res = .ok := by
  refine ⟨?_, ?_, ?_, ?_⟩ <;> (simp [M3.det, Quat.toM3]; try tr_auto)
theorem g_b2_invert (a : K) :
    (t_b2_invert_some (envL [a])).guards = [.eq (M2.fromAngle a).det 0 false] := by
  simp [M2.det, M2.fromAngle, M2.new]; try tr_auto

/-- **`Basis3::invert`, which path**: the panicking path is the one taken iff the underlying matrix is exactly singular, the
returning path iff it is not; exactly one is taken; for a unit quaternion (a rotation) it is never the panic -/
theorem code_b3_invert_paths (q : Quat K) :
    ((t_b3_invert_panic (envL q.toList)).Consistent ↔ q.toM3.det = 0) ∧
    ((t_b3_invert_some (envL q.toList)).Consistent ↔ q.toM3.det ≠ 0) ∧
    Tr.ExactlyOne [t_b3_invert_some (envL q.toList), t_b3_invert_panic (envL q.toList)] ∧
    (q.magnitude2 = 1 → (t_b3_invert_some (envL q.toList)).Consistent ∧ ¬ (t_b3_invert_panic (envL q.toList)).Consistent) := by
  have hp : (t_b3_invert_panic (envL q.toList)).Consistent ↔ q.toM3.det = 0 := by
    rw [Tr.Consistent, (g_b3_invert q).1]; simp [-M3.det]
  have hs : (t_b3_invert_some (envL q.toList)).Consistent ↔ q.toM3.det ≠ 0 := by
    rw [Tr.Consistent, (g_b3_invert q).2.1]; simp [-M3.det]
  refine ⟨hp, hs, ?_, ?_⟩
  · unfold Tr.ExactlyOne
    simp only [List.pairwise_cons, List.mem_cons, List.not_mem_nil, or_false, forall_eq_or_imp, forall_eq, exists_eq_or_imp,
      exists_eq_left, List.Pairwise.nil, and_true, IsEmpty.forall_iff, implies_true, false_imp_iff, exists_false, hp, hs]
    generalize q.toM3.det = d
    by_cases h : d = 0 <;> simp [h]
  · intro hq
    have hdet := (Cg.C05.toM3_orthonormal q hq).2.2
    rw [hp, hs, hdet]; exact ⟨one_ne_zero, one_ne_zero⟩
/-- the panic path's condition is satisfiable: a singular "rotation" -/
example : (Quat.toM3 (⟨⟨1 / 2, 1 / 2, 0⟩, 0⟩ : Quat ℚ)).det = 0 := by
  simp [Quat.toM3, M3.det]; norm_num
end guards

section real
variable [FRem ℝ] [Lits ℝ]

/-- **`Matrix3::from_axis_angle(a, Deg(t))` as computed** satisfies the clauses of `code_m3_from_axis_angle` at the converted angle:
Rodrigues' formula with `cos`, `sin` of `degToRad t`; for a unit axis it fixes the axis, is orthonormal with determinant `+1`, and
angles in degrees add under composition.  `Basis3::from_axis_angle` (radians) has the same clauses -/
theorem code_m3_from_axis_angle_deg (a v : V3 ℝ) (t t' : ℝ) :
    ∃ f : V3 ℝ → ℝ → M3 ℝ, (∀ b s, t_m3_from_axis_angle_deg (envL (b.toList ++ [s])) = .okS (f b s).toList) ∧
      (∀ b s, t_b3_from_axis_angle (envL (b.toList ++ [degToRad s])) = .okS (f b s).toList) ∧
      f a t * v = C06.rodrigues a (Real.cos (degToRad t)) (Real.sin (degToRad t)) v ∧
      (a.magnitude2 = 1 → f a t * a = a ∧ (f a t).transpose * f a t = M3.one ∧ (f a t).det = 1 ∧
        f a t * f a t' = f a (t + t')) := by
  refine ⟨fun b s => M3.fromAxisAngle b (degToRad s), fun b s => Trace.C06Rest.t_m3_from_axis_angle_deg b s,
    fun b s => Trace.C06Rest.t_b3_from_axis_angle b (degToRad s), C06.m3_axisAngle_real a v _, fun ha => ?_⟩
  refine ⟨(C06.m3_axisAngle_rotation_real a _ ha).1, (C06.m3_axisAngle_rotation_real a _ ha).2.1,
      (C06.m3_axisAngle_rotation_real a _ ha).2.2, ?_⟩
  show M3.fromAxisAngle a (degToRad t) * M3.fromAxisAngle a (degToRad t') = M3.fromAxisAngle a (degToRad (t + t'))
  rw [degToRad_add, C06.axisAngle_add_real a _ _ ha]

/-- the quaternion constructor given degrees, as computed: a unit quaternion with the same action -/
theorem code_q_from_axis_angle_deg (a v : V3 ℝ) (t : ℝ) (ha : a.magnitude2 = 1) :
    ∃ q : Quat ℝ, t_q_from_axis_angle_deg (envL (a.toList ++ [t])) = .okS q.toList ∧
      q * v = C06.rodrigues a (Real.cos (degToRad t)) (Real.sin (degToRad t)) v ∧ q.magnitude2 = 1 :=
  ⟨Quat.fromAxisAngle a (degToRad t), Trace.C06Rest.t_q_from_axis_angle_deg a t, C06.quat_axisAngle_real a v _ ha⟩

/-- with `deg2rad = π / 180`: a half turn given as `Deg(180)` is the rotation by `π` -/
theorem degToRad_real (h : (Lits.deg2rad : ℝ) = Real.pi / 180) (t : ℝ) :
    degToRad t = t * Real.pi / 180 ∧ degToRad (180 : ℝ) = Real.pi := by
  simp only [degToRad, h]; constructor <;> ring

variable [Approx ℝ]
/-- **`Basis2::invert` over the reals**: the `some` path is always the one taken (`det = cos² + sin² = 1`) and returns the inverse
rotation: the transpose, i.e. the rotation by `-a` -/
theorem code_b2_invert_real (a : ℝ) :
    (t_b2_invert_some (envL [a])).Consistent ∧
    ∃ i : M2 ℝ, t_b2_invert_some (envL [a]) = .okG i.toList [.eq (M2.fromAngle a).det 0 false] ∧
      M2.fromAngle a * i = M2.one ∧ i * M2.fromAngle a = M2.one ∧ i = M2.fromAngle (-a) := by
  have hdet : (M2.fromAngle a).det = 1 := (C06.m2_fromAngle_real a 0).2.2.2
  have hd : (M2.fromAngle a).det ≠ 0 := by rw [hdet]; exact one_ne_zero
  constructor
  · rw [Tr.Consistent, g_b2_invert]; simpa [-M2.det] using hd
  · obtain ⟨i, h1, -, l, r⟩ := code_b2_invert_some a hd
    refine ⟨i, h1, l, r, ?_⟩
    have hinv : M2.fromAngle (-a) * M2.fromAngle a = M2.one := by
      rw [(C06.m2_fromAngle_real (-a) a).2.2.1, neg_add_cancel]
      ext <;> simp [M2.fromAngle, M2.one, M2.fromValue, M2.new]
    have e1 : M2.fromAngle (-a) * (M2.fromAngle a * i) = M2.fromAngle (-a) := by
      rw [l, (Cg.C01.M2.ring_laws (M2.fromAngle (-a)) i i i.x i.x 0).2.2.2.2.1]
    rw [← (Cg.C01.M2.ring_laws (M2.fromAngle (-a)) (M2.fromAngle a) i i.x i.x 0).1, hinv,
      (Cg.C01.M2.ring_laws i i i i.x i.x 0).2.2.2.1] at e1
    exact e1
end real
end Cg.E2E.C06
