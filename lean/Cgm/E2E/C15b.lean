import Cgm.E2E.C15
import Cgm.Props.C15b
import Cgm.Lemmas.RealApprox
/-!
# C15 (continued), end to end: the rotation-angle clauses of `from_arc` and `between_vectors` about the regenerated kernels,
first for any `approx` relations, then with the real `approx` instance (`open scoped Cg.RealApprox`), where the positivity side
condition follows from the path condition
-/
set_option linter.unusedSectionVars false
namespace Cg.E2E.C15
open Cg Cg.Gen.C15

/-- the two comparisons of the general paths being false is the model's branch predicate -/
theorem arc_branch_of_path [Lits ℝ] [Approx ℝ] (src dst : V3 ℝ)
    (h1 : ulpsEqD (V3.dot src dst) (Transc.sqrt (src.magnitude2 * dst.magnitude2)) = false)
    (h2 : ulpsEqD (V3.dot src dst) (-Transc.sqrt (src.magnitude2 * dst.magnitude2)) = false) :
    Quat.fromArcBranch src dst = .general := by
  unfold Quat.fromArcBranch
  simp only [h1, h2]
  rfl
theorem bv_branch_of_path [Lits ℝ] [Approx ℝ] (a b : V3 ℝ) (h1 : ulpsEqD (V3.dot a b) 1 = false)
    (h2 : ulpsEqD (V3.dot a b / Transc.sqrt (a.magnitude2 * b.magnitude2)) (-1) = false) :
    Quat.betweenVectorsBranch a b = .general := by
  unfold Quat.betweenVectorsBranch
  simp only [h1, h2]
  rfl

section anyApprox
variable [FRem ℝ] [Lits ℝ] [Approx ℝ]

/-- `from_arc(src, dst, None)` on the general path: a unit quaternion rotating `src/|src|` onto `dst/|dst|` with **positive scalar
part** (the smaller of the two rotations) whose rotation angle `2 acos(w)` is the angle between `src` and `dst` -/
theorem code_from_arc_general_glued (src dst : V3 ℝ) (hs : 0 < src.magnitude2) (hd : 0 < dst.magnitude2)
    (hc : 0 < Real.sqrt (src.magnitude2 * dst.magnitude2) + V3.dot src dst)
    (h1 : ulpsEqD (V3.dot src dst) (Transc.sqrt (src.magnitude2 * dst.magnitude2)) = false)
    (h2 : ulpsEqD (V3.dot src dst) (-Transc.sqrt (src.magnitude2 * dst.magnitude2)) = false) :
    ∃ r : Quat ℝ, t_q_from_arc_general (envL (src.toList ++ dst.toList)) = .okG r.toList
        [.ulps (V3.dot src dst) (Transc.sqrt (src.magnitude2 * dst.magnitude2)) Trace.C15.eps52 4 false,
         .ulps (V3.dot src dst) (-Transc.sqrt (src.magnitude2 * dst.magnitude2)) Trace.C15.eps52 4 false] ∧
      r.magnitude2 = 1 ∧ r * (src * (1 / src.magnitude)) = dst * (1 / dst.magnitude) ∧ 0 < r.s ∧
      2 * Real.arccos r.s = V3.angle src dst := by
  have hbr := arc_branch_of_path src dst h1 h2
  obtain ⟨k1, k2, k3⟩ := C15.fromArc_general_glued src dst none hbr hs hd hc
  exact ⟨Quat.fromArc src dst none, Trace.C15.t_q_from_arc_general src dst h1 h2, k1, k2, k3,
    C15.fromArc_angle src dst none hbr hs hd hc⟩

/-- `Quaternion::between_vectors(a, b)` on the general path, the angle clause: the rotation angle `2 acos(w)` is the angle
between `a` and `b`, `w > 0`, the axis is perpendicular to both, and `Basis3::between_vectors` rotates `a` onto `b` -/
theorem code_between_vectors_general_angle (a b : V3 ℝ) (ha : V3.dot a a = 1) (hb : V3.dot b b = 1) (hc : 0 < 1 + V3.dot a b)
    (h1 : ulpsEqD (V3.dot a b) 1 = false)
    (h2 : ulpsEqD (V3.dot a b / Transc.sqrt (a.magnitude2 * b.magnitude2)) (-1) = false) :
    ∃ r : Quat ℝ, t_q_between_vectors_general (envL (a.toList ++ b.toList)) = .okG r.toList
        [.ulps (V3.dot a b) 1 Trace.C15.eps52 4 false,
         .ulps (V3.dot a b / Transc.sqrt (a.magnitude2 * b.magnitude2)) (-1) Trace.C15.eps52 4 false] ∧
      r.magnitude2 = 1 ∧ r * a = b ∧ 2 * Real.arccos r.s = V3.angle a b ∧ 0 < r.s ∧
      V3.dot r.v a = 0 ∧ V3.dot r.v b = 0 ∧ (Basis3.betweenVectors a b).rotateVector a = b := by
  have hbr := bv_branch_of_path a b h1 h2
  obtain ⟨g1, g2, g3, ⟨k, hk, hv⟩, -⟩ := C15.betweenVectors_general a b ha hb hc hbr
  refine ⟨Quat.betweenVectors a b, Trace.C15.t_q_between_vectors_general a b h1 h2, g1, g2,
    C15.betweenVectors_angle a b ha hb hc hbr, ?_, ?_, ?_, C15.basis3_betweenVectors a b ha hb hc hbr⟩
  · rw [g3]; exact Real.sqrt_pos.mpr (by linarith)
  · rw [hv]; simp; ring
  · rw [hv]; simp; ring
end anyApprox

section realApprox
open scoped Cg.RealApprox
variable [FRem ℝ] [Lits ℝ]

/-- with the real `approx` relations (which are reflexive) the side condition `0 < sqrt(|src|²|dst|²) + src.dst` is implied by
the path condition: non-zero inputs on the general path give the unit quaternion of the smaller rotation `src/|src| ↦ dst/|dst|`,
with rotation angle the angle between them -/
theorem code_from_arc_general_real (src dst : V3 ℝ) (hs : 0 < src.magnitude2) (hd : 0 < dst.magnitude2)
    (h1 : ulpsEqD (V3.dot src dst) (Transc.sqrt (src.magnitude2 * dst.magnitude2)) = false)
    (h2 : ulpsEqD (V3.dot src dst) (-Transc.sqrt (src.magnitude2 * dst.magnitude2)) = false) :
    ∃ r : Quat ℝ, t_q_from_arc_general (envL (src.toList ++ dst.toList)) = .okG r.toList
        [.ulps (V3.dot src dst) (Transc.sqrt (src.magnitude2 * dst.magnitude2)) Trace.C15.eps52 4 false,
         .ulps (V3.dot src dst) (-Transc.sqrt (src.magnitude2 * dst.magnitude2)) Trace.C15.eps52 4 false] ∧
      r.magnitude2 = 1 ∧ r * (src * (1 / src.magnitude)) = dst * (1 / dst.magnitude) ∧ 0 < r.s ∧
      2 * Real.arccos r.s = V3.angle src dst := by
  have hbr := arc_branch_of_path src dst h1 h2
  obtain ⟨k1, k2, k3, k4⟩ := C15.fromArc_general_of_refl src dst none realApproxLaws.ulpsEqD_refl hbr hs hd
  exact ⟨Quat.fromArc src dst none, Trace.C15.t_q_from_arc_general src dst h1 h2, k1, k2, k3, k4⟩

/-- the same for `between_vectors` of unit vectors: no side condition beyond the path condition -/
theorem code_between_vectors_general_real (a b : V3 ℝ) (ha : V3.dot a a = 1) (hb : V3.dot b b = 1)
    (h1 : ulpsEqD (V3.dot a b) 1 = false)
    (h2 : ulpsEqD (V3.dot a b / Transc.sqrt (a.magnitude2 * b.magnitude2)) (-1) = false) :
    ∃ r : Quat ℝ, t_q_between_vectors_general (envL (a.toList ++ b.toList)) = .okG r.toList
        [.ulps (V3.dot a b) 1 Trace.C15.eps52 4 false,
         .ulps (V3.dot a b / Transc.sqrt (a.magnitude2 * b.magnitude2)) (-1) Trace.C15.eps52 4 false] ∧
      r.magnitude2 = 1 ∧ r * a = b ∧ (Basis3.betweenVectors a b).rotateVector a = b ∧
      2 * Real.arccos r.s = V3.angle a b ∧ 0 < r.s ∧ V3.dot r.v a = 0 ∧ V3.dot r.v b = 0 := by
  have hbr := bv_branch_of_path a b h1 h2
  exact ⟨Quat.betweenVectors a b, Trace.C15.t_q_between_vectors_general a b h1 h2,
    C15.betweenVectors_general_of_refl a b ha hb realApproxLaws.ulpsEqD_refl hbr⟩

/-- the path conditions are satisfiable with the real relations: perpendicular unit vectors take the general path -/
example : let a : V3 ℝ := ⟨1, 0, 0⟩; let b : V3 ℝ := ⟨0, 1, 0⟩
    V3.dot a a = 1 ∧ V3.dot b b = 1 ∧ ulpsEqD (V3.dot a b) 1 = false ∧
      ulpsEqD (V3.dot a b / Transc.sqrt (a.magnitude2 * b.magnitude2)) (-1) = false ∧
      ulpsEqD (V3.dot a b) (Transc.sqrt (a.magnitude2 * b.magnitude2)) = false ∧
      ulpsEqD (V3.dot a b) (-Transc.sqrt (a.magnitude2 * b.magnitude2)) = false := by
  intro a b
  have hd : V3.dot a b = 0 := by simp [a, b, V3.dot]
  have hm : Transc.sqrt (a.magnitude2 * b.magnitude2) = (1 : ℝ) := by
    simp [a, b, V3.magnitude2, V3.dot, transc_sqrt]
  have key : ∀ y : ℝ, |y| = 1 → ulpsEqD (0 : ℝ) y = false := by
    intro y hy
    rw [← Bool.not_eq_true, real_ulpsEqD, zero_sub, abs_neg, hy, abs_zero, max_eq_right zero_le_one]
    unfold eps52R; norm_num
  refine ⟨by simp [a, V3.dot], by simp [b, V3.dot], ?_, ?_, ?_, ?_⟩
  · rw [hd]; exact key 1 (by norm_num)
  · rw [hd, hm]; norm_num; exact key (-1) (by norm_num)
  · rw [hd, hm]; exact key 1 (by norm_num)
  · rw [hd, hm]; exact key (-1) (by norm_num)
end realApprox
end Cg.E2E.C15
