import Cgm.Trace.C17Rest
import Cgm.Trace.C01Auto
import Cgm.Trace.C03Auto
import Cgm.Trace.C04Auto
import Cgm.Trace.C13Auto
import Cgm.Props.C17c
import Cgm.Props.C01
import Cgm.Props.C04
/-!
# C17, end to end: `Sum` / `Product` over iterators of values and of references, as computed

The kernels are the real `iter.sum()` / `iter.product()` (`into_iter()` = by value, `iter()` = by reference, separate `impl`s in
the Rust source) executed on a list of three symbolic operands.  Each statement composes the T obligation of the kernel
(`Cgm/Trace/C01Auto.lean`, `C03Auto.lean`, `C04Auto.lean`, `C13Auto.lean`, `C17Rest.lean`) with the fold specifications of
`Cgm/Props/C17.lean`, `C17b.lean`, `C17c.lean`:

* the by-reference kernel returns the same `Tr` as the by-value kernel;
* both are the LEFT fold of `*` from `one()` / of `+` from `zero()` over the operands (written as `List.foldl` and expanded),
  which is the model's `productRefs id` / `sumRefs id` (`Product<&'a T>` / `Sum<&'a T>`);
* for `Basis2` / `Basis3` the product kernel is the matrix product kernel run on the underlying rotation matrices.

Lists are of length three here (the fold equations of the Props layer hold for every length); the lengths 0, 1, 2, 4, 5, the
by-reference impls `Sum<&'a MatrixN>` / `Product<&'a Basis2>`, and the reference-operand / compound-assignment forms of the
binary operators are in `Cgm/E2E/C17b.lean`.
-/
set_option linter.unusedSectionVars false
set_option linter.unusedVariables false
namespace Cg.E2E.C17
open Cg
variable {K : Type} [Field K] [Transc K] [FRem K] [Lits K]

/-! ## matrices: `Product` by value (`Gen.C01`) and by reference (`Gen.C17`), `Sum` by value -/
/-- `Matrix2`: `iter().product()` (by reference) and `into_iter().product()` (by value) as computed return the same thing,
the left fold of `*` from the identity: `((one * l1) * l2) * l3 = l1 * l2 * l3`, in this order -/
theorem code_m2_product (l1 l2 l3 : M2 K) :
    Gen.C17.t_m2_product_list_ref (envL (l1.toList ++ l2.toList ++ l3.toList)) = Gen.C01.t_m2_product_list (envL (l1.toList ++ l2.toList ++ l3.toList)) ∧
    Gen.C01.t_m2_product_list (envL (l1.toList ++ l2.toList ++ l3.toList)) = .okS ([l1, l2, l3].foldl (· * ·) M2.one).toList ∧
    Gen.C17.t_m2_product_list_ref (envL (l1.toList ++ l2.toList ++ l3.toList)) = .okS (M2.productRefs id [l1, l2, l3]).toList ∧
    Gen.C01.t_m2_product_list (envL (l1.toList ++ l2.toList ++ l3.toList)) = .okS (M2.one * l1 * l2 * l3).toList ∧
    Gen.C01.t_m2_product_list (envL (l1.toList ++ l2.toList ++ l3.toList)) = .okS (l1 * l2 * l3).toList := by
  have hv := Trace.C01Auto.t_m2_product_list l1 l2 l3
  have hr := Trace.C17Rest.t_m2_product_list_ref l1 l2 l3
  have hd : M2.productList [l1, l2, l3] = [l1, l2, l3].foldl (· * ·) M2.one := (Cg.C17.more_fold_defs (R := K) [] [l1, l2, l3] []).2.2.2
  have hrefs : M2.productRefs id [l1, l2, l3] = M2.productList [l1, l2, l3] := by
    rw [(Cg.C17.productRefs_eq (α := K) [l1, l2, l3]).1 id, List.map_id]
  refine ⟨hr.trans hv.symm, by rw [hv, hd], by rw [hr, hrefs], by rw [hv, hd]; rfl, ?_⟩
  rw [hv, hd]; simp only [List.foldl_cons, List.foldl_nil]; rw [(Cg.C01.M2.ring_laws l1 l1 l1 l1.x l1.x 0).2.2.2.1]
/-- `Matrix2`: `into_iter().sum()` as computed is the left fold of `+` from `zero()` -/
theorem code_m2_sum (l1 l2 l3 : M2 K) :
    Gen.C01.t_m2_sum_list (envL (l1.toList ++ l2.toList ++ l3.toList)) = .okS ([l1, l2, l3].foldl (· + ·) M2.zero).toList ∧
    Gen.C01.t_m2_sum_list (envL (l1.toList ++ l2.toList ++ l3.toList)) = .okS (M2.zero + l1 + l2 + l3).toList ∧
    Gen.C01.t_m2_sum_list (envL (l1.toList ++ l2.toList ++ l3.toList)) = .okS (M2.sumRefs id [l1, l2, l3]).toList := by
  have hv := Trace.C01Auto.t_m2_sum_list l1 l2 l3
  have hd : M2.sumList [l1, l2, l3] = [l1, l2, l3].foldl (· + ·) M2.zero := (Cg.C17.more_fold_defs (R := K) [] [l1, l2, l3] []).2.1
  have hrefs : M2.sumRefs id [l1, l2, l3] = M2.sumList [l1, l2, l3] := by
    rw [(Cg.C17.sumRefs_eq (α := K) [l1, l2, l3]).2.2.2.2.1 id, List.map_id]
  exact ⟨by rw [hv, hd], by rw [hv, hd]; rfl, by rw [hv, hrefs]⟩

/-- `Matrix3`: `iter().product()` (by reference) and `into_iter().product()` (by value) as computed return the same thing,
the left fold of `*` from the identity: `((one * l1) * l2) * l3 = l1 * l2 * l3`, in this order -/
theorem code_m3_product (l1 l2 l3 : M3 K) :
    Gen.C17.t_m3_product_list_ref (envL (l1.toList ++ l2.toList ++ l3.toList)) = Gen.C01.t_m3_product_list (envL (l1.toList ++ l2.toList ++ l3.toList)) ∧
    Gen.C01.t_m3_product_list (envL (l1.toList ++ l2.toList ++ l3.toList)) = .okS ([l1, l2, l3].foldl (· * ·) M3.one).toList ∧
    Gen.C17.t_m3_product_list_ref (envL (l1.toList ++ l2.toList ++ l3.toList)) = .okS (M3.productRefs id [l1, l2, l3]).toList ∧
    Gen.C01.t_m3_product_list (envL (l1.toList ++ l2.toList ++ l3.toList)) = .okS (M3.one * l1 * l2 * l3).toList ∧
    Gen.C01.t_m3_product_list (envL (l1.toList ++ l2.toList ++ l3.toList)) = .okS (l1 * l2 * l3).toList := by
  have hv := Trace.C01Auto.t_m3_product_list l1 l2 l3
  have hr := Trace.C17Rest.t_m3_product_list_ref l1 l2 l3
  have hd : M3.productList [l1, l2, l3] = [l1, l2, l3].foldl (· * ·) M3.one := (Cg.C17.productList_defs (R := K) [l1, l2, l3] [] []).1
  have hrefs : M3.productRefs id [l1, l2, l3] = M3.productList [l1, l2, l3] := by
    rw [(Cg.C17.productRefs_eq (α := K) [l1, l2, l3]).2.1 id, List.map_id]
  refine ⟨hr.trans hv.symm, by rw [hv, hd], by rw [hr, hrefs], by rw [hv, hd]; rfl, ?_⟩
  rw [hv, hd]; simp only [List.foldl_cons, List.foldl_nil]; rw [(Cg.C01.M3.ring_laws l1 l1 l1 l1.x l1.x 0).2.2.2.1]
/-- `Matrix3`: `into_iter().sum()` as computed is the left fold of `+` from `zero()` -/
theorem code_m3_sum (l1 l2 l3 : M3 K) :
    Gen.C01.t_m3_sum_list (envL (l1.toList ++ l2.toList ++ l3.toList)) = .okS ([l1, l2, l3].foldl (· + ·) M3.zero).toList ∧
    Gen.C01.t_m3_sum_list (envL (l1.toList ++ l2.toList ++ l3.toList)) = .okS (M3.zero + l1 + l2 + l3).toList ∧
    Gen.C01.t_m3_sum_list (envL (l1.toList ++ l2.toList ++ l3.toList)) = .okS (M3.sumRefs id [l1, l2, l3]).toList := by
  have hv := Trace.C01Auto.t_m3_sum_list l1 l2 l3
  have hd : M3.sumList [l1, l2, l3] = [l1, l2, l3].foldl (· + ·) M3.zero := (Cg.C17.more_fold_defs (R := K) [] [] [l1, l2, l3]).2.2.1
  have hrefs : M3.sumRefs id [l1, l2, l3] = M3.sumList [l1, l2, l3] := by
    rw [(Cg.C17.sumRefs_eq (α := K) [l1, l2, l3]).2.2.2.2.2.1 id, List.map_id]
  exact ⟨by rw [hv, hd], by rw [hv, hd]; rfl, by rw [hv, hrefs]⟩

/-- `Matrix4`: `iter().product()` (by reference) and `into_iter().product()` (by value) as computed return the same thing,
the left fold of `*` from the identity: `((one * l1) * l2) * l3 = l1 * l2 * l3`, in this order -/
theorem code_m4_product (l1 l2 l3 : M4 K) :
    Gen.C17.t_m4_product_list_ref (envL (l1.toList ++ l2.toList ++ l3.toList)) = Gen.C01.t_m4_product_list (envL (l1.toList ++ l2.toList ++ l3.toList)) ∧
    Gen.C01.t_m4_product_list (envL (l1.toList ++ l2.toList ++ l3.toList)) = .okS ([l1, l2, l3].foldl (· * ·) M4.one).toList ∧
    Gen.C17.t_m4_product_list_ref (envL (l1.toList ++ l2.toList ++ l3.toList)) = .okS (M4.productRefs id [l1, l2, l3]).toList ∧
    Gen.C01.t_m4_product_list (envL (l1.toList ++ l2.toList ++ l3.toList)) = .okS (M4.one * l1 * l2 * l3).toList ∧
    Gen.C01.t_m4_product_list (envL (l1.toList ++ l2.toList ++ l3.toList)) = .okS (l1 * l2 * l3).toList := by
  have hv := Trace.C01Auto.t_m4_product_list l1 l2 l3
  have hr := Trace.C17Rest.t_m4_product_list_ref l1 l2 l3
  have hd : M4.productList [l1, l2, l3] = [l1, l2, l3].foldl (· * ·) M4.one := (Cg.C17.productList_defs (R := K) [] [l1, l2, l3] []).2.1
  have hrefs : M4.productRefs id [l1, l2, l3] = M4.productList [l1, l2, l3] := by
    rw [(Cg.C17.productRefs_eq (α := K) [l1, l2, l3]).2.2.1 id, List.map_id]
  refine ⟨hr.trans hv.symm, by rw [hv, hd], by rw [hr, hrefs], by rw [hv, hd]; rfl, ?_⟩
  rw [hv, hd]; simp only [List.foldl_cons, List.foldl_nil]; rw [(Cg.C01.M4.ring_laws l1 l1 l1 l1.x l1.x 0).2.2.2.1]
/-- `Matrix4`: `into_iter().sum()` as computed is the left fold of `+` from `zero()` -/
theorem code_m4_sum (l1 l2 l3 : M4 K) :
    Gen.C01.t_m4_sum_list (envL (l1.toList ++ l2.toList ++ l3.toList)) = .okS ([l1, l2, l3].foldl (· + ·) M4.zero).toList ∧
    Gen.C01.t_m4_sum_list (envL (l1.toList ++ l2.toList ++ l3.toList)) = .okS (M4.zero + l1 + l2 + l3).toList ∧
    Gen.C01.t_m4_sum_list (envL (l1.toList ++ l2.toList ++ l3.toList)) = .okS (M4.sumRefs id [l1, l2, l3]).toList := by
  have hv := Trace.C01Auto.t_m4_sum_list l1 l2 l3
  have hd : M4.sumList [l1, l2, l3] = [l1, l2, l3].foldl (· + ·) M4.zero := (Cg.C17.sumList_defs (R := K) [] [] [l1, l2, l3] []).2.2.1
  have hrefs : M4.sumRefs id [l1, l2, l3] = M4.sumList [l1, l2, l3] := by
    rw [(Cg.C17.sumRefs_eq (α := K) [l1, l2, l3]).2.2.2.2.2.2.1 id, List.map_id]
  exact ⟨by rw [hv, hd], by rw [hv, hd]; rfl, by rw [hv, hrefs]⟩

/-! ## quaternions: `Sum` and `Product`, both forms (`Gen.C04`) -/
/-- `Quaternion`: by-reference and by-value `product()` as computed agree and are the left fold of `*` from `one()` -/
theorem code_q_product (l1 l2 l3 : Quat K) :
    Gen.C04.t_q_product_list_ref (envL (l1.toList ++ l2.toList ++ l3.toList)) = Gen.C04.t_q_product_list (envL (l1.toList ++ l2.toList ++ l3.toList)) ∧
    Gen.C04.t_q_product_list (envL (l1.toList ++ l2.toList ++ l3.toList)) = .okS ([l1, l2, l3].foldl (· * ·) Quat.one).toList ∧
    Gen.C04.t_q_product_list_ref (envL (l1.toList ++ l2.toList ++ l3.toList)) = .okS (Quat.productRefs id [l1, l2, l3]).toList ∧
    Gen.C04.t_q_product_list (envL (l1.toList ++ l2.toList ++ l3.toList)) = .okS (Quat.one * l1 * l2 * l3).toList ∧
    Gen.C04.t_q_product_list (envL (l1.toList ++ l2.toList ++ l3.toList)) = .okS (l1 * l2 * l3).toList := by
  have hv := Trace.C04Auto.t_q_product_list l1 l2 l3
  have hr := Trace.C04Auto.t_q_product_list_ref l1 l2 l3
  have hd : Quat.productList [l1, l2, l3] = [l1, l2, l3].foldl (· * ·) Quat.one :=
    (Cg.C17.productList_defs (R := K) [] [] [l1, l2, l3]).2.2
  have hrefs : Quat.productRefs id [l1, l2, l3] = Quat.productList [l1, l2, l3] := by
    rw [(Cg.C17.productRefs_eq (α := K) [l1, l2, l3]).2.2.2.1 id, List.map_id]
  refine ⟨hr.trans hv.symm, by rw [hv, hd], by rw [hr, hrefs], by rw [hv, hd]; rfl, ?_⟩
  rw [hv, hd]; simp only [List.foldl_cons, List.foldl_nil]; rw [(Cg.C04.one_mul l1).1]
/-- `Quaternion`: by-reference and by-value `sum()` as computed agree and are the left fold of `+` from `zero()` -/
theorem code_q_sum (l1 l2 l3 : Quat K) :
    Gen.C04.t_q_sum_list_ref (envL (l1.toList ++ l2.toList ++ l3.toList)) = Gen.C04.t_q_sum_list (envL (l1.toList ++ l2.toList ++ l3.toList)) ∧
    Gen.C04.t_q_sum_list (envL (l1.toList ++ l2.toList ++ l3.toList)) = .okS ([l1, l2, l3].foldl (· + ·) Quat.zero).toList ∧
    Gen.C04.t_q_sum_list_ref (envL (l1.toList ++ l2.toList ++ l3.toList)) = .okS (Quat.sumRefs id [l1, l2, l3]).toList ∧
    Gen.C04.t_q_sum_list (envL (l1.toList ++ l2.toList ++ l3.toList)) = .okS (Quat.zero + l1 + l2 + l3).toList := by
  have hv := Trace.C04Auto.t_q_sum_list l1 l2 l3
  have hr := Trace.C04Auto.t_q_sum_list_ref l1 l2 l3
  have hd : Quat.sumList [l1, l2, l3] = [l1, l2, l3].foldl (· + ·) Quat.zero :=
    (Cg.C17.sumList_defs (R := K) [] [] [] [l1, l2, l3]).2.2.2
  have hrefs : Quat.sumRefs id [l1, l2, l3] = Quat.sumList [l1, l2, l3] := by
    rw [(Cg.C17.sumRefs_eq (α := K) [l1, l2, l3]).2.2.2.2.2.2.2.1 id, List.map_id]
  exact ⟨hr.trans hv.symm, by rw [hv, hd], by rw [hr, hrefs], by rw [hv, hd]; rfl⟩

/-! ## vectors: `Sum`, both forms (`Gen.C03`) -/
/-- `Vector1`: by-reference and by-value `sum()` as computed agree, are the left fold of `+` from `zero()`, and hence the
component-wise sums -/
theorem code_v1_sum (l1 l2 l3 : V1 K) :
    Gen.C03.t_v1_sum_list_ref (envL (l1.toList ++ l2.toList ++ l3.toList)) = Gen.C03.t_v1_sum_list (envL (l1.toList ++ l2.toList ++ l3.toList)) ∧
    Gen.C03.t_v1_sum_list (envL (l1.toList ++ l2.toList ++ l3.toList)) = .okS ([l1, l2, l3].foldl (· + ·) V1.zero).toList ∧
    Gen.C03.t_v1_sum_list_ref (envL (l1.toList ++ l2.toList ++ l3.toList)) = .okS (V1.sumRefs id [l1, l2, l3]).toList ∧
    Gen.C03.t_v1_sum_list (envL (l1.toList ++ l2.toList ++ l3.toList)) = .okS (V1.zero + l1 + l2 + l3).toList ∧
    Gen.C03.t_v1_sum_list (envL (l1.toList ++ l2.toList ++ l3.toList)) = .okS [l1.x + l2.x + l3.x] := by
  have hv := Trace.C03Auto.t_v1_sum_list l1 l2 l3
  have hr := Trace.C03Auto.t_v1_sum_list_ref l1 l2 l3
  have hd : V1.sumList [l1, l2, l3] = [l1, l2, l3].foldl (· + ·) V1.zero := (Cg.C17.more_fold_defs (R := K) [l1, l2, l3] [] []).1
  have hrefs : V1.sumRefs id [l1, l2, l3] = V1.sumList [l1, l2, l3] := by
    rw [(Cg.C17.sumRefs_eq (α := K) [l1, l2, l3]).1 id, List.map_id]
  refine ⟨hr.trans hv.symm, by rw [hv, hd], by rw [hr, hrefs], by rw [hv, hd]; rfl, ?_⟩
  rw [hv, hd]; simp [V1.toList, V1.zero, V1.fromValue]

/-- `Vector2`: by-reference and by-value `sum()` as computed agree, are the left fold of `+` from `zero()`, and hence the
component-wise sums -/
theorem code_v2_sum (l1 l2 l3 : V2 K) :
    Gen.C03.t_v2_sum_list_ref (envL (l1.toList ++ l2.toList ++ l3.toList)) = Gen.C03.t_v2_sum_list (envL (l1.toList ++ l2.toList ++ l3.toList)) ∧
    Gen.C03.t_v2_sum_list (envL (l1.toList ++ l2.toList ++ l3.toList)) = .okS ([l1, l2, l3].foldl (· + ·) V2.zero).toList ∧
    Gen.C03.t_v2_sum_list_ref (envL (l1.toList ++ l2.toList ++ l3.toList)) = .okS (V2.sumRefs id [l1, l2, l3]).toList ∧
    Gen.C03.t_v2_sum_list (envL (l1.toList ++ l2.toList ++ l3.toList)) = .okS (V2.zero + l1 + l2 + l3).toList ∧
    Gen.C03.t_v2_sum_list (envL (l1.toList ++ l2.toList ++ l3.toList)) = .okS [l1.x + l2.x + l3.x, l1.y + l2.y + l3.y] := by
  have hv := Trace.C03Auto.t_v2_sum_list l1 l2 l3
  have hr := Trace.C03Auto.t_v2_sum_list_ref l1 l2 l3
  have hd : V2.sumList [l1, l2, l3] = [l1, l2, l3].foldl (· + ·) V2.zero := (Cg.C17.sumList_defs (R := K) [l1, l2, l3] [] [] []).1
  have hrefs : V2.sumRefs id [l1, l2, l3] = V2.sumList [l1, l2, l3] := by
    rw [(Cg.C17.sumRefs_eq (α := K) [l1, l2, l3]).2.1 id, List.map_id]
  refine ⟨hr.trans hv.symm, by rw [hv, hd], by rw [hr, hrefs], by rw [hv, hd]; rfl, ?_⟩
  rw [hv, hd]; simp [V2.toList, V2.zero, V2.fromValue]

/-- `Vector3`: by-reference and by-value `sum()` as computed agree, are the left fold of `+` from `zero()`, and hence the
component-wise sums -/
theorem code_v3_sum (l1 l2 l3 : V3 K) :
    Gen.C03.t_v3_sum_list_ref (envL (l1.toList ++ l2.toList ++ l3.toList)) = Gen.C03.t_v3_sum_list (envL (l1.toList ++ l2.toList ++ l3.toList)) ∧
    Gen.C03.t_v3_sum_list (envL (l1.toList ++ l2.toList ++ l3.toList)) = .okS ([l1, l2, l3].foldl (· + ·) V3.zero).toList ∧
    Gen.C03.t_v3_sum_list_ref (envL (l1.toList ++ l2.toList ++ l3.toList)) = .okS (V3.sumRefs id [l1, l2, l3]).toList ∧
    Gen.C03.t_v3_sum_list (envL (l1.toList ++ l2.toList ++ l3.toList)) = .okS (V3.zero + l1 + l2 + l3).toList ∧
    Gen.C03.t_v3_sum_list (envL (l1.toList ++ l2.toList ++ l3.toList)) = .okS [l1.x + l2.x + l3.x, l1.y + l2.y + l3.y, l1.z + l2.z + l3.z] := by
  have hv := Trace.C03Auto.t_v3_sum_list l1 l2 l3
  have hr := Trace.C03Auto.t_v3_sum_list_ref l1 l2 l3
  have hd : V3.sumList [l1, l2, l3] = [l1, l2, l3].foldl (· + ·) V3.zero := (Cg.C17.V3.sumList_spec (R := K) [l1, l2, l3]).1
  have hrefs : V3.sumRefs id [l1, l2, l3] = V3.sumList [l1, l2, l3] := by
    rw [(Cg.C17.sumRefs_eq (α := K) [l1, l2, l3]).2.2.1 id, List.map_id]
  refine ⟨hr.trans hv.symm, by rw [hv, hd], by rw [hr, hrefs], by rw [hv, hd]; rfl, ?_⟩
  rw [hv, hd]; simp [V3.toList, V3.zero, V3.fromValue]

/-- `Vector4`: by-reference and by-value `sum()` as computed agree, are the left fold of `+` from `zero()`, and hence the
component-wise sums -/
theorem code_v4_sum (l1 l2 l3 : V4 K) :
    Gen.C03.t_v4_sum_list_ref (envL (l1.toList ++ l2.toList ++ l3.toList)) = Gen.C03.t_v4_sum_list (envL (l1.toList ++ l2.toList ++ l3.toList)) ∧
    Gen.C03.t_v4_sum_list (envL (l1.toList ++ l2.toList ++ l3.toList)) = .okS ([l1, l2, l3].foldl (· + ·) V4.zero).toList ∧
    Gen.C03.t_v4_sum_list_ref (envL (l1.toList ++ l2.toList ++ l3.toList)) = .okS (V4.sumRefs id [l1, l2, l3]).toList ∧
    Gen.C03.t_v4_sum_list (envL (l1.toList ++ l2.toList ++ l3.toList)) = .okS (V4.zero + l1 + l2 + l3).toList ∧
    Gen.C03.t_v4_sum_list (envL (l1.toList ++ l2.toList ++ l3.toList)) = .okS [l1.x + l2.x + l3.x, l1.y + l2.y + l3.y, l1.z + l2.z + l3.z, l1.w + l2.w + l3.w] := by
  have hv := Trace.C03Auto.t_v4_sum_list l1 l2 l3
  have hr := Trace.C03Auto.t_v4_sum_list_ref l1 l2 l3
  have hd : V4.sumList [l1, l2, l3] = [l1, l2, l3].foldl (· + ·) V4.zero := (Cg.C17.sumList_defs (R := K) [] [l1, l2, l3] [] []).2.1
  have hrefs : V4.sumRefs id [l1, l2, l3] = V4.sumList [l1, l2, l3] := by
    rw [(Cg.C17.sumRefs_eq (α := K) [l1, l2, l3]).2.2.2.1 id, List.map_id]
  refine ⟨hr.trans hv.symm, by rw [hv, hd], by rw [hr, hrefs], by rw [hv, hd]; rfl, ?_⟩
  rw [hv, hd]; simp [V4.toList, V4.zero, V4.fromValue]

/-! ## angles: `Sum` of `Rad` / `Deg`, both forms (`Gen.C13`) -/
/-- `Rad`: by-reference and by-value `sum()` as computed agree and are the model's `Sum` (left fold of `+` from `zero()`) -/
theorem code_rad_sum (l1 l2 l3 : K) :
    Gen.C13.t_rad_sum_list_ref (envL ([l1] ++ [l2] ++ [l3])) = Gen.C13.t_rad_sum_list (envL ([l1] ++ [l2] ++ [l3])) ∧
    Gen.C13.t_rad_sum_list (envL ([l1] ++ [l2] ++ [l3])) = .okS [Rad.sumList [l1, l2, l3]] ∧
    Gen.C13.t_rad_sum_list_ref (envL ([l1] ++ [l2] ++ [l3])) = .okS [Angle.sumRefs id [l1, l2, l3]] ∧
    Gen.C13.t_rad_sum_list (envL ([l1] ++ [l2] ++ [l3])) = .okS [0 + l1 + l2 + l3] := by
  have hv := Trace.C13Auto.t_rad_sum_list l1 l2 l3
  have hr := Trace.C13Auto.t_rad_sum_list_ref l1 l2 l3
  have hd : Rad.sumList [l1, l2, l3] = [l1, l2, l3].foldl (· + ·) 0 := (Cg.C17.angle_sum_spec [l1, l2, l3]).1
  have hrefs : Angle.sumRefs id [l1, l2, l3] = Angle.sum [l1, l2, l3] := by
    rw [(Cg.C17.sumRefs_eq (α := K) [l1, l2, l3]).2.2.2.2.2.2.2.2 id, List.map_id]
  exact ⟨hr.trans hv.symm, by rw [hv, hd], by rw [hr, hrefs]; exact congrArg (fun x => Tr.okS [x]) hd.symm, by rw [hv]; rfl⟩

/-- `Deg`: by-reference and by-value `sum()` as computed agree and are the model's `Sum` (left fold of `+` from `zero()`) -/
theorem code_deg_sum (l1 l2 l3 : K) :
    Gen.C13.t_deg_sum_list_ref (envL ([l1] ++ [l2] ++ [l3])) = Gen.C13.t_deg_sum_list (envL ([l1] ++ [l2] ++ [l3])) ∧
    Gen.C13.t_deg_sum_list (envL ([l1] ++ [l2] ++ [l3])) = .okS [Deg.sumList [l1, l2, l3]] ∧
    Gen.C13.t_deg_sum_list_ref (envL ([l1] ++ [l2] ++ [l3])) = .okS [Angle.sumRefs id [l1, l2, l3]] ∧
    Gen.C13.t_deg_sum_list (envL ([l1] ++ [l2] ++ [l3])) = .okS [0 + l1 + l2 + l3] := by
  have hv := Trace.C13Auto.t_deg_sum_list l1 l2 l3
  have hr := Trace.C13Auto.t_deg_sum_list_ref l1 l2 l3
  have hd : Deg.sumList [l1, l2, l3] = [l1, l2, l3].foldl (· + ·) 0 := (Cg.C17.angle_sum_spec [l1, l2, l3]).2.1
  have hrefs : Angle.sumRefs id [l1, l2, l3] = Angle.sum [l1, l2, l3] := by
    rw [(Cg.C17.sumRefs_eq (α := K) [l1, l2, l3]).2.2.2.2.2.2.2.2 id, List.map_id]
  exact ⟨hr.trans hv.symm, by rw [hv, hd], by rw [hr, hrefs]; exact congrArg (fun x => Tr.okS [x]) hd.symm, by rw [hv]; rfl⟩

/-! ## `Basis2`, `Basis3`: `Product` (`Gen.C17`) -/
/-- `Basis2` (the harness builds each operand from an angle): `product()` as computed is the left fold of `*` from `one()`, its
matrix is the matrix `Product` of the rotation matrices -- the output of the `Matrix2` product kernel run on them -/
theorem code_b2_product (a b c : K) :
    Gen.C17.t_b2_product_list (envL [a, b, c]) =
      .okS ([(⟨M2.fromAngle a⟩ : Basis2 K), ⟨M2.fromAngle b⟩, ⟨M2.fromAngle c⟩].foldl Basis2.mul Basis2.one).mat.toList ∧
    Gen.C17.t_b2_product_list (envL [a, b, c]) =
      .okS (M2.productList [M2.fromAngle a, M2.fromAngle b, M2.fromAngle c]).toList ∧
    Gen.C17.t_b2_product_list (envL [a, b, c]) =
      Gen.C01.t_m2_product_list (envL ((M2.fromAngle a).toList ++ (M2.fromAngle b).toList ++ (M2.fromAngle c).toList)) ∧
    Gen.C17.t_b2_product_list (envL [a, b, c]) = .okS (M2.fromAngle a * M2.fromAngle b * M2.fromAngle c).toList := by
  have hv := Trace.C17Rest.t_b2_product_list a b c
  have hd := (Cg.C17.basis_productList_defs (α := K) [⟨M2.fromAngle a⟩, ⟨M2.fromAngle b⟩, ⟨M2.fromAngle c⟩] []).1
  have hm := Cg.C17.Basis2.productList_eq (α := K) [⟨M2.fromAngle a⟩, ⟨M2.fromAngle b⟩, ⟨M2.fromAngle c⟩]
  have h2 : Gen.C17.t_b2_product_list (envL [a, b, c]) =
      .okS (M2.productList [M2.fromAngle a, M2.fromAngle b, M2.fromAngle c]).toList := by rw [hv, hm]; rfl
  refine ⟨by rw [hv, hd], h2, ?_, ?_⟩
  · rw [h2, Trace.C01Auto.t_m2_product_list]
  · rw [h2, ← Trace.C01Auto.t_m2_product_list]; exact (code_m2_product _ _ _).2.2.2.2

/-- `Basis3` (each operand built from a quaternion): by-reference and by-value `product()` as computed agree, are the left fold
of `*` from `one()`, the model's `productRefs`; the matrix is the output of the `Matrix3` product kernel on the rotation matrices -/
theorem code_b3_product (p q r : Quat K) :
    Gen.C17.t_b3_product_list_ref (envL (p.toList ++ q.toList ++ r.toList)) = Gen.C17.t_b3_product_list (envL (p.toList ++ q.toList ++ r.toList)) ∧
    Gen.C17.t_b3_product_list (envL (p.toList ++ q.toList ++ r.toList)) = .okS ([Basis3.fromQuaternion p, Basis3.fromQuaternion q, Basis3.fromQuaternion r].foldl Basis3.mul Basis3.one).mat.toList ∧
    Gen.C17.t_b3_product_list_ref (envL (p.toList ++ q.toList ++ r.toList)) = .okS (Basis3.productRefs id [Basis3.fromQuaternion p, Basis3.fromQuaternion q, Basis3.fromQuaternion r]).mat.toList ∧
    Gen.C17.t_b3_product_list (envL (p.toList ++ q.toList ++ r.toList)) = .okS (M3.productList [(Basis3.fromQuaternion p).mat, (Basis3.fromQuaternion q).mat, (Basis3.fromQuaternion r).mat]).toList ∧
    Gen.C17.t_b3_product_list (envL (p.toList ++ q.toList ++ r.toList)) =
      Gen.C01.t_m3_product_list (envL ((Basis3.fromQuaternion p).mat.toList ++ (Basis3.fromQuaternion q).mat.toList ++
        (Basis3.fromQuaternion r).mat.toList)) ∧
    Gen.C17.t_b3_product_list (envL (p.toList ++ q.toList ++ r.toList)) =
      .okS ((Basis3.fromQuaternion p).mat * (Basis3.fromQuaternion q).mat * (Basis3.fromQuaternion r).mat).toList := by
  have hv := Trace.C17Rest.t_b3_product_list p q r
  have hr := Trace.C17Rest.t_b3_product_list_ref p q r
  have hd := (Cg.C17.basis_productList_defs (α := K) [] [Basis3.fromQuaternion p, Basis3.fromQuaternion q, Basis3.fromQuaternion r]).2
  have hm := Cg.C17.Basis3.productList_eq (α := K) [Basis3.fromQuaternion p, Basis3.fromQuaternion q, Basis3.fromQuaternion r]
  have hrefs : Basis3.productRefs id [Basis3.fromQuaternion p, Basis3.fromQuaternion q, Basis3.fromQuaternion r] = Basis3.productList [Basis3.fromQuaternion p, Basis3.fromQuaternion q, Basis3.fromQuaternion r] := by
    rw [(Cg.C17.productRefs_eq (α := K) [Basis3.fromQuaternion p, Basis3.fromQuaternion q, Basis3.fromQuaternion r]).2.2.2.2.2 id, List.map_id]
  have h2 : Gen.C17.t_b3_product_list (envL (p.toList ++ q.toList ++ r.toList)) = .okS (M3.productList [(Basis3.fromQuaternion p).mat, (Basis3.fromQuaternion q).mat, (Basis3.fromQuaternion r).mat]).toList := by rw [hv, hm]; rfl
  refine ⟨hr.trans hv.symm, by rw [hv, hd], by rw [hr, hrefs], h2, ?_, ?_⟩
  · rw [h2, Trace.C01Auto.t_m3_product_list]
  · rw [h2, ← Trace.C01Auto.t_m3_product_list]; exact (code_m3_product _ _ _).2.2.2.2

/-- the order matters and the kernels keep it: a concrete instance (rational matrices) where `l1 * l2 ≠ l2 * l1`, so a right fold
or a reversed iteration would be told apart by `code_m2_product` -/
example : M2.productList [(⟨⟨1, 0⟩, ⟨1, 1⟩⟩ : M2 ℚ), ⟨⟨1, 1⟩, ⟨0, 1⟩⟩].reverse ≠
    M2.productList [(⟨⟨1, 0⟩, ⟨1, 1⟩⟩ : M2 ℚ), ⟨⟨1, 1⟩, ⟨0, 1⟩⟩] := Cg.C17.M2.productList_order

end Cg.E2E.C17
