import Cgm.E2E.C18b
import Cgm.Trace.C18OpsX
import Cgm.Lemmas.GuardSem
/-!
# C18, end to end (third part): the approximate-equality relations of `Euler` and `Decomposed<Vector3, Quaternion>`, as computed

GENERATED once by `tools/gen_c18_more.py` from the kernel table `lib/cgv/tracetab_ops3.py`; kept as an ordinary source file.

Same statements as `C18b.lean`, for the two further types all of whose paths are traced: per type and relation
`<t>_<rel>_*_consistent` (which inputs take which path), `<t>_<rel>_exactly_one`, and `code_<t>_<rel>`: the path taken returns
normally one boolean, the model's relation, which is `true` iff the SCALAR relation with the same tolerance arguments holds
on every component pair (`Euler`: `x y z`; `Decomposed`: `scale`, the rotation's `s x y z`, the displacement's `x y z`).
`Basis2` / `Basis3` (two paths traced) have T obligations only (`Cgm/Trace/C18OpsX.lean`).
-/
set_option linter.unusedSectionVars false
set_option linter.unusedVariables false
set_option linter.unusedSimpArgs false
set_option linter.unnecessarySeqFocus false
namespace Cg.E2E.C18
open Cg Cg.Gen.C18 Cg.Trace.C18Rest

section opsx
variable {K : Type} [Field K] [LinearOrder K] [Approx K] [Transc K] [FRem K] [Lits K]

/-! ### `euler.abs_diff_eq` -/
/-- this path is the one taken iff every component pair is within tolerance -/
theorem euler_abs_diff_eq_true_consistent (x1 y1 z1 x2 y2 z2 : K) (e : K) :
    (t_euler_abs_diff_eq_true (envL ([x1, y1, z1, x2, y2, z2] ++ [e]))).Consistent ↔ Approx.absDiffEq x1 x2 e = true ∧ Approx.absDiffEq y1 y2 e = true ∧ Approx.absDiffEq z1 z2 e = true := by
  simp [Tr.Consistent, envL, Quat.toList, V3.toList]
/-- this path is the one taken iff component pair `0` is the first that is not within tolerance -/
theorem euler_abs_diff_eq_false_0_consistent (x1 y1 z1 x2 y2 z2 : K) (e : K) :
    (t_euler_abs_diff_eq_false_0 (envL ([x1, y1, z1, x2, y2, z2] ++ [e]))).Consistent ↔ Approx.absDiffEq x1 x2 e = false := by
  simp [Tr.Consistent, envL, Quat.toList, V3.toList]
/-- this path is the one taken iff component pair `1` is the first that is not within tolerance -/
theorem euler_abs_diff_eq_false_1_consistent (x1 y1 z1 x2 y2 z2 : K) (e : K) :
    (t_euler_abs_diff_eq_false_1 (envL ([x1, y1, z1, x2, y2, z2] ++ [e]))).Consistent ↔ Approx.absDiffEq x1 x2 e = true ∧ Approx.absDiffEq y1 y2 e = false := by
  simp [Tr.Consistent, envL, Quat.toList, V3.toList]
/-- this path is the one taken iff component pair `2` is the first that is not within tolerance -/
theorem euler_abs_diff_eq_false_2_consistent (x1 y1 z1 x2 y2 z2 : K) (e : K) :
    (t_euler_abs_diff_eq_false_2 (envL ([x1, y1, z1, x2, y2, z2] ++ [e]))).Consistent ↔ Approx.absDiffEq x1 x2 e = true ∧ Approx.absDiffEq y1 y2 e = true ∧ Approx.absDiffEq z1 z2 e = false := by
  simp [Tr.Consistent, envL, Quat.toList, V3.toList]
/-- the traced paths of `euler.abs_diff_eq` on the input -/
def eulerAbsDiffEqPaths (x1 y1 z1 x2 y2 z2 : K) (e : K) : List (Tr K) :=
    [t_euler_abs_diff_eq_true (envL ([x1, y1, z1, x2, y2, z2] ++ [e])), t_euler_abs_diff_eq_false_0 (envL ([x1, y1, z1, x2, y2, z2] ++ [e])), t_euler_abs_diff_eq_false_1 (envL ([x1, y1, z1, x2, y2, z2] ++ [e])), t_euler_abs_diff_eq_false_2 (envL ([x1, y1, z1, x2, y2, z2] ++ [e]))]
/-- for every input exactly one of the paths is the one taken -/
theorem euler_abs_diff_eq_exactly_one (x1 y1 z1 x2 y2 z2 : K) (e : K) : Tr.ExactlyOne (eulerAbsDiffEqPaths x1 y1 z1 x2 y2 z2 e) := by
  unfold Tr.ExactlyOne eulerAbsDiffEqPaths
  simp only [List.pairwise_cons, List.mem_cons, List.not_mem_nil, or_false, forall_eq_or_imp, forall_eq, exists_eq_or_imp,
    exists_eq_left, List.Pairwise.nil, and_true, IsEmpty.forall_iff, implies_true, false_imp_iff, exists_false,
    euler_abs_diff_eq_true_consistent, euler_abs_diff_eq_false_0_consistent, euler_abs_diff_eq_false_1_consistent, euler_abs_diff_eq_false_2_consistent]
  generalize Approx.absDiffEq x1 x2 e = r0
  generalize Approx.absDiffEq y1 y2 e = r1
  generalize Approx.absDiffEq z1 z2 e = r2
  cases r0
  · simp
  cases r1
  · simp
  cases r2
  · simp
  simp
/-- **`euler.abs_diff_eq` as computed**: exactly one traced path is taken; the path taken returns normally one boolean, the model's
relation; and that is `true` iff the scalar relation WITH THE SAME TOLERANCE ARGUMENTS holds on every component pair -/
theorem code_euler_abs_diff_eq (x1 y1 z1 x2 y2 z2 : K) (e : K) :
    Tr.ExactlyOne (eulerAbsDiffEqPaths x1 y1 z1 x2 y2 z2 e) ∧
    (∀ t ∈ eulerAbsDiffEqPaths x1 y1 z1 x2 y2 z2 e, t.Consistent → t.res = .ok ∧ t.out = [] ∧ t.bools = [eulerAbsDiffEq (x1, y1, z1) (x2, y2, z2) e]) ∧
    (eulerAbsDiffEq (x1, y1, z1) (x2, y2, z2) e = true ↔ Approx.absDiffEq x1 x2 e = true ∧ Approx.absDiffEq y1 y2 e = true ∧ Approx.absDiffEq z1 z2 e = true) := by
  refine ⟨euler_abs_diff_eq_exactly_one x1 y1 z1 x2 y2 z2 e, ?_, by simp [eulerAbsDiffEq, angleAbsDiffEq, and_assoc]⟩
  intro t ht
  simp only [eulerAbsDiffEqPaths, List.mem_cons, List.not_mem_nil, or_false] at ht
  rcases ht with rfl | rfl | rfl | rfl
  · intro hc
    have ⟨h0, h1, h2⟩ := (euler_abs_diff_eq_true_consistent x1 y1 z1 x2 y2 z2 e).1 hc
    rw [(Trace.C18OpsX.t_euler_abs_diff_eq_true x1 y1 z1 x2 y2 z2 e h0 h1 h2).1]; exact ⟨rfl, rfl, rfl⟩
  · intro hc
    have h0 := (euler_abs_diff_eq_false_0_consistent x1 y1 z1 x2 y2 z2 e).1 hc
    rw [(Trace.C18OpsX.t_euler_abs_diff_eq_false_0 x1 y1 z1 x2 y2 z2 e h0).1]; exact ⟨rfl, rfl, rfl⟩
  · intro hc
    have ⟨h0, h1⟩ := (euler_abs_diff_eq_false_1_consistent x1 y1 z1 x2 y2 z2 e).1 hc
    rw [(Trace.C18OpsX.t_euler_abs_diff_eq_false_1 x1 y1 z1 x2 y2 z2 e h0 h1).1]; exact ⟨rfl, rfl, rfl⟩
  · intro hc
    have ⟨h0, h1, h2⟩ := (euler_abs_diff_eq_false_2_consistent x1 y1 z1 x2 y2 z2 e).1 hc
    rw [(Trace.C18OpsX.t_euler_abs_diff_eq_false_2 x1 y1 z1 x2 y2 z2 e h0 h1 h2).1]; exact ⟨rfl, rfl, rfl⟩

/-! ### `euler.relative_eq` -/
/-- this path is the one taken iff every component pair is within tolerance -/
theorem euler_relative_eq_true_consistent (x1 y1 z1 x2 y2 z2 : K) (e m : K) :
    (t_euler_relative_eq_true (envL ([x1, y1, z1, x2, y2, z2] ++ [e, m]))).Consistent ↔ Approx.relEq x1 x2 e m = true ∧ Approx.relEq y1 y2 e m = true ∧ Approx.relEq z1 z2 e m = true := by
  simp [Tr.Consistent, envL, Quat.toList, V3.toList]
/-- this path is the one taken iff component pair `0` is the first that is not within tolerance -/
theorem euler_relative_eq_false_0_consistent (x1 y1 z1 x2 y2 z2 : K) (e m : K) :
    (t_euler_relative_eq_false_0 (envL ([x1, y1, z1, x2, y2, z2] ++ [e, m]))).Consistent ↔ Approx.relEq x1 x2 e m = false := by
  simp [Tr.Consistent, envL, Quat.toList, V3.toList]
/-- this path is the one taken iff component pair `1` is the first that is not within tolerance -/
theorem euler_relative_eq_false_1_consistent (x1 y1 z1 x2 y2 z2 : K) (e m : K) :
    (t_euler_relative_eq_false_1 (envL ([x1, y1, z1, x2, y2, z2] ++ [e, m]))).Consistent ↔ Approx.relEq x1 x2 e m = true ∧ Approx.relEq y1 y2 e m = false := by
  simp [Tr.Consistent, envL, Quat.toList, V3.toList]
/-- this path is the one taken iff component pair `2` is the first that is not within tolerance -/
theorem euler_relative_eq_false_2_consistent (x1 y1 z1 x2 y2 z2 : K) (e m : K) :
    (t_euler_relative_eq_false_2 (envL ([x1, y1, z1, x2, y2, z2] ++ [e, m]))).Consistent ↔ Approx.relEq x1 x2 e m = true ∧ Approx.relEq y1 y2 e m = true ∧ Approx.relEq z1 z2 e m = false := by
  simp [Tr.Consistent, envL, Quat.toList, V3.toList]
/-- the traced paths of `euler.relative_eq` on the input -/
def eulerRelEqPaths (x1 y1 z1 x2 y2 z2 : K) (e m : K) : List (Tr K) :=
    [t_euler_relative_eq_true (envL ([x1, y1, z1, x2, y2, z2] ++ [e, m])), t_euler_relative_eq_false_0 (envL ([x1, y1, z1, x2, y2, z2] ++ [e, m])), t_euler_relative_eq_false_1 (envL ([x1, y1, z1, x2, y2, z2] ++ [e, m])), t_euler_relative_eq_false_2 (envL ([x1, y1, z1, x2, y2, z2] ++ [e, m]))]
/-- for every input exactly one of the paths is the one taken -/
theorem euler_relative_eq_exactly_one (x1 y1 z1 x2 y2 z2 : K) (e m : K) : Tr.ExactlyOne (eulerRelEqPaths x1 y1 z1 x2 y2 z2 e m) := by
  unfold Tr.ExactlyOne eulerRelEqPaths
  simp only [List.pairwise_cons, List.mem_cons, List.not_mem_nil, or_false, forall_eq_or_imp, forall_eq, exists_eq_or_imp,
    exists_eq_left, List.Pairwise.nil, and_true, IsEmpty.forall_iff, implies_true, false_imp_iff, exists_false,
    euler_relative_eq_true_consistent, euler_relative_eq_false_0_consistent, euler_relative_eq_false_1_consistent, euler_relative_eq_false_2_consistent]
  generalize Approx.relEq x1 x2 e m = r0
  generalize Approx.relEq y1 y2 e m = r1
  generalize Approx.relEq z1 z2 e m = r2
  cases r0
  · simp
  cases r1
  · simp
  cases r2
  · simp
  simp
/-- **`euler.relative_eq` as computed**: exactly one traced path is taken; the path taken returns normally one boolean, the model's
relation; and that is `true` iff the scalar relation WITH THE SAME TOLERANCE ARGUMENTS holds on every component pair -/
theorem code_euler_relative_eq (x1 y1 z1 x2 y2 z2 : K) (e m : K) :
    Tr.ExactlyOne (eulerRelEqPaths x1 y1 z1 x2 y2 z2 e m) ∧
    (∀ t ∈ eulerRelEqPaths x1 y1 z1 x2 y2 z2 e m, t.Consistent → t.res = .ok ∧ t.out = [] ∧ t.bools = [eulerRelEq (x1, y1, z1) (x2, y2, z2) e m]) ∧
    (eulerRelEq (x1, y1, z1) (x2, y2, z2) e m = true ↔ Approx.relEq x1 x2 e m = true ∧ Approx.relEq y1 y2 e m = true ∧ Approx.relEq z1 z2 e m = true) := by
  refine ⟨euler_relative_eq_exactly_one x1 y1 z1 x2 y2 z2 e m, ?_, by simp [eulerRelEq, angleRelEq, and_assoc]⟩
  intro t ht
  simp only [eulerRelEqPaths, List.mem_cons, List.not_mem_nil, or_false] at ht
  rcases ht with rfl | rfl | rfl | rfl
  · intro hc
    have ⟨h0, h1, h2⟩ := (euler_relative_eq_true_consistent x1 y1 z1 x2 y2 z2 e m).1 hc
    rw [(Trace.C18OpsX.t_euler_relative_eq_true x1 y1 z1 x2 y2 z2 e m h0 h1 h2).1]; exact ⟨rfl, rfl, rfl⟩
  · intro hc
    have h0 := (euler_relative_eq_false_0_consistent x1 y1 z1 x2 y2 z2 e m).1 hc
    rw [(Trace.C18OpsX.t_euler_relative_eq_false_0 x1 y1 z1 x2 y2 z2 e m h0).1]; exact ⟨rfl, rfl, rfl⟩
  · intro hc
    have ⟨h0, h1⟩ := (euler_relative_eq_false_1_consistent x1 y1 z1 x2 y2 z2 e m).1 hc
    rw [(Trace.C18OpsX.t_euler_relative_eq_false_1 x1 y1 z1 x2 y2 z2 e m h0 h1).1]; exact ⟨rfl, rfl, rfl⟩
  · intro hc
    have ⟨h0, h1, h2⟩ := (euler_relative_eq_false_2_consistent x1 y1 z1 x2 y2 z2 e m).1 hc
    rw [(Trace.C18OpsX.t_euler_relative_eq_false_2 x1 y1 z1 x2 y2 z2 e m h0 h1 h2).1]; exact ⟨rfl, rfl, rfl⟩

/-! ### `euler.ulps_eq` -/
/-- this path is the one taken iff every component pair is within tolerance -/
theorem euler_ulps_eq_true_consistent (x1 y1 z1 x2 y2 z2 : K) (e : K) :
    (t_euler_ulps_eq_true (envL ([x1, y1, z1, x2, y2, z2] ++ [e]))).Consistent ↔ Approx.ulpsEq x1 x2 e 4 = true ∧ Approx.ulpsEq y1 y2 e 4 = true ∧ Approx.ulpsEq z1 z2 e 4 = true := by
  simp [Tr.Consistent, envL, Quat.toList, V3.toList]
/-- this path is the one taken iff component pair `0` is the first that is not within tolerance -/
theorem euler_ulps_eq_false_0_consistent (x1 y1 z1 x2 y2 z2 : K) (e : K) :
    (t_euler_ulps_eq_false_0 (envL ([x1, y1, z1, x2, y2, z2] ++ [e]))).Consistent ↔ Approx.ulpsEq x1 x2 e 4 = false := by
  simp [Tr.Consistent, envL, Quat.toList, V3.toList]
/-- this path is the one taken iff component pair `1` is the first that is not within tolerance -/
theorem euler_ulps_eq_false_1_consistent (x1 y1 z1 x2 y2 z2 : K) (e : K) :
    (t_euler_ulps_eq_false_1 (envL ([x1, y1, z1, x2, y2, z2] ++ [e]))).Consistent ↔ Approx.ulpsEq x1 x2 e 4 = true ∧ Approx.ulpsEq y1 y2 e 4 = false := by
  simp [Tr.Consistent, envL, Quat.toList, V3.toList]
/-- this path is the one taken iff component pair `2` is the first that is not within tolerance -/
theorem euler_ulps_eq_false_2_consistent (x1 y1 z1 x2 y2 z2 : K) (e : K) :
    (t_euler_ulps_eq_false_2 (envL ([x1, y1, z1, x2, y2, z2] ++ [e]))).Consistent ↔ Approx.ulpsEq x1 x2 e 4 = true ∧ Approx.ulpsEq y1 y2 e 4 = true ∧ Approx.ulpsEq z1 z2 e 4 = false := by
  simp [Tr.Consistent, envL, Quat.toList, V3.toList]
/-- the traced paths of `euler.ulps_eq` on the input -/
def eulerUlpsEqPaths (x1 y1 z1 x2 y2 z2 : K) (e : K) : List (Tr K) :=
    [t_euler_ulps_eq_true (envL ([x1, y1, z1, x2, y2, z2] ++ [e])), t_euler_ulps_eq_false_0 (envL ([x1, y1, z1, x2, y2, z2] ++ [e])), t_euler_ulps_eq_false_1 (envL ([x1, y1, z1, x2, y2, z2] ++ [e])), t_euler_ulps_eq_false_2 (envL ([x1, y1, z1, x2, y2, z2] ++ [e]))]
/-- for every input exactly one of the paths is the one taken -/
theorem euler_ulps_eq_exactly_one (x1 y1 z1 x2 y2 z2 : K) (e : K) : Tr.ExactlyOne (eulerUlpsEqPaths x1 y1 z1 x2 y2 z2 e) := by
  unfold Tr.ExactlyOne eulerUlpsEqPaths
  simp only [List.pairwise_cons, List.mem_cons, List.not_mem_nil, or_false, forall_eq_or_imp, forall_eq, exists_eq_or_imp,
    exists_eq_left, List.Pairwise.nil, and_true, IsEmpty.forall_iff, implies_true, false_imp_iff, exists_false,
    euler_ulps_eq_true_consistent, euler_ulps_eq_false_0_consistent, euler_ulps_eq_false_1_consistent, euler_ulps_eq_false_2_consistent]
  generalize Approx.ulpsEq x1 x2 e 4 = r0
  generalize Approx.ulpsEq y1 y2 e 4 = r1
  generalize Approx.ulpsEq z1 z2 e 4 = r2
  cases r0
  · simp
  cases r1
  · simp
  cases r2
  · simp
  simp
/-- **`euler.ulps_eq` as computed**: exactly one traced path is taken; the path taken returns normally one boolean, the model's
relation; and that is `true` iff the scalar relation WITH THE SAME TOLERANCE ARGUMENTS holds on every component pair -/
theorem code_euler_ulps_eq (x1 y1 z1 x2 y2 z2 : K) (e : K) :
    Tr.ExactlyOne (eulerUlpsEqPaths x1 y1 z1 x2 y2 z2 e) ∧
    (∀ t ∈ eulerUlpsEqPaths x1 y1 z1 x2 y2 z2 e, t.Consistent → t.res = .ok ∧ t.out = [] ∧ t.bools = [eulerUlpsEq (x1, y1, z1) (x2, y2, z2) e 4]) ∧
    (eulerUlpsEq (x1, y1, z1) (x2, y2, z2) e 4 = true ↔ Approx.ulpsEq x1 x2 e 4 = true ∧ Approx.ulpsEq y1 y2 e 4 = true ∧ Approx.ulpsEq z1 z2 e 4 = true) := by
  refine ⟨euler_ulps_eq_exactly_one x1 y1 z1 x2 y2 z2 e, ?_, by simp [eulerUlpsEq, angleUlpsEq, and_assoc]⟩
  intro t ht
  simp only [eulerUlpsEqPaths, List.mem_cons, List.not_mem_nil, or_false] at ht
  rcases ht with rfl | rfl | rfl | rfl
  · intro hc
    have ⟨h0, h1, h2⟩ := (euler_ulps_eq_true_consistent x1 y1 z1 x2 y2 z2 e).1 hc
    rw [(Trace.C18OpsX.t_euler_ulps_eq_true x1 y1 z1 x2 y2 z2 e h0 h1 h2).1]; exact ⟨rfl, rfl, rfl⟩
  · intro hc
    have h0 := (euler_ulps_eq_false_0_consistent x1 y1 z1 x2 y2 z2 e).1 hc
    rw [(Trace.C18OpsX.t_euler_ulps_eq_false_0 x1 y1 z1 x2 y2 z2 e h0).1]; exact ⟨rfl, rfl, rfl⟩
  · intro hc
    have ⟨h0, h1⟩ := (euler_ulps_eq_false_1_consistent x1 y1 z1 x2 y2 z2 e).1 hc
    rw [(Trace.C18OpsX.t_euler_ulps_eq_false_1 x1 y1 z1 x2 y2 z2 e h0 h1).1]; exact ⟨rfl, rfl, rfl⟩
  · intro hc
    have ⟨h0, h1, h2⟩ := (euler_ulps_eq_false_2_consistent x1 y1 z1 x2 y2 z2 e).1 hc
    rw [(Trace.C18OpsX.t_euler_ulps_eq_false_2 x1 y1 z1 x2 y2 z2 e h0 h1 h2).1]; exact ⟨rfl, rfl, rfl⟩

/-! ### `dq.abs_diff_eq` -/
/-- this path is the one taken iff every component pair is within tolerance -/
theorem dq_abs_diff_eq_true_consistent (a b : Decomposed (Quat K) (V3 K) K) (e : K) :
    (t_dq_abs_diff_eq_true (envL ([a.scale] ++ a.rot.toList ++ a.disp.toList ++ ([b.scale] ++ b.rot.toList ++ b.disp.toList) ++ [e]))).Consistent ↔ Approx.absDiffEq a.scale b.scale e = true ∧ Approx.absDiffEq a.rot.s b.rot.s e = true ∧ Approx.absDiffEq a.rot.v.x b.rot.v.x e = true ∧ Approx.absDiffEq a.rot.v.y b.rot.v.y e = true ∧ Approx.absDiffEq a.rot.v.z b.rot.v.z e = true ∧ Approx.absDiffEq a.disp.x b.disp.x e = true ∧ Approx.absDiffEq a.disp.y b.disp.y e = true ∧ Approx.absDiffEq a.disp.z b.disp.z e = true := by
  simp [Tr.Consistent, envL, Quat.toList, V3.toList]
/-- this path is the one taken iff component pair `0` is the first that is not within tolerance -/
theorem dq_abs_diff_eq_false_0_consistent (a b : Decomposed (Quat K) (V3 K) K) (e : K) :
    (t_dq_abs_diff_eq_false_0 (envL ([a.scale] ++ a.rot.toList ++ a.disp.toList ++ ([b.scale] ++ b.rot.toList ++ b.disp.toList) ++ [e]))).Consistent ↔ Approx.absDiffEq a.scale b.scale e = false := by
  simp [Tr.Consistent, envL, Quat.toList, V3.toList]
/-- this path is the one taken iff component pair `1` is the first that is not within tolerance -/
theorem dq_abs_diff_eq_false_1_consistent (a b : Decomposed (Quat K) (V3 K) K) (e : K) :
    (t_dq_abs_diff_eq_false_1 (envL ([a.scale] ++ a.rot.toList ++ a.disp.toList ++ ([b.scale] ++ b.rot.toList ++ b.disp.toList) ++ [e]))).Consistent ↔ Approx.absDiffEq a.scale b.scale e = true ∧ Approx.absDiffEq a.rot.s b.rot.s e = false := by
  simp [Tr.Consistent, envL, Quat.toList, V3.toList]
/-- this path is the one taken iff component pair `2` is the first that is not within tolerance -/
theorem dq_abs_diff_eq_false_2_consistent (a b : Decomposed (Quat K) (V3 K) K) (e : K) :
    (t_dq_abs_diff_eq_false_2 (envL ([a.scale] ++ a.rot.toList ++ a.disp.toList ++ ([b.scale] ++ b.rot.toList ++ b.disp.toList) ++ [e]))).Consistent ↔ Approx.absDiffEq a.scale b.scale e = true ∧ Approx.absDiffEq a.rot.s b.rot.s e = true ∧ Approx.absDiffEq a.rot.v.x b.rot.v.x e = false := by
  simp [Tr.Consistent, envL, Quat.toList, V3.toList]
/-- this path is the one taken iff component pair `3` is the first that is not within tolerance -/
theorem dq_abs_diff_eq_false_3_consistent (a b : Decomposed (Quat K) (V3 K) K) (e : K) :
    (t_dq_abs_diff_eq_false_3 (envL ([a.scale] ++ a.rot.toList ++ a.disp.toList ++ ([b.scale] ++ b.rot.toList ++ b.disp.toList) ++ [e]))).Consistent ↔ Approx.absDiffEq a.scale b.scale e = true ∧ Approx.absDiffEq a.rot.s b.rot.s e = true ∧ Approx.absDiffEq a.rot.v.x b.rot.v.x e = true ∧ Approx.absDiffEq a.rot.v.y b.rot.v.y e = false := by
  simp [Tr.Consistent, envL, Quat.toList, V3.toList]
/-- this path is the one taken iff component pair `4` is the first that is not within tolerance -/
theorem dq_abs_diff_eq_false_4_consistent (a b : Decomposed (Quat K) (V3 K) K) (e : K) :
    (t_dq_abs_diff_eq_false_4 (envL ([a.scale] ++ a.rot.toList ++ a.disp.toList ++ ([b.scale] ++ b.rot.toList ++ b.disp.toList) ++ [e]))).Consistent ↔ Approx.absDiffEq a.scale b.scale e = true ∧ Approx.absDiffEq a.rot.s b.rot.s e = true ∧ Approx.absDiffEq a.rot.v.x b.rot.v.x e = true ∧ Approx.absDiffEq a.rot.v.y b.rot.v.y e = true ∧ Approx.absDiffEq a.rot.v.z b.rot.v.z e = false := by
  simp [Tr.Consistent, envL, Quat.toList, V3.toList]
/-- this path is the one taken iff component pair `5` is the first that is not within tolerance -/
theorem dq_abs_diff_eq_false_5_consistent (a b : Decomposed (Quat K) (V3 K) K) (e : K) :
    (t_dq_abs_diff_eq_false_5 (envL ([a.scale] ++ a.rot.toList ++ a.disp.toList ++ ([b.scale] ++ b.rot.toList ++ b.disp.toList) ++ [e]))).Consistent ↔ Approx.absDiffEq a.scale b.scale e = true ∧ Approx.absDiffEq a.rot.s b.rot.s e = true ∧ Approx.absDiffEq a.rot.v.x b.rot.v.x e = true ∧ Approx.absDiffEq a.rot.v.y b.rot.v.y e = true ∧ Approx.absDiffEq a.rot.v.z b.rot.v.z e = true ∧ Approx.absDiffEq a.disp.x b.disp.x e = false := by
  simp [Tr.Consistent, envL, Quat.toList, V3.toList]
/-- this path is the one taken iff component pair `6` is the first that is not within tolerance -/
theorem dq_abs_diff_eq_false_6_consistent (a b : Decomposed (Quat K) (V3 K) K) (e : K) :
    (t_dq_abs_diff_eq_false_6 (envL ([a.scale] ++ a.rot.toList ++ a.disp.toList ++ ([b.scale] ++ b.rot.toList ++ b.disp.toList) ++ [e]))).Consistent ↔ Approx.absDiffEq a.scale b.scale e = true ∧ Approx.absDiffEq a.rot.s b.rot.s e = true ∧ Approx.absDiffEq a.rot.v.x b.rot.v.x e = true ∧ Approx.absDiffEq a.rot.v.y b.rot.v.y e = true ∧ Approx.absDiffEq a.rot.v.z b.rot.v.z e = true ∧ Approx.absDiffEq a.disp.x b.disp.x e = true ∧ Approx.absDiffEq a.disp.y b.disp.y e = false := by
  simp [Tr.Consistent, envL, Quat.toList, V3.toList]
/-- this path is the one taken iff component pair `7` is the first that is not within tolerance -/
theorem dq_abs_diff_eq_false_7_consistent (a b : Decomposed (Quat K) (V3 K) K) (e : K) :
    (t_dq_abs_diff_eq_false_7 (envL ([a.scale] ++ a.rot.toList ++ a.disp.toList ++ ([b.scale] ++ b.rot.toList ++ b.disp.toList) ++ [e]))).Consistent ↔ Approx.absDiffEq a.scale b.scale e = true ∧ Approx.absDiffEq a.rot.s b.rot.s e = true ∧ Approx.absDiffEq a.rot.v.x b.rot.v.x e = true ∧ Approx.absDiffEq a.rot.v.y b.rot.v.y e = true ∧ Approx.absDiffEq a.rot.v.z b.rot.v.z e = true ∧ Approx.absDiffEq a.disp.x b.disp.x e = true ∧ Approx.absDiffEq a.disp.y b.disp.y e = true ∧ Approx.absDiffEq a.disp.z b.disp.z e = false := by
  simp [Tr.Consistent, envL, Quat.toList, V3.toList]
/-- the traced paths of `dq.abs_diff_eq` on the input -/
def dqAbsDiffEqPaths (a b : Decomposed (Quat K) (V3 K) K) (e : K) : List (Tr K) :=
    [t_dq_abs_diff_eq_true (envL ([a.scale] ++ a.rot.toList ++ a.disp.toList ++ ([b.scale] ++ b.rot.toList ++ b.disp.toList) ++ [e])), t_dq_abs_diff_eq_false_0 (envL ([a.scale] ++ a.rot.toList ++ a.disp.toList ++ ([b.scale] ++ b.rot.toList ++ b.disp.toList) ++ [e])), t_dq_abs_diff_eq_false_1 (envL ([a.scale] ++ a.rot.toList ++ a.disp.toList ++ ([b.scale] ++ b.rot.toList ++ b.disp.toList) ++ [e])), t_dq_abs_diff_eq_false_2 (envL ([a.scale] ++ a.rot.toList ++ a.disp.toList ++ ([b.scale] ++ b.rot.toList ++ b.disp.toList) ++ [e])), t_dq_abs_diff_eq_false_3 (envL ([a.scale] ++ a.rot.toList ++ a.disp.toList ++ ([b.scale] ++ b.rot.toList ++ b.disp.toList) ++ [e])), t_dq_abs_diff_eq_false_4 (envL ([a.scale] ++ a.rot.toList ++ a.disp.toList ++ ([b.scale] ++ b.rot.toList ++ b.disp.toList) ++ [e])), t_dq_abs_diff_eq_false_5 (envL ([a.scale] ++ a.rot.toList ++ a.disp.toList ++ ([b.scale] ++ b.rot.toList ++ b.disp.toList) ++ [e])), t_dq_abs_diff_eq_false_6 (envL ([a.scale] ++ a.rot.toList ++ a.disp.toList ++ ([b.scale] ++ b.rot.toList ++ b.disp.toList) ++ [e])), t_dq_abs_diff_eq_false_7 (envL ([a.scale] ++ a.rot.toList ++ a.disp.toList ++ ([b.scale] ++ b.rot.toList ++ b.disp.toList) ++ [e]))]
/-- for every input exactly one of the paths is the one taken -/
theorem dq_abs_diff_eq_exactly_one (a b : Decomposed (Quat K) (V3 K) K) (e : K) : Tr.ExactlyOne (dqAbsDiffEqPaths a b e) := by
  unfold Tr.ExactlyOne dqAbsDiffEqPaths
  simp only [List.pairwise_cons, List.mem_cons, List.not_mem_nil, or_false, forall_eq_or_imp, forall_eq, exists_eq_or_imp,
    exists_eq_left, List.Pairwise.nil, and_true, IsEmpty.forall_iff, implies_true, false_imp_iff, exists_false,
    dq_abs_diff_eq_true_consistent, dq_abs_diff_eq_false_0_consistent, dq_abs_diff_eq_false_1_consistent, dq_abs_diff_eq_false_2_consistent, dq_abs_diff_eq_false_3_consistent, dq_abs_diff_eq_false_4_consistent, dq_abs_diff_eq_false_5_consistent, dq_abs_diff_eq_false_6_consistent, dq_abs_diff_eq_false_7_consistent]
  generalize Approx.absDiffEq a.scale b.scale e = r0
  generalize Approx.absDiffEq a.rot.s b.rot.s e = r1
  generalize Approx.absDiffEq a.rot.v.x b.rot.v.x e = r2
  generalize Approx.absDiffEq a.rot.v.y b.rot.v.y e = r3
  generalize Approx.absDiffEq a.rot.v.z b.rot.v.z e = r4
  generalize Approx.absDiffEq a.disp.x b.disp.x e = r5
  generalize Approx.absDiffEq a.disp.y b.disp.y e = r6
  generalize Approx.absDiffEq a.disp.z b.disp.z e = r7
  cases r0
  · simp
  cases r1
  · simp
  cases r2
  · simp
  cases r3
  · simp
  cases r4
  · simp
  cases r5
  · simp
  cases r6
  · simp
  cases r7
  · simp
  simp
/-- **`dq.abs_diff_eq` as computed**: exactly one traced path is taken; the path taken returns normally one boolean, the model's
relation; and that is `true` iff the scalar relation WITH THE SAME TOLERANCE ARGUMENTS holds on every component pair -/
theorem code_dq_abs_diff_eq (a b : Decomposed (Quat K) (V3 K) K) (e : K) :
    Tr.ExactlyOne (dqAbsDiffEqPaths a b e) ∧
    (∀ t ∈ dqAbsDiffEqPaths a b e, t.Consistent → t.res = .ok ∧ t.out = [] ∧ t.bools = [Decomposed.absDiffEq Quat.absDiffEq V3.absDiffEq a b e]) ∧
    (Decomposed.absDiffEq Quat.absDiffEq V3.absDiffEq a b e = true ↔ Approx.absDiffEq a.scale b.scale e = true ∧ Approx.absDiffEq a.rot.s b.rot.s e = true ∧ Approx.absDiffEq a.rot.v.x b.rot.v.x e = true ∧ Approx.absDiffEq a.rot.v.y b.rot.v.y e = true ∧ Approx.absDiffEq a.rot.v.z b.rot.v.z e = true ∧ Approx.absDiffEq a.disp.x b.disp.x e = true ∧ Approx.absDiffEq a.disp.y b.disp.y e = true ∧ Approx.absDiffEq a.disp.z b.disp.z e = true) := by
  refine ⟨dq_abs_diff_eq_exactly_one a b e, ?_, by simp [Decomposed.absDiffEq, Quat.absDiffEq, V3.absDiffEq, Quat.toList, V3.toList, and_assoc]⟩
  intro t ht
  simp only [dqAbsDiffEqPaths, List.mem_cons, List.not_mem_nil, or_false] at ht
  rcases ht with rfl | rfl | rfl | rfl | rfl | rfl | rfl | rfl | rfl
  · intro hc
    have ⟨h0, h1, h2, h3, h4, h5, h6, h7⟩ := (dq_abs_diff_eq_true_consistent a b e).1 hc
    rw [(Trace.C18OpsX.t_dq_abs_diff_eq_true a b e h0 h1 h2 h3 h4 h5 h6 h7).1]; exact ⟨rfl, rfl, rfl⟩
  · intro hc
    have h0 := (dq_abs_diff_eq_false_0_consistent a b e).1 hc
    rw [(Trace.C18OpsX.t_dq_abs_diff_eq_false_0 a b e h0).1]; exact ⟨rfl, rfl, rfl⟩
  · intro hc
    have ⟨h0, h1⟩ := (dq_abs_diff_eq_false_1_consistent a b e).1 hc
    rw [(Trace.C18OpsX.t_dq_abs_diff_eq_false_1 a b e h0 h1).1]; exact ⟨rfl, rfl, rfl⟩
  · intro hc
    have ⟨h0, h1, h2⟩ := (dq_abs_diff_eq_false_2_consistent a b e).1 hc
    rw [(Trace.C18OpsX.t_dq_abs_diff_eq_false_2 a b e h0 h1 h2).1]; exact ⟨rfl, rfl, rfl⟩
  · intro hc
    have ⟨h0, h1, h2, h3⟩ := (dq_abs_diff_eq_false_3_consistent a b e).1 hc
    rw [(Trace.C18OpsX.t_dq_abs_diff_eq_false_3 a b e h0 h1 h2 h3).1]; exact ⟨rfl, rfl, rfl⟩
  · intro hc
    have ⟨h0, h1, h2, h3, h4⟩ := (dq_abs_diff_eq_false_4_consistent a b e).1 hc
    rw [(Trace.C18OpsX.t_dq_abs_diff_eq_false_4 a b e h0 h1 h2 h3 h4).1]; exact ⟨rfl, rfl, rfl⟩
  · intro hc
    have ⟨h0, h1, h2, h3, h4, h5⟩ := (dq_abs_diff_eq_false_5_consistent a b e).1 hc
    rw [(Trace.C18OpsX.t_dq_abs_diff_eq_false_5 a b e h0 h1 h2 h3 h4 h5).1]; exact ⟨rfl, rfl, rfl⟩
  · intro hc
    have ⟨h0, h1, h2, h3, h4, h5, h6⟩ := (dq_abs_diff_eq_false_6_consistent a b e).1 hc
    rw [(Trace.C18OpsX.t_dq_abs_diff_eq_false_6 a b e h0 h1 h2 h3 h4 h5 h6).1]; exact ⟨rfl, rfl, rfl⟩
  · intro hc
    have ⟨h0, h1, h2, h3, h4, h5, h6, h7⟩ := (dq_abs_diff_eq_false_7_consistent a b e).1 hc
    rw [(Trace.C18OpsX.t_dq_abs_diff_eq_false_7 a b e h0 h1 h2 h3 h4 h5 h6 h7).1]; exact ⟨rfl, rfl, rfl⟩

/-! ### `dq.relative_eq` -/
/-- this path is the one taken iff every component pair is within tolerance -/
theorem dq_relative_eq_true_consistent (a b : Decomposed (Quat K) (V3 K) K) (e m : K) :
    (t_dq_relative_eq_true (envL ([a.scale] ++ a.rot.toList ++ a.disp.toList ++ ([b.scale] ++ b.rot.toList ++ b.disp.toList) ++ [e, m]))).Consistent ↔ Approx.relEq a.scale b.scale e m = true ∧ Approx.relEq a.rot.s b.rot.s e m = true ∧ Approx.relEq a.rot.v.x b.rot.v.x e m = true ∧ Approx.relEq a.rot.v.y b.rot.v.y e m = true ∧ Approx.relEq a.rot.v.z b.rot.v.z e m = true ∧ Approx.relEq a.disp.x b.disp.x e m = true ∧ Approx.relEq a.disp.y b.disp.y e m = true ∧ Approx.relEq a.disp.z b.disp.z e m = true := by
  simp [Tr.Consistent, envL, Quat.toList, V3.toList]
/-- this path is the one taken iff component pair `0` is the first that is not within tolerance -/
theorem dq_relative_eq_false_0_consistent (a b : Decomposed (Quat K) (V3 K) K) (e m : K) :
    (t_dq_relative_eq_false_0 (envL ([a.scale] ++ a.rot.toList ++ a.disp.toList ++ ([b.scale] ++ b.rot.toList ++ b.disp.toList) ++ [e, m]))).Consistent ↔ Approx.relEq a.scale b.scale e m = false := by
  simp [Tr.Consistent, envL, Quat.toList, V3.toList]
/-- this path is the one taken iff component pair `1` is the first that is not within tolerance -/
theorem dq_relative_eq_false_1_consistent (a b : Decomposed (Quat K) (V3 K) K) (e m : K) :
    (t_dq_relative_eq_false_1 (envL ([a.scale] ++ a.rot.toList ++ a.disp.toList ++ ([b.scale] ++ b.rot.toList ++ b.disp.toList) ++ [e, m]))).Consistent ↔ Approx.relEq a.scale b.scale e m = true ∧ Approx.relEq a.rot.s b.rot.s e m = false := by
  simp [Tr.Consistent, envL, Quat.toList, V3.toList]
/-- this path is the one taken iff component pair `2` is the first that is not within tolerance -/
theorem dq_relative_eq_false_2_consistent (a b : Decomposed (Quat K) (V3 K) K) (e m : K) :
    (t_dq_relative_eq_false_2 (envL ([a.scale] ++ a.rot.toList ++ a.disp.toList ++ ([b.scale] ++ b.rot.toList ++ b.disp.toList) ++ [e, m]))).Consistent ↔ Approx.relEq a.scale b.scale e m = true ∧ Approx.relEq a.rot.s b.rot.s e m = true ∧ Approx.relEq a.rot.v.x b.rot.v.x e m = false := by
  simp [Tr.Consistent, envL, Quat.toList, V3.toList]
/-- this path is the one taken iff component pair `3` is the first that is not within tolerance -/
theorem dq_relative_eq_false_3_consistent (a b : Decomposed (Quat K) (V3 K) K) (e m : K) :
    (t_dq_relative_eq_false_3 (envL ([a.scale] ++ a.rot.toList ++ a.disp.toList ++ ([b.scale] ++ b.rot.toList ++ b.disp.toList) ++ [e, m]))).Consistent ↔ Approx.relEq a.scale b.scale e m = true ∧ Approx.relEq a.rot.s b.rot.s e m = true ∧ Approx.relEq a.rot.v.x b.rot.v.x e m = true ∧ Approx.relEq a.rot.v.y b.rot.v.y e m = false := by
  simp [Tr.Consistent, envL, Quat.toList, V3.toList]
/-- this path is the one taken iff component pair `4` is the first that is not within tolerance -/
theorem dq_relative_eq_false_4_consistent (a b : Decomposed (Quat K) (V3 K) K) (e m : K) :
    (t_dq_relative_eq_false_4 (envL ([a.scale] ++ a.rot.toList ++ a.disp.toList ++ ([b.scale] ++ b.rot.toList ++ b.disp.toList) ++ [e, m]))).Consistent ↔ Approx.relEq a.scale b.scale e m = true ∧ Approx.relEq a.rot.s b.rot.s e m = true ∧ Approx.relEq a.rot.v.x b.rot.v.x e m = true ∧ Approx.relEq a.rot.v.y b.rot.v.y e m = true ∧ Approx.relEq a.rot.v.z b.rot.v.z e m = false := by
  simp [Tr.Consistent, envL, Quat.toList, V3.toList]
/-- this path is the one taken iff component pair `5` is the first that is not within tolerance -/
theorem dq_relative_eq_false_5_consistent (a b : Decomposed (Quat K) (V3 K) K) (e m : K) :
    (t_dq_relative_eq_false_5 (envL ([a.scale] ++ a.rot.toList ++ a.disp.toList ++ ([b.scale] ++ b.rot.toList ++ b.disp.toList) ++ [e, m]))).Consistent ↔ Approx.relEq a.scale b.scale e m = true ∧ Approx.relEq a.rot.s b.rot.s e m = true ∧ Approx.relEq a.rot.v.x b.rot.v.x e m = true ∧ Approx.relEq a.rot.v.y b.rot.v.y e m = true ∧ Approx.relEq a.rot.v.z b.rot.v.z e m = true ∧ Approx.relEq a.disp.x b.disp.x e m = false := by
  simp [Tr.Consistent, envL, Quat.toList, V3.toList]
/-- this path is the one taken iff component pair `6` is the first that is not within tolerance -/
theorem dq_relative_eq_false_6_consistent (a b : Decomposed (Quat K) (V3 K) K) (e m : K) :
    (t_dq_relative_eq_false_6 (envL ([a.scale] ++ a.rot.toList ++ a.disp.toList ++ ([b.scale] ++ b.rot.toList ++ b.disp.toList) ++ [e, m]))).Consistent ↔ Approx.relEq a.scale b.scale e m = true ∧ Approx.relEq a.rot.s b.rot.s e m = true ∧ Approx.relEq a.rot.v.x b.rot.v.x e m = true ∧ Approx.relEq a.rot.v.y b.rot.v.y e m = true ∧ Approx.relEq a.rot.v.z b.rot.v.z e m = true ∧ Approx.relEq a.disp.x b.disp.x e m = true ∧ Approx.relEq a.disp.y b.disp.y e m = false := by
  simp [Tr.Consistent, envL, Quat.toList, V3.toList]
/-- this path is the one taken iff component pair `7` is the first that is not within tolerance -/
theorem dq_relative_eq_false_7_consistent (a b : Decomposed (Quat K) (V3 K) K) (e m : K) :
    (t_dq_relative_eq_false_7 (envL ([a.scale] ++ a.rot.toList ++ a.disp.toList ++ ([b.scale] ++ b.rot.toList ++ b.disp.toList) ++ [e, m]))).Consistent ↔ Approx.relEq a.scale b.scale e m = true ∧ Approx.relEq a.rot.s b.rot.s e m = true ∧ Approx.relEq a.rot.v.x b.rot.v.x e m = true ∧ Approx.relEq a.rot.v.y b.rot.v.y e m = true ∧ Approx.relEq a.rot.v.z b.rot.v.z e m = true ∧ Approx.relEq a.disp.x b.disp.x e m = true ∧ Approx.relEq a.disp.y b.disp.y e m = true ∧ Approx.relEq a.disp.z b.disp.z e m = false := by
  simp [Tr.Consistent, envL, Quat.toList, V3.toList]
/-- the traced paths of `dq.relative_eq` on the input -/
def dqRelEqPaths (a b : Decomposed (Quat K) (V3 K) K) (e m : K) : List (Tr K) :=
    [t_dq_relative_eq_true (envL ([a.scale] ++ a.rot.toList ++ a.disp.toList ++ ([b.scale] ++ b.rot.toList ++ b.disp.toList) ++ [e, m])), t_dq_relative_eq_false_0 (envL ([a.scale] ++ a.rot.toList ++ a.disp.toList ++ ([b.scale] ++ b.rot.toList ++ b.disp.toList) ++ [e, m])), t_dq_relative_eq_false_1 (envL ([a.scale] ++ a.rot.toList ++ a.disp.toList ++ ([b.scale] ++ b.rot.toList ++ b.disp.toList) ++ [e, m])), t_dq_relative_eq_false_2 (envL ([a.scale] ++ a.rot.toList ++ a.disp.toList ++ ([b.scale] ++ b.rot.toList ++ b.disp.toList) ++ [e, m])), t_dq_relative_eq_false_3 (envL ([a.scale] ++ a.rot.toList ++ a.disp.toList ++ ([b.scale] ++ b.rot.toList ++ b.disp.toList) ++ [e, m])), t_dq_relative_eq_false_4 (envL ([a.scale] ++ a.rot.toList ++ a.disp.toList ++ ([b.scale] ++ b.rot.toList ++ b.disp.toList) ++ [e, m])), t_dq_relative_eq_false_5 (envL ([a.scale] ++ a.rot.toList ++ a.disp.toList ++ ([b.scale] ++ b.rot.toList ++ b.disp.toList) ++ [e, m])), t_dq_relative_eq_false_6 (envL ([a.scale] ++ a.rot.toList ++ a.disp.toList ++ ([b.scale] ++ b.rot.toList ++ b.disp.toList) ++ [e, m])), t_dq_relative_eq_false_7 (envL ([a.scale] ++ a.rot.toList ++ a.disp.toList ++ ([b.scale] ++ b.rot.toList ++ b.disp.toList) ++ [e, m]))]
/-- for every input exactly one of the paths is the one taken -/
theorem dq_relative_eq_exactly_one (a b : Decomposed (Quat K) (V3 K) K) (e m : K) : Tr.ExactlyOne (dqRelEqPaths a b e m) := by
  unfold Tr.ExactlyOne dqRelEqPaths
  simp only [List.pairwise_cons, List.mem_cons, List.not_mem_nil, or_false, forall_eq_or_imp, forall_eq, exists_eq_or_imp,
    exists_eq_left, List.Pairwise.nil, and_true, IsEmpty.forall_iff, implies_true, false_imp_iff, exists_false,
    dq_relative_eq_true_consistent, dq_relative_eq_false_0_consistent, dq_relative_eq_false_1_consistent, dq_relative_eq_false_2_consistent, dq_relative_eq_false_3_consistent, dq_relative_eq_false_4_consistent, dq_relative_eq_false_5_consistent, dq_relative_eq_false_6_consistent, dq_relative_eq_false_7_consistent]
  generalize Approx.relEq a.scale b.scale e m = r0
  generalize Approx.relEq a.rot.s b.rot.s e m = r1
  generalize Approx.relEq a.rot.v.x b.rot.v.x e m = r2
  generalize Approx.relEq a.rot.v.y b.rot.v.y e m = r3
  generalize Approx.relEq a.rot.v.z b.rot.v.z e m = r4
  generalize Approx.relEq a.disp.x b.disp.x e m = r5
  generalize Approx.relEq a.disp.y b.disp.y e m = r6
  generalize Approx.relEq a.disp.z b.disp.z e m = r7
  cases r0
  · simp
  cases r1
  · simp
  cases r2
  · simp
  cases r3
  · simp
  cases r4
  · simp
  cases r5
  · simp
  cases r6
  · simp
  cases r7
  · simp
  simp
/-- **`dq.relative_eq` as computed**: exactly one traced path is taken; the path taken returns normally one boolean, the model's
relation; and that is `true` iff the scalar relation WITH THE SAME TOLERANCE ARGUMENTS holds on every component pair -/
theorem code_dq_relative_eq (a b : Decomposed (Quat K) (V3 K) K) (e m : K) :
    Tr.ExactlyOne (dqRelEqPaths a b e m) ∧
    (∀ t ∈ dqRelEqPaths a b e m, t.Consistent → t.res = .ok ∧ t.out = [] ∧ t.bools = [Decomposed.relEq Quat.relEq V3.relEq a b e m]) ∧
    (Decomposed.relEq Quat.relEq V3.relEq a b e m = true ↔ Approx.relEq a.scale b.scale e m = true ∧ Approx.relEq a.rot.s b.rot.s e m = true ∧ Approx.relEq a.rot.v.x b.rot.v.x e m = true ∧ Approx.relEq a.rot.v.y b.rot.v.y e m = true ∧ Approx.relEq a.rot.v.z b.rot.v.z e m = true ∧ Approx.relEq a.disp.x b.disp.x e m = true ∧ Approx.relEq a.disp.y b.disp.y e m = true ∧ Approx.relEq a.disp.z b.disp.z e m = true) := by
  refine ⟨dq_relative_eq_exactly_one a b e m, ?_, by simp [Decomposed.relEq, Quat.relEq, V3.relEq, Quat.toList, V3.toList, and_assoc]⟩
  intro t ht
  simp only [dqRelEqPaths, List.mem_cons, List.not_mem_nil, or_false] at ht
  rcases ht with rfl | rfl | rfl | rfl | rfl | rfl | rfl | rfl | rfl
  · intro hc
    have ⟨h0, h1, h2, h3, h4, h5, h6, h7⟩ := (dq_relative_eq_true_consistent a b e m).1 hc
    rw [(Trace.C18OpsX.t_dq_relative_eq_true a b e m h0 h1 h2 h3 h4 h5 h6 h7).1]; exact ⟨rfl, rfl, rfl⟩
  · intro hc
    have h0 := (dq_relative_eq_false_0_consistent a b e m).1 hc
    rw [(Trace.C18OpsX.t_dq_relative_eq_false_0 a b e m h0).1]; exact ⟨rfl, rfl, rfl⟩
  · intro hc
    have ⟨h0, h1⟩ := (dq_relative_eq_false_1_consistent a b e m).1 hc
    rw [(Trace.C18OpsX.t_dq_relative_eq_false_1 a b e m h0 h1).1]; exact ⟨rfl, rfl, rfl⟩
  · intro hc
    have ⟨h0, h1, h2⟩ := (dq_relative_eq_false_2_consistent a b e m).1 hc
    rw [(Trace.C18OpsX.t_dq_relative_eq_false_2 a b e m h0 h1 h2).1]; exact ⟨rfl, rfl, rfl⟩
  · intro hc
    have ⟨h0, h1, h2, h3⟩ := (dq_relative_eq_false_3_consistent a b e m).1 hc
    rw [(Trace.C18OpsX.t_dq_relative_eq_false_3 a b e m h0 h1 h2 h3).1]; exact ⟨rfl, rfl, rfl⟩
  · intro hc
    have ⟨h0, h1, h2, h3, h4⟩ := (dq_relative_eq_false_4_consistent a b e m).1 hc
    rw [(Trace.C18OpsX.t_dq_relative_eq_false_4 a b e m h0 h1 h2 h3 h4).1]; exact ⟨rfl, rfl, rfl⟩
  · intro hc
    have ⟨h0, h1, h2, h3, h4, h5⟩ := (dq_relative_eq_false_5_consistent a b e m).1 hc
    rw [(Trace.C18OpsX.t_dq_relative_eq_false_5 a b e m h0 h1 h2 h3 h4 h5).1]; exact ⟨rfl, rfl, rfl⟩
  · intro hc
    have ⟨h0, h1, h2, h3, h4, h5, h6⟩ := (dq_relative_eq_false_6_consistent a b e m).1 hc
    rw [(Trace.C18OpsX.t_dq_relative_eq_false_6 a b e m h0 h1 h2 h3 h4 h5 h6).1]; exact ⟨rfl, rfl, rfl⟩
  · intro hc
    have ⟨h0, h1, h2, h3, h4, h5, h6, h7⟩ := (dq_relative_eq_false_7_consistent a b e m).1 hc
    rw [(Trace.C18OpsX.t_dq_relative_eq_false_7 a b e m h0 h1 h2 h3 h4 h5 h6 h7).1]; exact ⟨rfl, rfl, rfl⟩

/-! ### `dq.ulps_eq` -/
/-- this path is the one taken iff every component pair is within tolerance -/
theorem dq_ulps_eq_true_consistent (a b : Decomposed (Quat K) (V3 K) K) (e : K) :
    (t_dq_ulps_eq_true (envL ([a.scale] ++ a.rot.toList ++ a.disp.toList ++ ([b.scale] ++ b.rot.toList ++ b.disp.toList) ++ [e]))).Consistent ↔ Approx.ulpsEq a.scale b.scale e 4 = true ∧ Approx.ulpsEq a.rot.s b.rot.s e 4 = true ∧ Approx.ulpsEq a.rot.v.x b.rot.v.x e 4 = true ∧ Approx.ulpsEq a.rot.v.y b.rot.v.y e 4 = true ∧ Approx.ulpsEq a.rot.v.z b.rot.v.z e 4 = true ∧ Approx.ulpsEq a.disp.x b.disp.x e 4 = true ∧ Approx.ulpsEq a.disp.y b.disp.y e 4 = true ∧ Approx.ulpsEq a.disp.z b.disp.z e 4 = true := by
  simp [Tr.Consistent, envL, Quat.toList, V3.toList]
/-- this path is the one taken iff component pair `0` is the first that is not within tolerance -/
theorem dq_ulps_eq_false_0_consistent (a b : Decomposed (Quat K) (V3 K) K) (e : K) :
    (t_dq_ulps_eq_false_0 (envL ([a.scale] ++ a.rot.toList ++ a.disp.toList ++ ([b.scale] ++ b.rot.toList ++ b.disp.toList) ++ [e]))).Consistent ↔ Approx.ulpsEq a.scale b.scale e 4 = false := by
  simp [Tr.Consistent, envL, Quat.toList, V3.toList]
/-- this path is the one taken iff component pair `1` is the first that is not within tolerance -/
theorem dq_ulps_eq_false_1_consistent (a b : Decomposed (Quat K) (V3 K) K) (e : K) :
    (t_dq_ulps_eq_false_1 (envL ([a.scale] ++ a.rot.toList ++ a.disp.toList ++ ([b.scale] ++ b.rot.toList ++ b.disp.toList) ++ [e]))).Consistent ↔ Approx.ulpsEq a.scale b.scale e 4 = true ∧ Approx.ulpsEq a.rot.s b.rot.s e 4 = false := by
  simp [Tr.Consistent, envL, Quat.toList, V3.toList]
/-- this path is the one taken iff component pair `2` is the first that is not within tolerance -/
theorem dq_ulps_eq_false_2_consistent (a b : Decomposed (Quat K) (V3 K) K) (e : K) :
    (t_dq_ulps_eq_false_2 (envL ([a.scale] ++ a.rot.toList ++ a.disp.toList ++ ([b.scale] ++ b.rot.toList ++ b.disp.toList) ++ [e]))).Consistent ↔ Approx.ulpsEq a.scale b.scale e 4 = true ∧ Approx.ulpsEq a.rot.s b.rot.s e 4 = true ∧ Approx.ulpsEq a.rot.v.x b.rot.v.x e 4 = false := by
  simp [Tr.Consistent, envL, Quat.toList, V3.toList]
/-- this path is the one taken iff component pair `3` is the first that is not within tolerance -/
theorem dq_ulps_eq_false_3_consistent (a b : Decomposed (Quat K) (V3 K) K) (e : K) :
    (t_dq_ulps_eq_false_3 (envL ([a.scale] ++ a.rot.toList ++ a.disp.toList ++ ([b.scale] ++ b.rot.toList ++ b.disp.toList) ++ [e]))).Consistent ↔ Approx.ulpsEq a.scale b.scale e 4 = true ∧ Approx.ulpsEq a.rot.s b.rot.s e 4 = true ∧ Approx.ulpsEq a.rot.v.x b.rot.v.x e 4 = true ∧ Approx.ulpsEq a.rot.v.y b.rot.v.y e 4 = false := by
  simp [Tr.Consistent, envL, Quat.toList, V3.toList]
/-- this path is the one taken iff component pair `4` is the first that is not within tolerance -/
theorem dq_ulps_eq_false_4_consistent (a b : Decomposed (Quat K) (V3 K) K) (e : K) :
    (t_dq_ulps_eq_false_4 (envL ([a.scale] ++ a.rot.toList ++ a.disp.toList ++ ([b.scale] ++ b.rot.toList ++ b.disp.toList) ++ [e]))).Consistent ↔ Approx.ulpsEq a.scale b.scale e 4 = true ∧ Approx.ulpsEq a.rot.s b.rot.s e 4 = true ∧ Approx.ulpsEq a.rot.v.x b.rot.v.x e 4 = true ∧ Approx.ulpsEq a.rot.v.y b.rot.v.y e 4 = true ∧ Approx.ulpsEq a.rot.v.z b.rot.v.z e 4 = false := by
  simp [Tr.Consistent, envL, Quat.toList, V3.toList]
/-- this path is the one taken iff component pair `5` is the first that is not within tolerance -/
theorem dq_ulps_eq_false_5_consistent (a b : Decomposed (Quat K) (V3 K) K) (e : K) :
    (t_dq_ulps_eq_false_5 (envL ([a.scale] ++ a.rot.toList ++ a.disp.toList ++ ([b.scale] ++ b.rot.toList ++ b.disp.toList) ++ [e]))).Consistent ↔ Approx.ulpsEq a.scale b.scale e 4 = true ∧ Approx.ulpsEq a.rot.s b.rot.s e 4 = true ∧ Approx.ulpsEq a.rot.v.x b.rot.v.x e 4 = true ∧ Approx.ulpsEq a.rot.v.y b.rot.v.y e 4 = true ∧ Approx.ulpsEq a.rot.v.z b.rot.v.z e 4 = true ∧ Approx.ulpsEq a.disp.x b.disp.x e 4 = false := by
  simp [Tr.Consistent, envL, Quat.toList, V3.toList]
/-- this path is the one taken iff component pair `6` is the first that is not within tolerance -/
theorem dq_ulps_eq_false_6_consistent (a b : Decomposed (Quat K) (V3 K) K) (e : K) :
    (t_dq_ulps_eq_false_6 (envL ([a.scale] ++ a.rot.toList ++ a.disp.toList ++ ([b.scale] ++ b.rot.toList ++ b.disp.toList) ++ [e]))).Consistent ↔ Approx.ulpsEq a.scale b.scale e 4 = true ∧ Approx.ulpsEq a.rot.s b.rot.s e 4 = true ∧ Approx.ulpsEq a.rot.v.x b.rot.v.x e 4 = true ∧ Approx.ulpsEq a.rot.v.y b.rot.v.y e 4 = true ∧ Approx.ulpsEq a.rot.v.z b.rot.v.z e 4 = true ∧ Approx.ulpsEq a.disp.x b.disp.x e 4 = true ∧ Approx.ulpsEq a.disp.y b.disp.y e 4 = false := by
  simp [Tr.Consistent, envL, Quat.toList, V3.toList]
/-- this path is the one taken iff component pair `7` is the first that is not within tolerance -/
theorem dq_ulps_eq_false_7_consistent (a b : Decomposed (Quat K) (V3 K) K) (e : K) :
    (t_dq_ulps_eq_false_7 (envL ([a.scale] ++ a.rot.toList ++ a.disp.toList ++ ([b.scale] ++ b.rot.toList ++ b.disp.toList) ++ [e]))).Consistent ↔ Approx.ulpsEq a.scale b.scale e 4 = true ∧ Approx.ulpsEq a.rot.s b.rot.s e 4 = true ∧ Approx.ulpsEq a.rot.v.x b.rot.v.x e 4 = true ∧ Approx.ulpsEq a.rot.v.y b.rot.v.y e 4 = true ∧ Approx.ulpsEq a.rot.v.z b.rot.v.z e 4 = true ∧ Approx.ulpsEq a.disp.x b.disp.x e 4 = true ∧ Approx.ulpsEq a.disp.y b.disp.y e 4 = true ∧ Approx.ulpsEq a.disp.z b.disp.z e 4 = false := by
  simp [Tr.Consistent, envL, Quat.toList, V3.toList]
/-- the traced paths of `dq.ulps_eq` on the input -/
def dqUlpsEqPaths (a b : Decomposed (Quat K) (V3 K) K) (e : K) : List (Tr K) :=
    [t_dq_ulps_eq_true (envL ([a.scale] ++ a.rot.toList ++ a.disp.toList ++ ([b.scale] ++ b.rot.toList ++ b.disp.toList) ++ [e])), t_dq_ulps_eq_false_0 (envL ([a.scale] ++ a.rot.toList ++ a.disp.toList ++ ([b.scale] ++ b.rot.toList ++ b.disp.toList) ++ [e])), t_dq_ulps_eq_false_1 (envL ([a.scale] ++ a.rot.toList ++ a.disp.toList ++ ([b.scale] ++ b.rot.toList ++ b.disp.toList) ++ [e])), t_dq_ulps_eq_false_2 (envL ([a.scale] ++ a.rot.toList ++ a.disp.toList ++ ([b.scale] ++ b.rot.toList ++ b.disp.toList) ++ [e])), t_dq_ulps_eq_false_3 (envL ([a.scale] ++ a.rot.toList ++ a.disp.toList ++ ([b.scale] ++ b.rot.toList ++ b.disp.toList) ++ [e])), t_dq_ulps_eq_false_4 (envL ([a.scale] ++ a.rot.toList ++ a.disp.toList ++ ([b.scale] ++ b.rot.toList ++ b.disp.toList) ++ [e])), t_dq_ulps_eq_false_5 (envL ([a.scale] ++ a.rot.toList ++ a.disp.toList ++ ([b.scale] ++ b.rot.toList ++ b.disp.toList) ++ [e])), t_dq_ulps_eq_false_6 (envL ([a.scale] ++ a.rot.toList ++ a.disp.toList ++ ([b.scale] ++ b.rot.toList ++ b.disp.toList) ++ [e])), t_dq_ulps_eq_false_7 (envL ([a.scale] ++ a.rot.toList ++ a.disp.toList ++ ([b.scale] ++ b.rot.toList ++ b.disp.toList) ++ [e]))]
/-- for every input exactly one of the paths is the one taken -/
theorem dq_ulps_eq_exactly_one (a b : Decomposed (Quat K) (V3 K) K) (e : K) : Tr.ExactlyOne (dqUlpsEqPaths a b e) := by
  unfold Tr.ExactlyOne dqUlpsEqPaths
  simp only [List.pairwise_cons, List.mem_cons, List.not_mem_nil, or_false, forall_eq_or_imp, forall_eq, exists_eq_or_imp,
    exists_eq_left, List.Pairwise.nil, and_true, IsEmpty.forall_iff, implies_true, false_imp_iff, exists_false,
    dq_ulps_eq_true_consistent, dq_ulps_eq_false_0_consistent, dq_ulps_eq_false_1_consistent, dq_ulps_eq_false_2_consistent, dq_ulps_eq_false_3_consistent, dq_ulps_eq_false_4_consistent, dq_ulps_eq_false_5_consistent, dq_ulps_eq_false_6_consistent, dq_ulps_eq_false_7_consistent]
  generalize Approx.ulpsEq a.scale b.scale e 4 = r0
  generalize Approx.ulpsEq a.rot.s b.rot.s e 4 = r1
  generalize Approx.ulpsEq a.rot.v.x b.rot.v.x e 4 = r2
  generalize Approx.ulpsEq a.rot.v.y b.rot.v.y e 4 = r3
  generalize Approx.ulpsEq a.rot.v.z b.rot.v.z e 4 = r4
  generalize Approx.ulpsEq a.disp.x b.disp.x e 4 = r5
  generalize Approx.ulpsEq a.disp.y b.disp.y e 4 = r6
  generalize Approx.ulpsEq a.disp.z b.disp.z e 4 = r7
  cases r0
  · simp
  cases r1
  · simp
  cases r2
  · simp
  cases r3
  · simp
  cases r4
  · simp
  cases r5
  · simp
  cases r6
  · simp
  cases r7
  · simp
  simp
/-- **`dq.ulps_eq` as computed**: exactly one traced path is taken; the path taken returns normally one boolean, the model's
relation; and that is `true` iff the scalar relation WITH THE SAME TOLERANCE ARGUMENTS holds on every component pair -/
theorem code_dq_ulps_eq (a b : Decomposed (Quat K) (V3 K) K) (e : K) :
    Tr.ExactlyOne (dqUlpsEqPaths a b e) ∧
    (∀ t ∈ dqUlpsEqPaths a b e, t.Consistent → t.res = .ok ∧ t.out = [] ∧ t.bools = [Decomposed.ulpsEq Quat.ulpsEq V3.ulpsEq a b e 4]) ∧
    (Decomposed.ulpsEq Quat.ulpsEq V3.ulpsEq a b e 4 = true ↔ Approx.ulpsEq a.scale b.scale e 4 = true ∧ Approx.ulpsEq a.rot.s b.rot.s e 4 = true ∧ Approx.ulpsEq a.rot.v.x b.rot.v.x e 4 = true ∧ Approx.ulpsEq a.rot.v.y b.rot.v.y e 4 = true ∧ Approx.ulpsEq a.rot.v.z b.rot.v.z e 4 = true ∧ Approx.ulpsEq a.disp.x b.disp.x e 4 = true ∧ Approx.ulpsEq a.disp.y b.disp.y e 4 = true ∧ Approx.ulpsEq a.disp.z b.disp.z e 4 = true) := by
  refine ⟨dq_ulps_eq_exactly_one a b e, ?_, by simp [Decomposed.ulpsEq, Quat.ulpsEq, V3.ulpsEq, Quat.toList, V3.toList, and_assoc]⟩
  intro t ht
  simp only [dqUlpsEqPaths, List.mem_cons, List.not_mem_nil, or_false] at ht
  rcases ht with rfl | rfl | rfl | rfl | rfl | rfl | rfl | rfl | rfl
  · intro hc
    have ⟨h0, h1, h2, h3, h4, h5, h6, h7⟩ := (dq_ulps_eq_true_consistent a b e).1 hc
    rw [(Trace.C18OpsX.t_dq_ulps_eq_true a b e h0 h1 h2 h3 h4 h5 h6 h7).1]; exact ⟨rfl, rfl, rfl⟩
  · intro hc
    have h0 := (dq_ulps_eq_false_0_consistent a b e).1 hc
    rw [(Trace.C18OpsX.t_dq_ulps_eq_false_0 a b e h0).1]; exact ⟨rfl, rfl, rfl⟩
  · intro hc
    have ⟨h0, h1⟩ := (dq_ulps_eq_false_1_consistent a b e).1 hc
    rw [(Trace.C18OpsX.t_dq_ulps_eq_false_1 a b e h0 h1).1]; exact ⟨rfl, rfl, rfl⟩
  · intro hc
    have ⟨h0, h1, h2⟩ := (dq_ulps_eq_false_2_consistent a b e).1 hc
    rw [(Trace.C18OpsX.t_dq_ulps_eq_false_2 a b e h0 h1 h2).1]; exact ⟨rfl, rfl, rfl⟩
  · intro hc
    have ⟨h0, h1, h2, h3⟩ := (dq_ulps_eq_false_3_consistent a b e).1 hc
    rw [(Trace.C18OpsX.t_dq_ulps_eq_false_3 a b e h0 h1 h2 h3).1]; exact ⟨rfl, rfl, rfl⟩
  · intro hc
    have ⟨h0, h1, h2, h3, h4⟩ := (dq_ulps_eq_false_4_consistent a b e).1 hc
    rw [(Trace.C18OpsX.t_dq_ulps_eq_false_4 a b e h0 h1 h2 h3 h4).1]; exact ⟨rfl, rfl, rfl⟩
  · intro hc
    have ⟨h0, h1, h2, h3, h4, h5⟩ := (dq_ulps_eq_false_5_consistent a b e).1 hc
    rw [(Trace.C18OpsX.t_dq_ulps_eq_false_5 a b e h0 h1 h2 h3 h4 h5).1]; exact ⟨rfl, rfl, rfl⟩
  · intro hc
    have ⟨h0, h1, h2, h3, h4, h5, h6⟩ := (dq_ulps_eq_false_6_consistent a b e).1 hc
    rw [(Trace.C18OpsX.t_dq_ulps_eq_false_6 a b e h0 h1 h2 h3 h4 h5 h6).1]; exact ⟨rfl, rfl, rfl⟩
  · intro hc
    have ⟨h0, h1, h2, h3, h4, h5, h6, h7⟩ := (dq_ulps_eq_false_7_consistent a b e).1 hc
    rw [(Trace.C18OpsX.t_dq_ulps_eq_false_7 a b e h0 h1 h2 h3 h4 h5 h6 h7).1]; exact ⟨rfl, rfl, rfl⟩

end opsx
end Cg.E2E.C18
