import Cgm.Trace.C08
import Cgm.Props.C08
/-!
# C08, end to end: `Decomposed<Vector3, Quaternion>` and the matrix transforms as the code computes them
(over the reals, unit rotations; see `Cgm/E2E/C02.lean` for how these statements are obtained)
-/
set_option linter.unusedSectionVars false
namespace Cg.E2E.C08
open Cg Cg.Gen.C08 Cg.Trace.C08
variable [FRem ℝ] [Lits ℝ] [Approx ℝ]

/-- `concat(s, t)` (and `s * t`, `concat_self`) as computed, applied to a point or vector, is `s` applied to the result of `t`;
converting to a matrix commutes with composing -/
theorem code_dq_concat (s t : DQ ℝ) (hs : s.rot.magnitude2 = 1) (ht : t.rot.magnitude2 = 1) (p v : V3 ℝ) :
    ∃ c : DQ ℝ, t_dq_concat (envL (flq s ++ flq t)) = .okS (flq c) ∧ t_dq_mul (envL (flq s ++ flq t)) = .okS (flq c) ∧
      t_dq_concat_self (envL (flq s ++ flq t)) = .okS (flq c) ∧
      c.transformPointV quatOps p = s.transformPointV quatOps (t.transformPointV quatOps p) ∧
      c.transformVector quatOps v = s.transformVector quatOps (t.transformVector quatOps v) ∧
      c.toM4 quatOps = s.toM4 quatOps * t.toM4 quatOps := by
  have h := C08.concat_apply3 quatOps _ C08.quatLaws s t hs ht p v
  exact ⟨Decomposed.concat quatOps s t, Trace.C08.t_dq_concat s t, Trace.C08.t_dq_mul s t, Trace.C08.t_dq_concat_self s t,
    h.1, h.2, C08.toM4_concat quatOps _ C08.quatLaws s t hs ht⟩

/-- applying the transform as computed agrees with applying its matrix as computed -/
theorem code_dq_matrix_apply (t : DQ ℝ) (p : P3 ℝ) (v : V3 ℝ) :
    ∃ (m : M4 ℝ) (q : P3 ℝ) (w : V3 ℝ), t_dq_to_matrix (envL (flq t)) = .okS m.toList ∧
      t_dq_transform_point (envL (flq t ++ p.toList)) = .okS q.toList ∧
      t_dq_transform_vector (envL (flq t ++ v.toList)) = .okS w.toList ∧
      m.transformPoint p = q ∧ m.transformVector v = w := by
  have h := C08.toM4_apply quatOps _ C08.quatLaws t p v
  exact ⟨_, _, _, Trace.C08.t_dq_to_matrix t, Trace.C08.t_dq_transform_point t p, Trace.C08.t_dq_transform_vector t v, h.1, h.2⟩

/-- on the path where the code's comparison `ulps_eq!(scale, 0)` is false (and the scale is not zero), `inverse_transform()`
as computed is the transform that undoes it on points and vectors, and its matrix is `Matrix4::invert` of the matrix -/
theorem code_dq_inverse (t : DQ ℝ) (ht : t.rot.magnitude2 = 1) (hz : ulpsEqD t.scale 0 = false) (hne : t.scale ≠ 0) :
    ∃ i : DQ ℝ, t_dq_inverse_transform_some (envL (flq t)) = .okG (flq i) [.ulps t.scale 0 eps52 4 false] ∧
      (∀ p, i.transformPointV quatOps (t.transformPointV quatOps p) = p) ∧
      (∀ v, i.transformVector quatOps (t.transformVector quatOps v) = v) ∧
      (t.toM4 quatOps).invert = some (i.toM4 quatOps) := by
  obtain ⟨i, hi, _, h1, h2, _, _⟩ := C08.inverse_undoes3 quatOps _ C08.quatLaws t ht hz hne
  obtain ⟨j, hj, hm⟩ := C08.toM4_inverse quatOps _ C08.quatLaws t ht hz hne
  have hij : i = j := by rw [hi] at hj; injection hj
  have hk := Trace.C08.t_dq_inverse_transform_some t hz
  rw [hi] at hk
  exact ⟨i, hk, h1, h2, by rw [hij]; exact hm⟩

/-- ... and the kernel of the other path returns `None` with the recorded guard `ulps_eq(scale, 0) = true` (holds for every
`t`: the kernel is a closed term; that this path is the consistent one exactly when the scale test succeeds is
`dq_inverse_none_consistent`, `E2E/C08g.lean`) -/
theorem code_dq_inverse_none (t : DQ ℝ) :
    t_dq_inverse_transform_none (envL (flq t)) = .noneG [.ulps t.scale 0 eps52 4 true] := Trace.C08.t_dq_inverse_transform_none t
end Cg.E2E.C08
