import Cgm.Trace.C04Rest
import Cgm.Props.C17c
/-!
# C04, end to end, remaining kernel: `Quaternion % scalar` (`Rem<S>`)

The kernel traced from the real `q % s` returns, component by component, the remainder of that component by `s`, scalar part
first (the flat order `s, x, y, z`): `Cgm/Trace/C04Rest.lean` composed with `right_scalar_rem` of `Cgm/Props/C17c.lean`.
-/
set_option linter.unusedSectionVars false
namespace Cg.E2E.C04
open Cg Cg.Gen.C04
variable {K : Type} [Field K] [Transc K] [FRem K] [Lits K]

/-- **`q % s` as computed** is component-wise: every component (scalar part and the three vector components) is replaced by its
remainder by `s`, nothing is dropped or repeated -/
theorem code_q_rem_s (p : Quat K) (s : K) :
    t_q_rem_s (envL (p.toList ++ [s])) =
      .okS [FRem.frem p.s s, FRem.frem p.v.x s, FRem.frem p.v.y s, FRem.frem p.v.z s] ∧
    t_q_rem_s (envL (p.toList ++ [s])) = .okS (Quat.fromSv (FRem.frem p.s s) (V3.map (FRem.frem · s) p.v)).toList ∧
    (p.rem s).s = FRem.frem p.s s ∧ (p.rem s).v = V3.map (FRem.frem · s) p.v := by
  have h := Trace.C04Rest.t_q_rem_s p s
  have hp : p.rem s = Quat.fromSv (FRem.frem p.s s) (V3.map (FRem.frem · s) p.v) :=
    (Cg.C17.right_scalar_rem s ⟨s⟩ ⟨s, s⟩ p.v ⟨s, s, s, s⟩ ⟨s⟩ ⟨s, s⟩ ⟨s, s, s⟩ ⟨⟨s, s⟩, ⟨s, s⟩⟩ ⟨p.v, p.v, p.v⟩
      ⟨⟨s, s, s, s⟩, ⟨s, s, s, s⟩, ⟨s, s, s, s⟩, ⟨s, s, s, s⟩⟩ p).2.2.2.2.2.2.2.2.2.2
  refine ⟨by rw [h, hp]; rfl, by rw [h, hp], by rw [hp]; rfl, by rw [hp]; rfl⟩
end Cg.E2E.C04
