import Cgm.Trace.C11
import Cgm.Trace.C11Auto
import Cgm.Props.C11
/-!
# C11, end to end: magnitude, distance, normalisation, angle and projection as the code computes them,
over the reals (see `Cgm/E2E/C02.lean`)
-/
set_option linter.unusedSectionVars false
namespace Cg.E2E.C11
open Cg Cg.Gen.C11 Real
variable [FRem ℝ] [Lits ℝ]

/-- `magnitude(v)^2 = magnitude2(v) >= 0`; `distance` is symmetric, the magnitude of the difference, and `distance2` its square -/
theorem code_magnitude_distance (u v : V3 ℝ) :
    ∃ (m d : ℝ), t_v3_magnitude (envL v.toList) = .okS [m] ∧ t_v3_distance (envL (u.toList ++ v.toList)) = .okS [d] ∧
      m ^ 2 = v.magnitude2 ∧ 0 ≤ v.magnitude2 ∧ d = V3.distance v u ∧ d = (u - v).magnitude ∧ d ^ 2 = V3.distance2 u v :=
  ⟨_, _, Trace.C11.t_v3_magnitude v, Trace.C11.t_v3_distance u v, (C11.V3.magnitude_sq v).1, (C11.V3.magnitude_sq v).2,
    (C11.V3.distance_spec u v).1, (C11.V3.distance_spec u v).2.1, (C11.V3.distance_spec u v).2.2⟩

/-- `normalize(v)` has length 1 and `normalize_to(v, m)` length `|m|`, both positive multiples of `v` (for `m > 0`) -/
theorem code_normalize (v : V3 ℝ) (m : ℝ) (hv : 0 < v.magnitude2) :
    ∃ (n nt : V3 ℝ), t_v3_normalize (envL v.toList) = .okS n.toList ∧ t_v3_normalize_to (envL (v.toList ++ [m])) = .okS nt.toList ∧
      n.magnitude = 1 ∧ nt.magnitude = |m| ∧ (0 < m → ∃ k : ℝ, 0 < k ∧ nt = v * k) := by
  have h := C11.V3.normalizeTo_spec v m hv
  exact ⟨_, _, Trace.C11.t_v3_normalize v, Trace.C11.t_v3_normalize_to v m, h.2.1, h.1, h.2.2⟩

/-- `angle(u, v)` as computed satisfies `|u||v| cos(angle) = u.v`, lies in `[0, pi]` and is symmetric (3-D); in 2-D it is the
signed counter-clockwise angle in `(-pi, pi]` -/
theorem code_angle (u v : V3 ℝ) (a b : V2 ℝ) (hu : 0 < u.magnitude2) (hv : 0 < v.magnitude2) (ha : 0 < a.magnitude2) (hb : 0 < b.magnitude2) :
    ∃ (t s : ℝ), t_v3_angle (envL (u.toList ++ v.toList)) = .okS [t] ∧ t_v2_angle (envL (a.toList ++ b.toList)) = .okS [s] ∧
      u.magnitude * v.magnitude * Real.cos t = V3.dot u v ∧ 0 ≤ t ∧ t ≤ π ∧ t = V3.angle v u ∧
      a.magnitude * b.magnitude * Real.cos s = V2.dot a b ∧ a.magnitude * b.magnitude * Real.sin s = V2.perpDot a b ∧ -π < s ∧ s ≤ π := by
  have h3 := C11.V3.angle_spec u v hu hv
  have h2 := C11.V2.angle_spec a b ha hb
  exact ⟨_, _, Trace.C11.t_v3_angle u v, Trace.C11.t_v2_angle a b, h3.1, h3.2.1, h3.2.2.1, h3.2.2.2, h2.1, h2.2.1, h2.2.2.1, h2.2.2.2⟩

/-- the default `angle` (dimension 4, quaternions), on the path where the cosine needs no clamping -/
theorem code_angle_v4 (u v : V4 ℝ) (hu : 0 < u.magnitude2) (hv : 0 < v.magnitude2)
    (h1 : ¬ 1 < V4.dot u v / (u.magnitude * v.magnitude)) (h2 : ¬ V4.dot u v / (u.magnitude * v.magnitude) < -1) :
    ∃ t : ℝ, t_v4_angle (envL (u.toList ++ v.toList)) =
        .okG [t] [.lt 1 (V4.dot u v / (u.magnitude * v.magnitude)) false, .lt (V4.dot u v / (u.magnitude * v.magnitude)) (-1) false] ∧
      u.magnitude * v.magnitude * Real.cos t = V4.dot u v ∧ 0 ≤ t ∧ t ≤ π ∧ t = V4.angle v u :=
  ⟨_, Trace.C11.t_v4_angle u v h1 h2, C11.V4.angle_spec u v hu hv⟩

/-- `project_on(u, v)` as computed is parallel to `v` with `u - project_on(u, v)` orthogonal to `v` -/
theorem code_project_on (u v : V3 ℝ) (hv : v.magnitude2 ≠ 0) :
    ∃ p : V3 ℝ, t_v3_project_on (envL (u.toList ++ v.toList)) = .okS p.toList ∧ (∃ k : ℝ, p = v * k) ∧ V3.dot (u - p) v = 0 :=
  ⟨_, Trace.C11.t_v3_project_on u v, C11.V3.projectOn_spec u v hv⟩
end Cg.E2E.C11
