import Cgm.E2E.C06i
import Cgm.Trace.C06Rest
import Cgm.Trace.C06Auto
import Cgm.Props.C06c
import Cgm.Trace.C01
import Cgm.Trace.C04
import Cgm.Trace.C04Auto
import Cgm.Trace.C05
import Cgm.Trace.C05Auto
/-!
# C06, end to end, every clause about the kernels (over the reals: `sin`, `cos` the real functions)

Every function in the statements below is a traced kernel (`Cg.Gen.C06.*` for the constructors, `Cg.Gen.C01.*` for the matrix
product / matrix-vector product / `transform_vector`, `Cg.Gen.C04.*` for the quaternion product / `invert` / `rotate_*`,
`Cg.Gen.C05.*` for the `Basis3` operations, which the harness runs on a `Basis3` built from a quaternion); kernels are composed
by feeding the output list (`.out`) of one into the next.  The only model-level objects left are the values the outputs are
compared with (Rodrigues' formula, `M*.one`, transposes and determinants of the output matrix, which is pinned by `toList`).

* `from_axis_angle` as `Matrix4` / `Quaternion` / `Basis3`: Rodrigues action through the traced `transform_vector` /
  `rotate_vector` / `Matrix3 * v`; the unit axis is fixed; orthonormal both ways; determinant `+1`; angles add; `r * invert(r)`;
* `from_angle_x/y/z` as `Matrix4` (y, z), `Quaternion`, `Basis3`: the kernel is the `from_axis_angle` kernel at the unit axis;
* angles add for `Matrix3::from_angle_x/y/z`, `Matrix4`, `Quaternion`, `Basis3`, `Basis2` (`t_b2_mul`);
* `r * invert(r) = one()` for the traced `invert` kernels (quaternion, `Basis3`, `Basis2`);
* `rotate_point(p) = rotate_vector(p - origin)` for the quaternion, `Basis3`, `Basis2` kernels;
* `Rad` and `Deg` entry points agree at the converted angle (`Matrix2`, `Basis2`, `Matrix4::from_angle_x`; the axis-angle ones
  are in `C06i.lean`).
-/
set_option linter.unusedSectionVars false
set_option linter.unusedVariables false
namespace Cg.E2E.C06
open Cg Cg.Gen.C06

theorem okS_out {K : Type} (l : List K) : (Tr.okS l).out = l := rfl

section field
variable {K : Type} [Field K] [DecidableEq K] [Transc K] [FRem K] [Lits K]

/-- **`from_angle_x/y/z` as computed are `from_axis_angle` as computed about the unit axes** (kernel = kernel), for `Matrix3`,
`Matrix4`, `Quaternion` and `Basis3`; `Basis3::from_angle_*` as computed is `Matrix3::from_angle_*` as computed -/
theorem code_axes_eq_axis_angle (t : K) :
    (t_m3_from_angle_x (envL [t]) = t_m3_from_axis_angle (envL ((V3.unitX : V3 K).toList ++ [t])) ∧
     t_m3_from_angle_y (envL [t]) = t_m3_from_axis_angle (envL ((V3.unitY : V3 K).toList ++ [t])) ∧
     t_m3_from_angle_z (envL [t]) = t_m3_from_axis_angle (envL ((V3.unitZ : V3 K).toList ++ [t]))) ∧
    (t_m4_from_angle_x (envL [t]) = t_m4_from_axis_angle (envL ((V3.unitX : V3 K).toList ++ [t])) ∧
     t_m4_from_angle_y (envL [t]) = t_m4_from_axis_angle (envL ((V3.unitY : V3 K).toList ++ [t])) ∧
     t_m4_from_angle_z (envL [t]) = t_m4_from_axis_angle (envL ((V3.unitZ : V3 K).toList ++ [t]))) ∧
    (t_q_from_angle_x (envL [t]) = t_q_from_axis_angle (envL ((V3.unitX : V3 K).toList ++ [t])) ∧
     t_q_from_angle_y (envL [t]) = t_q_from_axis_angle (envL ((V3.unitY : V3 K).toList ++ [t])) ∧
     t_q_from_angle_z (envL [t]) = t_q_from_axis_angle (envL ((V3.unitZ : V3 K).toList ++ [t]))) ∧
    (t_b3_from_angle_x (envL [t]) = t_b3_from_axis_angle (envL ((V3.unitX : V3 K).toList ++ [t])) ∧
     t_b3_from_angle_y (envL [t]) = t_b3_from_axis_angle (envL ((V3.unitY : V3 K).toList ++ [t])) ∧
     t_b3_from_angle_z (envL [t]) = t_b3_from_axis_angle (envL ((V3.unitZ : V3 K).toList ++ [t]))) ∧
    (t_b3_from_angle_x (envL [t]) = t_m3_from_angle_x (envL [t]) ∧ t_b3_from_angle_y (envL [t]) = t_m3_from_angle_y (envL [t]) ∧
     t_b3_from_angle_z (envL [t]) = t_m3_from_angle_z (envL [t])) := by
  obtain ⟨e1, e2, e3⟩ := C06.fromAngle_eq_axisAngle t
  obtain ⟨f1, f2, f3⟩ := C06.m4_fromAngle_eq_axisAngle t
  refine ⟨⟨?_, ?_, ?_⟩, ⟨?_, ?_, ?_⟩, ⟨?_, ?_, ?_⟩, ⟨?_, ?_, ?_⟩, ⟨?_, ?_, ?_⟩⟩
  · rw [Trace.C06.t_m3_from_angle_x, Trace.C06.t_m3_from_axis_angle, e1]
  · rw [Trace.C06.t_m3_from_angle_y, Trace.C06.t_m3_from_axis_angle, e2]
  · rw [Trace.C06.t_m3_from_angle_z, Trace.C06.t_m3_from_axis_angle, e3]
  · rw [Trace.C06.t_m4_from_angle_x, Trace.C06.t_m4_from_axis_angle, f1]
  · rw [Trace.C06.t_m4_from_angle_y, Trace.C06.t_m4_from_axis_angle, f2]
  · rw [Trace.C06.t_m4_from_angle_z, Trace.C06.t_m4_from_axis_angle, f3]
  · rw [Trace.C06.t_q_from_angle_x, Trace.C06.t_q_from_axis_angle]; rfl
  · rw [Trace.C06.t_q_from_angle_y, Trace.C06.t_q_from_axis_angle]; rfl
  · rw [Trace.C06.t_q_from_angle_z, Trace.C06.t_q_from_axis_angle]; rfl
  · rw [Trace.C06Auto.t_b3_from_angle_x, Trace.C06Rest.t_b3_from_axis_angle, e1]
  · rw [Trace.C06Auto.t_b3_from_angle_y, Trace.C06Rest.t_b3_from_axis_angle, e2]
  · rw [Trace.C06Auto.t_b3_from_angle_z, Trace.C06Rest.t_b3_from_axis_angle, e3]
  · rw [Trace.C06Auto.t_b3_from_angle_x, Trace.C06.t_m3_from_angle_x]
  · rw [Trace.C06Auto.t_b3_from_angle_y, Trace.C06.t_m3_from_angle_y]
  · rw [Trace.C06Auto.t_b3_from_angle_z, Trace.C06.t_m3_from_angle_z]

/-- **`Rad` and `Deg` entry points agree at the converted angle** (kernel = kernel): `Matrix2::from_angle`, `Basis2::from_angle`,
`Matrix4::from_angle_x` given degrees are the same kernels given `degToRad t = t * deg2rad` radians (the axis-angle ones:
`code_axis_angle_deg_eq_rad` in `C06i.lean`) -/
theorem code_deg_eq_rad (t : K) :
    t_m2_from_angle_deg (envL [t]) = t_m2_from_angle (envL [degToRad t]) ∧
    t_b2_from_angle_deg (envL [t]) = t_b2_from_angle (envL [degToRad t]) ∧
    t_m4_from_angle_x_deg (envL [t]) = t_m4_from_angle_x (envL [degToRad t]) := by
  refine ⟨?_, ?_, ?_⟩
  · rw [Trace.C06Auto.t_m2_from_angle_deg, Trace.C06.t_m2_from_angle]
  · rw [Trace.C06Auto.t_b2_from_angle_deg, Trace.C06.t_b2_from_angle]
  · rw [Trace.C06Auto.t_m4_from_angle_x_deg, Trace.C06.t_m4_from_angle_x]

/-- **`rotate_point(p) = rotate_vector(p - origin)`** for the three traced `rotate_point` kernels (quaternion, `Basis3` -- built
from a quaternion by the harness --, `Basis2` -- built from an angle): the point kernel's output is the vector kernel's output
on `p - origin`, read as a point -/
theorem code_rotate_point (q : Quat K) (a : K) (p : P3 K) (p2 : P2 K) :
    (∃ w : V3 K, Gen.C04.t_q_rotate_vector (envL (q.toList ++ (p - (P3.origin : P3 K) : V3 K).toList)) = .okS w.toList ∧
      Gen.C04.t_q_rotate_point (envL (q.toList ++ p.toList)) = .okS (P3.fromVec w).toList) ∧
    (∃ w : V3 K, Gen.C05.t_b3_rotate_vector (envL (q.toList ++ (p - (P3.origin : P3 K) : V3 K).toList)) = .okS w.toList ∧
      Gen.C05.t_b3_rotate_point (envL (q.toList ++ p.toList)) = .okS (P3.fromVec w).toList) ∧
    (∃ w : V2 K, t_b2_rotate_vector (envL ([a] ++ (p2 - (P2.origin : P2 K) : V2 K).toList)) = .okS w.toList ∧
      t_b2_rotate_point (envL ([a] ++ p2.toList)) = .okS (P2.fromVec w).toList) := by
  have e3 : (p - (P3.origin : P3 K) : V3 K) = p.toVec := by ext <;> simp
  have e2 : (p2 - (P2.origin : P2 K) : V2 K) = p2.toVec := by ext <;> simp
  rw [e3, e2]
  exact ⟨⟨_, Trace.C04.t_q_rotate_vector q p.toVec, Trace.C04.t_q_rotate_point q p⟩,
    ⟨_, Trace.C05Auto.t_b3_rotate_vector q p.toVec, Trace.C05Auto.t_b3_rotate_point q p⟩,
    ⟨_, Trace.C06Auto.t_b2_rotate_vector a p2.toVec, Trace.C06Auto.t_b2_rotate_point a p2⟩⟩
end field

section real
variable [FRem ℝ] [Lits ℝ]

theorem okG_out {K : Type} (l : List K) (g : List (G K)) : (Tr.okG l g).out = l := rfl

/-- the quaternion from a unit axis and an angle has the matrix `Matrix3::from_axis_angle` builds -/
theorem quat_axisAngle_toM3 (a : V3 ℝ) (θ : ℝ) (ha : a.magnitude2 = 1) :
    (Quat.fromAxisAngle a θ).toM3 = M3.fromAxisAngle a θ := by
  apply Cg.C05.M3.ext_of_mulVec
  intro v
  rw [Cg.C05.toM3_mulVec, (Cg.C06.quat_axisAngle_real a v θ ha).1, Cg.C06.m3_axisAngle_real]

/-- **`Matrix4::from_axis_angle(a, t)` as computed**: the traced `transform_vector` applied to it maps every `v` to
`v cos t + (a x v) sin t + a (a.v)(1 - cos t)`; it is the traced embedding of the traced `Matrix3::from_axis_angle`; for a unit
axis the traced `transform_vector` fixes the axis, the matrix is orthonormal both ways with determinant `+1`, and the traced
product of two of them about the same axis is the kernel at the sum of the angles -/
theorem code_m4_from_axis_angle_full (a v : V3 ℝ) (t t' : ℝ) :
    ∃ f : V3 ℝ → ℝ → M4 ℝ, (∀ b s, t_m4_from_axis_angle (envL (b.toList ++ [s])) = .okS (f b s).toList) ∧
      Gen.C01.t_m4_transform_vector (envL ((t_m4_from_axis_angle (envL (a.toList ++ [t]))).out ++ v.toList)) =
        .okS (C06.rodrigues a (Real.cos t) (Real.sin t) v).toList ∧
      Gen.C01.t_m3_to_m4 (envL (t_m3_from_axis_angle (envL (a.toList ++ [t]))).out) =
        t_m4_from_axis_angle (envL (a.toList ++ [t])) ∧
      (a.magnitude2 = 1 →
        Gen.C01.t_m4_transform_vector (envL ((t_m4_from_axis_angle (envL (a.toList ++ [t]))).out ++ a.toList)) =
          .okS a.toList ∧
        (f a t).transpose * f a t = M4.one ∧ f a t * (f a t).transpose = M4.one ∧ (f a t).det = 1 ∧
        Gen.C01.t_m4_mul (envL ((t_m4_from_axis_angle (envL (a.toList ++ [t]))).out ++
            (t_m4_from_axis_angle (envL (a.toList ++ [t']))).out)) = t_m4_from_axis_angle (envL (a.toList ++ [t + t']))) := by
  refine ⟨M4.fromAxisAngle, Trace.C06.t_m4_from_axis_angle, ?_, ?_, fun ha => ⟨?_, ?_, ?_, ?_, ?_⟩⟩
  · rw [Trace.C06.t_m4_from_axis_angle, okS_out, Trace.C01.t_m4_transform_vector, C06.m4_axisAngle_real]
  · rw [Trace.C06.t_m3_from_axis_angle, okS_out, Trace.C01.t_m3_to_m4, Trace.C06.t_m4_from_axis_angle, (C06.m4_eq_embed a t).1]
  · rw [Trace.C06.t_m4_from_axis_angle, okS_out, Trace.C01.t_m4_transform_vector, (C06.m4_axisAngle_rotation_real a t ha).1]
  · exact (C06.m4_axisAngle_rotation_real a t ha).2.2.2.2.1
  · rw [(C06.m4_eq_embed a t).1, C06.toM4_transpose, ← C06.toM4_mul, (C06.m3_axisAngle_orthonormal_real a t ha).2.1,
      C06.toM4_one]
  · exact (C06.m4_axisAngle_rotation_real a t ha).2.2.2.2.2
  · simp only [Trace.C06.t_m4_from_axis_angle, okS_out, Trace.C01.t_m4_mul]
    rw [C06.m4_axisAngle_add_real a t t' ha]

/-- **`Quaternion::from_axis_angle(a, t)` as computed, unit axis `a`**, with every operation the traced one:
`rotate_vector` maps every `v` to Rodrigues' formula and fixes the axis; `magnitude2` is `1`; its traced matrix
(`Matrix3::from(q)`) is the traced `Matrix3::from_axis_angle`, orthonormal both ways with determinant `+1`; the traced Hamilton
product of two of them about the same axis is the kernel at the sum of the angles; `q * invert(q) = invert(q) * q = one()` with
the traced `invert`, product and `one()`; `invert(q)` is the kernel at `-t` -/
theorem code_q_from_axis_angle_full (a v : V3 ℝ) (t t' : ℝ) (ha : a.magnitude2 = 1) :
    Gen.C04.t_q_rotate_vector (envL ((t_q_from_axis_angle (envL (a.toList ++ [t]))).out ++ v.toList)) =
      .okS (C06.rodrigues a (Real.cos t) (Real.sin t) v).toList ∧
    Gen.C04.t_q_rotate_vector (envL ((t_q_from_axis_angle (envL (a.toList ++ [t]))).out ++ a.toList)) = .okS a.toList ∧
    Gen.C04.t_q_magnitude2 (envL (t_q_from_axis_angle (envL (a.toList ++ [t]))).out) = .okS [1] ∧
    (∃ m : M3 ℝ, Gen.C05.t_q_to_m3 (envL (t_q_from_axis_angle (envL (a.toList ++ [t]))).out) = .okS m.toList ∧
      t_m3_from_axis_angle (envL (a.toList ++ [t])) = .okS m.toList ∧
      m.transpose * m = M3.one ∧ m * m.transpose = M3.one ∧ m.det = 1) ∧
    Gen.C04.t_q_mul (envL ((t_q_from_axis_angle (envL (a.toList ++ [t]))).out ++
        (t_q_from_axis_angle (envL (a.toList ++ [t']))).out)) = t_q_from_axis_angle (envL (a.toList ++ [t + t'])) ∧
    Gen.C04.t_q_mul (envL ((t_q_from_axis_angle (envL (a.toList ++ [t]))).out ++
        (Gen.C04.t_q_invert (envL (t_q_from_axis_angle (envL (a.toList ++ [t]))).out)).out)) =
      Gen.C04.t_q_one (envL ([] : List ℝ)) ∧
    Gen.C04.t_q_mul (envL ((Gen.C04.t_q_invert (envL (t_q_from_axis_angle (envL (a.toList ++ [t]))).out)).out ++
        (t_q_from_axis_angle (envL (a.toList ++ [t]))).out)) = Gen.C04.t_q_one (envL ([] : List ℝ)) ∧
    Gen.C04.t_q_invert (envL (t_q_from_axis_angle (envL (a.toList ++ [t]))).out) =
      t_q_from_axis_angle (envL (a.toList ++ [-t])) := by
  obtain ⟨hr, hu⟩ := C06.quat_axisAngle_real a v t ha
  have hne : (Quat.fromAxisAngle a t).magnitude2 ≠ 0 := by rw [hu]; exact one_ne_zero
  obtain ⟨i1, i2⟩ := Cg.C04.mul_invert (Quat.fromAxisAngle a t) hne
  have hinv : (Quat.fromAxisAngle a t).invert = Quat.fromAxisAngle a (-t) := by
    have h0 : Quat.fromAxisAngle a (-t) * Quat.fromAxisAngle a t = Quat.one := by
      rw [C06.quat_axisAngle_add_real a (-t) t ha, neg_add_cancel]
      ext <;> simp
    calc (Quat.fromAxisAngle a t).invert = Quat.one * (Quat.fromAxisAngle a t).invert := (Cg.C04.one_mul _).1.symm
      _ = Quat.fromAxisAngle a (-t) * Quat.fromAxisAngle a t * (Quat.fromAxisAngle a t).invert := by rw [h0]
      _ = Quat.fromAxisAngle a (-t) := by rw [Cg.C04.mul_assoc, i1, (Cg.C04.one_mul _).2]
  refine ⟨?_, ?_, ?_, ⟨M3.fromAxisAngle a t, ?_, Trace.C06.t_m3_from_axis_angle a t,
    (C06.m3_axisAngle_orthonormal_real a t ha).1, (C06.m3_axisAngle_orthonormal_real a t ha).2.1,
    (C06.m3_axisAngle_orthonormal_real a t ha).2.2⟩, ?_, ?_, ?_, ?_⟩
  · rw [Trace.C06.t_q_from_axis_angle, okS_out, Trace.C04.t_q_rotate_vector]
    exact congrArg (fun w : V3 ℝ => Tr.okS w.toList) hr
  · rw [Trace.C06.t_q_from_axis_angle, okS_out, Trace.C04.t_q_rotate_vector, (C06.quat_axisAngle_fixes_axis a t ha).2]
  · rw [Trace.C06.t_q_from_axis_angle, okS_out, Trace.C04.t_q_magnitude2, hu]
  · rw [Trace.C06.t_q_from_axis_angle, okS_out, Trace.C05.t_q_to_m3, quat_axisAngle_toM3 a t ha]
  · simp only [Trace.C06.t_q_from_axis_angle, okS_out, Trace.C04.t_q_mul]
    rw [C06.quat_axisAngle_add_real a t t' ha]
  · simp only [Trace.C06.t_q_from_axis_angle, okS_out, Trace.C04.t_q_invert, Trace.C04.t_q_mul, Trace.C04Auto.t_q_one]
    rw [i1]
  · simp only [Trace.C06.t_q_from_axis_angle, okS_out, Trace.C04.t_q_invert, Trace.C04.t_q_mul, Trace.C04Auto.t_q_one]
    rw [i2]
  · simp only [Trace.C06.t_q_from_axis_angle, okS_out, Trace.C04.t_q_invert]
    rw [hinv]

/-- **`from_angle_x/y/z` as computed: angles add** -- the traced product (`Matrix3 * Matrix3`, `Matrix4 * Matrix4`, the Hamilton
product; `Basis3 * Basis3` is the product of the underlying matrices) of two kernels' outputs is the kernel at the sum -/
theorem code_axes_add (s t : ℝ) :
    (Gen.C01.t_m3_mul (envL ((t_m3_from_angle_x (envL [s])).out ++ (t_m3_from_angle_x (envL [t])).out)) =
        t_m3_from_angle_x (envL [s + t]) ∧
     Gen.C01.t_m3_mul (envL ((t_m3_from_angle_y (envL [s])).out ++ (t_m3_from_angle_y (envL [t])).out)) =
        t_m3_from_angle_y (envL [s + t]) ∧
     Gen.C01.t_m3_mul (envL ((t_m3_from_angle_z (envL [s])).out ++ (t_m3_from_angle_z (envL [t])).out)) =
        t_m3_from_angle_z (envL [s + t])) ∧
    (Gen.C01.t_m4_mul (envL ((t_m4_from_angle_x (envL [s])).out ++ (t_m4_from_angle_x (envL [t])).out)) =
        t_m4_from_angle_x (envL [s + t]) ∧
     Gen.C01.t_m4_mul (envL ((t_m4_from_angle_y (envL [s])).out ++ (t_m4_from_angle_y (envL [t])).out)) =
        t_m4_from_angle_y (envL [s + t]) ∧
     Gen.C01.t_m4_mul (envL ((t_m4_from_angle_z (envL [s])).out ++ (t_m4_from_angle_z (envL [t])).out)) =
        t_m4_from_angle_z (envL [s + t])) ∧
    (Gen.C04.t_q_mul (envL ((t_q_from_angle_x (envL [s])).out ++ (t_q_from_angle_x (envL [t])).out)) =
        t_q_from_angle_x (envL [s + t]) ∧
     Gen.C04.t_q_mul (envL ((t_q_from_angle_y (envL [s])).out ++ (t_q_from_angle_y (envL [t])).out)) =
        t_q_from_angle_y (envL [s + t]) ∧
     Gen.C04.t_q_mul (envL ((t_q_from_angle_z (envL [s])).out ++ (t_q_from_angle_z (envL [t])).out)) =
        t_q_from_angle_z (envL [s + t])) ∧
    (Gen.C01.t_m3_mul (envL ((t_b3_from_angle_x (envL [s])).out ++ (t_b3_from_angle_x (envL [t])).out)) =
        t_b3_from_angle_x (envL [s + t]) ∧
     Gen.C01.t_m3_mul (envL ((t_b3_from_angle_y (envL [s])).out ++ (t_b3_from_angle_y (envL [t])).out)) =
        t_b3_from_angle_y (envL [s + t]) ∧
     Gen.C01.t_m3_mul (envL ((t_b3_from_angle_z (envL [s])).out ++ (t_b3_from_angle_z (envL [t])).out)) =
        t_b3_from_angle_z (envL [s + t])) := by
  have e := fun u : ℝ => C06.fromAngle_eq_axisAngle (F := ℝ) u
  have hx : M3.fromAngleX s * M3.fromAngleX t = M3.fromAngleX (s + t) := by
    rw [(e s).1, (e t).1, (e (s + t)).1]; exact C06.axisAngle_add_real _ _ _ (by simp)
  have hy : M3.fromAngleY s * M3.fromAngleY t = M3.fromAngleY (s + t) := by
    rw [(e s).2.1, (e t).2.1, (e (s + t)).2.1]; exact C06.axisAngle_add_real _ _ _ (by simp)
  have hz : M3.fromAngleZ s * M3.fromAngleZ t = M3.fromAngleZ (s + t) := by
    rw [(e s).2.2, (e t).2.2, (e (s + t)).2.2]; exact C06.axisAngle_add_real _ _ _ (by simp)
  obtain ⟨m1, m2, m3⟩ := C06.m4_fromAngle_add_real s t
  obtain ⟨q1, q2, q3⟩ := C06.quat_fromAngle_add_real s t
  refine ⟨⟨?_, ?_, ?_⟩, ⟨?_, ?_, ?_⟩, ⟨?_, ?_, ?_⟩, ⟨?_, ?_, ?_⟩⟩
  · simp only [Trace.C06.t_m3_from_angle_x, okS_out, Trace.C01.t_m3_mul]; rw [hx]
  · simp only [Trace.C06.t_m3_from_angle_y, okS_out, Trace.C01.t_m3_mul]; rw [hy]
  · simp only [Trace.C06.t_m3_from_angle_z, okS_out, Trace.C01.t_m3_mul]; rw [hz]
  · simp only [Trace.C06.t_m4_from_angle_x, okS_out, Trace.C01.t_m4_mul]; rw [m1]
  · simp only [Trace.C06.t_m4_from_angle_y, okS_out, Trace.C01.t_m4_mul]; rw [m2]
  · simp only [Trace.C06.t_m4_from_angle_z, okS_out, Trace.C01.t_m4_mul]; rw [m3]
  · simp only [Trace.C06.t_q_from_angle_x, okS_out, Trace.C04.t_q_mul]; rw [q1]
  · simp only [Trace.C06.t_q_from_angle_y, okS_out, Trace.C04.t_q_mul]; rw [q2]
  · simp only [Trace.C06.t_q_from_angle_z, okS_out, Trace.C04.t_q_mul]; rw [q3]
  · simp only [Trace.C06Auto.t_b3_from_angle_x, okS_out, Trace.C01.t_m3_mul]; rw [hx]
  · simp only [Trace.C06Auto.t_b3_from_angle_y, okS_out, Trace.C01.t_m3_mul]; rw [hy]
  · simp only [Trace.C06Auto.t_b3_from_angle_z, okS_out, Trace.C01.t_m3_mul]; rw [hz]

/-- **`q * invert(q) = invert(q) * q = one()` for every non-zero quaternion**, with the traced `invert`, product and `one()` -/
theorem code_q_invert (q : Quat ℝ) (hq : q ≠ Quat.zero) :
    Gen.C04.t_q_mul (envL (q.toList ++ (Gen.C04.t_q_invert (envL q.toList)).out)) = Gen.C04.t_q_one (envL ([] : List ℝ)) ∧
    Gen.C04.t_q_mul (envL ((Gen.C04.t_q_invert (envL q.toList)).out ++ q.toList)) = Gen.C04.t_q_one (envL ([] : List ℝ)) := by
  have hne : q.magnitude2 ≠ 0 := fun h => hq ((Cg.C04.magnitude2_eq_zero_iff q).1 h)
  obtain ⟨i1, i2⟩ := Cg.C04.mul_invert q hne
  constructor
  · simp only [okS_out, Trace.C04.t_q_invert, Trace.C04.t_q_mul, Trace.C04Auto.t_q_one]; rw [i1]
  · simp only [okS_out, Trace.C04.t_q_invert, Trace.C04.t_q_mul, Trace.C04Auto.t_q_one]; rw [i2]
example : (Quat.new 0 1 0 0 : Quat ℝ) ≠ Quat.zero := by
  intro h; have := congrArg (fun q : Quat ℝ => q.v.x) h; simp [Quat.new, Quat.fromSv, Quat.zero] at this

section approx
variable [Approx ℝ]

/-- **`Basis3::invert` as computed, on a rotation** (the `Basis3` of a unit quaternion, as the harness builds it): the returning
path is the one taken and the panicking one is not; the traced product of the traced `Basis3` matrix with the returned inverse
is `Basis3::one()` as computed, both ways; the inverse is the traced transpose -/
theorem code_b3_invert_full (q : Quat ℝ) (hq : q.magnitude2 = 1) :
    (t_b3_invert_some (envL q.toList)).Consistent ∧ ¬ (t_b3_invert_panic (envL q.toList)).Consistent ∧
    Gen.C01.t_m3_mul (envL ((Gen.C05.t_q_to_basis3 (envL q.toList)).out ++ (t_b3_invert_some (envL q.toList)).out)) =
      Gen.C05.t_b3_one (envL ([] : List ℝ)) ∧
    Gen.C01.t_m3_mul (envL ((t_b3_invert_some (envL q.toList)).out ++ (Gen.C05.t_q_to_basis3 (envL q.toList)).out)) =
      Gen.C05.t_b3_one (envL ([] : List ℝ)) ∧
    (t_b3_invert_some (envL q.toList)).out = (Gen.C01.t_m3_transpose (envL (Gen.C05.t_q_to_basis3 (envL q.toList)).out)).out := by
  obtain ⟨hc, hnp⟩ := (code_b3_invert_paths q).2.2.2 hq
  obtain ⟨g, hk, -⟩ := code_b3_invert_unit q hq
  obtain ⟨ho, ho', -⟩ := Cg.C05.toM3_orthonormal q hq
  refine ⟨hc, hnp, ?_, ?_, ?_⟩
  · simp only [hk, okG_out, Trace.C05Auto.t_q_to_basis3, okS_out, Basis3.fromQuaternion, Trace.C01.t_m3_mul,
      Trace.C05Auto.t_b3_one, Basis3.one]
    rw [ho']
  · simp only [hk, okG_out, Trace.C05Auto.t_q_to_basis3, okS_out, Basis3.fromQuaternion, Trace.C01.t_m3_mul,
      Trace.C05Auto.t_b3_one, Basis3.one]
    rw [ho]
  · simp only [hk, okG_out, Trace.C05Auto.t_q_to_basis3, okS_out, Basis3.fromQuaternion, Trace.C01.t_m3_transpose]

/-- **`Basis3::from_axis_angle(a, t)` as computed**: the traced `Matrix3 * v` (what `Basis3::rotate_vector` runs) applied to its
matrix maps every `v` to Rodrigues' formula.  For a unit axis: the axis is fixed; the matrix is orthonormal both ways with
determinant `+1`; the traced product of two such matrices about the same axis is the kernel at the sum of the angles; the
`Basis3` the harness builds from the traced `Quaternion::from_axis_angle` (`Basis3::from(q)`) is the same matrix, so the traced
`Basis3::rotate_vector` acts by Rodrigues' formula and the traced `Basis3 * Basis3` adds angles; the traced `invert` takes the
returning path, returns the kernel at `-t`, and `r * invert(r) = invert(r) * r = one()` as computed -/
theorem code_b3_from_axis_angle_full (a v : V3 ℝ) (t t' : ℝ) :
    ∃ f : V3 ℝ → ℝ → M3 ℝ, (∀ b s, t_b3_from_axis_angle (envL (b.toList ++ [s])) = .okS (f b s).toList) ∧
      Gen.C01.t_m3_mul_v (envL ((t_b3_from_axis_angle (envL (a.toList ++ [t]))).out ++ v.toList)) =
        .okS (C06.rodrigues a (Real.cos t) (Real.sin t) v).toList ∧
      (a.magnitude2 = 1 →
        Gen.C01.t_m3_mul_v (envL ((t_b3_from_axis_angle (envL (a.toList ++ [t]))).out ++ a.toList)) = .okS a.toList ∧
        (f a t).transpose * f a t = M3.one ∧ f a t * (f a t).transpose = M3.one ∧ (f a t).det = 1 ∧
        Gen.C01.t_m3_mul (envL ((t_b3_from_axis_angle (envL (a.toList ++ [t]))).out ++
            (t_b3_from_axis_angle (envL (a.toList ++ [t']))).out)) = t_b3_from_axis_angle (envL (a.toList ++ [t + t'])) ∧
        Gen.C05.t_q_to_basis3 (envL (t_q_from_axis_angle (envL (a.toList ++ [t]))).out) =
          t_b3_from_axis_angle (envL (a.toList ++ [t])) ∧
        Gen.C05.t_b3_rotate_vector (envL ((t_q_from_axis_angle (envL (a.toList ++ [t]))).out ++ v.toList)) =
          .okS (C06.rodrigues a (Real.cos t) (Real.sin t) v).toList ∧
        Gen.C05.t_b3_mul (envL ((t_q_from_axis_angle (envL (a.toList ++ [t]))).out ++
            (t_q_from_axis_angle (envL (a.toList ++ [t']))).out)) = t_b3_from_axis_angle (envL (a.toList ++ [t + t'])) ∧
        (t_b3_invert_some (envL (t_q_from_axis_angle (envL (a.toList ++ [t]))).out)).Consistent ∧
        ¬ (t_b3_invert_panic (envL (t_q_from_axis_angle (envL (a.toList ++ [t]))).out)).Consistent ∧
        (t_b3_invert_some (envL (t_q_from_axis_angle (envL (a.toList ++ [t]))).out)).out =
          (t_b3_from_axis_angle (envL (a.toList ++ [-t]))).out ∧
        Gen.C01.t_m3_mul (envL ((t_b3_from_axis_angle (envL (a.toList ++ [t]))).out ++
            (t_b3_invert_some (envL (t_q_from_axis_angle (envL (a.toList ++ [t]))).out)).out)) =
          Gen.C05.t_b3_one (envL ([] : List ℝ)) ∧
        Gen.C01.t_m3_mul (envL ((t_b3_invert_some (envL (t_q_from_axis_angle (envL (a.toList ++ [t]))).out)).out ++
            (t_b3_from_axis_angle (envL (a.toList ++ [t]))).out)) = Gen.C05.t_b3_one (envL ([] : List ℝ))) := by
  refine ⟨M3.fromAxisAngle, Trace.C06Rest.t_b3_from_axis_angle, ?_, fun ha => ?_⟩
  · rw [Trace.C06Rest.t_b3_from_axis_angle, okS_out, Trace.C01.t_m3_mul_v]
    exact congrArg (fun w : V3 ℝ => Tr.okS w.toList) (C06.m3_axisAngle_real a v t)
  obtain ⟨o1, o2, o3⟩ := C06.m3_axisAngle_orthonormal_real a t ha
  have hu : (Quat.fromAxisAngle a t).magnitude2 = 1 := (C06.quat_axisAngle_real a v t ha).2
  have hM := fun u : ℝ => quat_axisAngle_toM3 a u ha
  obtain ⟨g, hk, -⟩ := code_b3_invert_unit (Quat.fromAxisAngle a t) hu
  obtain ⟨hc, hnp⟩ := (code_b3_invert_paths (Quat.fromAxisAngle a t)).2.2.2 hu
  have hq : (t_q_from_axis_angle (envL (a.toList ++ [t]))).out = (Quat.fromAxisAngle a t).toList := by
    rw [Trace.C06.t_q_from_axis_angle, okS_out]
  have hq' : (t_q_from_axis_angle (envL (a.toList ++ [t']))).out = (Quat.fromAxisAngle a t').toList := by
    rw [Trace.C06.t_q_from_axis_angle, okS_out]
  rw [hM] at hk
  refine ⟨?_, o1, o2, o3, ?_, ?_, ?_, ?_, ?_, ?_, ?_, ?_, ?_⟩
  · rw [Trace.C06Rest.t_b3_from_axis_angle, okS_out, Trace.C01.t_m3_mul_v]
    exact congrArg (fun w : V3 ℝ => Tr.okS w.toList) (C06.m3_axisAngle_rotation_real a t ha).1
  · simp only [Trace.C06Rest.t_b3_from_axis_angle, okS_out, Trace.C01.t_m3_mul]
    rw [C06.axisAngle_add_real a t t' ha]
  · rw [hq, Trace.C05Auto.t_q_to_basis3, Trace.C06Rest.t_b3_from_axis_angle]
    simp only [Basis3.fromQuaternion, hM]
  · rw [hq, Trace.C05Auto.t_b3_rotate_vector]
    simp only [Basis3.fromQuaternion, hM, Basis3.rotateVector]
    exact congrArg (fun w : V3 ℝ => Tr.okS w.toList) (C06.m3_axisAngle_real a v t)
  · rw [hq, hq', Trace.C05.t_b3_mul, Trace.C06Rest.t_b3_from_axis_angle]
    simp only [Basis3.fromQuaternion, hM, Basis3.mul]
    rw [C06.axisAngle_add_real a t t' ha]
  · rw [hq]; exact hc
  · rw [hq]; exact hnp
  · rw [hq, hk, okG_out, Trace.C06Rest.t_b3_from_axis_angle, okS_out, C06.m3_axisAngle_transpose_real]
  · rw [hq, hk, okG_out, Trace.C06Rest.t_b3_from_axis_angle, okS_out, Trace.C01.t_m3_mul, o2, Trace.C05Auto.t_b3_one]
    rfl
  · rw [hq, hk, okG_out, Trace.C06Rest.t_b3_from_axis_angle, okS_out, Trace.C01.t_m3_mul, o1, Trace.C05Auto.t_b3_one]
    rfl

/-- **`Basis2` / `Matrix2` as computed**: `Basis2 * Basis2` (`t_b2_mul`) and the traced `Matrix2 * Matrix2` of two
`from_angle` kernels are the kernel at the sum of the angles; the traced `Basis2::rotate_vector` maps `(1,0)` to
`(cos t, sin t)`, `(0,1)` to `(-sin t, cos t)`, and every `v` to `(x cos t - y sin t, x sin t + y cos t)`; `Basis2::one()` as
computed is `from_angle(0)` as computed; the matrix is orthonormal both ways with determinant `+1`; `invert` takes the
returning path, returns `from_angle(-t)` as computed, and `r * invert(r) = invert(r) * r = one()` as computed -/
theorem code_b2_full (s t : ℝ) (v : V2 ℝ) :
    t_b2_mul (envL ([s] ++ [t])) = t_b2_from_angle (envL [s + t]) ∧
    Gen.C01.t_m2_mul (envL ((t_m2_from_angle (envL [s])).out ++ (t_m2_from_angle (envL [t])).out)) =
      t_m2_from_angle (envL [s + t]) ∧
    t_b2_rotate_vector (envL ([t] ++ (⟨1, 0⟩ : V2 ℝ).toList)) = .okS (⟨Real.cos t, Real.sin t⟩ : V2 ℝ).toList ∧
    t_b2_rotate_vector (envL ([t] ++ (⟨0, 1⟩ : V2 ℝ).toList)) = .okS (⟨-Real.sin t, Real.cos t⟩ : V2 ℝ).toList ∧
    t_b2_rotate_vector (envL ([t] ++ v.toList)) =
      .okS (⟨v.x * Real.cos t - v.y * Real.sin t, v.x * Real.sin t + v.y * Real.cos t⟩ : V2 ℝ).toList ∧
    t_b2_one (envL ([] : List ℝ)) = t_b2_from_angle (envL [(0 : ℝ)]) ∧
    (∃ m : M2 ℝ, t_b2_from_angle (envL [t]) = .okS m.toList ∧ m.transpose * m = M2.one ∧ m * m.transpose = M2.one ∧
      m.det = 1) ∧
    (t_b2_invert_some (envL [t])).Consistent ∧
    (t_b2_invert_some (envL [t])).out = (t_b2_from_angle (envL [-t])).out ∧
    Gen.C01.t_m2_mul (envL ((t_b2_from_angle (envL [t])).out ++ (t_b2_invert_some (envL [t])).out)) =
      t_b2_one (envL ([] : List ℝ)) ∧
    Gen.C01.t_m2_mul (envL ((t_b2_invert_some (envL [t])).out ++ (t_b2_from_angle (envL [t])).out)) =
      t_b2_one (envL ([] : List ℝ)) := by
  obtain ⟨hc, i, hk, l, r, hi⟩ := code_b2_invert_real t
  obtain ⟨r1, r2, r3, -⟩ := C06.basis2_fromAngle_real t v
  have hadd := (C06.m2_fromAngle_real s t).2.2.1
  subst hi
  refine ⟨?_, ?_, ?_, ?_, ?_, ?_, ⟨M2.fromAngle t, Trace.C06.t_b2_from_angle t, (C06.m2_fromAngle_orthonormal t).1,
    (C06.m2_fromAngle_orthonormal t).2.1, (C06.m2_fromAngle_orthonormal t).2.2⟩, hc, ?_, ?_, ?_⟩
  · rw [Trace.C06Auto.t_b2_mul, Trace.C06.t_b2_from_angle]
    simp only [Basis2.mul]; rw [hadd]
  · simp only [Trace.C06.t_m2_from_angle, okS_out, Trace.C01.t_m2_mul]; rw [hadd]
  · rw [Trace.C06Auto.t_b2_rotate_vector]
    exact congrArg (fun w : V2 ℝ => Tr.okS w.toList) r1
  · rw [Trace.C06Auto.t_b2_rotate_vector]
    exact congrArg (fun w : V2 ℝ => Tr.okS w.toList) r2
  · rw [Trace.C06Auto.t_b2_rotate_vector]
    exact congrArg (fun w : V2 ℝ => Tr.okS w.toList) r3
  · rw [Trace.C06Auto.t_b2_one, Trace.C06.t_b2_from_angle, ← (C06.basis2_fromAngle_orthonormal' 0).2.2.2]
    rfl
  · rw [hk, okG_out, Trace.C06.t_b2_from_angle, okS_out]
  · rw [hk, okG_out, Trace.C06.t_b2_from_angle, okS_out, Trace.C01.t_m2_mul, l, Trace.C06Auto.t_b2_one]
    rfl
  · rw [hk, okG_out, Trace.C06.t_b2_from_angle, okS_out, Trace.C01.t_m2_mul, r, Trace.C06Auto.t_b2_one]
    rfl

/-- `Angle::sin_cos` as computed returns the real sine and cosine, a point of the unit circle -/
theorem code_rad_sin_cos (x : ℝ) :
    ∃ s c : ℝ, t_rad_sin_cos (envL [x]) = .okS [s, c] ∧ s = Real.sin x ∧ c = Real.cos x ∧ s * s + c * c = 1 :=
  ⟨Real.sin x, Real.cos x, Trace.C06Auto.t_rad_sin_cos x, rfl, rfl, by nlinarith [Real.sin_sq_add_cos_sq x]⟩

/-- **`Matrix3::from_axis_angle(a, t)` as computed, the half `code_m3_from_axis_angle` leaves out**: the traced `Matrix3 * v`
applied to it is Rodrigues' formula, and for a unit axis the traced product with the traced transpose is the identity BOTH ways
(`M Mᵀ = Mᵀ M = 1`) -/
theorem code_m3_from_axis_angle_both (a v : V3 ℝ) (t : ℝ) :
    Gen.C01.t_m3_mul_v (envL ((t_m3_from_axis_angle (envL (a.toList ++ [t]))).out ++ v.toList)) =
      .okS (C06.rodrigues a (Real.cos t) (Real.sin t) v).toList ∧
    (a.magnitude2 = 1 →
      Gen.C01.t_m3_mul (envL ((t_m3_from_axis_angle (envL (a.toList ++ [t]))).out ++
          (Gen.C01.t_m3_transpose (envL (t_m3_from_axis_angle (envL (a.toList ++ [t]))).out)).out)) =
        .okS (M3.one : M3 ℝ).toList ∧
      Gen.C01.t_m3_mul (envL ((Gen.C01.t_m3_transpose (envL (t_m3_from_axis_angle (envL (a.toList ++ [t]))).out)).out ++
          (t_m3_from_axis_angle (envL (a.toList ++ [t]))).out)) = .okS (M3.one : M3 ℝ).toList ∧
      Gen.C01.t_m3_transpose (envL (t_m3_from_axis_angle (envL (a.toList ++ [t]))).out) =
        t_m3_from_axis_angle (envL (a.toList ++ [-t]))) := by
  refine ⟨?_, fun ha => ?_⟩
  · rw [Trace.C06.t_m3_from_axis_angle, okS_out, Trace.C01.t_m3_mul_v]
    exact congrArg (fun w : V3 ℝ => Tr.okS w.toList) (C06.m3_axisAngle_real a v t)
  obtain ⟨o1, o2, -⟩ := C06.m3_axisAngle_orthonormal_real a t ha
  refine ⟨?_, ?_, ?_⟩
  · simp only [Trace.C06.t_m3_from_axis_angle, okS_out, Trace.C01.t_m3_transpose, Trace.C01.t_m3_mul]; rw [o2]
  · simp only [Trace.C06.t_m3_from_axis_angle, okS_out, Trace.C01.t_m3_transpose, Trace.C01.t_m3_mul]; rw [o1]
  · simp only [Trace.C06.t_m3_from_axis_angle, okS_out, Trace.C01.t_m3_transpose]; rw [C06.m3_axisAngle_transpose_real]

/-- the hypotheses are satisfiable: a unit axis off the coordinate axes, and the unit quaternion the kernels build from it -/
example : (⟨2 / 7, 3 / 7, 6 / 7⟩ : V3 ℝ).magnitude2 = 1 := by norm_num
example : (Quat.fromAxisAngle (⟨2 / 7, 3 / 7, 6 / 7⟩ : V3 ℝ) 1).magnitude2 = 1 :=
  (C06.quat_axisAngle_real _ ⟨0, 0, 0⟩ 1 (by norm_num)).2
end approx
end real
end Cg.E2E.C06
