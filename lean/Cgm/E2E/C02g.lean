import Cgm.Lemmas.GuardSem
import Cgm.E2E.C02
/-!
# C02, end to end, with the guard semantics: `invert` returns `None` EXACTLY WHEN the determinant is zero

`Cgm/E2E/C02.lean` states what each traced path of `invert` returns; `code_invert_none_path` there holds
for every input (a kernel is a closed term).  Here the comparisons the paths recorded are given their
meaning (`Cgm/Lemmas/GuardSem.lean`): the `None` path is the one the code takes (`Tr.Consistent`) iff
`det = 0`, the `Some` path iff `det ≠ 0`; on the latter the output is the flattening of THE two-sided
inverse (pinned: `toList` is injective).
-/
set_option linter.unusedSectionVars false
namespace Cg.E2E.C02
open Cg Cg.Gen.C02
variable {K : Type} [Field K] [DecidableEq K] [Transc K] [FRem K] [Lits K] [LT K] [LE K] [Approx K]

/-! ## the comparisons each path records, for every input (no path hypothesis) -/
theorem g_m2_invert_some (a : M2 K) : (t_m2_invert_some (envL a.toList)).guards = [.eq a.det 0 false] := by
  tr_auto
theorem g_m3_invert_some (a : M3 K) : (t_m3_invert_some (envL a.toList)).guards = [.eq a.det 0 false] := by
  tr_auto
theorem g_m4_invert_some (a : M4 K) : (t_m4_invert_some (envL a.toList)).guards = [.eq a.det 0 false] := by
  simp [envL, M4.toList, V4.toList, M4.det, M4.detSubProc]
theorem g_m4_inverse_transform_some (a : M4 K) :
    (t_m4_inverse_transform_some (envL a.toList)).guards = [.eq a.det 0 false] := by
  simp [envL, M4.toList, V4.toList, M4.det, M4.detSubProc]
theorem g_m3_inverse_transform_some (a : M3 K) :
    (t_m3_inverse_transform_some (envL a.toList)).guards = [.eq a.det 0 false] := by
  tr_auto

/-! ## consistency of a path ↔ its path condition -/
theorem m2_invert_none_consistent (a : M2 K) : (t_m2_invert_none (envL a.toList)).Consistent ↔ a.det = 0 := by
  rw [Trace.C02.t_m2_invert_none]; simp
theorem m3_invert_none_consistent (a : M3 K) : (t_m3_invert_none (envL a.toList)).Consistent ↔ a.det = 0 := by
  rw [Trace.C02.t_m3_invert_none]; simp
theorem m4_invert_none_consistent (a : M4 K) : (t_m4_invert_none (envL a.toList)).Consistent ↔ a.det = 0 := by
  rw [Trace.C02.t_m4_invert_none]; simp
theorem m2_invert_some_consistent (a : M2 K) : (t_m2_invert_some (envL a.toList)).Consistent ↔ a.det ≠ 0 := by
  rw [Tr.Consistent, g_m2_invert_some]; simp
theorem m3_invert_some_consistent (a : M3 K) : (t_m3_invert_some (envL a.toList)).Consistent ↔ a.det ≠ 0 := by
  rw [Tr.Consistent, g_m3_invert_some]; simp
theorem m4_invert_some_consistent (a : M4 K) : (t_m4_invert_some (envL a.toList)).Consistent ↔ a.det ≠ 0 := by
  rw [Tr.Consistent, g_m4_invert_some]; simp
theorem m4_inverse_transform_some_consistent (a : M4 K) :
    (t_m4_inverse_transform_some (envL a.toList)).Consistent ↔ a.det ≠ 0 := by
  rw [Tr.Consistent, g_m4_inverse_transform_some]; simp
theorem m3_inverse_transform_some_consistent (a : M3 K) :
    (t_m3_inverse_transform_some (envL a.toList)).Consistent ↔ a.det ≠ 0 := by
  rw [Tr.Consistent, g_m3_inverse_transform_some]; simp
theorem m4_inverse_transform_vector_none_consistent (a : M4 K) (u : V3 K) :
    (t_m4_inverse_transform_vector_none (envL (a.toList ++ u.toList))).Consistent ↔ a.det = 0 := by
  rw [Trace.C02.t_m4_inverse_transform_vector_none]; simp

/-- for every 2x2 matrix exactly one of the two paths of `invert` is the one the code takes -/
theorem m2_invert_exactly_one (a : M2 K) :
    Tr.ExactlyOne [t_m2_invert_none (envL a.toList), t_m2_invert_some (envL a.toList)] := by
  unfold Tr.ExactlyOne
  simp only [List.pairwise_cons, List.mem_cons, List.not_mem_nil, or_false, forall_eq_or_imp, forall_eq, exists_eq_or_imp,
    exists_eq_left, List.Pairwise.nil, and_true, IsEmpty.forall_iff, implies_true,
    m2_invert_none_consistent, m2_invert_some_consistent]
  by_cases h : a.det = 0 <;> simp [h, -M2.det, -M3.det]
/-- for every 3x3 matrix exactly one of the two paths of `invert` is the one the code takes -/
theorem m3_invert_exactly_one (a : M3 K) :
    Tr.ExactlyOne [t_m3_invert_none (envL a.toList), t_m3_invert_some (envL a.toList)] := by
  unfold Tr.ExactlyOne
  simp only [List.pairwise_cons, List.mem_cons, List.not_mem_nil, or_false, forall_eq_or_imp, forall_eq, exists_eq_or_imp,
    exists_eq_left, List.Pairwise.nil, and_true, IsEmpty.forall_iff, implies_true,
    m3_invert_none_consistent, m3_invert_some_consistent]
  by_cases h : a.det = 0 <;> simp [h, -M2.det, -M3.det]
/-- for every 4x4 matrix exactly one of the two paths of `invert` is the one the code takes -/
theorem m4_invert_exactly_one (a : M4 K) :
    Tr.ExactlyOne [t_m4_invert_none (envL a.toList), t_m4_invert_some (envL a.toList)] := by
  unfold Tr.ExactlyOne
  simp only [List.pairwise_cons, List.mem_cons, List.not_mem_nil, or_false, forall_eq_or_imp, forall_eq, exists_eq_or_imp,
    exists_eq_left, List.Pairwise.nil, and_true, IsEmpty.forall_iff, implies_true,
    m4_invert_none_consistent, m4_invert_some_consistent]
  by_cases h : a.det = 0 <;> simp [h, -M2.det, -M3.det]

/-! ## one statement per dimension

For every matrix exactly one of the two traced paths of `invert` is the one the code takes; it is the
`None` path exactly when the determinant is zero; when it is the `Some` path, the code's output is the
flattening of a matrix `n` with `a * n = n * a = 1`, and `n` is the only matrix the output flattens. -/
theorem code_m2_invert_exact (a : M2 K) :
    ((t_m2_invert_none (envL a.toList)).Consistent ↔ a.det = 0) ∧
    ((t_m2_invert_some (envL a.toList)).Consistent ↔ a.det ≠ 0) ∧
    ((t_m2_invert_none (envL a.toList)).Consistent ↔ ¬ (t_m2_invert_some (envL a.toList)).Consistent) ∧
    (t_m2_invert_none (envL a.toList)).res = .none ∧
    ((t_m2_invert_some (envL a.toList)).Consistent →
      ∃ n : M2 K, t_m2_invert_some (envL a.toList) = .okG n.toList [.eq a.det 0 false] ∧ a * n = M2.one ∧ n * a = M2.one ∧
        ∀ n' : M2 K, (t_m2_invert_some (envL a.toList)).out = n'.toList → n' = n) := by
  refine ⟨m2_invert_none_consistent a, m2_invert_some_consistent a, ?_, ?_, fun h => ?_⟩
  · rw [m2_invert_none_consistent, m2_invert_some_consistent]; simp
  · rw [Trace.C02.t_m2_invert_none]; rfl
  · obtain ⟨n, h1, h2, h3⟩ := code_m2_invert_two_sided a ((m2_invert_some_consistent a).1 h)
    refine ⟨n, h1, h2, h3, fun n' hn' => ?_⟩
    rw [h1] at hn'
    exact (M2.toList_injective hn').symm
theorem code_m3_invert_exact (a : M3 K) :
    ((t_m3_invert_none (envL a.toList)).Consistent ↔ a.det = 0) ∧
    ((t_m3_invert_some (envL a.toList)).Consistent ↔ a.det ≠ 0) ∧
    ((t_m3_invert_none (envL a.toList)).Consistent ↔ ¬ (t_m3_invert_some (envL a.toList)).Consistent) ∧
    (t_m3_invert_none (envL a.toList)).res = .none ∧
    ((t_m3_invert_some (envL a.toList)).Consistent →
      ∃ n : M3 K, t_m3_invert_some (envL a.toList) = .okG n.toList [.eq a.det 0 false] ∧ a * n = M3.one ∧ n * a = M3.one ∧
        ∀ n' : M3 K, (t_m3_invert_some (envL a.toList)).out = n'.toList → n' = n) := by
  refine ⟨m3_invert_none_consistent a, m3_invert_some_consistent a, ?_, ?_, fun h => ?_⟩
  · rw [m3_invert_none_consistent, m3_invert_some_consistent]; simp
  · rw [Trace.C02.t_m3_invert_none]; rfl
  · obtain ⟨n, h1, h2, h3⟩ := code_m3_invert_two_sided a ((m3_invert_some_consistent a).1 h)
    refine ⟨n, h1, h2, h3, fun n' hn' => ?_⟩
    rw [h1] at hn'
    exact (M3.toList_injective hn').symm
theorem code_m4_invert_exact (a : M4 K) :
    ((t_m4_invert_none (envL a.toList)).Consistent ↔ a.det = 0) ∧
    ((t_m4_invert_some (envL a.toList)).Consistent ↔ a.det ≠ 0) ∧
    ((t_m4_invert_none (envL a.toList)).Consistent ↔ ¬ (t_m4_invert_some (envL a.toList)).Consistent) ∧
    (t_m4_invert_none (envL a.toList)).res = .none ∧
    ((t_m4_invert_some (envL a.toList)).Consistent →
      ∃ n : M4 K, t_m4_invert_some (envL a.toList) = .okG n.toList [.eq a.det 0 false] ∧ a * n = M4.one ∧ n * a = M4.one ∧
        ∀ n' : M4 K, (t_m4_invert_some (envL a.toList)).out = n'.toList → n' = n) := by
  refine ⟨m4_invert_none_consistent a, m4_invert_some_consistent a, ?_, ?_, fun h => ?_⟩
  · rw [m4_invert_none_consistent, m4_invert_some_consistent]; simp
  · rw [Trace.C02.t_m4_invert_none]; rfl
  · obtain ⟨n, h1, h2, h3⟩ := code_m4_invert_two_sided a ((m4_invert_some_consistent a).1 h)
    refine ⟨n, h1, h2, h3, fun n' hn' => ?_⟩
    rw [h1] at hn'
    exact (M4.toList_injective hn').symm

/-- not vacuous: both paths occur (the identity is invertible, the zero matrix is not) -/
example : (t_m2_invert_some (envL (M2.one : M2 K).toList)).Consistent := by
  rw [m2_invert_some_consistent]; simp
example : (t_m2_invert_none (envL (M2.zero : M2 K).toList)).Consistent := by
  rw [m2_invert_none_consistent]; simp
end Cg.E2E.C02
