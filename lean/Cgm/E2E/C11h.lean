import Cgm.E2E.C11
import Cgm.Trace.C03Auto
import Cgm.Props.C11b
/-!
# C11 (completion), end to end: magnitude, distance, `normalize`, `normalize_to`, `project_on` as the code computes them for
`Vector1`, `Vector2`, `Vector4` and quaternions, and the distances of `Point1/2/3` (`Cgm/E2E/C11.lean` has `Vector3`), over the
reals.  The `Vector1/2/4` distance / normalisation / projection kernels were traced with C03 (`Cg.Gen.C03`).
-/
set_option linter.unusedSectionVars false
namespace Cg.E2E.C11
open Cg Cg.Gen.C11 Real
variable [FRem ℝ] [Lits ℝ]

/-- `Vector1`: `magnitude(v)^2 = magnitude2(v)` (no `0 ≤ magnitude2(v)` conjunct here: that is model level,
`magnitude_sq` in `Props/C11.lean`); `distance` is symmetric, the magnitude of the difference, its square is
`distance2`; the whole theorem is under `0 < magnitude2(v)`, i.e. `v ≠ 0`: `normalize(v)` has length 1, `normalize_to(v, m)` length `|m|` and is a positive multiple of `v` when
`m > 0`; `project_on(u, v)` is parallel to `v` and `u - project_on(u, v)` is orthogonal to `v` -/
theorem code_v1_metric (u v : V1 ℝ) (m : ℝ) (hv : 0 < v.magnitude2) :
    ∃ (mg d : ℝ) (nz nt pr : V1 ℝ), Cg.Gen.C03.t_v1_magnitude (envL v.toList) = .okS [mg] ∧
      Cg.Gen.C03.t_v1_distance (envL (u.toList ++ v.toList)) = .okS [d] ∧ Cg.Gen.C03.t_v1_normalize (envL v.toList) = .okS nz.toList ∧
      Cg.Gen.C03.t_v1_normalize_to (envL (v.toList ++ [m])) = .okS nt.toList ∧ Cg.Gen.C03.t_v1_project_on (envL (u.toList ++ v.toList)) = .okS pr.toList ∧
      mg ^ 2 = v.magnitude2 ∧ d = V1.distance v u ∧ d = (u - v).magnitude ∧ d ^ 2 = V1.distance2 u v ∧
      nz.magnitude = 1 ∧ nt.magnitude = |m| ∧ (0 < m → ∃ k : ℝ, 0 < k ∧ nt = v * k) ∧
      (∃ k : ℝ, pr = v * k) ∧ V1.dot (u - pr) v = 0 := by
  obtain ⟨d1, d2, d3⟩ := C11.V1.distance_spec u v
  obtain ⟨n1, n2, n3⟩ := C11.V1.normalizeTo_spec v m hv
  obtain ⟨p1, p2⟩ := C11.V1.projectOn_spec u v hv.ne'
  exact ⟨_, _, _, _, _, Trace.C03Auto.t_v1_magnitude v, Trace.C03Auto.t_v1_distance u v, Trace.C03Auto.t_v1_normalize v, Trace.C03Auto.t_v1_normalize_to v m, Trace.C03Auto.t_v1_project_on u v, (C11.V1.magnitude_sq v).1, d1, d2, d3,
    n2, n1, n3, p1, p2⟩

/-- `Vector2`: `magnitude(v)^2 = magnitude2(v)` (no `0 ≤ magnitude2(v)` conjunct here: that is model level,
`magnitude_sq` in `Props/C11.lean`); `distance` is symmetric, the magnitude of the difference, its square is
`distance2`; the whole theorem is under `0 < magnitude2(v)`, i.e. `v ≠ 0`: `normalize(v)` has length 1, `normalize_to(v, m)` length `|m|` and is a positive multiple of `v` when
`m > 0`; `project_on(u, v)` is parallel to `v` and `u - project_on(u, v)` is orthogonal to `v` -/
theorem code_v2_metric (u v : V2 ℝ) (m : ℝ) (hv : 0 < v.magnitude2) :
    ∃ (mg d : ℝ) (nz nt pr : V2 ℝ), t_v2_magnitude (envL v.toList) = .okS [mg] ∧
      Cg.Gen.C03.t_v2_distance (envL (u.toList ++ v.toList)) = .okS [d] ∧ Cg.Gen.C03.t_v2_normalize (envL v.toList) = .okS nz.toList ∧
      Cg.Gen.C03.t_v2_normalize_to (envL (v.toList ++ [m])) = .okS nt.toList ∧ Cg.Gen.C03.t_v2_project_on (envL (u.toList ++ v.toList)) = .okS pr.toList ∧
      mg ^ 2 = v.magnitude2 ∧ d = V2.distance v u ∧ d = (u - v).magnitude ∧ d ^ 2 = V2.distance2 u v ∧
      nz.magnitude = 1 ∧ nt.magnitude = |m| ∧ (0 < m → ∃ k : ℝ, 0 < k ∧ nt = v * k) ∧
      (∃ k : ℝ, pr = v * k) ∧ V2.dot (u - pr) v = 0 := by
  obtain ⟨d1, d2, d3⟩ := C11.V2.distance_spec u v
  obtain ⟨n1, n2, n3⟩ := C11.V2.normalizeTo_spec v m hv
  obtain ⟨p1, p2⟩ := C11.V2.projectOn_spec u v hv.ne'
  exact ⟨_, _, _, _, _, Trace.C11.t_v2_magnitude v, Trace.C03Auto.t_v2_distance u v, Trace.C03Auto.t_v2_normalize v, Trace.C03Auto.t_v2_normalize_to v m, Trace.C03Auto.t_v2_project_on u v, (C11.V2.magnitude_sq v).1, d1, d2, d3,
    n2, n1, n3, p1, p2⟩

/-- `Vector4`: `magnitude(v)^2 = magnitude2(v)` (no `0 ≤ magnitude2(v)` conjunct here: that is model level,
`magnitude_sq` in `Props/C11.lean`); `distance` is symmetric, the magnitude of the difference, its square is
`distance2`; the whole theorem is under `0 < magnitude2(v)`, i.e. `v ≠ 0`: `normalize(v)` has length 1, `normalize_to(v, m)` length `|m|` and is a positive multiple of `v` when
`m > 0`; `project_on(u, v)` is parallel to `v` and `u - project_on(u, v)` is orthogonal to `v` -/
theorem code_v4_metric (u v : V4 ℝ) (m : ℝ) (hv : 0 < v.magnitude2) :
    ∃ (mg d : ℝ) (nz nt pr : V4 ℝ), t_v4_magnitude (envL v.toList) = .okS [mg] ∧
      Cg.Gen.C03.t_v4_distance (envL (u.toList ++ v.toList)) = .okS [d] ∧ Cg.Gen.C03.t_v4_normalize (envL v.toList) = .okS nz.toList ∧
      Cg.Gen.C03.t_v4_normalize_to (envL (v.toList ++ [m])) = .okS nt.toList ∧ Cg.Gen.C03.t_v4_project_on (envL (u.toList ++ v.toList)) = .okS pr.toList ∧
      mg ^ 2 = v.magnitude2 ∧ d = V4.distance v u ∧ d = (u - v).magnitude ∧ d ^ 2 = V4.distance2 u v ∧
      nz.magnitude = 1 ∧ nt.magnitude = |m| ∧ (0 < m → ∃ k : ℝ, 0 < k ∧ nt = v * k) ∧
      (∃ k : ℝ, pr = v * k) ∧ V4.dot (u - pr) v = 0 := by
  obtain ⟨d1, d2, d3⟩ := C11.V4.distance_spec u v
  obtain ⟨n1, n2, n3⟩ := C11.V4.normalizeTo_spec v m hv
  obtain ⟨p1, p2⟩ := C11.V4.projectOn_spec u v hv.ne'
  exact ⟨_, _, _, _, _, Trace.C11.t_v4_magnitude v, Trace.C03Auto.t_v4_distance u v, Trace.C03Auto.t_v4_normalize v, Trace.C03Auto.t_v4_normalize_to v m, Trace.C03Auto.t_v4_project_on u v, (C11.V4.magnitude_sq v).1, d1, d2, d3,
    n2, n1, n3, p1, p2⟩

/-- `Quaternion`: `magnitude(v)^2 = magnitude2(v)` (no `0 ≤ magnitude2(v)` conjunct here: that is model level,
`magnitude_sq` in `Props/C11.lean`); `distance` is symmetric, the magnitude of the difference, its square is
`distance2`; the whole theorem is under `0 < magnitude2(v)`, i.e. `v ≠ 0`: `normalize(v)` has length 1, `normalize_to(v, m)` length `|m|` and is a positive multiple of `v` when
`m > 0`; `project_on(u, v)` is parallel to `v` and `u - project_on(u, v)` is orthogonal to `v` -/
theorem code_q_metric (u v : Quat ℝ) (m : ℝ) (hv : 0 < v.magnitude2) :
    ∃ (mg d : ℝ) (nz nt pr : Quat ℝ), t_q_magnitude (envL v.toList) = .okS [mg] ∧
      t_q_distance (envL (u.toList ++ v.toList)) = .okS [d] ∧ t_q_normalize (envL v.toList) = .okS nz.toList ∧
      t_q_normalize_to (envL (v.toList ++ [m])) = .okS nt.toList ∧ t_q_project_on (envL (u.toList ++ v.toList)) = .okS pr.toList ∧
      mg ^ 2 = v.magnitude2 ∧ d = Quat.distance v u ∧ d = (u - v).magnitude ∧ d ^ 2 = Quat.distance2 u v ∧
      nz.magnitude = 1 ∧ nt.magnitude = |m| ∧ (0 < m → ∃ k : ℝ, 0 < k ∧ nt = v * k) ∧
      (∃ k : ℝ, pr = v * k) ∧ Quat.dot (u - pr) v = 0 := by
  obtain ⟨d1, d2, d3⟩ := C11.Quat.distance_spec u v
  obtain ⟨n1, n2, n3⟩ := C11.Quat.normalizeTo_spec v m hv
  obtain ⟨p1, p2⟩ := C11.Quat.projectOn_spec u v hv.ne'
  exact ⟨_, _, _, _, _, Trace.C11.t_q_magnitude v, Trace.C11Auto.t_q_distance u v, Trace.C11.t_q_normalize v, Trace.C11Auto.t_q_normalize_to v m, Trace.C11Auto.t_q_project_on u v, (C11.Quat.magnitude_sq v).1, d1, d2, d3,
    n2, n1, n3, p1, p2⟩

/-- in one dimension the magnitude kernel chain gives the absolute difference: `distance(u, v) = |v.x - u.x|`, and projecting on a
non-zero vector is the identity -/
theorem code_v1_abs (u v : V1 ℝ) (hv : v.magnitude2 ≠ 0) :
    Cg.Gen.C03.t_v1_distance (envL (u.toList ++ v.toList)) = .okS [|v.x - u.x|] ∧
    Cg.Gen.C03.t_v1_project_on (envL (u.toList ++ v.toList)) = .okS u.toList := by
  constructor
  · rw [Trace.C03Auto.t_v1_distance, C11.V1.distance_eq_abs]
  · rw [Trace.C03Auto.t_v1_project_on, C11.V1.projectOn_eq u v hv]

/-- the quaternion `distance2` kernel returns the square of what the `distance` kernel returns -/
theorem code_q_distance2 (p q : Quat ℝ) :
    ∃ d d2 : ℝ, t_q_distance (envL (p.toList ++ q.toList)) = .okS [d] ∧ t_q_distance2 (envL (p.toList ++ q.toList)) = .okS [d2] ∧
      d ^ 2 = d2 ∧ 0 ≤ d2 :=
  ⟨_, _, Trace.C11Auto.t_q_distance p q, Trace.C11.t_q_distance2 p q, (C11.Quat.distance_spec p q).2.2,
    C11.Quat.magnitude2_nonneg (q - p)⟩

/-- **points** (`MetricSpace` only): `distance` as computed is symmetric, the magnitude of the difference vector, and its square
is what the `distance2` kernel returns -- `Point1`, `Point2`, `Point3` -/
theorem code_points_distance (a1 b1 : P1 ℝ) (a2 b2 : P2 ℝ) (a3 b3 : P3 ℝ) :
    ∃ d1 d2 d3 s1 s2 s3 : ℝ,
      t_p1_distance (envL (a1.toList ++ b1.toList)) = .okS [d1] ∧ t_p1_distance2 (envL (a1.toList ++ b1.toList)) = .okS [s1] ∧
      t_p2_distance (envL (a2.toList ++ b2.toList)) = .okS [d2] ∧ t_p2_distance2 (envL (a2.toList ++ b2.toList)) = .okS [s2] ∧
      t_p3_distance (envL (a3.toList ++ b3.toList)) = .okS [d3] ∧ t_p3_distance2 (envL (a3.toList ++ b3.toList)) = .okS [s3] ∧
      d1 = P1.distance b1 a1 ∧ d1 = (a1 - b1 : V1 ℝ).magnitude ∧ d1 ^ 2 = s1 ∧ d1 = |b1.x - a1.x| ∧
      d2 = P2.distance b2 a2 ∧ d2 = (a2 - b2 : V2 ℝ).magnitude ∧ d2 ^ 2 = s2 ∧
      d3 = P3.distance b3 a3 ∧ d3 = (a3 - b3 : V3 ℝ).magnitude ∧ d3 ^ 2 = s3 := by
  obtain ⟨x1, x2, x3⟩ := C11.P1.distance_spec a1 b1
  obtain ⟨y1, y2, y3⟩ := C11.P2.distance_spec a2 b2
  obtain ⟨z1, z2, z3⟩ := C11.P3.distance_spec a3 b3
  exact ⟨_, _, _, _, _, _, Trace.C11Auto.t_p1_distance a1 b1, Trace.C11Auto.t_p1_distance2 a1 b1,
    Trace.C11Auto.t_p2_distance a2 b2, Trace.C11Auto.t_p2_distance2 a2 b2, Trace.C11Auto.t_p3_distance a3 b3,
    Trace.C11.t_p3_distance2 a3 b3, x1, x2, x3, C11.P1.distance_eq_abs a1 b1, y1, y2, y3, z1, z2, z3⟩

/-- the hypothesis `0 < |v|²` is satisfiable in each type (3-4-5 and friends) -/
example : 0 < (⟨3⟩ : V1 ℝ).magnitude2 ∧ 0 < (⟨3, 4⟩ : V2 ℝ).magnitude2 ∧ 0 < (⟨1, 2, 2, 4⟩ : V4 ℝ).magnitude2 ∧
    0 < (Quat.new 1 2 2 4 : Quat ℝ).magnitude2 := by
  refine ⟨?_, ?_, ?_, ?_⟩ <;> (simp [Quat.new, Quat.fromSv] <;> norm_num)
end Cg.E2E.C11
