import Cgm.E2E.C08b
import Cgm.Trace.C08Paths
import Cgm.Props.C06
/-!
# C08 (completion), end to end: `Decomposed<Vector3, Basis3>`, `Decomposed<Vector2, Basis2>` and the `Matrix3` transforms as
the code computes them

The harness passes a `Basis3` as the unit quaternion it is built from (`Basis3::from(q)`) and a `Basis2` as its angle
(`Basis2::from_angle(a)`): `mk3 s q u`, `mk2 s a u` (`Cgm/Trace/C08Paths.lean`).  "Unit rotation" is therefore `|q|² = 1`
(then `det = 1`, `basis3_ok`), and automatic in 2-D (`basis2_ok`).  Over `ℝ` with the concrete `approx` relations.
-/
set_option linter.unusedSectionVars false
namespace Cg.E2E.C08
open Cg Cg.Gen.C08 Cg.Trace.C08 Cg.Trace.C08Paths

section concrete
open scoped Cg.RealApprox
variable [FRem ℝ] [Lits ℝ]

/-- the `Basis3` of a unit quaternion is invertible (`det = 1`): the `unwrap` panic of `Basis3::invert` is unreachable -/
theorem basis3_ok (s : ℝ) (q : Quat ℝ) (u : V3 ℝ) (hq : q.magnitude2 = 1) : (mk3 s q u).rot.mat.det ≠ 0 := by
  show q.toM3.det ≠ 0
  rw [(Cg.C05.toM3_orthonormal q hq).2.2]; exact one_ne_zero
/-- a `Basis2` built from an angle is invertible (`det = cos² + sin² = 1`) -/
theorem basis2_ok (s a : ℝ) (u : V2 ℝ) : (mk2 s a u).rot.mat.det ≠ 0 := by
  show (M2.fromAngle a).det ≠ 0
  rw [(Cg.C06.m2_fromAngle_real a 0).2.2.2]; exact one_ne_zero

/-! ## `Decomposed<Vector3, Basis3>` -/
/-- **`concat(s, t)`, `s * t`, `concat_self`** as computed give one and the same transform `c`; `c` applied to a point / vector
is what the traced `transform_point` / `transform_vector` of `s` returns on the traced output of that of `t`; its matrix is
the product of the matrices, which is also what the traced `Matrix4::concat` returns on the two traced matrices -/
theorem code_db3_concat (s t : ℝ) (p q : Quat ℝ) (u w : V3 ℝ) (hp : p.magnitude2 = 1) (hq : q.magnitude2 = 1) :
    ∃ c : DB3 ℝ, t_db3_concat (envL (in3 s p u ++ in3 t q w)) = .okS (flb3 c) ∧
      t_db3_mul (envL (in3 s p u ++ in3 t q w)) = .okS (flb3 c) ∧
      t_db3_concat_self (envL (in3 s p u ++ in3 t q w)) = .okS (flb3 c) ∧
      (∀ x : P3 ℝ, t_db3_transform_point (envL (in3 s p u ++ (t_db3_transform_point (envL (in3 t q w ++ x.toList))).out)) =
        .okS (P3.fromVec (c.transformPointV basis3Ops x.toVec)).toList) ∧
      (∀ v : V3 ℝ, t_db3_transform_vector (envL (in3 s p u ++ (t_db3_transform_vector (envL (in3 t q w ++ v.toList))).out)) =
        .okS (c.transformVector basis3Ops v).toList) ∧
      c.toM4 basis3Ops = (mk3 s p u).toM4 basis3Ops * (mk3 t q w).toM4 basis3Ops ∧
      t_m4_concat (envL ((t_db3_to_matrix (envL (in3 s p u))).out ++ (t_db3_to_matrix (envL (in3 t q w))).out)) =
        .okS (c.toM4 basis3Ops).toList := by
  have hs := basis3_ok s p u hp
  have ht := basis3_ok t q w hq
  have h := fun x v => C08.concat_apply3 basis3Ops _ C08.basis3Laws (mk3 s p u) (mk3 t q w) hs ht x v
  have hm := C08.toM4_concat basis3Ops _ C08.basis3Laws (mk3 s p u) (mk3 t q w) hs ht
  refine ⟨Decomposed.concat basis3Ops (mk3 s p u) (mk3 t q w), Trace.C08Paths.t_db3_concat s t p q u w,
    Trace.C08Paths.t_db3_mul s t p q u w, Trace.C08Paths.t_db3_concat_self s t p q u w, fun x => ?_, fun v => ?_, hm, ?_⟩
  · rw [Trace.C08Paths.t_db3_transform_point t q w x]
    show t_db3_transform_point (envL (in3 s p u ++ (P3.fromVec (Decomposed.transformPointV basis3Ops (mk3 t q w) x.toVec)).toList)) = _
    rw [Trace.C08Paths.t_db3_transform_point s p u, (h x.toVec x.toVec).1]
    rfl
  · rw [Trace.C08Paths.t_db3_transform_vector t q w v]
    show t_db3_transform_vector (envL (in3 s p u ++ (Decomposed.transformVector basis3Ops (mk3 t q w) v).toList)) = _
    rw [Trace.C08Paths.t_db3_transform_vector s p u, (h v v).2]
  · rw [Trace.C08Paths.t_db3_to_matrix s p u, Trace.C08Paths.t_db3_to_matrix t q w]
    show t_m4_concat (envL ((Decomposed.toM4 basis3Ops (mk3 s p u)).toList ++ (Decomposed.toM4 basis3Ops (mk3 t q w)).toList)) = _
    rw [Trace.C08.t_m4_concat, hm]

/-- **`one()`**: the identity transform (scale 1, the `Basis3` of the identity quaternion, zero displacement) is the model's
`Decomposed.one`; fed to the traced `transform_point` / `transform_vector` / `concat` kernels it leaves every point and vector
unchanged, and composing with it on either side returns the other transform.  The code's `one()` itself does not occur in this
statement: its kernel is `t_db3_one` (`Cgm/Trace/C08Idx.lean`, kernel = flattened `Decomposed.one`), not composed here -/
theorem code_db3_one (p : P3 ℝ) (v : V3 ℝ) (t : ℝ) (q : Quat ℝ) (w : V3 ℝ) :
    mk3 1 Quat.one V3.zero = (Decomposed.one basis3Ops V3.zero : DB3 ℝ) ∧
    t_db3_transform_point (envL (in3 1 Quat.one V3.zero ++ p.toList)) = .okS p.toList ∧
    t_db3_transform_vector (envL (in3 1 Quat.one V3.zero ++ v.toList)) = .okS v.toList ∧
    t_db3_concat (envL (in3 1 Quat.one V3.zero ++ in3 t q w)) = .okS (flb3 (mk3 t q w)) ∧
    t_db3_concat (envL (in3 t q w ++ in3 1 Quat.one V3.zero)) = .okS (flb3 (mk3 t q w)) := by
  have e : mk3 1 Quat.one V3.zero = (Decomposed.one basis3Ops V3.zero : DB3 ℝ) := by
    simp only [mk3, Decomposed.one, basis3Ops, Basis3.fromQuaternion, Basis3.one]
    congr 2
    ext <;> simp [Quat.toM3, Quat.one, Quat.fromSv]
  have ho := fun x y => C08.one_apply3 basis3Ops _ C08.basis3Laws (F := ℝ) x y
  refine ⟨e, ?_, ?_, ?_, ?_⟩
  · rw [Trace.C08Paths.t_db3_transform_point, e, (ho p.toVec p.toVec).1]; rfl
  · rw [Trace.C08Paths.t_db3_transform_vector, e, (ho v v).2]
  · rw [Trace.C08Paths.t_db3_concat]
    congr 1
    simp only [flb3, Decomposed.concat, mk3, basis3Ops, Basis3.fromQuaternion, Basis3.mul, Basis3.rotateVector]
    have e1 : (Quat.one : Quat ℝ).toM3 = M3.one := by ext <;> simp [Quat.toM3, Quat.one, Quat.fromSv]
    have e2 : (M3.one : M3 ℝ) * q.toM3 = q.toM3 := by ext <;> simp
    have e3 : (M3.one : M3 ℝ) * (w * (1 : ℝ)) + V3.zero = w := by ext <;> simp [V3.zero]
    rw [e1, e2, e3, one_mul]
  · rw [Trace.C08Paths.t_db3_concat]
    congr 1
    simp only [flb3, Decomposed.concat, mk3, basis3Ops, Basis3.fromQuaternion, Basis3.mul, Basis3.rotateVector]
    have e1 : (Quat.one : Quat ℝ).toM3 = M3.one := by ext <;> simp [Quat.toM3, Quat.one, Quat.fromSv]
    have e2 : q.toM3 * (M3.one : M3 ℝ) = q.toM3 := by ext <;> simp
    have e3 : q.toM3 * ((V3.zero : V3 ℝ) * t) + w = w := by ext <;> simp [V3.zero]
    rw [e1, e2, e3, mul_one]

/-- **`transform_vector` ignores the displacement**: as computed, the result is the same for any two displacements -/
theorem code_db3_vector_ignores_disp (s : ℝ) (q : Quat ℝ) (u u' v : V3 ℝ) :
    t_db3_transform_vector (envL (in3 s q u ++ v.toList)) = t_db3_transform_vector (envL (in3 s q u' ++ v.toList)) := by
  rw [Trace.C08Paths.t_db3_transform_vector, Trace.C08Paths.t_db3_transform_vector]; rfl

/-- **converting to a `Matrix4` commutes with applying**: the traced `Matrix4::transform_point` / `transform_vector` on the
traced matrix return what the traced `Decomposed::transform_point` / `transform_vector` return -/
theorem code_db3_matrix_apply (s : ℝ) (q : Quat ℝ) (u : V3 ℝ) (p : P3 ℝ) (v : V3 ℝ) :
    t_m4_transform_point (envL ((t_db3_to_matrix (envL (in3 s q u))).out ++ p.toList)) =
      t_db3_transform_point (envL (in3 s q u ++ p.toList)) ∧
    t_m4_transform_vector (envL ((t_db3_to_matrix (envL (in3 s q u))).out ++ v.toList)) =
      t_db3_transform_vector (envL (in3 s q u ++ v.toList)) := by
  have h := C08.toM4_apply basis3Ops _ C08.basis3Laws (mk3 s q u) p v
  rw [Trace.C08Paths.t_db3_to_matrix s q u]
  constructor
  · show t_m4_transform_point (envL ((Decomposed.toM4 basis3Ops (mk3 s q u)).toList ++ p.toList)) = _
    rw [Trace.C08.t_m4_transform_point, h.1, Trace.C08Paths.t_db3_transform_point]
  · show t_m4_transform_vector (envL ((Decomposed.toM4 basis3Ops (mk3 s q u)).toList ++ v.toList)) = _
    rw [Trace.C08.t_m4_transform_vector, h.2, Trace.C08Paths.t_db3_transform_vector]

/-- **`inverse_transform()` undoes**: for a unit rotation and `|scale| > 1e-6` the code takes the path on which both
comparisons (`ulps_eq!(scale, 0)`, `det == 0`) are false; the traced inverse `i` has an invertible rotation, undoes the traced
transform on points and vectors, its matrix is `Matrix4::invert` of the matrix, and the traced `inverse_transform_vector` on
the traced image of `v` returns `v` -/
theorem code_db3_inverse (s : ℝ) (q : Quat ℝ) (u : V3 ℝ) (hq : q.magnitude2 = 1) (hs : 1e-6 < |s|) :
    ∃ i : DB3 ℝ, t_db3_inverse_transform_some (envL (in3 s q u)) =
        .okG (flb3 i) [.ulps s 0 eps52 4 false, .eq q.toM3.det 0 false] ∧
      i.rot.mat.det ≠ 0 ∧
      (∀ p : P3 ℝ, ∃ r : P3 ℝ, t_db3_transform_point (envL (in3 s q u ++ p.toList)) = .okS r.toList ∧
        i.transformPointV basis3Ops r.toVec = p.toVec) ∧
      (∀ v : V3 ℝ, ∃ r : V3 ℝ, t_db3_transform_vector (envL (in3 s q u ++ v.toList)) = .okS r.toList ∧
        i.transformVector basis3Ops r = v) ∧
      ((mk3 s q u).toM4 basis3Ops).invert = some (i.toM4 basis3Ops) ∧
      (∀ v : V3 ℝ, t_db3_inverse_transform_vector
          (envL (in3 s q u ++ (t_db3_transform_vector (envL (in3 s q u ++ v.toList))).out)) =
        .okG v.toList [.ulps s 0 eps52 4 false, .eq q.toM3.det 0 false]) := by
  have hb := basis3_ok s q u hq
  have hd : q.toM3.det ≠ 0 := hb
  obtain ⟨hz, -⟩ := C08.scale_guards (F := ℝ) realApproxSpec_1em6 le_rfl hs
  obtain ⟨i, hi, hu, h1, h2, h3, -, hm⟩ := (C08.basis3_inverse (mk3 s q u) hb).2 hs
  have hk := Trace.C08Paths.t_db3_inverse_transform_some s q u hz hd
  rw [hi] at hk
  refine ⟨i, hk, hu, fun p => ⟨_, Trace.C08Paths.t_db3_transform_point s q u p, h1 p.toVec⟩,
    fun v => ⟨_, Trace.C08Paths.t_db3_transform_vector s q u v, h2 v⟩, hm, fun v => ?_⟩
  · rw [Trace.C08Paths.t_db3_transform_vector s q u v]
    have hv := Trace.C08Paths.t_db3_inverse_transform_vector s q u ((mk3 s q u).transformVector basis3Ops v) hz hd
    rw [h3 v] at hv
    exact hv

/-- a zero scale takes the `None` path; the panic path (`Basis3::invert().unwrap()` on a singular matrix) needs `det = 0`,
impossible for the `Basis3` of a unit quaternion -/
theorem code_db3_inverse_none (s : ℝ) (q : Quat ℝ) (u : V3 ℝ) :
    (|s| ≤ eps52R → t_db3_inverse_transform_none (envL (in3 s q u)) = .noneG [.ulps s 0 eps52 4 true] ∧
      Decomposed.inverseTransform basis3Ops (mk3 s q u) = .none) ∧
    (q.magnitude2 = 1 → q.toM3.det ≠ 0) ∧
    (eps52R < |s| → q.toM3.det = 0 → t_db3_inverse_transform_panic (envL (in3 s q u)) =
        .panicG [.ulps s 0 eps52 4 false, .eq q.toM3.det 0 true] ∧
      Decomposed.inverseTransform basis3Ops (mk3 s q u) = .panic) := by
  refine ⟨fun h => Trace.C08Paths.t_db3_inverse_transform_none s q u ((real_ulpsEqD_zero s).mpr h),
    fun hq => basis3_ok 0 q u hq, fun h hd => Trace.C08Paths.t_db3_inverse_transform_panic s q u ?_ hd⟩
  rw [← Bool.not_eq_true, real_ulpsEqD_zero, not_le]; exact h

/-! ## `Decomposed<Vector2, Basis2>` -/
/-- **`concat` / `s * t` / `concat_self`** in 2-D (as for `Basis3`); the matrix is a `Matrix3` -/
theorem code_db2_concat (s t a b : ℝ) (u w : V2 ℝ) :
    ∃ c : DB2 ℝ, t_db2_concat (envL ([s, a] ++ u.toList ++ [t, b] ++ w.toList)) = .okS (flb2 c) ∧
      t_db2_mul (envL (in2 s a u ++ in2 t b w)) = .okS (flb2 c) ∧
      t_db2_concat_self (envL (in2 s a u ++ in2 t b w)) = .okS (flb2 c) ∧
      (∀ x : P2 ℝ, t_db2_transform_point (envL (in2 s a u ++ (t_db2_transform_point (envL (in2 t b w ++ x.toList))).out)) =
        .okS (P2.fromVec (c.transformPointV basis2Ops x.toVec)).toList) ∧
      (∀ v : V2 ℝ, t_db2_transform_vector (envL (in2 s a u ++ (t_db2_transform_vector (envL (in2 t b w ++ v.toList))).out)) =
        .okS (c.transformVector basis2Ops v).toList) ∧
      c.toM3 basis2Ops = (mk2 s a u).toM3 basis2Ops * (mk2 t b w).toM3 basis2Ops ∧
      t_m3_concat2 (envL ((t_db2_to_matrix (envL (in2 s a u))).out ++ (t_db2_to_matrix (envL (in2 t b w))).out)) =
        .okS (c.toM3 basis2Ops).toList := by
  have hs := basis2_ok s a u
  have ht := basis2_ok t b w
  have h := fun x v => C08.concat_apply2 basis2Ops _ C08.basis2Laws (mk2 s a u) (mk2 t b w) hs ht x v
  have hm := C08.toM3_concat basis2Ops _ C08.basis2Laws (mk2 s a u) (mk2 t b w) hs ht
  refine ⟨Decomposed.concat basis2Ops (mk2 s a u) (mk2 t b w), Trace.C08.t_db2_concat s t a b u w,
    Trace.C08Paths.t_db2_mul s t a b u w, Trace.C08Paths.t_db2_concat_self s t a b u w, fun x => ?_, fun v => ?_, hm, ?_⟩
  · rw [Trace.C08Paths.t_db2_transform_point t b w x]
    show t_db2_transform_point (envL (in2 s a u ++ (P2.fromVec (Decomposed.transformPointV basis2Ops (mk2 t b w) x.toVec)).toList)) = _
    rw [Trace.C08Paths.t_db2_transform_point s a u, (h x.toVec x.toVec).1]
    rfl
  · rw [Trace.C08Paths.t_db2_transform_vector t b w v]
    show t_db2_transform_vector (envL (in2 s a u ++ (Decomposed.transformVector basis2Ops (mk2 t b w) v).toList)) = _
    rw [Trace.C08Paths.t_db2_transform_vector s a u, (h v v).2]
  · have e1 := Trace.C08.t_db2_to_matrix s a u
    have e2 := Trace.C08.t_db2_to_matrix t b w
    have e1' : t_db2_to_matrix (envL (in2 s a u)) = .okS (Decomposed.toM3 basis2Ops (mk2 s a u)).toList := e1
    have e2' : t_db2_to_matrix (envL (in2 t b w)) = .okS (Decomposed.toM3 basis2Ops (mk2 t b w)).toList := e2
    rw [e1', e2']
    show t_m3_concat2 (envL ((Decomposed.toM3 basis2Ops (mk2 s a u)).toList ++ (Decomposed.toM3 basis2Ops (mk2 t b w)).toList)) = _
    rw [Trace.C08.t_m3_concat2, hm]

/-- **`one()`** in 2-D: scale 1, angle 0, zero displacement -/
theorem code_db2_one (p : P2 ℝ) (v : V2 ℝ) :
    mk2 1 0 V2.zero = (Decomposed.one basis2Ops V2.zero : DB2 ℝ) ∧
    t_db2_transform_point (envL (in2 1 0 V2.zero ++ p.toList)) = .okS p.toList ∧
    t_db2_transform_vector (envL (in2 1 0 V2.zero ++ v.toList)) = .okS v.toList := by
  have e : mk2 1 0 V2.zero = (Decomposed.one basis2Ops V2.zero : DB2 ℝ) := by
    simp only [mk2, Decomposed.one, basis2Ops, Basis2.one]
    congr 2
    ext <;> simp [M2.fromAngle]
  have ho := fun x y => C08.one_apply2 basis2Ops _ C08.basis2Laws (F := ℝ) x y
  refine ⟨e, ?_, ?_⟩
  · rw [Trace.C08Paths.t_db2_transform_point, e, (ho p.toVec p.toVec).1]; rfl
  · rw [Trace.C08Paths.t_db2_transform_vector, e, (ho v v).2]

/-- **`transform_vector` ignores the displacement** (2-D) -/
theorem code_db2_vector_ignores_disp (s a : ℝ) (u u' v : V2 ℝ) :
    t_db2_transform_vector (envL (in2 s a u ++ v.toList)) = t_db2_transform_vector (envL (in2 s a u' ++ v.toList)) := by
  rw [Trace.C08Paths.t_db2_transform_vector, Trace.C08Paths.t_db2_transform_vector]; rfl

/-- **converting to a `Matrix3` commutes with applying** (2-D) -/
theorem code_db2_matrix_apply (s a : ℝ) (u : V2 ℝ) (p : P2 ℝ) (v : V2 ℝ) :
    t_m3_transform_point2 (envL ((t_db2_to_matrix (envL (in2 s a u))).out ++ p.toList)) =
      t_db2_transform_point (envL (in2 s a u ++ p.toList)) ∧
    t_m3_transform_vector2 (envL ((t_db2_to_matrix (envL (in2 s a u))).out ++ v.toList)) =
      t_db2_transform_vector (envL (in2 s a u ++ v.toList)) := by
  have h := C08.toM3_apply basis2Ops _ C08.basis2Laws (mk2 s a u) p v
  have e1 : t_db2_to_matrix (envL (in2 s a u)) = .okS (Decomposed.toM3 basis2Ops (mk2 s a u)).toList :=
    Trace.C08.t_db2_to_matrix s a u
  rw [e1]
  constructor
  · show t_m3_transform_point2 (envL ((Decomposed.toM3 basis2Ops (mk2 s a u)).toList ++ p.toList)) = _
    rw [Trace.C08.t_m3_transform_point2, h.1, Trace.C08Paths.t_db2_transform_point]
  · show t_m3_transform_vector2 (envL ((Decomposed.toM3 basis2Ops (mk2 s a u)).toList ++ v.toList)) = _
    rw [Trace.C08.t_m3_transform_vector2, h.2, Trace.C08Paths.t_db2_transform_vector]

/-- **`inverse_transform()` undoes** (2-D): `|scale| > 1e-6` -/
theorem code_db2_inverse (s a : ℝ) (u : V2 ℝ) (hs : 1e-6 < |s|) :
    ∃ i : DB2 ℝ, t_db2_inverse_transform_some (envL (in2 s a u)) =
        .okG (flb2 i) [.ulps s 0 eps52 4 false, .eq (M2.fromAngle a).det 0 false] ∧
      i.rot.mat.det ≠ 0 ∧
      (∀ p : P2 ℝ, ∃ r : P2 ℝ, t_db2_transform_point (envL (in2 s a u ++ p.toList)) = .okS r.toList ∧
        i.transformPointV basis2Ops r.toVec = p.toVec) ∧
      (∀ v : V2 ℝ, ∃ r : V2 ℝ, t_db2_transform_vector (envL (in2 s a u ++ v.toList)) = .okS r.toList ∧
        i.transformVector basis2Ops r = v) ∧
      ((mk2 s a u).toM3 basis2Ops).invert = some (i.toM3 basis2Ops) ∧
      (∀ v : V2 ℝ, t_db2_inverse_transform_vector
          (envL (in2 s a u ++ (t_db2_transform_vector (envL (in2 s a u ++ v.toList))).out)) =
        .okG v.toList [.ulps s 0 eps52 4 false, .eq (M2.fromAngle a).det 0 false]) ∧
      (|s| ≤ eps52R → t_db2_inverse_transform_none (envL (in2 s a u)) = .noneG [.ulps s 0 eps52 4 true]) := by
  have hb := basis2_ok s a u
  have hd : (M2.fromAngle a).det ≠ 0 := hb
  obtain ⟨hz, -⟩ := C08.scale_guards (F := ℝ) realApproxSpec_1em6 le_rfl hs
  obtain ⟨i, hi, hu, h1, h2, h3, -, hm⟩ := (C08.basis2_inverse (mk2 s a u) hb).2 hs
  have hk := Trace.C08Paths.t_db2_inverse_transform_some s a u hz hd
  rw [hi] at hk
  refine ⟨i, hk, hu, fun p => ⟨_, Trace.C08Paths.t_db2_transform_point s a u p, h1 p.toVec⟩,
    fun v => ⟨_, Trace.C08Paths.t_db2_transform_vector s a u v, h2 v⟩, hm, fun v => ?_, fun h => ?_⟩
  · rw [Trace.C08Paths.t_db2_transform_vector s a u v]
    have hv := Trace.C08Paths.t_db2_inverse_transform_vector s a u ((mk2 s a u).transformVector basis2Ops v) hz hd
    rw [h3 v] at hv
    exact hv
  · exact (Trace.C08Paths.t_db2_inverse_transform_none s a u ((real_ulpsEqD_zero s).mpr h)).1

/-- the hypotheses are satisfiable: scale -2, identity rotation -/
example : (Quat.one : Quat ℝ).magnitude2 = 1 ∧ (1e-6 : ℝ) < |(-2 : ℝ)| := by
  refine ⟨by simp [Quat.one, Quat.magnitude2, Quat.dot, Quat.fromSv, V3.dot], ?_⟩
  norm_num
end concrete

/-! ## `Matrix3` as a 2-D (affine) and as a 3-D (linear) transform -/
section matrix3
variable [FRem ℝ] [Lits ℝ] [Approx ℝ]

/-- **`Matrix3::concat` / `concat_self` (2-D impl)**: the traced product applied with the traced `transform_point` /
`transform_vector` is the composition of the traced applications (the inner matrix affine: last row `0 0 1`) -/
theorem code_m3_concat2 (a b : M3 ℝ) (hb : Cg.C08.M3.Affine2 b) (p : P2 ℝ) (v : V2 ℝ) :
    ∃ c : M3 ℝ, t_m3_concat2 (envL (a.toList ++ b.toList)) = .okS c.toList ∧
      t_m3_concat_self2 (envL (a.toList ++ b.toList)) = .okS c.toList ∧ t_m3_concat (envL (a.toList ++ b.toList)) = .okS c.toList ∧
      t_m3_transform_point2 (envL (c.toList ++ p.toList)) =
        t_m3_transform_point2 (envL (a.toList ++ (t_m3_transform_point2 (envL (b.toList ++ p.toList))).out)) ∧
      t_m3_transform_vector2 (envL (c.toList ++ v.toList)) =
        t_m3_transform_vector2 (envL (a.toList ++ (t_m3_transform_vector2 (envL (b.toList ++ v.toList))).out)) ∧
      t_m3_transform_point2 (envL ((M3.one : M3 ℝ).toList ++ p.toList)) = .okS p.toList ∧
      t_m3_transform_vector2 (envL ((M3.one : M3 ℝ).toList ++ v.toList)) = .okS v.toList := by
  obtain ⟨cv, cp, ov, op, -, -⟩ := C08.matrix3_transform2 a b hb p v
  refine ⟨a * b, Trace.C08.t_m3_concat2 a b, Trace.C08.t_m3_concat_self2 a b, Trace.C08.t_m3_concat a b, ?_, ?_, ?_, ?_⟩
  · rw [Trace.C08.t_m3_transform_point2 b p]
    show _ = t_m3_transform_point2 (envL (a.toList ++ (b.transformPoint2 p).toList))
    rw [Trace.C08.t_m3_transform_point2, Trace.C08.t_m3_transform_point2, cp]
  · rw [Trace.C08.t_m3_transform_vector2 b v]
    show _ = t_m3_transform_vector2 (envL (a.toList ++ (b.transformVector2 v).toList))
    rw [Trace.C08.t_m3_transform_vector2, Trace.C08.t_m3_transform_vector2, cv]
  · rw [Trace.C08.t_m3_transform_point2, op]
  · rw [Trace.C08.t_m3_transform_vector2, ov]

/-- **`Matrix3::inverse_transform` (2-D impl and 3-D impl)** on the path `det ≠ 0`, for a 2-D affine `a` (the whole theorem,
including the part about the 3-D impl's kernel, is under the hypothesis `Affine2 a`): both return the same matrix `i`, with
`a i = i a = 1`; `i` is affine and the traced point / vector kernels of `i` on the traced images return the
originals -/
theorem code_m3_inverse2 (a : M3 ℝ) (hd : a.det ≠ 0) (ha : Cg.C08.M3.Affine2 a) :
    ∃ i : M3 ℝ, t_m3_inverse_transform2_some (envL a.toList) = .okG i.toList [.eq a.det 0 false] ∧
      t_m3_inverse_transform_some (envL a.toList) = .okG i.toList [.eq a.det 0 false] ∧
      Cg.C08.M3.Affine2 i ∧ a * i = M3.one ∧ i * a = M3.one ∧
      (∀ p : P2 ℝ, t_m3_transform_point2 (envL (i.toList ++ (t_m3_transform_point2 (envL (a.toList ++ p.toList))).out)) =
        .okS p.toList) ∧
      (∀ v : V2 ℝ, t_m3_transform_vector2 (envL (i.toList ++ (t_m3_transform_vector2 (envL (a.toList ++ v.toList))).out)) =
        .okS v.toList) := by
  obtain ⟨i, hi⟩ := Cg.C02.M3.invert_some_of_det_ne a hd
  have hi' : a.inverseTransform = some i := hi
  have hk := Trace.C08.t_m3_inverse_transform2_some a hd
  have hk3 := Trace.C08.t_m3_inverse_transform_some a hd
  rw [hi'] at hk hk3
  have hsp := Cg.C02.M3.invert_spec a i hi
  have hu := fun p v => Cg.C08.M3.inverseTransform_undoes2 a i hi' ha p v
  refine ⟨i, hk, hk3, (hu ⟨0, 0⟩ ⟨0, 0⟩).2.2.2.2, hsp.1, hsp.2, fun p => ?_, fun v => ?_⟩
  · rw [Trace.C08.t_m3_transform_point2 a p]
    show t_m3_transform_point2 (envL (i.toList ++ (a.transformPoint2 p).toList)) = _
    rw [Trace.C08.t_m3_transform_point2 i, (hu p ⟨0, 0⟩).1]
  · rw [Trace.C08.t_m3_transform_vector2 a v]
    show t_m3_transform_vector2 (envL (i.toList ++ (a.transformVector2 v).toList)) = _
    rw [Trace.C08.t_m3_transform_vector2 i, (hu ⟨0, 0⟩ v).2.1]

/-- the hypotheses are satisfiable: a 2-D translation by (1, 2) scaled by 2 -/
example : (M3.new 2 0 0 0 2 0 1 2 1 : M3 ℝ).det ≠ 0 ∧ Cg.C08.M3.Affine2 (M3.new 2 0 0 0 2 0 1 2 1 : M3 ℝ) := by
  refine ⟨?_, rfl, rfl, rfl⟩
  norm_num [M3.new, M3.det]
end matrix3
end Cg.E2E.C08
