import Cgm.Trace.C16Rest
import Cgm.Props.C16c
/-!
# C16, end to end: `Index<usize>` of every vector / point type and `Vector4::truncate_n`, as computed

Every statement is about the kernels `Cg.Gen.C16.t_*` (the real `index` / `truncate_n` executed at the literal index in the
kernel's name on symbolic components), composing the T obligation (`Cgm/Trace/C16Rest.lean`: kernel = model accessor) with
the view theorems of `Cgm/Props/C16*.lean` (index view = field view = array view = tuple view, order `x, y, z, w`).

For each type `T` of dimension `n`:
* `code_T_index_fields`: kernel `k` returns exactly the field named at position `k`; the kernel traced at index `n` panics;
* `tIndex : Fin (n+1) → kernel` collects the traced kernels (`n` is the traced out-of-range index);
  `code_T_index_all`: for every `i : Fin (n+1)` the kernel is entry `i` of the array view and of the tuple view (`none` = panic),
  it returns normally iff `i < n` and panics iff `n ≤ i`;
* `code_T_index_inrange`: for every `i : Fin n`, the kernel returns `[a]` iff `a` is entry `i` of the array view;
* `code_T_index_built`: on a value built from an array / a tuple `a, b, ..` the kernel at `i` returns the `i`-th entry given;
* `code_T_index_after_store`: after the model's `IndexMut` store at `i`, the kernel at `j` reads the stored value iff `i = j`,
  else the old component.
`truncate_n`: `code_v4_truncate_n_fields`, `code_v4_truncate_n_all` (drops exactly component `n`: `eraseIdx`; `n = 4` panics),
`code_v4_truncate_n_index` (what is kept is read back by the index kernels of `Vector3`).
-/
set_option linter.unusedSectionVars false
set_option linter.unusedVariables false
set_option linter.unusedSimpArgs false
namespace Cg.E2E.C16
open Cg Cg.Gen.C16
variable {K : Type} [Field K] [Transc K] [FRem K] [Lits K]

/-! ## `Vector1` -/
/-- the traced `Index` kernels of `Vector1`, one per literal index `0..1` (`1`: the traced out-of-range index) -/
def v1Index : Fin 2 → (Nat → K) → Tr K
  | ⟨0, _⟩ => t_v1_index_0
  | ⟨1, _⟩ => t_v1_index_1_oob

/-- `Vector1`: the kernel traced at index `k` returns exactly the field at position `k` (order `x`); the kernel traced at index `1` panics -/
theorem code_v1_index_fields (u : V1 K) :
    t_v1_index_0 (envL u.toList) = .okS [u.x] ∧
    t_v1_index_1_oob (envL u.toList) = .panicG [] := by
  refine ⟨?_, ?_⟩
  · rw [(Trace.C16Rest.t_v1_index_0 u).1, (Cg.C16.V1.index_spec u 0).2.2]; rfl
  · exact (Trace.C16Rest.t_v1_index_1_oob u).2.1

/-- `Vector1`, every traced index `i = 0..1`: the kernel is the model's accessor, entry `i` of the array view, entry `i` of the tuple view (a missing entry is the panic); it returns normally iff `i < 1`, panics iff `1 ≤ i` -/
theorem code_v1_index_all (u : V1 K) (i : Fin 2) :
    v1Index i (envL u.toList) = .ofPanic ((u.get? i).map fun a => [a]) ∧
    v1Index i (envL u.toList) = .ofPanic ((u.toList[i.val]?).map fun a => [a]) ∧
    v1Index i (envL u.toList) = .ofPanic ((([u.toTuple])[i.val]?).map fun a => [a]) ∧
    ((v1Index i (envL u.toList)).res = .ok ↔ i.val < 1) ∧
    ((v1Index i (envL u.toList)).res = .panic ↔ 1 ≤ i.val) := by
  have h1 : v1Index i (envL u.toList) = .ofPanic ((u.get? i).map fun a => [a]) := by
    fin_cases i
    · exact (Trace.C16Rest.t_v1_index_0 u).1
    · exact (Trace.C16Rest.t_v1_index_1_oob u).1
  have h2 : u.get? i = u.toList[i.val]? := (Cg.C16.V1.index_spec u i).1
  have h3 : [u.toTuple] = u.toList := (Cg.C16.tuple_order (α := K) u ⟨0, 0⟩ ⟨0, 0, 0⟩ ⟨0, 0, 0, 0⟩ ⟨0⟩ ⟨0, 0⟩ ⟨0, 0, 0⟩).2.2.2.2.2.2.2.1
  refine ⟨h1, ?_, ?_, ?_, ?_⟩
  · rw [h1, h2]
  · rw [h1, h2, h3]
  · rw [h1, Tr.ofPanic_res_ok, Option.isSome_map]; exact Cg.C16.V1.get?_isSome_iff u i
  · rw [h1, Tr.ofPanic_res_panic, Option.map_eq_none_iff]; exact Cg.C16.V1.get?_eq_none_iff u i

/-- `Vector1`, every in-range index: the kernel returns `[a]` exactly when `a` is entry `i` of the array view -/
theorem code_v1_index_inrange (u : V1 K) (i : Fin 1) (a : K) :
    v1Index i.castSucc (envL u.toList) = .okS [a] ↔ u.toList[i.val]? = some a := by
  rw [(code_v1_index_all u i.castSucc).2.1]
  fin_cases i <;> simp [V1.toList, Tr.okS, Tr.ofPanic]

/-- `Vector1` built from an array (`From<[S; 1]>`) or a tuple: the kernel at `i` returns the `i`-th entry given -/
theorem code_v1_index_built (a : K) (u : V1 K) (i : Fin 2) :
    (_root_.Cg.V1.ofArray? [a] = some u → v1Index i (envL u.toList) = .ofPanic (([a][i.val]?).map fun a => [a])) ∧
    v1Index i (envL (V1.ofTuple a).toList) = .ofPanic (([a][i.val]?).map fun a => [a]) := by
  constructor
  · intro h
    have h' := (Cg.C16.ofArray_toList (α := K) a 0 0 0).1
    rw [h, Option.map_some, Option.some.injEq] at h'
    rw [(code_v1_index_all u i).2.1, h']
  · rw [(code_v1_index_all _ i).2.1, (Cg.C16.ofTuple_get (α := K) a 0 0 0).2.2.2.1]

/-- `Vector1`: after a store through `IndexMut` at `i` (the model's `set?`), the traced `Index` kernel at `j` reads the stored value when `i = j` and the old component otherwise -/
theorem code_v1_index_after_store (u u' : V1 K) (i j : Fin 1) (a : K) (h : u.set? i a = some u') :
    v1Index j.castSucc (envL u'.toList) = .ofPanic ((if i = j then some a else u.get? j).map fun a => [a]) := by
  have hs := Cg.C16.V1.set_get u i j a
  rw [h, Option.bind_some] at hs
  rw [(code_v1_index_all u' j.castSucc).1, Fin.val_castSucc, hs]
example (u : V1 K) (a : K) : u.set? 0 a = some { u with x := a } := rfl

/-! ## `Vector2` -/
/-- the traced `Index` kernels of `Vector2`, one per literal index `0..2` (`2`: the traced out-of-range index) -/
def v2Index : Fin 3 → (Nat → K) → Tr K
  | ⟨0, _⟩ => t_v2_index_0
  | ⟨1, _⟩ => t_v2_index_1
  | ⟨2, _⟩ => t_v2_index_2_oob

/-- `Vector2`: the kernel traced at index `k` returns exactly the field at position `k` (order `x, y`); the kernel traced at index `2` panics -/
theorem code_v2_index_fields (u : V2 K) :
    t_v2_index_0 (envL u.toList) = .okS [u.x] ∧
    t_v2_index_1 (envL u.toList) = .okS [u.y] ∧
    t_v2_index_2_oob (envL u.toList) = .panicG [] := by
  refine ⟨?_, ?_, ?_⟩
  · rw [(Trace.C16Rest.t_v2_index_0 u).1, (Cg.C16.V2.index_spec u 0).2.2.1]; rfl
  · rw [(Trace.C16Rest.t_v2_index_1 u).1, (Cg.C16.V2.index_spec u 1).2.2.2]; rfl
  · exact (Trace.C16Rest.t_v2_index_2_oob u).2.1

/-- `Vector2`, every traced index `i = 0..2`: the kernel is the model's accessor, entry `i` of the array view, entry `i` of the tuple view (a missing entry is the panic); it returns normally iff `i < 2`, panics iff `2 ≤ i` -/
theorem code_v2_index_all (u : V2 K) (i : Fin 3) :
    v2Index i (envL u.toList) = .ofPanic ((u.get? i).map fun a => [a]) ∧
    v2Index i (envL u.toList) = .ofPanic ((u.toList[i.val]?).map fun a => [a]) ∧
    v2Index i (envL u.toList) = .ofPanic (((tuple2List u.toTuple)[i.val]?).map fun a => [a]) ∧
    ((v2Index i (envL u.toList)).res = .ok ↔ i.val < 2) ∧
    ((v2Index i (envL u.toList)).res = .panic ↔ 2 ≤ i.val) := by
  have h1 : v2Index i (envL u.toList) = .ofPanic ((u.get? i).map fun a => [a]) := by
    fin_cases i
    · exact (Trace.C16Rest.t_v2_index_0 u).1
    · exact (Trace.C16Rest.t_v2_index_1 u).1
    · exact (Trace.C16Rest.t_v2_index_2_oob u).1
  have h2 : u.get? i = u.toList[i.val]? := (Cg.C16.V2.index_spec u i).1
  have h3 : tuple2List u.toTuple = u.toList := (Cg.C16.tuple_order (α := K) ⟨0⟩ u ⟨0, 0, 0⟩ ⟨0, 0, 0, 0⟩ ⟨0⟩ ⟨0, 0⟩ ⟨0, 0, 0⟩).2.2.2.2.2.2.2.2.1
  refine ⟨h1, ?_, ?_, ?_, ?_⟩
  · rw [h1, h2]
  · rw [h1, h2, h3]
  · rw [h1, Tr.ofPanic_res_ok, Option.isSome_map]; exact Cg.C16.V2.get?_isSome_iff u i
  · rw [h1, Tr.ofPanic_res_panic, Option.map_eq_none_iff]; exact Cg.C16.V2.get?_eq_none_iff u i

/-- `Vector2`, every in-range index: the kernel returns `[a]` exactly when `a` is entry `i` of the array view -/
theorem code_v2_index_inrange (u : V2 K) (i : Fin 2) (a : K) :
    v2Index i.castSucc (envL u.toList) = .okS [a] ↔ u.toList[i.val]? = some a := by
  rw [(code_v2_index_all u i.castSucc).2.1]
  fin_cases i <;> simp [V2.toList, Tr.okS, Tr.ofPanic]

/-- `Vector2` built from an array (`From<[S; 2]>`) or a tuple: the kernel at `i` returns the `i`-th entry given -/
theorem code_v2_index_built (a b : K) (u : V2 K) (i : Fin 3) :
    (_root_.Cg.V2.ofArray? [a, b] = some u → v2Index i (envL u.toList) = .ofPanic (([a, b][i.val]?).map fun a => [a])) ∧
    v2Index i (envL (V2.ofTuple (a, b)).toList) = .ofPanic (([a, b][i.val]?).map fun a => [a]) := by
  constructor
  · intro h
    have h' := (Cg.C16.ofArray_toList (α := K) a b 0 0).2.1
    rw [h, Option.map_some, Option.some.injEq] at h'
    rw [(code_v2_index_all u i).2.1, h']
  · rw [(code_v2_index_all _ i).2.1, (Cg.C16.ofTuple_get (α := K) a b 0 0).2.2.1]

/-- `Vector2`: after a store through `IndexMut` at `i` (the model's `set?`), the traced `Index` kernel at `j` reads the stored value when `i = j` and the old component otherwise -/
theorem code_v2_index_after_store (u u' : V2 K) (i j : Fin 2) (a : K) (h : u.set? i a = some u') :
    v2Index j.castSucc (envL u'.toList) = .ofPanic ((if i = j then some a else u.get? j).map fun a => [a]) := by
  have hs := Cg.C16.V2.set_get u i j a
  rw [h, Option.bind_some] at hs
  rw [(code_v2_index_all u' j.castSucc).1, Fin.val_castSucc, hs]
example (u : V2 K) (a : K) : u.set? 0 a = some { u with x := a } := rfl

/-! ## `Vector3` -/
/-- the traced `Index` kernels of `Vector3`, one per literal index `0..3` (`3`: the traced out-of-range index) -/
def v3Index : Fin 4 → (Nat → K) → Tr K
  | ⟨0, _⟩ => t_v3_index_0
  | ⟨1, _⟩ => t_v3_index_1
  | ⟨2, _⟩ => t_v3_index_2
  | ⟨3, _⟩ => t_v3_index_3_oob

/-- `Vector3`: the kernel traced at index `k` returns exactly the field at position `k` (order `x, y, z`); the kernel traced at index `3` panics -/
theorem code_v3_index_fields (u : V3 K) :
    t_v3_index_0 (envL u.toList) = .okS [u.x] ∧
    t_v3_index_1 (envL u.toList) = .okS [u.y] ∧
    t_v3_index_2 (envL u.toList) = .okS [u.z] ∧
    t_v3_index_3_oob (envL u.toList) = .panicG [] := by
  refine ⟨?_, ?_, ?_, ?_⟩
  · rw [(Trace.C16Rest.t_v3_index_0 u).1, (Cg.C16.V3.index_spec u 0).2.2.1]; rfl
  · rw [(Trace.C16Rest.t_v3_index_1 u).1, (Cg.C16.V3.index_spec u 1).2.2.2.1]; rfl
  · rw [(Trace.C16Rest.t_v3_index_2 u).1, (Cg.C16.V3.index_spec u 2).2.2.2.2]; rfl
  · exact (Trace.C16Rest.t_v3_index_3_oob u).2.1

/-- `Vector3`, every traced index `i = 0..3`: the kernel is the model's accessor, entry `i` of the array view, entry `i` of the tuple view (a missing entry is the panic); it returns normally iff `i < 3`, panics iff `3 ≤ i` -/
theorem code_v3_index_all (u : V3 K) (i : Fin 4) :
    v3Index i (envL u.toList) = .ofPanic ((u.get? i).map fun a => [a]) ∧
    v3Index i (envL u.toList) = .ofPanic ((u.toList[i.val]?).map fun a => [a]) ∧
    v3Index i (envL u.toList) = .ofPanic (((tuple3List u.toTuple)[i.val]?).map fun a => [a]) ∧
    ((v3Index i (envL u.toList)).res = .ok ↔ i.val < 3) ∧
    ((v3Index i (envL u.toList)).res = .panic ↔ 3 ≤ i.val) := by
  have h1 : v3Index i (envL u.toList) = .ofPanic ((u.get? i).map fun a => [a]) := by
    fin_cases i
    · exact (Trace.C16Rest.t_v3_index_0 u).1
    · exact (Trace.C16Rest.t_v3_index_1 u).1
    · exact (Trace.C16Rest.t_v3_index_2 u).1
    · exact (Trace.C16Rest.t_v3_index_3_oob u).1
  have h2 : u.get? i = u.toList[i.val]? := (Cg.C16.V3.index_spec u i).1
  have h3 : tuple3List u.toTuple = u.toList := (Cg.C16.tuple_order (α := K) ⟨0⟩ ⟨0, 0⟩ u ⟨0, 0, 0, 0⟩ ⟨0⟩ ⟨0, 0⟩ ⟨0, 0, 0⟩).2.2.2.2.2.2.2.2.2.1
  refine ⟨h1, ?_, ?_, ?_, ?_⟩
  · rw [h1, h2]
  · rw [h1, h2, h3]
  · rw [h1, Tr.ofPanic_res_ok, Option.isSome_map]; exact Cg.C16.V3.get?_isSome_iff u i
  · rw [h1, Tr.ofPanic_res_panic, Option.map_eq_none_iff]; exact Cg.C16.V3.get?_eq_none_iff u i

/-- `Vector3`, every in-range index: the kernel returns `[a]` exactly when `a` is entry `i` of the array view -/
theorem code_v3_index_inrange (u : V3 K) (i : Fin 3) (a : K) :
    v3Index i.castSucc (envL u.toList) = .okS [a] ↔ u.toList[i.val]? = some a := by
  rw [(code_v3_index_all u i.castSucc).2.1]
  fin_cases i <;> simp [V3.toList, Tr.okS, Tr.ofPanic]

/-- `Vector3` built from an array (`From<[S; 3]>`) or a tuple: the kernel at `i` returns the `i`-th entry given -/
theorem code_v3_index_built (a b c : K) (u : V3 K) (i : Fin 4) :
    (_root_.Cg.V3.ofArray? [a, b, c] = some u → v3Index i (envL u.toList) = .ofPanic (([a, b, c][i.val]?).map fun a => [a])) ∧
    v3Index i (envL (V3.ofTuple (a, b, c)).toList) = .ofPanic (([a, b, c][i.val]?).map fun a => [a]) := by
  constructor
  · intro h
    have h' := (Cg.C16.ofArray_toList (α := K) a b c 0).2.2.1
    rw [h, Option.map_some, Option.some.injEq] at h'
    rw [(code_v3_index_all u i).2.1, h']
  · rw [(code_v3_index_all _ i).2.1, (Cg.C16.ofTuple_get (α := K) a b c 0).2.1]

/-- `Vector3`: after a store through `IndexMut` at `i` (the model's `set?`), the traced `Index` kernel at `j` reads the stored value when `i = j` and the old component otherwise -/
theorem code_v3_index_after_store (u u' : V3 K) (i j : Fin 3) (a : K) (h : u.set? i a = some u') :
    v3Index j.castSucc (envL u'.toList) = .ofPanic ((if i = j then some a else u.get? j).map fun a => [a]) := by
  have hs := Cg.C16.V3.set_get u i j a
  rw [h, Option.bind_some] at hs
  rw [(code_v3_index_all u' j.castSucc).1, Fin.val_castSucc, hs]
example (u : V3 K) (a : K) : u.set? 0 a = some { u with x := a } := rfl

/-! ## `Vector4` -/
/-- the traced `Index` kernels of `Vector4`, one per literal index `0..4` (`4`: the traced out-of-range index) -/
def v4Index : Fin 5 → (Nat → K) → Tr K
  | ⟨0, _⟩ => t_v4_index_0
  | ⟨1, _⟩ => t_v4_index_1
  | ⟨2, _⟩ => t_v4_index_2
  | ⟨3, _⟩ => t_v4_index_3
  | ⟨4, _⟩ => t_v4_index_4_oob

/-- `Vector4`: the kernel traced at index `k` returns exactly the field at position `k` (order `x, y, z, w`); the kernel traced at index `4` panics -/
theorem code_v4_index_fields (u : V4 K) :
    t_v4_index_0 (envL u.toList) = .okS [u.x] ∧
    t_v4_index_1 (envL u.toList) = .okS [u.y] ∧
    t_v4_index_2 (envL u.toList) = .okS [u.z] ∧
    t_v4_index_3 (envL u.toList) = .okS [u.w] ∧
    t_v4_index_4_oob (envL u.toList) = .panicG [] := by
  refine ⟨?_, ?_, ?_, ?_, ?_⟩
  · rw [(Trace.C16Rest.t_v4_index_0 u).1, (Cg.C16.index_spec u 0).2.2.1]; rfl
  · rw [(Trace.C16Rest.t_v4_index_1 u).1, (Cg.C16.index_spec u 1).2.2.2.1]; rfl
  · rw [(Trace.C16Rest.t_v4_index_2 u).1, (Cg.C16.index_spec u 2).2.2.2.2.1]; rfl
  · rw [(Trace.C16Rest.t_v4_index_3 u).1, (Cg.C16.index_spec u 3).2.2.2.2.2]; rfl
  · exact (Trace.C16Rest.t_v4_index_4_oob u).2.1

/-- `Vector4`, every traced index `i = 0..4`: the kernel is the model's accessor, entry `i` of the array view, entry `i` of the tuple view (a missing entry is the panic); it returns normally iff `i < 4`, panics iff `4 ≤ i` -/
theorem code_v4_index_all (u : V4 K) (i : Fin 5) :
    v4Index i (envL u.toList) = .ofPanic ((u.get? i).map fun a => [a]) ∧
    v4Index i (envL u.toList) = .ofPanic ((u.toList[i.val]?).map fun a => [a]) ∧
    v4Index i (envL u.toList) = .ofPanic (((tuple4List u.toTuple)[i.val]?).map fun a => [a]) ∧
    ((v4Index i (envL u.toList)).res = .ok ↔ i.val < 4) ∧
    ((v4Index i (envL u.toList)).res = .panic ↔ 4 ≤ i.val) := by
  have h1 : v4Index i (envL u.toList) = .ofPanic ((u.get? i).map fun a => [a]) := by
    fin_cases i
    · exact (Trace.C16Rest.t_v4_index_0 u).1
    · exact (Trace.C16Rest.t_v4_index_1 u).1
    · exact (Trace.C16Rest.t_v4_index_2 u).1
    · exact (Trace.C16Rest.t_v4_index_3 u).1
    · exact (Trace.C16Rest.t_v4_index_4_oob u).1
  have h2 : u.get? i = u.toList[i.val]? := (Cg.C16.index_spec u i).1
  have h3 : tuple4List u.toTuple = u.toList := (Cg.C16.tuple_order (α := K) ⟨0⟩ ⟨0, 0⟩ ⟨0, 0, 0⟩ u ⟨0⟩ ⟨0, 0⟩ ⟨0, 0, 0⟩).2.2.2.2.2.2.2.2.2.2.1
  refine ⟨h1, ?_, ?_, ?_, ?_⟩
  · rw [h1, h2]
  · rw [h1, h2, h3]
  · rw [h1, Tr.ofPanic_res_ok, Option.isSome_map]; exact Cg.C16.V4.get?_isSome_iff u i
  · rw [h1, Tr.ofPanic_res_panic, Option.map_eq_none_iff]; exact Cg.C16.V4.get?_eq_none_iff u i

/-- `Vector4`, every in-range index: the kernel returns `[a]` exactly when `a` is entry `i` of the array view -/
theorem code_v4_index_inrange (u : V4 K) (i : Fin 4) (a : K) :
    v4Index i.castSucc (envL u.toList) = .okS [a] ↔ u.toList[i.val]? = some a := by
  rw [(code_v4_index_all u i.castSucc).2.1]
  fin_cases i <;> simp [V4.toList, Tr.okS, Tr.ofPanic]

/-- `Vector4` built from an array (`From<[S; 4]>`) or a tuple: the kernel at `i` returns the `i`-th entry given -/
theorem code_v4_index_built (a b c d : K) (u : V4 K) (i : Fin 5) :
    (_root_.Cg.V4.ofArray? [a, b, c, d] = some u → v4Index i (envL u.toList) = .ofPanic (([a, b, c, d][i.val]?).map fun a => [a])) ∧
    v4Index i (envL (V4.ofTuple (a, b, c, d)).toList) = .ofPanic (([a, b, c, d][i.val]?).map fun a => [a]) := by
  constructor
  · intro h
    have h' := (Cg.C16.ofArray_toList (α := K) a b c d ).2.2.2.1
    rw [h, Option.map_some, Option.some.injEq] at h'
    rw [(code_v4_index_all u i).2.1, h']
  · rw [(code_v4_index_all _ i).2.1, (Cg.C16.ofTuple_get (α := K) a b c d ).1]

/-- `Vector4`: after a store through `IndexMut` at `i` (the model's `set?`), the traced `Index` kernel at `j` reads the stored value when `i = j` and the old component otherwise -/
theorem code_v4_index_after_store (u u' : V4 K) (i j : Fin 4) (a : K) (h : u.set? i a = some u') :
    v4Index j.castSucc (envL u'.toList) = .ofPanic ((if i = j then some a else u.get? j).map fun a => [a]) := by
  have hs := Cg.C16.set_get u i j a
  rw [h, Option.bind_some] at hs
  rw [(code_v4_index_all u' j.castSucc).1, Fin.val_castSucc, hs]
example (u : V4 K) (a : K) : u.set? 0 a = some { u with x := a } := rfl

/-! ## `Point1` -/
/-- the traced `Index` kernels of `Point1`, one per literal index `0..1` (`1`: the traced out-of-range index) -/
def p1Index : Fin 2 → (Nat → K) → Tr K
  | ⟨0, _⟩ => t_p1_index_0
  | ⟨1, _⟩ => t_p1_index_1_oob

/-- `Point1`: the kernel traced at index `k` returns exactly the field at position `k` (order `x`); the kernel traced at index `1` panics -/
theorem code_p1_index_fields (u : P1 K) :
    t_p1_index_0 (envL u.toList) = .okS [u.x] ∧
    t_p1_index_1_oob (envL u.toList) = .panicG [] := by
  refine ⟨?_, ?_⟩
  · rw [(Trace.C16Rest.t_p1_index_0 u).1, (Cg.C16.P1.index_spec u 0).2.2]; rfl
  · exact (Trace.C16Rest.t_p1_index_1_oob u).2.1

/-- `Point1`, every traced index `i = 0..1`: the kernel is the model's accessor, entry `i` of the array view, entry `i` of the tuple view (a missing entry is the panic); it returns normally iff `i < 1`, panics iff `1 ≤ i` -/
theorem code_p1_index_all (u : P1 K) (i : Fin 2) :
    p1Index i (envL u.toList) = .ofPanic ((u.get? i).map fun a => [a]) ∧
    p1Index i (envL u.toList) = .ofPanic ((u.toList[i.val]?).map fun a => [a]) ∧
    p1Index i (envL u.toList) = .ofPanic ((([u.toTuple])[i.val]?).map fun a => [a]) ∧
    ((p1Index i (envL u.toList)).res = .ok ↔ i.val < 1) ∧
    ((p1Index i (envL u.toList)).res = .panic ↔ 1 ≤ i.val) := by
  have h1 : p1Index i (envL u.toList) = .ofPanic ((u.get? i).map fun a => [a]) := by
    fin_cases i
    · exact (Trace.C16Rest.t_p1_index_0 u).1
    · exact (Trace.C16Rest.t_p1_index_1_oob u).1
  have h2 : u.get? i = u.toList[i.val]? := (Cg.C16.P1.index_spec u i).1
  have h3 : [u.toTuple] = u.toList := (Cg.C16.tuple_order (α := K) ⟨0⟩ ⟨0, 0⟩ ⟨0, 0, 0⟩ ⟨0, 0, 0, 0⟩ u ⟨0, 0⟩ ⟨0, 0, 0⟩).2.2.2.2.2.2.2.2.2.2.2.1
  refine ⟨h1, ?_, ?_, ?_, ?_⟩
  · rw [h1, h2]
  · rw [h1, h2, h3]
  · rw [h1, Tr.ofPanic_res_ok, Option.isSome_map]; exact Cg.C16.P1.get?_isSome_iff u i
  · rw [h1, Tr.ofPanic_res_panic, Option.map_eq_none_iff]; exact Cg.C16.P1.get?_eq_none_iff u i

/-- `Point1`, every in-range index: the kernel returns `[a]` exactly when `a` is entry `i` of the array view -/
theorem code_p1_index_inrange (u : P1 K) (i : Fin 1) (a : K) :
    p1Index i.castSucc (envL u.toList) = .okS [a] ↔ u.toList[i.val]? = some a := by
  rw [(code_p1_index_all u i.castSucc).2.1]
  fin_cases i <;> simp [P1.toList, Tr.okS, Tr.ofPanic]

/-- `Point1` built from an array (`From<[S; 1]>`) or a tuple: the kernel at `i` returns the `i`-th entry given -/
theorem code_p1_index_built (a : K) (u : P1 K) (i : Fin 2) :
    (_root_.Cg.P1.ofArray? [a] = some u → p1Index i (envL u.toList) = .ofPanic (([a][i.val]?).map fun a => [a])) ∧
    p1Index i (envL (P1.ofTuple a).toList) = .ofPanic (([a][i.val]?).map fun a => [a]) := by
  constructor
  · intro h
    have h' := (Cg.C16.ofArray_toList (α := K) a 0 0 0).2.2.2.2.1
    rw [h, Option.map_some, Option.some.injEq] at h'
    rw [(code_p1_index_all u i).2.1, h']
  · rw [(code_p1_index_all _ i).2.1, (Cg.C16.ofTuple_get (α := K) a 0 0 0).2.2.2.2.2.2.1]

/-- `Point1`: after a store through `IndexMut` at `i` (the model's `set?`), the traced `Index` kernel at `j` reads the stored value when `i = j` and the old component otherwise -/
theorem code_p1_index_after_store (u u' : P1 K) (i j : Fin 1) (a : K) (h : u.set? i a = some u') :
    p1Index j.castSucc (envL u'.toList) = .ofPanic ((if i = j then some a else u.get? j).map fun a => [a]) := by
  have hs := Cg.C16.P1.set_get u i j a
  rw [h, Option.bind_some] at hs
  rw [(code_p1_index_all u' j.castSucc).1, Fin.val_castSucc, hs]
example (u : P1 K) (a : K) : u.set? 0 a = some { u with x := a } := rfl

/-! ## `Point2` -/
/-- the traced `Index` kernels of `Point2`, one per literal index `0..2` (`2`: the traced out-of-range index) -/
def p2Index : Fin 3 → (Nat → K) → Tr K
  | ⟨0, _⟩ => t_p2_index_0
  | ⟨1, _⟩ => t_p2_index_1
  | ⟨2, _⟩ => t_p2_index_2_oob

/-- `Point2`: the kernel traced at index `k` returns exactly the field at position `k` (order `x, y`); the kernel traced at index `2` panics -/
theorem code_p2_index_fields (u : P2 K) :
    t_p2_index_0 (envL u.toList) = .okS [u.x] ∧
    t_p2_index_1 (envL u.toList) = .okS [u.y] ∧
    t_p2_index_2_oob (envL u.toList) = .panicG [] := by
  refine ⟨?_, ?_, ?_⟩
  · rw [(Trace.C16Rest.t_p2_index_0 u).1, (Cg.C16.P2.index_spec u 0).2.2.1]; rfl
  · rw [(Trace.C16Rest.t_p2_index_1 u).1, (Cg.C16.P2.index_spec u 1).2.2.2]; rfl
  · exact (Trace.C16Rest.t_p2_index_2_oob u).2.1

/-- `Point2`, every traced index `i = 0..2`: the kernel is the model's accessor, entry `i` of the array view, entry `i` of the tuple view (a missing entry is the panic); it returns normally iff `i < 2`, panics iff `2 ≤ i` -/
theorem code_p2_index_all (u : P2 K) (i : Fin 3) :
    p2Index i (envL u.toList) = .ofPanic ((u.get? i).map fun a => [a]) ∧
    p2Index i (envL u.toList) = .ofPanic ((u.toList[i.val]?).map fun a => [a]) ∧
    p2Index i (envL u.toList) = .ofPanic (((tuple2List u.toTuple)[i.val]?).map fun a => [a]) ∧
    ((p2Index i (envL u.toList)).res = .ok ↔ i.val < 2) ∧
    ((p2Index i (envL u.toList)).res = .panic ↔ 2 ≤ i.val) := by
  have h1 : p2Index i (envL u.toList) = .ofPanic ((u.get? i).map fun a => [a]) := by
    fin_cases i
    · exact (Trace.C16Rest.t_p2_index_0 u).1
    · exact (Trace.C16Rest.t_p2_index_1 u).1
    · exact (Trace.C16Rest.t_p2_index_2_oob u).1
  have h2 : u.get? i = u.toList[i.val]? := (Cg.C16.P2.index_spec u i).1
  have h3 : tuple2List u.toTuple = u.toList := (Cg.C16.tuple_order (α := K) ⟨0⟩ ⟨0, 0⟩ ⟨0, 0, 0⟩ ⟨0, 0, 0, 0⟩ ⟨0⟩ u ⟨0, 0, 0⟩).2.2.2.2.2.2.2.2.2.2.2.2.1
  refine ⟨h1, ?_, ?_, ?_, ?_⟩
  · rw [h1, h2]
  · rw [h1, h2, h3]
  · rw [h1, Tr.ofPanic_res_ok, Option.isSome_map]; exact Cg.C16.P2.get?_isSome_iff u i
  · rw [h1, Tr.ofPanic_res_panic, Option.map_eq_none_iff]; exact Cg.C16.P2.get?_eq_none_iff u i

/-- `Point2`, every in-range index: the kernel returns `[a]` exactly when `a` is entry `i` of the array view -/
theorem code_p2_index_inrange (u : P2 K) (i : Fin 2) (a : K) :
    p2Index i.castSucc (envL u.toList) = .okS [a] ↔ u.toList[i.val]? = some a := by
  rw [(code_p2_index_all u i.castSucc).2.1]
  fin_cases i <;> simp [P2.toList, Tr.okS, Tr.ofPanic]

/-- `Point2` built from an array (`From<[S; 2]>`) or a tuple: the kernel at `i` returns the `i`-th entry given -/
theorem code_p2_index_built (a b : K) (u : P2 K) (i : Fin 3) :
    (_root_.Cg.P2.ofArray? [a, b] = some u → p2Index i (envL u.toList) = .ofPanic (([a, b][i.val]?).map fun a => [a])) ∧
    p2Index i (envL (P2.ofTuple (a, b)).toList) = .ofPanic (([a, b][i.val]?).map fun a => [a]) := by
  constructor
  · intro h
    have h' := (Cg.C16.ofArray_toList (α := K) a b 0 0).2.2.2.2.2.1
    rw [h, Option.map_some, Option.some.injEq] at h'
    rw [(code_p2_index_all u i).2.1, h']
  · rw [(code_p2_index_all _ i).2.1, (Cg.C16.ofTuple_get (α := K) a b 0 0).2.2.2.2.2.1]

/-- `Point2`: after a store through `IndexMut` at `i` (the model's `set?`), the traced `Index` kernel at `j` reads the stored value when `i = j` and the old component otherwise -/
theorem code_p2_index_after_store (u u' : P2 K) (i j : Fin 2) (a : K) (h : u.set? i a = some u') :
    p2Index j.castSucc (envL u'.toList) = .ofPanic ((if i = j then some a else u.get? j).map fun a => [a]) := by
  have hs := Cg.C16.P2.set_get u i j a
  rw [h, Option.bind_some] at hs
  rw [(code_p2_index_all u' j.castSucc).1, Fin.val_castSucc, hs]
example (u : P2 K) (a : K) : u.set? 0 a = some { u with x := a } := rfl

/-! ## `Point3` -/
/-- the traced `Index` kernels of `Point3`, one per literal index `0..3` (`3`: the traced out-of-range index) -/
def p3Index : Fin 4 → (Nat → K) → Tr K
  | ⟨0, _⟩ => t_p3_index_0
  | ⟨1, _⟩ => t_p3_index_1
  | ⟨2, _⟩ => t_p3_index_2
  | ⟨3, _⟩ => t_p3_index_3_oob

/-- `Point3`: the kernel traced at index `k` returns exactly the field at position `k` (order `x, y, z`); the kernel traced at index `3` panics -/
theorem code_p3_index_fields (u : P3 K) :
    t_p3_index_0 (envL u.toList) = .okS [u.x] ∧
    t_p3_index_1 (envL u.toList) = .okS [u.y] ∧
    t_p3_index_2 (envL u.toList) = .okS [u.z] ∧
    t_p3_index_3_oob (envL u.toList) = .panicG [] := by
  refine ⟨?_, ?_, ?_, ?_⟩
  · rw [(Trace.C16Rest.t_p3_index_0 u).1, (Cg.C16.P3.index_spec u 0).2.2.1]; rfl
  · rw [(Trace.C16Rest.t_p3_index_1 u).1, (Cg.C16.P3.index_spec u 1).2.2.2.1]; rfl
  · rw [(Trace.C16Rest.t_p3_index_2 u).1, (Cg.C16.P3.index_spec u 2).2.2.2.2]; rfl
  · exact (Trace.C16Rest.t_p3_index_3_oob u).2.1

/-- `Point3`, every traced index `i = 0..3`: the kernel is the model's accessor, entry `i` of the array view, entry `i` of the tuple view (a missing entry is the panic); it returns normally iff `i < 3`, panics iff `3 ≤ i` -/
theorem code_p3_index_all (u : P3 K) (i : Fin 4) :
    p3Index i (envL u.toList) = .ofPanic ((u.get? i).map fun a => [a]) ∧
    p3Index i (envL u.toList) = .ofPanic ((u.toList[i.val]?).map fun a => [a]) ∧
    p3Index i (envL u.toList) = .ofPanic (((tuple3List u.toTuple)[i.val]?).map fun a => [a]) ∧
    ((p3Index i (envL u.toList)).res = .ok ↔ i.val < 3) ∧
    ((p3Index i (envL u.toList)).res = .panic ↔ 3 ≤ i.val) := by
  have h1 : p3Index i (envL u.toList) = .ofPanic ((u.get? i).map fun a => [a]) := by
    fin_cases i
    · exact (Trace.C16Rest.t_p3_index_0 u).1
    · exact (Trace.C16Rest.t_p3_index_1 u).1
    · exact (Trace.C16Rest.t_p3_index_2 u).1
    · exact (Trace.C16Rest.t_p3_index_3_oob u).1
  have h2 : u.get? i = u.toList[i.val]? := (Cg.C16.P3.index_spec u i).1
  have h3 : tuple3List u.toTuple = u.toList := (Cg.C16.tuple_order (α := K) ⟨0⟩ ⟨0, 0⟩ ⟨0, 0, 0⟩ ⟨0, 0, 0, 0⟩ ⟨0⟩ ⟨0, 0⟩ u).2.2.2.2.2.2.2.2.2.2.2.2.2
  refine ⟨h1, ?_, ?_, ?_, ?_⟩
  · rw [h1, h2]
  · rw [h1, h2, h3]
  · rw [h1, Tr.ofPanic_res_ok, Option.isSome_map]; exact Cg.C16.P3.get?_isSome_iff u i
  · rw [h1, Tr.ofPanic_res_panic, Option.map_eq_none_iff]; exact Cg.C16.P3.get?_eq_none_iff u i

/-- `Point3`, every in-range index: the kernel returns `[a]` exactly when `a` is entry `i` of the array view -/
theorem code_p3_index_inrange (u : P3 K) (i : Fin 3) (a : K) :
    p3Index i.castSucc (envL u.toList) = .okS [a] ↔ u.toList[i.val]? = some a := by
  rw [(code_p3_index_all u i.castSucc).2.1]
  fin_cases i <;> simp [P3.toList, Tr.okS, Tr.ofPanic]

/-- `Point3` built from an array (`From<[S; 3]>`) or a tuple: the kernel at `i` returns the `i`-th entry given -/
theorem code_p3_index_built (a b c : K) (u : P3 K) (i : Fin 4) :
    (_root_.Cg.P3.ofArray? [a, b, c] = some u → p3Index i (envL u.toList) = .ofPanic (([a, b, c][i.val]?).map fun a => [a])) ∧
    p3Index i (envL (P3.ofTuple (a, b, c)).toList) = .ofPanic (([a, b, c][i.val]?).map fun a => [a]) := by
  constructor
  · intro h
    have h' := (Cg.C16.ofArray_toList (α := K) a b c 0).2.2.2.2.2.2
    rw [h, Option.map_some, Option.some.injEq] at h'
    rw [(code_p3_index_all u i).2.1, h']
  · rw [(code_p3_index_all _ i).2.1, (Cg.C16.ofTuple_get (α := K) a b c 0).2.2.2.2.1]

/-- `Point3`: after a store through `IndexMut` at `i` (the model's `set?`), the traced `Index` kernel at `j` reads the stored value when `i = j` and the old component otherwise -/
theorem code_p3_index_after_store (u u' : P3 K) (i j : Fin 3) (a : K) (h : u.set? i a = some u') :
    p3Index j.castSucc (envL u'.toList) = .ofPanic ((if i = j then some a else u.get? j).map fun a => [a]) := by
  have hs := Cg.C16.P3.set_get u i j a
  rw [h, Option.bind_some] at hs
  rw [(code_p3_index_all u' j.castSucc).1, Fin.val_castSucc, hs]
example (u : P3 K) (a : K) : u.set? 0 a = some { u with x := a } := rfl

/-! ## `Vector4::truncate_n` -/
/-- the traced `truncate_n` kernels, one per literal `n = 0..4` (`4`: the traced out-of-range argument) -/
def v4TruncateN : Fin 5 → (Nat → K) → Tr K
  | ⟨0, _⟩ => t_v4_truncate_n_0
  | ⟨1, _⟩ => t_v4_truncate_n_1
  | ⟨2, _⟩ => t_v4_truncate_n_2
  | ⟨3, _⟩ => t_v4_truncate_n_3
  | ⟨4, _⟩ => t_v4_truncate_n_4_oob

/-- `truncate_n(n)` as computed keeps the three components other than component `n`, in order; `truncate_n(4)` panics -/
theorem code_v4_truncate_n_fields (u : V4 K) :
    t_v4_truncate_n_0 (envL u.toList) = .okS [u.y, u.z, u.w] ∧
    t_v4_truncate_n_1 (envL u.toList) = .okS [u.x, u.z, u.w] ∧
    t_v4_truncate_n_2 (envL u.toList) = .okS [u.x, u.y, u.w] ∧
    t_v4_truncate_n_3 (envL u.toList) = .okS [u.x, u.y, u.z] ∧
    t_v4_truncate_n_4_oob (envL u.toList) = .panicG [] := by
  refine ⟨?_, ?_, ?_, ?_, ?_⟩
  · rw [(Trace.C16Rest.t_v4_truncate_n_0 u).1, (Trace.C16Rest.t_v4_truncate_n_0 u).2]; rfl
  · rw [(Trace.C16Rest.t_v4_truncate_n_1 u).1, (Trace.C16Rest.t_v4_truncate_n_1 u).2]; rfl
  · rw [(Trace.C16Rest.t_v4_truncate_n_2 u).1, (Trace.C16Rest.t_v4_truncate_n_2 u).2]; rfl
  · rw [(Trace.C16Rest.t_v4_truncate_n_3 u).1, (Trace.C16Rest.t_v4_truncate_n_3 u).2]; rfl
  · exact (Trace.C16Rest.t_v4_truncate_n_4_oob u).2.1

/-- every traced `n = 0..4`: the kernel is the model's `truncateN?`; for `n < 4` the output is the array view with entry `n`
erased (exactly component `n` is dropped, the others keep their order); for `n = 4` the kernel panics -/
theorem code_v4_truncate_n_all (u : V4 K) (n : Fin 5) :
    v4TruncateN n (envL u.toList) = .ofPanic ((u.truncateN? n).map V3.toList) ∧
    (n.val < 4 → v4TruncateN n (envL u.toList) = .okS (u.toList.eraseIdx n)) ∧
    (4 ≤ n.val → v4TruncateN n (envL u.toList) = .panicG []) ∧
    ((v4TruncateN n (envL u.toList)).res = .ok ↔ n.val < 4) := by
  have h1 : v4TruncateN n (envL u.toList) = .ofPanic ((u.truncateN? n).map V3.toList) := by
    fin_cases n
    · exact (Trace.C16Rest.t_v4_truncate_n_0 u).1
    · exact (Trace.C16Rest.t_v4_truncate_n_1 u).1
    · exact (Trace.C16Rest.t_v4_truncate_n_2 u).1
    · exact (Trace.C16Rest.t_v4_truncate_n_3 u).1
    · exact (Trace.C16Rest.t_v4_truncate_n_4_oob u).1
  refine ⟨h1, ?_, ?_, ?_⟩
  · intro h; rw [h1, (Cg.C16.truncateN_spec u n).1 h]; rfl
  · intro h; rw [h1, (Cg.C16.truncateN_spec u n).2 h]; rfl
  · rw [h1, Tr.ofPanic_res_ok]
    constructor
    · intro h
      by_contra hn
      rw [(Cg.C16.truncateN_spec u n).2 (by omega)] at h
      simp at h
    · intro h; rw [(Cg.C16.truncateN_spec u n).1 h]; rfl

/-- what `truncate_n(n)` keeps is what the `Vector3` index kernels read back: position `k` of the result is component `k` of the
argument when `k < n` and component `k + 1` otherwise (kernel on the model value returned by the kernel) -/
theorem code_v4_truncate_n_index (u : V4 K) (t : V3 K) (n : Fin 4) (k : Fin 3)
    (h : v4TruncateN n.castSucc (envL u.toList) = .okS t.toList) :
    v3Index k.castSucc (envL t.toList) =
      v4Index (if k.val < n.val then ⟨k.val, by omega⟩ else ⟨k.val + 1, by omega⟩) (envL u.toList) := by
  rw [(code_v4_truncate_n_all u n.castSucc).2.1 (by simp)] at h
  have ht : t.toList = u.toList.eraseIdx n := by
    have := congrArg Tr.out h
    simpa [Tr.okS] using this.symm
  rw [(code_v3_index_all t k.castSucc).2.1, (code_v4_index_all u _).2.1, ht]
  fin_cases n <;> fin_cases k <;> simp [V4.toList]
example (u : V4 K) : v4TruncateN (2 : Fin 4).castSucc (envL u.toList) = .okS (⟨u.x, u.y, u.w⟩ : V3 K).toList :=
  (code_v4_truncate_n_fields u).2.2.1

end Cg.E2E.C16
