import Cgm.Trace.C09
import Cgm.Props.C09
/-!
# C09, end to end: `look_to` / `look_at` as the code computes them, over the reals (see `Cgm/E2E/C02.lean`)
-/
set_option linter.unusedSectionVars false
namespace Cg.E2E.C09
open Cg Cg.Gen.C09
variable [FRem ℝ] [Lits ℝ]

/-- `Matrix4::look_to_rh(eye, d, up)` as computed is a rigid motion (orthonormal rotation part, determinant +1, affine) that
sends the eye to the origin and `d` onto the -z axis, ... (every clause of `C09.lookToRh_spec`) -/
theorem code_look_to_rh (eye : P3 ℝ) (d up : V3 ℝ) (hd : 0 < d.magnitude2)
    (hup : 0 < (V3.cross d.normalize up).magnitude2) :
    ∃ m : M4 ℝ, t_m4_look_to_rh (envL (eye.toList ++ d.toList ++ up.toList)) = .okS m.toList ∧
      (C09.upper3 m).transpose * C09.upper3 m = M3.one ∧ (C09.upper3 m).det = 1 ∧ Cg.C08.M4.Affine m ∧
      m.transformPoint eye = P3.origin ∧ m.transformVector d = ⟨0, 0, -d.magnitude⟩ ∧
      (m.transformVector up).x = 0 ∧ 0 ≤ (m.transformVector up).y := by
  have h := C09.lookToRh_spec eye d up hd hup
  exact ⟨M4.lookToRh eye d up, Trace.C09.t_m4_look_to_rh eye d up, h⟩

/-- the left-handed constructor is the right-handed one for `-d`; `look_at_*(eye, center, up)` is `look_to_*(eye, center - eye, up)`.
Each conjunct says that a traced kernel equals a sibling constructor of the model (e.g. the `Matrix3::look_to_rh` kernel is the
model's `M3.lookToLh` at `-d`, the `Basis3::look_at` kernel is `M3.lookToLh`); for the Matrix3 / Basis3 kernels nothing beyond
these kernel = model-definition equalities is stated here -/
theorem code_variants_agree (eye center : P3 ℝ) (d up : V3 ℝ) :
    t_m4_look_to_lh (envL (eye.toList ++ d.toList ++ up.toList)) = .okS (M4.lookToRh eye (-d) up).toList ∧
    t_m4_look_at_rh (envL (eye.toList ++ center.toList ++ up.toList)) = .okS (M4.lookToRh eye (center - eye) up).toList ∧
    t_m4_look_at_lh (envL (eye.toList ++ center.toList ++ up.toList)) = .okS (M4.lookToLh eye (center - eye) up).toList ∧
    t_m3_look_to_rh (envL (d.toList ++ up.toList)) = .okS (M3.lookToLh (-d) up).toList ∧
    t_m3_tlook_at_rh (envL (eye.toList ++ center.toList ++ up.toList)) = .okS (M3.lookToRh (center - eye) up).toList ∧
    t_m3_tlook_at_lh (envL (eye.toList ++ center.toList ++ up.toList)) = .okS (M3.lookToLh (center - eye) up).toList ∧
    t_b3_look_at (envL (d.toList ++ up.toList)) = .okS (M3.lookToLh d up).toList :=
  ⟨Trace.C09.t_m4_look_to_lh eye d up, Trace.C09.t_m4_look_at_rh eye center up, Trace.C09.t_m4_look_at_lh eye center up,
    Trace.C09.t_m3_look_to_rh d up, Trace.C09.t_m3_tlook_at_rh eye center up, Trace.C09.t_m3_tlook_at_lh eye center up,
    Trace.C09.t_b3_look_at d up⟩

/-- the rotation part of the left-handed 4x4 view matrix as computed is the 3x3 one as computed -/
theorem code_m4_m3_agree (eye : P3 ℝ) (d up : V3 ℝ) (hd : 0 < d.magnitude2) (hup : 0 < (V3.cross up d.normalize).magnitude2) :
    ∃ (m4 : M4 ℝ) (m3 : M3 ℝ), t_m4_look_to_lh (envL (eye.toList ++ d.toList ++ up.toList)) = .okS m4.toList ∧
      t_m3_look_to_lh (envL (d.toList ++ up.toList)) = .okS m3.toList ∧ C09.upper3 m4 = m3 :=
  ⟨_, _, Trace.C09.t_m4_look_to_lh eye d up, Trace.C09.t_m3_look_to_lh d up, C09.m4_m3_agree_lh eye d up hd hup⟩

/-- 2-D: `Matrix2::look_at(d, up)` as computed (either outcome of its comparison) has orthonormal columns, the first equal to
`d/|d|` and the second on the same side as `up` -/
theorem code_look_at_2d (d up : V2 ℝ) (hd : 0 < d.magnitude2) :
    ∃ m : M2 ℝ, (up.y * d.x ≤ up.x * d.y → t_m2_look_at_flip (envL (d.toList ++ up.toList)) =
        .okG m.toList [.le (up.y * d.x) (up.x * d.y) true]) ∧
      (¬ up.y * d.x ≤ up.x * d.y → t_m2_look_at_noflip (envL (d.toList ++ up.toList)) =
        .okG m.toList [.le (up.y * d.x) (up.x * d.y) false]) ∧
      m.x = d * (1 / d.magnitude) ∧ V2.dot m.x m.x = 1 ∧ V2.dot m.y m.y = 1 ∧ V2.dot m.x m.y = 0 ∧ 0 ≤ V2.dot m.y up := by
  have h := C09.lookAt2_spec d up hd
  exact ⟨M2.lookAt d up, fun hh => Trace.C09.t_m2_look_at_flip d up hh, fun hh => Trace.C09.t_m2_look_at_noflip d up hh, h⟩
end Cg.E2E.C09
