import Cgm.Lemmas.GuardSem
import Cgm.E2E.C09h
import Cgm.Trace.C09More
import Cgm.Trace.C08More
import Cgm.Trace.Cover4
/-!
# C09, end to end, with the guard semantics: the `look_at` constructors that make comparisons

`Matrix2::look_at` / `Basis2::look_at` (one comparison `up.y d.x ≤ up.x d.y`: flip / no flip), `Quaternion::look_at`
(`Matrix3::look_to_lh(d, up).into()`: the five paths of `From<Matrix3> for Quaternion`), `Decomposed<_, Quaternion>::look_at` (the same
five paths at `center - eye`), `Decomposed<_, Basis2>::look_at_lh` (flip / no flip).  With `Tr.Consistent`
(`Cgm/Lemmas/GuardSem.lean`): each kernel is the path the code takes iff its path condition holds, exactly one kernel of each
function is for every input, and over the reals the consistent path outputs ONE value (pinned) with the property clause.
`look_at_stable` takes the flip as an argument and makes no comparison: each of its kernels is consistent on every input.
-/
set_option linter.unusedSectionVars false
set_option linter.unusedSimpArgs false
set_option linter.unusedTactic false
set_option linter.unreachableTactic false
namespace Cg.E2E.C09

section field
open Cg Cg.Gen.C09
variable {K : Type} [Field K] [LinearOrder K] [Approx K] [Transc K] [FRem K] [Lits K]
attribute [local simp] M3.lookToLh V3.normalize V3.normalizeTo V3.magnitude
theorem g_m2_look_at_flip (d u : V2 K) :
    (t_m2_look_at_flip (envL (d.toList ++ u.toList))).guards =
      [.le (u.y * d.x) (u.x * d.y) true] := by
  simp [envL, V2.toList]
theorem m2_look_at_flip_consistent (d u : V2 K) :
    (t_m2_look_at_flip (envL (d.toList ++ u.toList))).Consistent ↔
      u.y * d.x ≤ u.x * d.y := by
  rw [Tr.Consistent, g_m2_look_at_flip]
  simp only [List.mem_cons, List.not_mem_nil, or_false, forall_eq_or_imp, forall_eq, G.holds_lt_true, G.holds_lt_false,
    G.holds_le_true, G.holds_le_false]
theorem g_m2_look_at_noflip (d u : V2 K) :
    (t_m2_look_at_noflip (envL (d.toList ++ u.toList))).guards =
      [.le (u.y * d.x) (u.x * d.y) false] := by
  simp [envL, V2.toList]
theorem m2_look_at_noflip_consistent (d u : V2 K) :
    (t_m2_look_at_noflip (envL (d.toList ++ u.toList))).Consistent ↔
      ¬ u.y * d.x ≤ u.x * d.y := by
  rw [Tr.Consistent, g_m2_look_at_noflip]
  simp only [List.mem_cons, List.not_mem_nil, or_false, forall_eq_or_imp, forall_eq, G.holds_lt_true, G.holds_lt_false,
    G.holds_le_true, G.holds_le_false]
theorem g_b2_look_at_flip (d u : V2 K) :
    (t_b2_look_at_flip (envL (d.toList ++ u.toList))).guards =
      [.le (u.y * d.x) (u.x * d.y) true] := by
  simp [envL, V2.toList]
theorem b2_look_at_flip_consistent (d u : V2 K) :
    (t_b2_look_at_flip (envL (d.toList ++ u.toList))).Consistent ↔
      u.y * d.x ≤ u.x * d.y := by
  rw [Tr.Consistent, g_b2_look_at_flip]
  simp only [List.mem_cons, List.not_mem_nil, or_false, forall_eq_or_imp, forall_eq, G.holds_lt_true, G.holds_lt_false,
    G.holds_le_true, G.holds_le_false]
theorem g_b2_look_at_noflip (d u : V2 K) :
    (t_b2_look_at_noflip (envL (d.toList ++ u.toList))).guards =
      [.le (u.y * d.x) (u.x * d.y) false] := by
  simp [envL, V2.toList]
theorem b2_look_at_noflip_consistent (d u : V2 K) :
    (t_b2_look_at_noflip (envL (d.toList ++ u.toList))).Consistent ↔
      ¬ u.y * d.x ≤ u.x * d.y := by
  rw [Tr.Consistent, g_b2_look_at_noflip]
  simp only [List.mem_cons, List.not_mem_nil, or_false, forall_eq_or_imp, forall_eq, G.holds_lt_true, G.holds_lt_false,
    G.holds_le_true, G.holds_le_false]
theorem g_q_look_at (d u : V3 K) :
    (t_q_look_at (envL (d.toList ++ u.toList))).guards =
      [.le 0 (M3.lookToLh d u).trace true] := by
  simp [M3.trace, M3.diagonal, V3.sum]; tr_auto_nf
theorem q_look_at_consistent (d u : V3 K) :
    (t_q_look_at (envL (d.toList ++ u.toList))).Consistent ↔
      0 ≤ (M3.lookToLh d u).trace := by
  rw [Tr.Consistent, g_q_look_at]
  simp only [List.mem_cons, List.not_mem_nil, or_false, forall_eq_or_imp, forall_eq, G.holds_lt_true, G.holds_lt_false,
    G.holds_le_true, G.holds_le_false]
theorem g_q_look_at_xx (d u : V3 K) :
    (t_q_look_at_xx (envL (d.toList ++ u.toList))).guards =
      [.le 0 (M3.lookToLh d u).trace false,
       .lt (M3.lookToLh d u).y.y (M3.lookToLh d u).x.x true,
       .lt (M3.lookToLh d u).z.z (M3.lookToLh d u).x.x true] := by
  simp [M3.trace, M3.diagonal, V3.sum]; tr_auto_nf
theorem q_look_at_xx_consistent (d u : V3 K) :
    (t_q_look_at_xx (envL (d.toList ++ u.toList))).Consistent ↔
      ¬ 0 ≤ (M3.lookToLh d u).trace ∧ (M3.lookToLh d u).y.y < (M3.lookToLh d u).x.x ∧ (M3.lookToLh d u).z.z < (M3.lookToLh d u).x.x := by
  rw [Tr.Consistent, g_q_look_at_xx]
  simp only [List.mem_cons, List.not_mem_nil, or_false, forall_eq_or_imp, forall_eq, G.holds_lt_true, G.holds_lt_false,
    G.holds_le_true, G.holds_le_false]
theorem g_q_look_at_yy (d u : V3 K) :
    (t_q_look_at_yy (envL (d.toList ++ u.toList))).guards =
      [.le 0 (M3.lookToLh d u).trace false,
       .lt (M3.lookToLh d u).y.y (M3.lookToLh d u).x.x false,
       .lt (M3.lookToLh d u).z.z (M3.lookToLh d u).y.y true] := by
  simp [M3.trace, M3.diagonal, V3.sum]; tr_auto_nf
theorem q_look_at_yy_consistent (d u : V3 K) :
    (t_q_look_at_yy (envL (d.toList ++ u.toList))).Consistent ↔
      ¬ 0 ≤ (M3.lookToLh d u).trace ∧ ¬ (M3.lookToLh d u).y.y < (M3.lookToLh d u).x.x ∧ (M3.lookToLh d u).z.z < (M3.lookToLh d u).y.y := by
  rw [Tr.Consistent, g_q_look_at_yy]
  simp only [List.mem_cons, List.not_mem_nil, or_false, forall_eq_or_imp, forall_eq, G.holds_lt_true, G.holds_lt_false,
    G.holds_le_true, G.holds_le_false]
theorem g_q_look_at_zz (d u : V3 K) :
    (t_q_look_at_zz (envL (d.toList ++ u.toList))).guards =
      [.le 0 (M3.lookToLh d u).trace false,
       .lt (M3.lookToLh d u).y.y (M3.lookToLh d u).x.x false,
       .lt (M3.lookToLh d u).z.z (M3.lookToLh d u).y.y false] := by
  simp [M3.trace, M3.diagonal, V3.sum]; tr_auto_nf
theorem q_look_at_zz_consistent (d u : V3 K) :
    (t_q_look_at_zz (envL (d.toList ++ u.toList))).Consistent ↔
      ¬ 0 ≤ (M3.lookToLh d u).trace ∧ ¬ (M3.lookToLh d u).y.y < (M3.lookToLh d u).x.x ∧ ¬ (M3.lookToLh d u).z.z < (M3.lookToLh d u).y.y := by
  rw [Tr.Consistent, g_q_look_at_zz]
  simp only [List.mem_cons, List.not_mem_nil, or_false, forall_eq_or_imp, forall_eq, G.holds_lt_true, G.holds_lt_false,
    G.holds_le_true, G.holds_le_false]
theorem g_q_look_at_zz2 (d u : V3 K) :
    (t_q_look_at_zz2 (envL (d.toList ++ u.toList))).guards =
      [.le 0 (M3.lookToLh d u).trace false,
       .lt (M3.lookToLh d u).y.y (M3.lookToLh d u).x.x true,
       .lt (M3.lookToLh d u).z.z (M3.lookToLh d u).x.x false,
       .lt (M3.lookToLh d u).z.z (M3.lookToLh d u).y.y false] := by
  simp [M3.trace, M3.diagonal, V3.sum]; tr_auto_nf
theorem q_look_at_zz2_consistent (d u : V3 K) :
    (t_q_look_at_zz2 (envL (d.toList ++ u.toList))).Consistent ↔
      ¬ 0 ≤ (M3.lookToLh d u).trace ∧ (M3.lookToLh d u).y.y < (M3.lookToLh d u).x.x ∧ ¬ (M3.lookToLh d u).z.z < (M3.lookToLh d u).x.x ∧ ¬ (M3.lookToLh d u).z.z < (M3.lookToLh d u).y.y := by
  rw [Tr.Consistent, g_q_look_at_zz2]
  simp only [List.mem_cons, List.not_mem_nil, or_false, forall_eq_or_imp, forall_eq, G.holds_lt_true, G.holds_lt_false,
    G.holds_le_true, G.holds_le_false]

/-! ### exactly one path -/
theorem m2_look_at_exactly_one (d u : V2 K) :
    Tr.ExactlyOne [t_m2_look_at_flip (envL (d.toList ++ u.toList)), t_m2_look_at_noflip (envL (d.toList ++ u.toList))] := by
  unfold Tr.ExactlyOne
  simp only [List.pairwise_cons, List.mem_cons, List.not_mem_nil, or_false, forall_eq_or_imp, forall_eq, exists_eq_or_imp,
    exists_eq_left, List.Pairwise.nil, and_true, IsEmpty.forall_iff, implies_true,
    m2_look_at_flip_consistent, m2_look_at_noflip_consistent]
  by_cases h : u.y * d.x ≤ u.x * d.y <;> simp [h]
theorem b2_look_at_exactly_one (d u : V2 K) :
    Tr.ExactlyOne [t_b2_look_at_flip (envL (d.toList ++ u.toList)), t_b2_look_at_noflip (envL (d.toList ++ u.toList))] := by
  unfold Tr.ExactlyOne
  simp only [List.pairwise_cons, List.mem_cons, List.not_mem_nil, or_false, forall_eq_or_imp, forall_eq, exists_eq_or_imp,
    exists_eq_left, List.Pairwise.nil, and_true, IsEmpty.forall_iff, implies_true,
    b2_look_at_flip_consistent, b2_look_at_noflip_consistent]
  by_cases h : u.y * d.x ≤ u.x * d.y <;> simp [h]
/-- the five traced paths of `Quaternion::look_at` -/
def qLookAtKernels (d u : V3 K) : List (Tr K) :=
  [t_q_look_at (envL (d.toList ++ u.toList)), t_q_look_at_xx (envL (d.toList ++ u.toList)),
   t_q_look_at_yy (envL (d.toList ++ u.toList)), t_q_look_at_zz (envL (d.toList ++ u.toList)),
   t_q_look_at_zz2 (envL (d.toList ++ u.toList))]
/-- for every input exactly one of the five paths of `Quaternion::look_at` is the one the code takes -/
theorem q_look_at_exactly_one (d u : V3 K) : Tr.ExactlyOne (qLookAtKernels d u) := by
  unfold Tr.ExactlyOne qLookAtKernels
  simp only [List.pairwise_cons, List.mem_cons, List.not_mem_nil, or_false, forall_eq_or_imp, forall_eq, exists_eq_or_imp,
    exists_eq_left, List.Pairwise.nil, and_true, IsEmpty.forall_iff, implies_true,
    q_look_at_consistent, q_look_at_xx_consistent, q_look_at_yy_consistent, q_look_at_zz_consistent, q_look_at_zz2_consistent]
  generalize (M3.lookToLh d u).trace = T
  generalize (M3.lookToLh d u).x.x = X
  generalize (M3.lookToLh d u).y.y = Y
  generalize (M3.lookToLh d u).z.z = Z
  by_cases h0 : 0 ≤ T <;> by_cases h1 : Y < X <;> by_cases h2 : Z < X <;> by_cases h3 : Z < Y <;>
    simp [h0, h1, h2, h3]
  all_goals exact absurd (lt_trans h3 h1) h2
/-- `look_at_stable(dir, flip)` makes no comparison: each kernel is consistent on every input -/
theorem look_at_stable_consistent (d : V2 K) :
    (t_m2_look_at_stable_noflip (envL d.toList)).Consistent ∧ (t_m2_look_at_stable_flip (envL d.toList)).Consistent ∧
    (t_b2_look_at_stable_noflip (envL d.toList)).Consistent ∧ (t_b2_look_at_stable_flip (envL d.toList)).Consistent := by
  simp [Tr.Consistent]
end field

section field8
open Cg Cg.Gen.C08
variable {K : Type} [Field K] [LinearOrder K] [Approx K] [Transc K] [FRem K] [Lits K]
attribute [local simp] M3.lookToLh V3.normalize V3.normalizeTo V3.magnitude
theorem g_dq_look_at (e c : P3 K) (u : V3 K) :
    (t_dq_look_at (envL (e.toList ++ c.toList ++ u.toList))).guards =
      [.le 0 (M3.lookToLh (c - e) u).trace true] := by
  simp [M3.trace, M3.diagonal, V3.sum]; tr_auto_nf
theorem dq_look_at_consistent (e c : P3 K) (u : V3 K) :
    (t_dq_look_at (envL (e.toList ++ c.toList ++ u.toList))).Consistent ↔
      0 ≤ (M3.lookToLh (c - e) u).trace := by
  rw [Tr.Consistent, g_dq_look_at]
  simp only [List.mem_cons, List.not_mem_nil, or_false, forall_eq_or_imp, forall_eq, G.holds_lt_true, G.holds_lt_false,
    G.holds_le_true, G.holds_le_false]
theorem g_dq_look_at_xx (e c : P3 K) (u : V3 K) :
    (t_dq_look_at_xx (envL (e.toList ++ c.toList ++ u.toList))).guards =
      [.le 0 (M3.lookToLh (c - e) u).trace false,
       .lt (M3.lookToLh (c - e) u).y.y (M3.lookToLh (c - e) u).x.x true,
       .lt (M3.lookToLh (c - e) u).z.z (M3.lookToLh (c - e) u).x.x true] := by
  simp [M3.trace, M3.diagonal, V3.sum]; tr_auto_nf
theorem dq_look_at_xx_consistent (e c : P3 K) (u : V3 K) :
    (t_dq_look_at_xx (envL (e.toList ++ c.toList ++ u.toList))).Consistent ↔
      ¬ 0 ≤ (M3.lookToLh (c - e) u).trace ∧ (M3.lookToLh (c - e) u).y.y < (M3.lookToLh (c - e) u).x.x ∧ (M3.lookToLh (c - e) u).z.z < (M3.lookToLh (c - e) u).x.x := by
  rw [Tr.Consistent, g_dq_look_at_xx]
  simp only [List.mem_cons, List.not_mem_nil, or_false, forall_eq_or_imp, forall_eq, G.holds_lt_true, G.holds_lt_false,
    G.holds_le_true, G.holds_le_false]
theorem g_dq_look_at_yy (e c : P3 K) (u : V3 K) :
    (t_dq_look_at_yy (envL (e.toList ++ c.toList ++ u.toList))).guards =
      [.le 0 (M3.lookToLh (c - e) u).trace false,
       .lt (M3.lookToLh (c - e) u).y.y (M3.lookToLh (c - e) u).x.x false,
       .lt (M3.lookToLh (c - e) u).z.z (M3.lookToLh (c - e) u).y.y true] := by
  simp [M3.trace, M3.diagonal, V3.sum]; tr_auto_nf
theorem dq_look_at_yy_consistent (e c : P3 K) (u : V3 K) :
    (t_dq_look_at_yy (envL (e.toList ++ c.toList ++ u.toList))).Consistent ↔
      ¬ 0 ≤ (M3.lookToLh (c - e) u).trace ∧ ¬ (M3.lookToLh (c - e) u).y.y < (M3.lookToLh (c - e) u).x.x ∧ (M3.lookToLh (c - e) u).z.z < (M3.lookToLh (c - e) u).y.y := by
  rw [Tr.Consistent, g_dq_look_at_yy]
  simp only [List.mem_cons, List.not_mem_nil, or_false, forall_eq_or_imp, forall_eq, G.holds_lt_true, G.holds_lt_false,
    G.holds_le_true, G.holds_le_false]
theorem g_dq_look_at_zz (e c : P3 K) (u : V3 K) :
    (t_dq_look_at_zz (envL (e.toList ++ c.toList ++ u.toList))).guards =
      [.le 0 (M3.lookToLh (c - e) u).trace false,
       .lt (M3.lookToLh (c - e) u).y.y (M3.lookToLh (c - e) u).x.x false,
       .lt (M3.lookToLh (c - e) u).z.z (M3.lookToLh (c - e) u).y.y false] := by
  simp [M3.trace, M3.diagonal, V3.sum]; tr_auto_nf
theorem dq_look_at_zz_consistent (e c : P3 K) (u : V3 K) :
    (t_dq_look_at_zz (envL (e.toList ++ c.toList ++ u.toList))).Consistent ↔
      ¬ 0 ≤ (M3.lookToLh (c - e) u).trace ∧ ¬ (M3.lookToLh (c - e) u).y.y < (M3.lookToLh (c - e) u).x.x ∧ ¬ (M3.lookToLh (c - e) u).z.z < (M3.lookToLh (c - e) u).y.y := by
  rw [Tr.Consistent, g_dq_look_at_zz]
  simp only [List.mem_cons, List.not_mem_nil, or_false, forall_eq_or_imp, forall_eq, G.holds_lt_true, G.holds_lt_false,
    G.holds_le_true, G.holds_le_false]
theorem g_dq_look_at_zz2 (e c : P3 K) (u : V3 K) :
    (t_dq_look_at_zz2 (envL (e.toList ++ c.toList ++ u.toList))).guards =
      [.le 0 (M3.lookToLh (c - e) u).trace false,
       .lt (M3.lookToLh (c - e) u).y.y (M3.lookToLh (c - e) u).x.x true,
       .lt (M3.lookToLh (c - e) u).z.z (M3.lookToLh (c - e) u).x.x false,
       .lt (M3.lookToLh (c - e) u).z.z (M3.lookToLh (c - e) u).y.y false] := by
  simp [M3.trace, M3.diagonal, V3.sum]; tr_auto_nf
theorem dq_look_at_zz2_consistent (e c : P3 K) (u : V3 K) :
    (t_dq_look_at_zz2 (envL (e.toList ++ c.toList ++ u.toList))).Consistent ↔
      ¬ 0 ≤ (M3.lookToLh (c - e) u).trace ∧ (M3.lookToLh (c - e) u).y.y < (M3.lookToLh (c - e) u).x.x ∧ ¬ (M3.lookToLh (c - e) u).z.z < (M3.lookToLh (c - e) u).x.x ∧ ¬ (M3.lookToLh (c - e) u).z.z < (M3.lookToLh (c - e) u).y.y := by
  rw [Tr.Consistent, g_dq_look_at_zz2]
  simp only [List.mem_cons, List.not_mem_nil, or_false, forall_eq_or_imp, forall_eq, G.holds_lt_true, G.holds_lt_false,
    G.holds_le_true, G.holds_le_false]
theorem g_db2_look_at_lh (e c : P2 K) (u : V2 K) :
    (t_db2_look_at_lh (envL (e.toList ++ c.toList ++ u.toList))).guards =
      [.le (u.y * (c - e).x) (u.x * (c - e).y) false] := by
  simp [envL, V2.toList, P2.toList]
theorem db2_look_at_lh_consistent (e c : P2 K) (u : V2 K) :
    (t_db2_look_at_lh (envL (e.toList ++ c.toList ++ u.toList))).Consistent ↔
      ¬ u.y * (c - e).x ≤ u.x * (c - e).y := by
  rw [Tr.Consistent, g_db2_look_at_lh]
  simp only [List.mem_cons, List.not_mem_nil, or_false, forall_eq_or_imp, forall_eq, G.holds_lt_true, G.holds_lt_false,
    G.holds_le_true, G.holds_le_false]
theorem g_db2_look_at_lh_flip (e c : P2 K) (u : V2 K) :
    (t_db2_look_at_lh_flip (envL (e.toList ++ c.toList ++ u.toList))).guards =
      [.le (u.y * (c - e).x) (u.x * (c - e).y) true] := by
  simp [envL, V2.toList, P2.toList]
theorem db2_look_at_lh_flip_consistent (e c : P2 K) (u : V2 K) :
    (t_db2_look_at_lh_flip (envL (e.toList ++ c.toList ++ u.toList))).Consistent ↔
      u.y * (c - e).x ≤ u.x * (c - e).y := by
  rw [Tr.Consistent, g_db2_look_at_lh_flip]
  simp only [List.mem_cons, List.not_mem_nil, or_false, forall_eq_or_imp, forall_eq, G.holds_lt_true, G.holds_lt_false,
    G.holds_le_true, G.holds_le_false]

/-! ### exactly one path -/
/-- the five traced paths of `Decomposed<_, Quaternion>::look_at` -/
def dqLookAtKernels (e c : P3 K) (u : V3 K) : List (Tr K) :=
  [t_dq_look_at (envL (e.toList ++ c.toList ++ u.toList)), t_dq_look_at_xx (envL (e.toList ++ c.toList ++ u.toList)),
   t_dq_look_at_yy (envL (e.toList ++ c.toList ++ u.toList)), t_dq_look_at_zz (envL (e.toList ++ c.toList ++ u.toList)),
   t_dq_look_at_zz2 (envL (e.toList ++ c.toList ++ u.toList))]
theorem dq_look_at_exactly_one (e c : P3 K) (u : V3 K) : Tr.ExactlyOne (dqLookAtKernels e c u) := by
  unfold Tr.ExactlyOne dqLookAtKernels
  simp only [List.pairwise_cons, List.mem_cons, List.not_mem_nil, or_false, forall_eq_or_imp, forall_eq, exists_eq_or_imp,
    exists_eq_left, List.Pairwise.nil, and_true, IsEmpty.forall_iff, implies_true,
    dq_look_at_consistent, dq_look_at_xx_consistent, dq_look_at_yy_consistent, dq_look_at_zz_consistent,
    dq_look_at_zz2_consistent]
  generalize (M3.lookToLh (c - e) u).trace = T
  generalize (M3.lookToLh (c - e) u).x.x = X
  generalize (M3.lookToLh (c - e) u).y.y = Y
  generalize (M3.lookToLh (c - e) u).z.z = Z
  by_cases h0 : 0 ≤ T <;> by_cases h1 : Y < X <;> by_cases h2 : Z < X <;> by_cases h3 : Z < Y <;>
    simp [h0, h1, h2, h3]
  all_goals exact absurd (lt_trans h3 h1) h2
theorem db2_look_at_lh_exactly_one (e c : P2 K) (u : V2 K) :
    Tr.ExactlyOne [t_db2_look_at_lh (envL (e.toList ++ c.toList ++ u.toList)),
      t_db2_look_at_lh_flip (envL (e.toList ++ c.toList ++ u.toList))] := by
  unfold Tr.ExactlyOne
  simp only [List.pairwise_cons, List.mem_cons, List.not_mem_nil, or_false, forall_eq_or_imp, forall_eq, exists_eq_or_imp,
    exists_eq_left, List.Pairwise.nil, and_true, IsEmpty.forall_iff, implies_true,
    db2_look_at_lh_consistent, db2_look_at_lh_flip_consistent]
  generalize u.y * (c - e).x = A
  generalize u.x * (c - e).y = B
  by_cases h : A ≤ B <;> simp [h]
end field8

/-! ## over the reals: one statement per constructor -/
section real
open Cg Cg.Gen.C09
variable [FRem ℝ] [Lits ℝ] [Approx ℝ]

/-- **`Matrix2::look_at(d, up)` / `Basis2::look_at(d, up)`, one statement**: for a non-zero `d` exactly one of the two paths (flip /
no flip) of each is the one the code takes -- the same for both, since they record the same comparison --, and on it the output is
the flattening of ONE matrix `m` (pinned): orthonormal columns, the first equal to `d/|d|`, the second on the side of `up`;
determinant `-1` (a reflection) when the flip path is taken, `+1` otherwise -/
theorem code_look_at_2d_exact (d up : V2 ℝ) (hd : 0 < d.magnitude2) :
    Tr.ExactlyOne [t_m2_look_at_flip (envL (d.toList ++ up.toList)), t_m2_look_at_noflip (envL (d.toList ++ up.toList))] ∧
    Tr.ExactlyOne [t_b2_look_at_flip (envL (d.toList ++ up.toList)), t_b2_look_at_noflip (envL (d.toList ++ up.toList))] ∧
    ∃ m : M2 ℝ,
      (∀ k ∈ [t_m2_look_at_flip (envL (d.toList ++ up.toList)), t_m2_look_at_noflip (envL (d.toList ++ up.toList)),
          t_b2_look_at_flip (envL (d.toList ++ up.toList)), t_b2_look_at_noflip (envL (d.toList ++ up.toList))],
        k.Consistent → k.res = .ok ∧ k.out = m.toList ∧ ∀ m' : M2 ℝ, k.out = m'.toList → m' = m) ∧
      m.x = d * (1 / d.magnitude) ∧ V2.dot m.x m.x = 1 ∧ V2.dot m.y m.y = 1 ∧ V2.dot m.x m.y = 0 ∧ 0 ≤ V2.dot m.y up ∧
      m.transpose * m = M2.one ∧
      ((t_m2_look_at_flip (envL (d.toList ++ up.toList))).Consistent ∨
        (t_b2_look_at_flip (envL (d.toList ++ up.toList))).Consistent → m.det = -1) ∧
      ((t_m2_look_at_noflip (envL (d.toList ++ up.toList))).Consistent ∨
        (t_b2_look_at_noflip (envL (d.toList ++ up.toList))).Consistent → m.det = 1) := by
  obtain ⟨s1, s2, s3, s4, s5⟩ := C09.lookAt2_spec d up hd
  obtain ⟨h1, h2, -, h4⟩ := C09.lookAt2_det d up hd
  have fin : ∀ (k : Tr ℝ) (g : List (G ℝ)), k = .okG (M2.lookAt d up).toList g →
      k.res = .ok ∧ k.out = (M2.lookAt d up).toList ∧ ∀ m' : M2 ℝ, k.out = m'.toList → m' = M2.lookAt d up := by
    intro k g hk; subst hk
    exact ⟨rfl, rfl, fun m' h => (M2.toList_injective h).symm⟩
  refine ⟨m2_look_at_exactly_one d up, b2_look_at_exactly_one d up, M2.lookAt d up, ?_, s1, s2, s3, s4, s5, h1, ?_, ?_⟩
  · intro k hk
    simp only [List.mem_cons, List.not_mem_nil, or_false] at hk
    rcases hk with rfl | rfl | rfl | rfl
    · intro hc; exact fin _ _ (Trace.C09.t_m2_look_at_flip d up ((m2_look_at_flip_consistent d up).1 hc))
    · intro hc; exact fin _ _ (Trace.C09.t_m2_look_at_noflip d up ((m2_look_at_noflip_consistent d up).1 hc))
    · intro hc; exact fin _ _ (by rw [← h4]; exact Trace.C09Paths.t_b2_look_at_flip d up ((b2_look_at_flip_consistent d up).1 hc))
    · intro hc; exact fin _ _ (by rw [← h4]; exact Trace.C09Paths.t_b2_look_at_noflip d up ((b2_look_at_noflip_consistent d up).1 hc))
  · rw [m2_look_at_flip_consistent, b2_look_at_flip_consistent, or_self]
    intro hh; rw [h2, if_pos hh]
  · rw [m2_look_at_noflip_consistent, b2_look_at_noflip_consistent, or_self]
    intro hh; rw [h2, if_neg hh]

/-- **`Quaternion::look_at(d, up)`, one statement**: for a non-zero `d` and an `up` not parallel to it exactly one of the five paths
(of `From<Matrix3> for Quaternion`, applied to `Matrix3::look_to_lh(d, up)`) is the one the code takes, and on it the output is the
flattening of ONE unit quaternion `q` (pinned) whose matrix is `Matrix3::look_to_lh(d, up)` as computed (= `Basis3::look_at` as
computed), orthonormal with determinant `+1`; it rotates `d` onto `(0, 0, +|d|)` and `up` into the half-plane `x = 0, y ≥ 0` -/
theorem code_q_look_at_exact (d up : V3 ℝ) (hd : 0 < d.magnitude2) (hup : 0 < (V3.cross d up).magnitude2) :
    Tr.ExactlyOne (qLookAtKernels d up) ∧
    ∃ q : Quat ℝ,
      (∀ k ∈ qLookAtKernels d up, k.Consistent → k.res = .ok ∧ k.out = q.toList ∧ ∀ q' : Quat ℝ, k.out = q'.toList → q' = q) ∧
      q.magnitude2 = 1 ∧ t_m3_look_to_lh (envL (d.toList ++ up.toList)) = .okS q.toM3.toList ∧
      t_b3_look_at (envL (d.toList ++ up.toList)) = .okS q.toM3.toList ∧
      q.rotateVector d = ⟨0, 0, d.magnitude⟩ ∧ (q.rotateVector up).x = 0 ∧ 0 ≤ (q.rotateVector up).y ∧
      q.toM3.transpose * q.toM3 = M3.one ∧ q.toM3.det = 1 := by
  obtain ⟨q1, q2, -, -, q5, q6, q7⟩ := C09.quat_lookAt_spec d up hd hup
  obtain ⟨a1, a2, -⟩ := C09.lookToLh3_spec d up hd hup
  have fin : ∀ (k : Tr ℝ) (g : List (G ℝ)), k = .okG (Quat.lookAt d up).toList g →
      k.res = .ok ∧ k.out = (Quat.lookAt d up).toList ∧ ∀ q' : Quat ℝ, k.out = q'.toList → q' = Quat.lookAt d up := by
    intro k g hk; subst hk
    exact ⟨rfl, rfl, fun m' h => (Quat.toList_injective h).symm⟩
  refine ⟨q_look_at_exactly_one d up, Quat.lookAt d up, ?_, q1, ?_, ?_, q5, q6, q7, ?_, ?_⟩
  · intro k hk
    simp only [qLookAtKernels, List.mem_cons, List.not_mem_nil, or_false] at hk
    rcases hk with rfl | rfl | rfl | rfl | rfl
    · intro hc; exact fin _ _ (Trace.C09Paths.t_q_look_at d up ((q_look_at_consistent d up).1 hc))
    · intro hc; obtain ⟨c0, c1, c2⟩ := (q_look_at_xx_consistent d up).1 hc
      exact fin _ _ (Trace.C09More.t_q_look_at_xx d up c0 c1 c2)
    · intro hc; obtain ⟨c0, c1, c2⟩ := (q_look_at_yy_consistent d up).1 hc
      exact fin _ _ (Trace.C09More.t_q_look_at_yy d up c0 c1 c2)
    · intro hc; obtain ⟨c0, c1, c2⟩ := (q_look_at_zz_consistent d up).1 hc
      exact fin _ _ (Trace.C09More.t_q_look_at_zz d up c0 c1 c2)
    · intro hc; obtain ⟨c0, c1, c2, c3⟩ := (q_look_at_zz2_consistent d up).1 hc
      exact fin _ _ (Trace.C09More.t_q_look_at_zz2 d up c0 c1 c2 c3)
  · rw [Trace.C09.t_m3_look_to_lh, q2]
  · rw [Trace.C09.t_b3_look_at, q2]; rfl
  · rw [q2]; exact a1
  · rw [q2]; exact a2

/-- not vacuous: the hypotheses are satisfiable (2-D: `d = (1, 0)`; 3-D: see the example after `code_q_look_at` in
`Cgm/E2E/C09h.lean`: `d = (0, 0, 1)`, `up = (0, 1, 0)`) -/
example : 0 < (⟨1, 0⟩ : V2 ℝ).magnitude2 := by simp [V2.magnitude2, V2.dot]
example : 0 < (⟨0, 0, 1⟩ : V3 ℝ).magnitude2 ∧ 0 < (V3.cross (⟨0, 0, 1⟩ : V3 ℝ) ⟨0, 1, 0⟩).magnitude2 := by
  constructor <;> simp
end real

section real8
open Cg Cg.Gen.C08 Cg.Trace.C08 Cg.Trace.C08Paths
variable [FRem ℝ] [Lits ℝ] [Approx ℝ]

/-- **`Decomposed::<Vector3, Quaternion>::look_at(eye, center, up)`, one statement** (the deprecated alias of `look_at_lh`): for
`center ≠ eye` and an `up` not parallel to `center - eye` exactly one of the five paths is the one the code takes, and on it the
output is the flattening of ONE transform `t`: unit scale, unit quaternion, its matrix is `Matrix4::look_at_lh(eye, center, up)`, and
it sends the eye to the origin -/
theorem code_dq_look_at_exact (eye center : P3 ℝ) (up : V3 ℝ) (hd : 0 < (center - eye : V3 ℝ).magnitude2)
    (hup : 0 < (V3.cross (center - eye) up).magnitude2) :
    Tr.ExactlyOne (dqLookAtKernels eye center up) ∧
    ∃ t : DQ ℝ, (∀ k ∈ dqLookAtKernels eye center up, k.Consistent → k.res = .ok ∧ k.out = flq t) ∧
      t.scale = 1 ∧ t.rot.magnitude2 = 1 ∧ Decomposed.toM4 quatOps t = M4.lookAtLh eye center up ∧
      t.transformPointV quatOps eye.toVec = V3.zero := by
  obtain ⟨⟨k1, k2⟩, -⟩ := C09.decomposed_quat_lookAt eye center up hd hup
  have fin : ∀ (k : Tr ℝ) (g : List (G ℝ)),
      k = .okG (flq (Decomposed.lookAtDir quatOps (center - eye) up V3.zero eye.toVec)) g →
      k.res = .ok ∧ k.out = flq (Decomposed.lookAtDir quatOps (center - eye) up V3.zero eye.toVec) := by
    intro k g hk; subst hk; exact ⟨rfl, rfl⟩
  refine ⟨dq_look_at_exactly_one eye center up, Decomposed.lookAtDir quatOps (center - eye) up V3.zero eye.toVec, ?_, rfl,
    (C09.quat_lookAt_spec (center - eye) up hd hup).1, k1, k2⟩
  intro k hk
  simp only [dqLookAtKernels, List.mem_cons, List.not_mem_nil, or_false] at hk
  rcases hk with rfl | rfl | rfl | rfl | rfl
  · intro hc; exact fin _ _ (Trace.C08Paths.t_dq_look_at eye center up ((dq_look_at_consistent eye center up).1 hc))
  · intro hc; obtain ⟨c0, c1, c2⟩ := (dq_look_at_xx_consistent eye center up).1 hc
    exact fin _ _ (Trace.C08More.t_dq_look_at_xx eye center up c0 c1 c2)
  · intro hc; obtain ⟨c0, c1, c2⟩ := (dq_look_at_yy_consistent eye center up).1 hc
    exact fin _ _ (Trace.C08More.t_dq_look_at_yy eye center up c0 c1 c2)
  · intro hc; obtain ⟨c0, c1, c2⟩ := (dq_look_at_zz_consistent eye center up).1 hc
    exact fin _ _ (Trace.C08More.t_dq_look_at_zz eye center up c0 c1 c2)
  · intro hc; obtain ⟨c0, c1, c2, c3⟩ := (dq_look_at_zz2_consistent eye center up).1 hc
    exact fin _ _ (Trace.C08More.t_dq_look_at_zz2 eye center up c0 c1 c2 c3)

/-- **`Decomposed::<Vector2, Basis2>::look_at_lh(eye, center, up)`, one statement**: for `center ≠ eye` exactly one of the two paths
(no flip / flip of `Matrix2::look_at`'s comparison) is the one the code takes, and on it the output is the flattening of ONE
transform `t`: unit scale, rotation `Matrix2::look_at(center - eye, up)` -- orthonormal, first column the normalised direction, second
on the side of `up`, determinant `+1` on the no-flip path and `-1` (a reflection) on the flip path --, and the eye goes to the origin -/
theorem code_db2_look_at_lh_exact (eye center : P2 ℝ) (up : V2 ℝ) (hd : 0 < (center - eye : V2 ℝ).magnitude2) :
    Tr.ExactlyOne [t_db2_look_at_lh (envL (eye.toList ++ center.toList ++ up.toList)),
      t_db2_look_at_lh_flip (envL (eye.toList ++ center.toList ++ up.toList))] ∧
    ∃ t : DB2 ℝ,
      (∀ k ∈ [t_db2_look_at_lh (envL (eye.toList ++ center.toList ++ up.toList)),
          t_db2_look_at_lh_flip (envL (eye.toList ++ center.toList ++ up.toList))],
        k.Consistent → k.res = .ok ∧ k.out = flb2 t) ∧
      t.scale = 1 ∧ t.rot.mat = M2.lookAt (center - eye) up ∧
      t.rot.mat.x = (center - eye : V2 ℝ) * (1 / (center - eye : V2 ℝ).magnitude) ∧
      t.rot.mat.transpose * t.rot.mat = M2.one ∧ 0 ≤ V2.dot t.rot.mat.y up ∧
      ((t_db2_look_at_lh (envL (eye.toList ++ center.toList ++ up.toList))).Consistent → t.rot.mat.det = 1) ∧
      ((t_db2_look_at_lh_flip (envL (eye.toList ++ center.toList ++ up.toList))).Consistent → t.rot.mat.det = -1) ∧
      t.transformPointV basis2Ops eye.toVec = V2.zero := by
  obtain ⟨s1, -, -, -, s5⟩ := C09.lookAt2_spec (center - eye) up hd
  obtain ⟨h1, h2, -, -⟩ := C09.lookAt2_det (center - eye) up hd
  have hrot : (Decomposed.lookAtDir basis2Ops (center - eye) up V2.zero eye.toVec : DB2 ℝ).rot.mat =
      M2.lookAt (center - eye) up := rfl
  have fin : ∀ (k : Tr ℝ) (g : List (G ℝ)),
      k = .okG (flb2 (Decomposed.lookAtDir basis2Ops (center - eye) up V2.zero eye.toVec)) g →
      k.res = .ok ∧ k.out = flb2 (Decomposed.lookAtDir basis2Ops (center - eye) up V2.zero eye.toVec) := by
    intro k g hk; subst hk; exact ⟨rfl, rfl⟩
  refine ⟨db2_look_at_lh_exactly_one eye center up, Decomposed.lookAtDir basis2Ops (center - eye) up V2.zero eye.toVec,
    ?_, rfl, rfl, s1, h1, s5, ?_, ?_, ?_⟩
  · intro k hk
    simp only [List.mem_cons, List.not_mem_nil, or_false] at hk
    rcases hk with rfl | rfl
    · intro hc; exact fin _ _ (Trace.C08Paths.t_db2_look_at_lh eye center up ((db2_look_at_lh_consistent eye center up).1 hc))
    · intro hc; exact fin _ _ (Trace.C08More.t_db2_look_at_lh_flip eye center up ((db2_look_at_lh_flip_consistent eye center up).1 hc))
  · rw [db2_look_at_lh_consistent]; intro hh; rw [hrot, h2, if_neg hh]
  · rw [db2_look_at_lh_flip_consistent]; intro hh; rw [hrot, h2, if_pos hh]
  · show (Basis2.lookAt (center - eye) up).rotateVector (eye.toVec * (1 : ℝ)) +
      (Basis2.lookAt (center - eye) up).rotateVector (V2.zero - eye.toVec) = V2.zero
    simp only [Basis2.rotateVector]
    ext <;> simp [V2.zero] <;> ring
end real8
end Cg.E2E.C09
