import Cgm.E2E.C10b
import Cgm.Trace.C10Paths
/-!
# C10 (completion), end to end: general-point forms of the `frustum` and `planar` clauses, every traced rejecting path of
`perspective` / `planar` in the property's vocabulary (`π`, `2^-52`, focal point), the other accepted `planar` paths with the
window / depth mapping, the negative-aspect / degree / struct-form entry points

Everything about kernels is over `ℝ` with the concrete `approx` relations (`open scoped Cg.RealApprox`) and
`Lits.radFull = 2π`.
-/
set_option linter.unusedSectionVars false
namespace Cg.E2E.C10
open Cg Cg.Gen.C10

/-! ## model lemmas: general points -/
section model
variable {F : Type} [Field F] [CharZero F] [Transc F] [Lits F] [Approx F] [LT F] [DecidableLT F] [LE F] [DecidableLE F]

/-- `frustum`, every point of the near plane: `(x, y, -n) ↦ ((2x-(r+l))/(r-l), (2y-(t+b))/(t-b), -1)` -/
theorem frustum_near_general (l r b t n f x y : F) (hx : r - l ≠ 0) (hy : t - b ≠ 0) (hz : f - n ≠ 0) (hn : n ≠ 0) :
    (frustumMat l r b t n f).transformPoint ⟨x, y, -n⟩ =
      ⟨(2 * x - (r + l)) / (r - l), (2 * y - (t + b)) / (t - b), -1⟩ := by
  ext <;> simp <;> field_simp <;> ring
/-- `frustum`, every point of the far plane, written as the image `(x f/n, y f/n, -f)` of the near-plane point `(x, y, -n)` under
the similarity of centre the eye: it goes to the same `(x', y')` on the face `z = +1` -/
theorem frustum_far_general (l r b t n f x y : F) (hx : r - l ≠ 0) (hy : t - b ≠ 0) (hz : f - n ≠ 0) (hn : n ≠ 0)
    (hf : f ≠ 0) :
    (frustumMat l r b t n f).transformPoint ⟨x * (f / n), y * (f / n), -f⟩ =
      ⟨(2 * x - (r + l)) / (r - l), (2 * y - (t + b)) / (t - b), 1⟩ := by
  ext <;> simp <;> field_simp <;> ring
/-- `planar`, every point of the plane `z = 0`: `(x, y, 0) ↦ (2x/(aspect h), 2y/h, ·)` (there `w = 1`) -/
theorem planar_window_general (fovy aspect h n f x y : F) :
    ((planarMat fovy aspect h n f) * (P3.toHomogeneous ⟨x, y, 0⟩)).w = 1 ∧
    ((planarMat fovy aspect h n f).transformPoint ⟨x, y, 0⟩).x = 2 * x / (aspect * h) ∧
    ((planarMat fovy aspect h n f).transformPoint ⟨x, y, 0⟩).y = 2 * y / h := by
  refine ⟨?_, ?_, ?_⟩ <;> simp <;> ring
/-- the code's focal point `-inv_f.recip()` is `-(h/2) cot(fovy/2)` (also with the field's `x/0 = 0`) -/
theorem planarFocal_eq (fovy h : F) :
    -((1 : F) / planarInvF fovy h) = -(h / 2 * (1 / Transc.tan (fovy / 2))) := by
  simp only [planarInvF, Rad.tan, two, one_div_div]
  push_cast
  ring
end model

/-! ## model lemma: every accepted tuple of `planar` maps the window and the two planes as documented -/
/-- a focal point `-(1/k)` strictly outside the interval spanned by the planes keeps `w = k z + 1` away from `0` on both -/
theorem planar_w_ne (k n f : ℝ) (hf : -(1 / k) < min n f ∨ max n f < -(1 / k)) :
    k * n + 1 ≠ 0 ∧ k * f + 1 ≠ 0 := by
  by_cases hk : k = 0
  · subst hk; simp
  · have e : ∀ z : ℝ, k * z + 1 = 0 → z = -(1 / k) := by
      intro z hz; field_simp; linarith
    have a1 := min_le_left n f
    have a2 := min_le_right n f
    have a3 := le_max_left n f
    have a4 := le_max_right n f
    constructor <;> intro h0 <;> have e0 := e _ h0 <;> rcases hf with hf | hf <;> linarith

/-- the mapping clauses of `planar` for a matrix `m`: depth of the two planes (all points), the plane `z = 0` (all points; there
`w = 1`), and, for a non-zero height, the corners of the window -/
def PlanarMaps (a h n f : ℝ) (m : M4 ℝ) : Prop :=
  (∀ x y : ℝ, (m.transformPoint ⟨x, y, -n⟩).z = -1 ∧ (m.transformPoint ⟨x, y, -f⟩).z = 1) ∧
  (∀ x y : ℝ, (m * P3.toHomogeneous (⟨x, y, 0⟩ : P3 ℝ)).w = 1 ∧
    (m.transformPoint ⟨x, y, 0⟩).x = 2 * x / (a * h) ∧ (m.transformPoint ⟨x, y, 0⟩).y = 2 * y / h) ∧
  (h ≠ 0 → (m.transformPoint ⟨a * h / 2, h / 2, 0⟩).x = 1 ∧ (m.transformPoint ⟨a * h / 2, h / 2, 0⟩).y = 1 ∧
    (m.transformPoint ⟨-(a * h / 2), -(h / 2), 0⟩).x = -1 ∧ (m.transformPoint ⟨-(a * h / 2), -(h / 2), 0⟩).y = -1)

section anyApprox
variable [Approx ℝ]

/-- **acceptance ⇒ mapping, all accepted tuples** (whichever of the accepting cases: near < far or far < near, planes in front
of or behind the focal point, `tan(fovy/2) = 0`, either sign of the aspect): the two side conditions `w ≠ 0` of
`C10.planar_depth` are consequences of the focal-point assertion -/
theorem planar_accept_maps (S : ApproxLaws ℝ) (fovy a h n f : ℝ) (m : M4 ℝ) (hm : planar fovy a h n f = some m) :
    m = planarMat fovy a h n f ∧ a ≠ 0 ∧ n ≠ f ∧ 0 ≤ h ∧ PlanarMaps a h n f m := by
  have hne : planar fovy a h n f ≠ none := by rw [hm]; exact Option.some_ne_none m
  have hg := not_not.mp ((C10.planar_none_iff fovy a h n f).not.mp hne)
  have hp := C10.planar_some fovy a h n f hg
  obtain ⟨-, -, g3, g4, g5, -, g7⟩ := hg
  have hmm : m = planarMat fovy a h n f := by rw [hm] at hp; exact Option.some.inj hp
  have ha : a ≠ 0 := by
    rintro rfl
    rw [sabs_eq_abs, abs_zero, S.absDiffEqD_refl] at g4
    exact Bool.noConfusion g4
  have hnf : n ≠ f := fun e => S.ne_of_absDiffEqD_false g5 e.symm
  obtain ⟨hkn, hkf⟩ : planarInvF fovy h * n + 1 ≠ 0 ∧ planarInvF fovy h * f + 1 ≠ 0 := by
    rcases g7 with g | g
    · have hT : Rad.tan (fovy / (two : ℝ)) = 0 := (C10.zero_iff _).mp g.1
      have hk : planarInvF fovy h = 0 := by simp only [planarInvF, hT, zero_mul, zero_div]
      rw [hk]; simp
    · rw [smin_eq_min, smax_eq_max, min_comm, max_comm] at g
      exact planar_w_ne _ n f g
  subst hmm
  refine ⟨rfl, ha, hnf, g3, fun x y => C10.planar_depth fovy a h n f x y (sub_ne_zero.mpr hnf) hkn hkf,
    fun x y => planar_window_general fovy a h n f x y, fun hh => ?_⟩
  obtain ⟨w1, w2, w3, w4⟩ := C10.planar_window fovy a h n f ha hh
  exact ⟨w1, w2, w3, w4⟩
end anyApprox

/-! ## the kernels, over `ℝ` with the concrete `approx` relations and `π` -/
section concrete
open scoped Cg.RealApprox
open Cg.Trace.C10 (eps52)

theorem half_turn : (Lits.radFull : ℝ) / 2 = Real.pi := by rw [lits_radFull]; ring
theorem eps52_real : (eps52 : ℝ) = eps52R := rfl
theorem absDiff_false (x y : ℝ) : absDiffEqD x y = false ↔ eps52R < |x - y| := by
  rw [← Bool.not_eq_true, real_absDiffEqD, not_le]
theorem absDiff_zero_true {a : ℝ} (h0 : 0 ≤ a) (h : a ≤ eps52R) : absDiffEqD a (0 : ℝ) = true := by
  rw [real_absDiffEqD, sub_zero, abs_of_nonneg h0]; exact h
theorem absDiff_zero_false {a : ℝ} (h : eps52R < a) : absDiffEqD a (0 : ℝ) = false := by
  rw [absDiff_false, sub_zero, abs_of_pos (lt_trans eps52R_pos h)]; exact h
theorem tan_two (x : ℝ) : Rad.tan (x / (two : ℝ)) = Real.tan (x / 2) := by
  simp [Rad.tan, two]
/-- the focal point the code computes (`C10.planarFocal = -(1 / inv_f)`) is at `-(h/2) cot(fovy/2)` -/
theorem planarFocal_real (fovy h : ℝ) : C10.planarFocal fovy h = -(h / 2 * (1 / Real.tan (fovy / 2))) := by
  unfold C10.planarFocal; rw [planarFocal_eq, transc_tan]
theorem hreg_of {fovy h : ℝ} (hr : ¬ (Real.tan (fovy / 2) = 0 ∧ h = 0)) (h3 : 0 ≤ h) :
    ¬ ((¬ Rad.tan (fovy / (two : ℝ)) < 0 ∧ ¬ 0 < Rad.tan (fovy / (two : ℝ))) ∧ ¬ 0 < h) := by
  rw [C10.zero_iff, tan_two]
  exact fun hc => hr ⟨hc.1, le_antisymm (not_lt.mp hc.2) h3⟩
theorem hfin_of {fovy h : ℝ} (hr : ¬ (Real.tan (fovy / 2) = 0 ∧ 0 < h)) :
    ¬ ((¬ Rad.tan (fovy / (two : ℝ)) < 0 ∧ ¬ 0 < Rad.tan (fovy / (two : ℝ))) ∧ 0 < h) := by
  rw [C10.zero_iff, tan_two]; exact hr

/-- **`perspective` panics on the seven rejecting paths traced in `Cgm/Trace/C10.lean` / `C10Paths.lean`** (those with
`aspect ≥ 0` and `fovy ≠ π`; the five further rejecting paths -- `fovy = π` and the four with negative aspect -- are traced in
`Cgm/Trace/C10More.lean` and enter at `E2E/C10i.lean`: `perspective_*_consistent`, `perspective_rejects_iff`), hypotheses in the
property's words: fovy outside `(0, π)` (three
paths: negative, zero, above `π`), (approximately) zero aspect -- `aspect = 0` included --, non-positive near, non-positive
far, near (approximately) equal to far -- `near = far` included.  On each path the kernel's result is a panic, the recorded
comparisons are the listed ones with the listed outcomes, and the model returns no matrix.  (Paths with `aspect ≥ 0`; the
earlier preconditions hold on each path: "tuples violating exactly one precondition".) -/
theorem code_perspective_rejects (fovy a n f : ℝ) :
    (fovy < 0 → t_perspective_bad_fovy (envL [fovy, a, n, f]) = .panicG [.cmp fovy 0 .lt] ∧
      perspective fovy a n f = none) ∧
    (fovy = 0 → t_perspective_bad_fovy_zero (envL [fovy, a, n, f]) = .panicG [.cmp fovy 0 .eq] ∧
      perspective fovy a n f = none) ∧
    (Real.pi < fovy → t_perspective_bad_fovy_hi (envL [fovy, a, n, f]) =
        .panicG [.cmp fovy 0 .gt, .cmp fovy Real.pi .gt] ∧ perspective fovy a n f = none) ∧
    (0 < fovy → fovy < Real.pi → 0 ≤ a → a ≤ eps52R → t_perspective_bad_aspect (envL [fovy, a, n, f]) =
        .panicG [.cmp fovy 0 .gt, .cmp fovy Real.pi .lt, .lt a 0 false, .absDiff a 0 eps52R true, .lt a 0 false] ∧
      perspective fovy a n f = none) ∧
    (0 < fovy → fovy < Real.pi → eps52R < a → n ≤ 0 → t_perspective_bad_near (envL [fovy, a, n, f]) =
        .panicG [.cmp fovy 0 .gt, .cmp fovy Real.pi .lt, .lt a 0 false, .absDiff a 0 eps52R false, .lt 0 n false] ∧
      perspective fovy a n f = none) ∧
    (0 < fovy → fovy < Real.pi → eps52R < a → 0 < n → f ≤ 0 → t_perspective_bad_far (envL [fovy, a, n, f]) =
        .panicG [.cmp fovy 0 .gt, .cmp fovy Real.pi .lt, .lt a 0 false, .absDiff a 0 eps52R false, .lt 0 n true,
          .lt 0 f false] ∧
      perspective fovy a n f = none) ∧
    (0 < fovy → fovy < Real.pi → eps52R < a → 0 < n → 0 < f → |f - n| ≤ eps52R →
      t_perspective_bad_nf (envL [fovy, a, n, f]) =
        .panicG [.cmp fovy 0 .gt, .cmp fovy Real.pi .lt, .lt a 0 false, .absDiff a 0 eps52R false, .lt 0 n true,
          .lt 0 f true, .absDiff f n eps52R true] ∧
      perspective fovy a n f = none) := by
  have hpi := half_turn
  have he := eps52R_pos
  refine ⟨fun h => Trace.C10.t_perspective_bad_fovy fovy a n f h,
    fun h => Trace.C10Paths.t_perspective_bad_fovy_zero fovy a n f h, fun h => ?_, fun h1 h2 h3 h4 => ?_,
    fun h1 h2 h3 h4 => ?_, fun h1 h2 h3 h4 h5 => ?_, fun h1 h2 h3 h4 h5 h6 => ?_⟩
  · have := Trace.C10Paths.t_perspective_bad_fovy_hi fovy a n f (by linarith [Real.pi_pos]) (by rw [hpi]; exact h)
    rwa [hpi] at this
  · have := Trace.C10Paths.t_perspective_bad_aspect fovy a n f h1 (by rw [hpi]; exact h2) (not_lt.mpr h3)
      (absDiff_zero_true h3 h4)
    rwa [hpi, eps52_real] at this
  · have := Trace.C10.t_perspective_bad_near fovy a n f h1 (by rw [hpi]; exact h2) (not_lt.mpr (by linarith))
      (absDiff_zero_false h3) (not_lt.mpr h4)
    rwa [hpi, eps52_real] at this
  · have := Trace.C10Paths.t_perspective_bad_far fovy a n f h1 (by rw [hpi]; exact h2) (not_lt.mpr (by linarith))
      (absDiff_zero_false h3) h4 (not_lt.mpr h5)
    rwa [hpi, eps52_real] at this
  · have := Trace.C10Paths.t_perspective_bad_nf fovy a n f h1 (by rw [hpi]; exact h2) (not_lt.mpr (by linarith))
      (absDiff_zero_false h3) h4 h5 ((real_absDiffEqD f n).mpr h6)
    rwa [hpi, eps52_real] at this

/-- the exact violations of the property text: zero aspect, near = far -/
theorem code_perspective_rejects_exact (fovy n f : ℝ) (h1 : 0 < fovy) (h2 : fovy < Real.pi) :
    (t_perspective_bad_aspect (envL [fovy, 0, n, f]) =
        .panicG [.cmp fovy 0 .gt, .cmp fovy Real.pi .lt, .lt 0 0 false, .absDiff 0 0 eps52R true, .lt 0 0 false] ∧
      perspective fovy 0 n f = none) ∧
    (∀ a : ℝ, eps52R < a → 0 < n → t_perspective_bad_nf (envL [fovy, a, n, n]) =
        .panicG [.cmp fovy 0 .gt, .cmp fovy Real.pi .lt, .lt a 0 false, .absDiff a 0 eps52R false, .lt 0 n true,
          .lt 0 n true, .absDiff n n eps52R true] ∧
      perspective fovy a n n = none) :=
  ⟨(code_perspective_rejects fovy 0 n f).2.2.2.1 h1 h2 le_rfl eps52R_pos.le,
    fun a ha hn => (code_perspective_rejects fovy a n n).2.2.2.2.2.2 h1 h2 ha hn hn
      (by rw [sub_self, abs_zero]; exact eps52R_pos.le)⟩

/-- the seven rejecting paths of `code_perspective_rejects` exhaust the rejections of `perspective` for `aspect ≥ 0` and
`fovy ≠ π` (the two excluded cases have their own traced paths in `Cgm/Trace/C10More.lean`; all fourteen paths together are
exhaustive without hypothesis: `perspective_cover`, `Cgm/Trace/Cover4.lean`, and `perspective_exactly_one_all`, `E2E/C10i.lean`):
a rejected tuple satisfies the hypotheses of one of the seven implications of `code_perspective_rejects` -/
theorem perspective_reject_cover (fovy a n f : ℝ) (ha : 0 ≤ a) (hne : fovy ≠ Real.pi)
    (hr : perspective fovy a n f = none) :
    fovy < 0 ∨ fovy = 0 ∨ Real.pi < fovy ∨ (0 < fovy ∧ fovy < Real.pi ∧ (a ≤ eps52R ∨ (eps52R < a ∧ (n ≤ 0 ∨
      (0 < n ∧ (f ≤ 0 ∨ (0 < f ∧ |f - n| ≤ eps52R))))))) := by
  have h := (C10.real_perspective lits_radFull fovy a n f).1.mp hr
  rw [abs_of_nonneg ha] at h
  rcases lt_trichotomy fovy 0 with c | c | c
  · exact Or.inl c
  · exact Or.inr (Or.inl c)
  rcases lt_trichotomy fovy Real.pi with d | d | d
  · refine Or.inr (Or.inr (Or.inr ⟨c, d, ?_⟩))
    rcases le_or_gt a eps52R with e | e
    · exact Or.inl e
    refine Or.inr ⟨e, ?_⟩
    rcases le_or_gt n 0 with g | g
    · exact Or.inl g
    refine Or.inr ⟨g, ?_⟩
    rcases le_or_gt f 0 with k | k
    · exact Or.inl k
    refine Or.inr ⟨k, ?_⟩
    rcases h with h | h | h | h | h | h
    · linarith
    · linarith
    · linarith
    · linarith
    · linarith
    · exact h
  · exact absurd d hne
  · exact Or.inr (Or.inr (Or.inl d))

/-- **`planar` panics on the seven rejecting paths traced in `Cgm/Trace/C10Paths.lean`** (non-negative aspect, `fovy ≠ ±π`; the
rejecting paths with `fovy = ±π` or negative aspect are traced in `Cgm/Trace/C10More.lean` and enter at `E2E/C10i.lean`:
`planar_*_consistent`, `planar_rejects_iff`), in the property's words: `|fovy| ≥ π` (two paths: below `-π`, above
`π`), negative height, (approximately) zero aspect, near (approximately) equal to far, focal point between the planes (near <
far and far < near).  `C10.planarFocal fovy h = -(h/2) cot(fovy/2)` (`planarFocal_real`).  On the focal paths
`¬ (tan(fovy/2) = 0 ∧ 0 < h)` excludes the orthographic case, where the code's focal point is an infinity. -/
theorem code_planar_rejects (fovy a h n f : ℝ) :
    (fovy < -Real.pi → t_planar_bad_fovy_lo (envL [fovy, a, h, n, f]) = .panicG [.cmp fovy (-Real.pi) .lt] ∧
      planar fovy a h n f = none) ∧
    (Real.pi < fovy → t_planar_bad_fovy_hi (envL [fovy, a, h, n, f]) =
        .panicG [.cmp fovy (-Real.pi) .gt, .cmp fovy Real.pi .gt] ∧ planar fovy a h n f = none) ∧
    (-Real.pi < fovy → fovy < Real.pi → h < 0 → t_planar_bad_height (envL [fovy, a, h, n, f]) =
        .panicG [.cmp fovy (-Real.pi) .gt, .cmp fovy Real.pi .lt, .le 0 h false] ∧ planar fovy a h n f = none) ∧
    (-Real.pi < fovy → fovy < Real.pi → 0 ≤ h → 0 ≤ a → a ≤ eps52R → t_planar_bad_aspect (envL [fovy, a, h, n, f]) =
        .panicG [.cmp fovy (-Real.pi) .gt, .cmp fovy Real.pi .lt, .le 0 h true, .lt a 0 false,
          .absDiff a 0 eps52R true, .lt a 0 false] ∧ planar fovy a h n f = none) ∧
    (-Real.pi < fovy → fovy < Real.pi → 0 ≤ h → eps52R < a → |f - n| ≤ eps52R →
      t_planar_bad_nf (envL [fovy, a, h, n, f]) =
        .panicG [.cmp fovy (-Real.pi) .gt, .cmp fovy Real.pi .lt, .le 0 h true, .lt a 0 false,
          .absDiff a 0 eps52R false, .absDiff f n eps52R true] ∧ planar fovy a h n f = none) ∧
    (-Real.pi < fovy → fovy < Real.pi → 0 ≤ h → eps52R < a → eps52R < |f - n| → n < f →
      ¬ (Real.tan (fovy / 2) = 0 ∧ 0 < h) → n ≤ C10.planarFocal fovy h → C10.planarFocal fovy h ≤ f →
      t_planar_bad_focal (envL [fovy, a, h, n, f]) =
        .panicG [.cmp fovy (-Real.pi) .gt, .cmp fovy Real.pi .lt, .le 0 h true, .lt a 0 false,
          .absDiff a 0 eps52R false, .absDiff f n eps52R false, .lt n f true, .lt (C10.planarFocal fovy h) n false,
          .lt f n false, .lt f (C10.planarFocal fovy h) false] ∧ planar fovy a h n f = none) ∧
    (-Real.pi < fovy → fovy < Real.pi → 0 ≤ h → eps52R < a → eps52R < |f - n| → f < n →
      ¬ (Real.tan (fovy / 2) = 0 ∧ 0 < h) → f ≤ C10.planarFocal fovy h → C10.planarFocal fovy h ≤ n →
      t_planar_bad_focal_rev (envL [fovy, a, h, n, f]) =
        .panicG [.cmp fovy (-Real.pi) .gt, .cmp fovy Real.pi .lt, .le 0 h true, .lt a 0 false,
          .absDiff a 0 eps52R false, .absDiff f n eps52R false, .lt n f false, .lt (C10.planarFocal fovy h) f false,
          .lt f n true, .lt n (C10.planarFocal fovy h) false] ∧ planar fovy a h n f = none) := by
  have hpi := half_turn
  have he := eps52R_pos
  have hp := Real.pi_pos
  refine ⟨fun h1 => ?_, fun h1 => ?_, fun h1 h2 h3 => ?_, fun h1 h2 h3 h4 h5 => ?_, fun h1 h2 h3 h4 h5 => ?_,
    fun h1 h2 h3 h4 h5 h6 h7 h8 h9 => ?_, fun h1 h2 h3 h4 h5 h6 h7 h8 h9 => ?_⟩
  · have := Trace.C10Paths.t_planar_bad_fovy_lo fovy a h n f (by rw [hpi]; exact h1)
    rwa [hpi] at this
  · have := Trace.C10Paths.t_planar_bad_fovy_hi fovy a h n f (by rw [hpi]; linarith) (by rw [hpi]; exact h1)
    rwa [hpi] at this
  · have := Trace.C10Paths.t_planar_bad_height fovy a h n f (by rw [hpi]; exact h1) (by rw [hpi]; exact h2)
      (not_le.mpr h3)
    rwa [hpi] at this
  · have := Trace.C10Paths.t_planar_bad_aspect fovy a h n f (by rw [hpi]; exact h1) (by rw [hpi]; exact h2) h3
      (not_lt.mpr h4) (absDiff_zero_true h4 h5)
    rwa [hpi, eps52_real] at this
  · have := Trace.C10Paths.t_planar_bad_nf fovy a h n f (by rw [hpi]; exact h1) (by rw [hpi]; exact h2) h3
      (not_lt.mpr (by linarith)) (absDiff_zero_false h4) ((real_absDiffEqD f n).mpr h5)
    rwa [hpi, eps52_real] at this
  · have := Trace.C10Paths.t_planar_bad_focal fovy a h n f (by rw [hpi]; exact h1) (by rw [hpi]; exact h2) h3
      (not_lt.mpr (by linarith)) (absDiff_zero_false h4) ((absDiff_false f n).mpr h5) h6 (not_lt.mpr h8)
      (not_lt.mpr h9) (hfin_of h7)
    rwa [hpi, eps52_real] at this
  · have := Trace.C10Paths.t_planar_bad_focal_rev fovy a h n f (by rw [hpi]; exact h1) (by rw [hpi]; exact h2) h3
      (not_lt.mpr (by linarith)) (absDiff_zero_false h4) ((absDiff_false f n).mpr h5) h6 (not_lt.mpr h8)
      (not_lt.mpr h9) (hfin_of h7)
    rwa [hpi, eps52_real] at this

/-- the hypotheses of the focal-point path are satisfiable: fovy = π/2, height 2 (focal point at `-1`), aspect 1, near `-2`,
far `0` -/
example : -Real.pi < Real.pi / 2 ∧ Real.pi / 2 < Real.pi ∧ (0 : ℝ) ≤ 2 ∧ eps52R < (1 : ℝ) ∧ eps52R < |(0 : ℝ) - (-2)| ∧
    (-2 : ℝ) < 0 ∧ ¬ (Real.tan (Real.pi / 2 / 2) = 0 ∧ (0 : ℝ) < 2) ∧ (-2 : ℝ) ≤ C10.planarFocal (Real.pi / 2) 2 ∧
    C10.planarFocal (Real.pi / 2) 2 ≤ 0 := by
  have hp := Real.pi_pos
  have he : eps52R < 1 := by unfold eps52R; norm_num
  have e : Real.pi / 2 / 2 = Real.pi / 4 := by ring
  have hk : C10.planarFocal (Real.pi / 2) 2 = -1 := by
    rw [planarFocal_real, e, Real.tan_pi_div_four]; norm_num
  rw [hk, e, Real.tan_pi_div_four]
  refine ⟨by linarith, by linarith, by norm_num, he, ?_, by norm_num, by norm_num, by norm_num, by norm_num⟩
  have : |(0 : ℝ) - (-2)| = 2 := by norm_num
  rw [this]; linarith

/-! ### the other accepted paths of `planar` -/
/-- common part: on an accepted path the kernel's output is the model's matrix, which maps the window and the planes -/
theorem planar_path_maps (fovy a h n f : ℝ) (hp : planar fovy a h n f = some (planarMat fovy a h n f)) :
    ((planar fovy a h n f).map M4.toList).getD [] = (planarMat fovy a h n f).toList ∧
      PlanarMaps a h n f (planarMat fovy a h n f) := by
  refine ⟨by rw [hp]; rfl, (planar_accept_maps realApproxLaws fovy a h n f _ hp).2.2.2.2⟩

/-- **`planar` as computed, far < near** (`near < far` false), focal point in front of the far plane: window and depth mapping
(`PlanarMaps`: all points of the three planes; corners for a non-zero height).  `hreg` excludes `tan(fovy/2) = 0 ∧ h = 0`
(where the code's `inv_f` is `0/0`) -/
theorem code_planar_accept_rev (fovy a h n f : ℝ) (h1 : -Real.pi < fovy) (h2 : fovy < Real.pi) (h3 : 0 ≤ h)
    (h5 : eps52R < a) (h6 : eps52R < |f - n|) (h7 : f ≤ n) (h8 : C10.planarFocal fovy h < f)
    (hreg : ¬ (Real.tan (fovy / 2) = 0 ∧ h = 0)) :
    ∃ m : M4 ℝ, t_planar_ok_rev (envL [fovy, a, h, n, f]) =
        .okG m.toList [.cmp fovy (-Real.pi) .gt, .cmp fovy Real.pi .lt, .le 0 h true, .lt a 0 false,
          .absDiff a 0 eps52R false, .absDiff f n eps52R false, .lt n f false, .lt (C10.planarFocal fovy h) f true] ∧
      planar fovy a h n f = some m ∧ PlanarMaps a h n f m := by
  have hpi := half_turn
  have he := eps52R_pos
  have k1 : -((Lits.radFull : ℝ) / 2) < fovy := by rw [hpi]; exact h1
  have k2 : fovy < (Lits.radFull : ℝ) / 2 := by rw [hpi]; exact h2
  have k4 : ¬ a < 0 := not_lt.mpr (by linarith)
  have hk := Trace.C10Paths.t_planar_ok_rev fovy a h n f k1 k2 h3 k4 (absDiff_zero_false h5) ((absDiff_false f n).mpr h6)
    (not_lt.mpr h7) h8 (hreg_of hreg h3)
  have hp := Trace.C10Paths.planar_accept fovy a h n f k1 k2 h3 (by simp only [sabs, if_neg k4]; exact absDiff_zero_false h5)
    ((absDiff_false f n).mpr h6) (hreg_of hreg h3) (Or.inl (by simp only [smin, if_neg (not_lt.mpr h7)]; exact h8))
  obtain ⟨e, hm⟩ := planar_path_maps fovy a h n f hp
  rw [e, hpi, eps52_real] at hk
  exact ⟨_, hk, hp, hm⟩

/-- **`planar` as computed, near < far, both planes behind the focal point** (second disjunct of the assertion) -/
theorem code_planar_accept_behind (fovy a h n f : ℝ) (h1 : -Real.pi < fovy) (h2 : fovy < Real.pi) (h3 : 0 ≤ h)
    (h5 : eps52R < a) (h6 : eps52R < |f - n|) (h7 : n < f) (h8 : n ≤ C10.planarFocal fovy h)
    (h9 : f < C10.planarFocal fovy h) (hreg : ¬ (Real.tan (fovy / 2) = 0 ∧ h = 0)) :
    ∃ m : M4 ℝ, t_planar_ok_behind (envL [fovy, a, h, n, f]) =
        .okG m.toList [.cmp fovy (-Real.pi) .gt, .cmp fovy Real.pi .lt, .le 0 h true, .lt a 0 false,
          .absDiff a 0 eps52R false, .absDiff f n eps52R false, .lt n f true, .lt (C10.planarFocal fovy h) n false,
          .lt f n false, .lt f (C10.planarFocal fovy h) true] ∧
      planar fovy a h n f = some m ∧ PlanarMaps a h n f m := by
  have hpi := half_turn
  have he := eps52R_pos
  have k1 : -((Lits.radFull : ℝ) / 2) < fovy := by rw [hpi]; exact h1
  have k2 : fovy < (Lits.radFull : ℝ) / 2 := by rw [hpi]; exact h2
  have k4 : ¬ a < 0 := not_lt.mpr (by linarith)
  have hk := Trace.C10Paths.t_planar_ok_behind fovy a h n f k1 k2 h3 k4 (absDiff_zero_false h5)
    ((absDiff_false f n).mpr h6) h7 (not_lt.mpr h8) h9 (hreg_of hreg h3)
  have hp := Trace.C10Paths.planar_accept fovy a h n f k1 k2 h3 (by simp only [sabs, if_neg k4]; exact absDiff_zero_false h5)
    ((absDiff_false f n).mpr h6) (hreg_of hreg h3)
    (Or.inr (by simp only [smax, if_neg (not_lt.mpr h7.le)]; exact h9))
  obtain ⟨e, hm⟩ := planar_path_maps fovy a h n f hp
  rw [e, hpi, eps52_real] at hk
  exact ⟨_, hk, hp, hm⟩

/-- **`planar` as computed, far < near, both planes behind the focal point** -/
theorem code_planar_accept_behind_rev (fovy a h n f : ℝ) (h1 : -Real.pi < fovy) (h2 : fovy < Real.pi) (h3 : 0 ≤ h)
    (h5 : eps52R < a) (h6 : eps52R < |f - n|) (h7 : f < n) (h8 : f ≤ C10.planarFocal fovy h)
    (h9 : n < C10.planarFocal fovy h) (hreg : ¬ (Real.tan (fovy / 2) = 0 ∧ h = 0)) :
    ∃ m : M4 ℝ, t_planar_ok_behind_rev (envL [fovy, a, h, n, f]) =
        .okG m.toList [.cmp fovy (-Real.pi) .gt, .cmp fovy Real.pi .lt, .le 0 h true, .lt a 0 false,
          .absDiff a 0 eps52R false, .absDiff f n eps52R false, .lt n f false, .lt (C10.planarFocal fovy h) f false,
          .lt f n true, .lt n (C10.planarFocal fovy h) true] ∧
      planar fovy a h n f = some m ∧ PlanarMaps a h n f m := by
  have hpi := half_turn
  have he := eps52R_pos
  have k1 : -((Lits.radFull : ℝ) / 2) < fovy := by rw [hpi]; exact h1
  have k2 : fovy < (Lits.radFull : ℝ) / 2 := by rw [hpi]; exact h2
  have k4 : ¬ a < 0 := not_lt.mpr (by linarith)
  have hk := Trace.C10Paths.t_planar_ok_behind_rev fovy a h n f k1 k2 h3 k4 (absDiff_zero_false h5)
    ((absDiff_false f n).mpr h6) h7 (not_lt.mpr h8) h9 (hreg_of hreg h3)
  have hp := Trace.C10Paths.planar_accept fovy a h n f k1 k2 h3 (by simp only [sabs, if_neg k4]; exact absDiff_zero_false h5)
    ((absDiff_false f n).mpr h6) (hreg_of hreg h3) (Or.inr (by simp only [smax, if_pos h7]; exact h9))
  obtain ⟨e, hm⟩ := planar_path_maps fovy a h n f hp
  rw [e, hpi, eps52_real] at hk
  exact ⟨_, hk, hp, hm⟩

/-- **`planar` as computed, negative aspect** (only `|aspect|` is tested; the matrix uses the signed aspect: the window is
mirrored in x, `2x/(aspect h)`), near < far, focal point in front of the near plane -/
theorem code_planar_accept_neg_aspect (fovy a h n f : ℝ) (h1 : -Real.pi < fovy) (h2 : fovy < Real.pi) (h3 : 0 ≤ h)
    (h5 : a < -eps52R) (h6 : eps52R < |f - n|) (h7 : n < f) (h8 : C10.planarFocal fovy h < n)
    (hreg : ¬ (Real.tan (fovy / 2) = 0 ∧ h = 0)) :
    ∃ m : M4 ℝ, t_planar_ok_neg_aspect (envL [fovy, a, h, n, f]) =
        .okG m.toList [.cmp fovy (-Real.pi) .gt, .cmp fovy Real.pi .lt, .le 0 h true, .lt a 0 true,
          .absDiff (-a) 0 eps52R false, .absDiff f n eps52R false, .lt n f true, .lt (C10.planarFocal fovy h) n true] ∧
      planar fovy a h n f = some m ∧ PlanarMaps a h n f m := by
  have hpi := half_turn
  have he := eps52R_pos
  have k1 : -((Lits.radFull : ℝ) / 2) < fovy := by rw [hpi]; exact h1
  have k2 : fovy < (Lits.radFull : ℝ) / 2 := by rw [hpi]; exact h2
  have k4 : a < 0 := by linarith
  have k5 : absDiffEqD (-a) (0 : ℝ) = false := absDiff_zero_false (by linarith)
  have hk := Trace.C10Paths.t_planar_ok_neg_aspect fovy a h n f k1 k2 h3 k4 k5 ((absDiff_false f n).mpr h6) h7 h8
    (hreg_of hreg h3)
  have hp := Trace.C10Paths.planar_accept fovy a h n f k1 k2 h3 (by simp only [sabs, if_pos k4]; exact k5)
    ((absDiff_false f n).mpr h6) (hreg_of hreg h3) (Or.inl (by simp only [smin, if_pos h7]; exact h8))
  obtain ⟨e, hm⟩ := planar_path_maps fovy a h n f hp
  rw [e, hpi, eps52_real] at hk
  exact ⟨_, hk, hp, hm⟩

/-- the first accepted path (`t_planar_ok`, `Cgm/E2E/C10b.lean`) and the struct-form entry point `PlanarFov { .. }.into()`
restated with `PlanarMaps`: also for height 0 (depth only) and every point of the three planes -/
theorem code_planar_accept_front (fovy a h n f : ℝ) (h1 : -Real.pi < fovy) (h2 : fovy < Real.pi) (h3 : 0 ≤ h)
    (h5 : eps52R < a) (h6 : eps52R < |f - n|) (h7 : n < f) (h8 : C10.planarFocal fovy h < n)
    (hreg : ¬ (Real.tan (fovy / 2) = 0 ∧ h = 0)) :
    ∃ m : M4 ℝ, t_planar_ok (envL [fovy, a, h, n, f]) =
        .okG m.toList [.cmp fovy (-Real.pi) .gt, .cmp fovy Real.pi .lt, .le 0 h true, .lt a 0 false,
          .absDiff a 0 eps52R false, .absDiff f n eps52R false, .lt n f true, .lt (C10.planarFocal fovy h) n true] ∧
      t_planar_s_ok (envL [fovy, a, h, n, f]) = t_planar_ok (envL [fovy, a, h, n, f]) ∧
      planar fovy a h n f = some m ∧ PlanarMaps a h n f m := by
  have hpi := half_turn
  have he := eps52R_pos
  have k1 : -((Lits.radFull : ℝ) / 2) < fovy := by rw [hpi]; exact h1
  have k2 : fovy < (Lits.radFull : ℝ) / 2 := by rw [hpi]; exact h2
  have k4 : ¬ a < 0 := not_lt.mpr (by linarith)
  have hk := Trace.C10.t_planar_ok fovy a h n f k1 k2 h3 k4 (absDiff_zero_false h5)
    ((absDiff_false f n).mpr h6) h7 h8 (hreg_of hreg h3)
  have hs := Trace.C10Paths.t_planar_s_ok fovy a h n f k1 k2 h3 k4 (absDiff_zero_false h5)
    ((absDiff_false f n).mpr h6) h7 h8 (hreg_of hreg h3)
  have hp := Trace.C10Paths.planar_accept fovy a h n f k1 k2 h3 (by simp only [sabs, if_neg k4]; exact absDiff_zero_false h5)
    ((absDiff_false f n).mpr h6) (hreg_of hreg h3) (Or.inl (by simp only [smin, if_pos h7]; exact h8))
  obtain ⟨e, hm⟩ := planar_path_maps fovy a h n f hp
  refine ⟨_, ?_, by rw [hs, hk], hp, hm⟩
  rw [e, hpi, eps52_real] at hk
  exact hk

/-- the hypotheses of the "behind" path are satisfiable: fovy = -π/2, height 2 (focal point at `+1`: in front of the
`z = 0` plane), aspect 1, near `-1`, far `0` -- and those of the "rev" path: fovy = π/2, height 2 (focal point `-1`), near 2,
far 1 -/
example : (-Real.pi < -(Real.pi / 2) ∧ -(Real.pi / 2) < Real.pi ∧ (0 : ℝ) ≤ 2 ∧ eps52R < (1 : ℝ) ∧
      eps52R < |(0 : ℝ) - (-1)| ∧ (-1 : ℝ) < 0 ∧ (-1 : ℝ) ≤ C10.planarFocal (-(Real.pi / 2)) 2 ∧
      (0 : ℝ) < C10.planarFocal (-(Real.pi / 2)) 2 ∧ ¬ (Real.tan (-(Real.pi / 2) / 2) = 0 ∧ (2 : ℝ) = 0)) ∧
    (eps52R < |(1 : ℝ) - 2| ∧ (1 : ℝ) ≤ 2 ∧ C10.planarFocal (Real.pi / 2) 2 < 1) := by
  have hp := Real.pi_pos
  have he : eps52R < 1 := by unfold eps52R; norm_num
  have e : Real.pi / 2 / 2 = Real.pi / 4 := by ring
  have e' : -(Real.pi / 2) / 2 = -(Real.pi / 4) := by ring
  have hk : C10.planarFocal (Real.pi / 2) 2 = -1 := by
    rw [planarFocal_real, e, Real.tan_pi_div_four]; norm_num
  have hk' : C10.planarFocal (-(Real.pi / 2)) 2 = 1 := by
    rw [planarFocal_real, e', Real.tan_neg, Real.tan_pi_div_four]; norm_num
  have a1 : |(0 : ℝ) - (-1)| = 1 := by norm_num
  have a2 : |(1 : ℝ) - 2| = 1 := by norm_num
  rw [hk, hk', a1, a2]
  refine ⟨⟨by linarith, by linarith, by norm_num, he, he, by norm_num, by norm_num, by norm_num, fun hc => ?_⟩,
    he, by norm_num, by norm_num⟩
  exact absurd hc.2 (by norm_num)

/-! ### `perspective`: negative aspect, degrees, struct form -/
/-- **`perspective` with a negative aspect** is accepted (only `|aspect|` is tested): the traced matrix is still the `frustum`
matrix of the window of half-height `y = near tan(fovy/2)` and half-width `aspect y` -- a reversed window (`left > right`), which
`frustum` itself rejects -/
theorem code_perspective_neg_aspect (fovy a n f : ℝ) (h1 : 0 < fovy) (h2 : fovy < Real.pi) (h3 : a < -eps52R)
    (h5 : 0 < n) (h6 : 0 < f) (h7 : eps52R < |f - n|) :
    ∃ (m : M4 ℝ) (y : ℝ), t_perspective_ok_neg_aspect (envL [fovy, a, n, f]) =
        .okG m.toList [.cmp fovy 0 .gt, .cmp fovy Real.pi .lt, .lt a 0 true, .absDiff (-a) 0 eps52R false,
          .lt 0 n true, .lt 0 f true, .absDiff f n eps52R false] ∧
      perspective fovy a n f = some m ∧ y = n * Real.tan (fovy / 2) ∧ 0 < y ∧
      m = frustumMat (-(y * a)) (y * a) (-y) y n f ∧ frustum (-(y * a)) (y * a) (-y) y n f = none ∧
      (∀ x' y' z' : ℝ, (m * P3.toHomogeneous (⟨x', y', z'⟩ : P3 ℝ)).w = -z') := by
  have hpi := half_turn
  have he := eps52R_pos
  have k2 : fovy < (Lits.radFull : ℝ) / 2 := by rw [hpi]; exact h2
  have k3 : a < 0 := by linarith
  have k4 : absDiffEqD (-a) (0 : ℝ) = false := absDiff_zero_false (by linarith)
  have k7 := (absDiff_false f n).mpr h7
  have hk := Trace.C10Paths.t_perspective_ok_neg_aspect fovy a n f h1 k2 k3 k4 h5 h6 k7
  have hp : perspective fovy a n f = some (perspectiveMat fovy a n f) := by
    apply C10.perspective_some
    refine ⟨h1, by rw [C10.turnDiv_two]; exact k2, ?_, h5, h6, k7⟩
    simp only [sabs, if_pos k3]; exact k4
  obtain ⟨e1, -, htan⟩ := C10.perspective_accept_eq_frustum realApproxLaws lits_radFull fovy a n f _ hp
  have hr := C10.perspective_neg_aspect_frustum_rejects realApproxLaws lits_radFull fovy a n f _ hp k3
  rw [hp] at hk
  rw [hpi, eps52_real] at hk
  refine ⟨_, n * Real.tan (fovy / 2), hk, hp, rfl, mul_pos h5 htan, e1, hr, fun x' y' z' => ?_⟩
  rw [e1]; exact C10.frustum_w _ _ _ _ _ _ x' y' z'

/-- **`perspective(Deg(fovy), ..)`**: the angle is converted (`fovy π/180`) and then treated as the radian call: for
`0 < fovy < 180` degrees the traced matrix is the `frustum` matrix of the symmetric window of half-height
`near tan(fovy π/360)`; a negative angle panics -/
theorem code_perspective_deg (fovy a n f : ℝ) :
    (0 < fovy → fovy < 180 → eps52R < a → 0 < n → 0 < f → eps52R < |f - n| →
      ∃ (m : M4 ℝ) (y : ℝ) (g : List (G ℝ)), t_perspective_deg_ok (envL [fovy, a, n, f]) = .okG m.toList g ∧
        y = n * Real.tan (fovy * (Real.pi / 180) / 2) ∧ 0 < y ∧ m = frustumMat (-(y * a)) (y * a) (-y) y n f) ∧
    (fovy < 0 → t_perspective_deg_bad_fovy (envL [fovy, a, n, f]) = .panicG [.cmp (fovy * (Real.pi / 180)) 0 .lt] ∧
      perspective (fovy * (Real.pi / 180)) a n f = none) := by
  have hpi := half_turn
  have hp0 := Real.pi_pos
  have hd : degToRad fovy = fovy * (Real.pi / 180) := by simp [degToRad]
  refine ⟨fun h1 h2 h3 h5 h6 h7 => ?_, fun h1 => ?_⟩
  · have k1 : 0 < degToRad fovy := by rw [hd]; positivity
    have k2 : degToRad fovy < (Lits.radFull : ℝ) / 2 := by
      rw [hd, hpi]
      have : fovy * (Real.pi / 180) < 180 * (Real.pi / 180) := mul_lt_mul_of_pos_right h2 (by positivity)
      linarith
    have k3 : ¬ a < 0 := not_lt.mpr (by linarith [eps52R_pos])
    have hk := Trace.C10Paths.t_perspective_deg_ok fovy a n f k1 k2 k3 (absDiff_zero_false h3) h5 h6
      ((absDiff_false f n).mpr h7)
    have hp := perspective_of_path (degToRad fovy) a n f k1 k2 k3 (absDiff_zero_false h3) h5 h6
      ((absDiff_false f n).mpr h7)
    obtain ⟨e1, -, htan⟩ := C10.perspective_accept_eq_frustum realApproxLaws lits_radFull _ a n f _ hp
    rw [hp] at hk
    rw [hd] at e1 htan
    exact ⟨_, n * Real.tan (fovy * (Real.pi / 180) / 2), _, hk, rfl, mul_pos h5 htan, e1⟩
  · have k1 : degToRad fovy < 0 := by rw [hd]; exact mul_neg_of_neg_of_pos h1 (by positivity)
    have := Trace.C10Paths.t_perspective_deg_bad_fovy fovy a n f k1
    rwa [hd] at this

/-- **struct-form entry points** (`Ortho { .. }.into()`, `Perspective { .. }.into()`, `PerspectiveFov { .. }.into()`): on the
same path they return what the free functions return, so every statement about `t_ortho`, `t_frustum_ok`, `t_perspective_ok`
(`Cgm/E2E/C10.lean`, `C10b.lean`) holds for them -/
theorem code_struct_forms :
    (∀ l r b t n f : ℝ, t_ortho_s (envL [l, r, b, t, n, f]) = t_ortho (envL [l, r, b, t, n, f])) ∧
    (∀ l r b t n f : ℝ, l ≤ r → b ≤ t → n ≤ f →
      t_frustum_s_ok (envL [l, r, b, t, n, f]) = t_frustum_ok (envL [l, r, b, t, n, f])) ∧
    (∀ fovy a n f : ℝ, 0 < fovy → fovy < Real.pi → eps52R < a → 0 < n → 0 < f → eps52R < |f - n| →
      t_perspective_s_ok (envL [fovy, a, n, f]) = t_perspective_ok (envL [fovy, a, n, f])) := by
  refine ⟨fun l r b t n f => ?_, fun l r b t n f h1 h2 h3 => ?_, fun fovy a n f h1 h2 h3 h5 h6 h7 => ?_⟩
  · rw [Trace.C10Paths.t_ortho_s, Trace.C10.t_ortho]
  · rw [Trace.C10Paths.t_frustum_s_ok l r b t n f h1 h2 h3, Trace.C10.t_frustum_ok l r b t n f h1 h2 h3]
  · obtain ⟨k1, k2, k3, k4, k5, k6, k7⟩ := (perspective_path_iff fovy a n f).2 ⟨h1, h2, h3, h5, h6, h7⟩
    rw [Trace.C10Paths.t_perspective_s_ok fovy a n f k1 k2 k3 k4 k5 k6 k7,
      Trace.C10.t_perspective_ok fovy a n f k1 k2 k3 k4 k5 k6 k7]
end concrete

/-! ## `frustum` as computed: every point of the near and far planes -/
section anyField
variable {K : Type} [Field K] [LinearOrder K] [IsStrictOrderedRing K] [Approx K] [Transc K] [FRem K] [Lits K]

/-- **general-point form of the `frustum` clause**: on the accepted path the traced matrix sends *every* point `(x, y, -n)` of
the near plane to `((2x-(r+l))/(r-l), (2y-(t+b))/(t-b), -1)` -- an affine bijection of the plane onto the face `z = -1` taking
the rectangle `[l,r] x [b,t]` onto `[-1,1]^2` -- and the similar point `(x f/n, y f/n, -f)` of the far plane to the same
`(x', y')` on the face `z = +1` -/
theorem code_frustum_general (l r b t n f : K) (h1 : l ≤ r) (h2 : b ≤ t) (h3 : n ≤ f)
    (hx : r - l ≠ 0) (hy : t - b ≠ 0) (hz : f - n ≠ 0) (hn : n ≠ 0) (hf : f ≠ 0) :
    ∃ m : M4 K, t_frustum_ok (envL [l, r, b, t, n, f]) = .okG m.toList [.le l r true, .le b t true, .le n f true] ∧
      (∀ x y : K, m.transformPoint ⟨x, y, -n⟩ = ⟨(2 * x - (r + l)) / (r - l), (2 * y - (t + b)) / (t - b), -1⟩) ∧
      (∀ x y : K, m.transformPoint ⟨x * (f / n), y * (f / n), -f⟩ =
        ⟨(2 * x - (r + l)) / (r - l), (2 * y - (t + b)) / (t - b), 1⟩) ∧
      (∀ x : K, l ≤ x → x ≤ r → -1 ≤ (2 * x - (r + l)) / (r - l) ∧ (2 * x - (r + l)) / (r - l) ≤ 1) := by
  have hs := C10.frustum_some l r b t n f ⟨h1, h2, h3⟩
  have hk := Trace.C10.t_frustum_ok l r b t n f h1 h2 h3
  rw [hs] at hk
  refine ⟨frustumMat l r b t n f, hk, fun x y => frustum_near_general l r b t n f x y hx hy hz hn,
    fun x y => frustum_far_general l r b t n f x y hx hy hz hn hf, fun x hl hr => ?_⟩
  have hpos : 0 < r - l := lt_of_le_of_ne (sub_nonneg.mpr h1) (Ne.symm hx)
  rw [le_div_iff₀ hpos, div_le_iff₀ hpos]
  constructor <;> linarith
end anyField
end Cg.E2E.C10
