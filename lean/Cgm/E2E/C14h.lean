import Cgm.E2E.C14b
import Cgm.Trace.C03Auto
/-!
# C14 (completion), end to end: the end points of `nlerp` on both paths of its comparison, and `lerp` for `Vector1`, `Vector2`,
`Vector4` (the `Vector1/2` kernels were traced with C03: `Cg.Gen.C03`)
-/
set_option linter.unusedSectionVars false
namespace Cg.E2E.C14
open Cg Cg.Gen.C14
variable [FRem ℝ] [Lits ℝ]

/-- **`nlerp` end points** as computed, for unit quaternions: at `t = 0` the result is `a` on both paths; at `t = 1` it is `b`
on the path `a·b ≥ 0` and `-b` (the same rotation, on the shorter arc) on the path `a·b < 0` -/
theorem code_nlerp_endpoints (a b : Quat ℝ) (ha : a.magnitude2 = 1) (hb : b.magnitude2 = 1) :
    (¬ Quat.dot a b < 0 →
      t_q_nlerp_pos (envL (a.toList ++ b.toList ++ [0])) = .okG a.toList [.lt (Quat.dot a b) 0 false] ∧
      t_q_nlerp_pos (envL (a.toList ++ b.toList ++ [1])) = .okG b.toList [.lt (Quat.dot a b) 0 false]) ∧
    (Quat.dot a b < 0 →
      t_q_nlerp_neg (envL (a.toList ++ b.toList ++ [0])) = .okG a.toList [.lt (Quat.dot a b) 0 true] ∧
      t_q_nlerp_neg (envL (a.toList ++ b.toList ++ [1])) = .okG (-b).toList [.lt (Quat.dot a b) 0 true]) := by
  obtain ⟨-, -, e0, e1⟩ := C14.nlerp_spec a b ha hb 0 le_rfl zero_le_one
  refine ⟨fun h => ⟨?_, ?_⟩, fun h => ⟨?_, ?_⟩⟩
  · rw [Trace.C14.t_q_nlerp_pos a b 0 h, e0]
  · rw [Trace.C14.t_q_nlerp_pos a b 1 h, e1]; simp only [C14.flip, if_neg h]
  · rw [Trace.C14.t_q_nlerp_neg a b 0 h, e0]
  · rw [Trace.C14.t_q_nlerp_neg a b 1 h, e1]; simp only [C14.flip, if_pos h]

/-- the hypotheses are satisfiable on both paths: `a = 1`, `b = 1` (dot 1) and `b = -1` (dot -1) -/
example : (Quat.one : Quat ℝ).magnitude2 = 1 ∧ (-(Quat.one : Quat ℝ)).magnitude2 = 1 ∧
    ¬ Quat.dot (Quat.one : Quat ℝ) Quat.one < 0 ∧ Quat.dot (Quat.one : Quat ℝ) (-Quat.one) < 0 := by
  refine ⟨?_, ?_, ?_, ?_⟩ <;> simp [Quat.one, Quat.fromSv, Quat.magnitude2, Quat.dot, V3.dot]

/-- **`lerp` for `Vector1`, `Vector2`, `Vector4`** as computed: `a + (b - a) t`, hence `a` at 0 and `b` at 1 (no comparison) -/
theorem code_lerp_dims (a1 b1 : V1 ℝ) (a2 b2 : V2 ℝ) (a4 b4 : V4 ℝ) (t : ℝ) :
    Cg.Gen.C03.t_v1_lerp (envL (a1.toList ++ b1.toList ++ [t])) = .okS (a1 + (b1 - a1) * t).toList ∧
    Cg.Gen.C03.t_v1_lerp (envL (a1.toList ++ b1.toList ++ [0])) = .okS a1.toList ∧
    Cg.Gen.C03.t_v1_lerp (envL (a1.toList ++ b1.toList ++ [1])) = .okS b1.toList ∧
    Cg.Gen.C03.t_v2_lerp (envL (a2.toList ++ b2.toList ++ [t])) = .okS (a2 + (b2 - a2) * t).toList ∧
    Cg.Gen.C03.t_v2_lerp (envL (a2.toList ++ b2.toList ++ [0])) = .okS a2.toList ∧
    Cg.Gen.C03.t_v2_lerp (envL (a2.toList ++ b2.toList ++ [1])) = .okS b2.toList ∧
    t_v4_lerp (envL (a4.toList ++ b4.toList ++ [t])) = .okS (a4 + (b4 - a4) * t).toList ∧
    t_v4_lerp (envL (a4.toList ++ b4.toList ++ [0])) = .okS a4.toList ∧
    t_v4_lerp (envL (a4.toList ++ b4.toList ++ [1])) = .okS b4.toList ∧
    t_v3_lerp (envL (a4.truncate.toList ++ b4.truncate.toList ++ [0])) = .okS a4.truncate.toList ∧
    t_v3_lerp (envL (a4.truncate.toList ++ b4.truncate.toList ++ [1])) = .okS b4.truncate.toList := by
  refine ⟨?_, ?_, ?_, ?_, ?_, ?_, ?_, ?_, ?_, ?_, ?_⟩
  · rw [Trace.C03Auto.t_v1_lerp, (C14.V1.lerp_spec a1 b1 t).1]
  · rw [Trace.C03Auto.t_v1_lerp, (C14.V1.lerp_spec a1 b1 t).2.1]
  · rw [Trace.C03Auto.t_v1_lerp, (C14.V1.lerp_spec a1 b1 t).2.2]
  · rw [Trace.C03Auto.t_v2_lerp, (C14.V2.lerp_spec a2 b2 t).1]
  · rw [Trace.C03Auto.t_v2_lerp, (C14.V2.lerp_spec a2 b2 t).2.1]
  · rw [Trace.C03Auto.t_v2_lerp, (C14.V2.lerp_spec a2 b2 t).2.2]
  · rw [Trace.C14.t_v4_lerp, (C14.V4.lerp_spec a4 b4 t).1]
  · rw [Trace.C14.t_v4_lerp, (C14.V4.lerp_spec a4 b4 t).2.1]
  · rw [Trace.C14.t_v4_lerp, (C14.V4.lerp_spec a4 b4 t).2.2]
  · rw [Trace.C14.t_v3_lerp, (C14.V3.lerp_spec _ _ t).2.1]
  · rw [Trace.C14.t_v3_lerp, (C14.V3.lerp_spec _ _ t).2.2]
end Cg.E2E.C14
