import Cgm.Trace.C08Rest
import Cgm.Props.C08c
import Cgm.Props.C05
import Cgm.Lemmas.GuardSem
/-!
# C08, end to end, remaining kernels: the `Decomposed` round trips (`*.id`) and `Transform<Point2>::inverse_transform_vector`
of `Matrix3`

* `dq.id`, `db3.id`, `db2.id` as computed return the flat encoding of the value the harness builds from the flat input: for
  `Decomposed<Vector3, Quaternion>` the output is the input (and pins the value: the encoding is injective); for the `Basis3` /
  `Basis2` forms the rotation slot holds the matrix of the quaternion / of the angle (`Basis3::from(q)`, `Rotation2::from_angle`);
* `Matrix3::inverse_transform_vector` (2-D): the `some` path is taken iff `det ≠ 0` and returns `inverse_transform().transform_vector(v)`,
  which undoes `transform_vector` for an affine matrix; the `none` path is taken iff `det = 0`; exactly one is taken.
-/
set_option linter.unusedSectionVars false
set_option linter.unusedVariables false
set_option linter.unusedSimpArgs false
namespace Cg.E2E.C08
open Cg Cg.Gen.C08 Cg.Trace.C08Rest

section field
variable {K : Type} [Field K] [DecidableEq K] [Transc K] [FRem K] [Lits K]

/-- the flat encoding of a `Decomposed<Vector3, Quaternion>` is injective -/
theorem flq_injective : Function.Injective (flq : DQ K → List K) := by
  intro a b h
  obtain ⟨sa, ⟨⟨ax, ay, az⟩, aw⟩, ⟨ux, uy, uz⟩⟩ := a
  obtain ⟨sb, ⟨⟨bx, b_y, bz⟩, bw⟩, ⟨vx, vy, vz⟩⟩ := b
  simp only [flq, Quat.toList, V3.toList, List.cons_append, List.nil_append, List.cons.injEq, and_true] at h
  obtain ⟨rfl, rfl, rfl, rfl, rfl, rfl, rfl, rfl⟩ := h
  rfl

/-- **`dq.id` as computed**: the round trip through the real `Decomposed<Vector3, Quaternion>` returns the flat input unchanged
(scale, then the quaternion `s, x, y, z`, then the displacement), and the output pins the value -/
theorem code_dq_id (d : DQ K) :
    t_dq_id (envL (flq d)) = .okS (flq d) ∧
    t_dq_id (envL (flq d)) = .okS ([d.scale, d.rot.s, d.rot.v.x, d.rot.v.y, d.rot.v.z, d.disp.x, d.disp.y, d.disp.z]) ∧
    (∀ d' : DQ K, t_dq_id (envL (flq d)) = .okS (flq d') → d' = d) := by
  refine ⟨Trace.C08Rest.t_dq_id d, by rw [Trace.C08Rest.t_dq_id d]; rfl, fun d' h => ?_⟩
  rw [Trace.C08Rest.t_dq_id d] at h
  exact (flq_injective (Tr.okS_inj.1 h)).symm

/-- **`db3.id` / `db2.id` as computed**: scale and displacement are passed through, the rotation slot holds the matrix of the
quaternion (`Basis3::from(q)`; it rotates like `q`) / `Matrix2::from_angle(a)` -/
theorem code_db_id (s a : K) (q : Quat K) (u : V3 K) (w : V2 K) :
    t_db3_id (envL (s :: q.toList ++ u.toList)) = .okS (s :: q.toM3.toList ++ u.toList) ∧
    (∀ v : V3 K, (mk3 s q u).rot.rotateVector v = q * v) ∧
    t_db2_id (envL ([s, a] ++ w.toList)) = .okS (s :: (M2.fromAngle a).toList ++ w.toList) := by
  refine ⟨Trace.C08Rest.t_db3_id s q u, fun v => (Cg.C05.basis3_rotate q v).1, Trace.C08Rest.t_db2_id s a w⟩

/-- **`Matrix3::inverse_transform_vector` (2-D), `some` path** (`det ≠ 0`): the output is `inverse_transform().transform_vector(v)`
for the two-sided inverse `i`; for an affine matrix it undoes `transform_vector` -/
theorem code_m3_inverse_transform_vector2_some (a : M3 K) (u : V2 K) (h : a.det ≠ 0) :
    ∃ (i : M3 K) (w : V2 K), t_m3_inverse_transform_vector2_some (envL (a.toList ++ u.toList)) = .okG w.toList [.eq a.det 0 false] ∧
      a.inverseTransformVector2 u = some w ∧ a.invert = some i ∧ w = i.transformVector2 u ∧
      a * i = M3.one ∧ i * a = M3.one ∧
      (C08.M3.Affine2 a → ∀ v : V2 K, a.inverseTransformVector2 (a.transformVector2 v) = some v) := by
  obtain ⟨h1, h2⟩ := Trace.C08Rest.t_m3_inverse_transform_vector2_some a u h
  obtain ⟨w, hw⟩ := Option.isSome_iff_exists.mp h2
  obtain ⟨i, hi⟩ := Cg.C02.M3.invert_some_of_det_ne a h
  have e := (Cg.C08.inverseTransformVector_eq a M4.one u V3.zero).2.2.1
  rw [hw, M3.inverseTransform, hi, Option.map_some] at e
  obtain ⟨l, r⟩ := Cg.C02.M3.invert_spec a i hi
  exact ⟨i, w, by rw [h1, hw]; rfl, hw, hi, Option.some.inj e, l, r,
    fun ha v => Cg.C08.M3.inverseTransformVector2_undoes a h ha v⟩
end field

section guards
variable {K : Type} [Field K] [DecidableEq K] [LinearOrder K] [Approx K] [Transc K] [FRem K] [Lits K]
theorem g_m3_inverse_transform_vector2 (a : M3 K) (u : V2 K) :
    (t_m3_inverse_transform_vector2_some (envL (a.toList ++ u.toList))).guards = [.eq a.det 0 false] ∧
    (t_m3_inverse_transform_vector2_none (envL (a.toList ++ u.toList))).guards = [.eq a.det 0 true] ∧
    (t_m3_inverse_transform_vector2_none (envL (a.toList ++ u.toList))).res = .none := by
  refine ⟨?_, ?_, ?_⟩ <;> tr_auto

/-- **which path**: `None` exactly when the determinant is exactly zero; exactly one path is taken; the `none` path returns `None`
as the model does -/
theorem code_m3_inverse_transform_vector2_paths (a : M3 K) (u : V2 K) :
    ((t_m3_inverse_transform_vector2_none (envL (a.toList ++ u.toList))).Consistent ↔ a.det = 0) ∧
    ((t_m3_inverse_transform_vector2_some (envL (a.toList ++ u.toList))).Consistent ↔ a.det ≠ 0) ∧
    Tr.ExactlyOne [t_m3_inverse_transform_vector2_some (envL (a.toList ++ u.toList)),
      t_m3_inverse_transform_vector2_none (envL (a.toList ++ u.toList))] ∧
    ((t_m3_inverse_transform_vector2_none (envL (a.toList ++ u.toList))).Consistent → a.inverseTransformVector2 u = none) := by
  obtain ⟨g1, g2, -⟩ := g_m3_inverse_transform_vector2 a u
  have hn : (t_m3_inverse_transform_vector2_none (envL (a.toList ++ u.toList))).Consistent ↔ a.det = 0 := by
    rw [Tr.Consistent, g2]; simp [-M3.det]
  have hs : (t_m3_inverse_transform_vector2_some (envL (a.toList ++ u.toList))).Consistent ↔ a.det ≠ 0 := by
    rw [Tr.Consistent, g1]; simp [-M3.det]
  refine ⟨hn, hs, ?_, fun hc => (Cg.C08.inverseTransformVector_eq a M4.one u V3.zero).2.2.2.2.2.2 (hn.1 hc)⟩
  unfold Tr.ExactlyOne
  simp only [List.pairwise_cons, List.mem_cons, List.not_mem_nil, or_false, forall_eq_or_imp, forall_eq, exists_eq_or_imp,
    exists_eq_left, List.Pairwise.nil, and_true, IsEmpty.forall_iff, implies_true, false_imp_iff, exists_false, hn, hs]
  generalize a.det = d
  by_cases h : d = 0 <;> simp [h]
/-- both conditions occur -/
example : (⟨⟨1, 2, 3⟩, ⟨2, 4, 6⟩, ⟨1, 1, 1⟩⟩ : M3 ℚ).det = 0 ∧ (M3.one : M3 ℚ).det ≠ 0 := by
  constructor <;> (simp [M3.det, M3.one, M3.fromValue]; try norm_num)
end guards
end Cg.E2E.C08
