import Cgm.Lemmas.GuardSem
import Cgm.E2E.C08b
import Cgm.Trace.C08Paths
/-!
# C08, end to end, with the guard semantics: `Decomposed::inverse_transform` returns `None` EXACTLY WHEN
`ulps_eq!(scale, 0)` holds

The traced paths of `inverse_transform` record `ulps_eq!(scale, 0)` with the tolerances the harness's scalar uses
(`epsilon = 2^-52`, `max_ulps = 4`) and, through `Basis3::invert = Matrix3::invert().unwrap()`, `det == 0`.
`Tr.Consistent` (`Cgm/Lemmas/GuardSem.lean`) gives them their meaning; with the real `approx` relations
(`Cgm/Lemmas/RealApprox.lean`) the `None` path is the one the code takes iff `|scale| ≤ 2^-52`.
-/
set_option linter.unusedSectionVars false
namespace Cg.E2E.C08
open Cg Cg.Gen.C08 Cg.Trace.C08 Cg.Trace.C08Paths

section generic
variable {K : Type} [Field K] [LinearOrder K] [Approx K] [Transc K] [FRem K] [Lits K]

/-- the approx test the code makes on the scale, with the tolerance arguments as recorded -/
def scaleTest (s : K) : Bool := Approx.ulpsEq s 0 (eps52 : K) 4

/-! ## the comparisons each path records, for every input -/
theorem g_dq_inverse_transform_some (d : DQ K) :
    (t_dq_inverse_transform_some (envL (flq d))).guards = [.ulps d.scale 0 eps52 4 false] := by
  simp [flq, eps52]; tr_auto
theorem g_dq_inverse_transform_none (d : DQ K) :
    (t_dq_inverse_transform_none (envL (flq d))).guards = [.ulps d.scale 0 eps52 4 true] := by
  rw [Trace.C08.t_dq_inverse_transform_none]; rfl
theorem g_dq_inverse_transform_vector (d : DQ K) (u : V3 K) :
    (t_dq_inverse_transform_vector (envL (flq d ++ u.toList))).guards = [.ulps d.scale 0 eps52 4 false] := by
  simp [flq, eps52]; tr_auto
theorem g_db3_inverse_transform_some (s : K) (q : Quat K) (u : V3 K) :
    (t_db3_inverse_transform_some (envL (in3 s q u))).guards = [.ulps s 0 eps52 4 false, .eq q.toM3.det 0 false] := by
  simp [in3, eps52, M3.det, Quat.toM3]; tr_auto
theorem g_db3_inverse_transform_none (s : K) (q : Quat K) (u : V3 K) :
    (t_db3_inverse_transform_none (envL (in3 s q u))).guards = [.ulps s 0 eps52 4 true] := by
  simp [in3, eps52]; tr_auto
theorem g_db3_inverse_transform_panic (s : K) (q : Quat K) (u : V3 K) :
    (t_db3_inverse_transform_panic (envL (in3 s q u))).guards = [.ulps s 0 eps52 4 false, .eq q.toM3.det 0 true] := by
  simp [in3, eps52, M3.det, Quat.toM3]; tr_auto
theorem g_db2_inverse_transform_some (s a : K) (u : V2 K) :
    (t_db2_inverse_transform_some (envL (in2 s a u))).guards =
      [.ulps s 0 eps52 4 false, .eq (M2.fromAngle a).det 0 false] := by
  simp [in2, eps52, M2.det, M2.fromAngle]; tr_auto
theorem g_db2_inverse_transform_none (s a : K) (u : V2 K) :
    (t_db2_inverse_transform_none (envL (in2 s a u))).guards = [.ulps s 0 eps52 4 true] := by
  simp [in2, eps52]; tr_auto

/-! ## consistency of a path ↔ its path condition -/
theorem dq_inverse_some_consistent (d : DQ K) :
    (t_dq_inverse_transform_some (envL (flq d))).Consistent ↔ scaleTest d.scale = false := by
  rw [Tr.Consistent, g_dq_inverse_transform_some]; simp [scaleTest]
theorem dq_inverse_none_consistent (d : DQ K) :
    (t_dq_inverse_transform_none (envL (flq d))).Consistent ↔ scaleTest d.scale = true := by
  rw [Tr.Consistent, g_dq_inverse_transform_none]; simp [scaleTest]
theorem dq_inverse_vector_consistent (d : DQ K) (u : V3 K) :
    (t_dq_inverse_transform_vector (envL (flq d ++ u.toList))).Consistent ↔ scaleTest d.scale = false := by
  rw [Tr.Consistent, g_dq_inverse_transform_vector]; simp [scaleTest]
/-- exactly one of the two paths of `Decomposed<_, Quaternion>::inverse_transform` is the one the code takes -/
theorem dq_inverse_exactly_one (d : DQ K) :
    (t_dq_inverse_transform_none (envL (flq d))).Consistent ↔ ¬ (t_dq_inverse_transform_some (envL (flq d))).Consistent := by
  rw [dq_inverse_some_consistent, dq_inverse_none_consistent]; simp

theorem db3_inverse_some_consistent (s : K) (q : Quat K) (u : V3 K) :
    (t_db3_inverse_transform_some (envL (in3 s q u))).Consistent ↔ scaleTest s = false ∧ q.toM3.det ≠ 0 := by
  rw [Tr.Consistent, g_db3_inverse_transform_some]; simp [scaleTest]
theorem db3_inverse_none_consistent (s : K) (q : Quat K) (u : V3 K) :
    (t_db3_inverse_transform_none (envL (in3 s q u))).Consistent ↔ scaleTest s = true := by
  rw [Tr.Consistent, g_db3_inverse_transform_none]; simp [scaleTest]
theorem db3_inverse_panic_consistent (s : K) (q : Quat K) (u : V3 K) :
    (t_db3_inverse_transform_panic (envL (in3 s q u))).Consistent ↔ scaleTest s = false ∧ q.toM3.det = 0 := by
  rw [Tr.Consistent, g_db3_inverse_transform_panic]; simp [scaleTest]
/-- for `Decomposed<_, Basis3>` exactly one of the three paths (`Some`, `None`, the `unwrap` panic on a singular basis) is
the one the code takes -/
theorem db3_inverse_exactly_one (s : K) (q : Quat K) (u : V3 K) :
    let S := (t_db3_inverse_transform_some (envL (in3 s q u))).Consistent
    let N := (t_db3_inverse_transform_none (envL (in3 s q u))).Consistent
    let P := (t_db3_inverse_transform_panic (envL (in3 s q u))).Consistent
    (S ∨ N ∨ P) ∧ ¬ (S ∧ N) ∧ ¬ (S ∧ P) ∧ ¬ (N ∧ P) := by
  simp only [db3_inverse_some_consistent, db3_inverse_none_consistent, db3_inverse_panic_consistent]
  generalize q.toM3.det = D
  by_cases h1 : scaleTest s = true <;> by_cases h2 : D = 0 <;> simp [h1, h2]
/-- the same with `Tr.ExactlyOne` -/
theorem dq_inverse_exactlyOne (d : DQ K) :
    Tr.ExactlyOne [t_dq_inverse_transform_some (envL (flq d)), t_dq_inverse_transform_none (envL (flq d))] := by
  unfold Tr.ExactlyOne
  simp only [List.pairwise_cons, List.mem_cons, List.not_mem_nil, or_false, forall_eq_or_imp, forall_eq, exists_eq_or_imp,
    exists_eq_left, List.Pairwise.nil, and_true, IsEmpty.forall_iff, implies_true,
    dq_inverse_some_consistent, dq_inverse_none_consistent]
  by_cases h : scaleTest d.scale = true <;> simp [h]
theorem db3_inverse_exactlyOne (s : K) (q : Quat K) (u : V3 K) :
    Tr.ExactlyOne [t_db3_inverse_transform_some (envL (in3 s q u)), t_db3_inverse_transform_none (envL (in3 s q u)),
      t_db3_inverse_transform_panic (envL (in3 s q u))] := by
  unfold Tr.ExactlyOne
  simp only [List.pairwise_cons, List.mem_cons, List.not_mem_nil, or_false, forall_eq_or_imp, forall_eq, exists_eq_or_imp,
    exists_eq_left, List.Pairwise.nil, and_true, IsEmpty.forall_iff, implies_true,
    db3_inverse_some_consistent, db3_inverse_none_consistent, db3_inverse_panic_consistent]
  generalize q.toM3.det = D
  by_cases h1 : scaleTest s = true <;> by_cases h2 : D = 0 <;> simp [h1, h2]
theorem db2_inverse_some_consistent (s a : K) (u : V2 K) :
    (t_db2_inverse_transform_some (envL (in2 s a u))).Consistent ↔ scaleTest s = false ∧ (M2.fromAngle a).det ≠ 0 := by
  rw [Tr.Consistent, g_db2_inverse_transform_some]; simp [scaleTest]
theorem db2_inverse_none_consistent (s a : K) (u : V2 K) :
    (t_db2_inverse_transform_none (envL (in2 s a u))).Consistent ↔ scaleTest s = true := by
  rw [Tr.Consistent, g_db2_inverse_transform_none]; simp [scaleTest]
end generic

section concrete
open scoped Cg.RealApprox
variable [FRem ℝ] [Lits ℝ]

/-- with the real relations the recorded test (tolerances `2^-52`, `4`) is the default `ulps_eq!(s, 0)` -/
theorem scaleTest_eq (s : ℝ) : scaleTest s = ulpsEqD s 0 := by
  simp [scaleTest, ulpsEqD, eps52, eps52R]
theorem scaleTest_true_iff (s : ℝ) : scaleTest s = true ↔ |s| ≤ eps52R := by
  rw [scaleTest_eq]; exact real_ulpsEqD_zero s
theorem scaleTest_false_iff (s : ℝ) : scaleTest s = false ↔ eps52R < |s| := by
  rw [← not_le, ← scaleTest_true_iff]; simp

/-- the `None` path is the one the code takes exactly when `|scale| ≤ 2^-52` -/
theorem dq_inverse_none_consistent_real (t : DQ ℝ) :
    (t_dq_inverse_transform_none (envL (flq t))).Consistent ↔ |t.scale| ≤ eps52R := by
  rw [dq_inverse_none_consistent, scaleTest_true_iff]
/-- the `Some` path is the one the code takes exactly when `|scale| > 2^-52` -/
theorem dq_inverse_some_consistent_real (t : DQ ℝ) :
    (t_dq_inverse_transform_some (envL (flq t))).Consistent ↔ eps52R < |t.scale| := by
  rw [dq_inverse_some_consistent, scaleTest_false_iff]

/-- **`Decomposed<Vector3, Quaternion>::inverse_transform`, one statement**: the code returns `None` exactly when
`|scale| ≤ 2^-52` (in particular for `scale = 0`, and never when `|scale| > 1e-6`); otherwise, for a unit rotation, it
returns the flattening of THE transform `i` (pinned by injectivity of the flattening) that undoes `t` on points and
vectors and whose matrix is the inverse of `t`'s matrix. -/
theorem code_dq_inverse_exact (t : DQ ℝ) (ht : t.rot.magnitude2 = 1) :
    ((t_dq_inverse_transform_none (envL (flq t))).Consistent ↔ |t.scale| ≤ eps52R) ∧
    ((t_dq_inverse_transform_some (envL (flq t))).Consistent ↔ eps52R < |t.scale|) ∧
    (t_dq_inverse_transform_none (envL (flq t))).res = .none ∧
    (t.scale = 0 → (t_dq_inverse_transform_none (envL (flq t))).Consistent) ∧
    (1e-6 < |t.scale| → (t_dq_inverse_transform_some (envL (flq t))).Consistent) ∧
    ((t_dq_inverse_transform_some (envL (flq t))).Consistent →
      ∃ i : DQ ℝ, t_dq_inverse_transform_some (envL (flq t)) = .okG (flq i) [.ulps t.scale 0 eps52 4 false] ∧
        (∀ p, i.transformPointV quatOps (t.transformPointV quatOps p) = p) ∧
        (∀ v, i.transformVector quatOps (t.transformVector quatOps v) = v) ∧
        (t.toM4 quatOps).invert = some (i.toM4 quatOps) ∧
        ∀ i' : DQ ℝ, (t_dq_inverse_transform_some (envL (flq t))).out = flq i' → i' = i) := by
  refine ⟨dq_inverse_none_consistent_real t, dq_inverse_some_consistent_real t, ?_, fun h0 => ?_, fun hs => ?_, fun hc => ?_⟩
  · rw [Trace.C08.t_dq_inverse_transform_none]; rfl
  · rw [dq_inverse_none_consistent_real, h0, abs_zero]; exact eps52R_pos.le
  · rw [dq_inverse_some_consistent_real]; exact lt_of_le_of_lt eps52R_le hs
  · have hlt := (dq_inverse_some_consistent_real t).1 hc
    have hz : ulpsEqD t.scale 0 = false := by rw [← scaleTest_eq]; exact (scaleTest_false_iff _).2 hlt
    have hne : t.scale ≠ 0 := by
      intro h0; rw [h0, abs_zero] at hlt; exact absurd hlt (not_lt.2 eps52R_pos.le)
    obtain ⟨i, hi, h1, h2, h3⟩ := code_dq_inverse t ht hz hne
    refine ⟨i, hi, h1, h2, h3, fun i' hi' => ?_⟩
    rw [hi] at hi'
    have e : flq i = flq i' := hi'
    obtain ⟨s, r, d⟩ := i
    obtain ⟨s', r', d'⟩ := i'
    simp only [flq, List.cons_append, List.cons.injEq] at e
    obtain ⟨rfl, e2⟩ := e
    have hl : r.toList.length = r'.toList.length := rfl
    obtain ⟨e3, e4⟩ := List.append_inj e2 hl
    rw [Quat.toList_injective e3, V3.toList_injective e4]

/-- not vacuous: scale `2`, identity rotation takes the `Some` path; scale `0` the `None` path -/
example : (t_dq_inverse_transform_some (envL (flq (⟨2, Quat.one, V3.zero⟩ : DQ ℝ)))).Consistent := by
  rw [dq_inverse_some_consistent_real]
  show eps52R < |(2 : ℝ)|
  rw [abs_of_pos (by norm_num : (0 : ℝ) < 2)]; unfold eps52R; norm_num
example : (t_dq_inverse_transform_none (envL (flq (⟨0, Quat.one, V3.zero⟩ : DQ ℝ)))).Consistent := by
  rw [dq_inverse_none_consistent_real]
  show |(0 : ℝ)| ≤ eps52R
  rw [abs_zero]; exact eps52R_pos.le
end concrete
end Cg.E2E.C08
