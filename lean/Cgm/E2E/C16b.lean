import Cgm.E2E.C16
import Cgm.Trace.C16Ops
import Cgm.Trace.C16Rest
import Cgm.Lemmas.GuardSem
/-!
# C16, end to end: `IndexMut` stores are read back by `Index` at that position and only there; the quaternion's index order;
`swap_elements`

GENERATED once by `tools/gen_ops_obl.py` (`tools/gen_ops_e2e.py`) from the kernel table `lib/cgv/tracetab_ops.py`; kept as an
ordinary source file.

* `<t>_set_i_index_j` (vectors, points, the quaternion; every in-range `i`, `j`): the list the `IndexMut` kernel `t_<t>_set_i`
  produced is the flattening of a value `w` (pinned: `toList` is injective) on which the `Index` kernel `t_<t>_index_j` returns the
  stored scalar when `j = i` and the ORIGINAL component `j` otherwise;
* `<t>_set_i_list` (all types, also `m<n>.set c r`): the produced list is the input's flattening with exactly one position
  replaced (`List.set`); for the quaternion array slot `i` is flattening position `(i + 1) % 4` (`s` is slot 3 but is flattened first);
* `q_index_order`: `q[0], q[1], q[2], q[3]` are `v.x, v.y, v.z, s` -- the model's `toArray`;
* `<t>_swap_i_j_*`: the swapped value read back by `Index`: position `i` holds the old component `j` and vice versa, and swapping
  twice gives the input back;
* out of range every one of these kernels is the bare panic (`*_oob_panics`).
-/
set_option linter.unusedSectionVars false
set_option linter.unusedVariables false
set_option linter.unusedSimpArgs false
set_option linter.unnecessarySeqFocus false
namespace Cg.E2E.C16
open Cg Cg.Gen.C16

section ops
variable {K : Type} [Field K] [Transc K] [FRem K] [Lits K]

/-! ## the quaternion's index order -/
/-- `Index<usize>` of a quaternion as computed: slots `0, 1, 2, 3` are `v.x, v.y, v.z, s` (the flattening is `s x y z`), i.e. the
model's array view `Quat.toArray`; slot `4` panics -/
theorem q_index_order (q : Quat K) :
    t_q_index_0 (envL q.toList) = .okS [q.v.x] ∧ t_q_index_1 (envL q.toList) = .okS [q.v.y] ∧
    t_q_index_2 (envL q.toList) = .okS [q.v.z] ∧ t_q_index_3 (envL q.toList) = .okS [q.s] ∧
    t_q_index_4_oob (envL q.toList) = .panicG [] ∧
    q.toArray = [q.v.x, q.v.y, q.v.z, q.s] := by
  refine ⟨?_, ?_, ?_, ?_, ?_, rfl⟩ <;> simp [envL, Tr.okS, Tr.panicG, V1.toList, V2.toList, V3.toList, V4.toList, P1.toList, P2.toList, P3.toList, Quat.toList, M2.toList, M3.toList, M4.toList]

/-! ## `q`: store, then read -/
/-- the store `q[0] = a` as computed replaces exactly flattening position `1` -/
theorem q_set_0_list (q : Quat K) (a : K) :
    t_q_set_0 (envL (q.toList ++ [a])) = .okS (q.toList.set 1 a) := by
  simp [envL, Tr.okS, Tr.panicG, V1.toList, V2.toList, V3.toList, V4.toList, P1.toList, P2.toList, P3.toList, Quat.toList, M2.toList, M3.toList, M4.toList]
theorem q_set_0_index_0 (q : Quat K) (a : K) :
    ∃ w : Quat K, t_q_set_0 (envL (q.toList ++ [a])) = .okS w.toList ∧
      t_q_index_0 (envL w.toList) = .okS [a] := by
  refine ⟨(⟨⟨a, q.v.y, q.v.z⟩, q.s⟩ : Quat K), ?_, ?_⟩ <;> simp [envL, Tr.okS, Tr.panicG, V1.toList, V2.toList, V3.toList, V4.toList, P1.toList, P2.toList, P3.toList, Quat.toList, M2.toList, M3.toList, M4.toList]
theorem q_set_0_index_1 (q : Quat K) (a : K) :
    ∃ w : Quat K, t_q_set_0 (envL (q.toList ++ [a])) = .okS w.toList ∧
      t_q_index_1 (envL w.toList) = .okS [q.v.y] := by
  refine ⟨(⟨⟨a, q.v.y, q.v.z⟩, q.s⟩ : Quat K), ?_, ?_⟩ <;> simp [envL, Tr.okS, Tr.panicG, V1.toList, V2.toList, V3.toList, V4.toList, P1.toList, P2.toList, P3.toList, Quat.toList, M2.toList, M3.toList, M4.toList]
theorem q_set_0_index_2 (q : Quat K) (a : K) :
    ∃ w : Quat K, t_q_set_0 (envL (q.toList ++ [a])) = .okS w.toList ∧
      t_q_index_2 (envL w.toList) = .okS [q.v.z] := by
  refine ⟨(⟨⟨a, q.v.y, q.v.z⟩, q.s⟩ : Quat K), ?_, ?_⟩ <;> simp [envL, Tr.okS, Tr.panicG, V1.toList, V2.toList, V3.toList, V4.toList, P1.toList, P2.toList, P3.toList, Quat.toList, M2.toList, M3.toList, M4.toList]
theorem q_set_0_index_3 (q : Quat K) (a : K) :
    ∃ w : Quat K, t_q_set_0 (envL (q.toList ++ [a])) = .okS w.toList ∧
      t_q_index_3 (envL w.toList) = .okS [q.s] := by
  refine ⟨(⟨⟨a, q.v.y, q.v.z⟩, q.s⟩ : Quat K), ?_, ?_⟩ <;> simp [envL, Tr.okS, Tr.panicG, V1.toList, V2.toList, V3.toList, V4.toList, P1.toList, P2.toList, P3.toList, Quat.toList, M2.toList, M3.toList, M4.toList]
/-- the store `q[1] = a` as computed replaces exactly flattening position `2` -/
theorem q_set_1_list (q : Quat K) (a : K) :
    t_q_set_1 (envL (q.toList ++ [a])) = .okS (q.toList.set 2 a) := by
  simp [envL, Tr.okS, Tr.panicG, V1.toList, V2.toList, V3.toList, V4.toList, P1.toList, P2.toList, P3.toList, Quat.toList, M2.toList, M3.toList, M4.toList]
theorem q_set_1_index_0 (q : Quat K) (a : K) :
    ∃ w : Quat K, t_q_set_1 (envL (q.toList ++ [a])) = .okS w.toList ∧
      t_q_index_0 (envL w.toList) = .okS [q.v.x] := by
  refine ⟨(⟨⟨q.v.x, a, q.v.z⟩, q.s⟩ : Quat K), ?_, ?_⟩ <;> simp [envL, Tr.okS, Tr.panicG, V1.toList, V2.toList, V3.toList, V4.toList, P1.toList, P2.toList, P3.toList, Quat.toList, M2.toList, M3.toList, M4.toList]
theorem q_set_1_index_1 (q : Quat K) (a : K) :
    ∃ w : Quat K, t_q_set_1 (envL (q.toList ++ [a])) = .okS w.toList ∧
      t_q_index_1 (envL w.toList) = .okS [a] := by
  refine ⟨(⟨⟨q.v.x, a, q.v.z⟩, q.s⟩ : Quat K), ?_, ?_⟩ <;> simp [envL, Tr.okS, Tr.panicG, V1.toList, V2.toList, V3.toList, V4.toList, P1.toList, P2.toList, P3.toList, Quat.toList, M2.toList, M3.toList, M4.toList]
theorem q_set_1_index_2 (q : Quat K) (a : K) :
    ∃ w : Quat K, t_q_set_1 (envL (q.toList ++ [a])) = .okS w.toList ∧
      t_q_index_2 (envL w.toList) = .okS [q.v.z] := by
  refine ⟨(⟨⟨q.v.x, a, q.v.z⟩, q.s⟩ : Quat K), ?_, ?_⟩ <;> simp [envL, Tr.okS, Tr.panicG, V1.toList, V2.toList, V3.toList, V4.toList, P1.toList, P2.toList, P3.toList, Quat.toList, M2.toList, M3.toList, M4.toList]
theorem q_set_1_index_3 (q : Quat K) (a : K) :
    ∃ w : Quat K, t_q_set_1 (envL (q.toList ++ [a])) = .okS w.toList ∧
      t_q_index_3 (envL w.toList) = .okS [q.s] := by
  refine ⟨(⟨⟨q.v.x, a, q.v.z⟩, q.s⟩ : Quat K), ?_, ?_⟩ <;> simp [envL, Tr.okS, Tr.panicG, V1.toList, V2.toList, V3.toList, V4.toList, P1.toList, P2.toList, P3.toList, Quat.toList, M2.toList, M3.toList, M4.toList]
/-- the store `q[2] = a` as computed replaces exactly flattening position `3` -/
theorem q_set_2_list (q : Quat K) (a : K) :
    t_q_set_2 (envL (q.toList ++ [a])) = .okS (q.toList.set 3 a) := by
  simp [envL, Tr.okS, Tr.panicG, V1.toList, V2.toList, V3.toList, V4.toList, P1.toList, P2.toList, P3.toList, Quat.toList, M2.toList, M3.toList, M4.toList]
theorem q_set_2_index_0 (q : Quat K) (a : K) :
    ∃ w : Quat K, t_q_set_2 (envL (q.toList ++ [a])) = .okS w.toList ∧
      t_q_index_0 (envL w.toList) = .okS [q.v.x] := by
  refine ⟨(⟨⟨q.v.x, q.v.y, a⟩, q.s⟩ : Quat K), ?_, ?_⟩ <;> simp [envL, Tr.okS, Tr.panicG, V1.toList, V2.toList, V3.toList, V4.toList, P1.toList, P2.toList, P3.toList, Quat.toList, M2.toList, M3.toList, M4.toList]
theorem q_set_2_index_1 (q : Quat K) (a : K) :
    ∃ w : Quat K, t_q_set_2 (envL (q.toList ++ [a])) = .okS w.toList ∧
      t_q_index_1 (envL w.toList) = .okS [q.v.y] := by
  refine ⟨(⟨⟨q.v.x, q.v.y, a⟩, q.s⟩ : Quat K), ?_, ?_⟩ <;> simp [envL, Tr.okS, Tr.panicG, V1.toList, V2.toList, V3.toList, V4.toList, P1.toList, P2.toList, P3.toList, Quat.toList, M2.toList, M3.toList, M4.toList]
theorem q_set_2_index_2 (q : Quat K) (a : K) :
    ∃ w : Quat K, t_q_set_2 (envL (q.toList ++ [a])) = .okS w.toList ∧
      t_q_index_2 (envL w.toList) = .okS [a] := by
  refine ⟨(⟨⟨q.v.x, q.v.y, a⟩, q.s⟩ : Quat K), ?_, ?_⟩ <;> simp [envL, Tr.okS, Tr.panicG, V1.toList, V2.toList, V3.toList, V4.toList, P1.toList, P2.toList, P3.toList, Quat.toList, M2.toList, M3.toList, M4.toList]
theorem q_set_2_index_3 (q : Quat K) (a : K) :
    ∃ w : Quat K, t_q_set_2 (envL (q.toList ++ [a])) = .okS w.toList ∧
      t_q_index_3 (envL w.toList) = .okS [q.s] := by
  refine ⟨(⟨⟨q.v.x, q.v.y, a⟩, q.s⟩ : Quat K), ?_, ?_⟩ <;> simp [envL, Tr.okS, Tr.panicG, V1.toList, V2.toList, V3.toList, V4.toList, P1.toList, P2.toList, P3.toList, Quat.toList, M2.toList, M3.toList, M4.toList]
/-- the store `q[3] = a` as computed replaces exactly flattening position `0` -/
theorem q_set_3_list (q : Quat K) (a : K) :
    t_q_set_3 (envL (q.toList ++ [a])) = .okS (q.toList.set 0 a) := by
  simp [envL, Tr.okS, Tr.panicG, V1.toList, V2.toList, V3.toList, V4.toList, P1.toList, P2.toList, P3.toList, Quat.toList, M2.toList, M3.toList, M4.toList]
theorem q_set_3_index_0 (q : Quat K) (a : K) :
    ∃ w : Quat K, t_q_set_3 (envL (q.toList ++ [a])) = .okS w.toList ∧
      t_q_index_0 (envL w.toList) = .okS [q.v.x] := by
  refine ⟨(⟨⟨q.v.x, q.v.y, q.v.z⟩, a⟩ : Quat K), ?_, ?_⟩ <;> simp [envL, Tr.okS, Tr.panicG, V1.toList, V2.toList, V3.toList, V4.toList, P1.toList, P2.toList, P3.toList, Quat.toList, M2.toList, M3.toList, M4.toList]
theorem q_set_3_index_1 (q : Quat K) (a : K) :
    ∃ w : Quat K, t_q_set_3 (envL (q.toList ++ [a])) = .okS w.toList ∧
      t_q_index_1 (envL w.toList) = .okS [q.v.y] := by
  refine ⟨(⟨⟨q.v.x, q.v.y, q.v.z⟩, a⟩ : Quat K), ?_, ?_⟩ <;> simp [envL, Tr.okS, Tr.panicG, V1.toList, V2.toList, V3.toList, V4.toList, P1.toList, P2.toList, P3.toList, Quat.toList, M2.toList, M3.toList, M4.toList]
theorem q_set_3_index_2 (q : Quat K) (a : K) :
    ∃ w : Quat K, t_q_set_3 (envL (q.toList ++ [a])) = .okS w.toList ∧
      t_q_index_2 (envL w.toList) = .okS [q.v.z] := by
  refine ⟨(⟨⟨q.v.x, q.v.y, q.v.z⟩, a⟩ : Quat K), ?_, ?_⟩ <;> simp [envL, Tr.okS, Tr.panicG, V1.toList, V2.toList, V3.toList, V4.toList, P1.toList, P2.toList, P3.toList, Quat.toList, M2.toList, M3.toList, M4.toList]
theorem q_set_3_index_3 (q : Quat K) (a : K) :
    ∃ w : Quat K, t_q_set_3 (envL (q.toList ++ [a])) = .okS w.toList ∧
      t_q_index_3 (envL w.toList) = .okS [a] := by
  refine ⟨(⟨⟨q.v.x, q.v.y, q.v.z⟩, a⟩ : Quat K), ?_, ?_⟩ <;> simp [envL, Tr.okS, Tr.panicG, V1.toList, V2.toList, V3.toList, V4.toList, P1.toList, P2.toList, P3.toList, Quat.toList, M2.toList, M3.toList, M4.toList]
theorem q_set_oob_panics (q : Quat K) (a : K) :
    t_q_set_4_oob (envL (q.toList ++ [a])) = .panicG [] := by
  simp [envL, Tr.okS, Tr.panicG, V1.toList, V2.toList, V3.toList, V4.toList, P1.toList, P2.toList, P3.toList, Quat.toList, M2.toList, M3.toList, M4.toList]

/-! ## `v1`: store, then read -/
/-- the store `v1[0] = a` as computed replaces exactly flattening position `0` -/
theorem v1_set_0_list (u : V1 K) (a : K) :
    t_v1_set_0 (envL (u.toList ++ [a])) = .okS (u.toList.set 0 a) := by
  simp [envL, Tr.okS, Tr.panicG, V1.toList, V2.toList, V3.toList, V4.toList, P1.toList, P2.toList, P3.toList, Quat.toList, M2.toList, M3.toList, M4.toList]
theorem v1_set_0_index_0 (u : V1 K) (a : K) :
    ∃ w : V1 K, t_v1_set_0 (envL (u.toList ++ [a])) = .okS w.toList ∧
      t_v1_index_0 (envL w.toList) = .okS [a] := by
  refine ⟨(⟨a⟩ : V1 K), ?_, ?_⟩ <;> simp [envL, Tr.okS, Tr.panicG, V1.toList, V2.toList, V3.toList, V4.toList, P1.toList, P2.toList, P3.toList, Quat.toList, M2.toList, M3.toList, M4.toList]
theorem v1_set_oob_panics (u : V1 K) (a : K) :
    t_v1_set_1_oob (envL (u.toList ++ [a])) = .panicG [] := by
  simp [envL, Tr.okS, Tr.panicG, V1.toList, V2.toList, V3.toList, V4.toList, P1.toList, P2.toList, P3.toList, Quat.toList, M2.toList, M3.toList, M4.toList]

/-! ## `v1`: `swap_elements`, then read; twice -/
theorem v1_swap_0_0_read (u : V1 K) :
    ∃ w : V1 K, t_v1_swap_elements_0_0 (envL u.toList) = .okS w.toList ∧
      t_v1_index_0 (envL w.toList) = .okS [u.x] ∧ t_v1_index_0 (envL w.toList) = .okS [u.x] ∧
      t_v1_swap_elements_0_0 (envL w.toList) = .okS u.toList := by
  refine ⟨(⟨u.x⟩ : V1 K), ?_, ?_, ?_, ?_⟩ <;> simp [envL, Tr.okS, Tr.panicG, V1.toList, V2.toList, V3.toList, V4.toList, P1.toList, P2.toList, P3.toList, Quat.toList, M2.toList, M3.toList, M4.toList]
theorem v1_swap_oob_panics (u : V1 K) :
    t_v1_swap_elements_1_0_oob (envL u.toList) = .panicG [] ∧
    t_v1_swap_elements_0_1_oob (envL u.toList) = .panicG [] := by
  constructor <;> simp [envL, Tr.okS, Tr.panicG, V1.toList, V2.toList, V3.toList, V4.toList, P1.toList, P2.toList, P3.toList, Quat.toList, M2.toList, M3.toList, M4.toList]

/-! ## `v2`: store, then read -/
/-- the store `v2[0] = a` as computed replaces exactly flattening position `0` -/
theorem v2_set_0_list (u : V2 K) (a : K) :
    t_v2_set_0 (envL (u.toList ++ [a])) = .okS (u.toList.set 0 a) := by
  simp [envL, Tr.okS, Tr.panicG, V1.toList, V2.toList, V3.toList, V4.toList, P1.toList, P2.toList, P3.toList, Quat.toList, M2.toList, M3.toList, M4.toList]
theorem v2_set_0_index_0 (u : V2 K) (a : K) :
    ∃ w : V2 K, t_v2_set_0 (envL (u.toList ++ [a])) = .okS w.toList ∧
      t_v2_index_0 (envL w.toList) = .okS [a] := by
  refine ⟨(⟨a, u.y⟩ : V2 K), ?_, ?_⟩ <;> simp [envL, Tr.okS, Tr.panicG, V1.toList, V2.toList, V3.toList, V4.toList, P1.toList, P2.toList, P3.toList, Quat.toList, M2.toList, M3.toList, M4.toList]
theorem v2_set_0_index_1 (u : V2 K) (a : K) :
    ∃ w : V2 K, t_v2_set_0 (envL (u.toList ++ [a])) = .okS w.toList ∧
      t_v2_index_1 (envL w.toList) = .okS [u.y] := by
  refine ⟨(⟨a, u.y⟩ : V2 K), ?_, ?_⟩ <;> simp [envL, Tr.okS, Tr.panicG, V1.toList, V2.toList, V3.toList, V4.toList, P1.toList, P2.toList, P3.toList, Quat.toList, M2.toList, M3.toList, M4.toList]
/-- the store `v2[1] = a` as computed replaces exactly flattening position `1` -/
theorem v2_set_1_list (u : V2 K) (a : K) :
    t_v2_set_1 (envL (u.toList ++ [a])) = .okS (u.toList.set 1 a) := by
  simp [envL, Tr.okS, Tr.panicG, V1.toList, V2.toList, V3.toList, V4.toList, P1.toList, P2.toList, P3.toList, Quat.toList, M2.toList, M3.toList, M4.toList]
theorem v2_set_1_index_0 (u : V2 K) (a : K) :
    ∃ w : V2 K, t_v2_set_1 (envL (u.toList ++ [a])) = .okS w.toList ∧
      t_v2_index_0 (envL w.toList) = .okS [u.x] := by
  refine ⟨(⟨u.x, a⟩ : V2 K), ?_, ?_⟩ <;> simp [envL, Tr.okS, Tr.panicG, V1.toList, V2.toList, V3.toList, V4.toList, P1.toList, P2.toList, P3.toList, Quat.toList, M2.toList, M3.toList, M4.toList]
theorem v2_set_1_index_1 (u : V2 K) (a : K) :
    ∃ w : V2 K, t_v2_set_1 (envL (u.toList ++ [a])) = .okS w.toList ∧
      t_v2_index_1 (envL w.toList) = .okS [a] := by
  refine ⟨(⟨u.x, a⟩ : V2 K), ?_, ?_⟩ <;> simp [envL, Tr.okS, Tr.panicG, V1.toList, V2.toList, V3.toList, V4.toList, P1.toList, P2.toList, P3.toList, Quat.toList, M2.toList, M3.toList, M4.toList]
theorem v2_set_oob_panics (u : V2 K) (a : K) :
    t_v2_set_2_oob (envL (u.toList ++ [a])) = .panicG [] := by
  simp [envL, Tr.okS, Tr.panicG, V1.toList, V2.toList, V3.toList, V4.toList, P1.toList, P2.toList, P3.toList, Quat.toList, M2.toList, M3.toList, M4.toList]

/-! ## `v2`: `swap_elements`, then read; twice -/
theorem v2_swap_0_0_read (u : V2 K) :
    ∃ w : V2 K, t_v2_swap_elements_0_0 (envL u.toList) = .okS w.toList ∧
      t_v2_index_0 (envL w.toList) = .okS [u.x] ∧ t_v2_index_0 (envL w.toList) = .okS [u.x] ∧
      t_v2_swap_elements_0_0 (envL w.toList) = .okS u.toList := by
  refine ⟨(⟨u.x, u.y⟩ : V2 K), ?_, ?_, ?_, ?_⟩ <;> simp [envL, Tr.okS, Tr.panicG, V1.toList, V2.toList, V3.toList, V4.toList, P1.toList, P2.toList, P3.toList, Quat.toList, M2.toList, M3.toList, M4.toList]
theorem v2_swap_0_1_read (u : V2 K) :
    ∃ w : V2 K, t_v2_swap_elements_0_1 (envL u.toList) = .okS w.toList ∧
      t_v2_index_0 (envL w.toList) = .okS [u.y] ∧ t_v2_index_1 (envL w.toList) = .okS [u.x] ∧
      t_v2_swap_elements_0_1 (envL w.toList) = .okS u.toList := by
  refine ⟨(⟨u.y, u.x⟩ : V2 K), ?_, ?_, ?_, ?_⟩ <;> simp [envL, Tr.okS, Tr.panicG, V1.toList, V2.toList, V3.toList, V4.toList, P1.toList, P2.toList, P3.toList, Quat.toList, M2.toList, M3.toList, M4.toList]
theorem v2_swap_1_0_read (u : V2 K) :
    ∃ w : V2 K, t_v2_swap_elements_1_0 (envL u.toList) = .okS w.toList ∧
      t_v2_index_1 (envL w.toList) = .okS [u.x] ∧ t_v2_index_0 (envL w.toList) = .okS [u.y] ∧
      t_v2_swap_elements_1_0 (envL w.toList) = .okS u.toList := by
  refine ⟨(⟨u.y, u.x⟩ : V2 K), ?_, ?_, ?_, ?_⟩ <;> simp [envL, Tr.okS, Tr.panicG, V1.toList, V2.toList, V3.toList, V4.toList, P1.toList, P2.toList, P3.toList, Quat.toList, M2.toList, M3.toList, M4.toList]
theorem v2_swap_1_1_read (u : V2 K) :
    ∃ w : V2 K, t_v2_swap_elements_1_1 (envL u.toList) = .okS w.toList ∧
      t_v2_index_1 (envL w.toList) = .okS [u.y] ∧ t_v2_index_1 (envL w.toList) = .okS [u.y] ∧
      t_v2_swap_elements_1_1 (envL w.toList) = .okS u.toList := by
  refine ⟨(⟨u.x, u.y⟩ : V2 K), ?_, ?_, ?_, ?_⟩ <;> simp [envL, Tr.okS, Tr.panicG, V1.toList, V2.toList, V3.toList, V4.toList, P1.toList, P2.toList, P3.toList, Quat.toList, M2.toList, M3.toList, M4.toList]
theorem v2_swap_oob_panics (u : V2 K) :
    t_v2_swap_elements_2_0_oob (envL u.toList) = .panicG [] ∧
    t_v2_swap_elements_0_2_oob (envL u.toList) = .panicG [] := by
  constructor <;> simp [envL, Tr.okS, Tr.panicG, V1.toList, V2.toList, V3.toList, V4.toList, P1.toList, P2.toList, P3.toList, Quat.toList, M2.toList, M3.toList, M4.toList]

/-! ## `v3`: store, then read -/
/-- the store `v3[0] = a` as computed replaces exactly flattening position `0` -/
theorem v3_set_0_list (u : V3 K) (a : K) :
    t_v3_set_0 (envL (u.toList ++ [a])) = .okS (u.toList.set 0 a) := by
  simp [envL, Tr.okS, Tr.panicG, V1.toList, V2.toList, V3.toList, V4.toList, P1.toList, P2.toList, P3.toList, Quat.toList, M2.toList, M3.toList, M4.toList]
theorem v3_set_0_index_0 (u : V3 K) (a : K) :
    ∃ w : V3 K, t_v3_set_0 (envL (u.toList ++ [a])) = .okS w.toList ∧
      t_v3_index_0 (envL w.toList) = .okS [a] := by
  refine ⟨(⟨a, u.y, u.z⟩ : V3 K), ?_, ?_⟩ <;> simp [envL, Tr.okS, Tr.panicG, V1.toList, V2.toList, V3.toList, V4.toList, P1.toList, P2.toList, P3.toList, Quat.toList, M2.toList, M3.toList, M4.toList]
theorem v3_set_0_index_1 (u : V3 K) (a : K) :
    ∃ w : V3 K, t_v3_set_0 (envL (u.toList ++ [a])) = .okS w.toList ∧
      t_v3_index_1 (envL w.toList) = .okS [u.y] := by
  refine ⟨(⟨a, u.y, u.z⟩ : V3 K), ?_, ?_⟩ <;> simp [envL, Tr.okS, Tr.panicG, V1.toList, V2.toList, V3.toList, V4.toList, P1.toList, P2.toList, P3.toList, Quat.toList, M2.toList, M3.toList, M4.toList]
theorem v3_set_0_index_2 (u : V3 K) (a : K) :
    ∃ w : V3 K, t_v3_set_0 (envL (u.toList ++ [a])) = .okS w.toList ∧
      t_v3_index_2 (envL w.toList) = .okS [u.z] := by
  refine ⟨(⟨a, u.y, u.z⟩ : V3 K), ?_, ?_⟩ <;> simp [envL, Tr.okS, Tr.panicG, V1.toList, V2.toList, V3.toList, V4.toList, P1.toList, P2.toList, P3.toList, Quat.toList, M2.toList, M3.toList, M4.toList]
/-- the store `v3[1] = a` as computed replaces exactly flattening position `1` -/
theorem v3_set_1_list (u : V3 K) (a : K) :
    t_v3_set_1 (envL (u.toList ++ [a])) = .okS (u.toList.set 1 a) := by
  simp [envL, Tr.okS, Tr.panicG, V1.toList, V2.toList, V3.toList, V4.toList, P1.toList, P2.toList, P3.toList, Quat.toList, M2.toList, M3.toList, M4.toList]
theorem v3_set_1_index_0 (u : V3 K) (a : K) :
    ∃ w : V3 K, t_v3_set_1 (envL (u.toList ++ [a])) = .okS w.toList ∧
      t_v3_index_0 (envL w.toList) = .okS [u.x] := by
  refine ⟨(⟨u.x, a, u.z⟩ : V3 K), ?_, ?_⟩ <;> simp [envL, Tr.okS, Tr.panicG, V1.toList, V2.toList, V3.toList, V4.toList, P1.toList, P2.toList, P3.toList, Quat.toList, M2.toList, M3.toList, M4.toList]
theorem v3_set_1_index_1 (u : V3 K) (a : K) :
    ∃ w : V3 K, t_v3_set_1 (envL (u.toList ++ [a])) = .okS w.toList ∧
      t_v3_index_1 (envL w.toList) = .okS [a] := by
  refine ⟨(⟨u.x, a, u.z⟩ : V3 K), ?_, ?_⟩ <;> simp [envL, Tr.okS, Tr.panicG, V1.toList, V2.toList, V3.toList, V4.toList, P1.toList, P2.toList, P3.toList, Quat.toList, M2.toList, M3.toList, M4.toList]
theorem v3_set_1_index_2 (u : V3 K) (a : K) :
    ∃ w : V3 K, t_v3_set_1 (envL (u.toList ++ [a])) = .okS w.toList ∧
      t_v3_index_2 (envL w.toList) = .okS [u.z] := by
  refine ⟨(⟨u.x, a, u.z⟩ : V3 K), ?_, ?_⟩ <;> simp [envL, Tr.okS, Tr.panicG, V1.toList, V2.toList, V3.toList, V4.toList, P1.toList, P2.toList, P3.toList, Quat.toList, M2.toList, M3.toList, M4.toList]
/-- the store `v3[2] = a` as computed replaces exactly flattening position `2` -/
theorem v3_set_2_list (u : V3 K) (a : K) :
    t_v3_set_2 (envL (u.toList ++ [a])) = .okS (u.toList.set 2 a) := by
  simp [envL, Tr.okS, Tr.panicG, V1.toList, V2.toList, V3.toList, V4.toList, P1.toList, P2.toList, P3.toList, Quat.toList, M2.toList, M3.toList, M4.toList]
theorem v3_set_2_index_0 (u : V3 K) (a : K) :
    ∃ w : V3 K, t_v3_set_2 (envL (u.toList ++ [a])) = .okS w.toList ∧
      t_v3_index_0 (envL w.toList) = .okS [u.x] := by
  refine ⟨(⟨u.x, u.y, a⟩ : V3 K), ?_, ?_⟩ <;> simp [envL, Tr.okS, Tr.panicG, V1.toList, V2.toList, V3.toList, V4.toList, P1.toList, P2.toList, P3.toList, Quat.toList, M2.toList, M3.toList, M4.toList]
theorem v3_set_2_index_1 (u : V3 K) (a : K) :
    ∃ w : V3 K, t_v3_set_2 (envL (u.toList ++ [a])) = .okS w.toList ∧
      t_v3_index_1 (envL w.toList) = .okS [u.y] := by
  refine ⟨(⟨u.x, u.y, a⟩ : V3 K), ?_, ?_⟩ <;> simp [envL, Tr.okS, Tr.panicG, V1.toList, V2.toList, V3.toList, V4.toList, P1.toList, P2.toList, P3.toList, Quat.toList, M2.toList, M3.toList, M4.toList]
theorem v3_set_2_index_2 (u : V3 K) (a : K) :
    ∃ w : V3 K, t_v3_set_2 (envL (u.toList ++ [a])) = .okS w.toList ∧
      t_v3_index_2 (envL w.toList) = .okS [a] := by
  refine ⟨(⟨u.x, u.y, a⟩ : V3 K), ?_, ?_⟩ <;> simp [envL, Tr.okS, Tr.panicG, V1.toList, V2.toList, V3.toList, V4.toList, P1.toList, P2.toList, P3.toList, Quat.toList, M2.toList, M3.toList, M4.toList]
theorem v3_set_oob_panics (u : V3 K) (a : K) :
    t_v3_set_3_oob (envL (u.toList ++ [a])) = .panicG [] := by
  simp [envL, Tr.okS, Tr.panicG, V1.toList, V2.toList, V3.toList, V4.toList, P1.toList, P2.toList, P3.toList, Quat.toList, M2.toList, M3.toList, M4.toList]

/-! ## `v3`: `swap_elements`, then read; twice -/
theorem v3_swap_0_0_read (u : V3 K) :
    ∃ w : V3 K, t_v3_swap_elements_0_0 (envL u.toList) = .okS w.toList ∧
      t_v3_index_0 (envL w.toList) = .okS [u.x] ∧ t_v3_index_0 (envL w.toList) = .okS [u.x] ∧
      t_v3_swap_elements_0_0 (envL w.toList) = .okS u.toList := by
  refine ⟨(⟨u.x, u.y, u.z⟩ : V3 K), ?_, ?_, ?_, ?_⟩ <;> simp [envL, Tr.okS, Tr.panicG, V1.toList, V2.toList, V3.toList, V4.toList, P1.toList, P2.toList, P3.toList, Quat.toList, M2.toList, M3.toList, M4.toList]
theorem v3_swap_0_1_read (u : V3 K) :
    ∃ w : V3 K, t_v3_swap_elements_0_1 (envL u.toList) = .okS w.toList ∧
      t_v3_index_0 (envL w.toList) = .okS [u.y] ∧ t_v3_index_1 (envL w.toList) = .okS [u.x] ∧
      t_v3_swap_elements_0_1 (envL w.toList) = .okS u.toList := by
  refine ⟨(⟨u.y, u.x, u.z⟩ : V3 K), ?_, ?_, ?_, ?_⟩ <;> simp [envL, Tr.okS, Tr.panicG, V1.toList, V2.toList, V3.toList, V4.toList, P1.toList, P2.toList, P3.toList, Quat.toList, M2.toList, M3.toList, M4.toList]
theorem v3_swap_0_2_read (u : V3 K) :
    ∃ w : V3 K, t_v3_swap_elements_0_2 (envL u.toList) = .okS w.toList ∧
      t_v3_index_0 (envL w.toList) = .okS [u.z] ∧ t_v3_index_2 (envL w.toList) = .okS [u.x] ∧
      t_v3_swap_elements_0_2 (envL w.toList) = .okS u.toList := by
  refine ⟨(⟨u.z, u.y, u.x⟩ : V3 K), ?_, ?_, ?_, ?_⟩ <;> simp [envL, Tr.okS, Tr.panicG, V1.toList, V2.toList, V3.toList, V4.toList, P1.toList, P2.toList, P3.toList, Quat.toList, M2.toList, M3.toList, M4.toList]
theorem v3_swap_1_0_read (u : V3 K) :
    ∃ w : V3 K, t_v3_swap_elements_1_0 (envL u.toList) = .okS w.toList ∧
      t_v3_index_1 (envL w.toList) = .okS [u.x] ∧ t_v3_index_0 (envL w.toList) = .okS [u.y] ∧
      t_v3_swap_elements_1_0 (envL w.toList) = .okS u.toList := by
  refine ⟨(⟨u.y, u.x, u.z⟩ : V3 K), ?_, ?_, ?_, ?_⟩ <;> simp [envL, Tr.okS, Tr.panicG, V1.toList, V2.toList, V3.toList, V4.toList, P1.toList, P2.toList, P3.toList, Quat.toList, M2.toList, M3.toList, M4.toList]
theorem v3_swap_1_1_read (u : V3 K) :
    ∃ w : V3 K, t_v3_swap_elements_1_1 (envL u.toList) = .okS w.toList ∧
      t_v3_index_1 (envL w.toList) = .okS [u.y] ∧ t_v3_index_1 (envL w.toList) = .okS [u.y] ∧
      t_v3_swap_elements_1_1 (envL w.toList) = .okS u.toList := by
  refine ⟨(⟨u.x, u.y, u.z⟩ : V3 K), ?_, ?_, ?_, ?_⟩ <;> simp [envL, Tr.okS, Tr.panicG, V1.toList, V2.toList, V3.toList, V4.toList, P1.toList, P2.toList, P3.toList, Quat.toList, M2.toList, M3.toList, M4.toList]
theorem v3_swap_1_2_read (u : V3 K) :
    ∃ w : V3 K, t_v3_swap_elements_1_2 (envL u.toList) = .okS w.toList ∧
      t_v3_index_1 (envL w.toList) = .okS [u.z] ∧ t_v3_index_2 (envL w.toList) = .okS [u.y] ∧
      t_v3_swap_elements_1_2 (envL w.toList) = .okS u.toList := by
  refine ⟨(⟨u.x, u.z, u.y⟩ : V3 K), ?_, ?_, ?_, ?_⟩ <;> simp [envL, Tr.okS, Tr.panicG, V1.toList, V2.toList, V3.toList, V4.toList, P1.toList, P2.toList, P3.toList, Quat.toList, M2.toList, M3.toList, M4.toList]
theorem v3_swap_2_0_read (u : V3 K) :
    ∃ w : V3 K, t_v3_swap_elements_2_0 (envL u.toList) = .okS w.toList ∧
      t_v3_index_2 (envL w.toList) = .okS [u.x] ∧ t_v3_index_0 (envL w.toList) = .okS [u.z] ∧
      t_v3_swap_elements_2_0 (envL w.toList) = .okS u.toList := by
  refine ⟨(⟨u.z, u.y, u.x⟩ : V3 K), ?_, ?_, ?_, ?_⟩ <;> simp [envL, Tr.okS, Tr.panicG, V1.toList, V2.toList, V3.toList, V4.toList, P1.toList, P2.toList, P3.toList, Quat.toList, M2.toList, M3.toList, M4.toList]
theorem v3_swap_2_1_read (u : V3 K) :
    ∃ w : V3 K, t_v3_swap_elements_2_1 (envL u.toList) = .okS w.toList ∧
      t_v3_index_2 (envL w.toList) = .okS [u.y] ∧ t_v3_index_1 (envL w.toList) = .okS [u.z] ∧
      t_v3_swap_elements_2_1 (envL w.toList) = .okS u.toList := by
  refine ⟨(⟨u.x, u.z, u.y⟩ : V3 K), ?_, ?_, ?_, ?_⟩ <;> simp [envL, Tr.okS, Tr.panicG, V1.toList, V2.toList, V3.toList, V4.toList, P1.toList, P2.toList, P3.toList, Quat.toList, M2.toList, M3.toList, M4.toList]
theorem v3_swap_2_2_read (u : V3 K) :
    ∃ w : V3 K, t_v3_swap_elements_2_2 (envL u.toList) = .okS w.toList ∧
      t_v3_index_2 (envL w.toList) = .okS [u.z] ∧ t_v3_index_2 (envL w.toList) = .okS [u.z] ∧
      t_v3_swap_elements_2_2 (envL w.toList) = .okS u.toList := by
  refine ⟨(⟨u.x, u.y, u.z⟩ : V3 K), ?_, ?_, ?_, ?_⟩ <;> simp [envL, Tr.okS, Tr.panicG, V1.toList, V2.toList, V3.toList, V4.toList, P1.toList, P2.toList, P3.toList, Quat.toList, M2.toList, M3.toList, M4.toList]
theorem v3_swap_oob_panics (u : V3 K) :
    t_v3_swap_elements_3_0_oob (envL u.toList) = .panicG [] ∧
    t_v3_swap_elements_0_3_oob (envL u.toList) = .panicG [] := by
  constructor <;> simp [envL, Tr.okS, Tr.panicG, V1.toList, V2.toList, V3.toList, V4.toList, P1.toList, P2.toList, P3.toList, Quat.toList, M2.toList, M3.toList, M4.toList]

/-! ## `v4`: store, then read -/
/-- the store `v4[0] = a` as computed replaces exactly flattening position `0` -/
theorem v4_set_0_list (u : V4 K) (a : K) :
    t_v4_set_0 (envL (u.toList ++ [a])) = .okS (u.toList.set 0 a) := by
  simp [envL, Tr.okS, Tr.panicG, V1.toList, V2.toList, V3.toList, V4.toList, P1.toList, P2.toList, P3.toList, Quat.toList, M2.toList, M3.toList, M4.toList]
theorem v4_set_0_index_0 (u : V4 K) (a : K) :
    ∃ w : V4 K, t_v4_set_0 (envL (u.toList ++ [a])) = .okS w.toList ∧
      t_v4_index_0 (envL w.toList) = .okS [a] := by
  refine ⟨(⟨a, u.y, u.z, u.w⟩ : V4 K), ?_, ?_⟩ <;> simp [envL, Tr.okS, Tr.panicG, V1.toList, V2.toList, V3.toList, V4.toList, P1.toList, P2.toList, P3.toList, Quat.toList, M2.toList, M3.toList, M4.toList]
theorem v4_set_0_index_1 (u : V4 K) (a : K) :
    ∃ w : V4 K, t_v4_set_0 (envL (u.toList ++ [a])) = .okS w.toList ∧
      t_v4_index_1 (envL w.toList) = .okS [u.y] := by
  refine ⟨(⟨a, u.y, u.z, u.w⟩ : V4 K), ?_, ?_⟩ <;> simp [envL, Tr.okS, Tr.panicG, V1.toList, V2.toList, V3.toList, V4.toList, P1.toList, P2.toList, P3.toList, Quat.toList, M2.toList, M3.toList, M4.toList]
theorem v4_set_0_index_2 (u : V4 K) (a : K) :
    ∃ w : V4 K, t_v4_set_0 (envL (u.toList ++ [a])) = .okS w.toList ∧
      t_v4_index_2 (envL w.toList) = .okS [u.z] := by
  refine ⟨(⟨a, u.y, u.z, u.w⟩ : V4 K), ?_, ?_⟩ <;> simp [envL, Tr.okS, Tr.panicG, V1.toList, V2.toList, V3.toList, V4.toList, P1.toList, P2.toList, P3.toList, Quat.toList, M2.toList, M3.toList, M4.toList]
theorem v4_set_0_index_3 (u : V4 K) (a : K) :
    ∃ w : V4 K, t_v4_set_0 (envL (u.toList ++ [a])) = .okS w.toList ∧
      t_v4_index_3 (envL w.toList) = .okS [u.w] := by
  refine ⟨(⟨a, u.y, u.z, u.w⟩ : V4 K), ?_, ?_⟩ <;> simp [envL, Tr.okS, Tr.panicG, V1.toList, V2.toList, V3.toList, V4.toList, P1.toList, P2.toList, P3.toList, Quat.toList, M2.toList, M3.toList, M4.toList]
/-- the store `v4[1] = a` as computed replaces exactly flattening position `1` -/
theorem v4_set_1_list (u : V4 K) (a : K) :
    t_v4_set_1 (envL (u.toList ++ [a])) = .okS (u.toList.set 1 a) := by
  simp [envL, Tr.okS, Tr.panicG, V1.toList, V2.toList, V3.toList, V4.toList, P1.toList, P2.toList, P3.toList, Quat.toList, M2.toList, M3.toList, M4.toList]
theorem v4_set_1_index_0 (u : V4 K) (a : K) :
    ∃ w : V4 K, t_v4_set_1 (envL (u.toList ++ [a])) = .okS w.toList ∧
      t_v4_index_0 (envL w.toList) = .okS [u.x] := by
  refine ⟨(⟨u.x, a, u.z, u.w⟩ : V4 K), ?_, ?_⟩ <;> simp [envL, Tr.okS, Tr.panicG, V1.toList, V2.toList, V3.toList, V4.toList, P1.toList, P2.toList, P3.toList, Quat.toList, M2.toList, M3.toList, M4.toList]
theorem v4_set_1_index_1 (u : V4 K) (a : K) :
    ∃ w : V4 K, t_v4_set_1 (envL (u.toList ++ [a])) = .okS w.toList ∧
      t_v4_index_1 (envL w.toList) = .okS [a] := by
  refine ⟨(⟨u.x, a, u.z, u.w⟩ : V4 K), ?_, ?_⟩ <;> simp [envL, Tr.okS, Tr.panicG, V1.toList, V2.toList, V3.toList, V4.toList, P1.toList, P2.toList, P3.toList, Quat.toList, M2.toList, M3.toList, M4.toList]
theorem v4_set_1_index_2 (u : V4 K) (a : K) :
    ∃ w : V4 K, t_v4_set_1 (envL (u.toList ++ [a])) = .okS w.toList ∧
      t_v4_index_2 (envL w.toList) = .okS [u.z] := by
  refine ⟨(⟨u.x, a, u.z, u.w⟩ : V4 K), ?_, ?_⟩ <;> simp [envL, Tr.okS, Tr.panicG, V1.toList, V2.toList, V3.toList, V4.toList, P1.toList, P2.toList, P3.toList, Quat.toList, M2.toList, M3.toList, M4.toList]
theorem v4_set_1_index_3 (u : V4 K) (a : K) :
    ∃ w : V4 K, t_v4_set_1 (envL (u.toList ++ [a])) = .okS w.toList ∧
      t_v4_index_3 (envL w.toList) = .okS [u.w] := by
  refine ⟨(⟨u.x, a, u.z, u.w⟩ : V4 K), ?_, ?_⟩ <;> simp [envL, Tr.okS, Tr.panicG, V1.toList, V2.toList, V3.toList, V4.toList, P1.toList, P2.toList, P3.toList, Quat.toList, M2.toList, M3.toList, M4.toList]
/-- the store `v4[2] = a` as computed replaces exactly flattening position `2` -/
theorem v4_set_2_list (u : V4 K) (a : K) :
    t_v4_set_2 (envL (u.toList ++ [a])) = .okS (u.toList.set 2 a) := by
  simp [envL, Tr.okS, Tr.panicG, V1.toList, V2.toList, V3.toList, V4.toList, P1.toList, P2.toList, P3.toList, Quat.toList, M2.toList, M3.toList, M4.toList]
theorem v4_set_2_index_0 (u : V4 K) (a : K) :
    ∃ w : V4 K, t_v4_set_2 (envL (u.toList ++ [a])) = .okS w.toList ∧
      t_v4_index_0 (envL w.toList) = .okS [u.x] := by
  refine ⟨(⟨u.x, u.y, a, u.w⟩ : V4 K), ?_, ?_⟩ <;> simp [envL, Tr.okS, Tr.panicG, V1.toList, V2.toList, V3.toList, V4.toList, P1.toList, P2.toList, P3.toList, Quat.toList, M2.toList, M3.toList, M4.toList]
theorem v4_set_2_index_1 (u : V4 K) (a : K) :
    ∃ w : V4 K, t_v4_set_2 (envL (u.toList ++ [a])) = .okS w.toList ∧
      t_v4_index_1 (envL w.toList) = .okS [u.y] := by
  refine ⟨(⟨u.x, u.y, a, u.w⟩ : V4 K), ?_, ?_⟩ <;> simp [envL, Tr.okS, Tr.panicG, V1.toList, V2.toList, V3.toList, V4.toList, P1.toList, P2.toList, P3.toList, Quat.toList, M2.toList, M3.toList, M4.toList]
theorem v4_set_2_index_2 (u : V4 K) (a : K) :
    ∃ w : V4 K, t_v4_set_2 (envL (u.toList ++ [a])) = .okS w.toList ∧
      t_v4_index_2 (envL w.toList) = .okS [a] := by
  refine ⟨(⟨u.x, u.y, a, u.w⟩ : V4 K), ?_, ?_⟩ <;> simp [envL, Tr.okS, Tr.panicG, V1.toList, V2.toList, V3.toList, V4.toList, P1.toList, P2.toList, P3.toList, Quat.toList, M2.toList, M3.toList, M4.toList]
theorem v4_set_2_index_3 (u : V4 K) (a : K) :
    ∃ w : V4 K, t_v4_set_2 (envL (u.toList ++ [a])) = .okS w.toList ∧
      t_v4_index_3 (envL w.toList) = .okS [u.w] := by
  refine ⟨(⟨u.x, u.y, a, u.w⟩ : V4 K), ?_, ?_⟩ <;> simp [envL, Tr.okS, Tr.panicG, V1.toList, V2.toList, V3.toList, V4.toList, P1.toList, P2.toList, P3.toList, Quat.toList, M2.toList, M3.toList, M4.toList]
/-- the store `v4[3] = a` as computed replaces exactly flattening position `3` -/
theorem v4_set_3_list (u : V4 K) (a : K) :
    t_v4_set_3 (envL (u.toList ++ [a])) = .okS (u.toList.set 3 a) := by
  simp [envL, Tr.okS, Tr.panicG, V1.toList, V2.toList, V3.toList, V4.toList, P1.toList, P2.toList, P3.toList, Quat.toList, M2.toList, M3.toList, M4.toList]
theorem v4_set_3_index_0 (u : V4 K) (a : K) :
    ∃ w : V4 K, t_v4_set_3 (envL (u.toList ++ [a])) = .okS w.toList ∧
      t_v4_index_0 (envL w.toList) = .okS [u.x] := by
  refine ⟨(⟨u.x, u.y, u.z, a⟩ : V4 K), ?_, ?_⟩ <;> simp [envL, Tr.okS, Tr.panicG, V1.toList, V2.toList, V3.toList, V4.toList, P1.toList, P2.toList, P3.toList, Quat.toList, M2.toList, M3.toList, M4.toList]
theorem v4_set_3_index_1 (u : V4 K) (a : K) :
    ∃ w : V4 K, t_v4_set_3 (envL (u.toList ++ [a])) = .okS w.toList ∧
      t_v4_index_1 (envL w.toList) = .okS [u.y] := by
  refine ⟨(⟨u.x, u.y, u.z, a⟩ : V4 K), ?_, ?_⟩ <;> simp [envL, Tr.okS, Tr.panicG, V1.toList, V2.toList, V3.toList, V4.toList, P1.toList, P2.toList, P3.toList, Quat.toList, M2.toList, M3.toList, M4.toList]
theorem v4_set_3_index_2 (u : V4 K) (a : K) :
    ∃ w : V4 K, t_v4_set_3 (envL (u.toList ++ [a])) = .okS w.toList ∧
      t_v4_index_2 (envL w.toList) = .okS [u.z] := by
  refine ⟨(⟨u.x, u.y, u.z, a⟩ : V4 K), ?_, ?_⟩ <;> simp [envL, Tr.okS, Tr.panicG, V1.toList, V2.toList, V3.toList, V4.toList, P1.toList, P2.toList, P3.toList, Quat.toList, M2.toList, M3.toList, M4.toList]
theorem v4_set_3_index_3 (u : V4 K) (a : K) :
    ∃ w : V4 K, t_v4_set_3 (envL (u.toList ++ [a])) = .okS w.toList ∧
      t_v4_index_3 (envL w.toList) = .okS [a] := by
  refine ⟨(⟨u.x, u.y, u.z, a⟩ : V4 K), ?_, ?_⟩ <;> simp [envL, Tr.okS, Tr.panicG, V1.toList, V2.toList, V3.toList, V4.toList, P1.toList, P2.toList, P3.toList, Quat.toList, M2.toList, M3.toList, M4.toList]
theorem v4_set_oob_panics (u : V4 K) (a : K) :
    t_v4_set_4_oob (envL (u.toList ++ [a])) = .panicG [] := by
  simp [envL, Tr.okS, Tr.panicG, V1.toList, V2.toList, V3.toList, V4.toList, P1.toList, P2.toList, P3.toList, Quat.toList, M2.toList, M3.toList, M4.toList]

/-! ## `v4`: `swap_elements`, then read; twice -/
theorem v4_swap_0_0_read (u : V4 K) :
    ∃ w : V4 K, t_v4_swap_elements_0_0 (envL u.toList) = .okS w.toList ∧
      t_v4_index_0 (envL w.toList) = .okS [u.x] ∧ t_v4_index_0 (envL w.toList) = .okS [u.x] ∧
      t_v4_swap_elements_0_0 (envL w.toList) = .okS u.toList := by
  refine ⟨(⟨u.x, u.y, u.z, u.w⟩ : V4 K), ?_, ?_, ?_, ?_⟩ <;> simp [envL, Tr.okS, Tr.panicG, V1.toList, V2.toList, V3.toList, V4.toList, P1.toList, P2.toList, P3.toList, Quat.toList, M2.toList, M3.toList, M4.toList]
theorem v4_swap_0_1_read (u : V4 K) :
    ∃ w : V4 K, t_v4_swap_elements_0_1 (envL u.toList) = .okS w.toList ∧
      t_v4_index_0 (envL w.toList) = .okS [u.y] ∧ t_v4_index_1 (envL w.toList) = .okS [u.x] ∧
      t_v4_swap_elements_0_1 (envL w.toList) = .okS u.toList := by
  refine ⟨(⟨u.y, u.x, u.z, u.w⟩ : V4 K), ?_, ?_, ?_, ?_⟩ <;> simp [envL, Tr.okS, Tr.panicG, V1.toList, V2.toList, V3.toList, V4.toList, P1.toList, P2.toList, P3.toList, Quat.toList, M2.toList, M3.toList, M4.toList]
theorem v4_swap_0_2_read (u : V4 K) :
    ∃ w : V4 K, t_v4_swap_elements_0_2 (envL u.toList) = .okS w.toList ∧
      t_v4_index_0 (envL w.toList) = .okS [u.z] ∧ t_v4_index_2 (envL w.toList) = .okS [u.x] ∧
      t_v4_swap_elements_0_2 (envL w.toList) = .okS u.toList := by
  refine ⟨(⟨u.z, u.y, u.x, u.w⟩ : V4 K), ?_, ?_, ?_, ?_⟩ <;> simp [envL, Tr.okS, Tr.panicG, V1.toList, V2.toList, V3.toList, V4.toList, P1.toList, P2.toList, P3.toList, Quat.toList, M2.toList, M3.toList, M4.toList]
theorem v4_swap_0_3_read (u : V4 K) :
    ∃ w : V4 K, t_v4_swap_elements_0_3 (envL u.toList) = .okS w.toList ∧
      t_v4_index_0 (envL w.toList) = .okS [u.w] ∧ t_v4_index_3 (envL w.toList) = .okS [u.x] ∧
      t_v4_swap_elements_0_3 (envL w.toList) = .okS u.toList := by
  refine ⟨(⟨u.w, u.y, u.z, u.x⟩ : V4 K), ?_, ?_, ?_, ?_⟩ <;> simp [envL, Tr.okS, Tr.panicG, V1.toList, V2.toList, V3.toList, V4.toList, P1.toList, P2.toList, P3.toList, Quat.toList, M2.toList, M3.toList, M4.toList]
theorem v4_swap_1_0_read (u : V4 K) :
    ∃ w : V4 K, t_v4_swap_elements_1_0 (envL u.toList) = .okS w.toList ∧
      t_v4_index_1 (envL w.toList) = .okS [u.x] ∧ t_v4_index_0 (envL w.toList) = .okS [u.y] ∧
      t_v4_swap_elements_1_0 (envL w.toList) = .okS u.toList := by
  refine ⟨(⟨u.y, u.x, u.z, u.w⟩ : V4 K), ?_, ?_, ?_, ?_⟩ <;> simp [envL, Tr.okS, Tr.panicG, V1.toList, V2.toList, V3.toList, V4.toList, P1.toList, P2.toList, P3.toList, Quat.toList, M2.toList, M3.toList, M4.toList]
theorem v4_swap_1_1_read (u : V4 K) :
    ∃ w : V4 K, t_v4_swap_elements_1_1 (envL u.toList) = .okS w.toList ∧
      t_v4_index_1 (envL w.toList) = .okS [u.y] ∧ t_v4_index_1 (envL w.toList) = .okS [u.y] ∧
      t_v4_swap_elements_1_1 (envL w.toList) = .okS u.toList := by
  refine ⟨(⟨u.x, u.y, u.z, u.w⟩ : V4 K), ?_, ?_, ?_, ?_⟩ <;> simp [envL, Tr.okS, Tr.panicG, V1.toList, V2.toList, V3.toList, V4.toList, P1.toList, P2.toList, P3.toList, Quat.toList, M2.toList, M3.toList, M4.toList]
theorem v4_swap_1_2_read (u : V4 K) :
    ∃ w : V4 K, t_v4_swap_elements_1_2 (envL u.toList) = .okS w.toList ∧
      t_v4_index_1 (envL w.toList) = .okS [u.z] ∧ t_v4_index_2 (envL w.toList) = .okS [u.y] ∧
      t_v4_swap_elements_1_2 (envL w.toList) = .okS u.toList := by
  refine ⟨(⟨u.x, u.z, u.y, u.w⟩ : V4 K), ?_, ?_, ?_, ?_⟩ <;> simp [envL, Tr.okS, Tr.panicG, V1.toList, V2.toList, V3.toList, V4.toList, P1.toList, P2.toList, P3.toList, Quat.toList, M2.toList, M3.toList, M4.toList]
theorem v4_swap_1_3_read (u : V4 K) :
    ∃ w : V4 K, t_v4_swap_elements_1_3 (envL u.toList) = .okS w.toList ∧
      t_v4_index_1 (envL w.toList) = .okS [u.w] ∧ t_v4_index_3 (envL w.toList) = .okS [u.y] ∧
      t_v4_swap_elements_1_3 (envL w.toList) = .okS u.toList := by
  refine ⟨(⟨u.x, u.w, u.z, u.y⟩ : V4 K), ?_, ?_, ?_, ?_⟩ <;> simp [envL, Tr.okS, Tr.panicG, V1.toList, V2.toList, V3.toList, V4.toList, P1.toList, P2.toList, P3.toList, Quat.toList, M2.toList, M3.toList, M4.toList]
theorem v4_swap_2_0_read (u : V4 K) :
    ∃ w : V4 K, t_v4_swap_elements_2_0 (envL u.toList) = .okS w.toList ∧
      t_v4_index_2 (envL w.toList) = .okS [u.x] ∧ t_v4_index_0 (envL w.toList) = .okS [u.z] ∧
      t_v4_swap_elements_2_0 (envL w.toList) = .okS u.toList := by
  refine ⟨(⟨u.z, u.y, u.x, u.w⟩ : V4 K), ?_, ?_, ?_, ?_⟩ <;> simp [envL, Tr.okS, Tr.panicG, V1.toList, V2.toList, V3.toList, V4.toList, P1.toList, P2.toList, P3.toList, Quat.toList, M2.toList, M3.toList, M4.toList]
theorem v4_swap_2_1_read (u : V4 K) :
    ∃ w : V4 K, t_v4_swap_elements_2_1 (envL u.toList) = .okS w.toList ∧
      t_v4_index_2 (envL w.toList) = .okS [u.y] ∧ t_v4_index_1 (envL w.toList) = .okS [u.z] ∧
      t_v4_swap_elements_2_1 (envL w.toList) = .okS u.toList := by
  refine ⟨(⟨u.x, u.z, u.y, u.w⟩ : V4 K), ?_, ?_, ?_, ?_⟩ <;> simp [envL, Tr.okS, Tr.panicG, V1.toList, V2.toList, V3.toList, V4.toList, P1.toList, P2.toList, P3.toList, Quat.toList, M2.toList, M3.toList, M4.toList]
theorem v4_swap_2_2_read (u : V4 K) :
    ∃ w : V4 K, t_v4_swap_elements_2_2 (envL u.toList) = .okS w.toList ∧
      t_v4_index_2 (envL w.toList) = .okS [u.z] ∧ t_v4_index_2 (envL w.toList) = .okS [u.z] ∧
      t_v4_swap_elements_2_2 (envL w.toList) = .okS u.toList := by
  refine ⟨(⟨u.x, u.y, u.z, u.w⟩ : V4 K), ?_, ?_, ?_, ?_⟩ <;> simp [envL, Tr.okS, Tr.panicG, V1.toList, V2.toList, V3.toList, V4.toList, P1.toList, P2.toList, P3.toList, Quat.toList, M2.toList, M3.toList, M4.toList]
theorem v4_swap_2_3_read (u : V4 K) :
    ∃ w : V4 K, t_v4_swap_elements_2_3 (envL u.toList) = .okS w.toList ∧
      t_v4_index_2 (envL w.toList) = .okS [u.w] ∧ t_v4_index_3 (envL w.toList) = .okS [u.z] ∧
      t_v4_swap_elements_2_3 (envL w.toList) = .okS u.toList := by
  refine ⟨(⟨u.x, u.y, u.w, u.z⟩ : V4 K), ?_, ?_, ?_, ?_⟩ <;> simp [envL, Tr.okS, Tr.panicG, V1.toList, V2.toList, V3.toList, V4.toList, P1.toList, P2.toList, P3.toList, Quat.toList, M2.toList, M3.toList, M4.toList]
theorem v4_swap_3_0_read (u : V4 K) :
    ∃ w : V4 K, t_v4_swap_elements_3_0 (envL u.toList) = .okS w.toList ∧
      t_v4_index_3 (envL w.toList) = .okS [u.x] ∧ t_v4_index_0 (envL w.toList) = .okS [u.w] ∧
      t_v4_swap_elements_3_0 (envL w.toList) = .okS u.toList := by
  refine ⟨(⟨u.w, u.y, u.z, u.x⟩ : V4 K), ?_, ?_, ?_, ?_⟩ <;> simp [envL, Tr.okS, Tr.panicG, V1.toList, V2.toList, V3.toList, V4.toList, P1.toList, P2.toList, P3.toList, Quat.toList, M2.toList, M3.toList, M4.toList]
theorem v4_swap_3_1_read (u : V4 K) :
    ∃ w : V4 K, t_v4_swap_elements_3_1 (envL u.toList) = .okS w.toList ∧
      t_v4_index_3 (envL w.toList) = .okS [u.y] ∧ t_v4_index_1 (envL w.toList) = .okS [u.w] ∧
      t_v4_swap_elements_3_1 (envL w.toList) = .okS u.toList := by
  refine ⟨(⟨u.x, u.w, u.z, u.y⟩ : V4 K), ?_, ?_, ?_, ?_⟩ <;> simp [envL, Tr.okS, Tr.panicG, V1.toList, V2.toList, V3.toList, V4.toList, P1.toList, P2.toList, P3.toList, Quat.toList, M2.toList, M3.toList, M4.toList]
theorem v4_swap_3_2_read (u : V4 K) :
    ∃ w : V4 K, t_v4_swap_elements_3_2 (envL u.toList) = .okS w.toList ∧
      t_v4_index_3 (envL w.toList) = .okS [u.z] ∧ t_v4_index_2 (envL w.toList) = .okS [u.w] ∧
      t_v4_swap_elements_3_2 (envL w.toList) = .okS u.toList := by
  refine ⟨(⟨u.x, u.y, u.w, u.z⟩ : V4 K), ?_, ?_, ?_, ?_⟩ <;> simp [envL, Tr.okS, Tr.panicG, V1.toList, V2.toList, V3.toList, V4.toList, P1.toList, P2.toList, P3.toList, Quat.toList, M2.toList, M3.toList, M4.toList]
theorem v4_swap_3_3_read (u : V4 K) :
    ∃ w : V4 K, t_v4_swap_elements_3_3 (envL u.toList) = .okS w.toList ∧
      t_v4_index_3 (envL w.toList) = .okS [u.w] ∧ t_v4_index_3 (envL w.toList) = .okS [u.w] ∧
      t_v4_swap_elements_3_3 (envL w.toList) = .okS u.toList := by
  refine ⟨(⟨u.x, u.y, u.z, u.w⟩ : V4 K), ?_, ?_, ?_, ?_⟩ <;> simp [envL, Tr.okS, Tr.panicG, V1.toList, V2.toList, V3.toList, V4.toList, P1.toList, P2.toList, P3.toList, Quat.toList, M2.toList, M3.toList, M4.toList]
theorem v4_swap_oob_panics (u : V4 K) :
    t_v4_swap_elements_4_0_oob (envL u.toList) = .panicG [] ∧
    t_v4_swap_elements_0_4_oob (envL u.toList) = .panicG [] := by
  constructor <;> simp [envL, Tr.okS, Tr.panicG, V1.toList, V2.toList, V3.toList, V4.toList, P1.toList, P2.toList, P3.toList, Quat.toList, M2.toList, M3.toList, M4.toList]

/-! ## `p1`: store, then read -/
/-- the store `p1[0] = a` as computed replaces exactly flattening position `0` -/
theorem p1_set_0_list (u : P1 K) (a : K) :
    t_p1_set_0 (envL (u.toList ++ [a])) = .okS (u.toList.set 0 a) := by
  simp [envL, Tr.okS, Tr.panicG, V1.toList, V2.toList, V3.toList, V4.toList, P1.toList, P2.toList, P3.toList, Quat.toList, M2.toList, M3.toList, M4.toList]
theorem p1_set_0_index_0 (u : P1 K) (a : K) :
    ∃ w : P1 K, t_p1_set_0 (envL (u.toList ++ [a])) = .okS w.toList ∧
      t_p1_index_0 (envL w.toList) = .okS [a] := by
  refine ⟨(⟨a⟩ : P1 K), ?_, ?_⟩ <;> simp [envL, Tr.okS, Tr.panicG, V1.toList, V2.toList, V3.toList, V4.toList, P1.toList, P2.toList, P3.toList, Quat.toList, M2.toList, M3.toList, M4.toList]
theorem p1_set_oob_panics (u : P1 K) (a : K) :
    t_p1_set_1_oob (envL (u.toList ++ [a])) = .panicG [] := by
  simp [envL, Tr.okS, Tr.panicG, V1.toList, V2.toList, V3.toList, V4.toList, P1.toList, P2.toList, P3.toList, Quat.toList, M2.toList, M3.toList, M4.toList]

/-! ## `p1`: `swap_elements`, then read; twice -/
theorem p1_swap_0_0_read (u : P1 K) :
    ∃ w : P1 K, t_p1_swap_elements_0_0 (envL u.toList) = .okS w.toList ∧
      t_p1_index_0 (envL w.toList) = .okS [u.x] ∧ t_p1_index_0 (envL w.toList) = .okS [u.x] ∧
      t_p1_swap_elements_0_0 (envL w.toList) = .okS u.toList := by
  refine ⟨(⟨u.x⟩ : P1 K), ?_, ?_, ?_, ?_⟩ <;> simp [envL, Tr.okS, Tr.panicG, V1.toList, V2.toList, V3.toList, V4.toList, P1.toList, P2.toList, P3.toList, Quat.toList, M2.toList, M3.toList, M4.toList]
theorem p1_swap_oob_panics (u : P1 K) :
    t_p1_swap_elements_1_0_oob (envL u.toList) = .panicG [] ∧
    t_p1_swap_elements_0_1_oob (envL u.toList) = .panicG [] := by
  constructor <;> simp [envL, Tr.okS, Tr.panicG, V1.toList, V2.toList, V3.toList, V4.toList, P1.toList, P2.toList, P3.toList, Quat.toList, M2.toList, M3.toList, M4.toList]

/-! ## `p2`: store, then read -/
/-- the store `p2[0] = a` as computed replaces exactly flattening position `0` -/
theorem p2_set_0_list (u : P2 K) (a : K) :
    t_p2_set_0 (envL (u.toList ++ [a])) = .okS (u.toList.set 0 a) := by
  simp [envL, Tr.okS, Tr.panicG, V1.toList, V2.toList, V3.toList, V4.toList, P1.toList, P2.toList, P3.toList, Quat.toList, M2.toList, M3.toList, M4.toList]
theorem p2_set_0_index_0 (u : P2 K) (a : K) :
    ∃ w : P2 K, t_p2_set_0 (envL (u.toList ++ [a])) = .okS w.toList ∧
      t_p2_index_0 (envL w.toList) = .okS [a] := by
  refine ⟨(⟨a, u.y⟩ : P2 K), ?_, ?_⟩ <;> simp [envL, Tr.okS, Tr.panicG, V1.toList, V2.toList, V3.toList, V4.toList, P1.toList, P2.toList, P3.toList, Quat.toList, M2.toList, M3.toList, M4.toList]
theorem p2_set_0_index_1 (u : P2 K) (a : K) :
    ∃ w : P2 K, t_p2_set_0 (envL (u.toList ++ [a])) = .okS w.toList ∧
      t_p2_index_1 (envL w.toList) = .okS [u.y] := by
  refine ⟨(⟨a, u.y⟩ : P2 K), ?_, ?_⟩ <;> simp [envL, Tr.okS, Tr.panicG, V1.toList, V2.toList, V3.toList, V4.toList, P1.toList, P2.toList, P3.toList, Quat.toList, M2.toList, M3.toList, M4.toList]
/-- the store `p2[1] = a` as computed replaces exactly flattening position `1` -/
theorem p2_set_1_list (u : P2 K) (a : K) :
    t_p2_set_1 (envL (u.toList ++ [a])) = .okS (u.toList.set 1 a) := by
  simp [envL, Tr.okS, Tr.panicG, V1.toList, V2.toList, V3.toList, V4.toList, P1.toList, P2.toList, P3.toList, Quat.toList, M2.toList, M3.toList, M4.toList]
theorem p2_set_1_index_0 (u : P2 K) (a : K) :
    ∃ w : P2 K, t_p2_set_1 (envL (u.toList ++ [a])) = .okS w.toList ∧
      t_p2_index_0 (envL w.toList) = .okS [u.x] := by
  refine ⟨(⟨u.x, a⟩ : P2 K), ?_, ?_⟩ <;> simp [envL, Tr.okS, Tr.panicG, V1.toList, V2.toList, V3.toList, V4.toList, P1.toList, P2.toList, P3.toList, Quat.toList, M2.toList, M3.toList, M4.toList]
theorem p2_set_1_index_1 (u : P2 K) (a : K) :
    ∃ w : P2 K, t_p2_set_1 (envL (u.toList ++ [a])) = .okS w.toList ∧
      t_p2_index_1 (envL w.toList) = .okS [a] := by
  refine ⟨(⟨u.x, a⟩ : P2 K), ?_, ?_⟩ <;> simp [envL, Tr.okS, Tr.panicG, V1.toList, V2.toList, V3.toList, V4.toList, P1.toList, P2.toList, P3.toList, Quat.toList, M2.toList, M3.toList, M4.toList]
theorem p2_set_oob_panics (u : P2 K) (a : K) :
    t_p2_set_2_oob (envL (u.toList ++ [a])) = .panicG [] := by
  simp [envL, Tr.okS, Tr.panicG, V1.toList, V2.toList, V3.toList, V4.toList, P1.toList, P2.toList, P3.toList, Quat.toList, M2.toList, M3.toList, M4.toList]

/-! ## `p2`: `swap_elements`, then read; twice -/
theorem p2_swap_0_0_read (u : P2 K) :
    ∃ w : P2 K, t_p2_swap_elements_0_0 (envL u.toList) = .okS w.toList ∧
      t_p2_index_0 (envL w.toList) = .okS [u.x] ∧ t_p2_index_0 (envL w.toList) = .okS [u.x] ∧
      t_p2_swap_elements_0_0 (envL w.toList) = .okS u.toList := by
  refine ⟨(⟨u.x, u.y⟩ : P2 K), ?_, ?_, ?_, ?_⟩ <;> simp [envL, Tr.okS, Tr.panicG, V1.toList, V2.toList, V3.toList, V4.toList, P1.toList, P2.toList, P3.toList, Quat.toList, M2.toList, M3.toList, M4.toList]
theorem p2_swap_0_1_read (u : P2 K) :
    ∃ w : P2 K, t_p2_swap_elements_0_1 (envL u.toList) = .okS w.toList ∧
      t_p2_index_0 (envL w.toList) = .okS [u.y] ∧ t_p2_index_1 (envL w.toList) = .okS [u.x] ∧
      t_p2_swap_elements_0_1 (envL w.toList) = .okS u.toList := by
  refine ⟨(⟨u.y, u.x⟩ : P2 K), ?_, ?_, ?_, ?_⟩ <;> simp [envL, Tr.okS, Tr.panicG, V1.toList, V2.toList, V3.toList, V4.toList, P1.toList, P2.toList, P3.toList, Quat.toList, M2.toList, M3.toList, M4.toList]
theorem p2_swap_1_0_read (u : P2 K) :
    ∃ w : P2 K, t_p2_swap_elements_1_0 (envL u.toList) = .okS w.toList ∧
      t_p2_index_1 (envL w.toList) = .okS [u.x] ∧ t_p2_index_0 (envL w.toList) = .okS [u.y] ∧
      t_p2_swap_elements_1_0 (envL w.toList) = .okS u.toList := by
  refine ⟨(⟨u.y, u.x⟩ : P2 K), ?_, ?_, ?_, ?_⟩ <;> simp [envL, Tr.okS, Tr.panicG, V1.toList, V2.toList, V3.toList, V4.toList, P1.toList, P2.toList, P3.toList, Quat.toList, M2.toList, M3.toList, M4.toList]
theorem p2_swap_1_1_read (u : P2 K) :
    ∃ w : P2 K, t_p2_swap_elements_1_1 (envL u.toList) = .okS w.toList ∧
      t_p2_index_1 (envL w.toList) = .okS [u.y] ∧ t_p2_index_1 (envL w.toList) = .okS [u.y] ∧
      t_p2_swap_elements_1_1 (envL w.toList) = .okS u.toList := by
  refine ⟨(⟨u.x, u.y⟩ : P2 K), ?_, ?_, ?_, ?_⟩ <;> simp [envL, Tr.okS, Tr.panicG, V1.toList, V2.toList, V3.toList, V4.toList, P1.toList, P2.toList, P3.toList, Quat.toList, M2.toList, M3.toList, M4.toList]
theorem p2_swap_oob_panics (u : P2 K) :
    t_p2_swap_elements_2_0_oob (envL u.toList) = .panicG [] ∧
    t_p2_swap_elements_0_2_oob (envL u.toList) = .panicG [] := by
  constructor <;> simp [envL, Tr.okS, Tr.panicG, V1.toList, V2.toList, V3.toList, V4.toList, P1.toList, P2.toList, P3.toList, Quat.toList, M2.toList, M3.toList, M4.toList]

/-! ## `p3`: store, then read -/
/-- the store `p3[0] = a` as computed replaces exactly flattening position `0` -/
theorem p3_set_0_list (u : P3 K) (a : K) :
    t_p3_set_0 (envL (u.toList ++ [a])) = .okS (u.toList.set 0 a) := by
  simp [envL, Tr.okS, Tr.panicG, V1.toList, V2.toList, V3.toList, V4.toList, P1.toList, P2.toList, P3.toList, Quat.toList, M2.toList, M3.toList, M4.toList]
theorem p3_set_0_index_0 (u : P3 K) (a : K) :
    ∃ w : P3 K, t_p3_set_0 (envL (u.toList ++ [a])) = .okS w.toList ∧
      t_p3_index_0 (envL w.toList) = .okS [a] := by
  refine ⟨(⟨a, u.y, u.z⟩ : P3 K), ?_, ?_⟩ <;> simp [envL, Tr.okS, Tr.panicG, V1.toList, V2.toList, V3.toList, V4.toList, P1.toList, P2.toList, P3.toList, Quat.toList, M2.toList, M3.toList, M4.toList]
theorem p3_set_0_index_1 (u : P3 K) (a : K) :
    ∃ w : P3 K, t_p3_set_0 (envL (u.toList ++ [a])) = .okS w.toList ∧
      t_p3_index_1 (envL w.toList) = .okS [u.y] := by
  refine ⟨(⟨a, u.y, u.z⟩ : P3 K), ?_, ?_⟩ <;> simp [envL, Tr.okS, Tr.panicG, V1.toList, V2.toList, V3.toList, V4.toList, P1.toList, P2.toList, P3.toList, Quat.toList, M2.toList, M3.toList, M4.toList]
theorem p3_set_0_index_2 (u : P3 K) (a : K) :
    ∃ w : P3 K, t_p3_set_0 (envL (u.toList ++ [a])) = .okS w.toList ∧
      t_p3_index_2 (envL w.toList) = .okS [u.z] := by
  refine ⟨(⟨a, u.y, u.z⟩ : P3 K), ?_, ?_⟩ <;> simp [envL, Tr.okS, Tr.panicG, V1.toList, V2.toList, V3.toList, V4.toList, P1.toList, P2.toList, P3.toList, Quat.toList, M2.toList, M3.toList, M4.toList]
/-- the store `p3[1] = a` as computed replaces exactly flattening position `1` -/
theorem p3_set_1_list (u : P3 K) (a : K) :
    t_p3_set_1 (envL (u.toList ++ [a])) = .okS (u.toList.set 1 a) := by
  simp [envL, Tr.okS, Tr.panicG, V1.toList, V2.toList, V3.toList, V4.toList, P1.toList, P2.toList, P3.toList, Quat.toList, M2.toList, M3.toList, M4.toList]
theorem p3_set_1_index_0 (u : P3 K) (a : K) :
    ∃ w : P3 K, t_p3_set_1 (envL (u.toList ++ [a])) = .okS w.toList ∧
      t_p3_index_0 (envL w.toList) = .okS [u.x] := by
  refine ⟨(⟨u.x, a, u.z⟩ : P3 K), ?_, ?_⟩ <;> simp [envL, Tr.okS, Tr.panicG, V1.toList, V2.toList, V3.toList, V4.toList, P1.toList, P2.toList, P3.toList, Quat.toList, M2.toList, M3.toList, M4.toList]
theorem p3_set_1_index_1 (u : P3 K) (a : K) :
    ∃ w : P3 K, t_p3_set_1 (envL (u.toList ++ [a])) = .okS w.toList ∧
      t_p3_index_1 (envL w.toList) = .okS [a] := by
  refine ⟨(⟨u.x, a, u.z⟩ : P3 K), ?_, ?_⟩ <;> simp [envL, Tr.okS, Tr.panicG, V1.toList, V2.toList, V3.toList, V4.toList, P1.toList, P2.toList, P3.toList, Quat.toList, M2.toList, M3.toList, M4.toList]
theorem p3_set_1_index_2 (u : P3 K) (a : K) :
    ∃ w : P3 K, t_p3_set_1 (envL (u.toList ++ [a])) = .okS w.toList ∧
      t_p3_index_2 (envL w.toList) = .okS [u.z] := by
  refine ⟨(⟨u.x, a, u.z⟩ : P3 K), ?_, ?_⟩ <;> simp [envL, Tr.okS, Tr.panicG, V1.toList, V2.toList, V3.toList, V4.toList, P1.toList, P2.toList, P3.toList, Quat.toList, M2.toList, M3.toList, M4.toList]
/-- the store `p3[2] = a` as computed replaces exactly flattening position `2` -/
theorem p3_set_2_list (u : P3 K) (a : K) :
    t_p3_set_2 (envL (u.toList ++ [a])) = .okS (u.toList.set 2 a) := by
  simp [envL, Tr.okS, Tr.panicG, V1.toList, V2.toList, V3.toList, V4.toList, P1.toList, P2.toList, P3.toList, Quat.toList, M2.toList, M3.toList, M4.toList]
theorem p3_set_2_index_0 (u : P3 K) (a : K) :
    ∃ w : P3 K, t_p3_set_2 (envL (u.toList ++ [a])) = .okS w.toList ∧
      t_p3_index_0 (envL w.toList) = .okS [u.x] := by
  refine ⟨(⟨u.x, u.y, a⟩ : P3 K), ?_, ?_⟩ <;> simp [envL, Tr.okS, Tr.panicG, V1.toList, V2.toList, V3.toList, V4.toList, P1.toList, P2.toList, P3.toList, Quat.toList, M2.toList, M3.toList, M4.toList]
theorem p3_set_2_index_1 (u : P3 K) (a : K) :
    ∃ w : P3 K, t_p3_set_2 (envL (u.toList ++ [a])) = .okS w.toList ∧
      t_p3_index_1 (envL w.toList) = .okS [u.y] := by
  refine ⟨(⟨u.x, u.y, a⟩ : P3 K), ?_, ?_⟩ <;> simp [envL, Tr.okS, Tr.panicG, V1.toList, V2.toList, V3.toList, V4.toList, P1.toList, P2.toList, P3.toList, Quat.toList, M2.toList, M3.toList, M4.toList]
theorem p3_set_2_index_2 (u : P3 K) (a : K) :
    ∃ w : P3 K, t_p3_set_2 (envL (u.toList ++ [a])) = .okS w.toList ∧
      t_p3_index_2 (envL w.toList) = .okS [a] := by
  refine ⟨(⟨u.x, u.y, a⟩ : P3 K), ?_, ?_⟩ <;> simp [envL, Tr.okS, Tr.panicG, V1.toList, V2.toList, V3.toList, V4.toList, P1.toList, P2.toList, P3.toList, Quat.toList, M2.toList, M3.toList, M4.toList]
theorem p3_set_oob_panics (u : P3 K) (a : K) :
    t_p3_set_3_oob (envL (u.toList ++ [a])) = .panicG [] := by
  simp [envL, Tr.okS, Tr.panicG, V1.toList, V2.toList, V3.toList, V4.toList, P1.toList, P2.toList, P3.toList, Quat.toList, M2.toList, M3.toList, M4.toList]

/-! ## `p3`: `swap_elements`, then read; twice -/
theorem p3_swap_0_0_read (u : P3 K) :
    ∃ w : P3 K, t_p3_swap_elements_0_0 (envL u.toList) = .okS w.toList ∧
      t_p3_index_0 (envL w.toList) = .okS [u.x] ∧ t_p3_index_0 (envL w.toList) = .okS [u.x] ∧
      t_p3_swap_elements_0_0 (envL w.toList) = .okS u.toList := by
  refine ⟨(⟨u.x, u.y, u.z⟩ : P3 K), ?_, ?_, ?_, ?_⟩ <;> simp [envL, Tr.okS, Tr.panicG, V1.toList, V2.toList, V3.toList, V4.toList, P1.toList, P2.toList, P3.toList, Quat.toList, M2.toList, M3.toList, M4.toList]
theorem p3_swap_0_1_read (u : P3 K) :
    ∃ w : P3 K, t_p3_swap_elements_0_1 (envL u.toList) = .okS w.toList ∧
      t_p3_index_0 (envL w.toList) = .okS [u.y] ∧ t_p3_index_1 (envL w.toList) = .okS [u.x] ∧
      t_p3_swap_elements_0_1 (envL w.toList) = .okS u.toList := by
  refine ⟨(⟨u.y, u.x, u.z⟩ : P3 K), ?_, ?_, ?_, ?_⟩ <;> simp [envL, Tr.okS, Tr.panicG, V1.toList, V2.toList, V3.toList, V4.toList, P1.toList, P2.toList, P3.toList, Quat.toList, M2.toList, M3.toList, M4.toList]
theorem p3_swap_0_2_read (u : P3 K) :
    ∃ w : P3 K, t_p3_swap_elements_0_2 (envL u.toList) = .okS w.toList ∧
      t_p3_index_0 (envL w.toList) = .okS [u.z] ∧ t_p3_index_2 (envL w.toList) = .okS [u.x] ∧
      t_p3_swap_elements_0_2 (envL w.toList) = .okS u.toList := by
  refine ⟨(⟨u.z, u.y, u.x⟩ : P3 K), ?_, ?_, ?_, ?_⟩ <;> simp [envL, Tr.okS, Tr.panicG, V1.toList, V2.toList, V3.toList, V4.toList, P1.toList, P2.toList, P3.toList, Quat.toList, M2.toList, M3.toList, M4.toList]
theorem p3_swap_1_0_read (u : P3 K) :
    ∃ w : P3 K, t_p3_swap_elements_1_0 (envL u.toList) = .okS w.toList ∧
      t_p3_index_1 (envL w.toList) = .okS [u.x] ∧ t_p3_index_0 (envL w.toList) = .okS [u.y] ∧
      t_p3_swap_elements_1_0 (envL w.toList) = .okS u.toList := by
  refine ⟨(⟨u.y, u.x, u.z⟩ : P3 K), ?_, ?_, ?_, ?_⟩ <;> simp [envL, Tr.okS, Tr.panicG, V1.toList, V2.toList, V3.toList, V4.toList, P1.toList, P2.toList, P3.toList, Quat.toList, M2.toList, M3.toList, M4.toList]
theorem p3_swap_1_1_read (u : P3 K) :
    ∃ w : P3 K, t_p3_swap_elements_1_1 (envL u.toList) = .okS w.toList ∧
      t_p3_index_1 (envL w.toList) = .okS [u.y] ∧ t_p3_index_1 (envL w.toList) = .okS [u.y] ∧
      t_p3_swap_elements_1_1 (envL w.toList) = .okS u.toList := by
  refine ⟨(⟨u.x, u.y, u.z⟩ : P3 K), ?_, ?_, ?_, ?_⟩ <;> simp [envL, Tr.okS, Tr.panicG, V1.toList, V2.toList, V3.toList, V4.toList, P1.toList, P2.toList, P3.toList, Quat.toList, M2.toList, M3.toList, M4.toList]
theorem p3_swap_1_2_read (u : P3 K) :
    ∃ w : P3 K, t_p3_swap_elements_1_2 (envL u.toList) = .okS w.toList ∧
      t_p3_index_1 (envL w.toList) = .okS [u.z] ∧ t_p3_index_2 (envL w.toList) = .okS [u.y] ∧
      t_p3_swap_elements_1_2 (envL w.toList) = .okS u.toList := by
  refine ⟨(⟨u.x, u.z, u.y⟩ : P3 K), ?_, ?_, ?_, ?_⟩ <;> simp [envL, Tr.okS, Tr.panicG, V1.toList, V2.toList, V3.toList, V4.toList, P1.toList, P2.toList, P3.toList, Quat.toList, M2.toList, M3.toList, M4.toList]
theorem p3_swap_2_0_read (u : P3 K) :
    ∃ w : P3 K, t_p3_swap_elements_2_0 (envL u.toList) = .okS w.toList ∧
      t_p3_index_2 (envL w.toList) = .okS [u.x] ∧ t_p3_index_0 (envL w.toList) = .okS [u.z] ∧
      t_p3_swap_elements_2_0 (envL w.toList) = .okS u.toList := by
  refine ⟨(⟨u.z, u.y, u.x⟩ : P3 K), ?_, ?_, ?_, ?_⟩ <;> simp [envL, Tr.okS, Tr.panicG, V1.toList, V2.toList, V3.toList, V4.toList, P1.toList, P2.toList, P3.toList, Quat.toList, M2.toList, M3.toList, M4.toList]
theorem p3_swap_2_1_read (u : P3 K) :
    ∃ w : P3 K, t_p3_swap_elements_2_1 (envL u.toList) = .okS w.toList ∧
      t_p3_index_2 (envL w.toList) = .okS [u.y] ∧ t_p3_index_1 (envL w.toList) = .okS [u.z] ∧
      t_p3_swap_elements_2_1 (envL w.toList) = .okS u.toList := by
  refine ⟨(⟨u.x, u.z, u.y⟩ : P3 K), ?_, ?_, ?_, ?_⟩ <;> simp [envL, Tr.okS, Tr.panicG, V1.toList, V2.toList, V3.toList, V4.toList, P1.toList, P2.toList, P3.toList, Quat.toList, M2.toList, M3.toList, M4.toList]
theorem p3_swap_2_2_read (u : P3 K) :
    ∃ w : P3 K, t_p3_swap_elements_2_2 (envL u.toList) = .okS w.toList ∧
      t_p3_index_2 (envL w.toList) = .okS [u.z] ∧ t_p3_index_2 (envL w.toList) = .okS [u.z] ∧
      t_p3_swap_elements_2_2 (envL w.toList) = .okS u.toList := by
  refine ⟨(⟨u.x, u.y, u.z⟩ : P3 K), ?_, ?_, ?_, ?_⟩ <;> simp [envL, Tr.okS, Tr.panicG, V1.toList, V2.toList, V3.toList, V4.toList, P1.toList, P2.toList, P3.toList, Quat.toList, M2.toList, M3.toList, M4.toList]
theorem p3_swap_oob_panics (u : P3 K) :
    t_p3_swap_elements_3_0_oob (envL u.toList) = .panicG [] ∧
    t_p3_swap_elements_0_3_oob (envL u.toList) = .panicG [] := by
  constructor <;> simp [envL, Tr.okS, Tr.panicG, V1.toList, V2.toList, V3.toList, V4.toList, P1.toList, P2.toList, P3.toList, Quat.toList, M2.toList, M3.toList, M4.toList]

/-! ## `m2`: `m[c][r] = a` replaces exactly the element of column `c`, row `r` (flattening position `c * 2 + r`) -/
theorem m2_set_0_0_list (m : M2 K) (a : K) :
    t_m2_set_0_0 (envL (m.toList ++ [a])) = .okS (m.toList.set 0 a) := by
  simp [envL, Tr.okS, Tr.panicG, V1.toList, V2.toList, V3.toList, V4.toList, P1.toList, P2.toList, P3.toList, Quat.toList, M2.toList, M3.toList, M4.toList]
theorem m2_set_0_1_list (m : M2 K) (a : K) :
    t_m2_set_0_1 (envL (m.toList ++ [a])) = .okS (m.toList.set 1 a) := by
  simp [envL, Tr.okS, Tr.panicG, V1.toList, V2.toList, V3.toList, V4.toList, P1.toList, P2.toList, P3.toList, Quat.toList, M2.toList, M3.toList, M4.toList]
theorem m2_set_1_0_list (m : M2 K) (a : K) :
    t_m2_set_1_0 (envL (m.toList ++ [a])) = .okS (m.toList.set 2 a) := by
  simp [envL, Tr.okS, Tr.panicG, V1.toList, V2.toList, V3.toList, V4.toList, P1.toList, P2.toList, P3.toList, Quat.toList, M2.toList, M3.toList, M4.toList]
theorem m2_set_1_1_list (m : M2 K) (a : K) :
    t_m2_set_1_1 (envL (m.toList ++ [a])) = .okS (m.toList.set 3 a) := by
  simp [envL, Tr.okS, Tr.panicG, V1.toList, V2.toList, V3.toList, V4.toList, P1.toList, P2.toList, P3.toList, Quat.toList, M2.toList, M3.toList, M4.toList]
theorem m2_set_oob_panics (m : M2 K) (a : K) :
    t_m2_set_2_0_oob (envL (m.toList ++ [a])) = .panicG [] ∧
    t_m2_set_0_2_oob (envL (m.toList ++ [a])) = .panicG [] := by
  constructor <;> simp [envL, Tr.okS, Tr.panicG, V1.toList, V2.toList, V3.toList, V4.toList, P1.toList, P2.toList, P3.toList, Quat.toList, M2.toList, M3.toList, M4.toList]

/-! ## `m3`: `m[c][r] = a` replaces exactly the element of column `c`, row `r` (flattening position `c * 3 + r`) -/
theorem m3_set_0_0_list (m : M3 K) (a : K) :
    t_m3_set_0_0 (envL (m.toList ++ [a])) = .okS (m.toList.set 0 a) := by
  simp [envL, Tr.okS, Tr.panicG, V1.toList, V2.toList, V3.toList, V4.toList, P1.toList, P2.toList, P3.toList, Quat.toList, M2.toList, M3.toList, M4.toList]
theorem m3_set_0_1_list (m : M3 K) (a : K) :
    t_m3_set_0_1 (envL (m.toList ++ [a])) = .okS (m.toList.set 1 a) := by
  simp [envL, Tr.okS, Tr.panicG, V1.toList, V2.toList, V3.toList, V4.toList, P1.toList, P2.toList, P3.toList, Quat.toList, M2.toList, M3.toList, M4.toList]
theorem m3_set_0_2_list (m : M3 K) (a : K) :
    t_m3_set_0_2 (envL (m.toList ++ [a])) = .okS (m.toList.set 2 a) := by
  simp [envL, Tr.okS, Tr.panicG, V1.toList, V2.toList, V3.toList, V4.toList, P1.toList, P2.toList, P3.toList, Quat.toList, M2.toList, M3.toList, M4.toList]
theorem m3_set_1_0_list (m : M3 K) (a : K) :
    t_m3_set_1_0 (envL (m.toList ++ [a])) = .okS (m.toList.set 3 a) := by
  simp [envL, Tr.okS, Tr.panicG, V1.toList, V2.toList, V3.toList, V4.toList, P1.toList, P2.toList, P3.toList, Quat.toList, M2.toList, M3.toList, M4.toList]
theorem m3_set_1_1_list (m : M3 K) (a : K) :
    t_m3_set_1_1 (envL (m.toList ++ [a])) = .okS (m.toList.set 4 a) := by
  simp [envL, Tr.okS, Tr.panicG, V1.toList, V2.toList, V3.toList, V4.toList, P1.toList, P2.toList, P3.toList, Quat.toList, M2.toList, M3.toList, M4.toList]
theorem m3_set_1_2_list (m : M3 K) (a : K) :
    t_m3_set_1_2 (envL (m.toList ++ [a])) = .okS (m.toList.set 5 a) := by
  simp [envL, Tr.okS, Tr.panicG, V1.toList, V2.toList, V3.toList, V4.toList, P1.toList, P2.toList, P3.toList, Quat.toList, M2.toList, M3.toList, M4.toList]
theorem m3_set_2_0_list (m : M3 K) (a : K) :
    t_m3_set_2_0 (envL (m.toList ++ [a])) = .okS (m.toList.set 6 a) := by
  simp [envL, Tr.okS, Tr.panicG, V1.toList, V2.toList, V3.toList, V4.toList, P1.toList, P2.toList, P3.toList, Quat.toList, M2.toList, M3.toList, M4.toList]
theorem m3_set_2_1_list (m : M3 K) (a : K) :
    t_m3_set_2_1 (envL (m.toList ++ [a])) = .okS (m.toList.set 7 a) := by
  simp [envL, Tr.okS, Tr.panicG, V1.toList, V2.toList, V3.toList, V4.toList, P1.toList, P2.toList, P3.toList, Quat.toList, M2.toList, M3.toList, M4.toList]
theorem m3_set_2_2_list (m : M3 K) (a : K) :
    t_m3_set_2_2 (envL (m.toList ++ [a])) = .okS (m.toList.set 8 a) := by
  simp [envL, Tr.okS, Tr.panicG, V1.toList, V2.toList, V3.toList, V4.toList, P1.toList, P2.toList, P3.toList, Quat.toList, M2.toList, M3.toList, M4.toList]
theorem m3_set_oob_panics (m : M3 K) (a : K) :
    t_m3_set_3_0_oob (envL (m.toList ++ [a])) = .panicG [] ∧
    t_m3_set_0_3_oob (envL (m.toList ++ [a])) = .panicG [] := by
  constructor <;> simp [envL, Tr.okS, Tr.panicG, V1.toList, V2.toList, V3.toList, V4.toList, P1.toList, P2.toList, P3.toList, Quat.toList, M2.toList, M3.toList, M4.toList]

/-! ## `m4`: `m[c][r] = a` replaces exactly the element of column `c`, row `r` (flattening position `c * 4 + r`) -/
theorem m4_set_0_0_list (m : M4 K) (a : K) :
    t_m4_set_0_0 (envL (m.toList ++ [a])) = .okS (m.toList.set 0 a) := by
  simp [envL, Tr.okS, Tr.panicG, V1.toList, V2.toList, V3.toList, V4.toList, P1.toList, P2.toList, P3.toList, Quat.toList, M2.toList, M3.toList, M4.toList]
theorem m4_set_0_1_list (m : M4 K) (a : K) :
    t_m4_set_0_1 (envL (m.toList ++ [a])) = .okS (m.toList.set 1 a) := by
  simp [envL, Tr.okS, Tr.panicG, V1.toList, V2.toList, V3.toList, V4.toList, P1.toList, P2.toList, P3.toList, Quat.toList, M2.toList, M3.toList, M4.toList]
theorem m4_set_0_2_list (m : M4 K) (a : K) :
    t_m4_set_0_2 (envL (m.toList ++ [a])) = .okS (m.toList.set 2 a) := by
  simp [envL, Tr.okS, Tr.panicG, V1.toList, V2.toList, V3.toList, V4.toList, P1.toList, P2.toList, P3.toList, Quat.toList, M2.toList, M3.toList, M4.toList]
theorem m4_set_0_3_list (m : M4 K) (a : K) :
    t_m4_set_0_3 (envL (m.toList ++ [a])) = .okS (m.toList.set 3 a) := by
  simp [envL, Tr.okS, Tr.panicG, V1.toList, V2.toList, V3.toList, V4.toList, P1.toList, P2.toList, P3.toList, Quat.toList, M2.toList, M3.toList, M4.toList]
theorem m4_set_1_0_list (m : M4 K) (a : K) :
    t_m4_set_1_0 (envL (m.toList ++ [a])) = .okS (m.toList.set 4 a) := by
  simp [envL, Tr.okS, Tr.panicG, V1.toList, V2.toList, V3.toList, V4.toList, P1.toList, P2.toList, P3.toList, Quat.toList, M2.toList, M3.toList, M4.toList]
theorem m4_set_1_1_list (m : M4 K) (a : K) :
    t_m4_set_1_1 (envL (m.toList ++ [a])) = .okS (m.toList.set 5 a) := by
  simp [envL, Tr.okS, Tr.panicG, V1.toList, V2.toList, V3.toList, V4.toList, P1.toList, P2.toList, P3.toList, Quat.toList, M2.toList, M3.toList, M4.toList]
theorem m4_set_1_2_list (m : M4 K) (a : K) :
    t_m4_set_1_2 (envL (m.toList ++ [a])) = .okS (m.toList.set 6 a) := by
  simp [envL, Tr.okS, Tr.panicG, V1.toList, V2.toList, V3.toList, V4.toList, P1.toList, P2.toList, P3.toList, Quat.toList, M2.toList, M3.toList, M4.toList]
theorem m4_set_1_3_list (m : M4 K) (a : K) :
    t_m4_set_1_3 (envL (m.toList ++ [a])) = .okS (m.toList.set 7 a) := by
  simp [envL, Tr.okS, Tr.panicG, V1.toList, V2.toList, V3.toList, V4.toList, P1.toList, P2.toList, P3.toList, Quat.toList, M2.toList, M3.toList, M4.toList]
theorem m4_set_2_0_list (m : M4 K) (a : K) :
    t_m4_set_2_0 (envL (m.toList ++ [a])) = .okS (m.toList.set 8 a) := by
  simp [envL, Tr.okS, Tr.panicG, V1.toList, V2.toList, V3.toList, V4.toList, P1.toList, P2.toList, P3.toList, Quat.toList, M2.toList, M3.toList, M4.toList]
theorem m4_set_2_1_list (m : M4 K) (a : K) :
    t_m4_set_2_1 (envL (m.toList ++ [a])) = .okS (m.toList.set 9 a) := by
  simp [envL, Tr.okS, Tr.panicG, V1.toList, V2.toList, V3.toList, V4.toList, P1.toList, P2.toList, P3.toList, Quat.toList, M2.toList, M3.toList, M4.toList]
theorem m4_set_2_2_list (m : M4 K) (a : K) :
    t_m4_set_2_2 (envL (m.toList ++ [a])) = .okS (m.toList.set 10 a) := by
  simp [envL, Tr.okS, Tr.panicG, V1.toList, V2.toList, V3.toList, V4.toList, P1.toList, P2.toList, P3.toList, Quat.toList, M2.toList, M3.toList, M4.toList]
theorem m4_set_2_3_list (m : M4 K) (a : K) :
    t_m4_set_2_3 (envL (m.toList ++ [a])) = .okS (m.toList.set 11 a) := by
  simp [envL, Tr.okS, Tr.panicG, V1.toList, V2.toList, V3.toList, V4.toList, P1.toList, P2.toList, P3.toList, Quat.toList, M2.toList, M3.toList, M4.toList]
theorem m4_set_3_0_list (m : M4 K) (a : K) :
    t_m4_set_3_0 (envL (m.toList ++ [a])) = .okS (m.toList.set 12 a) := by
  simp [envL, Tr.okS, Tr.panicG, V1.toList, V2.toList, V3.toList, V4.toList, P1.toList, P2.toList, P3.toList, Quat.toList, M2.toList, M3.toList, M4.toList]
theorem m4_set_3_1_list (m : M4 K) (a : K) :
    t_m4_set_3_1 (envL (m.toList ++ [a])) = .okS (m.toList.set 13 a) := by
  simp [envL, Tr.okS, Tr.panicG, V1.toList, V2.toList, V3.toList, V4.toList, P1.toList, P2.toList, P3.toList, Quat.toList, M2.toList, M3.toList, M4.toList]
theorem m4_set_3_2_list (m : M4 K) (a : K) :
    t_m4_set_3_2 (envL (m.toList ++ [a])) = .okS (m.toList.set 14 a) := by
  simp [envL, Tr.okS, Tr.panicG, V1.toList, V2.toList, V3.toList, V4.toList, P1.toList, P2.toList, P3.toList, Quat.toList, M2.toList, M3.toList, M4.toList]
theorem m4_set_3_3_list (m : M4 K) (a : K) :
    t_m4_set_3_3 (envL (m.toList ++ [a])) = .okS (m.toList.set 15 a) := by
  simp [envL, Tr.okS, Tr.panicG, V1.toList, V2.toList, V3.toList, V4.toList, P1.toList, P2.toList, P3.toList, Quat.toList, M2.toList, M3.toList, M4.toList]
theorem m4_set_oob_panics (m : M4 K) (a : K) :
    t_m4_set_4_0_oob (envL (m.toList ++ [a])) = .panicG [] ∧
    t_m4_set_0_4_oob (envL (m.toList ++ [a])) = .panicG [] := by
  constructor <;> simp [envL, Tr.okS, Tr.panicG, V1.toList, V2.toList, V3.toList, V4.toList, P1.toList, P2.toList, P3.toList, Quat.toList, M2.toList, M3.toList, M4.toList]

end ops
end Cg.E2E.C16
