import Cgm.Lemmas.GuardSem
import Cgm.E2E.C10h
import Cgm.E2E.C10g
import Cgm.Trace.C10More
import Cgm.Trace.Cover4
/-!
# C10, end to end, with the guard semantics: `planar` (twenty-one paths), `perspective` (all fourteen), the struct-form / `Deg`
entry points

With `Tr.Consistent` (`Cgm/Lemmas/GuardSem.lean`), for any ordered scalar field:

* every traced path of `From<PlanarFov>` is the one the code takes iff its path condition (the outcomes of the comparisons it
  records: two three-way comparisons of `fovy`, `0 <= height`, the sign test inside `abs`, two `abs_diff_eq` with tolerance `2^-52`,
  the comparisons inside `min`/`max`, the focal-point comparisons) holds (`planar_…_consistent`).  The side conditions `hreg`/`hfin`
  of the Layer-T obligations are NOT comparisons and are not part of consistency: they say where exact arithmetic (the kernels)
  and IEEE arithmetic part ways;
* an accepting path is consistent iff the precondition as the code tests it holds (`planar_accepts_iff`), a rejecting one iff it
  fails (`planar_rejects_iff`), exactly one of the twenty-one is (`planar_exactly_one`), given `near = far → far ≈ near`;
* `perspective`: the five remaining paths, `perspective_exactly_one_all` (fourteen paths, no hypothesis), `perspective_rejects_iff`;
* the struct-form and `Deg` kernels ARE the free functions' kernels, path by path (`perspective_s_eq`, `perspective_deg_eq`,
  `planar_s_eq`, `frustum_s_eq`).

At the real instances (`open scoped Cg.RealApprox`): `code_planar_panics_iff` (the property's sentence "panics when |fovy| ≥ π,
negative height, zero aspect, near = far, or focal point between the planes", as an equivalence), `code_planar_accept_any`
(accepting path ⇒ window/depth mapping `PlanarMaps`), `code_planar_reject_any` (rejecting path ⇒ panic, model returns no matrix).
-/
set_option linter.unusedSectionVars false
set_option linter.unusedSimpArgs false
set_option linter.unusedTactic false
set_option linter.unreachableTactic false
set_option linter.unnecessarySeqFocus false
namespace Cg.E2E.C10
open Cg Cg.Gen.C10 Cg.Trace.C10

section field
variable {K : Type} [Field K] [LinearOrder K] [Approx K] [Transc K] [FRem K] [Lits K]

/-- the approximate test the code records: `abs_diff_eq` with the tolerance `2^-52` -/
def ad52 (x y : K) : Bool := Approx.absDiffEq x y (eps52 : K)
/-- `focal_point = -inv_f.recip()` -/
def focalK (fovy h : K) : K := -(1 / planarInvF fovy h)

theorem g_planar_ok (fovy a h n f : K) :
    (t_planar_ok (envL [fovy, a, h, n, f])).guards =
      [.cmp fovy (-(Lits.radFull / 2)) .gt,
       .cmp fovy (Lits.radFull / 2) .lt,
       .le 0 h true,
       .lt a 0 false,
       .absDiff a 0 eps52 false,
       .absDiff f n eps52 false,
       .lt (n) (f) true,
       .lt (-(1 / planarInvF fovy h)) (n) true] := by
  simp [envL, eps52, planarInvF, Rad.tan]
theorem g_planar_ok_rev (fovy a h n f : K) :
    (t_planar_ok_rev (envL [fovy, a, h, n, f])).guards =
      [.cmp fovy (-(Lits.radFull / 2)) .gt,
       .cmp fovy (Lits.radFull / 2) .lt,
       .le 0 h true,
       .lt a 0 false,
       .absDiff a 0 eps52 false,
       .absDiff f n eps52 false,
       .lt (n) (f) false,
       .lt (-(1 / planarInvF fovy h)) (f) true] := by
  simp [envL, eps52, planarInvF, Rad.tan]
theorem g_planar_ok_behind (fovy a h n f : K) :
    (t_planar_ok_behind (envL [fovy, a, h, n, f])).guards =
      [.cmp fovy (-(Lits.radFull / 2)) .gt,
       .cmp fovy (Lits.radFull / 2) .lt,
       .le 0 h true,
       .lt a 0 false,
       .absDiff a 0 eps52 false,
       .absDiff f n eps52 false,
       .lt (n) (f) true,
       .lt (-(1 / planarInvF fovy h)) (n) false,
       .lt (f) (n) false,
       .lt (f) (-(1 / planarInvF fovy h)) true] := by
  simp [envL, eps52, planarInvF, Rad.tan]
theorem g_planar_ok_behind_rev (fovy a h n f : K) :
    (t_planar_ok_behind_rev (envL [fovy, a, h, n, f])).guards =
      [.cmp fovy (-(Lits.radFull / 2)) .gt,
       .cmp fovy (Lits.radFull / 2) .lt,
       .le 0 h true,
       .lt a 0 false,
       .absDiff a 0 eps52 false,
       .absDiff f n eps52 false,
       .lt (n) (f) false,
       .lt (-(1 / planarInvF fovy h)) (f) false,
       .lt (f) (n) true,
       .lt (n) (-(1 / planarInvF fovy h)) true] := by
  simp [envL, eps52, planarInvF, Rad.tan]
theorem g_planar_bad_focal (fovy a h n f : K) :
    (t_planar_bad_focal (envL [fovy, a, h, n, f])).guards =
      [.cmp fovy (-(Lits.radFull / 2)) .gt,
       .cmp fovy (Lits.radFull / 2) .lt,
       .le 0 h true,
       .lt a 0 false,
       .absDiff a 0 eps52 false,
       .absDiff f n eps52 false,
       .lt (n) (f) true,
       .lt (-(1 / planarInvF fovy h)) (n) false,
       .lt (f) (n) false,
       .lt (f) (-(1 / planarInvF fovy h)) false] := by
  simp [envL, eps52, planarInvF, Rad.tan]
theorem g_planar_bad_focal_rev (fovy a h n f : K) :
    (t_planar_bad_focal_rev (envL [fovy, a, h, n, f])).guards =
      [.cmp fovy (-(Lits.radFull / 2)) .gt,
       .cmp fovy (Lits.radFull / 2) .lt,
       .le 0 h true,
       .lt a 0 false,
       .absDiff a 0 eps52 false,
       .absDiff f n eps52 false,
       .lt (n) (f) false,
       .lt (-(1 / planarInvF fovy h)) (f) false,
       .lt (f) (n) true,
       .lt (n) (-(1 / planarInvF fovy h)) false] := by
  simp [envL, eps52, planarInvF, Rad.tan]
theorem g_planar_bad_aspect (fovy a h n f : K) :
    (t_planar_bad_aspect (envL [fovy, a, h, n, f])).guards =
      [.cmp fovy (-(Lits.radFull / 2)) .gt,
       .cmp fovy (Lits.radFull / 2) .lt,
       .le 0 h true,
       .lt a 0 false,
       .absDiff a 0 eps52 true,
       .lt a 0 false] := by
  simp [envL, eps52, planarInvF, Rad.tan]
theorem g_planar_bad_nf (fovy a h n f : K) :
    (t_planar_bad_nf (envL [fovy, a, h, n, f])).guards =
      [.cmp fovy (-(Lits.radFull / 2)) .gt,
       .cmp fovy (Lits.radFull / 2) .lt,
       .le 0 h true,
       .lt a 0 false,
       .absDiff a 0 eps52 false,
       .absDiff f n eps52 true] := by
  simp [envL, eps52, planarInvF, Rad.tan]
theorem g_planar_ok_neg_aspect (fovy a h n f : K) :
    (t_planar_ok_neg_aspect (envL [fovy, a, h, n, f])).guards =
      [.cmp fovy (-(Lits.radFull / 2)) .gt,
       .cmp fovy (Lits.radFull / 2) .lt,
       .le 0 h true,
       .lt a 0 true,
       .absDiff (-a) 0 eps52 false,
       .absDiff f n eps52 false,
       .lt (n) (f) true,
       .lt (-(1 / planarInvF fovy h)) (n) true] := by
  simp [envL, eps52, planarInvF, Rad.tan]
theorem g_planar_neg_ok_rev (fovy a h n f : K) :
    (t_planar_neg_ok_rev (envL [fovy, a, h, n, f])).guards =
      [.cmp fovy (-(Lits.radFull / 2)) .gt,
       .cmp fovy (Lits.radFull / 2) .lt,
       .le 0 h true,
       .lt a 0 true,
       .absDiff (-a) 0 eps52 false,
       .absDiff f n eps52 false,
       .lt (n) (f) false,
       .lt (-(1 / planarInvF fovy h)) (f) true] := by
  simp [envL, eps52, planarInvF, Rad.tan]
theorem g_planar_neg_ok_behind (fovy a h n f : K) :
    (t_planar_neg_ok_behind (envL [fovy, a, h, n, f])).guards =
      [.cmp fovy (-(Lits.radFull / 2)) .gt,
       .cmp fovy (Lits.radFull / 2) .lt,
       .le 0 h true,
       .lt a 0 true,
       .absDiff (-a) 0 eps52 false,
       .absDiff f n eps52 false,
       .lt (n) (f) true,
       .lt (-(1 / planarInvF fovy h)) (n) false,
       .lt (f) (n) false,
       .lt (f) (-(1 / planarInvF fovy h)) true] := by
  simp [envL, eps52, planarInvF, Rad.tan]
theorem g_planar_neg_ok_behind_rev (fovy a h n f : K) :
    (t_planar_neg_ok_behind_rev (envL [fovy, a, h, n, f])).guards =
      [.cmp fovy (-(Lits.radFull / 2)) .gt,
       .cmp fovy (Lits.radFull / 2) .lt,
       .le 0 h true,
       .lt a 0 true,
       .absDiff (-a) 0 eps52 false,
       .absDiff f n eps52 false,
       .lt (n) (f) false,
       .lt (-(1 / planarInvF fovy h)) (f) false,
       .lt (f) (n) true,
       .lt (n) (-(1 / planarInvF fovy h)) true] := by
  simp [envL, eps52, planarInvF, Rad.tan]
theorem g_planar_neg_bad_focal (fovy a h n f : K) :
    (t_planar_neg_bad_focal (envL [fovy, a, h, n, f])).guards =
      [.cmp fovy (-(Lits.radFull / 2)) .gt,
       .cmp fovy (Lits.radFull / 2) .lt,
       .le 0 h true,
       .lt a 0 true,
       .absDiff (-a) 0 eps52 false,
       .absDiff f n eps52 false,
       .lt (n) (f) true,
       .lt (-(1 / planarInvF fovy h)) (n) false,
       .lt (f) (n) false,
       .lt (f) (-(1 / planarInvF fovy h)) false] := by
  simp [envL, eps52, planarInvF, Rad.tan]
theorem g_planar_neg_bad_focal_rev (fovy a h n f : K) :
    (t_planar_neg_bad_focal_rev (envL [fovy, a, h, n, f])).guards =
      [.cmp fovy (-(Lits.radFull / 2)) .gt,
       .cmp fovy (Lits.radFull / 2) .lt,
       .le 0 h true,
       .lt a 0 true,
       .absDiff (-a) 0 eps52 false,
       .absDiff f n eps52 false,
       .lt (n) (f) false,
       .lt (-(1 / planarInvF fovy h)) (f) false,
       .lt (f) (n) true,
       .lt (n) (-(1 / planarInvF fovy h)) false] := by
  simp [envL, eps52, planarInvF, Rad.tan]
theorem g_planar_neg_bad_aspect (fovy a h n f : K) :
    (t_planar_neg_bad_aspect (envL [fovy, a, h, n, f])).guards =
      [.cmp fovy (-(Lits.radFull / 2)) .gt,
       .cmp fovy (Lits.radFull / 2) .lt,
       .le 0 h true,
       .lt a 0 true,
       .absDiff (-a) 0 eps52 true,
       .lt a 0 true] := by
  simp [envL, eps52, planarInvF, Rad.tan]
theorem g_planar_neg_bad_nf (fovy a h n f : K) :
    (t_planar_neg_bad_nf (envL [fovy, a, h, n, f])).guards =
      [.cmp fovy (-(Lits.radFull / 2)) .gt,
       .cmp fovy (Lits.radFull / 2) .lt,
       .le 0 h true,
       .lt a 0 true,
       .absDiff (-a) 0 eps52 false,
       .absDiff f n eps52 true] := by
  simp [envL, eps52, planarInvF, Rad.tan]
theorem g_planar_bad_fovy_lo (fovy a h n f : K) :
    (t_planar_bad_fovy_lo (envL [fovy, a, h, n, f])).guards =
      [.cmp fovy (-(Lits.radFull / 2)) .lt] := by
  simp [envL, eps52, planarInvF, Rad.tan]
theorem g_planar_bad_fovy_npi (fovy a h n f : K) :
    (t_planar_bad_fovy_npi (envL [fovy, a, h, n, f])).guards =
      [.cmp fovy (-(Lits.radFull / 2)) .eq] := by
  simp [envL, eps52, planarInvF, Rad.tan]
theorem g_planar_bad_fovy_hi (fovy a h n f : K) :
    (t_planar_bad_fovy_hi (envL [fovy, a, h, n, f])).guards =
      [.cmp fovy (-(Lits.radFull / 2)) .gt,
       .cmp fovy (Lits.radFull / 2) .gt] := by
  simp [envL, eps52, planarInvF, Rad.tan]
theorem g_planar_bad_fovy_pi (fovy a h n f : K) :
    (t_planar_bad_fovy_pi (envL [fovy, a, h, n, f])).guards =
      [.cmp fovy (-(Lits.radFull / 2)) .gt,
       .cmp fovy (Lits.radFull / 2) .eq] := by
  simp [envL, eps52, planarInvF, Rad.tan]
theorem g_planar_bad_height (fovy a h n f : K) :
    (t_planar_bad_height (envL [fovy, a, h, n, f])).guards =
      [.cmp fovy (-(Lits.radFull / 2)) .gt,
       .cmp fovy (Lits.radFull / 2) .lt,
       .le 0 h false] := by
  simp [envL, eps52, planarInvF, Rad.tan]
theorem planar_ok_consistent (fovy a h n f : K) :
    (t_planar_ok (envL [fovy, a, h, n, f])).Consistent ↔
      -(Lits.radFull / 2) < fovy ∧ fovy < Lits.radFull / 2 ∧ 0 ≤ h ∧ ¬ a < 0 ∧ ad52 a 0 = false ∧ ad52 f n = false ∧ n < f ∧ focalK fovy h < n := by
  rw [Tr.Consistent, g_planar_ok]
  simp only [List.mem_cons, List.not_mem_nil, or_false, forall_eq_or_imp, forall_eq, G.holds_cmp_lt, G.holds_cmp_eq,
    G.holds_cmp_gt, G.holds_lt_true, G.holds_lt_false, G.holds_le_true, G.holds_le_false, G.holds_absDiff_true,
    G.holds_absDiff_false, ad52, focalK]
theorem planar_ok_rev_consistent (fovy a h n f : K) :
    (t_planar_ok_rev (envL [fovy, a, h, n, f])).Consistent ↔
      -(Lits.radFull / 2) < fovy ∧ fovy < Lits.radFull / 2 ∧ 0 ≤ h ∧ ¬ a < 0 ∧ ad52 a 0 = false ∧ ad52 f n = false ∧ ¬ n < f ∧ focalK fovy h < f := by
  rw [Tr.Consistent, g_planar_ok_rev]
  simp only [List.mem_cons, List.not_mem_nil, or_false, forall_eq_or_imp, forall_eq, G.holds_cmp_lt, G.holds_cmp_eq,
    G.holds_cmp_gt, G.holds_lt_true, G.holds_lt_false, G.holds_le_true, G.holds_le_false, G.holds_absDiff_true,
    G.holds_absDiff_false, ad52, focalK]
theorem planar_ok_behind_consistent (fovy a h n f : K) :
    (t_planar_ok_behind (envL [fovy, a, h, n, f])).Consistent ↔
      -(Lits.radFull / 2) < fovy ∧ fovy < Lits.radFull / 2 ∧ 0 ≤ h ∧ ¬ a < 0 ∧ ad52 a 0 = false ∧ ad52 f n = false ∧ n < f ∧ ¬ focalK fovy h < n ∧ f < focalK fovy h := by
  rw [Tr.Consistent, g_planar_ok_behind]
  simp only [List.mem_cons, List.not_mem_nil, or_false, forall_eq_or_imp, forall_eq, G.holds_cmp_lt, G.holds_cmp_eq,
    G.holds_cmp_gt, G.holds_lt_true, G.holds_lt_false, G.holds_le_true, G.holds_le_false, G.holds_absDiff_true,
    G.holds_absDiff_false, ad52, focalK]
  constructor <;> intro hh <;> simp only [hh, not_false_eq_true, and_self, and_true, true_and] <;> order
theorem planar_ok_behind_rev_consistent (fovy a h n f : K) :
    (t_planar_ok_behind_rev (envL [fovy, a, h, n, f])).Consistent ↔
      -(Lits.radFull / 2) < fovy ∧ fovy < Lits.radFull / 2 ∧ 0 ≤ h ∧ ¬ a < 0 ∧ ad52 a 0 = false ∧ ad52 f n = false ∧ ¬ focalK fovy h < f ∧ f < n ∧ n < focalK fovy h := by
  rw [Tr.Consistent, g_planar_ok_behind_rev]
  simp only [List.mem_cons, List.not_mem_nil, or_false, forall_eq_or_imp, forall_eq, G.holds_cmp_lt, G.holds_cmp_eq,
    G.holds_cmp_gt, G.holds_lt_true, G.holds_lt_false, G.holds_le_true, G.holds_le_false, G.holds_absDiff_true,
    G.holds_absDiff_false, ad52, focalK]
  constructor <;> intro hh <;> simp only [hh, not_false_eq_true, and_self, and_true, true_and] <;> order
theorem planar_bad_focal_consistent (fovy a h n f : K) :
    (t_planar_bad_focal (envL [fovy, a, h, n, f])).Consistent ↔
      -(Lits.radFull / 2) < fovy ∧ fovy < Lits.radFull / 2 ∧ 0 ≤ h ∧ ¬ a < 0 ∧ ad52 a 0 = false ∧ ad52 f n = false ∧ n < f ∧ ¬ focalK fovy h < n ∧ ¬ f < focalK fovy h := by
  rw [Tr.Consistent, g_planar_bad_focal]
  simp only [List.mem_cons, List.not_mem_nil, or_false, forall_eq_or_imp, forall_eq, G.holds_cmp_lt, G.holds_cmp_eq,
    G.holds_cmp_gt, G.holds_lt_true, G.holds_lt_false, G.holds_le_true, G.holds_le_false, G.holds_absDiff_true,
    G.holds_absDiff_false, ad52, focalK]
  constructor <;> intro hh <;> simp only [hh, not_false_eq_true, and_self, and_true, true_and] <;> order
theorem planar_bad_focal_rev_consistent (fovy a h n f : K) :
    (t_planar_bad_focal_rev (envL [fovy, a, h, n, f])).Consistent ↔
      -(Lits.radFull / 2) < fovy ∧ fovy < Lits.radFull / 2 ∧ 0 ≤ h ∧ ¬ a < 0 ∧ ad52 a 0 = false ∧ ad52 f n = false ∧ ¬ focalK fovy h < f ∧ f < n ∧ ¬ n < focalK fovy h := by
  rw [Tr.Consistent, g_planar_bad_focal_rev]
  simp only [List.mem_cons, List.not_mem_nil, or_false, forall_eq_or_imp, forall_eq, G.holds_cmp_lt, G.holds_cmp_eq,
    G.holds_cmp_gt, G.holds_lt_true, G.holds_lt_false, G.holds_le_true, G.holds_le_false, G.holds_absDiff_true,
    G.holds_absDiff_false, ad52, focalK]
  constructor <;> intro hh <;> simp only [hh, not_false_eq_true, and_self, and_true, true_and] <;> order
theorem planar_bad_aspect_consistent (fovy a h n f : K) :
    (t_planar_bad_aspect (envL [fovy, a, h, n, f])).Consistent ↔
      -(Lits.radFull / 2) < fovy ∧ fovy < Lits.radFull / 2 ∧ 0 ≤ h ∧ ¬ a < 0 ∧ ad52 a 0 = true := by
  rw [Tr.Consistent, g_planar_bad_aspect]
  simp only [List.mem_cons, List.not_mem_nil, or_false, forall_eq_or_imp, forall_eq, G.holds_cmp_lt, G.holds_cmp_eq,
    G.holds_cmp_gt, G.holds_lt_true, G.holds_lt_false, G.holds_le_true, G.holds_le_false, G.holds_absDiff_true,
    G.holds_absDiff_false, ad52, focalK]
  constructor <;> intro hh <;> simp only [hh, not_false_eq_true, and_self, and_true, true_and] <;> order
theorem planar_bad_nf_consistent (fovy a h n f : K) :
    (t_planar_bad_nf (envL [fovy, a, h, n, f])).Consistent ↔
      -(Lits.radFull / 2) < fovy ∧ fovy < Lits.radFull / 2 ∧ 0 ≤ h ∧ ¬ a < 0 ∧ ad52 a 0 = false ∧ ad52 f n = true := by
  rw [Tr.Consistent, g_planar_bad_nf]
  simp only [List.mem_cons, List.not_mem_nil, or_false, forall_eq_or_imp, forall_eq, G.holds_cmp_lt, G.holds_cmp_eq,
    G.holds_cmp_gt, G.holds_lt_true, G.holds_lt_false, G.holds_le_true, G.holds_le_false, G.holds_absDiff_true,
    G.holds_absDiff_false, ad52, focalK]
theorem planar_ok_neg_aspect_consistent (fovy a h n f : K) :
    (t_planar_ok_neg_aspect (envL [fovy, a, h, n, f])).Consistent ↔
      -(Lits.radFull / 2) < fovy ∧ fovy < Lits.radFull / 2 ∧ 0 ≤ h ∧ a < 0 ∧ ad52 (-a) 0 = false ∧ ad52 f n = false ∧ n < f ∧ focalK fovy h < n := by
  rw [Tr.Consistent, g_planar_ok_neg_aspect]
  simp only [List.mem_cons, List.not_mem_nil, or_false, forall_eq_or_imp, forall_eq, G.holds_cmp_lt, G.holds_cmp_eq,
    G.holds_cmp_gt, G.holds_lt_true, G.holds_lt_false, G.holds_le_true, G.holds_le_false, G.holds_absDiff_true,
    G.holds_absDiff_false, ad52, focalK]
theorem planar_neg_ok_rev_consistent (fovy a h n f : K) :
    (t_planar_neg_ok_rev (envL [fovy, a, h, n, f])).Consistent ↔
      -(Lits.radFull / 2) < fovy ∧ fovy < Lits.radFull / 2 ∧ 0 ≤ h ∧ a < 0 ∧ ad52 (-a) 0 = false ∧ ad52 f n = false ∧ ¬ n < f ∧ focalK fovy h < f := by
  rw [Tr.Consistent, g_planar_neg_ok_rev]
  simp only [List.mem_cons, List.not_mem_nil, or_false, forall_eq_or_imp, forall_eq, G.holds_cmp_lt, G.holds_cmp_eq,
    G.holds_cmp_gt, G.holds_lt_true, G.holds_lt_false, G.holds_le_true, G.holds_le_false, G.holds_absDiff_true,
    G.holds_absDiff_false, ad52, focalK]
theorem planar_neg_ok_behind_consistent (fovy a h n f : K) :
    (t_planar_neg_ok_behind (envL [fovy, a, h, n, f])).Consistent ↔
      -(Lits.radFull / 2) < fovy ∧ fovy < Lits.radFull / 2 ∧ 0 ≤ h ∧ a < 0 ∧ ad52 (-a) 0 = false ∧ ad52 f n = false ∧ n < f ∧ ¬ focalK fovy h < n ∧ f < focalK fovy h := by
  rw [Tr.Consistent, g_planar_neg_ok_behind]
  simp only [List.mem_cons, List.not_mem_nil, or_false, forall_eq_or_imp, forall_eq, G.holds_cmp_lt, G.holds_cmp_eq,
    G.holds_cmp_gt, G.holds_lt_true, G.holds_lt_false, G.holds_le_true, G.holds_le_false, G.holds_absDiff_true,
    G.holds_absDiff_false, ad52, focalK]
  constructor <;> intro hh <;> simp only [hh, not_false_eq_true, and_self, and_true, true_and] <;> order
theorem planar_neg_ok_behind_rev_consistent (fovy a h n f : K) :
    (t_planar_neg_ok_behind_rev (envL [fovy, a, h, n, f])).Consistent ↔
      -(Lits.radFull / 2) < fovy ∧ fovy < Lits.radFull / 2 ∧ 0 ≤ h ∧ a < 0 ∧ ad52 (-a) 0 = false ∧ ad52 f n = false ∧ ¬ focalK fovy h < f ∧ f < n ∧ n < focalK fovy h := by
  rw [Tr.Consistent, g_planar_neg_ok_behind_rev]
  simp only [List.mem_cons, List.not_mem_nil, or_false, forall_eq_or_imp, forall_eq, G.holds_cmp_lt, G.holds_cmp_eq,
    G.holds_cmp_gt, G.holds_lt_true, G.holds_lt_false, G.holds_le_true, G.holds_le_false, G.holds_absDiff_true,
    G.holds_absDiff_false, ad52, focalK]
  constructor <;> intro hh <;> simp only [hh, not_false_eq_true, and_self, and_true, true_and] <;> order
theorem planar_neg_bad_focal_consistent (fovy a h n f : K) :
    (t_planar_neg_bad_focal (envL [fovy, a, h, n, f])).Consistent ↔
      -(Lits.radFull / 2) < fovy ∧ fovy < Lits.radFull / 2 ∧ 0 ≤ h ∧ a < 0 ∧ ad52 (-a) 0 = false ∧ ad52 f n = false ∧ n < f ∧ ¬ focalK fovy h < n ∧ ¬ f < focalK fovy h := by
  rw [Tr.Consistent, g_planar_neg_bad_focal]
  simp only [List.mem_cons, List.not_mem_nil, or_false, forall_eq_or_imp, forall_eq, G.holds_cmp_lt, G.holds_cmp_eq,
    G.holds_cmp_gt, G.holds_lt_true, G.holds_lt_false, G.holds_le_true, G.holds_le_false, G.holds_absDiff_true,
    G.holds_absDiff_false, ad52, focalK]
  constructor <;> intro hh <;> simp only [hh, not_false_eq_true, and_self, and_true, true_and] <;> order
theorem planar_neg_bad_focal_rev_consistent (fovy a h n f : K) :
    (t_planar_neg_bad_focal_rev (envL [fovy, a, h, n, f])).Consistent ↔
      -(Lits.radFull / 2) < fovy ∧ fovy < Lits.radFull / 2 ∧ 0 ≤ h ∧ a < 0 ∧ ad52 (-a) 0 = false ∧ ad52 f n = false ∧ ¬ focalK fovy h < f ∧ f < n ∧ ¬ n < focalK fovy h := by
  rw [Tr.Consistent, g_planar_neg_bad_focal_rev]
  simp only [List.mem_cons, List.not_mem_nil, or_false, forall_eq_or_imp, forall_eq, G.holds_cmp_lt, G.holds_cmp_eq,
    G.holds_cmp_gt, G.holds_lt_true, G.holds_lt_false, G.holds_le_true, G.holds_le_false, G.holds_absDiff_true,
    G.holds_absDiff_false, ad52, focalK]
  constructor <;> intro hh <;> simp only [hh, not_false_eq_true, and_self, and_true, true_and] <;> order
theorem planar_neg_bad_aspect_consistent (fovy a h n f : K) :
    (t_planar_neg_bad_aspect (envL [fovy, a, h, n, f])).Consistent ↔
      -(Lits.radFull / 2) < fovy ∧ fovy < Lits.radFull / 2 ∧ 0 ≤ h ∧ a < 0 ∧ ad52 (-a) 0 = true := by
  rw [Tr.Consistent, g_planar_neg_bad_aspect]
  simp only [List.mem_cons, List.not_mem_nil, or_false, forall_eq_or_imp, forall_eq, G.holds_cmp_lt, G.holds_cmp_eq,
    G.holds_cmp_gt, G.holds_lt_true, G.holds_lt_false, G.holds_le_true, G.holds_le_false, G.holds_absDiff_true,
    G.holds_absDiff_false, ad52, focalK]
  constructor <;> intro hh <;> simp only [hh, not_false_eq_true, and_self, and_true, true_and] <;> order
theorem planar_neg_bad_nf_consistent (fovy a h n f : K) :
    (t_planar_neg_bad_nf (envL [fovy, a, h, n, f])).Consistent ↔
      -(Lits.radFull / 2) < fovy ∧ fovy < Lits.radFull / 2 ∧ 0 ≤ h ∧ a < 0 ∧ ad52 (-a) 0 = false ∧ ad52 f n = true := by
  rw [Tr.Consistent, g_planar_neg_bad_nf]
  simp only [List.mem_cons, List.not_mem_nil, or_false, forall_eq_or_imp, forall_eq, G.holds_cmp_lt, G.holds_cmp_eq,
    G.holds_cmp_gt, G.holds_lt_true, G.holds_lt_false, G.holds_le_true, G.holds_le_false, G.holds_absDiff_true,
    G.holds_absDiff_false, ad52, focalK]
theorem planar_bad_fovy_lo_consistent (fovy a h n f : K) :
    (t_planar_bad_fovy_lo (envL [fovy, a, h, n, f])).Consistent ↔
      fovy < -(Lits.radFull / 2) := by
  rw [Tr.Consistent, g_planar_bad_fovy_lo]
  simp only [List.mem_cons, List.not_mem_nil, or_false, forall_eq_or_imp, forall_eq, G.holds_cmp_lt, G.holds_cmp_eq,
    G.holds_cmp_gt, G.holds_lt_true, G.holds_lt_false, G.holds_le_true, G.holds_le_false, G.holds_absDiff_true,
    G.holds_absDiff_false, ad52, focalK]
theorem planar_bad_fovy_npi_consistent (fovy a h n f : K) :
    (t_planar_bad_fovy_npi (envL [fovy, a, h, n, f])).Consistent ↔
      fovy = -(Lits.radFull / 2) := by
  rw [Tr.Consistent, g_planar_bad_fovy_npi]
  simp only [List.mem_cons, List.not_mem_nil, or_false, forall_eq_or_imp, forall_eq, G.holds_cmp_lt, G.holds_cmp_eq,
    G.holds_cmp_gt, G.holds_lt_true, G.holds_lt_false, G.holds_le_true, G.holds_le_false, G.holds_absDiff_true,
    G.holds_absDiff_false, ad52, focalK]
theorem planar_bad_fovy_hi_consistent (fovy a h n f : K) :
    (t_planar_bad_fovy_hi (envL [fovy, a, h, n, f])).Consistent ↔
      -(Lits.radFull / 2) < fovy ∧ Lits.radFull / 2 < fovy := by
  rw [Tr.Consistent, g_planar_bad_fovy_hi]
  simp only [List.mem_cons, List.not_mem_nil, or_false, forall_eq_or_imp, forall_eq, G.holds_cmp_lt, G.holds_cmp_eq,
    G.holds_cmp_gt, G.holds_lt_true, G.holds_lt_false, G.holds_le_true, G.holds_le_false, G.holds_absDiff_true,
    G.holds_absDiff_false, ad52, focalK]
theorem planar_bad_fovy_pi_consistent (fovy a h n f : K) :
    (t_planar_bad_fovy_pi (envL [fovy, a, h, n, f])).Consistent ↔
      -(Lits.radFull / 2) < fovy ∧ fovy = Lits.radFull / 2 := by
  rw [Tr.Consistent, g_planar_bad_fovy_pi]
  simp only [List.mem_cons, List.not_mem_nil, or_false, forall_eq_or_imp, forall_eq, G.holds_cmp_lt, G.holds_cmp_eq,
    G.holds_cmp_gt, G.holds_lt_true, G.holds_lt_false, G.holds_le_true, G.holds_le_false, G.holds_absDiff_true,
    G.holds_absDiff_false, ad52, focalK]
theorem planar_bad_height_consistent (fovy a h n f : K) :
    (t_planar_bad_height (envL [fovy, a, h, n, f])).Consistent ↔
      -(Lits.radFull / 2) < fovy ∧ fovy < Lits.radFull / 2 ∧ ¬ 0 ≤ h := by
  rw [Tr.Consistent, g_planar_bad_height]
  simp only [List.mem_cons, List.not_mem_nil, or_false, forall_eq_or_imp, forall_eq, G.holds_cmp_lt, G.holds_cmp_eq,
    G.holds_cmp_gt, G.holds_lt_true, G.holds_lt_false, G.holds_le_true, G.holds_le_false, G.holds_absDiff_true,
    G.holds_absDiff_false, ad52, focalK]

/-! ## the kernels of `planar`: eight accepting paths, thirteen rejecting ones -/
/-- the accepting paths of `From<PlanarFov>`: aspect `≥ 0` / `< 0`, each with near < far or not, the planes in front of or behind
the focal point -/
def planarOkKernels (fovy a h n f : K) : List (Tr K) :=
  [t_planar_ok (envL [fovy, a, h, n, f]),
   t_planar_ok_rev (envL [fovy, a, h, n, f]),
   t_planar_ok_behind (envL [fovy, a, h, n, f]),
   t_planar_ok_behind_rev (envL [fovy, a, h, n, f]),
   t_planar_ok_neg_aspect (envL [fovy, a, h, n, f]),
   t_planar_neg_ok_rev (envL [fovy, a, h, n, f]),
   t_planar_neg_ok_behind (envL [fovy, a, h, n, f]),
   t_planar_neg_ok_behind_rev (envL [fovy, a, h, n, f])]
/-- the rejecting paths of `From<PlanarFov>` -/
def planarBadKernels (fovy a h n f : K) : List (Tr K) :=
  [t_planar_bad_focal (envL [fovy, a, h, n, f]),
   t_planar_bad_focal_rev (envL [fovy, a, h, n, f]),
   t_planar_bad_aspect (envL [fovy, a, h, n, f]),
   t_planar_bad_nf (envL [fovy, a, h, n, f]),
   t_planar_neg_bad_focal (envL [fovy, a, h, n, f]),
   t_planar_neg_bad_focal_rev (envL [fovy, a, h, n, f]),
   t_planar_neg_bad_aspect (envL [fovy, a, h, n, f]),
   t_planar_neg_bad_nf (envL [fovy, a, h, n, f]),
   t_planar_bad_fovy_lo (envL [fovy, a, h, n, f]),
   t_planar_bad_fovy_npi (envL [fovy, a, h, n, f]),
   t_planar_bad_fovy_hi (envL [fovy, a, h, n, f]),
   t_planar_bad_fovy_pi (envL [fovy, a, h, n, f]),
   t_planar_bad_height (envL [fovy, a, h, n, f])]
theorem planar_ok_res (fovy a h n f : K) : ∀ k ∈ planarOkKernels fovy a h n f, k.res = .ok := by
  simp [planarOkKernels]
theorem planar_bad_res (fovy a h n f : K) : ∀ k ∈ planarBadKernels fovy a h n f, k.res = .panic := by
  simp [planarBadKernels]

/-- the precondition `planar` asserts, as the code tests it: `-π < fovy < π` (three-way comparisons), `0 ≤ height`,
`|aspect|` and `far - near` against the tolerance `2^-52`, focal point in front of the nearer or behind the farther plane -/
def PlanarPre (fovy a h n f : K) : Prop :=
  -(Lits.radFull / 2) < fovy ∧ fovy < Lits.radFull / 2 ∧ 0 ≤ h ∧ ad52 (sabs a) 0 = false ∧ ad52 f n = false ∧
    (focalK fovy h < smin f n ∨ smax f n < focalK fovy h)

/-- an accepting path is the one the code takes exactly when the precondition holds (`near = far` exactly is rejected by a reflexive
`abs_diff_eq`: the hypothesis `hrefl`, as in `Cover4.planar_cover_regular`) -/
theorem planar_accepts_iff (fovy a h n f : K) (hrefl : f = n → ad52 f n = true) :
    (∃ k ∈ planarOkKernels fovy a h n f, k.Consistent) ↔ PlanarPre fovy a h n f := by
  simp only [planarOkKernels, List.mem_cons, List.not_mem_nil, or_false, exists_eq_or_imp, exists_eq_left,
    planar_ok_consistent, planar_ok_rev_consistent, planar_ok_behind_consistent, planar_ok_behind_rev_consistent, planar_bad_focal_consistent, planar_bad_focal_rev_consistent, planar_bad_aspect_consistent, planar_bad_nf_consistent, planar_ok_neg_aspect_consistent, planar_neg_ok_rev_consistent, planar_neg_ok_behind_consistent, planar_neg_ok_behind_rev_consistent, planar_neg_bad_focal_consistent, planar_neg_bad_focal_rev_consistent, planar_neg_bad_aspect_consistent, planar_neg_bad_nf_consistent, planar_bad_fovy_lo_consistent, planar_bad_fovy_npi_consistent, planar_bad_fovy_hi_consistent, planar_bad_fovy_pi_consistent, planar_bad_height_consistent, PlanarPre, sabs, smin, smax]
  rw [show ad52 (if a < 0 then -a else a) 0 = if a < 0 then ad52 (-a) 0 else ad52 a 0 by split_ifs <;> rfl]
  generalize focalK fovy h = fp
  generalize -((Lits.radFull : K) / 2) = nP
  generalize (Lits.radFull : K) / 2 = P
  generalize ad52 (-a) 0 = za'
  generalize ad52 a 0 = za
  generalize ad52 f n = zf at hrefl ⊢
  grind (splits := 100)
/-- a rejecting path is the one the code takes exactly when the precondition is violated -/
theorem planar_rejects_iff (fovy a h n f : K) (hrefl : f = n → ad52 f n = true) :
    (∃ k ∈ planarBadKernels fovy a h n f, k.Consistent) ↔ ¬ PlanarPre fovy a h n f := by
  simp only [planarBadKernels, List.mem_cons, List.not_mem_nil, or_false, exists_eq_or_imp, exists_eq_left,
    planar_ok_consistent, planar_ok_rev_consistent, planar_ok_behind_consistent, planar_ok_behind_rev_consistent, planar_bad_focal_consistent, planar_bad_focal_rev_consistent, planar_bad_aspect_consistent, planar_bad_nf_consistent, planar_ok_neg_aspect_consistent, planar_neg_ok_rev_consistent, planar_neg_ok_behind_consistent, planar_neg_ok_behind_rev_consistent, planar_neg_bad_focal_consistent, planar_neg_bad_focal_rev_consistent, planar_neg_bad_aspect_consistent, planar_neg_bad_nf_consistent, planar_bad_fovy_lo_consistent, planar_bad_fovy_npi_consistent, planar_bad_fovy_hi_consistent, planar_bad_fovy_pi_consistent, planar_bad_height_consistent, PlanarPre, sabs, smin, smax]
  rw [show ad52 (if a < 0 then -a else a) 0 = if a < 0 then ad52 (-a) 0 else ad52 a 0 by split_ifs <;> rfl]
  generalize focalK fovy h = fp
  generalize -((Lits.radFull : K) / 2) = nP
  generalize (Lits.radFull : K) / 2 = P
  generalize ad52 (-a) 0 = za'
  generalize ad52 a 0 = za
  generalize ad52 f n = zf at hrefl ⊢
  grind (splits := 100)
set_option maxHeartbeats 4000000 in
/-- no two of the twenty-one paths are consistent together -/
theorem planar_pairwise (fovy a h n f : K) :
    (planarOkKernels fovy a h n f ++ planarBadKernels fovy a h n f).Pairwise (fun s t => ¬ (s.Consistent ∧ t.Consistent)) := by
  simp only [planarOkKernels, planarBadKernels, List.cons_append, List.nil_append,
    List.pairwise_cons, List.mem_cons, List.not_mem_nil, or_false, forall_eq_or_imp, forall_eq,
    List.Pairwise.nil, and_true, IsEmpty.forall_iff, implies_true,
    planar_ok_consistent, planar_ok_rev_consistent, planar_ok_behind_consistent, planar_ok_behind_rev_consistent, planar_bad_focal_consistent, planar_bad_focal_rev_consistent, planar_bad_aspect_consistent, planar_bad_nf_consistent, planar_ok_neg_aspect_consistent, planar_neg_ok_rev_consistent, planar_neg_ok_behind_consistent, planar_neg_ok_behind_rev_consistent, planar_neg_bad_focal_consistent, planar_neg_bad_focal_rev_consistent, planar_neg_bad_aspect_consistent, planar_neg_bad_nf_consistent, planar_bad_fovy_lo_consistent, planar_bad_fovy_npi_consistent, planar_bad_fovy_hi_consistent, planar_bad_fovy_pi_consistent, planar_bad_height_consistent]
  generalize focalK fovy h = fp
  generalize -((Lits.radFull : K) / 2) = nP
  generalize (Lits.radFull : K) / 2 = P
  generalize ad52 (-a) 0 = za'
  generalize ad52 a 0 = za
  generalize ad52 f n = zf
  (repeat' apply And.intro) <;> grind
/-- **for every input exactly one of the twenty-one paths of `planar` is the one the code takes** (given that `near = far` exactly
tests as `far ≈ near`) -/
theorem planar_exactly_one (fovy a h n f : K) (hrefl : f = n → ad52 f n = true) :
    Tr.ExactlyOne (planarOkKernels fovy a h n f ++ planarBadKernels fovy a h n f) := by
  refine ⟨?_, planar_pairwise fovy a h n f⟩
  by_cases hp : PlanarPre fovy a h n f
  · obtain ⟨k, hk, hc⟩ := (planar_accepts_iff fovy a h n f hrefl).2 hp
    exact ⟨k, List.mem_append_left _ hk, hc⟩
  · obtain ⟨k, hk, hc⟩ := (planar_rejects_iff fovy a h n f hrefl).2 hp
    exact ⟨k, List.mem_append_right _ hk, hc⟩
end field

section field2
variable {K : Type} [Field K] [LinearOrder K] [IsStrictOrderedRing K] [Approx K] [Transc K] [FRem K] [Lits K]
/-! ## `perspective`: the five remaining paths (`fovy = π`, the rejections after a negative aspect); all fourteen -/
theorem g_perspective_bad_fovy_pi (fovy a n f : K) :
    (t_perspective_bad_fovy_pi (envL [fovy, a, n, f])).guards =
      [.cmp fovy 0 .gt, .cmp fovy (Lits.radFull / 2) .eq] := by
  simp [envL, eps52]
theorem g_perspective_neg_bad_aspect (fovy a n f : K) :
    (t_perspective_neg_bad_aspect (envL [fovy, a, n, f])).guards =
      [.cmp fovy 0 .gt, .cmp fovy (Lits.radFull / 2) .lt, .lt a 0 true, .absDiff (-a) 0 eps52 true, .lt a 0 true] := by
  simp [envL, eps52]
theorem g_perspective_neg_bad_near (fovy a n f : K) :
    (t_perspective_neg_bad_near (envL [fovy, a, n, f])).guards =
      [.cmp fovy 0 .gt, .cmp fovy (Lits.radFull / 2) .lt, .lt a 0 true, .absDiff (-a) 0 eps52 false, .lt 0 n false] := by
  simp [envL, eps52]
theorem g_perspective_neg_bad_far (fovy a n f : K) :
    (t_perspective_neg_bad_far (envL [fovy, a, n, f])).guards =
      [.cmp fovy 0 .gt, .cmp fovy (Lits.radFull / 2) .lt, .lt a 0 true, .absDiff (-a) 0 eps52 false, .lt 0 n true, .lt 0 f false] := by
  simp [envL, eps52]
theorem g_perspective_neg_bad_nf (fovy a n f : K) :
    (t_perspective_neg_bad_nf (envL [fovy, a, n, f])).guards =
      [.cmp fovy 0 .gt, .cmp fovy (Lits.radFull / 2) .lt, .lt a 0 true, .absDiff (-a) 0 eps52 false, .lt 0 n true, .lt 0 f true, .absDiff f n eps52 true] := by
  simp [envL, eps52]
theorem perspective_bad_fovy_pi_consistent (fovy a n f : K) :
    (t_perspective_bad_fovy_pi (envL [fovy, a, n, f])).Consistent ↔
      0 < fovy ∧ fovy = Lits.radFull / 2 := by
  rw [Tr.Consistent, g_perspective_bad_fovy_pi]; simp
theorem perspective_neg_bad_aspect_consistent (fovy a n f : K) :
    (t_perspective_neg_bad_aspect (envL [fovy, a, n, f])).Consistent ↔
      0 < fovy ∧ fovy < Lits.radFull / 2 ∧ a < 0 ∧ Approx.absDiffEq (-a) 0 (eps52 : K) = true := by
  rw [Tr.Consistent, g_perspective_neg_bad_aspect]; simp
  intro _ _ h _; exact h
theorem perspective_neg_bad_near_consistent (fovy a n f : K) :
    (t_perspective_neg_bad_near (envL [fovy, a, n, f])).Consistent ↔
      0 < fovy ∧ fovy < Lits.radFull / 2 ∧ a < 0 ∧ Approx.absDiffEq (-a) 0 (eps52 : K) = false ∧ ¬ 0 < n := by
  rw [Tr.Consistent, g_perspective_neg_bad_near]; simp
theorem perspective_neg_bad_far_consistent (fovy a n f : K) :
    (t_perspective_neg_bad_far (envL [fovy, a, n, f])).Consistent ↔
      0 < fovy ∧ fovy < Lits.radFull / 2 ∧ a < 0 ∧ Approx.absDiffEq (-a) 0 (eps52 : K) = false ∧ 0 < n ∧ ¬ 0 < f := by
  rw [Tr.Consistent, g_perspective_neg_bad_far]; simp
theorem perspective_neg_bad_nf_consistent (fovy a n f : K) :
    (t_perspective_neg_bad_nf (envL [fovy, a, n, f])).Consistent ↔
      0 < fovy ∧ fovy < Lits.radFull / 2 ∧ a < 0 ∧ Approx.absDiffEq (-a) 0 (eps52 : K) = false ∧ 0 < n ∧ 0 < f ∧ Approx.absDiffEq f n (eps52 : K) = true := by
  rw [Tr.Consistent, g_perspective_neg_bad_nf]; simp
/-- the two accepting paths of `From<PerspectiveFov>` -/
def perspOkKernels (fovy a n f : K) : List (Tr K) :=
  [t_perspective_ok (envL [fovy, a, n, f]),
   t_perspective_ok_neg_aspect (envL [fovy, a, n, f])]
/-- its twelve rejecting paths -/
def perspBadKernels (fovy a n f : K) : List (Tr K) :=
  [t_perspective_bad_fovy (envL [fovy, a, n, f]),
   t_perspective_bad_fovy_zero (envL [fovy, a, n, f]),
   t_perspective_bad_fovy_hi (envL [fovy, a, n, f]),
   t_perspective_bad_fovy_pi (envL [fovy, a, n, f]),
   t_perspective_bad_aspect (envL [fovy, a, n, f]),
   t_perspective_bad_near (envL [fovy, a, n, f]),
   t_perspective_bad_far (envL [fovy, a, n, f]),
   t_perspective_bad_nf (envL [fovy, a, n, f]),
   t_perspective_neg_bad_aspect (envL [fovy, a, n, f]),
   t_perspective_neg_bad_near (envL [fovy, a, n, f]),
   t_perspective_neg_bad_far (envL [fovy, a, n, f]),
   t_perspective_neg_bad_nf (envL [fovy, a, n, f])]
theorem persp_ok_res (fovy a n f : K) : ∀ k ∈ perspOkKernels fovy a n f, k.res = .ok := by
  simp [perspOkKernels]
theorem persp_bad_res (fovy a n f : K) : ∀ k ∈ perspBadKernels fovy a n f, k.res = .panic := by
  simp [perspBadKernels]
/-- **for every input exactly one of the fourteen paths of `perspective` is the one the code takes**: `perspective_exactly_one` of
`Cgm/E2E/C10g.lean` without its two hypotheses -/
theorem perspective_exactly_one_all (fovy a n f : K) :
    Tr.ExactlyOne (perspOkKernels fovy a n f ++ perspBadKernels fovy a n f) := by
  unfold Tr.ExactlyOne perspOkKernels perspBadKernels
  simp only [List.cons_append, List.nil_append, List.pairwise_cons, List.mem_cons, List.not_mem_nil, or_false, forall_eq_or_imp,
    forall_eq, exists_eq_or_imp, exists_eq_left, List.Pairwise.nil, and_true, IsEmpty.forall_iff, implies_true,
    perspective_ok_consistent, perspective_ok_neg_aspect_consistent, perspective_bad_fovy_consistent, perspective_bad_fovy_zero_consistent, perspective_bad_fovy_hi_consistent, perspective_bad_fovy_pi_consistent, perspective_bad_aspect_consistent, perspective_bad_near_consistent, perspective_bad_far_consistent, perspective_bad_nf_consistent, perspective_neg_bad_aspect_consistent, perspective_neg_bad_near_consistent, perspective_neg_bad_far_consistent, perspective_neg_bad_nf_consistent]
  generalize (Lits.radFull / 2 : K) = H
  generalize Approx.absDiffEq a 0 (eps52 : K) = t1
  generalize Approx.absDiffEq (-a) 0 (eps52 : K) = t1'
  generalize Approx.absDiffEq f n (eps52 : K) = t2
  refine ⟨by grind (splits := 60), ?_⟩
  (repeat' apply And.intro) <;> grind
/-- **`perspective` panics exactly when its precondition (as the code tests it) is violated**: some rejecting path is the one the
code takes iff `PerspPre` fails (with `perspective_accepts_iff`: an accepting one iff it holds), for every input -/
theorem perspective_rejects_iff (fovy a n f : K) :
    (∃ k ∈ perspBadKernels fovy a n f, k.Consistent) ↔ ¬ PerspPre fovy a n f := by
  simp only [perspBadKernels, List.mem_cons, List.not_mem_nil, or_false, exists_eq_or_imp, exists_eq_left,
    perspective_ok_consistent, perspective_ok_neg_aspect_consistent, perspective_bad_fovy_consistent, perspective_bad_fovy_zero_consistent, perspective_bad_fovy_hi_consistent, perspective_bad_fovy_pi_consistent, perspective_bad_aspect_consistent, perspective_bad_near_consistent, perspective_bad_far_consistent, perspective_bad_nf_consistent, perspective_neg_bad_aspect_consistent, perspective_neg_bad_near_consistent, perspective_neg_bad_far_consistent, perspective_neg_bad_nf_consistent, PerspPre, sabs]
  rw [show Approx.absDiffEq (if a < 0 then -a else a) 0 (eps52 : K) =
    if a < 0 then Approx.absDiffEq (-a) 0 (eps52 : K) else Approx.absDiffEq a 0 (eps52 : K) by split_ifs <;> rfl]
  generalize (Lits.radFull / 2 : K) = H
  generalize Approx.absDiffEq a 0 (eps52 : K) = t1
  generalize Approx.absDiffEq (-a) 0 (eps52 : K) = t1'
  generalize Approx.absDiffEq f n (eps52 : K) = t2
  grind (splits := 60)

/-! ## the struct-form and `Deg` entry points: path by path the kernel of the free function

`PerspectiveFov { .. }.into()`, `PlanarFov { .. }.into()`, `Perspective { .. }.into()` record the same comparisons and return the same
expressions as `perspective`, `planar`, `frustum` (the kernels are equal as traced terms, for every input); `perspective(Deg(x), ..)` is
`perspective(Rad(x · π/180), ..)`.  So every statement of this file, `C10g.lean` and `C10h.lean` about the free functions' kernels holds of them. -/
theorem perspective_s_eq (fovy a n f : K) :
    t_perspective_s_ok (envL [fovy, a, n, f]) = t_perspective_ok (envL [fovy, a, n, f]) ∧
    t_perspective_s_ok_neg_aspect (envL [fovy, a, n, f]) = t_perspective_ok_neg_aspect (envL [fovy, a, n, f]) ∧
    t_perspective_s_bad_fovy (envL [fovy, a, n, f]) = t_perspective_bad_fovy (envL [fovy, a, n, f]) ∧
    t_perspective_s_bad_fovy_zero (envL [fovy, a, n, f]) = t_perspective_bad_fovy_zero (envL [fovy, a, n, f]) ∧
    t_perspective_s_bad_fovy_hi (envL [fovy, a, n, f]) = t_perspective_bad_fovy_hi (envL [fovy, a, n, f]) ∧
    t_perspective_s_bad_fovy_pi (envL [fovy, a, n, f]) = t_perspective_bad_fovy_pi (envL [fovy, a, n, f]) ∧
    t_perspective_s_bad_aspect (envL [fovy, a, n, f]) = t_perspective_bad_aspect (envL [fovy, a, n, f]) ∧
    t_perspective_s_bad_near (envL [fovy, a, n, f]) = t_perspective_bad_near (envL [fovy, a, n, f]) ∧
    t_perspective_s_bad_far (envL [fovy, a, n, f]) = t_perspective_bad_far (envL [fovy, a, n, f]) ∧
    t_perspective_s_bad_nf (envL [fovy, a, n, f]) = t_perspective_bad_nf (envL [fovy, a, n, f]) ∧
    t_perspective_s_neg_bad_aspect (envL [fovy, a, n, f]) = t_perspective_neg_bad_aspect (envL [fovy, a, n, f]) ∧
    t_perspective_s_neg_bad_near (envL [fovy, a, n, f]) = t_perspective_neg_bad_near (envL [fovy, a, n, f]) ∧
    t_perspective_s_neg_bad_far (envL [fovy, a, n, f]) = t_perspective_neg_bad_far (envL [fovy, a, n, f]) ∧
    t_perspective_s_neg_bad_nf (envL [fovy, a, n, f]) = t_perspective_neg_bad_nf (envL [fovy, a, n, f]) := by
  refine ⟨rfl, rfl, rfl, rfl, rfl, rfl, rfl, rfl, rfl, rfl, rfl, rfl, rfl, rfl⟩
theorem perspective_deg_eq (fovy a n f : K) :
    t_perspective_deg_ok (envL [fovy, a, n, f]) = t_perspective_ok (envL [degToRad fovy, a, n, f]) ∧
    t_perspective_deg_ok_neg_aspect (envL [fovy, a, n, f]) = t_perspective_ok_neg_aspect (envL [degToRad fovy, a, n, f]) ∧
    t_perspective_deg_bad_fovy (envL [fovy, a, n, f]) = t_perspective_bad_fovy (envL [degToRad fovy, a, n, f]) ∧
    t_perspective_deg_bad_fovy_zero (envL [fovy, a, n, f]) = t_perspective_bad_fovy_zero (envL [degToRad fovy, a, n, f]) ∧
    t_perspective_deg_bad_fovy_hi (envL [fovy, a, n, f]) = t_perspective_bad_fovy_hi (envL [degToRad fovy, a, n, f]) ∧
    t_perspective_deg_bad_fovy_pi (envL [fovy, a, n, f]) = t_perspective_bad_fovy_pi (envL [degToRad fovy, a, n, f]) ∧
    t_perspective_deg_bad_aspect (envL [fovy, a, n, f]) = t_perspective_bad_aspect (envL [degToRad fovy, a, n, f]) ∧
    t_perspective_deg_bad_near (envL [fovy, a, n, f]) = t_perspective_bad_near (envL [degToRad fovy, a, n, f]) ∧
    t_perspective_deg_bad_far (envL [fovy, a, n, f]) = t_perspective_bad_far (envL [degToRad fovy, a, n, f]) ∧
    t_perspective_deg_bad_nf (envL [fovy, a, n, f]) = t_perspective_bad_nf (envL [degToRad fovy, a, n, f]) ∧
    t_perspective_deg_neg_bad_aspect (envL [fovy, a, n, f]) = t_perspective_neg_bad_aspect (envL [degToRad fovy, a, n, f]) ∧
    t_perspective_deg_neg_bad_near (envL [fovy, a, n, f]) = t_perspective_neg_bad_near (envL [degToRad fovy, a, n, f]) ∧
    t_perspective_deg_neg_bad_far (envL [fovy, a, n, f]) = t_perspective_neg_bad_far (envL [degToRad fovy, a, n, f]) ∧
    t_perspective_deg_neg_bad_nf (envL [fovy, a, n, f]) = t_perspective_neg_bad_nf (envL [degToRad fovy, a, n, f]) := by
  refine ⟨?_, ?_, ?_, ?_, ?_, ?_, ?_, ?_, ?_, ?_, ?_, ?_, ?_, ?_⟩ <;> simp [envL, degToRad]
theorem planar_s_eq (fovy a h n f : K) :
    t_planar_s_ok (envL [fovy, a, h, n, f]) = t_planar_ok (envL [fovy, a, h, n, f]) ∧
    t_planar_s_ok_rev (envL [fovy, a, h, n, f]) = t_planar_ok_rev (envL [fovy, a, h, n, f]) ∧
    t_planar_s_ok_behind (envL [fovy, a, h, n, f]) = t_planar_ok_behind (envL [fovy, a, h, n, f]) ∧
    t_planar_s_ok_behind_rev (envL [fovy, a, h, n, f]) = t_planar_ok_behind_rev (envL [fovy, a, h, n, f]) ∧
    t_planar_s_ok_neg_aspect (envL [fovy, a, h, n, f]) = t_planar_ok_neg_aspect (envL [fovy, a, h, n, f]) ∧
    t_planar_s_neg_ok_rev (envL [fovy, a, h, n, f]) = t_planar_neg_ok_rev (envL [fovy, a, h, n, f]) ∧
    t_planar_s_neg_ok_behind (envL [fovy, a, h, n, f]) = t_planar_neg_ok_behind (envL [fovy, a, h, n, f]) ∧
    t_planar_s_neg_ok_behind_rev (envL [fovy, a, h, n, f]) = t_planar_neg_ok_behind_rev (envL [fovy, a, h, n, f]) ∧
    t_planar_s_bad_focal (envL [fovy, a, h, n, f]) = t_planar_bad_focal (envL [fovy, a, h, n, f]) ∧
    t_planar_s_bad_focal_rev (envL [fovy, a, h, n, f]) = t_planar_bad_focal_rev (envL [fovy, a, h, n, f]) ∧
    t_planar_s_bad_aspect (envL [fovy, a, h, n, f]) = t_planar_bad_aspect (envL [fovy, a, h, n, f]) ∧
    t_planar_s_bad_nf (envL [fovy, a, h, n, f]) = t_planar_bad_nf (envL [fovy, a, h, n, f]) ∧
    t_planar_s_neg_bad_focal (envL [fovy, a, h, n, f]) = t_planar_neg_bad_focal (envL [fovy, a, h, n, f]) ∧
    t_planar_s_neg_bad_focal_rev (envL [fovy, a, h, n, f]) = t_planar_neg_bad_focal_rev (envL [fovy, a, h, n, f]) ∧
    t_planar_s_neg_bad_aspect (envL [fovy, a, h, n, f]) = t_planar_neg_bad_aspect (envL [fovy, a, h, n, f]) ∧
    t_planar_s_neg_bad_nf (envL [fovy, a, h, n, f]) = t_planar_neg_bad_nf (envL [fovy, a, h, n, f]) ∧
    t_planar_s_bad_fovy_lo (envL [fovy, a, h, n, f]) = t_planar_bad_fovy_lo (envL [fovy, a, h, n, f]) ∧
    t_planar_s_bad_fovy_npi (envL [fovy, a, h, n, f]) = t_planar_bad_fovy_npi (envL [fovy, a, h, n, f]) ∧
    t_planar_s_bad_fovy_hi (envL [fovy, a, h, n, f]) = t_planar_bad_fovy_hi (envL [fovy, a, h, n, f]) ∧
    t_planar_s_bad_fovy_pi (envL [fovy, a, h, n, f]) = t_planar_bad_fovy_pi (envL [fovy, a, h, n, f]) ∧
    t_planar_s_bad_height (envL [fovy, a, h, n, f]) = t_planar_bad_height (envL [fovy, a, h, n, f]) := by
  refine ⟨rfl, rfl, rfl, rfl, rfl, rfl, rfl, rfl, rfl, rfl, rfl, rfl, rfl, rfl, rfl, rfl, rfl, rfl, rfl, rfl, rfl⟩
theorem frustum_s_eq (l r b t n f : K) :
    t_frustum_s_ok (envL [l, r, b, t, n, f]) = t_frustum_ok (envL [l, r, b, t, n, f]) ∧
    t_frustum_s_bad_lr (envL [l, r, b, t, n, f]) = t_frustum_bad_lr (envL [l, r, b, t, n, f]) ∧
    t_frustum_s_bad_bt (envL [l, r, b, t, n, f]) = t_frustum_bad_bt (envL [l, r, b, t, n, f]) ∧
    t_frustum_s_bad_nf (envL [l, r, b, t, n, f]) = t_frustum_bad_nf (envL [l, r, b, t, n, f]) ∧
    t_ortho_s (envL [l, r, b, t, n, f]) = t_ortho (envL [l, r, b, t, n, f]) := by
  refine ⟨rfl, rfl, rfl, rfl, rfl⟩
/-- hence: exactly one of the fourteen struct-form (`Deg`) kernels of `perspective`, of the twenty-one struct-form kernels of
`planar`, of the four of `Perspective { .. }.into()` is consistent, and it is the one with the free function's name -/
theorem perspective_s_exactly_one (fovy a n f : K) :
    Tr.ExactlyOne ([t_perspective_s_ok (envL [fovy, a, n, f]), t_perspective_s_ok_neg_aspect (envL [fovy, a, n, f]), t_perspective_s_bad_fovy (envL [fovy, a, n, f]), t_perspective_s_bad_fovy_zero (envL [fovy, a, n, f]), t_perspective_s_bad_fovy_hi (envL [fovy, a, n, f]), t_perspective_s_bad_fovy_pi (envL [fovy, a, n, f]), t_perspective_s_bad_aspect (envL [fovy, a, n, f]), t_perspective_s_bad_near (envL [fovy, a, n, f]), t_perspective_s_bad_far (envL [fovy, a, n, f]), t_perspective_s_bad_nf (envL [fovy, a, n, f]), t_perspective_s_neg_bad_aspect (envL [fovy, a, n, f]), t_perspective_s_neg_bad_near (envL [fovy, a, n, f]), t_perspective_s_neg_bad_far (envL [fovy, a, n, f]), t_perspective_s_neg_bad_nf (envL [fovy, a, n, f])] : List (Tr K)) :=
  perspective_exactly_one_all fovy a n f
theorem perspective_deg_exactly_one (fovy a n f : K) :
    Tr.ExactlyOne ([t_perspective_deg_ok (envL [fovy, a, n, f]), t_perspective_deg_ok_neg_aspect (envL [fovy, a, n, f]), t_perspective_deg_bad_fovy (envL [fovy, a, n, f]), t_perspective_deg_bad_fovy_zero (envL [fovy, a, n, f]), t_perspective_deg_bad_fovy_hi (envL [fovy, a, n, f]), t_perspective_deg_bad_fovy_pi (envL [fovy, a, n, f]), t_perspective_deg_bad_aspect (envL [fovy, a, n, f]), t_perspective_deg_bad_near (envL [fovy, a, n, f]), t_perspective_deg_bad_far (envL [fovy, a, n, f]), t_perspective_deg_bad_nf (envL [fovy, a, n, f]), t_perspective_deg_neg_bad_aspect (envL [fovy, a, n, f]), t_perspective_deg_neg_bad_near (envL [fovy, a, n, f]), t_perspective_deg_neg_bad_far (envL [fovy, a, n, f]), t_perspective_deg_neg_bad_nf (envL [fovy, a, n, f])] : List (Tr K)) := by
  obtain ⟨e0, e1, e2, e3, e4, e5, e6, e7, e8, e9, e10, e11, e12, e13⟩ := perspective_deg_eq fovy a n f
  rw [e0, e1, e2, e3, e4, e5, e6, e7, e8, e9, e10, e11, e12, e13]
  exact perspective_exactly_one_all (degToRad fovy) a n f
theorem planar_s_exactly_one (fovy a h n f : K) (hrefl : f = n → ad52 f n = true) :
    Tr.ExactlyOne ([t_planar_s_ok (envL [fovy, a, h, n, f]), t_planar_s_ok_rev (envL [fovy, a, h, n, f]), t_planar_s_ok_behind (envL [fovy, a, h, n, f]), t_planar_s_ok_behind_rev (envL [fovy, a, h, n, f]), t_planar_s_ok_neg_aspect (envL [fovy, a, h, n, f]), t_planar_s_neg_ok_rev (envL [fovy, a, h, n, f]), t_planar_s_neg_ok_behind (envL [fovy, a, h, n, f]), t_planar_s_neg_ok_behind_rev (envL [fovy, a, h, n, f]), t_planar_s_bad_focal (envL [fovy, a, h, n, f]), t_planar_s_bad_focal_rev (envL [fovy, a, h, n, f]), t_planar_s_bad_aspect (envL [fovy, a, h, n, f]), t_planar_s_bad_nf (envL [fovy, a, h, n, f]), t_planar_s_neg_bad_focal (envL [fovy, a, h, n, f]), t_planar_s_neg_bad_focal_rev (envL [fovy, a, h, n, f]), t_planar_s_neg_bad_aspect (envL [fovy, a, h, n, f]), t_planar_s_neg_bad_nf (envL [fovy, a, h, n, f]), t_planar_s_bad_fovy_lo (envL [fovy, a, h, n, f]), t_planar_s_bad_fovy_npi (envL [fovy, a, h, n, f]), t_planar_s_bad_fovy_hi (envL [fovy, a, h, n, f]), t_planar_s_bad_fovy_pi (envL [fovy, a, h, n, f]), t_planar_s_bad_height (envL [fovy, a, h, n, f])] : List (Tr K)) :=
  planar_exactly_one fovy a h n f hrefl
theorem frustum_s_exactly_one (l r b t n f : K) :
    Tr.ExactlyOne ([t_frustum_s_ok (envL [l, r, b, t, n, f]), t_frustum_s_bad_lr (envL [l, r, b, t, n, f]), t_frustum_s_bad_bt (envL [l, r, b, t, n, f]), t_frustum_s_bad_nf (envL [l, r, b, t, n, f])] : List (Tr K)) :=
  frustum_exactlyOne l r b t n f

end field2

/-! ## `planar` at the real instances -/
section concrete
open scoped Cg.RealApprox

theorem ad52_real (x y : ℝ) : ad52 x y = absDiffEqD x y := rfl
theorem focalK_real (fovy h : ℝ) : focalK fovy h = C10.planarFocal fovy h := rfl
/-- `near = far` exactly tests as `far ≈ near` -/
theorem ad52_refl_real (n f : ℝ) : f = n → ad52 f n = true := by
  rintro rfl
  rw [ad52_real, real_absDiffEqD, sub_self, abs_zero]; exact eps52R_pos.le

/-- the precondition in the property's vocabulary: `|fovy| < π`, `height ≥ 0`, `|aspect| > 2^-52`, `|far - near| > 2^-52`, and the
focal point `-(h/2) cot(fovy/2)` (`planarFocal_real`) strictly in front of the nearer or behind the farther plane -/
theorem planarPre_real (fovy a h n f : ℝ) :
    PlanarPre fovy a h n f ↔ |fovy| < Real.pi ∧ 0 ≤ h ∧ eps52R < |a| ∧ eps52R < |f - n| ∧
      (C10.planarFocal fovy h < min n f ∨ max n f < C10.planarFocal fovy h) := by
  unfold PlanarPre
  rw [half_turn, ad52_real, ad52_real, absDiff_false, absDiff_false, sabs_eq_abs, sub_zero, abs_abs, smin_eq_min, smax_eq_max,
    min_comm f n, max_comm f n, focalK_real, abs_lt]
  tauto

/-- **`planar` panics exactly when `|fovy| ≥ π ∨ h < 0 ∨ aspect ≈ 0 ∨ near ≈ far ∨ focal point between the planes`**: some
rejecting path is the one the code takes iff the stated precondition is violated, an accepting one iff it holds; for every input
exactly one of the twenty-one paths is taken.  (The comparisons are those of the traced kernels: exact arithmetic.  On the two
input classes with `tan(fovy/2) = 0` IEEE arithmetic evaluates the focal point differently without making a comparison; there the
kernels are not tied to the model, see `code_planar_accept_any` / `code_planar_reject_any`.) -/
theorem code_planar_panics_iff (fovy a h n f : ℝ) :
    ((∃ k ∈ planarBadKernels fovy a h n f, k.Consistent) ↔
      Real.pi ≤ |fovy| ∨ h < 0 ∨ |a| ≤ eps52R ∨ |f - n| ≤ eps52R ∨
        (min n f ≤ C10.planarFocal fovy h ∧ C10.planarFocal fovy h ≤ max n f)) ∧
    ((∃ k ∈ planarOkKernels fovy a h n f, k.Consistent) ↔
      |fovy| < Real.pi ∧ 0 ≤ h ∧ eps52R < |a| ∧ eps52R < |f - n| ∧
        (C10.planarFocal fovy h < min n f ∨ max n f < C10.planarFocal fovy h)) ∧
    Tr.ExactlyOne (planarOkKernels fovy a h n f ++ planarBadKernels fovy a h n f) ∧
    (∀ k ∈ planarBadKernels fovy a h n f, k.res = .panic) ∧ (∀ k ∈ planarOkKernels fovy a h n f, k.res = .ok) := by
  have hr := ad52_refl_real n f
  refine ⟨?_, ?_, planar_exactly_one fovy a h n f hr, planar_bad_res fovy a h n f, planar_ok_res fovy a h n f⟩
  · rw [planar_rejects_iff fovy a h n f hr, planarPre_real]
    simp only [not_and_or, not_or, not_lt, not_le]
  · rw [planar_accepts_iff fovy a h n f hr, planarPre_real]

/-- **an accepting path consistent ⇒ the output is THE matrix of the model (pinned), with the window / depth mapping**
(`PlanarMaps`, `Cgm/E2E/C10h.lean`): whichever of the eight accepting paths is the one the code takes, away from
`tan(fovy/2) = 0 ∧ h = 0` (where the code's `inv_f` is `0/0`) -/
theorem code_planar_accept_any (fovy a h n f : ℝ) (hreg : ¬ (Real.tan (fovy / 2) = 0 ∧ h = 0)) :
    ∀ k ∈ planarOkKernels fovy a h n f, k.Consistent →
      ∃ m : M4 ℝ, k.res = .ok ∧ k.out = m.toList ∧ (∀ m' : M4 ℝ, k.out = m'.toList → m' = m) ∧
        planar fovy a h n f = some m ∧ m = planarMat fovy a h n f ∧ PlanarMaps a h n f m := by
  intro k hk hc
  obtain ⟨p1, p2, p3, p4, p5, p6⟩ := (planar_accepts_iff fovy a h n f (ad52_refl_real n f)).1 ⟨k, hk, hc⟩
  have hp := Trace.C10Paths.planar_accept fovy a h n f p1 p2 p3 p4 p5 (hreg_of hreg p3) p6
  obtain ⟨e, hm⟩ := planar_path_maps fovy a h n f hp
  have fin : ∀ (k : Tr ℝ) (g : List (G ℝ)), k = .okG (((planar fovy a h n f).map M4.toList).getD []) g →
      ∃ m : M4 ℝ, k.res = .ok ∧ k.out = m.toList ∧ (∀ m' : M4 ℝ, k.out = m'.toList → m' = m) ∧
        planar fovy a h n f = some m ∧ m = planarMat fovy a h n f ∧ PlanarMaps a h n f m := by
    intro k g hk
    rw [e] at hk
    subst hk
    exact ⟨_, rfl, rfl, fun m' h => (M4.toList_injective h).symm, hp, rfl, hm⟩
  simp only [planarOkKernels, List.mem_cons, List.not_mem_nil, or_false] at hk
  revert hc
  rcases hk with rfl | rfl | rfl | rfl | rfl | rfl | rfl | rfl
  · intro hc; obtain ⟨c1, c2, c3, c4, c5, c6, c7, c8⟩ := (planar_ok_consistent fovy a h n f).1 hc
    exact fin _ _ (Trace.C10.t_planar_ok fovy a h n f c1 c2 c3 c4 c5 c6 c7 c8 (hreg_of hreg c3))
  · intro hc; obtain ⟨c1, c2, c3, c4, c5, c6, c7, c8⟩ := (planar_ok_rev_consistent fovy a h n f).1 hc
    exact fin _ _ (Trace.C10Paths.t_planar_ok_rev fovy a h n f c1 c2 c3 c4 c5 c6 c7 c8 (hreg_of hreg c3))
  · intro hc; obtain ⟨c1, c2, c3, c4, c5, c6, c7, c8, c9⟩ := (planar_ok_behind_consistent fovy a h n f).1 hc
    exact fin _ _ (Trace.C10Paths.t_planar_ok_behind fovy a h n f c1 c2 c3 c4 c5 c6 c7 c8 c9 (hreg_of hreg c3))
  · intro hc; obtain ⟨c1, c2, c3, c4, c5, c6, c8, c7, c9⟩ := (planar_ok_behind_rev_consistent fovy a h n f).1 hc
    exact fin _ _ (Trace.C10Paths.t_planar_ok_behind_rev fovy a h n f c1 c2 c3 c4 c5 c6 c7 c8 c9 (hreg_of hreg c3))
  · intro hc; obtain ⟨c1, c2, c3, c4, c5, c6, c7, c8⟩ := (planar_ok_neg_aspect_consistent fovy a h n f).1 hc
    exact fin _ _ (Trace.C10Paths.t_planar_ok_neg_aspect fovy a h n f c1 c2 c3 c4 c5 c6 c7 c8 (hreg_of hreg c3))
  · intro hc; obtain ⟨c1, c2, c3, c4, c5, c6, c7, c8⟩ := (planar_neg_ok_rev_consistent fovy a h n f).1 hc
    exact fin _ _ (Trace.C10More.t_planar_neg_ok_rev fovy a h n f c1 c2 c3 c4 c5 c6 c7 c8 (hreg_of hreg c3))
  · intro hc; obtain ⟨c1, c2, c3, c4, c5, c6, c7, c8, c9⟩ := (planar_neg_ok_behind_consistent fovy a h n f).1 hc
    exact fin _ _ (Trace.C10More.t_planar_neg_ok_behind fovy a h n f c1 c2 c3 c4 c5 c6 c7 c8 c9 (hreg_of hreg c3))
  · intro hc; obtain ⟨c1, c2, c3, c4, c5, c6, c8, c7, c9⟩ := (planar_neg_ok_behind_rev_consistent fovy a h n f).1 hc
    exact fin _ _ (Trace.C10More.t_planar_neg_ok_behind_rev fovy a h n f c1 c2 c3 c4 c5 c6 c7 c8 c9 (hreg_of hreg c3))

/-- **a rejecting path consistent ⇒ a panic, and the model returns no matrix**: whichever of the thirteen rejecting paths is the one
the code takes, away from `tan(fovy/2) = 0 ∧ h > 0` (where the code's focal point is an infinity and IEEE arithmetic accepts) -/
theorem code_planar_reject_any (fovy a h n f : ℝ) (hfin : ¬ (Real.tan (fovy / 2) = 0 ∧ 0 < h)) :
    ∀ k ∈ planarBadKernels fovy a h n f, k.Consistent → k.res = .panic ∧ k.out = [] ∧ planar fovy a h n f = none := by
  intro k hk
  have hres := planar_bad_res fovy a h n f k hk
  have hout : k.out = [] := by
    simp only [planarBadKernels, List.mem_cons, List.not_mem_nil, or_false] at hk
    rcases hk with rfl | rfl | rfl | rfl | rfl | rfl | rfl | rfl | rfl | rfl | rfl | rfl | rfl <;> simp
  refine fun hc => ⟨hres, hout, ?_⟩
  simp only [planarBadKernels, List.mem_cons, List.not_mem_nil, or_false] at hk
  revert hc
  rcases hk with rfl | rfl | rfl | rfl | rfl | rfl | rfl | rfl | rfl | rfl | rfl | rfl | rfl
  · intro hc; obtain ⟨c1, c2, c3, c4, c5, c6, c7, c8, c9⟩ := (planar_bad_focal_consistent fovy a h n f).1 hc
    exact (Trace.C10Paths.t_planar_bad_focal fovy a h n f c1 c2 c3 c4 c5 c6 c7 c8 c9 (hfin_of hfin)).2
  · intro hc; obtain ⟨c1, c2, c3, c4, c5, c6, c8, c7, c9⟩ := (planar_bad_focal_rev_consistent fovy a h n f).1 hc
    exact (Trace.C10Paths.t_planar_bad_focal_rev fovy a h n f c1 c2 c3 c4 c5 c6 c7 c8 c9 (hfin_of hfin)).2
  · intro hc; obtain ⟨c1, c2, c3, c4, c5⟩ := (planar_bad_aspect_consistent fovy a h n f).1 hc
    exact (Trace.C10Paths.t_planar_bad_aspect fovy a h n f c1 c2 c3 c4 c5).2
  · intro hc; obtain ⟨c1, c2, c3, c4, c5, c6⟩ := (planar_bad_nf_consistent fovy a h n f).1 hc
    exact (Trace.C10Paths.t_planar_bad_nf fovy a h n f c1 c2 c3 c4 c5 c6).2
  · intro hc; obtain ⟨c1, c2, c3, c4, c5, c6, c7, c8, c9⟩ := (planar_neg_bad_focal_consistent fovy a h n f).1 hc
    exact (Trace.C10More.t_planar_neg_bad_focal fovy a h n f c1 c2 c3 c4 c5 c6 c7 c8 c9 (hfin_of hfin)).2
  · intro hc; obtain ⟨c1, c2, c3, c4, c5, c6, c8, c7, c9⟩ := (planar_neg_bad_focal_rev_consistent fovy a h n f).1 hc
    exact (Trace.C10More.t_planar_neg_bad_focal_rev fovy a h n f c1 c2 c3 c4 c5 c6 c7 c8 c9 (hfin_of hfin)).2
  · intro hc; obtain ⟨c1, c2, c3, c4, c5⟩ := (planar_neg_bad_aspect_consistent fovy a h n f).1 hc
    exact (Trace.C10More.t_planar_neg_bad_aspect fovy a h n f c1 c2 c3 c4 c5).2
  · intro hc; obtain ⟨c1, c2, c3, c4, c5, c6⟩ := (planar_neg_bad_nf_consistent fovy a h n f).1 hc
    exact (Trace.C10More.t_planar_neg_bad_nf fovy a h n f c1 c2 c3 c4 c5 c6).2
  · intro hc; obtain c1 := (planar_bad_fovy_lo_consistent fovy a h n f).1 hc
    exact (Trace.C10Paths.t_planar_bad_fovy_lo fovy a h n f c1).2
  · intro hc; obtain c1 := (planar_bad_fovy_npi_consistent fovy a h n f).1 hc
    exact (Trace.C10More.t_planar_bad_fovy_npi fovy a h n f c1).2
  · intro hc; obtain ⟨c1, c2⟩ := (planar_bad_fovy_hi_consistent fovy a h n f).1 hc
    exact (Trace.C10Paths.t_planar_bad_fovy_hi fovy a h n f c1 c2).2
  · intro hc; obtain ⟨c1, c2⟩ := (planar_bad_fovy_pi_consistent fovy a h n f).1 hc
    exact (Trace.C10More.t_planar_bad_fovy_pi fovy a h n f c1 c2).2
  · intro hc; obtain ⟨c1, c2, c3⟩ := (planar_bad_height_consistent fovy a h n f).1 hc
    exact (Trace.C10Paths.t_planar_bad_height fovy a h n f c1 c2 c3).2

/-- not vacuous: the traced inputs (`fovy = π/2`, `height 2`: focal point at `-1`): `planar(π/2, 1, 2, 1, 10)` takes the accepting
path `ok`, `planar(π/2, 1, 2, -2, 0)` the rejecting path `bad_focal` -/
example : (t_planar_ok (envL [Real.pi / 2, 1, 2, 1, 10])).Consistent ∧
    (t_planar_bad_focal (envL [Real.pi / 2, 1, 2, -2, 0])).Consistent := by
  have hp := Real.pi_pos
  have he : eps52R < 1 := by unfold eps52R; norm_num
  have e : Real.pi / 2 / 2 = Real.pi / 4 := by ring
  have hk : focalK (Real.pi / 2) 2 = -1 := by
    rw [focalK_real, planarFocal_real, e, Real.tan_pi_div_four]; norm_num
  have hP := half_turn
  rw [planar_ok_consistent, planar_bad_focal_consistent, hk, hP]
  simp only [ad52_real, absDiff_false]
  refine ⟨⟨by linarith, by linarith, by norm_num, by norm_num, ?_, ?_, by norm_num, by norm_num⟩,
    ⟨by linarith, by linarith, by norm_num, by norm_num, ?_, ?_, by norm_num, by norm_num, by norm_num⟩⟩ <;> norm_num <;> linarith
end concrete

end Cg.E2E.C10
