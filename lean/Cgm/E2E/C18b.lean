import Cgm.E2E.C18
import Cgm.Trace.C18Ops
import Cgm.Trace.C18OpsM
import Cgm.Trace.C18OpsD
import Cgm.Props.C18c
import Cgm.Lemmas.GuardSem
/-!
# C18, end to end: the three approximate-equality relations of the compound types, as computed

GENERATED once by `tools/gen_ops_obl.py` (`tools/gen_ops_e2e.py`) from the kernel table `lib/cgv/tracetab_ops.py`; kept as an
ordinary source file.

For every type `t` in `v1..v4, p1..p3, m2..m4, q, rad, deg` and every relation (`abs_diff_eq`, `relative_eq`, `ulps_eq`,
tolerances passed explicitly) the kernels `Cg.Gen.C18.t_<t>_<rel>_true / _false_k` are ALL the paths of the `&&` chain.  Per
type and relation:

* `<t>_<rel>_*_consistent`: the `true` path is the one taken (`Tr.Consistent`, `Cgm/Lemmas/GuardSem.lean`) iff the SCALAR
  relation, with the tolerance arguments the call was given, holds on every pair of corresponding components; the
  `false_k` path iff it holds on the pairs before `k` and fails on pair `k`;
* `<t>_<rel>_exactly_one`: for every input exactly one path is the one taken;
* `code_<t>_<rel>`: the path taken returns normally one boolean, the model's relation (`Book4.lean`), and that boolean is
  `true` iff the scalar relation with the same tolerance arguments holds on every component pair (`Props/C18c.lean`).

`max_ulps` is a literal of the traced kernels (`4`).  Default-tolerance macro forms (`abs_diff_eq!(a, b)`, …): `code_<t>_<rel>_d`
-- when the recording scalar's defaults (`2^-52`, `2^-52`, `4`) are the scalar type's (`DefaultTols`), the `true` / `false_0`
path taken returns the model's `XD` form; for the matrices the comparisons are made with `Lits.matEps` (`1e-6`), for every
other type with the scalar's `default_epsilon`.
-/
set_option linter.unusedSectionVars false
set_option linter.unusedVariables false
set_option linter.unusedSimpArgs false
set_option linter.unnecessarySeqFocus false
namespace Cg.E2E.C18
open Cg Cg.Gen.C18 Cg.Trace.C18Rest

section ops
variable {K : Type} [Field K] [LinearOrder K] [Approx K] [Transc K] [FRem K] [Lits K]

/-! ## explicit tolerances -/
/-! ### `v1.abs_diff_eq` -/
/-- this path is the one taken iff every component pair is within tolerance -/
theorem v1_abs_diff_eq_true_consistent (a b : V1 K) (e : K) :
    (t_v1_abs_diff_eq_true (envL (a.toList ++ b.toList ++ [e]))).Consistent ↔ Approx.absDiffEq a.x b.x e = true := by
  simp [Tr.Consistent, envL, V1.toList]
/-- this path is the one taken iff component pair `0` is the first that is not within tolerance -/
theorem v1_abs_diff_eq_false_0_consistent (a b : V1 K) (e : K) :
    (t_v1_abs_diff_eq_false_0 (envL (a.toList ++ b.toList ++ [e]))).Consistent ↔ Approx.absDiffEq a.x b.x e = false := by
  simp [Tr.Consistent, envL, V1.toList]
/-- the traced paths of `v1.abs_diff_eq` on the input -/
def v1AbsDiffEq (a b : V1 K) (e : K) : List (Tr K) :=
    [t_v1_abs_diff_eq_true (envL (a.toList ++ b.toList ++ [e])), t_v1_abs_diff_eq_false_0 (envL (a.toList ++ b.toList ++ [e]))]
/-- for every input exactly one of the paths is the one taken -/
theorem v1_abs_diff_eq_exactly_one (a b : V1 K) (e : K) : Tr.ExactlyOne (v1AbsDiffEq a b e) := by
  unfold Tr.ExactlyOne v1AbsDiffEq
  simp only [List.pairwise_cons, List.mem_cons, List.not_mem_nil, or_false, forall_eq_or_imp, forall_eq, exists_eq_or_imp,
    exists_eq_left, List.Pairwise.nil, and_true, IsEmpty.forall_iff, implies_true, false_imp_iff, exists_false,
    v1_abs_diff_eq_true_consistent, v1_abs_diff_eq_false_0_consistent]
  generalize Approx.absDiffEq a.x b.x e = r0
  cases r0
  · simp
  simp
/-- **`v1.abs_diff_eq` as computed**: exactly one traced path is taken; the path taken returns normally one boolean, the model's
relation; and that is `true` iff the scalar relation WITH THE SAME TOLERANCE ARGUMENTS holds on every component pair -/
theorem code_v1_abs_diff_eq (a b : V1 K) (e : K) :
    Tr.ExactlyOne (v1AbsDiffEq a b e) ∧
    (∀ t ∈ v1AbsDiffEq a b e, t.Consistent → t.res = .ok ∧ t.out = [] ∧ t.bools = [V1.absDiffEq a b e]) ∧
    (V1.absDiffEq a b e = true ↔ Approx.absDiffEq a.x b.x e = true) := by
  refine ⟨v1_abs_diff_eq_exactly_one a b e, ?_, Cg.C18.V1.absDiffEq_iff a b e⟩
  intro t ht
  simp only [v1AbsDiffEq, List.mem_cons, List.not_mem_nil, or_false] at ht
  rcases ht with rfl | rfl
  · intro hc
    have h0 := (v1_abs_diff_eq_true_consistent a b e).1 hc
    rw [(Trace.C18Ops.t_v1_abs_diff_eq_true a b e h0).1]; exact ⟨rfl, rfl, rfl⟩
  · intro hc
    have h0 := (v1_abs_diff_eq_false_0_consistent a b e).1 hc
    rw [(Trace.C18Ops.t_v1_abs_diff_eq_false_0 a b e h0).1]; exact ⟨rfl, rfl, rfl⟩

/-! ### `v1.relative_eq` -/
/-- this path is the one taken iff every component pair is within tolerance -/
theorem v1_relative_eq_true_consistent (a b : V1 K) (e m : K) :
    (t_v1_relative_eq_true (envL (a.toList ++ b.toList ++ [e, m]))).Consistent ↔ Approx.relEq a.x b.x e m = true := by
  simp [Tr.Consistent, envL, V1.toList]
/-- this path is the one taken iff component pair `0` is the first that is not within tolerance -/
theorem v1_relative_eq_false_0_consistent (a b : V1 K) (e m : K) :
    (t_v1_relative_eq_false_0 (envL (a.toList ++ b.toList ++ [e, m]))).Consistent ↔ Approx.relEq a.x b.x e m = false := by
  simp [Tr.Consistent, envL, V1.toList]
/-- the traced paths of `v1.relative_eq` on the input -/
def v1RelEq (a b : V1 K) (e m : K) : List (Tr K) :=
    [t_v1_relative_eq_true (envL (a.toList ++ b.toList ++ [e, m])), t_v1_relative_eq_false_0 (envL (a.toList ++ b.toList ++ [e, m]))]
/-- for every input exactly one of the paths is the one taken -/
theorem v1_relative_eq_exactly_one (a b : V1 K) (e m : K) : Tr.ExactlyOne (v1RelEq a b e m) := by
  unfold Tr.ExactlyOne v1RelEq
  simp only [List.pairwise_cons, List.mem_cons, List.not_mem_nil, or_false, forall_eq_or_imp, forall_eq, exists_eq_or_imp,
    exists_eq_left, List.Pairwise.nil, and_true, IsEmpty.forall_iff, implies_true, false_imp_iff, exists_false,
    v1_relative_eq_true_consistent, v1_relative_eq_false_0_consistent]
  generalize Approx.relEq a.x b.x e m = r0
  cases r0
  · simp
  simp
/-- **`v1.relative_eq` as computed**: exactly one traced path is taken; the path taken returns normally one boolean, the model's
relation; and that is `true` iff the scalar relation WITH THE SAME TOLERANCE ARGUMENTS holds on every component pair -/
theorem code_v1_relative_eq (a b : V1 K) (e m : K) :
    Tr.ExactlyOne (v1RelEq a b e m) ∧
    (∀ t ∈ v1RelEq a b e m, t.Consistent → t.res = .ok ∧ t.out = [] ∧ t.bools = [V1.relEq a b e m]) ∧
    (V1.relEq a b e m = true ↔ Approx.relEq a.x b.x e m = true) := by
  refine ⟨v1_relative_eq_exactly_one a b e m, ?_, Cg.C18.V1.relEq_iff a b e m⟩
  intro t ht
  simp only [v1RelEq, List.mem_cons, List.not_mem_nil, or_false] at ht
  rcases ht with rfl | rfl
  · intro hc
    have h0 := (v1_relative_eq_true_consistent a b e m).1 hc
    rw [(Trace.C18Ops.t_v1_relative_eq_true a b e m h0).1]; exact ⟨rfl, rfl, rfl⟩
  · intro hc
    have h0 := (v1_relative_eq_false_0_consistent a b e m).1 hc
    rw [(Trace.C18Ops.t_v1_relative_eq_false_0 a b e m h0).1]; exact ⟨rfl, rfl, rfl⟩

/-! ### `v1.ulps_eq` -/
/-- this path is the one taken iff every component pair is within tolerance -/
theorem v1_ulps_eq_true_consistent (a b : V1 K) (e : K) :
    (t_v1_ulps_eq_true (envL (a.toList ++ b.toList ++ [e]))).Consistent ↔ Approx.ulpsEq a.x b.x e 4 = true := by
  simp [Tr.Consistent, envL, V1.toList]
/-- this path is the one taken iff component pair `0` is the first that is not within tolerance -/
theorem v1_ulps_eq_false_0_consistent (a b : V1 K) (e : K) :
    (t_v1_ulps_eq_false_0 (envL (a.toList ++ b.toList ++ [e]))).Consistent ↔ Approx.ulpsEq a.x b.x e 4 = false := by
  simp [Tr.Consistent, envL, V1.toList]
/-- the traced paths of `v1.ulps_eq` on the input -/
def v1UlpsEq (a b : V1 K) (e : K) : List (Tr K) :=
    [t_v1_ulps_eq_true (envL (a.toList ++ b.toList ++ [e])), t_v1_ulps_eq_false_0 (envL (a.toList ++ b.toList ++ [e]))]
/-- for every input exactly one of the paths is the one taken -/
theorem v1_ulps_eq_exactly_one (a b : V1 K) (e : K) : Tr.ExactlyOne (v1UlpsEq a b e) := by
  unfold Tr.ExactlyOne v1UlpsEq
  simp only [List.pairwise_cons, List.mem_cons, List.not_mem_nil, or_false, forall_eq_or_imp, forall_eq, exists_eq_or_imp,
    exists_eq_left, List.Pairwise.nil, and_true, IsEmpty.forall_iff, implies_true, false_imp_iff, exists_false,
    v1_ulps_eq_true_consistent, v1_ulps_eq_false_0_consistent]
  generalize Approx.ulpsEq a.x b.x e 4 = r0
  cases r0
  · simp
  simp
/-- **`v1.ulps_eq` as computed**: exactly one traced path is taken; the path taken returns normally one boolean, the model's
relation; and that is `true` iff the scalar relation WITH THE SAME TOLERANCE ARGUMENTS holds on every component pair -/
theorem code_v1_ulps_eq (a b : V1 K) (e : K) :
    Tr.ExactlyOne (v1UlpsEq a b e) ∧
    (∀ t ∈ v1UlpsEq a b e, t.Consistent → t.res = .ok ∧ t.out = [] ∧ t.bools = [V1.ulpsEq a b e 4]) ∧
    (V1.ulpsEq a b e 4 = true ↔ Approx.ulpsEq a.x b.x e 4 = true) := by
  refine ⟨v1_ulps_eq_exactly_one a b e, ?_, Cg.C18.V1.ulpsEq_iff a b e 4⟩
  intro t ht
  simp only [v1UlpsEq, List.mem_cons, List.not_mem_nil, or_false] at ht
  rcases ht with rfl | rfl
  · intro hc
    have h0 := (v1_ulps_eq_true_consistent a b e).1 hc
    rw [(Trace.C18Ops.t_v1_ulps_eq_true a b e h0).1]; exact ⟨rfl, rfl, rfl⟩
  · intro hc
    have h0 := (v1_ulps_eq_false_0_consistent a b e).1 hc
    rw [(Trace.C18Ops.t_v1_ulps_eq_false_0 a b e h0).1]; exact ⟨rfl, rfl, rfl⟩

/-! ### `v2.abs_diff_eq` -/
/-- this path is the one taken iff every component pair is within tolerance -/
theorem v2_abs_diff_eq_true_consistent (a b : V2 K) (e : K) :
    (t_v2_abs_diff_eq_true (envL (a.toList ++ b.toList ++ [e]))).Consistent ↔ Approx.absDiffEq a.x b.x e = true ∧ Approx.absDiffEq a.y b.y e = true := by
  simp [Tr.Consistent, envL, V2.toList]
/-- this path is the one taken iff component pair `0` is the first that is not within tolerance -/
theorem v2_abs_diff_eq_false_0_consistent (a b : V2 K) (e : K) :
    (t_v2_abs_diff_eq_false_0 (envL (a.toList ++ b.toList ++ [e]))).Consistent ↔ Approx.absDiffEq a.x b.x e = false := by
  simp [Tr.Consistent, envL, V2.toList]
/-- this path is the one taken iff component pair `1` is the first that is not within tolerance -/
theorem v2_abs_diff_eq_false_1_consistent (a b : V2 K) (e : K) :
    (t_v2_abs_diff_eq_false_1 (envL (a.toList ++ b.toList ++ [e]))).Consistent ↔ Approx.absDiffEq a.x b.x e = true ∧ Approx.absDiffEq a.y b.y e = false := by
  simp [Tr.Consistent, envL, V2.toList]
/-- the traced paths of `v2.abs_diff_eq` on the input -/
def v2AbsDiffEq (a b : V2 K) (e : K) : List (Tr K) :=
    [t_v2_abs_diff_eq_true (envL (a.toList ++ b.toList ++ [e])), t_v2_abs_diff_eq_false_0 (envL (a.toList ++ b.toList ++ [e])), t_v2_abs_diff_eq_false_1 (envL (a.toList ++ b.toList ++ [e]))]
/-- for every input exactly one of the paths is the one taken -/
theorem v2_abs_diff_eq_exactly_one (a b : V2 K) (e : K) : Tr.ExactlyOne (v2AbsDiffEq a b e) := by
  unfold Tr.ExactlyOne v2AbsDiffEq
  simp only [List.pairwise_cons, List.mem_cons, List.not_mem_nil, or_false, forall_eq_or_imp, forall_eq, exists_eq_or_imp,
    exists_eq_left, List.Pairwise.nil, and_true, IsEmpty.forall_iff, implies_true, false_imp_iff, exists_false,
    v2_abs_diff_eq_true_consistent, v2_abs_diff_eq_false_0_consistent, v2_abs_diff_eq_false_1_consistent]
  generalize Approx.absDiffEq a.x b.x e = r0
  generalize Approx.absDiffEq a.y b.y e = r1
  cases r0
  · simp
  cases r1
  · simp
  simp
/-- **`v2.abs_diff_eq` as computed**: exactly one traced path is taken; the path taken returns normally one boolean, the model's
relation; and that is `true` iff the scalar relation WITH THE SAME TOLERANCE ARGUMENTS holds on every component pair -/
theorem code_v2_abs_diff_eq (a b : V2 K) (e : K) :
    Tr.ExactlyOne (v2AbsDiffEq a b e) ∧
    (∀ t ∈ v2AbsDiffEq a b e, t.Consistent → t.res = .ok ∧ t.out = [] ∧ t.bools = [V2.absDiffEq a b e]) ∧
    (V2.absDiffEq a b e = true ↔ Approx.absDiffEq a.x b.x e = true ∧ Approx.absDiffEq a.y b.y e = true) := by
  refine ⟨v2_abs_diff_eq_exactly_one a b e, ?_, Cg.C18.V2.absDiffEq_iff a b e⟩
  intro t ht
  simp only [v2AbsDiffEq, List.mem_cons, List.not_mem_nil, or_false] at ht
  rcases ht with rfl | rfl | rfl
  · intro hc
    have ⟨h0, h1⟩ := (v2_abs_diff_eq_true_consistent a b e).1 hc
    rw [(Trace.C18Ops.t_v2_abs_diff_eq_true a b e h0 h1).1]; exact ⟨rfl, rfl, rfl⟩
  · intro hc
    have h0 := (v2_abs_diff_eq_false_0_consistent a b e).1 hc
    rw [(Trace.C18Ops.t_v2_abs_diff_eq_false_0 a b e h0).1]; exact ⟨rfl, rfl, rfl⟩
  · intro hc
    have ⟨h0, h1⟩ := (v2_abs_diff_eq_false_1_consistent a b e).1 hc
    rw [(Trace.C18Ops.t_v2_abs_diff_eq_false_1 a b e h0 h1).1]; exact ⟨rfl, rfl, rfl⟩

/-! ### `v2.relative_eq` -/
/-- this path is the one taken iff every component pair is within tolerance -/
theorem v2_relative_eq_true_consistent (a b : V2 K) (e m : K) :
    (t_v2_relative_eq_true (envL (a.toList ++ b.toList ++ [e, m]))).Consistent ↔ Approx.relEq a.x b.x e m = true ∧ Approx.relEq a.y b.y e m = true := by
  simp [Tr.Consistent, envL, V2.toList]
/-- this path is the one taken iff component pair `0` is the first that is not within tolerance -/
theorem v2_relative_eq_false_0_consistent (a b : V2 K) (e m : K) :
    (t_v2_relative_eq_false_0 (envL (a.toList ++ b.toList ++ [e, m]))).Consistent ↔ Approx.relEq a.x b.x e m = false := by
  simp [Tr.Consistent, envL, V2.toList]
/-- this path is the one taken iff component pair `1` is the first that is not within tolerance -/
theorem v2_relative_eq_false_1_consistent (a b : V2 K) (e m : K) :
    (t_v2_relative_eq_false_1 (envL (a.toList ++ b.toList ++ [e, m]))).Consistent ↔ Approx.relEq a.x b.x e m = true ∧ Approx.relEq a.y b.y e m = false := by
  simp [Tr.Consistent, envL, V2.toList]
/-- the traced paths of `v2.relative_eq` on the input -/
def v2RelEq (a b : V2 K) (e m : K) : List (Tr K) :=
    [t_v2_relative_eq_true (envL (a.toList ++ b.toList ++ [e, m])), t_v2_relative_eq_false_0 (envL (a.toList ++ b.toList ++ [e, m])), t_v2_relative_eq_false_1 (envL (a.toList ++ b.toList ++ [e, m]))]
/-- for every input exactly one of the paths is the one taken -/
theorem v2_relative_eq_exactly_one (a b : V2 K) (e m : K) : Tr.ExactlyOne (v2RelEq a b e m) := by
  unfold Tr.ExactlyOne v2RelEq
  simp only [List.pairwise_cons, List.mem_cons, List.not_mem_nil, or_false, forall_eq_or_imp, forall_eq, exists_eq_or_imp,
    exists_eq_left, List.Pairwise.nil, and_true, IsEmpty.forall_iff, implies_true, false_imp_iff, exists_false,
    v2_relative_eq_true_consistent, v2_relative_eq_false_0_consistent, v2_relative_eq_false_1_consistent]
  generalize Approx.relEq a.x b.x e m = r0
  generalize Approx.relEq a.y b.y e m = r1
  cases r0
  · simp
  cases r1
  · simp
  simp
/-- **`v2.relative_eq` as computed**: exactly one traced path is taken; the path taken returns normally one boolean, the model's
relation; and that is `true` iff the scalar relation WITH THE SAME TOLERANCE ARGUMENTS holds on every component pair -/
theorem code_v2_relative_eq (a b : V2 K) (e m : K) :
    Tr.ExactlyOne (v2RelEq a b e m) ∧
    (∀ t ∈ v2RelEq a b e m, t.Consistent → t.res = .ok ∧ t.out = [] ∧ t.bools = [V2.relEq a b e m]) ∧
    (V2.relEq a b e m = true ↔ Approx.relEq a.x b.x e m = true ∧ Approx.relEq a.y b.y e m = true) := by
  refine ⟨v2_relative_eq_exactly_one a b e m, ?_, Cg.C18.V2.relEq_iff a b e m⟩
  intro t ht
  simp only [v2RelEq, List.mem_cons, List.not_mem_nil, or_false] at ht
  rcases ht with rfl | rfl | rfl
  · intro hc
    have ⟨h0, h1⟩ := (v2_relative_eq_true_consistent a b e m).1 hc
    rw [(Trace.C18Ops.t_v2_relative_eq_true a b e m h0 h1).1]; exact ⟨rfl, rfl, rfl⟩
  · intro hc
    have h0 := (v2_relative_eq_false_0_consistent a b e m).1 hc
    rw [(Trace.C18Ops.t_v2_relative_eq_false_0 a b e m h0).1]; exact ⟨rfl, rfl, rfl⟩
  · intro hc
    have ⟨h0, h1⟩ := (v2_relative_eq_false_1_consistent a b e m).1 hc
    rw [(Trace.C18Ops.t_v2_relative_eq_false_1 a b e m h0 h1).1]; exact ⟨rfl, rfl, rfl⟩

/-! ### `v2.ulps_eq` -/
/-- this path is the one taken iff every component pair is within tolerance -/
theorem v2_ulps_eq_true_consistent (a b : V2 K) (e : K) :
    (t_v2_ulps_eq_true (envL (a.toList ++ b.toList ++ [e]))).Consistent ↔ Approx.ulpsEq a.x b.x e 4 = true ∧ Approx.ulpsEq a.y b.y e 4 = true := by
  simp [Tr.Consistent, envL, V2.toList]
/-- this path is the one taken iff component pair `0` is the first that is not within tolerance -/
theorem v2_ulps_eq_false_0_consistent (a b : V2 K) (e : K) :
    (t_v2_ulps_eq_false_0 (envL (a.toList ++ b.toList ++ [e]))).Consistent ↔ Approx.ulpsEq a.x b.x e 4 = false := by
  simp [Tr.Consistent, envL, V2.toList]
/-- this path is the one taken iff component pair `1` is the first that is not within tolerance -/
theorem v2_ulps_eq_false_1_consistent (a b : V2 K) (e : K) :
    (t_v2_ulps_eq_false_1 (envL (a.toList ++ b.toList ++ [e]))).Consistent ↔ Approx.ulpsEq a.x b.x e 4 = true ∧ Approx.ulpsEq a.y b.y e 4 = false := by
  simp [Tr.Consistent, envL, V2.toList]
/-- the traced paths of `v2.ulps_eq` on the input -/
def v2UlpsEq (a b : V2 K) (e : K) : List (Tr K) :=
    [t_v2_ulps_eq_true (envL (a.toList ++ b.toList ++ [e])), t_v2_ulps_eq_false_0 (envL (a.toList ++ b.toList ++ [e])), t_v2_ulps_eq_false_1 (envL (a.toList ++ b.toList ++ [e]))]
/-- for every input exactly one of the paths is the one taken -/
theorem v2_ulps_eq_exactly_one (a b : V2 K) (e : K) : Tr.ExactlyOne (v2UlpsEq a b e) := by
  unfold Tr.ExactlyOne v2UlpsEq
  simp only [List.pairwise_cons, List.mem_cons, List.not_mem_nil, or_false, forall_eq_or_imp, forall_eq, exists_eq_or_imp,
    exists_eq_left, List.Pairwise.nil, and_true, IsEmpty.forall_iff, implies_true, false_imp_iff, exists_false,
    v2_ulps_eq_true_consistent, v2_ulps_eq_false_0_consistent, v2_ulps_eq_false_1_consistent]
  generalize Approx.ulpsEq a.x b.x e 4 = r0
  generalize Approx.ulpsEq a.y b.y e 4 = r1
  cases r0
  · simp
  cases r1
  · simp
  simp
/-- **`v2.ulps_eq` as computed**: exactly one traced path is taken; the path taken returns normally one boolean, the model's
relation; and that is `true` iff the scalar relation WITH THE SAME TOLERANCE ARGUMENTS holds on every component pair -/
theorem code_v2_ulps_eq (a b : V2 K) (e : K) :
    Tr.ExactlyOne (v2UlpsEq a b e) ∧
    (∀ t ∈ v2UlpsEq a b e, t.Consistent → t.res = .ok ∧ t.out = [] ∧ t.bools = [V2.ulpsEq a b e 4]) ∧
    (V2.ulpsEq a b e 4 = true ↔ Approx.ulpsEq a.x b.x e 4 = true ∧ Approx.ulpsEq a.y b.y e 4 = true) := by
  refine ⟨v2_ulps_eq_exactly_one a b e, ?_, Cg.C18.V2.ulpsEq_iff a b e 4⟩
  intro t ht
  simp only [v2UlpsEq, List.mem_cons, List.not_mem_nil, or_false] at ht
  rcases ht with rfl | rfl | rfl
  · intro hc
    have ⟨h0, h1⟩ := (v2_ulps_eq_true_consistent a b e).1 hc
    rw [(Trace.C18Ops.t_v2_ulps_eq_true a b e h0 h1).1]; exact ⟨rfl, rfl, rfl⟩
  · intro hc
    have h0 := (v2_ulps_eq_false_0_consistent a b e).1 hc
    rw [(Trace.C18Ops.t_v2_ulps_eq_false_0 a b e h0).1]; exact ⟨rfl, rfl, rfl⟩
  · intro hc
    have ⟨h0, h1⟩ := (v2_ulps_eq_false_1_consistent a b e).1 hc
    rw [(Trace.C18Ops.t_v2_ulps_eq_false_1 a b e h0 h1).1]; exact ⟨rfl, rfl, rfl⟩

/-! ### `v3.abs_diff_eq` -/
/-- this path is the one taken iff every component pair is within tolerance -/
theorem v3_abs_diff_eq_true_consistent (a b : V3 K) (e : K) :
    (t_v3_abs_diff_eq_true (envL (a.toList ++ b.toList ++ [e]))).Consistent ↔ Approx.absDiffEq a.x b.x e = true ∧ Approx.absDiffEq a.y b.y e = true ∧ Approx.absDiffEq a.z b.z e = true := by
  simp [Tr.Consistent, envL, V3.toList]
/-- this path is the one taken iff component pair `0` is the first that is not within tolerance -/
theorem v3_abs_diff_eq_false_0_consistent (a b : V3 K) (e : K) :
    (t_v3_abs_diff_eq_false_0 (envL (a.toList ++ b.toList ++ [e]))).Consistent ↔ Approx.absDiffEq a.x b.x e = false := by
  simp [Tr.Consistent, envL, V3.toList]
/-- this path is the one taken iff component pair `1` is the first that is not within tolerance -/
theorem v3_abs_diff_eq_false_1_consistent (a b : V3 K) (e : K) :
    (t_v3_abs_diff_eq_false_1 (envL (a.toList ++ b.toList ++ [e]))).Consistent ↔ Approx.absDiffEq a.x b.x e = true ∧ Approx.absDiffEq a.y b.y e = false := by
  simp [Tr.Consistent, envL, V3.toList]
/-- this path is the one taken iff component pair `2` is the first that is not within tolerance -/
theorem v3_abs_diff_eq_false_2_consistent (a b : V3 K) (e : K) :
    (t_v3_abs_diff_eq_false_2 (envL (a.toList ++ b.toList ++ [e]))).Consistent ↔ Approx.absDiffEq a.x b.x e = true ∧ Approx.absDiffEq a.y b.y e = true ∧ Approx.absDiffEq a.z b.z e = false := by
  simp [Tr.Consistent, envL, V3.toList]
/-- the traced paths of `v3.abs_diff_eq` on the input -/
def v3AbsDiffEq (a b : V3 K) (e : K) : List (Tr K) :=
    [t_v3_abs_diff_eq_true (envL (a.toList ++ b.toList ++ [e])), t_v3_abs_diff_eq_false_0 (envL (a.toList ++ b.toList ++ [e])), t_v3_abs_diff_eq_false_1 (envL (a.toList ++ b.toList ++ [e])), t_v3_abs_diff_eq_false_2 (envL (a.toList ++ b.toList ++ [e]))]
/-- for every input exactly one of the paths is the one taken -/
theorem v3_abs_diff_eq_exactly_one (a b : V3 K) (e : K) : Tr.ExactlyOne (v3AbsDiffEq a b e) := by
  unfold Tr.ExactlyOne v3AbsDiffEq
  simp only [List.pairwise_cons, List.mem_cons, List.not_mem_nil, or_false, forall_eq_or_imp, forall_eq, exists_eq_or_imp,
    exists_eq_left, List.Pairwise.nil, and_true, IsEmpty.forall_iff, implies_true, false_imp_iff, exists_false,
    v3_abs_diff_eq_true_consistent, v3_abs_diff_eq_false_0_consistent, v3_abs_diff_eq_false_1_consistent, v3_abs_diff_eq_false_2_consistent]
  generalize Approx.absDiffEq a.x b.x e = r0
  generalize Approx.absDiffEq a.y b.y e = r1
  generalize Approx.absDiffEq a.z b.z e = r2
  cases r0
  · simp
  cases r1
  · simp
  cases r2
  · simp
  simp
/-- **`v3.abs_diff_eq` as computed**: exactly one traced path is taken; the path taken returns normally one boolean, the model's
relation; and that is `true` iff the scalar relation WITH THE SAME TOLERANCE ARGUMENTS holds on every component pair -/
theorem code_v3_abs_diff_eq (a b : V3 K) (e : K) :
    Tr.ExactlyOne (v3AbsDiffEq a b e) ∧
    (∀ t ∈ v3AbsDiffEq a b e, t.Consistent → t.res = .ok ∧ t.out = [] ∧ t.bools = [V3.absDiffEq a b e]) ∧
    (V3.absDiffEq a b e = true ↔ Approx.absDiffEq a.x b.x e = true ∧ Approx.absDiffEq a.y b.y e = true ∧ Approx.absDiffEq a.z b.z e = true) := by
  refine ⟨v3_abs_diff_eq_exactly_one a b e, ?_, Cg.C18.V3.absDiffEq_iff a b e⟩
  intro t ht
  simp only [v3AbsDiffEq, List.mem_cons, List.not_mem_nil, or_false] at ht
  rcases ht with rfl | rfl | rfl | rfl
  · intro hc
    have ⟨h0, h1, h2⟩ := (v3_abs_diff_eq_true_consistent a b e).1 hc
    rw [(Trace.C18Ops.t_v3_abs_diff_eq_true a b e h0 h1 h2).1]; exact ⟨rfl, rfl, rfl⟩
  · intro hc
    have h0 := (v3_abs_diff_eq_false_0_consistent a b e).1 hc
    rw [(Trace.C18Ops.t_v3_abs_diff_eq_false_0 a b e h0).1]; exact ⟨rfl, rfl, rfl⟩
  · intro hc
    have ⟨h0, h1⟩ := (v3_abs_diff_eq_false_1_consistent a b e).1 hc
    rw [(Trace.C18Ops.t_v3_abs_diff_eq_false_1 a b e h0 h1).1]; exact ⟨rfl, rfl, rfl⟩
  · intro hc
    have ⟨h0, h1, h2⟩ := (v3_abs_diff_eq_false_2_consistent a b e).1 hc
    rw [(Trace.C18Ops.t_v3_abs_diff_eq_false_2 a b e h0 h1 h2).1]; exact ⟨rfl, rfl, rfl⟩

/-! ### `v3.relative_eq` -/
/-- this path is the one taken iff every component pair is within tolerance -/
theorem v3_relative_eq_true_consistent (a b : V3 K) (e m : K) :
    (t_v3_relative_eq_true (envL (a.toList ++ b.toList ++ [e, m]))).Consistent ↔ Approx.relEq a.x b.x e m = true ∧ Approx.relEq a.y b.y e m = true ∧ Approx.relEq a.z b.z e m = true := by
  simp [Tr.Consistent, envL, V3.toList]
/-- this path is the one taken iff component pair `0` is the first that is not within tolerance -/
theorem v3_relative_eq_false_0_consistent (a b : V3 K) (e m : K) :
    (t_v3_relative_eq_false_0 (envL (a.toList ++ b.toList ++ [e, m]))).Consistent ↔ Approx.relEq a.x b.x e m = false := by
  simp [Tr.Consistent, envL, V3.toList]
/-- this path is the one taken iff component pair `1` is the first that is not within tolerance -/
theorem v3_relative_eq_false_1_consistent (a b : V3 K) (e m : K) :
    (t_v3_relative_eq_false_1 (envL (a.toList ++ b.toList ++ [e, m]))).Consistent ↔ Approx.relEq a.x b.x e m = true ∧ Approx.relEq a.y b.y e m = false := by
  simp [Tr.Consistent, envL, V3.toList]
/-- this path is the one taken iff component pair `2` is the first that is not within tolerance -/
theorem v3_relative_eq_false_2_consistent (a b : V3 K) (e m : K) :
    (t_v3_relative_eq_false_2 (envL (a.toList ++ b.toList ++ [e, m]))).Consistent ↔ Approx.relEq a.x b.x e m = true ∧ Approx.relEq a.y b.y e m = true ∧ Approx.relEq a.z b.z e m = false := by
  simp [Tr.Consistent, envL, V3.toList]
/-- the traced paths of `v3.relative_eq` on the input -/
def v3RelEq (a b : V3 K) (e m : K) : List (Tr K) :=
    [t_v3_relative_eq_true (envL (a.toList ++ b.toList ++ [e, m])), t_v3_relative_eq_false_0 (envL (a.toList ++ b.toList ++ [e, m])), t_v3_relative_eq_false_1 (envL (a.toList ++ b.toList ++ [e, m])), t_v3_relative_eq_false_2 (envL (a.toList ++ b.toList ++ [e, m]))]
/-- for every input exactly one of the paths is the one taken -/
theorem v3_relative_eq_exactly_one (a b : V3 K) (e m : K) : Tr.ExactlyOne (v3RelEq a b e m) := by
  unfold Tr.ExactlyOne v3RelEq
  simp only [List.pairwise_cons, List.mem_cons, List.not_mem_nil, or_false, forall_eq_or_imp, forall_eq, exists_eq_or_imp,
    exists_eq_left, List.Pairwise.nil, and_true, IsEmpty.forall_iff, implies_true, false_imp_iff, exists_false,
    v3_relative_eq_true_consistent, v3_relative_eq_false_0_consistent, v3_relative_eq_false_1_consistent, v3_relative_eq_false_2_consistent]
  generalize Approx.relEq a.x b.x e m = r0
  generalize Approx.relEq a.y b.y e m = r1
  generalize Approx.relEq a.z b.z e m = r2
  cases r0
  · simp
  cases r1
  · simp
  cases r2
  · simp
  simp
/-- **`v3.relative_eq` as computed**: exactly one traced path is taken; the path taken returns normally one boolean, the model's
relation; and that is `true` iff the scalar relation WITH THE SAME TOLERANCE ARGUMENTS holds on every component pair -/
theorem code_v3_relative_eq (a b : V3 K) (e m : K) :
    Tr.ExactlyOne (v3RelEq a b e m) ∧
    (∀ t ∈ v3RelEq a b e m, t.Consistent → t.res = .ok ∧ t.out = [] ∧ t.bools = [V3.relEq a b e m]) ∧
    (V3.relEq a b e m = true ↔ Approx.relEq a.x b.x e m = true ∧ Approx.relEq a.y b.y e m = true ∧ Approx.relEq a.z b.z e m = true) := by
  refine ⟨v3_relative_eq_exactly_one a b e m, ?_, Cg.C18.V3.relEq_iff a b e m⟩
  intro t ht
  simp only [v3RelEq, List.mem_cons, List.not_mem_nil, or_false] at ht
  rcases ht with rfl | rfl | rfl | rfl
  · intro hc
    have ⟨h0, h1, h2⟩ := (v3_relative_eq_true_consistent a b e m).1 hc
    rw [(Trace.C18Ops.t_v3_relative_eq_true a b e m h0 h1 h2).1]; exact ⟨rfl, rfl, rfl⟩
  · intro hc
    have h0 := (v3_relative_eq_false_0_consistent a b e m).1 hc
    rw [(Trace.C18Ops.t_v3_relative_eq_false_0 a b e m h0).1]; exact ⟨rfl, rfl, rfl⟩
  · intro hc
    have ⟨h0, h1⟩ := (v3_relative_eq_false_1_consistent a b e m).1 hc
    rw [(Trace.C18Ops.t_v3_relative_eq_false_1 a b e m h0 h1).1]; exact ⟨rfl, rfl, rfl⟩
  · intro hc
    have ⟨h0, h1, h2⟩ := (v3_relative_eq_false_2_consistent a b e m).1 hc
    rw [(Trace.C18Ops.t_v3_relative_eq_false_2 a b e m h0 h1 h2).1]; exact ⟨rfl, rfl, rfl⟩

/-! ### `v3.ulps_eq` -/
/-- this path is the one taken iff every component pair is within tolerance -/
theorem v3_ulps_eq_true_consistent (a b : V3 K) (e : K) :
    (t_v3_ulps_eq_true (envL (a.toList ++ b.toList ++ [e]))).Consistent ↔ Approx.ulpsEq a.x b.x e 4 = true ∧ Approx.ulpsEq a.y b.y e 4 = true ∧ Approx.ulpsEq a.z b.z e 4 = true := by
  simp [Tr.Consistent, envL, V3.toList]
/-- this path is the one taken iff component pair `0` is the first that is not within tolerance -/
theorem v3_ulps_eq_false_0_consistent (a b : V3 K) (e : K) :
    (t_v3_ulps_eq_false_0 (envL (a.toList ++ b.toList ++ [e]))).Consistent ↔ Approx.ulpsEq a.x b.x e 4 = false := by
  simp [Tr.Consistent, envL, V3.toList]
/-- this path is the one taken iff component pair `1` is the first that is not within tolerance -/
theorem v3_ulps_eq_false_1_consistent (a b : V3 K) (e : K) :
    (t_v3_ulps_eq_false_1 (envL (a.toList ++ b.toList ++ [e]))).Consistent ↔ Approx.ulpsEq a.x b.x e 4 = true ∧ Approx.ulpsEq a.y b.y e 4 = false := by
  simp [Tr.Consistent, envL, V3.toList]
/-- this path is the one taken iff component pair `2` is the first that is not within tolerance -/
theorem v3_ulps_eq_false_2_consistent (a b : V3 K) (e : K) :
    (t_v3_ulps_eq_false_2 (envL (a.toList ++ b.toList ++ [e]))).Consistent ↔ Approx.ulpsEq a.x b.x e 4 = true ∧ Approx.ulpsEq a.y b.y e 4 = true ∧ Approx.ulpsEq a.z b.z e 4 = false := by
  simp [Tr.Consistent, envL, V3.toList]
/-- the traced paths of `v3.ulps_eq` on the input -/
def v3UlpsEq (a b : V3 K) (e : K) : List (Tr K) :=
    [t_v3_ulps_eq_true (envL (a.toList ++ b.toList ++ [e])), t_v3_ulps_eq_false_0 (envL (a.toList ++ b.toList ++ [e])), t_v3_ulps_eq_false_1 (envL (a.toList ++ b.toList ++ [e])), t_v3_ulps_eq_false_2 (envL (a.toList ++ b.toList ++ [e]))]
/-- for every input exactly one of the paths is the one taken -/
theorem v3_ulps_eq_exactly_one (a b : V3 K) (e : K) : Tr.ExactlyOne (v3UlpsEq a b e) := by
  unfold Tr.ExactlyOne v3UlpsEq
  simp only [List.pairwise_cons, List.mem_cons, List.not_mem_nil, or_false, forall_eq_or_imp, forall_eq, exists_eq_or_imp,
    exists_eq_left, List.Pairwise.nil, and_true, IsEmpty.forall_iff, implies_true, false_imp_iff, exists_false,
    v3_ulps_eq_true_consistent, v3_ulps_eq_false_0_consistent, v3_ulps_eq_false_1_consistent, v3_ulps_eq_false_2_consistent]
  generalize Approx.ulpsEq a.x b.x e 4 = r0
  generalize Approx.ulpsEq a.y b.y e 4 = r1
  generalize Approx.ulpsEq a.z b.z e 4 = r2
  cases r0
  · simp
  cases r1
  · simp
  cases r2
  · simp
  simp
/-- **`v3.ulps_eq` as computed**: exactly one traced path is taken; the path taken returns normally one boolean, the model's
relation; and that is `true` iff the scalar relation WITH THE SAME TOLERANCE ARGUMENTS holds on every component pair -/
theorem code_v3_ulps_eq (a b : V3 K) (e : K) :
    Tr.ExactlyOne (v3UlpsEq a b e) ∧
    (∀ t ∈ v3UlpsEq a b e, t.Consistent → t.res = .ok ∧ t.out = [] ∧ t.bools = [V3.ulpsEq a b e 4]) ∧
    (V3.ulpsEq a b e 4 = true ↔ Approx.ulpsEq a.x b.x e 4 = true ∧ Approx.ulpsEq a.y b.y e 4 = true ∧ Approx.ulpsEq a.z b.z e 4 = true) := by
  refine ⟨v3_ulps_eq_exactly_one a b e, ?_, Cg.C18.V3.ulpsEq_iff a b e 4⟩
  intro t ht
  simp only [v3UlpsEq, List.mem_cons, List.not_mem_nil, or_false] at ht
  rcases ht with rfl | rfl | rfl | rfl
  · intro hc
    have ⟨h0, h1, h2⟩ := (v3_ulps_eq_true_consistent a b e).1 hc
    rw [(Trace.C18Ops.t_v3_ulps_eq_true a b e h0 h1 h2).1]; exact ⟨rfl, rfl, rfl⟩
  · intro hc
    have h0 := (v3_ulps_eq_false_0_consistent a b e).1 hc
    rw [(Trace.C18Ops.t_v3_ulps_eq_false_0 a b e h0).1]; exact ⟨rfl, rfl, rfl⟩
  · intro hc
    have ⟨h0, h1⟩ := (v3_ulps_eq_false_1_consistent a b e).1 hc
    rw [(Trace.C18Ops.t_v3_ulps_eq_false_1 a b e h0 h1).1]; exact ⟨rfl, rfl, rfl⟩
  · intro hc
    have ⟨h0, h1, h2⟩ := (v3_ulps_eq_false_2_consistent a b e).1 hc
    rw [(Trace.C18Ops.t_v3_ulps_eq_false_2 a b e h0 h1 h2).1]; exact ⟨rfl, rfl, rfl⟩

/-! ### `v4.abs_diff_eq` -/
/-- this path is the one taken iff every component pair is within tolerance -/
theorem v4_abs_diff_eq_true_consistent (a b : V4 K) (e : K) :
    (t_v4_abs_diff_eq_true (envL (a.toList ++ b.toList ++ [e]))).Consistent ↔ Approx.absDiffEq a.x b.x e = true ∧ Approx.absDiffEq a.y b.y e = true ∧ Approx.absDiffEq a.z b.z e = true ∧ Approx.absDiffEq a.w b.w e = true := by
  simp [Tr.Consistent, envL, V4.toList]
/-- this path is the one taken iff component pair `0` is the first that is not within tolerance -/
theorem v4_abs_diff_eq_false_0_consistent (a b : V4 K) (e : K) :
    (t_v4_abs_diff_eq_false_0 (envL (a.toList ++ b.toList ++ [e]))).Consistent ↔ Approx.absDiffEq a.x b.x e = false := by
  simp [Tr.Consistent, envL, V4.toList]
/-- this path is the one taken iff component pair `1` is the first that is not within tolerance -/
theorem v4_abs_diff_eq_false_1_consistent (a b : V4 K) (e : K) :
    (t_v4_abs_diff_eq_false_1 (envL (a.toList ++ b.toList ++ [e]))).Consistent ↔ Approx.absDiffEq a.x b.x e = true ∧ Approx.absDiffEq a.y b.y e = false := by
  simp [Tr.Consistent, envL, V4.toList]
/-- this path is the one taken iff component pair `2` is the first that is not within tolerance -/
theorem v4_abs_diff_eq_false_2_consistent (a b : V4 K) (e : K) :
    (t_v4_abs_diff_eq_false_2 (envL (a.toList ++ b.toList ++ [e]))).Consistent ↔ Approx.absDiffEq a.x b.x e = true ∧ Approx.absDiffEq a.y b.y e = true ∧ Approx.absDiffEq a.z b.z e = false := by
  simp [Tr.Consistent, envL, V4.toList]
/-- this path is the one taken iff component pair `3` is the first that is not within tolerance -/
theorem v4_abs_diff_eq_false_3_consistent (a b : V4 K) (e : K) :
    (t_v4_abs_diff_eq_false_3 (envL (a.toList ++ b.toList ++ [e]))).Consistent ↔ Approx.absDiffEq a.x b.x e = true ∧ Approx.absDiffEq a.y b.y e = true ∧ Approx.absDiffEq a.z b.z e = true ∧ Approx.absDiffEq a.w b.w e = false := by
  simp [Tr.Consistent, envL, V4.toList]
/-- the traced paths of `v4.abs_diff_eq` on the input -/
def v4AbsDiffEq (a b : V4 K) (e : K) : List (Tr K) :=
    [t_v4_abs_diff_eq_true (envL (a.toList ++ b.toList ++ [e])), t_v4_abs_diff_eq_false_0 (envL (a.toList ++ b.toList ++ [e])), t_v4_abs_diff_eq_false_1 (envL (a.toList ++ b.toList ++ [e])), t_v4_abs_diff_eq_false_2 (envL (a.toList ++ b.toList ++ [e])), t_v4_abs_diff_eq_false_3 (envL (a.toList ++ b.toList ++ [e]))]
/-- for every input exactly one of the paths is the one taken -/
theorem v4_abs_diff_eq_exactly_one (a b : V4 K) (e : K) : Tr.ExactlyOne (v4AbsDiffEq a b e) := by
  unfold Tr.ExactlyOne v4AbsDiffEq
  simp only [List.pairwise_cons, List.mem_cons, List.not_mem_nil, or_false, forall_eq_or_imp, forall_eq, exists_eq_or_imp,
    exists_eq_left, List.Pairwise.nil, and_true, IsEmpty.forall_iff, implies_true, false_imp_iff, exists_false,
    v4_abs_diff_eq_true_consistent, v4_abs_diff_eq_false_0_consistent, v4_abs_diff_eq_false_1_consistent, v4_abs_diff_eq_false_2_consistent, v4_abs_diff_eq_false_3_consistent]
  generalize Approx.absDiffEq a.x b.x e = r0
  generalize Approx.absDiffEq a.y b.y e = r1
  generalize Approx.absDiffEq a.z b.z e = r2
  generalize Approx.absDiffEq a.w b.w e = r3
  cases r0
  · simp
  cases r1
  · simp
  cases r2
  · simp
  cases r3
  · simp
  simp
/-- **`v4.abs_diff_eq` as computed**: exactly one traced path is taken; the path taken returns normally one boolean, the model's
relation; and that is `true` iff the scalar relation WITH THE SAME TOLERANCE ARGUMENTS holds on every component pair -/
theorem code_v4_abs_diff_eq (a b : V4 K) (e : K) :
    Tr.ExactlyOne (v4AbsDiffEq a b e) ∧
    (∀ t ∈ v4AbsDiffEq a b e, t.Consistent → t.res = .ok ∧ t.out = [] ∧ t.bools = [V4.absDiffEq a b e]) ∧
    (V4.absDiffEq a b e = true ↔ Approx.absDiffEq a.x b.x e = true ∧ Approx.absDiffEq a.y b.y e = true ∧ Approx.absDiffEq a.z b.z e = true ∧ Approx.absDiffEq a.w b.w e = true) := by
  refine ⟨v4_abs_diff_eq_exactly_one a b e, ?_, Cg.C18.V4.absDiffEq_iff a b e⟩
  intro t ht
  simp only [v4AbsDiffEq, List.mem_cons, List.not_mem_nil, or_false] at ht
  rcases ht with rfl | rfl | rfl | rfl | rfl
  · intro hc
    have ⟨h0, h1, h2, h3⟩ := (v4_abs_diff_eq_true_consistent a b e).1 hc
    rw [(Trace.C18Ops.t_v4_abs_diff_eq_true a b e h0 h1 h2 h3).1]; exact ⟨rfl, rfl, rfl⟩
  · intro hc
    have h0 := (v4_abs_diff_eq_false_0_consistent a b e).1 hc
    rw [(Trace.C18Ops.t_v4_abs_diff_eq_false_0 a b e h0).1]; exact ⟨rfl, rfl, rfl⟩
  · intro hc
    have ⟨h0, h1⟩ := (v4_abs_diff_eq_false_1_consistent a b e).1 hc
    rw [(Trace.C18Ops.t_v4_abs_diff_eq_false_1 a b e h0 h1).1]; exact ⟨rfl, rfl, rfl⟩
  · intro hc
    have ⟨h0, h1, h2⟩ := (v4_abs_diff_eq_false_2_consistent a b e).1 hc
    rw [(Trace.C18Ops.t_v4_abs_diff_eq_false_2 a b e h0 h1 h2).1]; exact ⟨rfl, rfl, rfl⟩
  · intro hc
    have ⟨h0, h1, h2, h3⟩ := (v4_abs_diff_eq_false_3_consistent a b e).1 hc
    rw [(Trace.C18Ops.t_v4_abs_diff_eq_false_3 a b e h0 h1 h2 h3).1]; exact ⟨rfl, rfl, rfl⟩

/-! ### `v4.relative_eq` -/
/-- this path is the one taken iff every component pair is within tolerance -/
theorem v4_relative_eq_true_consistent (a b : V4 K) (e m : K) :
    (t_v4_relative_eq_true (envL (a.toList ++ b.toList ++ [e, m]))).Consistent ↔ Approx.relEq a.x b.x e m = true ∧ Approx.relEq a.y b.y e m = true ∧ Approx.relEq a.z b.z e m = true ∧ Approx.relEq a.w b.w e m = true := by
  simp [Tr.Consistent, envL, V4.toList]
/-- this path is the one taken iff component pair `0` is the first that is not within tolerance -/
theorem v4_relative_eq_false_0_consistent (a b : V4 K) (e m : K) :
    (t_v4_relative_eq_false_0 (envL (a.toList ++ b.toList ++ [e, m]))).Consistent ↔ Approx.relEq a.x b.x e m = false := by
  simp [Tr.Consistent, envL, V4.toList]
/-- this path is the one taken iff component pair `1` is the first that is not within tolerance -/
theorem v4_relative_eq_false_1_consistent (a b : V4 K) (e m : K) :
    (t_v4_relative_eq_false_1 (envL (a.toList ++ b.toList ++ [e, m]))).Consistent ↔ Approx.relEq a.x b.x e m = true ∧ Approx.relEq a.y b.y e m = false := by
  simp [Tr.Consistent, envL, V4.toList]
/-- this path is the one taken iff component pair `2` is the first that is not within tolerance -/
theorem v4_relative_eq_false_2_consistent (a b : V4 K) (e m : K) :
    (t_v4_relative_eq_false_2 (envL (a.toList ++ b.toList ++ [e, m]))).Consistent ↔ Approx.relEq a.x b.x e m = true ∧ Approx.relEq a.y b.y e m = true ∧ Approx.relEq a.z b.z e m = false := by
  simp [Tr.Consistent, envL, V4.toList]
/-- this path is the one taken iff component pair `3` is the first that is not within tolerance -/
theorem v4_relative_eq_false_3_consistent (a b : V4 K) (e m : K) :
    (t_v4_relative_eq_false_3 (envL (a.toList ++ b.toList ++ [e, m]))).Consistent ↔ Approx.relEq a.x b.x e m = true ∧ Approx.relEq a.y b.y e m = true ∧ Approx.relEq a.z b.z e m = true ∧ Approx.relEq a.w b.w e m = false := by
  simp [Tr.Consistent, envL, V4.toList]
/-- the traced paths of `v4.relative_eq` on the input -/
def v4RelEq (a b : V4 K) (e m : K) : List (Tr K) :=
    [t_v4_relative_eq_true (envL (a.toList ++ b.toList ++ [e, m])), t_v4_relative_eq_false_0 (envL (a.toList ++ b.toList ++ [e, m])), t_v4_relative_eq_false_1 (envL (a.toList ++ b.toList ++ [e, m])), t_v4_relative_eq_false_2 (envL (a.toList ++ b.toList ++ [e, m])), t_v4_relative_eq_false_3 (envL (a.toList ++ b.toList ++ [e, m]))]
/-- for every input exactly one of the paths is the one taken -/
theorem v4_relative_eq_exactly_one (a b : V4 K) (e m : K) : Tr.ExactlyOne (v4RelEq a b e m) := by
  unfold Tr.ExactlyOne v4RelEq
  simp only [List.pairwise_cons, List.mem_cons, List.not_mem_nil, or_false, forall_eq_or_imp, forall_eq, exists_eq_or_imp,
    exists_eq_left, List.Pairwise.nil, and_true, IsEmpty.forall_iff, implies_true, false_imp_iff, exists_false,
    v4_relative_eq_true_consistent, v4_relative_eq_false_0_consistent, v4_relative_eq_false_1_consistent, v4_relative_eq_false_2_consistent, v4_relative_eq_false_3_consistent]
  generalize Approx.relEq a.x b.x e m = r0
  generalize Approx.relEq a.y b.y e m = r1
  generalize Approx.relEq a.z b.z e m = r2
  generalize Approx.relEq a.w b.w e m = r3
  cases r0
  · simp
  cases r1
  · simp
  cases r2
  · simp
  cases r3
  · simp
  simp
/-- **`v4.relative_eq` as computed**: exactly one traced path is taken; the path taken returns normally one boolean, the model's
relation; and that is `true` iff the scalar relation WITH THE SAME TOLERANCE ARGUMENTS holds on every component pair -/
theorem code_v4_relative_eq (a b : V4 K) (e m : K) :
    Tr.ExactlyOne (v4RelEq a b e m) ∧
    (∀ t ∈ v4RelEq a b e m, t.Consistent → t.res = .ok ∧ t.out = [] ∧ t.bools = [V4.relEq a b e m]) ∧
    (V4.relEq a b e m = true ↔ Approx.relEq a.x b.x e m = true ∧ Approx.relEq a.y b.y e m = true ∧ Approx.relEq a.z b.z e m = true ∧ Approx.relEq a.w b.w e m = true) := by
  refine ⟨v4_relative_eq_exactly_one a b e m, ?_, Cg.C18.V4.relEq_iff a b e m⟩
  intro t ht
  simp only [v4RelEq, List.mem_cons, List.not_mem_nil, or_false] at ht
  rcases ht with rfl | rfl | rfl | rfl | rfl
  · intro hc
    have ⟨h0, h1, h2, h3⟩ := (v4_relative_eq_true_consistent a b e m).1 hc
    rw [(Trace.C18Ops.t_v4_relative_eq_true a b e m h0 h1 h2 h3).1]; exact ⟨rfl, rfl, rfl⟩
  · intro hc
    have h0 := (v4_relative_eq_false_0_consistent a b e m).1 hc
    rw [(Trace.C18Ops.t_v4_relative_eq_false_0 a b e m h0).1]; exact ⟨rfl, rfl, rfl⟩
  · intro hc
    have ⟨h0, h1⟩ := (v4_relative_eq_false_1_consistent a b e m).1 hc
    rw [(Trace.C18Ops.t_v4_relative_eq_false_1 a b e m h0 h1).1]; exact ⟨rfl, rfl, rfl⟩
  · intro hc
    have ⟨h0, h1, h2⟩ := (v4_relative_eq_false_2_consistent a b e m).1 hc
    rw [(Trace.C18Ops.t_v4_relative_eq_false_2 a b e m h0 h1 h2).1]; exact ⟨rfl, rfl, rfl⟩
  · intro hc
    have ⟨h0, h1, h2, h3⟩ := (v4_relative_eq_false_3_consistent a b e m).1 hc
    rw [(Trace.C18Ops.t_v4_relative_eq_false_3 a b e m h0 h1 h2 h3).1]; exact ⟨rfl, rfl, rfl⟩

/-! ### `v4.ulps_eq` -/
/-- this path is the one taken iff every component pair is within tolerance -/
theorem v4_ulps_eq_true_consistent (a b : V4 K) (e : K) :
    (t_v4_ulps_eq_true (envL (a.toList ++ b.toList ++ [e]))).Consistent ↔ Approx.ulpsEq a.x b.x e 4 = true ∧ Approx.ulpsEq a.y b.y e 4 = true ∧ Approx.ulpsEq a.z b.z e 4 = true ∧ Approx.ulpsEq a.w b.w e 4 = true := by
  simp [Tr.Consistent, envL, V4.toList]
/-- this path is the one taken iff component pair `0` is the first that is not within tolerance -/
theorem v4_ulps_eq_false_0_consistent (a b : V4 K) (e : K) :
    (t_v4_ulps_eq_false_0 (envL (a.toList ++ b.toList ++ [e]))).Consistent ↔ Approx.ulpsEq a.x b.x e 4 = false := by
  simp [Tr.Consistent, envL, V4.toList]
/-- this path is the one taken iff component pair `1` is the first that is not within tolerance -/
theorem v4_ulps_eq_false_1_consistent (a b : V4 K) (e : K) :
    (t_v4_ulps_eq_false_1 (envL (a.toList ++ b.toList ++ [e]))).Consistent ↔ Approx.ulpsEq a.x b.x e 4 = true ∧ Approx.ulpsEq a.y b.y e 4 = false := by
  simp [Tr.Consistent, envL, V4.toList]
/-- this path is the one taken iff component pair `2` is the first that is not within tolerance -/
theorem v4_ulps_eq_false_2_consistent (a b : V4 K) (e : K) :
    (t_v4_ulps_eq_false_2 (envL (a.toList ++ b.toList ++ [e]))).Consistent ↔ Approx.ulpsEq a.x b.x e 4 = true ∧ Approx.ulpsEq a.y b.y e 4 = true ∧ Approx.ulpsEq a.z b.z e 4 = false := by
  simp [Tr.Consistent, envL, V4.toList]
/-- this path is the one taken iff component pair `3` is the first that is not within tolerance -/
theorem v4_ulps_eq_false_3_consistent (a b : V4 K) (e : K) :
    (t_v4_ulps_eq_false_3 (envL (a.toList ++ b.toList ++ [e]))).Consistent ↔ Approx.ulpsEq a.x b.x e 4 = true ∧ Approx.ulpsEq a.y b.y e 4 = true ∧ Approx.ulpsEq a.z b.z e 4 = true ∧ Approx.ulpsEq a.w b.w e 4 = false := by
  simp [Tr.Consistent, envL, V4.toList]
/-- the traced paths of `v4.ulps_eq` on the input -/
def v4UlpsEq (a b : V4 K) (e : K) : List (Tr K) :=
    [t_v4_ulps_eq_true (envL (a.toList ++ b.toList ++ [e])), t_v4_ulps_eq_false_0 (envL (a.toList ++ b.toList ++ [e])), t_v4_ulps_eq_false_1 (envL (a.toList ++ b.toList ++ [e])), t_v4_ulps_eq_false_2 (envL (a.toList ++ b.toList ++ [e])), t_v4_ulps_eq_false_3 (envL (a.toList ++ b.toList ++ [e]))]
/-- for every input exactly one of the paths is the one taken -/
theorem v4_ulps_eq_exactly_one (a b : V4 K) (e : K) : Tr.ExactlyOne (v4UlpsEq a b e) := by
  unfold Tr.ExactlyOne v4UlpsEq
  simp only [List.pairwise_cons, List.mem_cons, List.not_mem_nil, or_false, forall_eq_or_imp, forall_eq, exists_eq_or_imp,
    exists_eq_left, List.Pairwise.nil, and_true, IsEmpty.forall_iff, implies_true, false_imp_iff, exists_false,
    v4_ulps_eq_true_consistent, v4_ulps_eq_false_0_consistent, v4_ulps_eq_false_1_consistent, v4_ulps_eq_false_2_consistent, v4_ulps_eq_false_3_consistent]
  generalize Approx.ulpsEq a.x b.x e 4 = r0
  generalize Approx.ulpsEq a.y b.y e 4 = r1
  generalize Approx.ulpsEq a.z b.z e 4 = r2
  generalize Approx.ulpsEq a.w b.w e 4 = r3
  cases r0
  · simp
  cases r1
  · simp
  cases r2
  · simp
  cases r3
  · simp
  simp
/-- **`v4.ulps_eq` as computed**: exactly one traced path is taken; the path taken returns normally one boolean, the model's
relation; and that is `true` iff the scalar relation WITH THE SAME TOLERANCE ARGUMENTS holds on every component pair -/
theorem code_v4_ulps_eq (a b : V4 K) (e : K) :
    Tr.ExactlyOne (v4UlpsEq a b e) ∧
    (∀ t ∈ v4UlpsEq a b e, t.Consistent → t.res = .ok ∧ t.out = [] ∧ t.bools = [V4.ulpsEq a b e 4]) ∧
    (V4.ulpsEq a b e 4 = true ↔ Approx.ulpsEq a.x b.x e 4 = true ∧ Approx.ulpsEq a.y b.y e 4 = true ∧ Approx.ulpsEq a.z b.z e 4 = true ∧ Approx.ulpsEq a.w b.w e 4 = true) := by
  refine ⟨v4_ulps_eq_exactly_one a b e, ?_, Cg.C18.V4.ulpsEq_iff a b e 4⟩
  intro t ht
  simp only [v4UlpsEq, List.mem_cons, List.not_mem_nil, or_false] at ht
  rcases ht with rfl | rfl | rfl | rfl | rfl
  · intro hc
    have ⟨h0, h1, h2, h3⟩ := (v4_ulps_eq_true_consistent a b e).1 hc
    rw [(Trace.C18Ops.t_v4_ulps_eq_true a b e h0 h1 h2 h3).1]; exact ⟨rfl, rfl, rfl⟩
  · intro hc
    have h0 := (v4_ulps_eq_false_0_consistent a b e).1 hc
    rw [(Trace.C18Ops.t_v4_ulps_eq_false_0 a b e h0).1]; exact ⟨rfl, rfl, rfl⟩
  · intro hc
    have ⟨h0, h1⟩ := (v4_ulps_eq_false_1_consistent a b e).1 hc
    rw [(Trace.C18Ops.t_v4_ulps_eq_false_1 a b e h0 h1).1]; exact ⟨rfl, rfl, rfl⟩
  · intro hc
    have ⟨h0, h1, h2⟩ := (v4_ulps_eq_false_2_consistent a b e).1 hc
    rw [(Trace.C18Ops.t_v4_ulps_eq_false_2 a b e h0 h1 h2).1]; exact ⟨rfl, rfl, rfl⟩
  · intro hc
    have ⟨h0, h1, h2, h3⟩ := (v4_ulps_eq_false_3_consistent a b e).1 hc
    rw [(Trace.C18Ops.t_v4_ulps_eq_false_3 a b e h0 h1 h2 h3).1]; exact ⟨rfl, rfl, rfl⟩

/-! ### `p1.abs_diff_eq` -/
/-- this path is the one taken iff every component pair is within tolerance -/
theorem p1_abs_diff_eq_true_consistent (a b : P1 K) (e : K) :
    (t_p1_abs_diff_eq_true (envL (a.toList ++ b.toList ++ [e]))).Consistent ↔ Approx.absDiffEq a.x b.x e = true := by
  simp [Tr.Consistent, envL, P1.toList]
/-- this path is the one taken iff component pair `0` is the first that is not within tolerance -/
theorem p1_abs_diff_eq_false_0_consistent (a b : P1 K) (e : K) :
    (t_p1_abs_diff_eq_false_0 (envL (a.toList ++ b.toList ++ [e]))).Consistent ↔ Approx.absDiffEq a.x b.x e = false := by
  simp [Tr.Consistent, envL, P1.toList]
/-- the traced paths of `p1.abs_diff_eq` on the input -/
def p1AbsDiffEq (a b : P1 K) (e : K) : List (Tr K) :=
    [t_p1_abs_diff_eq_true (envL (a.toList ++ b.toList ++ [e])), t_p1_abs_diff_eq_false_0 (envL (a.toList ++ b.toList ++ [e]))]
/-- for every input exactly one of the paths is the one taken -/
theorem p1_abs_diff_eq_exactly_one (a b : P1 K) (e : K) : Tr.ExactlyOne (p1AbsDiffEq a b e) := by
  unfold Tr.ExactlyOne p1AbsDiffEq
  simp only [List.pairwise_cons, List.mem_cons, List.not_mem_nil, or_false, forall_eq_or_imp, forall_eq, exists_eq_or_imp,
    exists_eq_left, List.Pairwise.nil, and_true, IsEmpty.forall_iff, implies_true, false_imp_iff, exists_false,
    p1_abs_diff_eq_true_consistent, p1_abs_diff_eq_false_0_consistent]
  generalize Approx.absDiffEq a.x b.x e = r0
  cases r0
  · simp
  simp
/-- **`p1.abs_diff_eq` as computed**: exactly one traced path is taken; the path taken returns normally one boolean, the model's
relation; and that is `true` iff the scalar relation WITH THE SAME TOLERANCE ARGUMENTS holds on every component pair -/
theorem code_p1_abs_diff_eq (a b : P1 K) (e : K) :
    Tr.ExactlyOne (p1AbsDiffEq a b e) ∧
    (∀ t ∈ p1AbsDiffEq a b e, t.Consistent → t.res = .ok ∧ t.out = [] ∧ t.bools = [P1.absDiffEq a b e]) ∧
    (P1.absDiffEq a b e = true ↔ Approx.absDiffEq a.x b.x e = true) := by
  refine ⟨p1_abs_diff_eq_exactly_one a b e, ?_, Cg.C18.P1.absDiffEq_iff a b e⟩
  intro t ht
  simp only [p1AbsDiffEq, List.mem_cons, List.not_mem_nil, or_false] at ht
  rcases ht with rfl | rfl
  · intro hc
    have h0 := (p1_abs_diff_eq_true_consistent a b e).1 hc
    rw [(Trace.C18Ops.t_p1_abs_diff_eq_true a b e h0).1]; exact ⟨rfl, rfl, rfl⟩
  · intro hc
    have h0 := (p1_abs_diff_eq_false_0_consistent a b e).1 hc
    rw [(Trace.C18Ops.t_p1_abs_diff_eq_false_0 a b e h0).1]; exact ⟨rfl, rfl, rfl⟩

/-! ### `p1.relative_eq` -/
/-- this path is the one taken iff every component pair is within tolerance -/
theorem p1_relative_eq_true_consistent (a b : P1 K) (e m : K) :
    (t_p1_relative_eq_true (envL (a.toList ++ b.toList ++ [e, m]))).Consistent ↔ Approx.relEq a.x b.x e m = true := by
  simp [Tr.Consistent, envL, P1.toList]
/-- this path is the one taken iff component pair `0` is the first that is not within tolerance -/
theorem p1_relative_eq_false_0_consistent (a b : P1 K) (e m : K) :
    (t_p1_relative_eq_false_0 (envL (a.toList ++ b.toList ++ [e, m]))).Consistent ↔ Approx.relEq a.x b.x e m = false := by
  simp [Tr.Consistent, envL, P1.toList]
/-- the traced paths of `p1.relative_eq` on the input -/
def p1RelEq (a b : P1 K) (e m : K) : List (Tr K) :=
    [t_p1_relative_eq_true (envL (a.toList ++ b.toList ++ [e, m])), t_p1_relative_eq_false_0 (envL (a.toList ++ b.toList ++ [e, m]))]
/-- for every input exactly one of the paths is the one taken -/
theorem p1_relative_eq_exactly_one (a b : P1 K) (e m : K) : Tr.ExactlyOne (p1RelEq a b e m) := by
  unfold Tr.ExactlyOne p1RelEq
  simp only [List.pairwise_cons, List.mem_cons, List.not_mem_nil, or_false, forall_eq_or_imp, forall_eq, exists_eq_or_imp,
    exists_eq_left, List.Pairwise.nil, and_true, IsEmpty.forall_iff, implies_true, false_imp_iff, exists_false,
    p1_relative_eq_true_consistent, p1_relative_eq_false_0_consistent]
  generalize Approx.relEq a.x b.x e m = r0
  cases r0
  · simp
  simp
/-- **`p1.relative_eq` as computed**: exactly one traced path is taken; the path taken returns normally one boolean, the model's
relation; and that is `true` iff the scalar relation WITH THE SAME TOLERANCE ARGUMENTS holds on every component pair -/
theorem code_p1_relative_eq (a b : P1 K) (e m : K) :
    Tr.ExactlyOne (p1RelEq a b e m) ∧
    (∀ t ∈ p1RelEq a b e m, t.Consistent → t.res = .ok ∧ t.out = [] ∧ t.bools = [P1.relEq a b e m]) ∧
    (P1.relEq a b e m = true ↔ Approx.relEq a.x b.x e m = true) := by
  refine ⟨p1_relative_eq_exactly_one a b e m, ?_, Cg.C18.P1.relEq_iff a b e m⟩
  intro t ht
  simp only [p1RelEq, List.mem_cons, List.not_mem_nil, or_false] at ht
  rcases ht with rfl | rfl
  · intro hc
    have h0 := (p1_relative_eq_true_consistent a b e m).1 hc
    rw [(Trace.C18Ops.t_p1_relative_eq_true a b e m h0).1]; exact ⟨rfl, rfl, rfl⟩
  · intro hc
    have h0 := (p1_relative_eq_false_0_consistent a b e m).1 hc
    rw [(Trace.C18Ops.t_p1_relative_eq_false_0 a b e m h0).1]; exact ⟨rfl, rfl, rfl⟩

/-! ### `p1.ulps_eq` -/
/-- this path is the one taken iff every component pair is within tolerance -/
theorem p1_ulps_eq_true_consistent (a b : P1 K) (e : K) :
    (t_p1_ulps_eq_true (envL (a.toList ++ b.toList ++ [e]))).Consistent ↔ Approx.ulpsEq a.x b.x e 4 = true := by
  simp [Tr.Consistent, envL, P1.toList]
/-- this path is the one taken iff component pair `0` is the first that is not within tolerance -/
theorem p1_ulps_eq_false_0_consistent (a b : P1 K) (e : K) :
    (t_p1_ulps_eq_false_0 (envL (a.toList ++ b.toList ++ [e]))).Consistent ↔ Approx.ulpsEq a.x b.x e 4 = false := by
  simp [Tr.Consistent, envL, P1.toList]
/-- the traced paths of `p1.ulps_eq` on the input -/
def p1UlpsEq (a b : P1 K) (e : K) : List (Tr K) :=
    [t_p1_ulps_eq_true (envL (a.toList ++ b.toList ++ [e])), t_p1_ulps_eq_false_0 (envL (a.toList ++ b.toList ++ [e]))]
/-- for every input exactly one of the paths is the one taken -/
theorem p1_ulps_eq_exactly_one (a b : P1 K) (e : K) : Tr.ExactlyOne (p1UlpsEq a b e) := by
  unfold Tr.ExactlyOne p1UlpsEq
  simp only [List.pairwise_cons, List.mem_cons, List.not_mem_nil, or_false, forall_eq_or_imp, forall_eq, exists_eq_or_imp,
    exists_eq_left, List.Pairwise.nil, and_true, IsEmpty.forall_iff, implies_true, false_imp_iff, exists_false,
    p1_ulps_eq_true_consistent, p1_ulps_eq_false_0_consistent]
  generalize Approx.ulpsEq a.x b.x e 4 = r0
  cases r0
  · simp
  simp
/-- **`p1.ulps_eq` as computed**: exactly one traced path is taken; the path taken returns normally one boolean, the model's
relation; and that is `true` iff the scalar relation WITH THE SAME TOLERANCE ARGUMENTS holds on every component pair -/
theorem code_p1_ulps_eq (a b : P1 K) (e : K) :
    Tr.ExactlyOne (p1UlpsEq a b e) ∧
    (∀ t ∈ p1UlpsEq a b e, t.Consistent → t.res = .ok ∧ t.out = [] ∧ t.bools = [P1.ulpsEq a b e 4]) ∧
    (P1.ulpsEq a b e 4 = true ↔ Approx.ulpsEq a.x b.x e 4 = true) := by
  refine ⟨p1_ulps_eq_exactly_one a b e, ?_, Cg.C18.P1.ulpsEq_iff a b e 4⟩
  intro t ht
  simp only [p1UlpsEq, List.mem_cons, List.not_mem_nil, or_false] at ht
  rcases ht with rfl | rfl
  · intro hc
    have h0 := (p1_ulps_eq_true_consistent a b e).1 hc
    rw [(Trace.C18Ops.t_p1_ulps_eq_true a b e h0).1]; exact ⟨rfl, rfl, rfl⟩
  · intro hc
    have h0 := (p1_ulps_eq_false_0_consistent a b e).1 hc
    rw [(Trace.C18Ops.t_p1_ulps_eq_false_0 a b e h0).1]; exact ⟨rfl, rfl, rfl⟩

/-! ### `p2.abs_diff_eq` -/
/-- this path is the one taken iff every component pair is within tolerance -/
theorem p2_abs_diff_eq_true_consistent (a b : P2 K) (e : K) :
    (t_p2_abs_diff_eq_true (envL (a.toList ++ b.toList ++ [e]))).Consistent ↔ Approx.absDiffEq a.x b.x e = true ∧ Approx.absDiffEq a.y b.y e = true := by
  simp [Tr.Consistent, envL, P2.toList]
/-- this path is the one taken iff component pair `0` is the first that is not within tolerance -/
theorem p2_abs_diff_eq_false_0_consistent (a b : P2 K) (e : K) :
    (t_p2_abs_diff_eq_false_0 (envL (a.toList ++ b.toList ++ [e]))).Consistent ↔ Approx.absDiffEq a.x b.x e = false := by
  simp [Tr.Consistent, envL, P2.toList]
/-- this path is the one taken iff component pair `1` is the first that is not within tolerance -/
theorem p2_abs_diff_eq_false_1_consistent (a b : P2 K) (e : K) :
    (t_p2_abs_diff_eq_false_1 (envL (a.toList ++ b.toList ++ [e]))).Consistent ↔ Approx.absDiffEq a.x b.x e = true ∧ Approx.absDiffEq a.y b.y e = false := by
  simp [Tr.Consistent, envL, P2.toList]
/-- the traced paths of `p2.abs_diff_eq` on the input -/
def p2AbsDiffEq (a b : P2 K) (e : K) : List (Tr K) :=
    [t_p2_abs_diff_eq_true (envL (a.toList ++ b.toList ++ [e])), t_p2_abs_diff_eq_false_0 (envL (a.toList ++ b.toList ++ [e])), t_p2_abs_diff_eq_false_1 (envL (a.toList ++ b.toList ++ [e]))]
/-- for every input exactly one of the paths is the one taken -/
theorem p2_abs_diff_eq_exactly_one (a b : P2 K) (e : K) : Tr.ExactlyOne (p2AbsDiffEq a b e) := by
  unfold Tr.ExactlyOne p2AbsDiffEq
  simp only [List.pairwise_cons, List.mem_cons, List.not_mem_nil, or_false, forall_eq_or_imp, forall_eq, exists_eq_or_imp,
    exists_eq_left, List.Pairwise.nil, and_true, IsEmpty.forall_iff, implies_true, false_imp_iff, exists_false,
    p2_abs_diff_eq_true_consistent, p2_abs_diff_eq_false_0_consistent, p2_abs_diff_eq_false_1_consistent]
  generalize Approx.absDiffEq a.x b.x e = r0
  generalize Approx.absDiffEq a.y b.y e = r1
  cases r0
  · simp
  cases r1
  · simp
  simp
/-- **`p2.abs_diff_eq` as computed**: exactly one traced path is taken; the path taken returns normally one boolean, the model's
relation; and that is `true` iff the scalar relation WITH THE SAME TOLERANCE ARGUMENTS holds on every component pair -/
theorem code_p2_abs_diff_eq (a b : P2 K) (e : K) :
    Tr.ExactlyOne (p2AbsDiffEq a b e) ∧
    (∀ t ∈ p2AbsDiffEq a b e, t.Consistent → t.res = .ok ∧ t.out = [] ∧ t.bools = [P2.absDiffEq a b e]) ∧
    (P2.absDiffEq a b e = true ↔ Approx.absDiffEq a.x b.x e = true ∧ Approx.absDiffEq a.y b.y e = true) := by
  refine ⟨p2_abs_diff_eq_exactly_one a b e, ?_, Cg.C18.P2.absDiffEq_iff a b e⟩
  intro t ht
  simp only [p2AbsDiffEq, List.mem_cons, List.not_mem_nil, or_false] at ht
  rcases ht with rfl | rfl | rfl
  · intro hc
    have ⟨h0, h1⟩ := (p2_abs_diff_eq_true_consistent a b e).1 hc
    rw [(Trace.C18Ops.t_p2_abs_diff_eq_true a b e h0 h1).1]; exact ⟨rfl, rfl, rfl⟩
  · intro hc
    have h0 := (p2_abs_diff_eq_false_0_consistent a b e).1 hc
    rw [(Trace.C18Ops.t_p2_abs_diff_eq_false_0 a b e h0).1]; exact ⟨rfl, rfl, rfl⟩
  · intro hc
    have ⟨h0, h1⟩ := (p2_abs_diff_eq_false_1_consistent a b e).1 hc
    rw [(Trace.C18Ops.t_p2_abs_diff_eq_false_1 a b e h0 h1).1]; exact ⟨rfl, rfl, rfl⟩

/-! ### `p2.relative_eq` -/
/-- this path is the one taken iff every component pair is within tolerance -/
theorem p2_relative_eq_true_consistent (a b : P2 K) (e m : K) :
    (t_p2_relative_eq_true (envL (a.toList ++ b.toList ++ [e, m]))).Consistent ↔ Approx.relEq a.x b.x e m = true ∧ Approx.relEq a.y b.y e m = true := by
  simp [Tr.Consistent, envL, P2.toList]
/-- this path is the one taken iff component pair `0` is the first that is not within tolerance -/
theorem p2_relative_eq_false_0_consistent (a b : P2 K) (e m : K) :
    (t_p2_relative_eq_false_0 (envL (a.toList ++ b.toList ++ [e, m]))).Consistent ↔ Approx.relEq a.x b.x e m = false := by
  simp [Tr.Consistent, envL, P2.toList]
/-- this path is the one taken iff component pair `1` is the first that is not within tolerance -/
theorem p2_relative_eq_false_1_consistent (a b : P2 K) (e m : K) :
    (t_p2_relative_eq_false_1 (envL (a.toList ++ b.toList ++ [e, m]))).Consistent ↔ Approx.relEq a.x b.x e m = true ∧ Approx.relEq a.y b.y e m = false := by
  simp [Tr.Consistent, envL, P2.toList]
/-- the traced paths of `p2.relative_eq` on the input -/
def p2RelEq (a b : P2 K) (e m : K) : List (Tr K) :=
    [t_p2_relative_eq_true (envL (a.toList ++ b.toList ++ [e, m])), t_p2_relative_eq_false_0 (envL (a.toList ++ b.toList ++ [e, m])), t_p2_relative_eq_false_1 (envL (a.toList ++ b.toList ++ [e, m]))]
/-- for every input exactly one of the paths is the one taken -/
theorem p2_relative_eq_exactly_one (a b : P2 K) (e m : K) : Tr.ExactlyOne (p2RelEq a b e m) := by
  unfold Tr.ExactlyOne p2RelEq
  simp only [List.pairwise_cons, List.mem_cons, List.not_mem_nil, or_false, forall_eq_or_imp, forall_eq, exists_eq_or_imp,
    exists_eq_left, List.Pairwise.nil, and_true, IsEmpty.forall_iff, implies_true, false_imp_iff, exists_false,
    p2_relative_eq_true_consistent, p2_relative_eq_false_0_consistent, p2_relative_eq_false_1_consistent]
  generalize Approx.relEq a.x b.x e m = r0
  generalize Approx.relEq a.y b.y e m = r1
  cases r0
  · simp
  cases r1
  · simp
  simp
/-- **`p2.relative_eq` as computed**: exactly one traced path is taken; the path taken returns normally one boolean, the model's
relation; and that is `true` iff the scalar relation WITH THE SAME TOLERANCE ARGUMENTS holds on every component pair -/
theorem code_p2_relative_eq (a b : P2 K) (e m : K) :
    Tr.ExactlyOne (p2RelEq a b e m) ∧
    (∀ t ∈ p2RelEq a b e m, t.Consistent → t.res = .ok ∧ t.out = [] ∧ t.bools = [P2.relEq a b e m]) ∧
    (P2.relEq a b e m = true ↔ Approx.relEq a.x b.x e m = true ∧ Approx.relEq a.y b.y e m = true) := by
  refine ⟨p2_relative_eq_exactly_one a b e m, ?_, Cg.C18.P2.relEq_iff a b e m⟩
  intro t ht
  simp only [p2RelEq, List.mem_cons, List.not_mem_nil, or_false] at ht
  rcases ht with rfl | rfl | rfl
  · intro hc
    have ⟨h0, h1⟩ := (p2_relative_eq_true_consistent a b e m).1 hc
    rw [(Trace.C18Ops.t_p2_relative_eq_true a b e m h0 h1).1]; exact ⟨rfl, rfl, rfl⟩
  · intro hc
    have h0 := (p2_relative_eq_false_0_consistent a b e m).1 hc
    rw [(Trace.C18Ops.t_p2_relative_eq_false_0 a b e m h0).1]; exact ⟨rfl, rfl, rfl⟩
  · intro hc
    have ⟨h0, h1⟩ := (p2_relative_eq_false_1_consistent a b e m).1 hc
    rw [(Trace.C18Ops.t_p2_relative_eq_false_1 a b e m h0 h1).1]; exact ⟨rfl, rfl, rfl⟩

/-! ### `p2.ulps_eq` -/
/-- this path is the one taken iff every component pair is within tolerance -/
theorem p2_ulps_eq_true_consistent (a b : P2 K) (e : K) :
    (t_p2_ulps_eq_true (envL (a.toList ++ b.toList ++ [e]))).Consistent ↔ Approx.ulpsEq a.x b.x e 4 = true ∧ Approx.ulpsEq a.y b.y e 4 = true := by
  simp [Tr.Consistent, envL, P2.toList]
/-- this path is the one taken iff component pair `0` is the first that is not within tolerance -/
theorem p2_ulps_eq_false_0_consistent (a b : P2 K) (e : K) :
    (t_p2_ulps_eq_false_0 (envL (a.toList ++ b.toList ++ [e]))).Consistent ↔ Approx.ulpsEq a.x b.x e 4 = false := by
  simp [Tr.Consistent, envL, P2.toList]
/-- this path is the one taken iff component pair `1` is the first that is not within tolerance -/
theorem p2_ulps_eq_false_1_consistent (a b : P2 K) (e : K) :
    (t_p2_ulps_eq_false_1 (envL (a.toList ++ b.toList ++ [e]))).Consistent ↔ Approx.ulpsEq a.x b.x e 4 = true ∧ Approx.ulpsEq a.y b.y e 4 = false := by
  simp [Tr.Consistent, envL, P2.toList]
/-- the traced paths of `p2.ulps_eq` on the input -/
def p2UlpsEq (a b : P2 K) (e : K) : List (Tr K) :=
    [t_p2_ulps_eq_true (envL (a.toList ++ b.toList ++ [e])), t_p2_ulps_eq_false_0 (envL (a.toList ++ b.toList ++ [e])), t_p2_ulps_eq_false_1 (envL (a.toList ++ b.toList ++ [e]))]
/-- for every input exactly one of the paths is the one taken -/
theorem p2_ulps_eq_exactly_one (a b : P2 K) (e : K) : Tr.ExactlyOne (p2UlpsEq a b e) := by
  unfold Tr.ExactlyOne p2UlpsEq
  simp only [List.pairwise_cons, List.mem_cons, List.not_mem_nil, or_false, forall_eq_or_imp, forall_eq, exists_eq_or_imp,
    exists_eq_left, List.Pairwise.nil, and_true, IsEmpty.forall_iff, implies_true, false_imp_iff, exists_false,
    p2_ulps_eq_true_consistent, p2_ulps_eq_false_0_consistent, p2_ulps_eq_false_1_consistent]
  generalize Approx.ulpsEq a.x b.x e 4 = r0
  generalize Approx.ulpsEq a.y b.y e 4 = r1
  cases r0
  · simp
  cases r1
  · simp
  simp
/-- **`p2.ulps_eq` as computed**: exactly one traced path is taken; the path taken returns normally one boolean, the model's
relation; and that is `true` iff the scalar relation WITH THE SAME TOLERANCE ARGUMENTS holds on every component pair -/
theorem code_p2_ulps_eq (a b : P2 K) (e : K) :
    Tr.ExactlyOne (p2UlpsEq a b e) ∧
    (∀ t ∈ p2UlpsEq a b e, t.Consistent → t.res = .ok ∧ t.out = [] ∧ t.bools = [P2.ulpsEq a b e 4]) ∧
    (P2.ulpsEq a b e 4 = true ↔ Approx.ulpsEq a.x b.x e 4 = true ∧ Approx.ulpsEq a.y b.y e 4 = true) := by
  refine ⟨p2_ulps_eq_exactly_one a b e, ?_, Cg.C18.P2.ulpsEq_iff a b e 4⟩
  intro t ht
  simp only [p2UlpsEq, List.mem_cons, List.not_mem_nil, or_false] at ht
  rcases ht with rfl | rfl | rfl
  · intro hc
    have ⟨h0, h1⟩ := (p2_ulps_eq_true_consistent a b e).1 hc
    rw [(Trace.C18Ops.t_p2_ulps_eq_true a b e h0 h1).1]; exact ⟨rfl, rfl, rfl⟩
  · intro hc
    have h0 := (p2_ulps_eq_false_0_consistent a b e).1 hc
    rw [(Trace.C18Ops.t_p2_ulps_eq_false_0 a b e h0).1]; exact ⟨rfl, rfl, rfl⟩
  · intro hc
    have ⟨h0, h1⟩ := (p2_ulps_eq_false_1_consistent a b e).1 hc
    rw [(Trace.C18Ops.t_p2_ulps_eq_false_1 a b e h0 h1).1]; exact ⟨rfl, rfl, rfl⟩

/-! ### `p3.abs_diff_eq` -/
/-- this path is the one taken iff every component pair is within tolerance -/
theorem p3_abs_diff_eq_true_consistent (a b : P3 K) (e : K) :
    (t_p3_abs_diff_eq_true (envL (a.toList ++ b.toList ++ [e]))).Consistent ↔ Approx.absDiffEq a.x b.x e = true ∧ Approx.absDiffEq a.y b.y e = true ∧ Approx.absDiffEq a.z b.z e = true := by
  simp [Tr.Consistent, envL, P3.toList]
/-- this path is the one taken iff component pair `0` is the first that is not within tolerance -/
theorem p3_abs_diff_eq_false_0_consistent (a b : P3 K) (e : K) :
    (t_p3_abs_diff_eq_false_0 (envL (a.toList ++ b.toList ++ [e]))).Consistent ↔ Approx.absDiffEq a.x b.x e = false := by
  simp [Tr.Consistent, envL, P3.toList]
/-- this path is the one taken iff component pair `1` is the first that is not within tolerance -/
theorem p3_abs_diff_eq_false_1_consistent (a b : P3 K) (e : K) :
    (t_p3_abs_diff_eq_false_1 (envL (a.toList ++ b.toList ++ [e]))).Consistent ↔ Approx.absDiffEq a.x b.x e = true ∧ Approx.absDiffEq a.y b.y e = false := by
  simp [Tr.Consistent, envL, P3.toList]
/-- this path is the one taken iff component pair `2` is the first that is not within tolerance -/
theorem p3_abs_diff_eq_false_2_consistent (a b : P3 K) (e : K) :
    (t_p3_abs_diff_eq_false_2 (envL (a.toList ++ b.toList ++ [e]))).Consistent ↔ Approx.absDiffEq a.x b.x e = true ∧ Approx.absDiffEq a.y b.y e = true ∧ Approx.absDiffEq a.z b.z e = false := by
  simp [Tr.Consistent, envL, P3.toList]
/-- the traced paths of `p3.abs_diff_eq` on the input -/
def p3AbsDiffEq (a b : P3 K) (e : K) : List (Tr K) :=
    [t_p3_abs_diff_eq_true (envL (a.toList ++ b.toList ++ [e])), t_p3_abs_diff_eq_false_0 (envL (a.toList ++ b.toList ++ [e])), t_p3_abs_diff_eq_false_1 (envL (a.toList ++ b.toList ++ [e])), t_p3_abs_diff_eq_false_2 (envL (a.toList ++ b.toList ++ [e]))]
/-- for every input exactly one of the paths is the one taken -/
theorem p3_abs_diff_eq_exactly_one (a b : P3 K) (e : K) : Tr.ExactlyOne (p3AbsDiffEq a b e) := by
  unfold Tr.ExactlyOne p3AbsDiffEq
  simp only [List.pairwise_cons, List.mem_cons, List.not_mem_nil, or_false, forall_eq_or_imp, forall_eq, exists_eq_or_imp,
    exists_eq_left, List.Pairwise.nil, and_true, IsEmpty.forall_iff, implies_true, false_imp_iff, exists_false,
    p3_abs_diff_eq_true_consistent, p3_abs_diff_eq_false_0_consistent, p3_abs_diff_eq_false_1_consistent, p3_abs_diff_eq_false_2_consistent]
  generalize Approx.absDiffEq a.x b.x e = r0
  generalize Approx.absDiffEq a.y b.y e = r1
  generalize Approx.absDiffEq a.z b.z e = r2
  cases r0
  · simp
  cases r1
  · simp
  cases r2
  · simp
  simp
/-- **`p3.abs_diff_eq` as computed**: exactly one traced path is taken; the path taken returns normally one boolean, the model's
relation; and that is `true` iff the scalar relation WITH THE SAME TOLERANCE ARGUMENTS holds on every component pair -/
theorem code_p3_abs_diff_eq (a b : P3 K) (e : K) :
    Tr.ExactlyOne (p3AbsDiffEq a b e) ∧
    (∀ t ∈ p3AbsDiffEq a b e, t.Consistent → t.res = .ok ∧ t.out = [] ∧ t.bools = [P3.absDiffEq a b e]) ∧
    (P3.absDiffEq a b e = true ↔ Approx.absDiffEq a.x b.x e = true ∧ Approx.absDiffEq a.y b.y e = true ∧ Approx.absDiffEq a.z b.z e = true) := by
  refine ⟨p3_abs_diff_eq_exactly_one a b e, ?_, Cg.C18.P3.absDiffEq_iff a b e⟩
  intro t ht
  simp only [p3AbsDiffEq, List.mem_cons, List.not_mem_nil, or_false] at ht
  rcases ht with rfl | rfl | rfl | rfl
  · intro hc
    have ⟨h0, h1, h2⟩ := (p3_abs_diff_eq_true_consistent a b e).1 hc
    rw [(Trace.C18Ops.t_p3_abs_diff_eq_true a b e h0 h1 h2).1]; exact ⟨rfl, rfl, rfl⟩
  · intro hc
    have h0 := (p3_abs_diff_eq_false_0_consistent a b e).1 hc
    rw [(Trace.C18Ops.t_p3_abs_diff_eq_false_0 a b e h0).1]; exact ⟨rfl, rfl, rfl⟩
  · intro hc
    have ⟨h0, h1⟩ := (p3_abs_diff_eq_false_1_consistent a b e).1 hc
    rw [(Trace.C18Ops.t_p3_abs_diff_eq_false_1 a b e h0 h1).1]; exact ⟨rfl, rfl, rfl⟩
  · intro hc
    have ⟨h0, h1, h2⟩ := (p3_abs_diff_eq_false_2_consistent a b e).1 hc
    rw [(Trace.C18Ops.t_p3_abs_diff_eq_false_2 a b e h0 h1 h2).1]; exact ⟨rfl, rfl, rfl⟩

/-! ### `p3.relative_eq` -/
/-- this path is the one taken iff every component pair is within tolerance -/
theorem p3_relative_eq_true_consistent (a b : P3 K) (e m : K) :
    (t_p3_relative_eq_true (envL (a.toList ++ b.toList ++ [e, m]))).Consistent ↔ Approx.relEq a.x b.x e m = true ∧ Approx.relEq a.y b.y e m = true ∧ Approx.relEq a.z b.z e m = true := by
  simp [Tr.Consistent, envL, P3.toList]
/-- this path is the one taken iff component pair `0` is the first that is not within tolerance -/
theorem p3_relative_eq_false_0_consistent (a b : P3 K) (e m : K) :
    (t_p3_relative_eq_false_0 (envL (a.toList ++ b.toList ++ [e, m]))).Consistent ↔ Approx.relEq a.x b.x e m = false := by
  simp [Tr.Consistent, envL, P3.toList]
/-- this path is the one taken iff component pair `1` is the first that is not within tolerance -/
theorem p3_relative_eq_false_1_consistent (a b : P3 K) (e m : K) :
    (t_p3_relative_eq_false_1 (envL (a.toList ++ b.toList ++ [e, m]))).Consistent ↔ Approx.relEq a.x b.x e m = true ∧ Approx.relEq a.y b.y e m = false := by
  simp [Tr.Consistent, envL, P3.toList]
/-- this path is the one taken iff component pair `2` is the first that is not within tolerance -/
theorem p3_relative_eq_false_2_consistent (a b : P3 K) (e m : K) :
    (t_p3_relative_eq_false_2 (envL (a.toList ++ b.toList ++ [e, m]))).Consistent ↔ Approx.relEq a.x b.x e m = true ∧ Approx.relEq a.y b.y e m = true ∧ Approx.relEq a.z b.z e m = false := by
  simp [Tr.Consistent, envL, P3.toList]
/-- the traced paths of `p3.relative_eq` on the input -/
def p3RelEq (a b : P3 K) (e m : K) : List (Tr K) :=
    [t_p3_relative_eq_true (envL (a.toList ++ b.toList ++ [e, m])), t_p3_relative_eq_false_0 (envL (a.toList ++ b.toList ++ [e, m])), t_p3_relative_eq_false_1 (envL (a.toList ++ b.toList ++ [e, m])), t_p3_relative_eq_false_2 (envL (a.toList ++ b.toList ++ [e, m]))]
/-- for every input exactly one of the paths is the one taken -/
theorem p3_relative_eq_exactly_one (a b : P3 K) (e m : K) : Tr.ExactlyOne (p3RelEq a b e m) := by
  unfold Tr.ExactlyOne p3RelEq
  simp only [List.pairwise_cons, List.mem_cons, List.not_mem_nil, or_false, forall_eq_or_imp, forall_eq, exists_eq_or_imp,
    exists_eq_left, List.Pairwise.nil, and_true, IsEmpty.forall_iff, implies_true, false_imp_iff, exists_false,
    p3_relative_eq_true_consistent, p3_relative_eq_false_0_consistent, p3_relative_eq_false_1_consistent, p3_relative_eq_false_2_consistent]
  generalize Approx.relEq a.x b.x e m = r0
  generalize Approx.relEq a.y b.y e m = r1
  generalize Approx.relEq a.z b.z e m = r2
  cases r0
  · simp
  cases r1
  · simp
  cases r2
  · simp
  simp
/-- **`p3.relative_eq` as computed**: exactly one traced path is taken; the path taken returns normally one boolean, the model's
relation; and that is `true` iff the scalar relation WITH THE SAME TOLERANCE ARGUMENTS holds on every component pair -/
theorem code_p3_relative_eq (a b : P3 K) (e m : K) :
    Tr.ExactlyOne (p3RelEq a b e m) ∧
    (∀ t ∈ p3RelEq a b e m, t.Consistent → t.res = .ok ∧ t.out = [] ∧ t.bools = [P3.relEq a b e m]) ∧
    (P3.relEq a b e m = true ↔ Approx.relEq a.x b.x e m = true ∧ Approx.relEq a.y b.y e m = true ∧ Approx.relEq a.z b.z e m = true) := by
  refine ⟨p3_relative_eq_exactly_one a b e m, ?_, Cg.C18.P3.relEq_iff a b e m⟩
  intro t ht
  simp only [p3RelEq, List.mem_cons, List.not_mem_nil, or_false] at ht
  rcases ht with rfl | rfl | rfl | rfl
  · intro hc
    have ⟨h0, h1, h2⟩ := (p3_relative_eq_true_consistent a b e m).1 hc
    rw [(Trace.C18Ops.t_p3_relative_eq_true a b e m h0 h1 h2).1]; exact ⟨rfl, rfl, rfl⟩
  · intro hc
    have h0 := (p3_relative_eq_false_0_consistent a b e m).1 hc
    rw [(Trace.C18Ops.t_p3_relative_eq_false_0 a b e m h0).1]; exact ⟨rfl, rfl, rfl⟩
  · intro hc
    have ⟨h0, h1⟩ := (p3_relative_eq_false_1_consistent a b e m).1 hc
    rw [(Trace.C18Ops.t_p3_relative_eq_false_1 a b e m h0 h1).1]; exact ⟨rfl, rfl, rfl⟩
  · intro hc
    have ⟨h0, h1, h2⟩ := (p3_relative_eq_false_2_consistent a b e m).1 hc
    rw [(Trace.C18Ops.t_p3_relative_eq_false_2 a b e m h0 h1 h2).1]; exact ⟨rfl, rfl, rfl⟩

/-! ### `p3.ulps_eq` -/
/-- this path is the one taken iff every component pair is within tolerance -/
theorem p3_ulps_eq_true_consistent (a b : P3 K) (e : K) :
    (t_p3_ulps_eq_true (envL (a.toList ++ b.toList ++ [e]))).Consistent ↔ Approx.ulpsEq a.x b.x e 4 = true ∧ Approx.ulpsEq a.y b.y e 4 = true ∧ Approx.ulpsEq a.z b.z e 4 = true := by
  simp [Tr.Consistent, envL, P3.toList]
/-- this path is the one taken iff component pair `0` is the first that is not within tolerance -/
theorem p3_ulps_eq_false_0_consistent (a b : P3 K) (e : K) :
    (t_p3_ulps_eq_false_0 (envL (a.toList ++ b.toList ++ [e]))).Consistent ↔ Approx.ulpsEq a.x b.x e 4 = false := by
  simp [Tr.Consistent, envL, P3.toList]
/-- this path is the one taken iff component pair `1` is the first that is not within tolerance -/
theorem p3_ulps_eq_false_1_consistent (a b : P3 K) (e : K) :
    (t_p3_ulps_eq_false_1 (envL (a.toList ++ b.toList ++ [e]))).Consistent ↔ Approx.ulpsEq a.x b.x e 4 = true ∧ Approx.ulpsEq a.y b.y e 4 = false := by
  simp [Tr.Consistent, envL, P3.toList]
/-- this path is the one taken iff component pair `2` is the first that is not within tolerance -/
theorem p3_ulps_eq_false_2_consistent (a b : P3 K) (e : K) :
    (t_p3_ulps_eq_false_2 (envL (a.toList ++ b.toList ++ [e]))).Consistent ↔ Approx.ulpsEq a.x b.x e 4 = true ∧ Approx.ulpsEq a.y b.y e 4 = true ∧ Approx.ulpsEq a.z b.z e 4 = false := by
  simp [Tr.Consistent, envL, P3.toList]
/-- the traced paths of `p3.ulps_eq` on the input -/
def p3UlpsEq (a b : P3 K) (e : K) : List (Tr K) :=
    [t_p3_ulps_eq_true (envL (a.toList ++ b.toList ++ [e])), t_p3_ulps_eq_false_0 (envL (a.toList ++ b.toList ++ [e])), t_p3_ulps_eq_false_1 (envL (a.toList ++ b.toList ++ [e])), t_p3_ulps_eq_false_2 (envL (a.toList ++ b.toList ++ [e]))]
/-- for every input exactly one of the paths is the one taken -/
theorem p3_ulps_eq_exactly_one (a b : P3 K) (e : K) : Tr.ExactlyOne (p3UlpsEq a b e) := by
  unfold Tr.ExactlyOne p3UlpsEq
  simp only [List.pairwise_cons, List.mem_cons, List.not_mem_nil, or_false, forall_eq_or_imp, forall_eq, exists_eq_or_imp,
    exists_eq_left, List.Pairwise.nil, and_true, IsEmpty.forall_iff, implies_true, false_imp_iff, exists_false,
    p3_ulps_eq_true_consistent, p3_ulps_eq_false_0_consistent, p3_ulps_eq_false_1_consistent, p3_ulps_eq_false_2_consistent]
  generalize Approx.ulpsEq a.x b.x e 4 = r0
  generalize Approx.ulpsEq a.y b.y e 4 = r1
  generalize Approx.ulpsEq a.z b.z e 4 = r2
  cases r0
  · simp
  cases r1
  · simp
  cases r2
  · simp
  simp
/-- **`p3.ulps_eq` as computed**: exactly one traced path is taken; the path taken returns normally one boolean, the model's
relation; and that is `true` iff the scalar relation WITH THE SAME TOLERANCE ARGUMENTS holds on every component pair -/
theorem code_p3_ulps_eq (a b : P3 K) (e : K) :
    Tr.ExactlyOne (p3UlpsEq a b e) ∧
    (∀ t ∈ p3UlpsEq a b e, t.Consistent → t.res = .ok ∧ t.out = [] ∧ t.bools = [P3.ulpsEq a b e 4]) ∧
    (P3.ulpsEq a b e 4 = true ↔ Approx.ulpsEq a.x b.x e 4 = true ∧ Approx.ulpsEq a.y b.y e 4 = true ∧ Approx.ulpsEq a.z b.z e 4 = true) := by
  refine ⟨p3_ulps_eq_exactly_one a b e, ?_, Cg.C18.P3.ulpsEq_iff a b e 4⟩
  intro t ht
  simp only [p3UlpsEq, List.mem_cons, List.not_mem_nil, or_false] at ht
  rcases ht with rfl | rfl | rfl | rfl
  · intro hc
    have ⟨h0, h1, h2⟩ := (p3_ulps_eq_true_consistent a b e).1 hc
    rw [(Trace.C18Ops.t_p3_ulps_eq_true a b e h0 h1 h2).1]; exact ⟨rfl, rfl, rfl⟩
  · intro hc
    have h0 := (p3_ulps_eq_false_0_consistent a b e).1 hc
    rw [(Trace.C18Ops.t_p3_ulps_eq_false_0 a b e h0).1]; exact ⟨rfl, rfl, rfl⟩
  · intro hc
    have ⟨h0, h1⟩ := (p3_ulps_eq_false_1_consistent a b e).1 hc
    rw [(Trace.C18Ops.t_p3_ulps_eq_false_1 a b e h0 h1).1]; exact ⟨rfl, rfl, rfl⟩
  · intro hc
    have ⟨h0, h1, h2⟩ := (p3_ulps_eq_false_2_consistent a b e).1 hc
    rw [(Trace.C18Ops.t_p3_ulps_eq_false_2 a b e h0 h1 h2).1]; exact ⟨rfl, rfl, rfl⟩

/-! ### `m2.abs_diff_eq` -/
/-- this path is the one taken iff every component pair is within tolerance -/
theorem m2_abs_diff_eq_true_consistent (a b : M2 K) (e : K) :
    (t_m2_abs_diff_eq_true (envL (a.toList ++ b.toList ++ [e]))).Consistent ↔ Approx.absDiffEq a.x.x b.x.x e = true ∧ Approx.absDiffEq a.x.y b.x.y e = true ∧ Approx.absDiffEq a.y.x b.y.x e = true ∧ Approx.absDiffEq a.y.y b.y.y e = true := by
  simp [Tr.Consistent, envL, M2.toList, V2.toList]
/-- this path is the one taken iff component pair `0` is the first that is not within tolerance -/
theorem m2_abs_diff_eq_false_0_consistent (a b : M2 K) (e : K) :
    (t_m2_abs_diff_eq_false_0 (envL (a.toList ++ b.toList ++ [e]))).Consistent ↔ Approx.absDiffEq a.x.x b.x.x e = false := by
  simp [Tr.Consistent, envL, M2.toList, V2.toList]
/-- this path is the one taken iff component pair `1` is the first that is not within tolerance -/
theorem m2_abs_diff_eq_false_1_consistent (a b : M2 K) (e : K) :
    (t_m2_abs_diff_eq_false_1 (envL (a.toList ++ b.toList ++ [e]))).Consistent ↔ Approx.absDiffEq a.x.x b.x.x e = true ∧ Approx.absDiffEq a.x.y b.x.y e = false := by
  simp [Tr.Consistent, envL, M2.toList, V2.toList]
/-- this path is the one taken iff component pair `2` is the first that is not within tolerance -/
theorem m2_abs_diff_eq_false_2_consistent (a b : M2 K) (e : K) :
    (t_m2_abs_diff_eq_false_2 (envL (a.toList ++ b.toList ++ [e]))).Consistent ↔ Approx.absDiffEq a.x.x b.x.x e = true ∧ Approx.absDiffEq a.x.y b.x.y e = true ∧ Approx.absDiffEq a.y.x b.y.x e = false := by
  simp [Tr.Consistent, envL, M2.toList, V2.toList]
/-- this path is the one taken iff component pair `3` is the first that is not within tolerance -/
theorem m2_abs_diff_eq_false_3_consistent (a b : M2 K) (e : K) :
    (t_m2_abs_diff_eq_false_3 (envL (a.toList ++ b.toList ++ [e]))).Consistent ↔ Approx.absDiffEq a.x.x b.x.x e = true ∧ Approx.absDiffEq a.x.y b.x.y e = true ∧ Approx.absDiffEq a.y.x b.y.x e = true ∧ Approx.absDiffEq a.y.y b.y.y e = false := by
  simp [Tr.Consistent, envL, M2.toList, V2.toList]
/-- the traced paths of `m2.abs_diff_eq` on the input -/
def m2AbsDiffEq (a b : M2 K) (e : K) : List (Tr K) :=
    [t_m2_abs_diff_eq_true (envL (a.toList ++ b.toList ++ [e])), t_m2_abs_diff_eq_false_0 (envL (a.toList ++ b.toList ++ [e])), t_m2_abs_diff_eq_false_1 (envL (a.toList ++ b.toList ++ [e])), t_m2_abs_diff_eq_false_2 (envL (a.toList ++ b.toList ++ [e])), t_m2_abs_diff_eq_false_3 (envL (a.toList ++ b.toList ++ [e]))]
/-- for every input exactly one of the paths is the one taken -/
theorem m2_abs_diff_eq_exactly_one (a b : M2 K) (e : K) : Tr.ExactlyOne (m2AbsDiffEq a b e) := by
  unfold Tr.ExactlyOne m2AbsDiffEq
  simp only [List.pairwise_cons, List.mem_cons, List.not_mem_nil, or_false, forall_eq_or_imp, forall_eq, exists_eq_or_imp,
    exists_eq_left, List.Pairwise.nil, and_true, IsEmpty.forall_iff, implies_true, false_imp_iff, exists_false,
    m2_abs_diff_eq_true_consistent, m2_abs_diff_eq_false_0_consistent, m2_abs_diff_eq_false_1_consistent, m2_abs_diff_eq_false_2_consistent, m2_abs_diff_eq_false_3_consistent]
  generalize Approx.absDiffEq a.x.x b.x.x e = r0
  generalize Approx.absDiffEq a.x.y b.x.y e = r1
  generalize Approx.absDiffEq a.y.x b.y.x e = r2
  generalize Approx.absDiffEq a.y.y b.y.y e = r3
  cases r0
  · simp
  cases r1
  · simp
  cases r2
  · simp
  cases r3
  · simp
  simp
/-- **`m2.abs_diff_eq` as computed**: exactly one traced path is taken; the path taken returns normally one boolean, the model's
relation; and that is `true` iff the scalar relation WITH THE SAME TOLERANCE ARGUMENTS holds on every component pair -/
theorem code_m2_abs_diff_eq (a b : M2 K) (e : K) :
    Tr.ExactlyOne (m2AbsDiffEq a b e) ∧
    (∀ t ∈ m2AbsDiffEq a b e, t.Consistent → t.res = .ok ∧ t.out = [] ∧ t.bools = [M2.absDiffEq a b e]) ∧
    (M2.absDiffEq a b e = true ↔ Approx.absDiffEq a.x.x b.x.x e = true ∧ Approx.absDiffEq a.x.y b.x.y e = true ∧ Approx.absDiffEq a.y.x b.y.x e = true ∧ Approx.absDiffEq a.y.y b.y.y e = true) := by
  refine ⟨m2_abs_diff_eq_exactly_one a b e, ?_, Cg.C18.M2.absDiffEq_iff_elems a b e⟩
  intro t ht
  simp only [m2AbsDiffEq, List.mem_cons, List.not_mem_nil, or_false] at ht
  rcases ht with rfl | rfl | rfl | rfl | rfl
  · intro hc
    have ⟨h0, h1, h2, h3⟩ := (m2_abs_diff_eq_true_consistent a b e).1 hc
    rw [(Trace.C18OpsM.t_m2_abs_diff_eq_true a b e h0 h1 h2 h3).1]; exact ⟨rfl, rfl, rfl⟩
  · intro hc
    have h0 := (m2_abs_diff_eq_false_0_consistent a b e).1 hc
    rw [(Trace.C18OpsM.t_m2_abs_diff_eq_false_0 a b e h0).1]; exact ⟨rfl, rfl, rfl⟩
  · intro hc
    have ⟨h0, h1⟩ := (m2_abs_diff_eq_false_1_consistent a b e).1 hc
    rw [(Trace.C18OpsM.t_m2_abs_diff_eq_false_1 a b e h0 h1).1]; exact ⟨rfl, rfl, rfl⟩
  · intro hc
    have ⟨h0, h1, h2⟩ := (m2_abs_diff_eq_false_2_consistent a b e).1 hc
    rw [(Trace.C18OpsM.t_m2_abs_diff_eq_false_2 a b e h0 h1 h2).1]; exact ⟨rfl, rfl, rfl⟩
  · intro hc
    have ⟨h0, h1, h2, h3⟩ := (m2_abs_diff_eq_false_3_consistent a b e).1 hc
    rw [(Trace.C18OpsM.t_m2_abs_diff_eq_false_3 a b e h0 h1 h2 h3).1]; exact ⟨rfl, rfl, rfl⟩

/-! ### `m2.relative_eq` -/
/-- this path is the one taken iff every component pair is within tolerance -/
theorem m2_relative_eq_true_consistent (a b : M2 K) (e m : K) :
    (t_m2_relative_eq_true (envL (a.toList ++ b.toList ++ [e, m]))).Consistent ↔ Approx.relEq a.x.x b.x.x e m = true ∧ Approx.relEq a.x.y b.x.y e m = true ∧ Approx.relEq a.y.x b.y.x e m = true ∧ Approx.relEq a.y.y b.y.y e m = true := by
  simp [Tr.Consistent, envL, M2.toList, V2.toList]
/-- this path is the one taken iff component pair `0` is the first that is not within tolerance -/
theorem m2_relative_eq_false_0_consistent (a b : M2 K) (e m : K) :
    (t_m2_relative_eq_false_0 (envL (a.toList ++ b.toList ++ [e, m]))).Consistent ↔ Approx.relEq a.x.x b.x.x e m = false := by
  simp [Tr.Consistent, envL, M2.toList, V2.toList]
/-- this path is the one taken iff component pair `1` is the first that is not within tolerance -/
theorem m2_relative_eq_false_1_consistent (a b : M2 K) (e m : K) :
    (t_m2_relative_eq_false_1 (envL (a.toList ++ b.toList ++ [e, m]))).Consistent ↔ Approx.relEq a.x.x b.x.x e m = true ∧ Approx.relEq a.x.y b.x.y e m = false := by
  simp [Tr.Consistent, envL, M2.toList, V2.toList]
/-- this path is the one taken iff component pair `2` is the first that is not within tolerance -/
theorem m2_relative_eq_false_2_consistent (a b : M2 K) (e m : K) :
    (t_m2_relative_eq_false_2 (envL (a.toList ++ b.toList ++ [e, m]))).Consistent ↔ Approx.relEq a.x.x b.x.x e m = true ∧ Approx.relEq a.x.y b.x.y e m = true ∧ Approx.relEq a.y.x b.y.x e m = false := by
  simp [Tr.Consistent, envL, M2.toList, V2.toList]
/-- this path is the one taken iff component pair `3` is the first that is not within tolerance -/
theorem m2_relative_eq_false_3_consistent (a b : M2 K) (e m : K) :
    (t_m2_relative_eq_false_3 (envL (a.toList ++ b.toList ++ [e, m]))).Consistent ↔ Approx.relEq a.x.x b.x.x e m = true ∧ Approx.relEq a.x.y b.x.y e m = true ∧ Approx.relEq a.y.x b.y.x e m = true ∧ Approx.relEq a.y.y b.y.y e m = false := by
  simp [Tr.Consistent, envL, M2.toList, V2.toList]
/-- the traced paths of `m2.relative_eq` on the input -/
def m2RelEq (a b : M2 K) (e m : K) : List (Tr K) :=
    [t_m2_relative_eq_true (envL (a.toList ++ b.toList ++ [e, m])), t_m2_relative_eq_false_0 (envL (a.toList ++ b.toList ++ [e, m])), t_m2_relative_eq_false_1 (envL (a.toList ++ b.toList ++ [e, m])), t_m2_relative_eq_false_2 (envL (a.toList ++ b.toList ++ [e, m])), t_m2_relative_eq_false_3 (envL (a.toList ++ b.toList ++ [e, m]))]
/-- for every input exactly one of the paths is the one taken -/
theorem m2_relative_eq_exactly_one (a b : M2 K) (e m : K) : Tr.ExactlyOne (m2RelEq a b e m) := by
  unfold Tr.ExactlyOne m2RelEq
  simp only [List.pairwise_cons, List.mem_cons, List.not_mem_nil, or_false, forall_eq_or_imp, forall_eq, exists_eq_or_imp,
    exists_eq_left, List.Pairwise.nil, and_true, IsEmpty.forall_iff, implies_true, false_imp_iff, exists_false,
    m2_relative_eq_true_consistent, m2_relative_eq_false_0_consistent, m2_relative_eq_false_1_consistent, m2_relative_eq_false_2_consistent, m2_relative_eq_false_3_consistent]
  generalize Approx.relEq a.x.x b.x.x e m = r0
  generalize Approx.relEq a.x.y b.x.y e m = r1
  generalize Approx.relEq a.y.x b.y.x e m = r2
  generalize Approx.relEq a.y.y b.y.y e m = r3
  cases r0
  · simp
  cases r1
  · simp
  cases r2
  · simp
  cases r3
  · simp
  simp
/-- **`m2.relative_eq` as computed**: exactly one traced path is taken; the path taken returns normally one boolean, the model's
relation; and that is `true` iff the scalar relation WITH THE SAME TOLERANCE ARGUMENTS holds on every component pair -/
theorem code_m2_relative_eq (a b : M2 K) (e m : K) :
    Tr.ExactlyOne (m2RelEq a b e m) ∧
    (∀ t ∈ m2RelEq a b e m, t.Consistent → t.res = .ok ∧ t.out = [] ∧ t.bools = [M2.relEq a b e m]) ∧
    (M2.relEq a b e m = true ↔ Approx.relEq a.x.x b.x.x e m = true ∧ Approx.relEq a.x.y b.x.y e m = true ∧ Approx.relEq a.y.x b.y.x e m = true ∧ Approx.relEq a.y.y b.y.y e m = true) := by
  refine ⟨m2_relative_eq_exactly_one a b e m, ?_, Cg.C18.M2.relEq_iff_elems a b e m⟩
  intro t ht
  simp only [m2RelEq, List.mem_cons, List.not_mem_nil, or_false] at ht
  rcases ht with rfl | rfl | rfl | rfl | rfl
  · intro hc
    have ⟨h0, h1, h2, h3⟩ := (m2_relative_eq_true_consistent a b e m).1 hc
    rw [(Trace.C18OpsM.t_m2_relative_eq_true a b e m h0 h1 h2 h3).1]; exact ⟨rfl, rfl, rfl⟩
  · intro hc
    have h0 := (m2_relative_eq_false_0_consistent a b e m).1 hc
    rw [(Trace.C18OpsM.t_m2_relative_eq_false_0 a b e m h0).1]; exact ⟨rfl, rfl, rfl⟩
  · intro hc
    have ⟨h0, h1⟩ := (m2_relative_eq_false_1_consistent a b e m).1 hc
    rw [(Trace.C18OpsM.t_m2_relative_eq_false_1 a b e m h0 h1).1]; exact ⟨rfl, rfl, rfl⟩
  · intro hc
    have ⟨h0, h1, h2⟩ := (m2_relative_eq_false_2_consistent a b e m).1 hc
    rw [(Trace.C18OpsM.t_m2_relative_eq_false_2 a b e m h0 h1 h2).1]; exact ⟨rfl, rfl, rfl⟩
  · intro hc
    have ⟨h0, h1, h2, h3⟩ := (m2_relative_eq_false_3_consistent a b e m).1 hc
    rw [(Trace.C18OpsM.t_m2_relative_eq_false_3 a b e m h0 h1 h2 h3).1]; exact ⟨rfl, rfl, rfl⟩

/-! ### `m2.ulps_eq` -/
/-- this path is the one taken iff every component pair is within tolerance -/
theorem m2_ulps_eq_true_consistent (a b : M2 K) (e : K) :
    (t_m2_ulps_eq_true (envL (a.toList ++ b.toList ++ [e]))).Consistent ↔ Approx.ulpsEq a.x.x b.x.x e 4 = true ∧ Approx.ulpsEq a.x.y b.x.y e 4 = true ∧ Approx.ulpsEq a.y.x b.y.x e 4 = true ∧ Approx.ulpsEq a.y.y b.y.y e 4 = true := by
  simp [Tr.Consistent, envL, M2.toList, V2.toList]
/-- this path is the one taken iff component pair `0` is the first that is not within tolerance -/
theorem m2_ulps_eq_false_0_consistent (a b : M2 K) (e : K) :
    (t_m2_ulps_eq_false_0 (envL (a.toList ++ b.toList ++ [e]))).Consistent ↔ Approx.ulpsEq a.x.x b.x.x e 4 = false := by
  simp [Tr.Consistent, envL, M2.toList, V2.toList]
/-- this path is the one taken iff component pair `1` is the first that is not within tolerance -/
theorem m2_ulps_eq_false_1_consistent (a b : M2 K) (e : K) :
    (t_m2_ulps_eq_false_1 (envL (a.toList ++ b.toList ++ [e]))).Consistent ↔ Approx.ulpsEq a.x.x b.x.x e 4 = true ∧ Approx.ulpsEq a.x.y b.x.y e 4 = false := by
  simp [Tr.Consistent, envL, M2.toList, V2.toList]
/-- this path is the one taken iff component pair `2` is the first that is not within tolerance -/
theorem m2_ulps_eq_false_2_consistent (a b : M2 K) (e : K) :
    (t_m2_ulps_eq_false_2 (envL (a.toList ++ b.toList ++ [e]))).Consistent ↔ Approx.ulpsEq a.x.x b.x.x e 4 = true ∧ Approx.ulpsEq a.x.y b.x.y e 4 = true ∧ Approx.ulpsEq a.y.x b.y.x e 4 = false := by
  simp [Tr.Consistent, envL, M2.toList, V2.toList]
/-- this path is the one taken iff component pair `3` is the first that is not within tolerance -/
theorem m2_ulps_eq_false_3_consistent (a b : M2 K) (e : K) :
    (t_m2_ulps_eq_false_3 (envL (a.toList ++ b.toList ++ [e]))).Consistent ↔ Approx.ulpsEq a.x.x b.x.x e 4 = true ∧ Approx.ulpsEq a.x.y b.x.y e 4 = true ∧ Approx.ulpsEq a.y.x b.y.x e 4 = true ∧ Approx.ulpsEq a.y.y b.y.y e 4 = false := by
  simp [Tr.Consistent, envL, M2.toList, V2.toList]
/-- the traced paths of `m2.ulps_eq` on the input -/
def m2UlpsEq (a b : M2 K) (e : K) : List (Tr K) :=
    [t_m2_ulps_eq_true (envL (a.toList ++ b.toList ++ [e])), t_m2_ulps_eq_false_0 (envL (a.toList ++ b.toList ++ [e])), t_m2_ulps_eq_false_1 (envL (a.toList ++ b.toList ++ [e])), t_m2_ulps_eq_false_2 (envL (a.toList ++ b.toList ++ [e])), t_m2_ulps_eq_false_3 (envL (a.toList ++ b.toList ++ [e]))]
/-- for every input exactly one of the paths is the one taken -/
theorem m2_ulps_eq_exactly_one (a b : M2 K) (e : K) : Tr.ExactlyOne (m2UlpsEq a b e) := by
  unfold Tr.ExactlyOne m2UlpsEq
  simp only [List.pairwise_cons, List.mem_cons, List.not_mem_nil, or_false, forall_eq_or_imp, forall_eq, exists_eq_or_imp,
    exists_eq_left, List.Pairwise.nil, and_true, IsEmpty.forall_iff, implies_true, false_imp_iff, exists_false,
    m2_ulps_eq_true_consistent, m2_ulps_eq_false_0_consistent, m2_ulps_eq_false_1_consistent, m2_ulps_eq_false_2_consistent, m2_ulps_eq_false_3_consistent]
  generalize Approx.ulpsEq a.x.x b.x.x e 4 = r0
  generalize Approx.ulpsEq a.x.y b.x.y e 4 = r1
  generalize Approx.ulpsEq a.y.x b.y.x e 4 = r2
  generalize Approx.ulpsEq a.y.y b.y.y e 4 = r3
  cases r0
  · simp
  cases r1
  · simp
  cases r2
  · simp
  cases r3
  · simp
  simp
/-- **`m2.ulps_eq` as computed**: exactly one traced path is taken; the path taken returns normally one boolean, the model's
relation; and that is `true` iff the scalar relation WITH THE SAME TOLERANCE ARGUMENTS holds on every component pair -/
theorem code_m2_ulps_eq (a b : M2 K) (e : K) :
    Tr.ExactlyOne (m2UlpsEq a b e) ∧
    (∀ t ∈ m2UlpsEq a b e, t.Consistent → t.res = .ok ∧ t.out = [] ∧ t.bools = [M2.ulpsEq a b e 4]) ∧
    (M2.ulpsEq a b e 4 = true ↔ Approx.ulpsEq a.x.x b.x.x e 4 = true ∧ Approx.ulpsEq a.x.y b.x.y e 4 = true ∧ Approx.ulpsEq a.y.x b.y.x e 4 = true ∧ Approx.ulpsEq a.y.y b.y.y e 4 = true) := by
  refine ⟨m2_ulps_eq_exactly_one a b e, ?_, Cg.C18.M2.ulpsEq_iff_elems a b e 4⟩
  intro t ht
  simp only [m2UlpsEq, List.mem_cons, List.not_mem_nil, or_false] at ht
  rcases ht with rfl | rfl | rfl | rfl | rfl
  · intro hc
    have ⟨h0, h1, h2, h3⟩ := (m2_ulps_eq_true_consistent a b e).1 hc
    rw [(Trace.C18OpsM.t_m2_ulps_eq_true a b e h0 h1 h2 h3).1]; exact ⟨rfl, rfl, rfl⟩
  · intro hc
    have h0 := (m2_ulps_eq_false_0_consistent a b e).1 hc
    rw [(Trace.C18OpsM.t_m2_ulps_eq_false_0 a b e h0).1]; exact ⟨rfl, rfl, rfl⟩
  · intro hc
    have ⟨h0, h1⟩ := (m2_ulps_eq_false_1_consistent a b e).1 hc
    rw [(Trace.C18OpsM.t_m2_ulps_eq_false_1 a b e h0 h1).1]; exact ⟨rfl, rfl, rfl⟩
  · intro hc
    have ⟨h0, h1, h2⟩ := (m2_ulps_eq_false_2_consistent a b e).1 hc
    rw [(Trace.C18OpsM.t_m2_ulps_eq_false_2 a b e h0 h1 h2).1]; exact ⟨rfl, rfl, rfl⟩
  · intro hc
    have ⟨h0, h1, h2, h3⟩ := (m2_ulps_eq_false_3_consistent a b e).1 hc
    rw [(Trace.C18OpsM.t_m2_ulps_eq_false_3 a b e h0 h1 h2 h3).1]; exact ⟨rfl, rfl, rfl⟩

/-! ### `m3.abs_diff_eq` -/
/-- this path is the one taken iff every component pair is within tolerance -/
theorem m3_abs_diff_eq_true_consistent (a b : M3 K) (e : K) :
    (t_m3_abs_diff_eq_true (envL (a.toList ++ b.toList ++ [e]))).Consistent ↔ Approx.absDiffEq a.x.x b.x.x e = true ∧ Approx.absDiffEq a.x.y b.x.y e = true ∧ Approx.absDiffEq a.x.z b.x.z e = true ∧ Approx.absDiffEq a.y.x b.y.x e = true ∧ Approx.absDiffEq a.y.y b.y.y e = true ∧ Approx.absDiffEq a.y.z b.y.z e = true ∧ Approx.absDiffEq a.z.x b.z.x e = true ∧ Approx.absDiffEq a.z.y b.z.y e = true ∧ Approx.absDiffEq a.z.z b.z.z e = true := by
  simp [Tr.Consistent, envL, M3.toList, V3.toList]
/-- this path is the one taken iff component pair `0` is the first that is not within tolerance -/
theorem m3_abs_diff_eq_false_0_consistent (a b : M3 K) (e : K) :
    (t_m3_abs_diff_eq_false_0 (envL (a.toList ++ b.toList ++ [e]))).Consistent ↔ Approx.absDiffEq a.x.x b.x.x e = false := by
  simp [Tr.Consistent, envL, M3.toList, V3.toList]
/-- this path is the one taken iff component pair `1` is the first that is not within tolerance -/
theorem m3_abs_diff_eq_false_1_consistent (a b : M3 K) (e : K) :
    (t_m3_abs_diff_eq_false_1 (envL (a.toList ++ b.toList ++ [e]))).Consistent ↔ Approx.absDiffEq a.x.x b.x.x e = true ∧ Approx.absDiffEq a.x.y b.x.y e = false := by
  simp [Tr.Consistent, envL, M3.toList, V3.toList]
/-- this path is the one taken iff component pair `2` is the first that is not within tolerance -/
theorem m3_abs_diff_eq_false_2_consistent (a b : M3 K) (e : K) :
    (t_m3_abs_diff_eq_false_2 (envL (a.toList ++ b.toList ++ [e]))).Consistent ↔ Approx.absDiffEq a.x.x b.x.x e = true ∧ Approx.absDiffEq a.x.y b.x.y e = true ∧ Approx.absDiffEq a.x.z b.x.z e = false := by
  simp [Tr.Consistent, envL, M3.toList, V3.toList]
/-- this path is the one taken iff component pair `3` is the first that is not within tolerance -/
theorem m3_abs_diff_eq_false_3_consistent (a b : M3 K) (e : K) :
    (t_m3_abs_diff_eq_false_3 (envL (a.toList ++ b.toList ++ [e]))).Consistent ↔ Approx.absDiffEq a.x.x b.x.x e = true ∧ Approx.absDiffEq a.x.y b.x.y e = true ∧ Approx.absDiffEq a.x.z b.x.z e = true ∧ Approx.absDiffEq a.y.x b.y.x e = false := by
  simp [Tr.Consistent, envL, M3.toList, V3.toList]
/-- this path is the one taken iff component pair `4` is the first that is not within tolerance -/
theorem m3_abs_diff_eq_false_4_consistent (a b : M3 K) (e : K) :
    (t_m3_abs_diff_eq_false_4 (envL (a.toList ++ b.toList ++ [e]))).Consistent ↔ Approx.absDiffEq a.x.x b.x.x e = true ∧ Approx.absDiffEq a.x.y b.x.y e = true ∧ Approx.absDiffEq a.x.z b.x.z e = true ∧ Approx.absDiffEq a.y.x b.y.x e = true ∧ Approx.absDiffEq a.y.y b.y.y e = false := by
  simp [Tr.Consistent, envL, M3.toList, V3.toList]
/-- this path is the one taken iff component pair `5` is the first that is not within tolerance -/
theorem m3_abs_diff_eq_false_5_consistent (a b : M3 K) (e : K) :
    (t_m3_abs_diff_eq_false_5 (envL (a.toList ++ b.toList ++ [e]))).Consistent ↔ Approx.absDiffEq a.x.x b.x.x e = true ∧ Approx.absDiffEq a.x.y b.x.y e = true ∧ Approx.absDiffEq a.x.z b.x.z e = true ∧ Approx.absDiffEq a.y.x b.y.x e = true ∧ Approx.absDiffEq a.y.y b.y.y e = true ∧ Approx.absDiffEq a.y.z b.y.z e = false := by
  simp [Tr.Consistent, envL, M3.toList, V3.toList]
/-- this path is the one taken iff component pair `6` is the first that is not within tolerance -/
theorem m3_abs_diff_eq_false_6_consistent (a b : M3 K) (e : K) :
    (t_m3_abs_diff_eq_false_6 (envL (a.toList ++ b.toList ++ [e]))).Consistent ↔ Approx.absDiffEq a.x.x b.x.x e = true ∧ Approx.absDiffEq a.x.y b.x.y e = true ∧ Approx.absDiffEq a.x.z b.x.z e = true ∧ Approx.absDiffEq a.y.x b.y.x e = true ∧ Approx.absDiffEq a.y.y b.y.y e = true ∧ Approx.absDiffEq a.y.z b.y.z e = true ∧ Approx.absDiffEq a.z.x b.z.x e = false := by
  simp [Tr.Consistent, envL, M3.toList, V3.toList]
/-- this path is the one taken iff component pair `7` is the first that is not within tolerance -/
theorem m3_abs_diff_eq_false_7_consistent (a b : M3 K) (e : K) :
    (t_m3_abs_diff_eq_false_7 (envL (a.toList ++ b.toList ++ [e]))).Consistent ↔ Approx.absDiffEq a.x.x b.x.x e = true ∧ Approx.absDiffEq a.x.y b.x.y e = true ∧ Approx.absDiffEq a.x.z b.x.z e = true ∧ Approx.absDiffEq a.y.x b.y.x e = true ∧ Approx.absDiffEq a.y.y b.y.y e = true ∧ Approx.absDiffEq a.y.z b.y.z e = true ∧ Approx.absDiffEq a.z.x b.z.x e = true ∧ Approx.absDiffEq a.z.y b.z.y e = false := by
  simp [Tr.Consistent, envL, M3.toList, V3.toList]
/-- this path is the one taken iff component pair `8` is the first that is not within tolerance -/
theorem m3_abs_diff_eq_false_8_consistent (a b : M3 K) (e : K) :
    (t_m3_abs_diff_eq_false_8 (envL (a.toList ++ b.toList ++ [e]))).Consistent ↔ Approx.absDiffEq a.x.x b.x.x e = true ∧ Approx.absDiffEq a.x.y b.x.y e = true ∧ Approx.absDiffEq a.x.z b.x.z e = true ∧ Approx.absDiffEq a.y.x b.y.x e = true ∧ Approx.absDiffEq a.y.y b.y.y e = true ∧ Approx.absDiffEq a.y.z b.y.z e = true ∧ Approx.absDiffEq a.z.x b.z.x e = true ∧ Approx.absDiffEq a.z.y b.z.y e = true ∧ Approx.absDiffEq a.z.z b.z.z e = false := by
  simp [Tr.Consistent, envL, M3.toList, V3.toList]
/-- the traced paths of `m3.abs_diff_eq` on the input -/
def m3AbsDiffEq (a b : M3 K) (e : K) : List (Tr K) :=
    [t_m3_abs_diff_eq_true (envL (a.toList ++ b.toList ++ [e])), t_m3_abs_diff_eq_false_0 (envL (a.toList ++ b.toList ++ [e])), t_m3_abs_diff_eq_false_1 (envL (a.toList ++ b.toList ++ [e])), t_m3_abs_diff_eq_false_2 (envL (a.toList ++ b.toList ++ [e])), t_m3_abs_diff_eq_false_3 (envL (a.toList ++ b.toList ++ [e])), t_m3_abs_diff_eq_false_4 (envL (a.toList ++ b.toList ++ [e])), t_m3_abs_diff_eq_false_5 (envL (a.toList ++ b.toList ++ [e])), t_m3_abs_diff_eq_false_6 (envL (a.toList ++ b.toList ++ [e])), t_m3_abs_diff_eq_false_7 (envL (a.toList ++ b.toList ++ [e])), t_m3_abs_diff_eq_false_8 (envL (a.toList ++ b.toList ++ [e]))]
/-- for every input exactly one of the paths is the one taken -/
theorem m3_abs_diff_eq_exactly_one (a b : M3 K) (e : K) : Tr.ExactlyOne (m3AbsDiffEq a b e) := by
  unfold Tr.ExactlyOne m3AbsDiffEq
  simp only [List.pairwise_cons, List.mem_cons, List.not_mem_nil, or_false, forall_eq_or_imp, forall_eq, exists_eq_or_imp,
    exists_eq_left, List.Pairwise.nil, and_true, IsEmpty.forall_iff, implies_true, false_imp_iff, exists_false,
    m3_abs_diff_eq_true_consistent, m3_abs_diff_eq_false_0_consistent, m3_abs_diff_eq_false_1_consistent, m3_abs_diff_eq_false_2_consistent, m3_abs_diff_eq_false_3_consistent, m3_abs_diff_eq_false_4_consistent, m3_abs_diff_eq_false_5_consistent, m3_abs_diff_eq_false_6_consistent, m3_abs_diff_eq_false_7_consistent, m3_abs_diff_eq_false_8_consistent]
  generalize Approx.absDiffEq a.x.x b.x.x e = r0
  generalize Approx.absDiffEq a.x.y b.x.y e = r1
  generalize Approx.absDiffEq a.x.z b.x.z e = r2
  generalize Approx.absDiffEq a.y.x b.y.x e = r3
  generalize Approx.absDiffEq a.y.y b.y.y e = r4
  generalize Approx.absDiffEq a.y.z b.y.z e = r5
  generalize Approx.absDiffEq a.z.x b.z.x e = r6
  generalize Approx.absDiffEq a.z.y b.z.y e = r7
  generalize Approx.absDiffEq a.z.z b.z.z e = r8
  cases r0
  · simp
  cases r1
  · simp
  cases r2
  · simp
  cases r3
  · simp
  cases r4
  · simp
  cases r5
  · simp
  cases r6
  · simp
  cases r7
  · simp
  cases r8
  · simp
  simp
/-- **`m3.abs_diff_eq` as computed**: exactly one traced path is taken; the path taken returns normally one boolean, the model's
relation; and that is `true` iff the scalar relation WITH THE SAME TOLERANCE ARGUMENTS holds on every component pair -/
theorem code_m3_abs_diff_eq (a b : M3 K) (e : K) :
    Tr.ExactlyOne (m3AbsDiffEq a b e) ∧
    (∀ t ∈ m3AbsDiffEq a b e, t.Consistent → t.res = .ok ∧ t.out = [] ∧ t.bools = [M3.absDiffEq a b e]) ∧
    (M3.absDiffEq a b e = true ↔ Approx.absDiffEq a.x.x b.x.x e = true ∧ Approx.absDiffEq a.x.y b.x.y e = true ∧ Approx.absDiffEq a.x.z b.x.z e = true ∧ Approx.absDiffEq a.y.x b.y.x e = true ∧ Approx.absDiffEq a.y.y b.y.y e = true ∧ Approx.absDiffEq a.y.z b.y.z e = true ∧ Approx.absDiffEq a.z.x b.z.x e = true ∧ Approx.absDiffEq a.z.y b.z.y e = true ∧ Approx.absDiffEq a.z.z b.z.z e = true) := by
  refine ⟨m3_abs_diff_eq_exactly_one a b e, ?_, Cg.C18.M3.absDiffEq_iff_elems a b e⟩
  intro t ht
  simp only [m3AbsDiffEq, List.mem_cons, List.not_mem_nil, or_false] at ht
  rcases ht with rfl | rfl | rfl | rfl | rfl | rfl | rfl | rfl | rfl | rfl
  · intro hc
    have ⟨h0, h1, h2, h3, h4, h5, h6, h7, h8⟩ := (m3_abs_diff_eq_true_consistent a b e).1 hc
    rw [(Trace.C18OpsM.t_m3_abs_diff_eq_true a b e h0 h1 h2 h3 h4 h5 h6 h7 h8).1]; exact ⟨rfl, rfl, rfl⟩
  · intro hc
    have h0 := (m3_abs_diff_eq_false_0_consistent a b e).1 hc
    rw [(Trace.C18OpsM.t_m3_abs_diff_eq_false_0 a b e h0).1]; exact ⟨rfl, rfl, rfl⟩
  · intro hc
    have ⟨h0, h1⟩ := (m3_abs_diff_eq_false_1_consistent a b e).1 hc
    rw [(Trace.C18OpsM.t_m3_abs_diff_eq_false_1 a b e h0 h1).1]; exact ⟨rfl, rfl, rfl⟩
  · intro hc
    have ⟨h0, h1, h2⟩ := (m3_abs_diff_eq_false_2_consistent a b e).1 hc
    rw [(Trace.C18OpsM.t_m3_abs_diff_eq_false_2 a b e h0 h1 h2).1]; exact ⟨rfl, rfl, rfl⟩
  · intro hc
    have ⟨h0, h1, h2, h3⟩ := (m3_abs_diff_eq_false_3_consistent a b e).1 hc
    rw [(Trace.C18OpsM.t_m3_abs_diff_eq_false_3 a b e h0 h1 h2 h3).1]; exact ⟨rfl, rfl, rfl⟩
  · intro hc
    have ⟨h0, h1, h2, h3, h4⟩ := (m3_abs_diff_eq_false_4_consistent a b e).1 hc
    rw [(Trace.C18OpsM.t_m3_abs_diff_eq_false_4 a b e h0 h1 h2 h3 h4).1]; exact ⟨rfl, rfl, rfl⟩
  · intro hc
    have ⟨h0, h1, h2, h3, h4, h5⟩ := (m3_abs_diff_eq_false_5_consistent a b e).1 hc
    rw [(Trace.C18OpsM.t_m3_abs_diff_eq_false_5 a b e h0 h1 h2 h3 h4 h5).1]; exact ⟨rfl, rfl, rfl⟩
  · intro hc
    have ⟨h0, h1, h2, h3, h4, h5, h6⟩ := (m3_abs_diff_eq_false_6_consistent a b e).1 hc
    rw [(Trace.C18OpsM.t_m3_abs_diff_eq_false_6 a b e h0 h1 h2 h3 h4 h5 h6).1]; exact ⟨rfl, rfl, rfl⟩
  · intro hc
    have ⟨h0, h1, h2, h3, h4, h5, h6, h7⟩ := (m3_abs_diff_eq_false_7_consistent a b e).1 hc
    rw [(Trace.C18OpsM.t_m3_abs_diff_eq_false_7 a b e h0 h1 h2 h3 h4 h5 h6 h7).1]; exact ⟨rfl, rfl, rfl⟩
  · intro hc
    have ⟨h0, h1, h2, h3, h4, h5, h6, h7, h8⟩ := (m3_abs_diff_eq_false_8_consistent a b e).1 hc
    rw [(Trace.C18OpsM.t_m3_abs_diff_eq_false_8 a b e h0 h1 h2 h3 h4 h5 h6 h7 h8).1]; exact ⟨rfl, rfl, rfl⟩

/-! ### `m3.relative_eq` -/
/-- this path is the one taken iff every component pair is within tolerance -/
theorem m3_relative_eq_true_consistent (a b : M3 K) (e m : K) :
    (t_m3_relative_eq_true (envL (a.toList ++ b.toList ++ [e, m]))).Consistent ↔ Approx.relEq a.x.x b.x.x e m = true ∧ Approx.relEq a.x.y b.x.y e m = true ∧ Approx.relEq a.x.z b.x.z e m = true ∧ Approx.relEq a.y.x b.y.x e m = true ∧ Approx.relEq a.y.y b.y.y e m = true ∧ Approx.relEq a.y.z b.y.z e m = true ∧ Approx.relEq a.z.x b.z.x e m = true ∧ Approx.relEq a.z.y b.z.y e m = true ∧ Approx.relEq a.z.z b.z.z e m = true := by
  simp [Tr.Consistent, envL, M3.toList, V3.toList]
/-- this path is the one taken iff component pair `0` is the first that is not within tolerance -/
theorem m3_relative_eq_false_0_consistent (a b : M3 K) (e m : K) :
    (t_m3_relative_eq_false_0 (envL (a.toList ++ b.toList ++ [e, m]))).Consistent ↔ Approx.relEq a.x.x b.x.x e m = false := by
  simp [Tr.Consistent, envL, M3.toList, V3.toList]
/-- this path is the one taken iff component pair `1` is the first that is not within tolerance -/
theorem m3_relative_eq_false_1_consistent (a b : M3 K) (e m : K) :
    (t_m3_relative_eq_false_1 (envL (a.toList ++ b.toList ++ [e, m]))).Consistent ↔ Approx.relEq a.x.x b.x.x e m = true ∧ Approx.relEq a.x.y b.x.y e m = false := by
  simp [Tr.Consistent, envL, M3.toList, V3.toList]
/-- this path is the one taken iff component pair `2` is the first that is not within tolerance -/
theorem m3_relative_eq_false_2_consistent (a b : M3 K) (e m : K) :
    (t_m3_relative_eq_false_2 (envL (a.toList ++ b.toList ++ [e, m]))).Consistent ↔ Approx.relEq a.x.x b.x.x e m = true ∧ Approx.relEq a.x.y b.x.y e m = true ∧ Approx.relEq a.x.z b.x.z e m = false := by
  simp [Tr.Consistent, envL, M3.toList, V3.toList]
/-- this path is the one taken iff component pair `3` is the first that is not within tolerance -/
theorem m3_relative_eq_false_3_consistent (a b : M3 K) (e m : K) :
    (t_m3_relative_eq_false_3 (envL (a.toList ++ b.toList ++ [e, m]))).Consistent ↔ Approx.relEq a.x.x b.x.x e m = true ∧ Approx.relEq a.x.y b.x.y e m = true ∧ Approx.relEq a.x.z b.x.z e m = true ∧ Approx.relEq a.y.x b.y.x e m = false := by
  simp [Tr.Consistent, envL, M3.toList, V3.toList]
/-- this path is the one taken iff component pair `4` is the first that is not within tolerance -/
theorem m3_relative_eq_false_4_consistent (a b : M3 K) (e m : K) :
    (t_m3_relative_eq_false_4 (envL (a.toList ++ b.toList ++ [e, m]))).Consistent ↔ Approx.relEq a.x.x b.x.x e m = true ∧ Approx.relEq a.x.y b.x.y e m = true ∧ Approx.relEq a.x.z b.x.z e m = true ∧ Approx.relEq a.y.x b.y.x e m = true ∧ Approx.relEq a.y.y b.y.y e m = false := by
  simp [Tr.Consistent, envL, M3.toList, V3.toList]
/-- this path is the one taken iff component pair `5` is the first that is not within tolerance -/
theorem m3_relative_eq_false_5_consistent (a b : M3 K) (e m : K) :
    (t_m3_relative_eq_false_5 (envL (a.toList ++ b.toList ++ [e, m]))).Consistent ↔ Approx.relEq a.x.x b.x.x e m = true ∧ Approx.relEq a.x.y b.x.y e m = true ∧ Approx.relEq a.x.z b.x.z e m = true ∧ Approx.relEq a.y.x b.y.x e m = true ∧ Approx.relEq a.y.y b.y.y e m = true ∧ Approx.relEq a.y.z b.y.z e m = false := by
  simp [Tr.Consistent, envL, M3.toList, V3.toList]
/-- this path is the one taken iff component pair `6` is the first that is not within tolerance -/
theorem m3_relative_eq_false_6_consistent (a b : M3 K) (e m : K) :
    (t_m3_relative_eq_false_6 (envL (a.toList ++ b.toList ++ [e, m]))).Consistent ↔ Approx.relEq a.x.x b.x.x e m = true ∧ Approx.relEq a.x.y b.x.y e m = true ∧ Approx.relEq a.x.z b.x.z e m = true ∧ Approx.relEq a.y.x b.y.x e m = true ∧ Approx.relEq a.y.y b.y.y e m = true ∧ Approx.relEq a.y.z b.y.z e m = true ∧ Approx.relEq a.z.x b.z.x e m = false := by
  simp [Tr.Consistent, envL, M3.toList, V3.toList]
/-- this path is the one taken iff component pair `7` is the first that is not within tolerance -/
theorem m3_relative_eq_false_7_consistent (a b : M3 K) (e m : K) :
    (t_m3_relative_eq_false_7 (envL (a.toList ++ b.toList ++ [e, m]))).Consistent ↔ Approx.relEq a.x.x b.x.x e m = true ∧ Approx.relEq a.x.y b.x.y e m = true ∧ Approx.relEq a.x.z b.x.z e m = true ∧ Approx.relEq a.y.x b.y.x e m = true ∧ Approx.relEq a.y.y b.y.y e m = true ∧ Approx.relEq a.y.z b.y.z e m = true ∧ Approx.relEq a.z.x b.z.x e m = true ∧ Approx.relEq a.z.y b.z.y e m = false := by
  simp [Tr.Consistent, envL, M3.toList, V3.toList]
/-- this path is the one taken iff component pair `8` is the first that is not within tolerance -/
theorem m3_relative_eq_false_8_consistent (a b : M3 K) (e m : K) :
    (t_m3_relative_eq_false_8 (envL (a.toList ++ b.toList ++ [e, m]))).Consistent ↔ Approx.relEq a.x.x b.x.x e m = true ∧ Approx.relEq a.x.y b.x.y e m = true ∧ Approx.relEq a.x.z b.x.z e m = true ∧ Approx.relEq a.y.x b.y.x e m = true ∧ Approx.relEq a.y.y b.y.y e m = true ∧ Approx.relEq a.y.z b.y.z e m = true ∧ Approx.relEq a.z.x b.z.x e m = true ∧ Approx.relEq a.z.y b.z.y e m = true ∧ Approx.relEq a.z.z b.z.z e m = false := by
  simp [Tr.Consistent, envL, M3.toList, V3.toList]
/-- the traced paths of `m3.relative_eq` on the input -/
def m3RelEq (a b : M3 K) (e m : K) : List (Tr K) :=
    [t_m3_relative_eq_true (envL (a.toList ++ b.toList ++ [e, m])), t_m3_relative_eq_false_0 (envL (a.toList ++ b.toList ++ [e, m])), t_m3_relative_eq_false_1 (envL (a.toList ++ b.toList ++ [e, m])), t_m3_relative_eq_false_2 (envL (a.toList ++ b.toList ++ [e, m])), t_m3_relative_eq_false_3 (envL (a.toList ++ b.toList ++ [e, m])), t_m3_relative_eq_false_4 (envL (a.toList ++ b.toList ++ [e, m])), t_m3_relative_eq_false_5 (envL (a.toList ++ b.toList ++ [e, m])), t_m3_relative_eq_false_6 (envL (a.toList ++ b.toList ++ [e, m])), t_m3_relative_eq_false_7 (envL (a.toList ++ b.toList ++ [e, m])), t_m3_relative_eq_false_8 (envL (a.toList ++ b.toList ++ [e, m]))]
/-- for every input exactly one of the paths is the one taken -/
theorem m3_relative_eq_exactly_one (a b : M3 K) (e m : K) : Tr.ExactlyOne (m3RelEq a b e m) := by
  unfold Tr.ExactlyOne m3RelEq
  simp only [List.pairwise_cons, List.mem_cons, List.not_mem_nil, or_false, forall_eq_or_imp, forall_eq, exists_eq_or_imp,
    exists_eq_left, List.Pairwise.nil, and_true, IsEmpty.forall_iff, implies_true, false_imp_iff, exists_false,
    m3_relative_eq_true_consistent, m3_relative_eq_false_0_consistent, m3_relative_eq_false_1_consistent, m3_relative_eq_false_2_consistent, m3_relative_eq_false_3_consistent, m3_relative_eq_false_4_consistent, m3_relative_eq_false_5_consistent, m3_relative_eq_false_6_consistent, m3_relative_eq_false_7_consistent, m3_relative_eq_false_8_consistent]
  generalize Approx.relEq a.x.x b.x.x e m = r0
  generalize Approx.relEq a.x.y b.x.y e m = r1
  generalize Approx.relEq a.x.z b.x.z e m = r2
  generalize Approx.relEq a.y.x b.y.x e m = r3
  generalize Approx.relEq a.y.y b.y.y e m = r4
  generalize Approx.relEq a.y.z b.y.z e m = r5
  generalize Approx.relEq a.z.x b.z.x e m = r6
  generalize Approx.relEq a.z.y b.z.y e m = r7
  generalize Approx.relEq a.z.z b.z.z e m = r8
  cases r0
  · simp
  cases r1
  · simp
  cases r2
  · simp
  cases r3
  · simp
  cases r4
  · simp
  cases r5
  · simp
  cases r6
  · simp
  cases r7
  · simp
  cases r8
  · simp
  simp
/-- **`m3.relative_eq` as computed**: exactly one traced path is taken; the path taken returns normally one boolean, the model's
relation; and that is `true` iff the scalar relation WITH THE SAME TOLERANCE ARGUMENTS holds on every component pair -/
theorem code_m3_relative_eq (a b : M3 K) (e m : K) :
    Tr.ExactlyOne (m3RelEq a b e m) ∧
    (∀ t ∈ m3RelEq a b e m, t.Consistent → t.res = .ok ∧ t.out = [] ∧ t.bools = [M3.relEq a b e m]) ∧
    (M3.relEq a b e m = true ↔ Approx.relEq a.x.x b.x.x e m = true ∧ Approx.relEq a.x.y b.x.y e m = true ∧ Approx.relEq a.x.z b.x.z e m = true ∧ Approx.relEq a.y.x b.y.x e m = true ∧ Approx.relEq a.y.y b.y.y e m = true ∧ Approx.relEq a.y.z b.y.z e m = true ∧ Approx.relEq a.z.x b.z.x e m = true ∧ Approx.relEq a.z.y b.z.y e m = true ∧ Approx.relEq a.z.z b.z.z e m = true) := by
  refine ⟨m3_relative_eq_exactly_one a b e m, ?_, Cg.C18.M3.relEq_iff_elems a b e m⟩
  intro t ht
  simp only [m3RelEq, List.mem_cons, List.not_mem_nil, or_false] at ht
  rcases ht with rfl | rfl | rfl | rfl | rfl | rfl | rfl | rfl | rfl | rfl
  · intro hc
    have ⟨h0, h1, h2, h3, h4, h5, h6, h7, h8⟩ := (m3_relative_eq_true_consistent a b e m).1 hc
    rw [(Trace.C18OpsM.t_m3_relative_eq_true a b e m h0 h1 h2 h3 h4 h5 h6 h7 h8).1]; exact ⟨rfl, rfl, rfl⟩
  · intro hc
    have h0 := (m3_relative_eq_false_0_consistent a b e m).1 hc
    rw [(Trace.C18OpsM.t_m3_relative_eq_false_0 a b e m h0).1]; exact ⟨rfl, rfl, rfl⟩
  · intro hc
    have ⟨h0, h1⟩ := (m3_relative_eq_false_1_consistent a b e m).1 hc
    rw [(Trace.C18OpsM.t_m3_relative_eq_false_1 a b e m h0 h1).1]; exact ⟨rfl, rfl, rfl⟩
  · intro hc
    have ⟨h0, h1, h2⟩ := (m3_relative_eq_false_2_consistent a b e m).1 hc
    rw [(Trace.C18OpsM.t_m3_relative_eq_false_2 a b e m h0 h1 h2).1]; exact ⟨rfl, rfl, rfl⟩
  · intro hc
    have ⟨h0, h1, h2, h3⟩ := (m3_relative_eq_false_3_consistent a b e m).1 hc
    rw [(Trace.C18OpsM.t_m3_relative_eq_false_3 a b e m h0 h1 h2 h3).1]; exact ⟨rfl, rfl, rfl⟩
  · intro hc
    have ⟨h0, h1, h2, h3, h4⟩ := (m3_relative_eq_false_4_consistent a b e m).1 hc
    rw [(Trace.C18OpsM.t_m3_relative_eq_false_4 a b e m h0 h1 h2 h3 h4).1]; exact ⟨rfl, rfl, rfl⟩
  · intro hc
    have ⟨h0, h1, h2, h3, h4, h5⟩ := (m3_relative_eq_false_5_consistent a b e m).1 hc
    rw [(Trace.C18OpsM.t_m3_relative_eq_false_5 a b e m h0 h1 h2 h3 h4 h5).1]; exact ⟨rfl, rfl, rfl⟩
  · intro hc
    have ⟨h0, h1, h2, h3, h4, h5, h6⟩ := (m3_relative_eq_false_6_consistent a b e m).1 hc
    rw [(Trace.C18OpsM.t_m3_relative_eq_false_6 a b e m h0 h1 h2 h3 h4 h5 h6).1]; exact ⟨rfl, rfl, rfl⟩
  · intro hc
    have ⟨h0, h1, h2, h3, h4, h5, h6, h7⟩ := (m3_relative_eq_false_7_consistent a b e m).1 hc
    rw [(Trace.C18OpsM.t_m3_relative_eq_false_7 a b e m h0 h1 h2 h3 h4 h5 h6 h7).1]; exact ⟨rfl, rfl, rfl⟩
  · intro hc
    have ⟨h0, h1, h2, h3, h4, h5, h6, h7, h8⟩ := (m3_relative_eq_false_8_consistent a b e m).1 hc
    rw [(Trace.C18OpsM.t_m3_relative_eq_false_8 a b e m h0 h1 h2 h3 h4 h5 h6 h7 h8).1]; exact ⟨rfl, rfl, rfl⟩

/-! ### `m3.ulps_eq` -/
/-- this path is the one taken iff every component pair is within tolerance -/
theorem m3_ulps_eq_true_consistent (a b : M3 K) (e : K) :
    (t_m3_ulps_eq_true (envL (a.toList ++ b.toList ++ [e]))).Consistent ↔ Approx.ulpsEq a.x.x b.x.x e 4 = true ∧ Approx.ulpsEq a.x.y b.x.y e 4 = true ∧ Approx.ulpsEq a.x.z b.x.z e 4 = true ∧ Approx.ulpsEq a.y.x b.y.x e 4 = true ∧ Approx.ulpsEq a.y.y b.y.y e 4 = true ∧ Approx.ulpsEq a.y.z b.y.z e 4 = true ∧ Approx.ulpsEq a.z.x b.z.x e 4 = true ∧ Approx.ulpsEq a.z.y b.z.y e 4 = true ∧ Approx.ulpsEq a.z.z b.z.z e 4 = true := by
  simp [Tr.Consistent, envL, M3.toList, V3.toList]
/-- this path is the one taken iff component pair `0` is the first that is not within tolerance -/
theorem m3_ulps_eq_false_0_consistent (a b : M3 K) (e : K) :
    (t_m3_ulps_eq_false_0 (envL (a.toList ++ b.toList ++ [e]))).Consistent ↔ Approx.ulpsEq a.x.x b.x.x e 4 = false := by
  simp [Tr.Consistent, envL, M3.toList, V3.toList]
/-- this path is the one taken iff component pair `1` is the first that is not within tolerance -/
theorem m3_ulps_eq_false_1_consistent (a b : M3 K) (e : K) :
    (t_m3_ulps_eq_false_1 (envL (a.toList ++ b.toList ++ [e]))).Consistent ↔ Approx.ulpsEq a.x.x b.x.x e 4 = true ∧ Approx.ulpsEq a.x.y b.x.y e 4 = false := by
  simp [Tr.Consistent, envL, M3.toList, V3.toList]
/-- this path is the one taken iff component pair `2` is the first that is not within tolerance -/
theorem m3_ulps_eq_false_2_consistent (a b : M3 K) (e : K) :
    (t_m3_ulps_eq_false_2 (envL (a.toList ++ b.toList ++ [e]))).Consistent ↔ Approx.ulpsEq a.x.x b.x.x e 4 = true ∧ Approx.ulpsEq a.x.y b.x.y e 4 = true ∧ Approx.ulpsEq a.x.z b.x.z e 4 = false := by
  simp [Tr.Consistent, envL, M3.toList, V3.toList]
/-- this path is the one taken iff component pair `3` is the first that is not within tolerance -/
theorem m3_ulps_eq_false_3_consistent (a b : M3 K) (e : K) :
    (t_m3_ulps_eq_false_3 (envL (a.toList ++ b.toList ++ [e]))).Consistent ↔ Approx.ulpsEq a.x.x b.x.x e 4 = true ∧ Approx.ulpsEq a.x.y b.x.y e 4 = true ∧ Approx.ulpsEq a.x.z b.x.z e 4 = true ∧ Approx.ulpsEq a.y.x b.y.x e 4 = false := by
  simp [Tr.Consistent, envL, M3.toList, V3.toList]
/-- this path is the one taken iff component pair `4` is the first that is not within tolerance -/
theorem m3_ulps_eq_false_4_consistent (a b : M3 K) (e : K) :
    (t_m3_ulps_eq_false_4 (envL (a.toList ++ b.toList ++ [e]))).Consistent ↔ Approx.ulpsEq a.x.x b.x.x e 4 = true ∧ Approx.ulpsEq a.x.y b.x.y e 4 = true ∧ Approx.ulpsEq a.x.z b.x.z e 4 = true ∧ Approx.ulpsEq a.y.x b.y.x e 4 = true ∧ Approx.ulpsEq a.y.y b.y.y e 4 = false := by
  simp [Tr.Consistent, envL, M3.toList, V3.toList]
/-- this path is the one taken iff component pair `5` is the first that is not within tolerance -/
theorem m3_ulps_eq_false_5_consistent (a b : M3 K) (e : K) :
    (t_m3_ulps_eq_false_5 (envL (a.toList ++ b.toList ++ [e]))).Consistent ↔ Approx.ulpsEq a.x.x b.x.x e 4 = true ∧ Approx.ulpsEq a.x.y b.x.y e 4 = true ∧ Approx.ulpsEq a.x.z b.x.z e 4 = true ∧ Approx.ulpsEq a.y.x b.y.x e 4 = true ∧ Approx.ulpsEq a.y.y b.y.y e 4 = true ∧ Approx.ulpsEq a.y.z b.y.z e 4 = false := by
  simp [Tr.Consistent, envL, M3.toList, V3.toList]
/-- this path is the one taken iff component pair `6` is the first that is not within tolerance -/
theorem m3_ulps_eq_false_6_consistent (a b : M3 K) (e : K) :
    (t_m3_ulps_eq_false_6 (envL (a.toList ++ b.toList ++ [e]))).Consistent ↔ Approx.ulpsEq a.x.x b.x.x e 4 = true ∧ Approx.ulpsEq a.x.y b.x.y e 4 = true ∧ Approx.ulpsEq a.x.z b.x.z e 4 = true ∧ Approx.ulpsEq a.y.x b.y.x e 4 = true ∧ Approx.ulpsEq a.y.y b.y.y e 4 = true ∧ Approx.ulpsEq a.y.z b.y.z e 4 = true ∧ Approx.ulpsEq a.z.x b.z.x e 4 = false := by
  simp [Tr.Consistent, envL, M3.toList, V3.toList]
/-- this path is the one taken iff component pair `7` is the first that is not within tolerance -/
theorem m3_ulps_eq_false_7_consistent (a b : M3 K) (e : K) :
    (t_m3_ulps_eq_false_7 (envL (a.toList ++ b.toList ++ [e]))).Consistent ↔ Approx.ulpsEq a.x.x b.x.x e 4 = true ∧ Approx.ulpsEq a.x.y b.x.y e 4 = true ∧ Approx.ulpsEq a.x.z b.x.z e 4 = true ∧ Approx.ulpsEq a.y.x b.y.x e 4 = true ∧ Approx.ulpsEq a.y.y b.y.y e 4 = true ∧ Approx.ulpsEq a.y.z b.y.z e 4 = true ∧ Approx.ulpsEq a.z.x b.z.x e 4 = true ∧ Approx.ulpsEq a.z.y b.z.y e 4 = false := by
  simp [Tr.Consistent, envL, M3.toList, V3.toList]
/-- this path is the one taken iff component pair `8` is the first that is not within tolerance -/
theorem m3_ulps_eq_false_8_consistent (a b : M3 K) (e : K) :
    (t_m3_ulps_eq_false_8 (envL (a.toList ++ b.toList ++ [e]))).Consistent ↔ Approx.ulpsEq a.x.x b.x.x e 4 = true ∧ Approx.ulpsEq a.x.y b.x.y e 4 = true ∧ Approx.ulpsEq a.x.z b.x.z e 4 = true ∧ Approx.ulpsEq a.y.x b.y.x e 4 = true ∧ Approx.ulpsEq a.y.y b.y.y e 4 = true ∧ Approx.ulpsEq a.y.z b.y.z e 4 = true ∧ Approx.ulpsEq a.z.x b.z.x e 4 = true ∧ Approx.ulpsEq a.z.y b.z.y e 4 = true ∧ Approx.ulpsEq a.z.z b.z.z e 4 = false := by
  simp [Tr.Consistent, envL, M3.toList, V3.toList]
/-- the traced paths of `m3.ulps_eq` on the input -/
def m3UlpsEq (a b : M3 K) (e : K) : List (Tr K) :=
    [t_m3_ulps_eq_true (envL (a.toList ++ b.toList ++ [e])), t_m3_ulps_eq_false_0 (envL (a.toList ++ b.toList ++ [e])), t_m3_ulps_eq_false_1 (envL (a.toList ++ b.toList ++ [e])), t_m3_ulps_eq_false_2 (envL (a.toList ++ b.toList ++ [e])), t_m3_ulps_eq_false_3 (envL (a.toList ++ b.toList ++ [e])), t_m3_ulps_eq_false_4 (envL (a.toList ++ b.toList ++ [e])), t_m3_ulps_eq_false_5 (envL (a.toList ++ b.toList ++ [e])), t_m3_ulps_eq_false_6 (envL (a.toList ++ b.toList ++ [e])), t_m3_ulps_eq_false_7 (envL (a.toList ++ b.toList ++ [e])), t_m3_ulps_eq_false_8 (envL (a.toList ++ b.toList ++ [e]))]
/-- for every input exactly one of the paths is the one taken -/
theorem m3_ulps_eq_exactly_one (a b : M3 K) (e : K) : Tr.ExactlyOne (m3UlpsEq a b e) := by
  unfold Tr.ExactlyOne m3UlpsEq
  simp only [List.pairwise_cons, List.mem_cons, List.not_mem_nil, or_false, forall_eq_or_imp, forall_eq, exists_eq_or_imp,
    exists_eq_left, List.Pairwise.nil, and_true, IsEmpty.forall_iff, implies_true, false_imp_iff, exists_false,
    m3_ulps_eq_true_consistent, m3_ulps_eq_false_0_consistent, m3_ulps_eq_false_1_consistent, m3_ulps_eq_false_2_consistent, m3_ulps_eq_false_3_consistent, m3_ulps_eq_false_4_consistent, m3_ulps_eq_false_5_consistent, m3_ulps_eq_false_6_consistent, m3_ulps_eq_false_7_consistent, m3_ulps_eq_false_8_consistent]
  generalize Approx.ulpsEq a.x.x b.x.x e 4 = r0
  generalize Approx.ulpsEq a.x.y b.x.y e 4 = r1
  generalize Approx.ulpsEq a.x.z b.x.z e 4 = r2
  generalize Approx.ulpsEq a.y.x b.y.x e 4 = r3
  generalize Approx.ulpsEq a.y.y b.y.y e 4 = r4
  generalize Approx.ulpsEq a.y.z b.y.z e 4 = r5
  generalize Approx.ulpsEq a.z.x b.z.x e 4 = r6
  generalize Approx.ulpsEq a.z.y b.z.y e 4 = r7
  generalize Approx.ulpsEq a.z.z b.z.z e 4 = r8
  cases r0
  · simp
  cases r1
  · simp
  cases r2
  · simp
  cases r3
  · simp
  cases r4
  · simp
  cases r5
  · simp
  cases r6
  · simp
  cases r7
  · simp
  cases r8
  · simp
  simp
/-- **`m3.ulps_eq` as computed**: exactly one traced path is taken; the path taken returns normally one boolean, the model's
relation; and that is `true` iff the scalar relation WITH THE SAME TOLERANCE ARGUMENTS holds on every component pair -/
theorem code_m3_ulps_eq (a b : M3 K) (e : K) :
    Tr.ExactlyOne (m3UlpsEq a b e) ∧
    (∀ t ∈ m3UlpsEq a b e, t.Consistent → t.res = .ok ∧ t.out = [] ∧ t.bools = [M3.ulpsEq a b e 4]) ∧
    (M3.ulpsEq a b e 4 = true ↔ Approx.ulpsEq a.x.x b.x.x e 4 = true ∧ Approx.ulpsEq a.x.y b.x.y e 4 = true ∧ Approx.ulpsEq a.x.z b.x.z e 4 = true ∧ Approx.ulpsEq a.y.x b.y.x e 4 = true ∧ Approx.ulpsEq a.y.y b.y.y e 4 = true ∧ Approx.ulpsEq a.y.z b.y.z e 4 = true ∧ Approx.ulpsEq a.z.x b.z.x e 4 = true ∧ Approx.ulpsEq a.z.y b.z.y e 4 = true ∧ Approx.ulpsEq a.z.z b.z.z e 4 = true) := by
  refine ⟨m3_ulps_eq_exactly_one a b e, ?_, Cg.C18.M3.ulpsEq_iff_elems a b e 4⟩
  intro t ht
  simp only [m3UlpsEq, List.mem_cons, List.not_mem_nil, or_false] at ht
  rcases ht with rfl | rfl | rfl | rfl | rfl | rfl | rfl | rfl | rfl | rfl
  · intro hc
    have ⟨h0, h1, h2, h3, h4, h5, h6, h7, h8⟩ := (m3_ulps_eq_true_consistent a b e).1 hc
    rw [(Trace.C18OpsM.t_m3_ulps_eq_true a b e h0 h1 h2 h3 h4 h5 h6 h7 h8).1]; exact ⟨rfl, rfl, rfl⟩
  · intro hc
    have h0 := (m3_ulps_eq_false_0_consistent a b e).1 hc
    rw [(Trace.C18OpsM.t_m3_ulps_eq_false_0 a b e h0).1]; exact ⟨rfl, rfl, rfl⟩
  · intro hc
    have ⟨h0, h1⟩ := (m3_ulps_eq_false_1_consistent a b e).1 hc
    rw [(Trace.C18OpsM.t_m3_ulps_eq_false_1 a b e h0 h1).1]; exact ⟨rfl, rfl, rfl⟩
  · intro hc
    have ⟨h0, h1, h2⟩ := (m3_ulps_eq_false_2_consistent a b e).1 hc
    rw [(Trace.C18OpsM.t_m3_ulps_eq_false_2 a b e h0 h1 h2).1]; exact ⟨rfl, rfl, rfl⟩
  · intro hc
    have ⟨h0, h1, h2, h3⟩ := (m3_ulps_eq_false_3_consistent a b e).1 hc
    rw [(Trace.C18OpsM.t_m3_ulps_eq_false_3 a b e h0 h1 h2 h3).1]; exact ⟨rfl, rfl, rfl⟩
  · intro hc
    have ⟨h0, h1, h2, h3, h4⟩ := (m3_ulps_eq_false_4_consistent a b e).1 hc
    rw [(Trace.C18OpsM.t_m3_ulps_eq_false_4 a b e h0 h1 h2 h3 h4).1]; exact ⟨rfl, rfl, rfl⟩
  · intro hc
    have ⟨h0, h1, h2, h3, h4, h5⟩ := (m3_ulps_eq_false_5_consistent a b e).1 hc
    rw [(Trace.C18OpsM.t_m3_ulps_eq_false_5 a b e h0 h1 h2 h3 h4 h5).1]; exact ⟨rfl, rfl, rfl⟩
  · intro hc
    have ⟨h0, h1, h2, h3, h4, h5, h6⟩ := (m3_ulps_eq_false_6_consistent a b e).1 hc
    rw [(Trace.C18OpsM.t_m3_ulps_eq_false_6 a b e h0 h1 h2 h3 h4 h5 h6).1]; exact ⟨rfl, rfl, rfl⟩
  · intro hc
    have ⟨h0, h1, h2, h3, h4, h5, h6, h7⟩ := (m3_ulps_eq_false_7_consistent a b e).1 hc
    rw [(Trace.C18OpsM.t_m3_ulps_eq_false_7 a b e h0 h1 h2 h3 h4 h5 h6 h7).1]; exact ⟨rfl, rfl, rfl⟩
  · intro hc
    have ⟨h0, h1, h2, h3, h4, h5, h6, h7, h8⟩ := (m3_ulps_eq_false_8_consistent a b e).1 hc
    rw [(Trace.C18OpsM.t_m3_ulps_eq_false_8 a b e h0 h1 h2 h3 h4 h5 h6 h7 h8).1]; exact ⟨rfl, rfl, rfl⟩

/-! ### `m4.abs_diff_eq` -/
/-- this path is the one taken iff every component pair is within tolerance -/
theorem m4_abs_diff_eq_true_consistent (a b : M4 K) (e : K) :
    (t_m4_abs_diff_eq_true (envL (a.toList ++ b.toList ++ [e]))).Consistent ↔ Approx.absDiffEq a.x.x b.x.x e = true ∧ Approx.absDiffEq a.x.y b.x.y e = true ∧ Approx.absDiffEq a.x.z b.x.z e = true ∧ Approx.absDiffEq a.x.w b.x.w e = true ∧ Approx.absDiffEq a.y.x b.y.x e = true ∧ Approx.absDiffEq a.y.y b.y.y e = true ∧ Approx.absDiffEq a.y.z b.y.z e = true ∧ Approx.absDiffEq a.y.w b.y.w e = true ∧ Approx.absDiffEq a.z.x b.z.x e = true ∧ Approx.absDiffEq a.z.y b.z.y e = true ∧ Approx.absDiffEq a.z.z b.z.z e = true ∧ Approx.absDiffEq a.z.w b.z.w e = true ∧ Approx.absDiffEq a.w.x b.w.x e = true ∧ Approx.absDiffEq a.w.y b.w.y e = true ∧ Approx.absDiffEq a.w.z b.w.z e = true ∧ Approx.absDiffEq a.w.w b.w.w e = true := by
  simp [Tr.Consistent, envL, M4.toList, V4.toList]
/-- this path is the one taken iff component pair `0` is the first that is not within tolerance -/
theorem m4_abs_diff_eq_false_0_consistent (a b : M4 K) (e : K) :
    (t_m4_abs_diff_eq_false_0 (envL (a.toList ++ b.toList ++ [e]))).Consistent ↔ Approx.absDiffEq a.x.x b.x.x e = false := by
  simp [Tr.Consistent, envL, M4.toList, V4.toList]
/-- this path is the one taken iff component pair `1` is the first that is not within tolerance -/
theorem m4_abs_diff_eq_false_1_consistent (a b : M4 K) (e : K) :
    (t_m4_abs_diff_eq_false_1 (envL (a.toList ++ b.toList ++ [e]))).Consistent ↔ Approx.absDiffEq a.x.x b.x.x e = true ∧ Approx.absDiffEq a.x.y b.x.y e = false := by
  simp [Tr.Consistent, envL, M4.toList, V4.toList]
/-- this path is the one taken iff component pair `2` is the first that is not within tolerance -/
theorem m4_abs_diff_eq_false_2_consistent (a b : M4 K) (e : K) :
    (t_m4_abs_diff_eq_false_2 (envL (a.toList ++ b.toList ++ [e]))).Consistent ↔ Approx.absDiffEq a.x.x b.x.x e = true ∧ Approx.absDiffEq a.x.y b.x.y e = true ∧ Approx.absDiffEq a.x.z b.x.z e = false := by
  simp [Tr.Consistent, envL, M4.toList, V4.toList]
/-- this path is the one taken iff component pair `3` is the first that is not within tolerance -/
theorem m4_abs_diff_eq_false_3_consistent (a b : M4 K) (e : K) :
    (t_m4_abs_diff_eq_false_3 (envL (a.toList ++ b.toList ++ [e]))).Consistent ↔ Approx.absDiffEq a.x.x b.x.x e = true ∧ Approx.absDiffEq a.x.y b.x.y e = true ∧ Approx.absDiffEq a.x.z b.x.z e = true ∧ Approx.absDiffEq a.x.w b.x.w e = false := by
  simp [Tr.Consistent, envL, M4.toList, V4.toList]
/-- this path is the one taken iff component pair `4` is the first that is not within tolerance -/
theorem m4_abs_diff_eq_false_4_consistent (a b : M4 K) (e : K) :
    (t_m4_abs_diff_eq_false_4 (envL (a.toList ++ b.toList ++ [e]))).Consistent ↔ Approx.absDiffEq a.x.x b.x.x e = true ∧ Approx.absDiffEq a.x.y b.x.y e = true ∧ Approx.absDiffEq a.x.z b.x.z e = true ∧ Approx.absDiffEq a.x.w b.x.w e = true ∧ Approx.absDiffEq a.y.x b.y.x e = false := by
  simp [Tr.Consistent, envL, M4.toList, V4.toList]
/-- this path is the one taken iff component pair `5` is the first that is not within tolerance -/
theorem m4_abs_diff_eq_false_5_consistent (a b : M4 K) (e : K) :
    (t_m4_abs_diff_eq_false_5 (envL (a.toList ++ b.toList ++ [e]))).Consistent ↔ Approx.absDiffEq a.x.x b.x.x e = true ∧ Approx.absDiffEq a.x.y b.x.y e = true ∧ Approx.absDiffEq a.x.z b.x.z e = true ∧ Approx.absDiffEq a.x.w b.x.w e = true ∧ Approx.absDiffEq a.y.x b.y.x e = true ∧ Approx.absDiffEq a.y.y b.y.y e = false := by
  simp [Tr.Consistent, envL, M4.toList, V4.toList]
/-- this path is the one taken iff component pair `6` is the first that is not within tolerance -/
theorem m4_abs_diff_eq_false_6_consistent (a b : M4 K) (e : K) :
    (t_m4_abs_diff_eq_false_6 (envL (a.toList ++ b.toList ++ [e]))).Consistent ↔ Approx.absDiffEq a.x.x b.x.x e = true ∧ Approx.absDiffEq a.x.y b.x.y e = true ∧ Approx.absDiffEq a.x.z b.x.z e = true ∧ Approx.absDiffEq a.x.w b.x.w e = true ∧ Approx.absDiffEq a.y.x b.y.x e = true ∧ Approx.absDiffEq a.y.y b.y.y e = true ∧ Approx.absDiffEq a.y.z b.y.z e = false := by
  simp [Tr.Consistent, envL, M4.toList, V4.toList]
/-- this path is the one taken iff component pair `7` is the first that is not within tolerance -/
theorem m4_abs_diff_eq_false_7_consistent (a b : M4 K) (e : K) :
    (t_m4_abs_diff_eq_false_7 (envL (a.toList ++ b.toList ++ [e]))).Consistent ↔ Approx.absDiffEq a.x.x b.x.x e = true ∧ Approx.absDiffEq a.x.y b.x.y e = true ∧ Approx.absDiffEq a.x.z b.x.z e = true ∧ Approx.absDiffEq a.x.w b.x.w e = true ∧ Approx.absDiffEq a.y.x b.y.x e = true ∧ Approx.absDiffEq a.y.y b.y.y e = true ∧ Approx.absDiffEq a.y.z b.y.z e = true ∧ Approx.absDiffEq a.y.w b.y.w e = false := by
  simp [Tr.Consistent, envL, M4.toList, V4.toList]
/-- this path is the one taken iff component pair `8` is the first that is not within tolerance -/
theorem m4_abs_diff_eq_false_8_consistent (a b : M4 K) (e : K) :
    (t_m4_abs_diff_eq_false_8 (envL (a.toList ++ b.toList ++ [e]))).Consistent ↔ Approx.absDiffEq a.x.x b.x.x e = true ∧ Approx.absDiffEq a.x.y b.x.y e = true ∧ Approx.absDiffEq a.x.z b.x.z e = true ∧ Approx.absDiffEq a.x.w b.x.w e = true ∧ Approx.absDiffEq a.y.x b.y.x e = true ∧ Approx.absDiffEq a.y.y b.y.y e = true ∧ Approx.absDiffEq a.y.z b.y.z e = true ∧ Approx.absDiffEq a.y.w b.y.w e = true ∧ Approx.absDiffEq a.z.x b.z.x e = false := by
  simp [Tr.Consistent, envL, M4.toList, V4.toList]
/-- this path is the one taken iff component pair `9` is the first that is not within tolerance -/
theorem m4_abs_diff_eq_false_9_consistent (a b : M4 K) (e : K) :
    (t_m4_abs_diff_eq_false_9 (envL (a.toList ++ b.toList ++ [e]))).Consistent ↔ Approx.absDiffEq a.x.x b.x.x e = true ∧ Approx.absDiffEq a.x.y b.x.y e = true ∧ Approx.absDiffEq a.x.z b.x.z e = true ∧ Approx.absDiffEq a.x.w b.x.w e = true ∧ Approx.absDiffEq a.y.x b.y.x e = true ∧ Approx.absDiffEq a.y.y b.y.y e = true ∧ Approx.absDiffEq a.y.z b.y.z e = true ∧ Approx.absDiffEq a.y.w b.y.w e = true ∧ Approx.absDiffEq a.z.x b.z.x e = true ∧ Approx.absDiffEq a.z.y b.z.y e = false := by
  simp [Tr.Consistent, envL, M4.toList, V4.toList]
/-- this path is the one taken iff component pair `10` is the first that is not within tolerance -/
theorem m4_abs_diff_eq_false_10_consistent (a b : M4 K) (e : K) :
    (t_m4_abs_diff_eq_false_10 (envL (a.toList ++ b.toList ++ [e]))).Consistent ↔ Approx.absDiffEq a.x.x b.x.x e = true ∧ Approx.absDiffEq a.x.y b.x.y e = true ∧ Approx.absDiffEq a.x.z b.x.z e = true ∧ Approx.absDiffEq a.x.w b.x.w e = true ∧ Approx.absDiffEq a.y.x b.y.x e = true ∧ Approx.absDiffEq a.y.y b.y.y e = true ∧ Approx.absDiffEq a.y.z b.y.z e = true ∧ Approx.absDiffEq a.y.w b.y.w e = true ∧ Approx.absDiffEq a.z.x b.z.x e = true ∧ Approx.absDiffEq a.z.y b.z.y e = true ∧ Approx.absDiffEq a.z.z b.z.z e = false := by
  simp [Tr.Consistent, envL, M4.toList, V4.toList]
/-- this path is the one taken iff component pair `11` is the first that is not within tolerance -/
theorem m4_abs_diff_eq_false_11_consistent (a b : M4 K) (e : K) :
    (t_m4_abs_diff_eq_false_11 (envL (a.toList ++ b.toList ++ [e]))).Consistent ↔ Approx.absDiffEq a.x.x b.x.x e = true ∧ Approx.absDiffEq a.x.y b.x.y e = true ∧ Approx.absDiffEq a.x.z b.x.z e = true ∧ Approx.absDiffEq a.x.w b.x.w e = true ∧ Approx.absDiffEq a.y.x b.y.x e = true ∧ Approx.absDiffEq a.y.y b.y.y e = true ∧ Approx.absDiffEq a.y.z b.y.z e = true ∧ Approx.absDiffEq a.y.w b.y.w e = true ∧ Approx.absDiffEq a.z.x b.z.x e = true ∧ Approx.absDiffEq a.z.y b.z.y e = true ∧ Approx.absDiffEq a.z.z b.z.z e = true ∧ Approx.absDiffEq a.z.w b.z.w e = false := by
  simp [Tr.Consistent, envL, M4.toList, V4.toList]
/-- this path is the one taken iff component pair `12` is the first that is not within tolerance -/
theorem m4_abs_diff_eq_false_12_consistent (a b : M4 K) (e : K) :
    (t_m4_abs_diff_eq_false_12 (envL (a.toList ++ b.toList ++ [e]))).Consistent ↔ Approx.absDiffEq a.x.x b.x.x e = true ∧ Approx.absDiffEq a.x.y b.x.y e = true ∧ Approx.absDiffEq a.x.z b.x.z e = true ∧ Approx.absDiffEq a.x.w b.x.w e = true ∧ Approx.absDiffEq a.y.x b.y.x e = true ∧ Approx.absDiffEq a.y.y b.y.y e = true ∧ Approx.absDiffEq a.y.z b.y.z e = true ∧ Approx.absDiffEq a.y.w b.y.w e = true ∧ Approx.absDiffEq a.z.x b.z.x e = true ∧ Approx.absDiffEq a.z.y b.z.y e = true ∧ Approx.absDiffEq a.z.z b.z.z e = true ∧ Approx.absDiffEq a.z.w b.z.w e = true ∧ Approx.absDiffEq a.w.x b.w.x e = false := by
  simp [Tr.Consistent, envL, M4.toList, V4.toList]
/-- this path is the one taken iff component pair `13` is the first that is not within tolerance -/
theorem m4_abs_diff_eq_false_13_consistent (a b : M4 K) (e : K) :
    (t_m4_abs_diff_eq_false_13 (envL (a.toList ++ b.toList ++ [e]))).Consistent ↔ Approx.absDiffEq a.x.x b.x.x e = true ∧ Approx.absDiffEq a.x.y b.x.y e = true ∧ Approx.absDiffEq a.x.z b.x.z e = true ∧ Approx.absDiffEq a.x.w b.x.w e = true ∧ Approx.absDiffEq a.y.x b.y.x e = true ∧ Approx.absDiffEq a.y.y b.y.y e = true ∧ Approx.absDiffEq a.y.z b.y.z e = true ∧ Approx.absDiffEq a.y.w b.y.w e = true ∧ Approx.absDiffEq a.z.x b.z.x e = true ∧ Approx.absDiffEq a.z.y b.z.y e = true ∧ Approx.absDiffEq a.z.z b.z.z e = true ∧ Approx.absDiffEq a.z.w b.z.w e = true ∧ Approx.absDiffEq a.w.x b.w.x e = true ∧ Approx.absDiffEq a.w.y b.w.y e = false := by
  simp [Tr.Consistent, envL, M4.toList, V4.toList]
/-- this path is the one taken iff component pair `14` is the first that is not within tolerance -/
theorem m4_abs_diff_eq_false_14_consistent (a b : M4 K) (e : K) :
    (t_m4_abs_diff_eq_false_14 (envL (a.toList ++ b.toList ++ [e]))).Consistent ↔ Approx.absDiffEq a.x.x b.x.x e = true ∧ Approx.absDiffEq a.x.y b.x.y e = true ∧ Approx.absDiffEq a.x.z b.x.z e = true ∧ Approx.absDiffEq a.x.w b.x.w e = true ∧ Approx.absDiffEq a.y.x b.y.x e = true ∧ Approx.absDiffEq a.y.y b.y.y e = true ∧ Approx.absDiffEq a.y.z b.y.z e = true ∧ Approx.absDiffEq a.y.w b.y.w e = true ∧ Approx.absDiffEq a.z.x b.z.x e = true ∧ Approx.absDiffEq a.z.y b.z.y e = true ∧ Approx.absDiffEq a.z.z b.z.z e = true ∧ Approx.absDiffEq a.z.w b.z.w e = true ∧ Approx.absDiffEq a.w.x b.w.x e = true ∧ Approx.absDiffEq a.w.y b.w.y e = true ∧ Approx.absDiffEq a.w.z b.w.z e = false := by
  simp [Tr.Consistent, envL, M4.toList, V4.toList]
/-- this path is the one taken iff component pair `15` is the first that is not within tolerance -/
theorem m4_abs_diff_eq_false_15_consistent (a b : M4 K) (e : K) :
    (t_m4_abs_diff_eq_false_15 (envL (a.toList ++ b.toList ++ [e]))).Consistent ↔ Approx.absDiffEq a.x.x b.x.x e = true ∧ Approx.absDiffEq a.x.y b.x.y e = true ∧ Approx.absDiffEq a.x.z b.x.z e = true ∧ Approx.absDiffEq a.x.w b.x.w e = true ∧ Approx.absDiffEq a.y.x b.y.x e = true ∧ Approx.absDiffEq a.y.y b.y.y e = true ∧ Approx.absDiffEq a.y.z b.y.z e = true ∧ Approx.absDiffEq a.y.w b.y.w e = true ∧ Approx.absDiffEq a.z.x b.z.x e = true ∧ Approx.absDiffEq a.z.y b.z.y e = true ∧ Approx.absDiffEq a.z.z b.z.z e = true ∧ Approx.absDiffEq a.z.w b.z.w e = true ∧ Approx.absDiffEq a.w.x b.w.x e = true ∧ Approx.absDiffEq a.w.y b.w.y e = true ∧ Approx.absDiffEq a.w.z b.w.z e = true ∧ Approx.absDiffEq a.w.w b.w.w e = false := by
  simp [Tr.Consistent, envL, M4.toList, V4.toList]
/-- the traced paths of `m4.abs_diff_eq` on the input -/
def m4AbsDiffEq (a b : M4 K) (e : K) : List (Tr K) :=
    [t_m4_abs_diff_eq_true (envL (a.toList ++ b.toList ++ [e])), t_m4_abs_diff_eq_false_0 (envL (a.toList ++ b.toList ++ [e])), t_m4_abs_diff_eq_false_1 (envL (a.toList ++ b.toList ++ [e])), t_m4_abs_diff_eq_false_2 (envL (a.toList ++ b.toList ++ [e])), t_m4_abs_diff_eq_false_3 (envL (a.toList ++ b.toList ++ [e])), t_m4_abs_diff_eq_false_4 (envL (a.toList ++ b.toList ++ [e])), t_m4_abs_diff_eq_false_5 (envL (a.toList ++ b.toList ++ [e])), t_m4_abs_diff_eq_false_6 (envL (a.toList ++ b.toList ++ [e])), t_m4_abs_diff_eq_false_7 (envL (a.toList ++ b.toList ++ [e])), t_m4_abs_diff_eq_false_8 (envL (a.toList ++ b.toList ++ [e])), t_m4_abs_diff_eq_false_9 (envL (a.toList ++ b.toList ++ [e])), t_m4_abs_diff_eq_false_10 (envL (a.toList ++ b.toList ++ [e])), t_m4_abs_diff_eq_false_11 (envL (a.toList ++ b.toList ++ [e])), t_m4_abs_diff_eq_false_12 (envL (a.toList ++ b.toList ++ [e])), t_m4_abs_diff_eq_false_13 (envL (a.toList ++ b.toList ++ [e])), t_m4_abs_diff_eq_false_14 (envL (a.toList ++ b.toList ++ [e])), t_m4_abs_diff_eq_false_15 (envL (a.toList ++ b.toList ++ [e]))]
/-- for every input exactly one of the paths is the one taken -/
theorem m4_abs_diff_eq_exactly_one (a b : M4 K) (e : K) : Tr.ExactlyOne (m4AbsDiffEq a b e) := by
  unfold Tr.ExactlyOne m4AbsDiffEq
  simp only [List.pairwise_cons, List.mem_cons, List.not_mem_nil, or_false, forall_eq_or_imp, forall_eq, exists_eq_or_imp,
    exists_eq_left, List.Pairwise.nil, and_true, IsEmpty.forall_iff, implies_true, false_imp_iff, exists_false,
    m4_abs_diff_eq_true_consistent, m4_abs_diff_eq_false_0_consistent, m4_abs_diff_eq_false_1_consistent, m4_abs_diff_eq_false_2_consistent, m4_abs_diff_eq_false_3_consistent, m4_abs_diff_eq_false_4_consistent, m4_abs_diff_eq_false_5_consistent, m4_abs_diff_eq_false_6_consistent, m4_abs_diff_eq_false_7_consistent, m4_abs_diff_eq_false_8_consistent, m4_abs_diff_eq_false_9_consistent, m4_abs_diff_eq_false_10_consistent, m4_abs_diff_eq_false_11_consistent, m4_abs_diff_eq_false_12_consistent, m4_abs_diff_eq_false_13_consistent, m4_abs_diff_eq_false_14_consistent, m4_abs_diff_eq_false_15_consistent]
  generalize Approx.absDiffEq a.x.x b.x.x e = r0
  generalize Approx.absDiffEq a.x.y b.x.y e = r1
  generalize Approx.absDiffEq a.x.z b.x.z e = r2
  generalize Approx.absDiffEq a.x.w b.x.w e = r3
  generalize Approx.absDiffEq a.y.x b.y.x e = r4
  generalize Approx.absDiffEq a.y.y b.y.y e = r5
  generalize Approx.absDiffEq a.y.z b.y.z e = r6
  generalize Approx.absDiffEq a.y.w b.y.w e = r7
  generalize Approx.absDiffEq a.z.x b.z.x e = r8
  generalize Approx.absDiffEq a.z.y b.z.y e = r9
  generalize Approx.absDiffEq a.z.z b.z.z e = r10
  generalize Approx.absDiffEq a.z.w b.z.w e = r11
  generalize Approx.absDiffEq a.w.x b.w.x e = r12
  generalize Approx.absDiffEq a.w.y b.w.y e = r13
  generalize Approx.absDiffEq a.w.z b.w.z e = r14
  generalize Approx.absDiffEq a.w.w b.w.w e = r15
  cases r0
  · simp
  cases r1
  · simp
  cases r2
  · simp
  cases r3
  · simp
  cases r4
  · simp
  cases r5
  · simp
  cases r6
  · simp
  cases r7
  · simp
  cases r8
  · simp
  cases r9
  · simp
  cases r10
  · simp
  cases r11
  · simp
  cases r12
  · simp
  cases r13
  · simp
  cases r14
  · simp
  cases r15
  · simp
  simp
/-- **`m4.abs_diff_eq` as computed**: exactly one traced path is taken; the path taken returns normally one boolean, the model's
relation; and that is `true` iff the scalar relation WITH THE SAME TOLERANCE ARGUMENTS holds on every component pair -/
theorem code_m4_abs_diff_eq (a b : M4 K) (e : K) :
    Tr.ExactlyOne (m4AbsDiffEq a b e) ∧
    (∀ t ∈ m4AbsDiffEq a b e, t.Consistent → t.res = .ok ∧ t.out = [] ∧ t.bools = [M4.absDiffEq a b e]) ∧
    (M4.absDiffEq a b e = true ↔ Approx.absDiffEq a.x.x b.x.x e = true ∧ Approx.absDiffEq a.x.y b.x.y e = true ∧ Approx.absDiffEq a.x.z b.x.z e = true ∧ Approx.absDiffEq a.x.w b.x.w e = true ∧ Approx.absDiffEq a.y.x b.y.x e = true ∧ Approx.absDiffEq a.y.y b.y.y e = true ∧ Approx.absDiffEq a.y.z b.y.z e = true ∧ Approx.absDiffEq a.y.w b.y.w e = true ∧ Approx.absDiffEq a.z.x b.z.x e = true ∧ Approx.absDiffEq a.z.y b.z.y e = true ∧ Approx.absDiffEq a.z.z b.z.z e = true ∧ Approx.absDiffEq a.z.w b.z.w e = true ∧ Approx.absDiffEq a.w.x b.w.x e = true ∧ Approx.absDiffEq a.w.y b.w.y e = true ∧ Approx.absDiffEq a.w.z b.w.z e = true ∧ Approx.absDiffEq a.w.w b.w.w e = true) := by
  refine ⟨m4_abs_diff_eq_exactly_one a b e, ?_, Cg.C18.M4.absDiffEq_iff_elems a b e⟩
  intro t ht
  simp only [m4AbsDiffEq, List.mem_cons, List.not_mem_nil, or_false] at ht
  rcases ht with rfl | rfl | rfl | rfl | rfl | rfl | rfl | rfl | rfl | rfl | rfl | rfl | rfl | rfl | rfl | rfl | rfl
  · intro hc
    have ⟨h0, h1, h2, h3, h4, h5, h6, h7, h8, h9, h10, h11, h12, h13, h14, h15⟩ := (m4_abs_diff_eq_true_consistent a b e).1 hc
    rw [(Trace.C18OpsM.t_m4_abs_diff_eq_true a b e h0 h1 h2 h3 h4 h5 h6 h7 h8 h9 h10 h11 h12 h13 h14 h15).1]; exact ⟨rfl, rfl, rfl⟩
  · intro hc
    have h0 := (m4_abs_diff_eq_false_0_consistent a b e).1 hc
    rw [(Trace.C18OpsM.t_m4_abs_diff_eq_false_0 a b e h0).1]; exact ⟨rfl, rfl, rfl⟩
  · intro hc
    have ⟨h0, h1⟩ := (m4_abs_diff_eq_false_1_consistent a b e).1 hc
    rw [(Trace.C18OpsM.t_m4_abs_diff_eq_false_1 a b e h0 h1).1]; exact ⟨rfl, rfl, rfl⟩
  · intro hc
    have ⟨h0, h1, h2⟩ := (m4_abs_diff_eq_false_2_consistent a b e).1 hc
    rw [(Trace.C18OpsM.t_m4_abs_diff_eq_false_2 a b e h0 h1 h2).1]; exact ⟨rfl, rfl, rfl⟩
  · intro hc
    have ⟨h0, h1, h2, h3⟩ := (m4_abs_diff_eq_false_3_consistent a b e).1 hc
    rw [(Trace.C18OpsM.t_m4_abs_diff_eq_false_3 a b e h0 h1 h2 h3).1]; exact ⟨rfl, rfl, rfl⟩
  · intro hc
    have ⟨h0, h1, h2, h3, h4⟩ := (m4_abs_diff_eq_false_4_consistent a b e).1 hc
    rw [(Trace.C18OpsM.t_m4_abs_diff_eq_false_4 a b e h0 h1 h2 h3 h4).1]; exact ⟨rfl, rfl, rfl⟩
  · intro hc
    have ⟨h0, h1, h2, h3, h4, h5⟩ := (m4_abs_diff_eq_false_5_consistent a b e).1 hc
    rw [(Trace.C18OpsM.t_m4_abs_diff_eq_false_5 a b e h0 h1 h2 h3 h4 h5).1]; exact ⟨rfl, rfl, rfl⟩
  · intro hc
    have ⟨h0, h1, h2, h3, h4, h5, h6⟩ := (m4_abs_diff_eq_false_6_consistent a b e).1 hc
    rw [(Trace.C18OpsM.t_m4_abs_diff_eq_false_6 a b e h0 h1 h2 h3 h4 h5 h6).1]; exact ⟨rfl, rfl, rfl⟩
  · intro hc
    have ⟨h0, h1, h2, h3, h4, h5, h6, h7⟩ := (m4_abs_diff_eq_false_7_consistent a b e).1 hc
    rw [(Trace.C18OpsM.t_m4_abs_diff_eq_false_7 a b e h0 h1 h2 h3 h4 h5 h6 h7).1]; exact ⟨rfl, rfl, rfl⟩
  · intro hc
    have ⟨h0, h1, h2, h3, h4, h5, h6, h7, h8⟩ := (m4_abs_diff_eq_false_8_consistent a b e).1 hc
    rw [(Trace.C18OpsM.t_m4_abs_diff_eq_false_8 a b e h0 h1 h2 h3 h4 h5 h6 h7 h8).1]; exact ⟨rfl, rfl, rfl⟩
  · intro hc
    have ⟨h0, h1, h2, h3, h4, h5, h6, h7, h8, h9⟩ := (m4_abs_diff_eq_false_9_consistent a b e).1 hc
    rw [(Trace.C18OpsM.t_m4_abs_diff_eq_false_9 a b e h0 h1 h2 h3 h4 h5 h6 h7 h8 h9).1]; exact ⟨rfl, rfl, rfl⟩
  · intro hc
    have ⟨h0, h1, h2, h3, h4, h5, h6, h7, h8, h9, h10⟩ := (m4_abs_diff_eq_false_10_consistent a b e).1 hc
    rw [(Trace.C18OpsM.t_m4_abs_diff_eq_false_10 a b e h0 h1 h2 h3 h4 h5 h6 h7 h8 h9 h10).1]; exact ⟨rfl, rfl, rfl⟩
  · intro hc
    have ⟨h0, h1, h2, h3, h4, h5, h6, h7, h8, h9, h10, h11⟩ := (m4_abs_diff_eq_false_11_consistent a b e).1 hc
    rw [(Trace.C18OpsM.t_m4_abs_diff_eq_false_11 a b e h0 h1 h2 h3 h4 h5 h6 h7 h8 h9 h10 h11).1]; exact ⟨rfl, rfl, rfl⟩
  · intro hc
    have ⟨h0, h1, h2, h3, h4, h5, h6, h7, h8, h9, h10, h11, h12⟩ := (m4_abs_diff_eq_false_12_consistent a b e).1 hc
    rw [(Trace.C18OpsM.t_m4_abs_diff_eq_false_12 a b e h0 h1 h2 h3 h4 h5 h6 h7 h8 h9 h10 h11 h12).1]; exact ⟨rfl, rfl, rfl⟩
  · intro hc
    have ⟨h0, h1, h2, h3, h4, h5, h6, h7, h8, h9, h10, h11, h12, h13⟩ := (m4_abs_diff_eq_false_13_consistent a b e).1 hc
    rw [(Trace.C18OpsM.t_m4_abs_diff_eq_false_13 a b e h0 h1 h2 h3 h4 h5 h6 h7 h8 h9 h10 h11 h12 h13).1]; exact ⟨rfl, rfl, rfl⟩
  · intro hc
    have ⟨h0, h1, h2, h3, h4, h5, h6, h7, h8, h9, h10, h11, h12, h13, h14⟩ := (m4_abs_diff_eq_false_14_consistent a b e).1 hc
    rw [(Trace.C18OpsM.t_m4_abs_diff_eq_false_14 a b e h0 h1 h2 h3 h4 h5 h6 h7 h8 h9 h10 h11 h12 h13 h14).1]; exact ⟨rfl, rfl, rfl⟩
  · intro hc
    have ⟨h0, h1, h2, h3, h4, h5, h6, h7, h8, h9, h10, h11, h12, h13, h14, h15⟩ := (m4_abs_diff_eq_false_15_consistent a b e).1 hc
    rw [(Trace.C18OpsM.t_m4_abs_diff_eq_false_15 a b e h0 h1 h2 h3 h4 h5 h6 h7 h8 h9 h10 h11 h12 h13 h14 h15).1]; exact ⟨rfl, rfl, rfl⟩

/-! ### `m4.relative_eq` -/
/-- this path is the one taken iff every component pair is within tolerance -/
theorem m4_relative_eq_true_consistent (a b : M4 K) (e m : K) :
    (t_m4_relative_eq_true (envL (a.toList ++ b.toList ++ [e, m]))).Consistent ↔ Approx.relEq a.x.x b.x.x e m = true ∧ Approx.relEq a.x.y b.x.y e m = true ∧ Approx.relEq a.x.z b.x.z e m = true ∧ Approx.relEq a.x.w b.x.w e m = true ∧ Approx.relEq a.y.x b.y.x e m = true ∧ Approx.relEq a.y.y b.y.y e m = true ∧ Approx.relEq a.y.z b.y.z e m = true ∧ Approx.relEq a.y.w b.y.w e m = true ∧ Approx.relEq a.z.x b.z.x e m = true ∧ Approx.relEq a.z.y b.z.y e m = true ∧ Approx.relEq a.z.z b.z.z e m = true ∧ Approx.relEq a.z.w b.z.w e m = true ∧ Approx.relEq a.w.x b.w.x e m = true ∧ Approx.relEq a.w.y b.w.y e m = true ∧ Approx.relEq a.w.z b.w.z e m = true ∧ Approx.relEq a.w.w b.w.w e m = true := by
  simp [Tr.Consistent, envL, M4.toList, V4.toList]
/-- this path is the one taken iff component pair `0` is the first that is not within tolerance -/
theorem m4_relative_eq_false_0_consistent (a b : M4 K) (e m : K) :
    (t_m4_relative_eq_false_0 (envL (a.toList ++ b.toList ++ [e, m]))).Consistent ↔ Approx.relEq a.x.x b.x.x e m = false := by
  simp [Tr.Consistent, envL, M4.toList, V4.toList]
/-- this path is the one taken iff component pair `1` is the first that is not within tolerance -/
theorem m4_relative_eq_false_1_consistent (a b : M4 K) (e m : K) :
    (t_m4_relative_eq_false_1 (envL (a.toList ++ b.toList ++ [e, m]))).Consistent ↔ Approx.relEq a.x.x b.x.x e m = true ∧ Approx.relEq a.x.y b.x.y e m = false := by
  simp [Tr.Consistent, envL, M4.toList, V4.toList]
/-- this path is the one taken iff component pair `2` is the first that is not within tolerance -/
theorem m4_relative_eq_false_2_consistent (a b : M4 K) (e m : K) :
    (t_m4_relative_eq_false_2 (envL (a.toList ++ b.toList ++ [e, m]))).Consistent ↔ Approx.relEq a.x.x b.x.x e m = true ∧ Approx.relEq a.x.y b.x.y e m = true ∧ Approx.relEq a.x.z b.x.z e m = false := by
  simp [Tr.Consistent, envL, M4.toList, V4.toList]
/-- this path is the one taken iff component pair `3` is the first that is not within tolerance -/
theorem m4_relative_eq_false_3_consistent (a b : M4 K) (e m : K) :
    (t_m4_relative_eq_false_3 (envL (a.toList ++ b.toList ++ [e, m]))).Consistent ↔ Approx.relEq a.x.x b.x.x e m = true ∧ Approx.relEq a.x.y b.x.y e m = true ∧ Approx.relEq a.x.z b.x.z e m = true ∧ Approx.relEq a.x.w b.x.w e m = false := by
  simp [Tr.Consistent, envL, M4.toList, V4.toList]
/-- this path is the one taken iff component pair `4` is the first that is not within tolerance -/
theorem m4_relative_eq_false_4_consistent (a b : M4 K) (e m : K) :
    (t_m4_relative_eq_false_4 (envL (a.toList ++ b.toList ++ [e, m]))).Consistent ↔ Approx.relEq a.x.x b.x.x e m = true ∧ Approx.relEq a.x.y b.x.y e m = true ∧ Approx.relEq a.x.z b.x.z e m = true ∧ Approx.relEq a.x.w b.x.w e m = true ∧ Approx.relEq a.y.x b.y.x e m = false := by
  simp [Tr.Consistent, envL, M4.toList, V4.toList]
/-- this path is the one taken iff component pair `5` is the first that is not within tolerance -/
theorem m4_relative_eq_false_5_consistent (a b : M4 K) (e m : K) :
    (t_m4_relative_eq_false_5 (envL (a.toList ++ b.toList ++ [e, m]))).Consistent ↔ Approx.relEq a.x.x b.x.x e m = true ∧ Approx.relEq a.x.y b.x.y e m = true ∧ Approx.relEq a.x.z b.x.z e m = true ∧ Approx.relEq a.x.w b.x.w e m = true ∧ Approx.relEq a.y.x b.y.x e m = true ∧ Approx.relEq a.y.y b.y.y e m = false := by
  simp [Tr.Consistent, envL, M4.toList, V4.toList]
/-- this path is the one taken iff component pair `6` is the first that is not within tolerance -/
theorem m4_relative_eq_false_6_consistent (a b : M4 K) (e m : K) :
    (t_m4_relative_eq_false_6 (envL (a.toList ++ b.toList ++ [e, m]))).Consistent ↔ Approx.relEq a.x.x b.x.x e m = true ∧ Approx.relEq a.x.y b.x.y e m = true ∧ Approx.relEq a.x.z b.x.z e m = true ∧ Approx.relEq a.x.w b.x.w e m = true ∧ Approx.relEq a.y.x b.y.x e m = true ∧ Approx.relEq a.y.y b.y.y e m = true ∧ Approx.relEq a.y.z b.y.z e m = false := by
  simp [Tr.Consistent, envL, M4.toList, V4.toList]
/-- this path is the one taken iff component pair `7` is the first that is not within tolerance -/
theorem m4_relative_eq_false_7_consistent (a b : M4 K) (e m : K) :
    (t_m4_relative_eq_false_7 (envL (a.toList ++ b.toList ++ [e, m]))).Consistent ↔ Approx.relEq a.x.x b.x.x e m = true ∧ Approx.relEq a.x.y b.x.y e m = true ∧ Approx.relEq a.x.z b.x.z e m = true ∧ Approx.relEq a.x.w b.x.w e m = true ∧ Approx.relEq a.y.x b.y.x e m = true ∧ Approx.relEq a.y.y b.y.y e m = true ∧ Approx.relEq a.y.z b.y.z e m = true ∧ Approx.relEq a.y.w b.y.w e m = false := by
  simp [Tr.Consistent, envL, M4.toList, V4.toList]
/-- this path is the one taken iff component pair `8` is the first that is not within tolerance -/
theorem m4_relative_eq_false_8_consistent (a b : M4 K) (e m : K) :
    (t_m4_relative_eq_false_8 (envL (a.toList ++ b.toList ++ [e, m]))).Consistent ↔ Approx.relEq a.x.x b.x.x e m = true ∧ Approx.relEq a.x.y b.x.y e m = true ∧ Approx.relEq a.x.z b.x.z e m = true ∧ Approx.relEq a.x.w b.x.w e m = true ∧ Approx.relEq a.y.x b.y.x e m = true ∧ Approx.relEq a.y.y b.y.y e m = true ∧ Approx.relEq a.y.z b.y.z e m = true ∧ Approx.relEq a.y.w b.y.w e m = true ∧ Approx.relEq a.z.x b.z.x e m = false := by
  simp [Tr.Consistent, envL, M4.toList, V4.toList]
/-- this path is the one taken iff component pair `9` is the first that is not within tolerance -/
theorem m4_relative_eq_false_9_consistent (a b : M4 K) (e m : K) :
    (t_m4_relative_eq_false_9 (envL (a.toList ++ b.toList ++ [e, m]))).Consistent ↔ Approx.relEq a.x.x b.x.x e m = true ∧ Approx.relEq a.x.y b.x.y e m = true ∧ Approx.relEq a.x.z b.x.z e m = true ∧ Approx.relEq a.x.w b.x.w e m = true ∧ Approx.relEq a.y.x b.y.x e m = true ∧ Approx.relEq a.y.y b.y.y e m = true ∧ Approx.relEq a.y.z b.y.z e m = true ∧ Approx.relEq a.y.w b.y.w e m = true ∧ Approx.relEq a.z.x b.z.x e m = true ∧ Approx.relEq a.z.y b.z.y e m = false := by
  simp [Tr.Consistent, envL, M4.toList, V4.toList]
/-- this path is the one taken iff component pair `10` is the first that is not within tolerance -/
theorem m4_relative_eq_false_10_consistent (a b : M4 K) (e m : K) :
    (t_m4_relative_eq_false_10 (envL (a.toList ++ b.toList ++ [e, m]))).Consistent ↔ Approx.relEq a.x.x b.x.x e m = true ∧ Approx.relEq a.x.y b.x.y e m = true ∧ Approx.relEq a.x.z b.x.z e m = true ∧ Approx.relEq a.x.w b.x.w e m = true ∧ Approx.relEq a.y.x b.y.x e m = true ∧ Approx.relEq a.y.y b.y.y e m = true ∧ Approx.relEq a.y.z b.y.z e m = true ∧ Approx.relEq a.y.w b.y.w e m = true ∧ Approx.relEq a.z.x b.z.x e m = true ∧ Approx.relEq a.z.y b.z.y e m = true ∧ Approx.relEq a.z.z b.z.z e m = false := by
  simp [Tr.Consistent, envL, M4.toList, V4.toList]
/-- this path is the one taken iff component pair `11` is the first that is not within tolerance -/
theorem m4_relative_eq_false_11_consistent (a b : M4 K) (e m : K) :
    (t_m4_relative_eq_false_11 (envL (a.toList ++ b.toList ++ [e, m]))).Consistent ↔ Approx.relEq a.x.x b.x.x e m = true ∧ Approx.relEq a.x.y b.x.y e m = true ∧ Approx.relEq a.x.z b.x.z e m = true ∧ Approx.relEq a.x.w b.x.w e m = true ∧ Approx.relEq a.y.x b.y.x e m = true ∧ Approx.relEq a.y.y b.y.y e m = true ∧ Approx.relEq a.y.z b.y.z e m = true ∧ Approx.relEq a.y.w b.y.w e m = true ∧ Approx.relEq a.z.x b.z.x e m = true ∧ Approx.relEq a.z.y b.z.y e m = true ∧ Approx.relEq a.z.z b.z.z e m = true ∧ Approx.relEq a.z.w b.z.w e m = false := by
  simp [Tr.Consistent, envL, M4.toList, V4.toList]
/-- this path is the one taken iff component pair `12` is the first that is not within tolerance -/
theorem m4_relative_eq_false_12_consistent (a b : M4 K) (e m : K) :
    (t_m4_relative_eq_false_12 (envL (a.toList ++ b.toList ++ [e, m]))).Consistent ↔ Approx.relEq a.x.x b.x.x e m = true ∧ Approx.relEq a.x.y b.x.y e m = true ∧ Approx.relEq a.x.z b.x.z e m = true ∧ Approx.relEq a.x.w b.x.w e m = true ∧ Approx.relEq a.y.x b.y.x e m = true ∧ Approx.relEq a.y.y b.y.y e m = true ∧ Approx.relEq a.y.z b.y.z e m = true ∧ Approx.relEq a.y.w b.y.w e m = true ∧ Approx.relEq a.z.x b.z.x e m = true ∧ Approx.relEq a.z.y b.z.y e m = true ∧ Approx.relEq a.z.z b.z.z e m = true ∧ Approx.relEq a.z.w b.z.w e m = true ∧ Approx.relEq a.w.x b.w.x e m = false := by
  simp [Tr.Consistent, envL, M4.toList, V4.toList]
/-- this path is the one taken iff component pair `13` is the first that is not within tolerance -/
theorem m4_relative_eq_false_13_consistent (a b : M4 K) (e m : K) :
    (t_m4_relative_eq_false_13 (envL (a.toList ++ b.toList ++ [e, m]))).Consistent ↔ Approx.relEq a.x.x b.x.x e m = true ∧ Approx.relEq a.x.y b.x.y e m = true ∧ Approx.relEq a.x.z b.x.z e m = true ∧ Approx.relEq a.x.w b.x.w e m = true ∧ Approx.relEq a.y.x b.y.x e m = true ∧ Approx.relEq a.y.y b.y.y e m = true ∧ Approx.relEq a.y.z b.y.z e m = true ∧ Approx.relEq a.y.w b.y.w e m = true ∧ Approx.relEq a.z.x b.z.x e m = true ∧ Approx.relEq a.z.y b.z.y e m = true ∧ Approx.relEq a.z.z b.z.z e m = true ∧ Approx.relEq a.z.w b.z.w e m = true ∧ Approx.relEq a.w.x b.w.x e m = true ∧ Approx.relEq a.w.y b.w.y e m = false := by
  simp [Tr.Consistent, envL, M4.toList, V4.toList]
/-- this path is the one taken iff component pair `14` is the first that is not within tolerance -/
theorem m4_relative_eq_false_14_consistent (a b : M4 K) (e m : K) :
    (t_m4_relative_eq_false_14 (envL (a.toList ++ b.toList ++ [e, m]))).Consistent ↔ Approx.relEq a.x.x b.x.x e m = true ∧ Approx.relEq a.x.y b.x.y e m = true ∧ Approx.relEq a.x.z b.x.z e m = true ∧ Approx.relEq a.x.w b.x.w e m = true ∧ Approx.relEq a.y.x b.y.x e m = true ∧ Approx.relEq a.y.y b.y.y e m = true ∧ Approx.relEq a.y.z b.y.z e m = true ∧ Approx.relEq a.y.w b.y.w e m = true ∧ Approx.relEq a.z.x b.z.x e m = true ∧ Approx.relEq a.z.y b.z.y e m = true ∧ Approx.relEq a.z.z b.z.z e m = true ∧ Approx.relEq a.z.w b.z.w e m = true ∧ Approx.relEq a.w.x b.w.x e m = true ∧ Approx.relEq a.w.y b.w.y e m = true ∧ Approx.relEq a.w.z b.w.z e m = false := by
  simp [Tr.Consistent, envL, M4.toList, V4.toList]
/-- this path is the one taken iff component pair `15` is the first that is not within tolerance -/
theorem m4_relative_eq_false_15_consistent (a b : M4 K) (e m : K) :
    (t_m4_relative_eq_false_15 (envL (a.toList ++ b.toList ++ [e, m]))).Consistent ↔ Approx.relEq a.x.x b.x.x e m = true ∧ Approx.relEq a.x.y b.x.y e m = true ∧ Approx.relEq a.x.z b.x.z e m = true ∧ Approx.relEq a.x.w b.x.w e m = true ∧ Approx.relEq a.y.x b.y.x e m = true ∧ Approx.relEq a.y.y b.y.y e m = true ∧ Approx.relEq a.y.z b.y.z e m = true ∧ Approx.relEq a.y.w b.y.w e m = true ∧ Approx.relEq a.z.x b.z.x e m = true ∧ Approx.relEq a.z.y b.z.y e m = true ∧ Approx.relEq a.z.z b.z.z e m = true ∧ Approx.relEq a.z.w b.z.w e m = true ∧ Approx.relEq a.w.x b.w.x e m = true ∧ Approx.relEq a.w.y b.w.y e m = true ∧ Approx.relEq a.w.z b.w.z e m = true ∧ Approx.relEq a.w.w b.w.w e m = false := by
  simp [Tr.Consistent, envL, M4.toList, V4.toList]
/-- the traced paths of `m4.relative_eq` on the input -/
def m4RelEq (a b : M4 K) (e m : K) : List (Tr K) :=
    [t_m4_relative_eq_true (envL (a.toList ++ b.toList ++ [e, m])), t_m4_relative_eq_false_0 (envL (a.toList ++ b.toList ++ [e, m])), t_m4_relative_eq_false_1 (envL (a.toList ++ b.toList ++ [e, m])), t_m4_relative_eq_false_2 (envL (a.toList ++ b.toList ++ [e, m])), t_m4_relative_eq_false_3 (envL (a.toList ++ b.toList ++ [e, m])), t_m4_relative_eq_false_4 (envL (a.toList ++ b.toList ++ [e, m])), t_m4_relative_eq_false_5 (envL (a.toList ++ b.toList ++ [e, m])), t_m4_relative_eq_false_6 (envL (a.toList ++ b.toList ++ [e, m])), t_m4_relative_eq_false_7 (envL (a.toList ++ b.toList ++ [e, m])), t_m4_relative_eq_false_8 (envL (a.toList ++ b.toList ++ [e, m])), t_m4_relative_eq_false_9 (envL (a.toList ++ b.toList ++ [e, m])), t_m4_relative_eq_false_10 (envL (a.toList ++ b.toList ++ [e, m])), t_m4_relative_eq_false_11 (envL (a.toList ++ b.toList ++ [e, m])), t_m4_relative_eq_false_12 (envL (a.toList ++ b.toList ++ [e, m])), t_m4_relative_eq_false_13 (envL (a.toList ++ b.toList ++ [e, m])), t_m4_relative_eq_false_14 (envL (a.toList ++ b.toList ++ [e, m])), t_m4_relative_eq_false_15 (envL (a.toList ++ b.toList ++ [e, m]))]
/-- for every input exactly one of the paths is the one taken -/
theorem m4_relative_eq_exactly_one (a b : M4 K) (e m : K) : Tr.ExactlyOne (m4RelEq a b e m) := by
  unfold Tr.ExactlyOne m4RelEq
  simp only [List.pairwise_cons, List.mem_cons, List.not_mem_nil, or_false, forall_eq_or_imp, forall_eq, exists_eq_or_imp,
    exists_eq_left, List.Pairwise.nil, and_true, IsEmpty.forall_iff, implies_true, false_imp_iff, exists_false,
    m4_relative_eq_true_consistent, m4_relative_eq_false_0_consistent, m4_relative_eq_false_1_consistent, m4_relative_eq_false_2_consistent, m4_relative_eq_false_3_consistent, m4_relative_eq_false_4_consistent, m4_relative_eq_false_5_consistent, m4_relative_eq_false_6_consistent, m4_relative_eq_false_7_consistent, m4_relative_eq_false_8_consistent, m4_relative_eq_false_9_consistent, m4_relative_eq_false_10_consistent, m4_relative_eq_false_11_consistent, m4_relative_eq_false_12_consistent, m4_relative_eq_false_13_consistent, m4_relative_eq_false_14_consistent, m4_relative_eq_false_15_consistent]
  generalize Approx.relEq a.x.x b.x.x e m = r0
  generalize Approx.relEq a.x.y b.x.y e m = r1
  generalize Approx.relEq a.x.z b.x.z e m = r2
  generalize Approx.relEq a.x.w b.x.w e m = r3
  generalize Approx.relEq a.y.x b.y.x e m = r4
  generalize Approx.relEq a.y.y b.y.y e m = r5
  generalize Approx.relEq a.y.z b.y.z e m = r6
  generalize Approx.relEq a.y.w b.y.w e m = r7
  generalize Approx.relEq a.z.x b.z.x e m = r8
  generalize Approx.relEq a.z.y b.z.y e m = r9
  generalize Approx.relEq a.z.z b.z.z e m = r10
  generalize Approx.relEq a.z.w b.z.w e m = r11
  generalize Approx.relEq a.w.x b.w.x e m = r12
  generalize Approx.relEq a.w.y b.w.y e m = r13
  generalize Approx.relEq a.w.z b.w.z e m = r14
  generalize Approx.relEq a.w.w b.w.w e m = r15
  cases r0
  · simp
  cases r1
  · simp
  cases r2
  · simp
  cases r3
  · simp
  cases r4
  · simp
  cases r5
  · simp
  cases r6
  · simp
  cases r7
  · simp
  cases r8
  · simp
  cases r9
  · simp
  cases r10
  · simp
  cases r11
  · simp
  cases r12
  · simp
  cases r13
  · simp
  cases r14
  · simp
  cases r15
  · simp
  simp
/-- **`m4.relative_eq` as computed**: exactly one traced path is taken; the path taken returns normally one boolean, the model's
relation; and that is `true` iff the scalar relation WITH THE SAME TOLERANCE ARGUMENTS holds on every component pair -/
theorem code_m4_relative_eq (a b : M4 K) (e m : K) :
    Tr.ExactlyOne (m4RelEq a b e m) ∧
    (∀ t ∈ m4RelEq a b e m, t.Consistent → t.res = .ok ∧ t.out = [] ∧ t.bools = [M4.relEq a b e m]) ∧
    (M4.relEq a b e m = true ↔ Approx.relEq a.x.x b.x.x e m = true ∧ Approx.relEq a.x.y b.x.y e m = true ∧ Approx.relEq a.x.z b.x.z e m = true ∧ Approx.relEq a.x.w b.x.w e m = true ∧ Approx.relEq a.y.x b.y.x e m = true ∧ Approx.relEq a.y.y b.y.y e m = true ∧ Approx.relEq a.y.z b.y.z e m = true ∧ Approx.relEq a.y.w b.y.w e m = true ∧ Approx.relEq a.z.x b.z.x e m = true ∧ Approx.relEq a.z.y b.z.y e m = true ∧ Approx.relEq a.z.z b.z.z e m = true ∧ Approx.relEq a.z.w b.z.w e m = true ∧ Approx.relEq a.w.x b.w.x e m = true ∧ Approx.relEq a.w.y b.w.y e m = true ∧ Approx.relEq a.w.z b.w.z e m = true ∧ Approx.relEq a.w.w b.w.w e m = true) := by
  refine ⟨m4_relative_eq_exactly_one a b e m, ?_, Cg.C18.M4.relEq_iff_elems a b e m⟩
  intro t ht
  simp only [m4RelEq, List.mem_cons, List.not_mem_nil, or_false] at ht
  rcases ht with rfl | rfl | rfl | rfl | rfl | rfl | rfl | rfl | rfl | rfl | rfl | rfl | rfl | rfl | rfl | rfl | rfl
  · intro hc
    have ⟨h0, h1, h2, h3, h4, h5, h6, h7, h8, h9, h10, h11, h12, h13, h14, h15⟩ := (m4_relative_eq_true_consistent a b e m).1 hc
    rw [(Trace.C18OpsM.t_m4_relative_eq_true a b e m h0 h1 h2 h3 h4 h5 h6 h7 h8 h9 h10 h11 h12 h13 h14 h15).1]; exact ⟨rfl, rfl, rfl⟩
  · intro hc
    have h0 := (m4_relative_eq_false_0_consistent a b e m).1 hc
    rw [(Trace.C18OpsM.t_m4_relative_eq_false_0 a b e m h0).1]; exact ⟨rfl, rfl, rfl⟩
  · intro hc
    have ⟨h0, h1⟩ := (m4_relative_eq_false_1_consistent a b e m).1 hc
    rw [(Trace.C18OpsM.t_m4_relative_eq_false_1 a b e m h0 h1).1]; exact ⟨rfl, rfl, rfl⟩
  · intro hc
    have ⟨h0, h1, h2⟩ := (m4_relative_eq_false_2_consistent a b e m).1 hc
    rw [(Trace.C18OpsM.t_m4_relative_eq_false_2 a b e m h0 h1 h2).1]; exact ⟨rfl, rfl, rfl⟩
  · intro hc
    have ⟨h0, h1, h2, h3⟩ := (m4_relative_eq_false_3_consistent a b e m).1 hc
    rw [(Trace.C18OpsM.t_m4_relative_eq_false_3 a b e m h0 h1 h2 h3).1]; exact ⟨rfl, rfl, rfl⟩
  · intro hc
    have ⟨h0, h1, h2, h3, h4⟩ := (m4_relative_eq_false_4_consistent a b e m).1 hc
    rw [(Trace.C18OpsM.t_m4_relative_eq_false_4 a b e m h0 h1 h2 h3 h4).1]; exact ⟨rfl, rfl, rfl⟩
  · intro hc
    have ⟨h0, h1, h2, h3, h4, h5⟩ := (m4_relative_eq_false_5_consistent a b e m).1 hc
    rw [(Trace.C18OpsM.t_m4_relative_eq_false_5 a b e m h0 h1 h2 h3 h4 h5).1]; exact ⟨rfl, rfl, rfl⟩
  · intro hc
    have ⟨h0, h1, h2, h3, h4, h5, h6⟩ := (m4_relative_eq_false_6_consistent a b e m).1 hc
    rw [(Trace.C18OpsM.t_m4_relative_eq_false_6 a b e m h0 h1 h2 h3 h4 h5 h6).1]; exact ⟨rfl, rfl, rfl⟩
  · intro hc
    have ⟨h0, h1, h2, h3, h4, h5, h6, h7⟩ := (m4_relative_eq_false_7_consistent a b e m).1 hc
    rw [(Trace.C18OpsM.t_m4_relative_eq_false_7 a b e m h0 h1 h2 h3 h4 h5 h6 h7).1]; exact ⟨rfl, rfl, rfl⟩
  · intro hc
    have ⟨h0, h1, h2, h3, h4, h5, h6, h7, h8⟩ := (m4_relative_eq_false_8_consistent a b e m).1 hc
    rw [(Trace.C18OpsM.t_m4_relative_eq_false_8 a b e m h0 h1 h2 h3 h4 h5 h6 h7 h8).1]; exact ⟨rfl, rfl, rfl⟩
  · intro hc
    have ⟨h0, h1, h2, h3, h4, h5, h6, h7, h8, h9⟩ := (m4_relative_eq_false_9_consistent a b e m).1 hc
    rw [(Trace.C18OpsM.t_m4_relative_eq_false_9 a b e m h0 h1 h2 h3 h4 h5 h6 h7 h8 h9).1]; exact ⟨rfl, rfl, rfl⟩
  · intro hc
    have ⟨h0, h1, h2, h3, h4, h5, h6, h7, h8, h9, h10⟩ := (m4_relative_eq_false_10_consistent a b e m).1 hc
    rw [(Trace.C18OpsM.t_m4_relative_eq_false_10 a b e m h0 h1 h2 h3 h4 h5 h6 h7 h8 h9 h10).1]; exact ⟨rfl, rfl, rfl⟩
  · intro hc
    have ⟨h0, h1, h2, h3, h4, h5, h6, h7, h8, h9, h10, h11⟩ := (m4_relative_eq_false_11_consistent a b e m).1 hc
    rw [(Trace.C18OpsM.t_m4_relative_eq_false_11 a b e m h0 h1 h2 h3 h4 h5 h6 h7 h8 h9 h10 h11).1]; exact ⟨rfl, rfl, rfl⟩
  · intro hc
    have ⟨h0, h1, h2, h3, h4, h5, h6, h7, h8, h9, h10, h11, h12⟩ := (m4_relative_eq_false_12_consistent a b e m).1 hc
    rw [(Trace.C18OpsM.t_m4_relative_eq_false_12 a b e m h0 h1 h2 h3 h4 h5 h6 h7 h8 h9 h10 h11 h12).1]; exact ⟨rfl, rfl, rfl⟩
  · intro hc
    have ⟨h0, h1, h2, h3, h4, h5, h6, h7, h8, h9, h10, h11, h12, h13⟩ := (m4_relative_eq_false_13_consistent a b e m).1 hc
    rw [(Trace.C18OpsM.t_m4_relative_eq_false_13 a b e m h0 h1 h2 h3 h4 h5 h6 h7 h8 h9 h10 h11 h12 h13).1]; exact ⟨rfl, rfl, rfl⟩
  · intro hc
    have ⟨h0, h1, h2, h3, h4, h5, h6, h7, h8, h9, h10, h11, h12, h13, h14⟩ := (m4_relative_eq_false_14_consistent a b e m).1 hc
    rw [(Trace.C18OpsM.t_m4_relative_eq_false_14 a b e m h0 h1 h2 h3 h4 h5 h6 h7 h8 h9 h10 h11 h12 h13 h14).1]; exact ⟨rfl, rfl, rfl⟩
  · intro hc
    have ⟨h0, h1, h2, h3, h4, h5, h6, h7, h8, h9, h10, h11, h12, h13, h14, h15⟩ := (m4_relative_eq_false_15_consistent a b e m).1 hc
    rw [(Trace.C18OpsM.t_m4_relative_eq_false_15 a b e m h0 h1 h2 h3 h4 h5 h6 h7 h8 h9 h10 h11 h12 h13 h14 h15).1]; exact ⟨rfl, rfl, rfl⟩

/-! ### `m4.ulps_eq` -/
/-- this path is the one taken iff every component pair is within tolerance -/
theorem m4_ulps_eq_true_consistent (a b : M4 K) (e : K) :
    (t_m4_ulps_eq_true (envL (a.toList ++ b.toList ++ [e]))).Consistent ↔ Approx.ulpsEq a.x.x b.x.x e 4 = true ∧ Approx.ulpsEq a.x.y b.x.y e 4 = true ∧ Approx.ulpsEq a.x.z b.x.z e 4 = true ∧ Approx.ulpsEq a.x.w b.x.w e 4 = true ∧ Approx.ulpsEq a.y.x b.y.x e 4 = true ∧ Approx.ulpsEq a.y.y b.y.y e 4 = true ∧ Approx.ulpsEq a.y.z b.y.z e 4 = true ∧ Approx.ulpsEq a.y.w b.y.w e 4 = true ∧ Approx.ulpsEq a.z.x b.z.x e 4 = true ∧ Approx.ulpsEq a.z.y b.z.y e 4 = true ∧ Approx.ulpsEq a.z.z b.z.z e 4 = true ∧ Approx.ulpsEq a.z.w b.z.w e 4 = true ∧ Approx.ulpsEq a.w.x b.w.x e 4 = true ∧ Approx.ulpsEq a.w.y b.w.y e 4 = true ∧ Approx.ulpsEq a.w.z b.w.z e 4 = true ∧ Approx.ulpsEq a.w.w b.w.w e 4 = true := by
  simp [Tr.Consistent, envL, M4.toList, V4.toList]
/-- this path is the one taken iff component pair `0` is the first that is not within tolerance -/
theorem m4_ulps_eq_false_0_consistent (a b : M4 K) (e : K) :
    (t_m4_ulps_eq_false_0 (envL (a.toList ++ b.toList ++ [e]))).Consistent ↔ Approx.ulpsEq a.x.x b.x.x e 4 = false := by
  simp [Tr.Consistent, envL, M4.toList, V4.toList]
/-- this path is the one taken iff component pair `1` is the first that is not within tolerance -/
theorem m4_ulps_eq_false_1_consistent (a b : M4 K) (e : K) :
    (t_m4_ulps_eq_false_1 (envL (a.toList ++ b.toList ++ [e]))).Consistent ↔ Approx.ulpsEq a.x.x b.x.x e 4 = true ∧ Approx.ulpsEq a.x.y b.x.y e 4 = false := by
  simp [Tr.Consistent, envL, M4.toList, V4.toList]
/-- this path is the one taken iff component pair `2` is the first that is not within tolerance -/
theorem m4_ulps_eq_false_2_consistent (a b : M4 K) (e : K) :
    (t_m4_ulps_eq_false_2 (envL (a.toList ++ b.toList ++ [e]))).Consistent ↔ Approx.ulpsEq a.x.x b.x.x e 4 = true ∧ Approx.ulpsEq a.x.y b.x.y e 4 = true ∧ Approx.ulpsEq a.x.z b.x.z e 4 = false := by
  simp [Tr.Consistent, envL, M4.toList, V4.toList]
/-- this path is the one taken iff component pair `3` is the first that is not within tolerance -/
theorem m4_ulps_eq_false_3_consistent (a b : M4 K) (e : K) :
    (t_m4_ulps_eq_false_3 (envL (a.toList ++ b.toList ++ [e]))).Consistent ↔ Approx.ulpsEq a.x.x b.x.x e 4 = true ∧ Approx.ulpsEq a.x.y b.x.y e 4 = true ∧ Approx.ulpsEq a.x.z b.x.z e 4 = true ∧ Approx.ulpsEq a.x.w b.x.w e 4 = false := by
  simp [Tr.Consistent, envL, M4.toList, V4.toList]
/-- this path is the one taken iff component pair `4` is the first that is not within tolerance -/
theorem m4_ulps_eq_false_4_consistent (a b : M4 K) (e : K) :
    (t_m4_ulps_eq_false_4 (envL (a.toList ++ b.toList ++ [e]))).Consistent ↔ Approx.ulpsEq a.x.x b.x.x e 4 = true ∧ Approx.ulpsEq a.x.y b.x.y e 4 = true ∧ Approx.ulpsEq a.x.z b.x.z e 4 = true ∧ Approx.ulpsEq a.x.w b.x.w e 4 = true ∧ Approx.ulpsEq a.y.x b.y.x e 4 = false := by
  simp [Tr.Consistent, envL, M4.toList, V4.toList]
/-- this path is the one taken iff component pair `5` is the first that is not within tolerance -/
theorem m4_ulps_eq_false_5_consistent (a b : M4 K) (e : K) :
    (t_m4_ulps_eq_false_5 (envL (a.toList ++ b.toList ++ [e]))).Consistent ↔ Approx.ulpsEq a.x.x b.x.x e 4 = true ∧ Approx.ulpsEq a.x.y b.x.y e 4 = true ∧ Approx.ulpsEq a.x.z b.x.z e 4 = true ∧ Approx.ulpsEq a.x.w b.x.w e 4 = true ∧ Approx.ulpsEq a.y.x b.y.x e 4 = true ∧ Approx.ulpsEq a.y.y b.y.y e 4 = false := by
  simp [Tr.Consistent, envL, M4.toList, V4.toList]
/-- this path is the one taken iff component pair `6` is the first that is not within tolerance -/
theorem m4_ulps_eq_false_6_consistent (a b : M4 K) (e : K) :
    (t_m4_ulps_eq_false_6 (envL (a.toList ++ b.toList ++ [e]))).Consistent ↔ Approx.ulpsEq a.x.x b.x.x e 4 = true ∧ Approx.ulpsEq a.x.y b.x.y e 4 = true ∧ Approx.ulpsEq a.x.z b.x.z e 4 = true ∧ Approx.ulpsEq a.x.w b.x.w e 4 = true ∧ Approx.ulpsEq a.y.x b.y.x e 4 = true ∧ Approx.ulpsEq a.y.y b.y.y e 4 = true ∧ Approx.ulpsEq a.y.z b.y.z e 4 = false := by
  simp [Tr.Consistent, envL, M4.toList, V4.toList]
/-- this path is the one taken iff component pair `7` is the first that is not within tolerance -/
theorem m4_ulps_eq_false_7_consistent (a b : M4 K) (e : K) :
    (t_m4_ulps_eq_false_7 (envL (a.toList ++ b.toList ++ [e]))).Consistent ↔ Approx.ulpsEq a.x.x b.x.x e 4 = true ∧ Approx.ulpsEq a.x.y b.x.y e 4 = true ∧ Approx.ulpsEq a.x.z b.x.z e 4 = true ∧ Approx.ulpsEq a.x.w b.x.w e 4 = true ∧ Approx.ulpsEq a.y.x b.y.x e 4 = true ∧ Approx.ulpsEq a.y.y b.y.y e 4 = true ∧ Approx.ulpsEq a.y.z b.y.z e 4 = true ∧ Approx.ulpsEq a.y.w b.y.w e 4 = false := by
  simp [Tr.Consistent, envL, M4.toList, V4.toList]
/-- this path is the one taken iff component pair `8` is the first that is not within tolerance -/
theorem m4_ulps_eq_false_8_consistent (a b : M4 K) (e : K) :
    (t_m4_ulps_eq_false_8 (envL (a.toList ++ b.toList ++ [e]))).Consistent ↔ Approx.ulpsEq a.x.x b.x.x e 4 = true ∧ Approx.ulpsEq a.x.y b.x.y e 4 = true ∧ Approx.ulpsEq a.x.z b.x.z e 4 = true ∧ Approx.ulpsEq a.x.w b.x.w e 4 = true ∧ Approx.ulpsEq a.y.x b.y.x e 4 = true ∧ Approx.ulpsEq a.y.y b.y.y e 4 = true ∧ Approx.ulpsEq a.y.z b.y.z e 4 = true ∧ Approx.ulpsEq a.y.w b.y.w e 4 = true ∧ Approx.ulpsEq a.z.x b.z.x e 4 = false := by
  simp [Tr.Consistent, envL, M4.toList, V4.toList]
/-- this path is the one taken iff component pair `9` is the first that is not within tolerance -/
theorem m4_ulps_eq_false_9_consistent (a b : M4 K) (e : K) :
    (t_m4_ulps_eq_false_9 (envL (a.toList ++ b.toList ++ [e]))).Consistent ↔ Approx.ulpsEq a.x.x b.x.x e 4 = true ∧ Approx.ulpsEq a.x.y b.x.y e 4 = true ∧ Approx.ulpsEq a.x.z b.x.z e 4 = true ∧ Approx.ulpsEq a.x.w b.x.w e 4 = true ∧ Approx.ulpsEq a.y.x b.y.x e 4 = true ∧ Approx.ulpsEq a.y.y b.y.y e 4 = true ∧ Approx.ulpsEq a.y.z b.y.z e 4 = true ∧ Approx.ulpsEq a.y.w b.y.w e 4 = true ∧ Approx.ulpsEq a.z.x b.z.x e 4 = true ∧ Approx.ulpsEq a.z.y b.z.y e 4 = false := by
  simp [Tr.Consistent, envL, M4.toList, V4.toList]
/-- this path is the one taken iff component pair `10` is the first that is not within tolerance -/
theorem m4_ulps_eq_false_10_consistent (a b : M4 K) (e : K) :
    (t_m4_ulps_eq_false_10 (envL (a.toList ++ b.toList ++ [e]))).Consistent ↔ Approx.ulpsEq a.x.x b.x.x e 4 = true ∧ Approx.ulpsEq a.x.y b.x.y e 4 = true ∧ Approx.ulpsEq a.x.z b.x.z e 4 = true ∧ Approx.ulpsEq a.x.w b.x.w e 4 = true ∧ Approx.ulpsEq a.y.x b.y.x e 4 = true ∧ Approx.ulpsEq a.y.y b.y.y e 4 = true ∧ Approx.ulpsEq a.y.z b.y.z e 4 = true ∧ Approx.ulpsEq a.y.w b.y.w e 4 = true ∧ Approx.ulpsEq a.z.x b.z.x e 4 = true ∧ Approx.ulpsEq a.z.y b.z.y e 4 = true ∧ Approx.ulpsEq a.z.z b.z.z e 4 = false := by
  simp [Tr.Consistent, envL, M4.toList, V4.toList]
/-- this path is the one taken iff component pair `11` is the first that is not within tolerance -/
theorem m4_ulps_eq_false_11_consistent (a b : M4 K) (e : K) :
    (t_m4_ulps_eq_false_11 (envL (a.toList ++ b.toList ++ [e]))).Consistent ↔ Approx.ulpsEq a.x.x b.x.x e 4 = true ∧ Approx.ulpsEq a.x.y b.x.y e 4 = true ∧ Approx.ulpsEq a.x.z b.x.z e 4 = true ∧ Approx.ulpsEq a.x.w b.x.w e 4 = true ∧ Approx.ulpsEq a.y.x b.y.x e 4 = true ∧ Approx.ulpsEq a.y.y b.y.y e 4 = true ∧ Approx.ulpsEq a.y.z b.y.z e 4 = true ∧ Approx.ulpsEq a.y.w b.y.w e 4 = true ∧ Approx.ulpsEq a.z.x b.z.x e 4 = true ∧ Approx.ulpsEq a.z.y b.z.y e 4 = true ∧ Approx.ulpsEq a.z.z b.z.z e 4 = true ∧ Approx.ulpsEq a.z.w b.z.w e 4 = false := by
  simp [Tr.Consistent, envL, M4.toList, V4.toList]
/-- this path is the one taken iff component pair `12` is the first that is not within tolerance -/
theorem m4_ulps_eq_false_12_consistent (a b : M4 K) (e : K) :
    (t_m4_ulps_eq_false_12 (envL (a.toList ++ b.toList ++ [e]))).Consistent ↔ Approx.ulpsEq a.x.x b.x.x e 4 = true ∧ Approx.ulpsEq a.x.y b.x.y e 4 = true ∧ Approx.ulpsEq a.x.z b.x.z e 4 = true ∧ Approx.ulpsEq a.x.w b.x.w e 4 = true ∧ Approx.ulpsEq a.y.x b.y.x e 4 = true ∧ Approx.ulpsEq a.y.y b.y.y e 4 = true ∧ Approx.ulpsEq a.y.z b.y.z e 4 = true ∧ Approx.ulpsEq a.y.w b.y.w e 4 = true ∧ Approx.ulpsEq a.z.x b.z.x e 4 = true ∧ Approx.ulpsEq a.z.y b.z.y e 4 = true ∧ Approx.ulpsEq a.z.z b.z.z e 4 = true ∧ Approx.ulpsEq a.z.w b.z.w e 4 = true ∧ Approx.ulpsEq a.w.x b.w.x e 4 = false := by
  simp [Tr.Consistent, envL, M4.toList, V4.toList]
/-- this path is the one taken iff component pair `13` is the first that is not within tolerance -/
theorem m4_ulps_eq_false_13_consistent (a b : M4 K) (e : K) :
    (t_m4_ulps_eq_false_13 (envL (a.toList ++ b.toList ++ [e]))).Consistent ↔ Approx.ulpsEq a.x.x b.x.x e 4 = true ∧ Approx.ulpsEq a.x.y b.x.y e 4 = true ∧ Approx.ulpsEq a.x.z b.x.z e 4 = true ∧ Approx.ulpsEq a.x.w b.x.w e 4 = true ∧ Approx.ulpsEq a.y.x b.y.x e 4 = true ∧ Approx.ulpsEq a.y.y b.y.y e 4 = true ∧ Approx.ulpsEq a.y.z b.y.z e 4 = true ∧ Approx.ulpsEq a.y.w b.y.w e 4 = true ∧ Approx.ulpsEq a.z.x b.z.x e 4 = true ∧ Approx.ulpsEq a.z.y b.z.y e 4 = true ∧ Approx.ulpsEq a.z.z b.z.z e 4 = true ∧ Approx.ulpsEq a.z.w b.z.w e 4 = true ∧ Approx.ulpsEq a.w.x b.w.x e 4 = true ∧ Approx.ulpsEq a.w.y b.w.y e 4 = false := by
  simp [Tr.Consistent, envL, M4.toList, V4.toList]
/-- this path is the one taken iff component pair `14` is the first that is not within tolerance -/
theorem m4_ulps_eq_false_14_consistent (a b : M4 K) (e : K) :
    (t_m4_ulps_eq_false_14 (envL (a.toList ++ b.toList ++ [e]))).Consistent ↔ Approx.ulpsEq a.x.x b.x.x e 4 = true ∧ Approx.ulpsEq a.x.y b.x.y e 4 = true ∧ Approx.ulpsEq a.x.z b.x.z e 4 = true ∧ Approx.ulpsEq a.x.w b.x.w e 4 = true ∧ Approx.ulpsEq a.y.x b.y.x e 4 = true ∧ Approx.ulpsEq a.y.y b.y.y e 4 = true ∧ Approx.ulpsEq a.y.z b.y.z e 4 = true ∧ Approx.ulpsEq a.y.w b.y.w e 4 = true ∧ Approx.ulpsEq a.z.x b.z.x e 4 = true ∧ Approx.ulpsEq a.z.y b.z.y e 4 = true ∧ Approx.ulpsEq a.z.z b.z.z e 4 = true ∧ Approx.ulpsEq a.z.w b.z.w e 4 = true ∧ Approx.ulpsEq a.w.x b.w.x e 4 = true ∧ Approx.ulpsEq a.w.y b.w.y e 4 = true ∧ Approx.ulpsEq a.w.z b.w.z e 4 = false := by
  simp [Tr.Consistent, envL, M4.toList, V4.toList]
/-- this path is the one taken iff component pair `15` is the first that is not within tolerance -/
theorem m4_ulps_eq_false_15_consistent (a b : M4 K) (e : K) :
    (t_m4_ulps_eq_false_15 (envL (a.toList ++ b.toList ++ [e]))).Consistent ↔ Approx.ulpsEq a.x.x b.x.x e 4 = true ∧ Approx.ulpsEq a.x.y b.x.y e 4 = true ∧ Approx.ulpsEq a.x.z b.x.z e 4 = true ∧ Approx.ulpsEq a.x.w b.x.w e 4 = true ∧ Approx.ulpsEq a.y.x b.y.x e 4 = true ∧ Approx.ulpsEq a.y.y b.y.y e 4 = true ∧ Approx.ulpsEq a.y.z b.y.z e 4 = true ∧ Approx.ulpsEq a.y.w b.y.w e 4 = true ∧ Approx.ulpsEq a.z.x b.z.x e 4 = true ∧ Approx.ulpsEq a.z.y b.z.y e 4 = true ∧ Approx.ulpsEq a.z.z b.z.z e 4 = true ∧ Approx.ulpsEq a.z.w b.z.w e 4 = true ∧ Approx.ulpsEq a.w.x b.w.x e 4 = true ∧ Approx.ulpsEq a.w.y b.w.y e 4 = true ∧ Approx.ulpsEq a.w.z b.w.z e 4 = true ∧ Approx.ulpsEq a.w.w b.w.w e 4 = false := by
  simp [Tr.Consistent, envL, M4.toList, V4.toList]
/-- the traced paths of `m4.ulps_eq` on the input -/
def m4UlpsEq (a b : M4 K) (e : K) : List (Tr K) :=
    [t_m4_ulps_eq_true (envL (a.toList ++ b.toList ++ [e])), t_m4_ulps_eq_false_0 (envL (a.toList ++ b.toList ++ [e])), t_m4_ulps_eq_false_1 (envL (a.toList ++ b.toList ++ [e])), t_m4_ulps_eq_false_2 (envL (a.toList ++ b.toList ++ [e])), t_m4_ulps_eq_false_3 (envL (a.toList ++ b.toList ++ [e])), t_m4_ulps_eq_false_4 (envL (a.toList ++ b.toList ++ [e])), t_m4_ulps_eq_false_5 (envL (a.toList ++ b.toList ++ [e])), t_m4_ulps_eq_false_6 (envL (a.toList ++ b.toList ++ [e])), t_m4_ulps_eq_false_7 (envL (a.toList ++ b.toList ++ [e])), t_m4_ulps_eq_false_8 (envL (a.toList ++ b.toList ++ [e])), t_m4_ulps_eq_false_9 (envL (a.toList ++ b.toList ++ [e])), t_m4_ulps_eq_false_10 (envL (a.toList ++ b.toList ++ [e])), t_m4_ulps_eq_false_11 (envL (a.toList ++ b.toList ++ [e])), t_m4_ulps_eq_false_12 (envL (a.toList ++ b.toList ++ [e])), t_m4_ulps_eq_false_13 (envL (a.toList ++ b.toList ++ [e])), t_m4_ulps_eq_false_14 (envL (a.toList ++ b.toList ++ [e])), t_m4_ulps_eq_false_15 (envL (a.toList ++ b.toList ++ [e]))]
/-- for every input exactly one of the paths is the one taken -/
theorem m4_ulps_eq_exactly_one (a b : M4 K) (e : K) : Tr.ExactlyOne (m4UlpsEq a b e) := by
  unfold Tr.ExactlyOne m4UlpsEq
  simp only [List.pairwise_cons, List.mem_cons, List.not_mem_nil, or_false, forall_eq_or_imp, forall_eq, exists_eq_or_imp,
    exists_eq_left, List.Pairwise.nil, and_true, IsEmpty.forall_iff, implies_true, false_imp_iff, exists_false,
    m4_ulps_eq_true_consistent, m4_ulps_eq_false_0_consistent, m4_ulps_eq_false_1_consistent, m4_ulps_eq_false_2_consistent, m4_ulps_eq_false_3_consistent, m4_ulps_eq_false_4_consistent, m4_ulps_eq_false_5_consistent, m4_ulps_eq_false_6_consistent, m4_ulps_eq_false_7_consistent, m4_ulps_eq_false_8_consistent, m4_ulps_eq_false_9_consistent, m4_ulps_eq_false_10_consistent, m4_ulps_eq_false_11_consistent, m4_ulps_eq_false_12_consistent, m4_ulps_eq_false_13_consistent, m4_ulps_eq_false_14_consistent, m4_ulps_eq_false_15_consistent]
  generalize Approx.ulpsEq a.x.x b.x.x e 4 = r0
  generalize Approx.ulpsEq a.x.y b.x.y e 4 = r1
  generalize Approx.ulpsEq a.x.z b.x.z e 4 = r2
  generalize Approx.ulpsEq a.x.w b.x.w e 4 = r3
  generalize Approx.ulpsEq a.y.x b.y.x e 4 = r4
  generalize Approx.ulpsEq a.y.y b.y.y e 4 = r5
  generalize Approx.ulpsEq a.y.z b.y.z e 4 = r6
  generalize Approx.ulpsEq a.y.w b.y.w e 4 = r7
  generalize Approx.ulpsEq a.z.x b.z.x e 4 = r8
  generalize Approx.ulpsEq a.z.y b.z.y e 4 = r9
  generalize Approx.ulpsEq a.z.z b.z.z e 4 = r10
  generalize Approx.ulpsEq a.z.w b.z.w e 4 = r11
  generalize Approx.ulpsEq a.w.x b.w.x e 4 = r12
  generalize Approx.ulpsEq a.w.y b.w.y e 4 = r13
  generalize Approx.ulpsEq a.w.z b.w.z e 4 = r14
  generalize Approx.ulpsEq a.w.w b.w.w e 4 = r15
  cases r0
  · simp
  cases r1
  · simp
  cases r2
  · simp
  cases r3
  · simp
  cases r4
  · simp
  cases r5
  · simp
  cases r6
  · simp
  cases r7
  · simp
  cases r8
  · simp
  cases r9
  · simp
  cases r10
  · simp
  cases r11
  · simp
  cases r12
  · simp
  cases r13
  · simp
  cases r14
  · simp
  cases r15
  · simp
  simp
/-- **`m4.ulps_eq` as computed**: exactly one traced path is taken; the path taken returns normally one boolean, the model's
relation; and that is `true` iff the scalar relation WITH THE SAME TOLERANCE ARGUMENTS holds on every component pair -/
theorem code_m4_ulps_eq (a b : M4 K) (e : K) :
    Tr.ExactlyOne (m4UlpsEq a b e) ∧
    (∀ t ∈ m4UlpsEq a b e, t.Consistent → t.res = .ok ∧ t.out = [] ∧ t.bools = [M4.ulpsEq a b e 4]) ∧
    (M4.ulpsEq a b e 4 = true ↔ Approx.ulpsEq a.x.x b.x.x e 4 = true ∧ Approx.ulpsEq a.x.y b.x.y e 4 = true ∧ Approx.ulpsEq a.x.z b.x.z e 4 = true ∧ Approx.ulpsEq a.x.w b.x.w e 4 = true ∧ Approx.ulpsEq a.y.x b.y.x e 4 = true ∧ Approx.ulpsEq a.y.y b.y.y e 4 = true ∧ Approx.ulpsEq a.y.z b.y.z e 4 = true ∧ Approx.ulpsEq a.y.w b.y.w e 4 = true ∧ Approx.ulpsEq a.z.x b.z.x e 4 = true ∧ Approx.ulpsEq a.z.y b.z.y e 4 = true ∧ Approx.ulpsEq a.z.z b.z.z e 4 = true ∧ Approx.ulpsEq a.z.w b.z.w e 4 = true ∧ Approx.ulpsEq a.w.x b.w.x e 4 = true ∧ Approx.ulpsEq a.w.y b.w.y e 4 = true ∧ Approx.ulpsEq a.w.z b.w.z e 4 = true ∧ Approx.ulpsEq a.w.w b.w.w e 4 = true) := by
  refine ⟨m4_ulps_eq_exactly_one a b e, ?_, Cg.C18.M4.ulpsEq_iff_elems a b e 4⟩
  intro t ht
  simp only [m4UlpsEq, List.mem_cons, List.not_mem_nil, or_false] at ht
  rcases ht with rfl | rfl | rfl | rfl | rfl | rfl | rfl | rfl | rfl | rfl | rfl | rfl | rfl | rfl | rfl | rfl | rfl
  · intro hc
    have ⟨h0, h1, h2, h3, h4, h5, h6, h7, h8, h9, h10, h11, h12, h13, h14, h15⟩ := (m4_ulps_eq_true_consistent a b e).1 hc
    rw [(Trace.C18OpsM.t_m4_ulps_eq_true a b e h0 h1 h2 h3 h4 h5 h6 h7 h8 h9 h10 h11 h12 h13 h14 h15).1]; exact ⟨rfl, rfl, rfl⟩
  · intro hc
    have h0 := (m4_ulps_eq_false_0_consistent a b e).1 hc
    rw [(Trace.C18OpsM.t_m4_ulps_eq_false_0 a b e h0).1]; exact ⟨rfl, rfl, rfl⟩
  · intro hc
    have ⟨h0, h1⟩ := (m4_ulps_eq_false_1_consistent a b e).1 hc
    rw [(Trace.C18OpsM.t_m4_ulps_eq_false_1 a b e h0 h1).1]; exact ⟨rfl, rfl, rfl⟩
  · intro hc
    have ⟨h0, h1, h2⟩ := (m4_ulps_eq_false_2_consistent a b e).1 hc
    rw [(Trace.C18OpsM.t_m4_ulps_eq_false_2 a b e h0 h1 h2).1]; exact ⟨rfl, rfl, rfl⟩
  · intro hc
    have ⟨h0, h1, h2, h3⟩ := (m4_ulps_eq_false_3_consistent a b e).1 hc
    rw [(Trace.C18OpsM.t_m4_ulps_eq_false_3 a b e h0 h1 h2 h3).1]; exact ⟨rfl, rfl, rfl⟩
  · intro hc
    have ⟨h0, h1, h2, h3, h4⟩ := (m4_ulps_eq_false_4_consistent a b e).1 hc
    rw [(Trace.C18OpsM.t_m4_ulps_eq_false_4 a b e h0 h1 h2 h3 h4).1]; exact ⟨rfl, rfl, rfl⟩
  · intro hc
    have ⟨h0, h1, h2, h3, h4, h5⟩ := (m4_ulps_eq_false_5_consistent a b e).1 hc
    rw [(Trace.C18OpsM.t_m4_ulps_eq_false_5 a b e h0 h1 h2 h3 h4 h5).1]; exact ⟨rfl, rfl, rfl⟩
  · intro hc
    have ⟨h0, h1, h2, h3, h4, h5, h6⟩ := (m4_ulps_eq_false_6_consistent a b e).1 hc
    rw [(Trace.C18OpsM.t_m4_ulps_eq_false_6 a b e h0 h1 h2 h3 h4 h5 h6).1]; exact ⟨rfl, rfl, rfl⟩
  · intro hc
    have ⟨h0, h1, h2, h3, h4, h5, h6, h7⟩ := (m4_ulps_eq_false_7_consistent a b e).1 hc
    rw [(Trace.C18OpsM.t_m4_ulps_eq_false_7 a b e h0 h1 h2 h3 h4 h5 h6 h7).1]; exact ⟨rfl, rfl, rfl⟩
  · intro hc
    have ⟨h0, h1, h2, h3, h4, h5, h6, h7, h8⟩ := (m4_ulps_eq_false_8_consistent a b e).1 hc
    rw [(Trace.C18OpsM.t_m4_ulps_eq_false_8 a b e h0 h1 h2 h3 h4 h5 h6 h7 h8).1]; exact ⟨rfl, rfl, rfl⟩
  · intro hc
    have ⟨h0, h1, h2, h3, h4, h5, h6, h7, h8, h9⟩ := (m4_ulps_eq_false_9_consistent a b e).1 hc
    rw [(Trace.C18OpsM.t_m4_ulps_eq_false_9 a b e h0 h1 h2 h3 h4 h5 h6 h7 h8 h9).1]; exact ⟨rfl, rfl, rfl⟩
  · intro hc
    have ⟨h0, h1, h2, h3, h4, h5, h6, h7, h8, h9, h10⟩ := (m4_ulps_eq_false_10_consistent a b e).1 hc
    rw [(Trace.C18OpsM.t_m4_ulps_eq_false_10 a b e h0 h1 h2 h3 h4 h5 h6 h7 h8 h9 h10).1]; exact ⟨rfl, rfl, rfl⟩
  · intro hc
    have ⟨h0, h1, h2, h3, h4, h5, h6, h7, h8, h9, h10, h11⟩ := (m4_ulps_eq_false_11_consistent a b e).1 hc
    rw [(Trace.C18OpsM.t_m4_ulps_eq_false_11 a b e h0 h1 h2 h3 h4 h5 h6 h7 h8 h9 h10 h11).1]; exact ⟨rfl, rfl, rfl⟩
  · intro hc
    have ⟨h0, h1, h2, h3, h4, h5, h6, h7, h8, h9, h10, h11, h12⟩ := (m4_ulps_eq_false_12_consistent a b e).1 hc
    rw [(Trace.C18OpsM.t_m4_ulps_eq_false_12 a b e h0 h1 h2 h3 h4 h5 h6 h7 h8 h9 h10 h11 h12).1]; exact ⟨rfl, rfl, rfl⟩
  · intro hc
    have ⟨h0, h1, h2, h3, h4, h5, h6, h7, h8, h9, h10, h11, h12, h13⟩ := (m4_ulps_eq_false_13_consistent a b e).1 hc
    rw [(Trace.C18OpsM.t_m4_ulps_eq_false_13 a b e h0 h1 h2 h3 h4 h5 h6 h7 h8 h9 h10 h11 h12 h13).1]; exact ⟨rfl, rfl, rfl⟩
  · intro hc
    have ⟨h0, h1, h2, h3, h4, h5, h6, h7, h8, h9, h10, h11, h12, h13, h14⟩ := (m4_ulps_eq_false_14_consistent a b e).1 hc
    rw [(Trace.C18OpsM.t_m4_ulps_eq_false_14 a b e h0 h1 h2 h3 h4 h5 h6 h7 h8 h9 h10 h11 h12 h13 h14).1]; exact ⟨rfl, rfl, rfl⟩
  · intro hc
    have ⟨h0, h1, h2, h3, h4, h5, h6, h7, h8, h9, h10, h11, h12, h13, h14, h15⟩ := (m4_ulps_eq_false_15_consistent a b e).1 hc
    rw [(Trace.C18OpsM.t_m4_ulps_eq_false_15 a b e h0 h1 h2 h3 h4 h5 h6 h7 h8 h9 h10 h11 h12 h13 h14 h15).1]; exact ⟨rfl, rfl, rfl⟩

/-! ### `q.abs_diff_eq` -/
/-- this path is the one taken iff every component pair is within tolerance -/
theorem q_abs_diff_eq_true_consistent (a b : Quat K) (e : K) :
    (t_q_abs_diff_eq_true (envL (a.toList ++ b.toList ++ [e]))).Consistent ↔ Approx.absDiffEq a.s b.s e = true ∧ Approx.absDiffEq a.v.x b.v.x e = true ∧ Approx.absDiffEq a.v.y b.v.y e = true ∧ Approx.absDiffEq a.v.z b.v.z e = true := by
  simp [Tr.Consistent, envL, Quat.toList, V3.toList]
/-- this path is the one taken iff component pair `0` is the first that is not within tolerance -/
theorem q_abs_diff_eq_false_0_consistent (a b : Quat K) (e : K) :
    (t_q_abs_diff_eq_false_0 (envL (a.toList ++ b.toList ++ [e]))).Consistent ↔ Approx.absDiffEq a.s b.s e = false := by
  simp [Tr.Consistent, envL, Quat.toList, V3.toList]
/-- this path is the one taken iff component pair `1` is the first that is not within tolerance -/
theorem q_abs_diff_eq_false_1_consistent (a b : Quat K) (e : K) :
    (t_q_abs_diff_eq_false_1 (envL (a.toList ++ b.toList ++ [e]))).Consistent ↔ Approx.absDiffEq a.s b.s e = true ∧ Approx.absDiffEq a.v.x b.v.x e = false := by
  simp [Tr.Consistent, envL, Quat.toList, V3.toList]
/-- this path is the one taken iff component pair `2` is the first that is not within tolerance -/
theorem q_abs_diff_eq_false_2_consistent (a b : Quat K) (e : K) :
    (t_q_abs_diff_eq_false_2 (envL (a.toList ++ b.toList ++ [e]))).Consistent ↔ Approx.absDiffEq a.s b.s e = true ∧ Approx.absDiffEq a.v.x b.v.x e = true ∧ Approx.absDiffEq a.v.y b.v.y e = false := by
  simp [Tr.Consistent, envL, Quat.toList, V3.toList]
/-- this path is the one taken iff component pair `3` is the first that is not within tolerance -/
theorem q_abs_diff_eq_false_3_consistent (a b : Quat K) (e : K) :
    (t_q_abs_diff_eq_false_3 (envL (a.toList ++ b.toList ++ [e]))).Consistent ↔ Approx.absDiffEq a.s b.s e = true ∧ Approx.absDiffEq a.v.x b.v.x e = true ∧ Approx.absDiffEq a.v.y b.v.y e = true ∧ Approx.absDiffEq a.v.z b.v.z e = false := by
  simp [Tr.Consistent, envL, Quat.toList, V3.toList]
/-- the traced paths of `q.abs_diff_eq` on the input -/
def qAbsDiffEq (a b : Quat K) (e : K) : List (Tr K) :=
    [t_q_abs_diff_eq_true (envL (a.toList ++ b.toList ++ [e])), t_q_abs_diff_eq_false_0 (envL (a.toList ++ b.toList ++ [e])), t_q_abs_diff_eq_false_1 (envL (a.toList ++ b.toList ++ [e])), t_q_abs_diff_eq_false_2 (envL (a.toList ++ b.toList ++ [e])), t_q_abs_diff_eq_false_3 (envL (a.toList ++ b.toList ++ [e]))]
/-- for every input exactly one of the paths is the one taken -/
theorem q_abs_diff_eq_exactly_one (a b : Quat K) (e : K) : Tr.ExactlyOne (qAbsDiffEq a b e) := by
  unfold Tr.ExactlyOne qAbsDiffEq
  simp only [List.pairwise_cons, List.mem_cons, List.not_mem_nil, or_false, forall_eq_or_imp, forall_eq, exists_eq_or_imp,
    exists_eq_left, List.Pairwise.nil, and_true, IsEmpty.forall_iff, implies_true, false_imp_iff, exists_false,
    q_abs_diff_eq_true_consistent, q_abs_diff_eq_false_0_consistent, q_abs_diff_eq_false_1_consistent, q_abs_diff_eq_false_2_consistent, q_abs_diff_eq_false_3_consistent]
  generalize Approx.absDiffEq a.s b.s e = r0
  generalize Approx.absDiffEq a.v.x b.v.x e = r1
  generalize Approx.absDiffEq a.v.y b.v.y e = r2
  generalize Approx.absDiffEq a.v.z b.v.z e = r3
  cases r0
  · simp
  cases r1
  · simp
  cases r2
  · simp
  cases r3
  · simp
  simp
/-- **`q.abs_diff_eq` as computed**: exactly one traced path is taken; the path taken returns normally one boolean, the model's
relation; and that is `true` iff the scalar relation WITH THE SAME TOLERANCE ARGUMENTS holds on every component pair -/
theorem code_q_abs_diff_eq (a b : Quat K) (e : K) :
    Tr.ExactlyOne (qAbsDiffEq a b e) ∧
    (∀ t ∈ qAbsDiffEq a b e, t.Consistent → t.res = .ok ∧ t.out = [] ∧ t.bools = [Quat.absDiffEq a b e]) ∧
    (Quat.absDiffEq a b e = true ↔ Approx.absDiffEq a.s b.s e = true ∧ Approx.absDiffEq a.v.x b.v.x e = true ∧ Approx.absDiffEq a.v.y b.v.y e = true ∧ Approx.absDiffEq a.v.z b.v.z e = true) := by
  refine ⟨q_abs_diff_eq_exactly_one a b e, ?_, Cg.C18.Quat.absDiffEq_iff a b e⟩
  intro t ht
  simp only [qAbsDiffEq, List.mem_cons, List.not_mem_nil, or_false] at ht
  rcases ht with rfl | rfl | rfl | rfl | rfl
  · intro hc
    have ⟨h0, h1, h2, h3⟩ := (q_abs_diff_eq_true_consistent a b e).1 hc
    rw [(Trace.C18Ops.t_q_abs_diff_eq_true a b e h0 h1 h2 h3).1]; exact ⟨rfl, rfl, rfl⟩
  · intro hc
    have h0 := (q_abs_diff_eq_false_0_consistent a b e).1 hc
    rw [(Trace.C18Ops.t_q_abs_diff_eq_false_0 a b e h0).1]; exact ⟨rfl, rfl, rfl⟩
  · intro hc
    have ⟨h0, h1⟩ := (q_abs_diff_eq_false_1_consistent a b e).1 hc
    rw [(Trace.C18Ops.t_q_abs_diff_eq_false_1 a b e h0 h1).1]; exact ⟨rfl, rfl, rfl⟩
  · intro hc
    have ⟨h0, h1, h2⟩ := (q_abs_diff_eq_false_2_consistent a b e).1 hc
    rw [(Trace.C18Ops.t_q_abs_diff_eq_false_2 a b e h0 h1 h2).1]; exact ⟨rfl, rfl, rfl⟩
  · intro hc
    have ⟨h0, h1, h2, h3⟩ := (q_abs_diff_eq_false_3_consistent a b e).1 hc
    rw [(Trace.C18Ops.t_q_abs_diff_eq_false_3 a b e h0 h1 h2 h3).1]; exact ⟨rfl, rfl, rfl⟩

/-! ### `q.relative_eq` -/
/-- this path is the one taken iff every component pair is within tolerance -/
theorem q_relative_eq_true_consistent (a b : Quat K) (e m : K) :
    (t_q_relative_eq_true (envL (a.toList ++ b.toList ++ [e, m]))).Consistent ↔ Approx.relEq a.s b.s e m = true ∧ Approx.relEq a.v.x b.v.x e m = true ∧ Approx.relEq a.v.y b.v.y e m = true ∧ Approx.relEq a.v.z b.v.z e m = true := by
  simp [Tr.Consistent, envL, Quat.toList, V3.toList]
/-- this path is the one taken iff component pair `0` is the first that is not within tolerance -/
theorem q_relative_eq_false_0_consistent (a b : Quat K) (e m : K) :
    (t_q_relative_eq_false_0 (envL (a.toList ++ b.toList ++ [e, m]))).Consistent ↔ Approx.relEq a.s b.s e m = false := by
  simp [Tr.Consistent, envL, Quat.toList, V3.toList]
/-- this path is the one taken iff component pair `1` is the first that is not within tolerance -/
theorem q_relative_eq_false_1_consistent (a b : Quat K) (e m : K) :
    (t_q_relative_eq_false_1 (envL (a.toList ++ b.toList ++ [e, m]))).Consistent ↔ Approx.relEq a.s b.s e m = true ∧ Approx.relEq a.v.x b.v.x e m = false := by
  simp [Tr.Consistent, envL, Quat.toList, V3.toList]
/-- this path is the one taken iff component pair `2` is the first that is not within tolerance -/
theorem q_relative_eq_false_2_consistent (a b : Quat K) (e m : K) :
    (t_q_relative_eq_false_2 (envL (a.toList ++ b.toList ++ [e, m]))).Consistent ↔ Approx.relEq a.s b.s e m = true ∧ Approx.relEq a.v.x b.v.x e m = true ∧ Approx.relEq a.v.y b.v.y e m = false := by
  simp [Tr.Consistent, envL, Quat.toList, V3.toList]
/-- this path is the one taken iff component pair `3` is the first that is not within tolerance -/
theorem q_relative_eq_false_3_consistent (a b : Quat K) (e m : K) :
    (t_q_relative_eq_false_3 (envL (a.toList ++ b.toList ++ [e, m]))).Consistent ↔ Approx.relEq a.s b.s e m = true ∧ Approx.relEq a.v.x b.v.x e m = true ∧ Approx.relEq a.v.y b.v.y e m = true ∧ Approx.relEq a.v.z b.v.z e m = false := by
  simp [Tr.Consistent, envL, Quat.toList, V3.toList]
/-- the traced paths of `q.relative_eq` on the input -/
def qRelEq (a b : Quat K) (e m : K) : List (Tr K) :=
    [t_q_relative_eq_true (envL (a.toList ++ b.toList ++ [e, m])), t_q_relative_eq_false_0 (envL (a.toList ++ b.toList ++ [e, m])), t_q_relative_eq_false_1 (envL (a.toList ++ b.toList ++ [e, m])), t_q_relative_eq_false_2 (envL (a.toList ++ b.toList ++ [e, m])), t_q_relative_eq_false_3 (envL (a.toList ++ b.toList ++ [e, m]))]
/-- for every input exactly one of the paths is the one taken -/
theorem q_relative_eq_exactly_one (a b : Quat K) (e m : K) : Tr.ExactlyOne (qRelEq a b e m) := by
  unfold Tr.ExactlyOne qRelEq
  simp only [List.pairwise_cons, List.mem_cons, List.not_mem_nil, or_false, forall_eq_or_imp, forall_eq, exists_eq_or_imp,
    exists_eq_left, List.Pairwise.nil, and_true, IsEmpty.forall_iff, implies_true, false_imp_iff, exists_false,
    q_relative_eq_true_consistent, q_relative_eq_false_0_consistent, q_relative_eq_false_1_consistent, q_relative_eq_false_2_consistent, q_relative_eq_false_3_consistent]
  generalize Approx.relEq a.s b.s e m = r0
  generalize Approx.relEq a.v.x b.v.x e m = r1
  generalize Approx.relEq a.v.y b.v.y e m = r2
  generalize Approx.relEq a.v.z b.v.z e m = r3
  cases r0
  · simp
  cases r1
  · simp
  cases r2
  · simp
  cases r3
  · simp
  simp
/-- **`q.relative_eq` as computed**: exactly one traced path is taken; the path taken returns normally one boolean, the model's
relation; and that is `true` iff the scalar relation WITH THE SAME TOLERANCE ARGUMENTS holds on every component pair -/
theorem code_q_relative_eq (a b : Quat K) (e m : K) :
    Tr.ExactlyOne (qRelEq a b e m) ∧
    (∀ t ∈ qRelEq a b e m, t.Consistent → t.res = .ok ∧ t.out = [] ∧ t.bools = [Quat.relEq a b e m]) ∧
    (Quat.relEq a b e m = true ↔ Approx.relEq a.s b.s e m = true ∧ Approx.relEq a.v.x b.v.x e m = true ∧ Approx.relEq a.v.y b.v.y e m = true ∧ Approx.relEq a.v.z b.v.z e m = true) := by
  refine ⟨q_relative_eq_exactly_one a b e m, ?_, Cg.C18.Quat.relEq_iff a b e m⟩
  intro t ht
  simp only [qRelEq, List.mem_cons, List.not_mem_nil, or_false] at ht
  rcases ht with rfl | rfl | rfl | rfl | rfl
  · intro hc
    have ⟨h0, h1, h2, h3⟩ := (q_relative_eq_true_consistent a b e m).1 hc
    rw [(Trace.C18Ops.t_q_relative_eq_true a b e m h0 h1 h2 h3).1]; exact ⟨rfl, rfl, rfl⟩
  · intro hc
    have h0 := (q_relative_eq_false_0_consistent a b e m).1 hc
    rw [(Trace.C18Ops.t_q_relative_eq_false_0 a b e m h0).1]; exact ⟨rfl, rfl, rfl⟩
  · intro hc
    have ⟨h0, h1⟩ := (q_relative_eq_false_1_consistent a b e m).1 hc
    rw [(Trace.C18Ops.t_q_relative_eq_false_1 a b e m h0 h1).1]; exact ⟨rfl, rfl, rfl⟩
  · intro hc
    have ⟨h0, h1, h2⟩ := (q_relative_eq_false_2_consistent a b e m).1 hc
    rw [(Trace.C18Ops.t_q_relative_eq_false_2 a b e m h0 h1 h2).1]; exact ⟨rfl, rfl, rfl⟩
  · intro hc
    have ⟨h0, h1, h2, h3⟩ := (q_relative_eq_false_3_consistent a b e m).1 hc
    rw [(Trace.C18Ops.t_q_relative_eq_false_3 a b e m h0 h1 h2 h3).1]; exact ⟨rfl, rfl, rfl⟩

/-! ### `q.ulps_eq` -/
/-- this path is the one taken iff every component pair is within tolerance -/
theorem q_ulps_eq_true_consistent (a b : Quat K) (e : K) :
    (t_q_ulps_eq_true (envL (a.toList ++ b.toList ++ [e]))).Consistent ↔ Approx.ulpsEq a.s b.s e 4 = true ∧ Approx.ulpsEq a.v.x b.v.x e 4 = true ∧ Approx.ulpsEq a.v.y b.v.y e 4 = true ∧ Approx.ulpsEq a.v.z b.v.z e 4 = true := by
  simp [Tr.Consistent, envL, Quat.toList, V3.toList]
/-- this path is the one taken iff component pair `0` is the first that is not within tolerance -/
theorem q_ulps_eq_false_0_consistent (a b : Quat K) (e : K) :
    (t_q_ulps_eq_false_0 (envL (a.toList ++ b.toList ++ [e]))).Consistent ↔ Approx.ulpsEq a.s b.s e 4 = false := by
  simp [Tr.Consistent, envL, Quat.toList, V3.toList]
/-- this path is the one taken iff component pair `1` is the first that is not within tolerance -/
theorem q_ulps_eq_false_1_consistent (a b : Quat K) (e : K) :
    (t_q_ulps_eq_false_1 (envL (a.toList ++ b.toList ++ [e]))).Consistent ↔ Approx.ulpsEq a.s b.s e 4 = true ∧ Approx.ulpsEq a.v.x b.v.x e 4 = false := by
  simp [Tr.Consistent, envL, Quat.toList, V3.toList]
/-- this path is the one taken iff component pair `2` is the first that is not within tolerance -/
theorem q_ulps_eq_false_2_consistent (a b : Quat K) (e : K) :
    (t_q_ulps_eq_false_2 (envL (a.toList ++ b.toList ++ [e]))).Consistent ↔ Approx.ulpsEq a.s b.s e 4 = true ∧ Approx.ulpsEq a.v.x b.v.x e 4 = true ∧ Approx.ulpsEq a.v.y b.v.y e 4 = false := by
  simp [Tr.Consistent, envL, Quat.toList, V3.toList]
/-- this path is the one taken iff component pair `3` is the first that is not within tolerance -/
theorem q_ulps_eq_false_3_consistent (a b : Quat K) (e : K) :
    (t_q_ulps_eq_false_3 (envL (a.toList ++ b.toList ++ [e]))).Consistent ↔ Approx.ulpsEq a.s b.s e 4 = true ∧ Approx.ulpsEq a.v.x b.v.x e 4 = true ∧ Approx.ulpsEq a.v.y b.v.y e 4 = true ∧ Approx.ulpsEq a.v.z b.v.z e 4 = false := by
  simp [Tr.Consistent, envL, Quat.toList, V3.toList]
/-- the traced paths of `q.ulps_eq` on the input -/
def qUlpsEq (a b : Quat K) (e : K) : List (Tr K) :=
    [t_q_ulps_eq_true (envL (a.toList ++ b.toList ++ [e])), t_q_ulps_eq_false_0 (envL (a.toList ++ b.toList ++ [e])), t_q_ulps_eq_false_1 (envL (a.toList ++ b.toList ++ [e])), t_q_ulps_eq_false_2 (envL (a.toList ++ b.toList ++ [e])), t_q_ulps_eq_false_3 (envL (a.toList ++ b.toList ++ [e]))]
/-- for every input exactly one of the paths is the one taken -/
theorem q_ulps_eq_exactly_one (a b : Quat K) (e : K) : Tr.ExactlyOne (qUlpsEq a b e) := by
  unfold Tr.ExactlyOne qUlpsEq
  simp only [List.pairwise_cons, List.mem_cons, List.not_mem_nil, or_false, forall_eq_or_imp, forall_eq, exists_eq_or_imp,
    exists_eq_left, List.Pairwise.nil, and_true, IsEmpty.forall_iff, implies_true, false_imp_iff, exists_false,
    q_ulps_eq_true_consistent, q_ulps_eq_false_0_consistent, q_ulps_eq_false_1_consistent, q_ulps_eq_false_2_consistent, q_ulps_eq_false_3_consistent]
  generalize Approx.ulpsEq a.s b.s e 4 = r0
  generalize Approx.ulpsEq a.v.x b.v.x e 4 = r1
  generalize Approx.ulpsEq a.v.y b.v.y e 4 = r2
  generalize Approx.ulpsEq a.v.z b.v.z e 4 = r3
  cases r0
  · simp
  cases r1
  · simp
  cases r2
  · simp
  cases r3
  · simp
  simp
/-- **`q.ulps_eq` as computed**: exactly one traced path is taken; the path taken returns normally one boolean, the model's
relation; and that is `true` iff the scalar relation WITH THE SAME TOLERANCE ARGUMENTS holds on every component pair -/
theorem code_q_ulps_eq (a b : Quat K) (e : K) :
    Tr.ExactlyOne (qUlpsEq a b e) ∧
    (∀ t ∈ qUlpsEq a b e, t.Consistent → t.res = .ok ∧ t.out = [] ∧ t.bools = [Quat.ulpsEq a b e 4]) ∧
    (Quat.ulpsEq a b e 4 = true ↔ Approx.ulpsEq a.s b.s e 4 = true ∧ Approx.ulpsEq a.v.x b.v.x e 4 = true ∧ Approx.ulpsEq a.v.y b.v.y e 4 = true ∧ Approx.ulpsEq a.v.z b.v.z e 4 = true) := by
  refine ⟨q_ulps_eq_exactly_one a b e, ?_, Cg.C18.Quat.ulpsEq_iff a b e 4⟩
  intro t ht
  simp only [qUlpsEq, List.mem_cons, List.not_mem_nil, or_false] at ht
  rcases ht with rfl | rfl | rfl | rfl | rfl
  · intro hc
    have ⟨h0, h1, h2, h3⟩ := (q_ulps_eq_true_consistent a b e).1 hc
    rw [(Trace.C18Ops.t_q_ulps_eq_true a b e h0 h1 h2 h3).1]; exact ⟨rfl, rfl, rfl⟩
  · intro hc
    have h0 := (q_ulps_eq_false_0_consistent a b e).1 hc
    rw [(Trace.C18Ops.t_q_ulps_eq_false_0 a b e h0).1]; exact ⟨rfl, rfl, rfl⟩
  · intro hc
    have ⟨h0, h1⟩ := (q_ulps_eq_false_1_consistent a b e).1 hc
    rw [(Trace.C18Ops.t_q_ulps_eq_false_1 a b e h0 h1).1]; exact ⟨rfl, rfl, rfl⟩
  · intro hc
    have ⟨h0, h1, h2⟩ := (q_ulps_eq_false_2_consistent a b e).1 hc
    rw [(Trace.C18Ops.t_q_ulps_eq_false_2 a b e h0 h1 h2).1]; exact ⟨rfl, rfl, rfl⟩
  · intro hc
    have ⟨h0, h1, h2, h3⟩ := (q_ulps_eq_false_3_consistent a b e).1 hc
    rw [(Trace.C18Ops.t_q_ulps_eq_false_3 a b e h0 h1 h2 h3).1]; exact ⟨rfl, rfl, rfl⟩

/-! ### `rad.abs_diff_eq` -/
/-- this path is the one taken iff every component pair is within tolerance -/
theorem rad_abs_diff_eq_true_consistent (a b : K) (e : K) :
    (t_rad_abs_diff_eq_true (envL ([a, b, e]))).Consistent ↔ Approx.absDiffEq a b e = true := by
  simp [Tr.Consistent, envL]
/-- this path is the one taken iff component pair `0` is the first that is not within tolerance -/
theorem rad_abs_diff_eq_false_0_consistent (a b : K) (e : K) :
    (t_rad_abs_diff_eq_false_0 (envL ([a, b, e]))).Consistent ↔ Approx.absDiffEq a b e = false := by
  simp [Tr.Consistent, envL]
/-- the traced paths of `rad.abs_diff_eq` on the input -/
def radAbsDiffEq (a b : K) (e : K) : List (Tr K) :=
    [t_rad_abs_diff_eq_true (envL ([a, b, e])), t_rad_abs_diff_eq_false_0 (envL ([a, b, e]))]
/-- for every input exactly one of the paths is the one taken -/
theorem rad_abs_diff_eq_exactly_one (a b : K) (e : K) : Tr.ExactlyOne (radAbsDiffEq a b e) := by
  unfold Tr.ExactlyOne radAbsDiffEq
  simp only [List.pairwise_cons, List.mem_cons, List.not_mem_nil, or_false, forall_eq_or_imp, forall_eq, exists_eq_or_imp,
    exists_eq_left, List.Pairwise.nil, and_true, IsEmpty.forall_iff, implies_true, false_imp_iff, exists_false,
    rad_abs_diff_eq_true_consistent, rad_abs_diff_eq_false_0_consistent]
  generalize Approx.absDiffEq a b e = r0
  cases r0
  · simp
  simp
/-- **`rad.abs_diff_eq` as computed**: exactly one traced path is taken; the path taken returns normally one boolean, the model's
relation; and that is `true` iff the scalar relation WITH THE SAME TOLERANCE ARGUMENTS holds on every component pair -/
theorem code_rad_abs_diff_eq (a b : K) (e : K) :
    Tr.ExactlyOne (radAbsDiffEq a b e) ∧
    (∀ t ∈ radAbsDiffEq a b e, t.Consistent → t.res = .ok ∧ t.out = [] ∧ t.bools = [angleAbsDiffEq a b e]) ∧
    (angleAbsDiffEq a b e = true ↔ Approx.absDiffEq a b e = true) := by
  refine ⟨rad_abs_diff_eq_exactly_one a b e, ?_, Cg.C18.angleAbsDiffEq_iff a b e⟩
  intro t ht
  simp only [radAbsDiffEq, List.mem_cons, List.not_mem_nil, or_false] at ht
  rcases ht with rfl | rfl
  · intro hc
    have h0 := (rad_abs_diff_eq_true_consistent a b e).1 hc
    rw [(Trace.C18Ops.t_rad_abs_diff_eq_true a b e h0).1]; exact ⟨rfl, rfl, rfl⟩
  · intro hc
    have h0 := (rad_abs_diff_eq_false_0_consistent a b e).1 hc
    rw [(Trace.C18Ops.t_rad_abs_diff_eq_false_0 a b e h0).1]; exact ⟨rfl, rfl, rfl⟩

/-! ### `rad.relative_eq` -/
/-- this path is the one taken iff every component pair is within tolerance -/
theorem rad_relative_eq_true_consistent (a b : K) (e m : K) :
    (t_rad_relative_eq_true (envL ([a, b, e, m]))).Consistent ↔ Approx.relEq a b e m = true := by
  simp [Tr.Consistent, envL]
/-- this path is the one taken iff component pair `0` is the first that is not within tolerance -/
theorem rad_relative_eq_false_0_consistent (a b : K) (e m : K) :
    (t_rad_relative_eq_false_0 (envL ([a, b, e, m]))).Consistent ↔ Approx.relEq a b e m = false := by
  simp [Tr.Consistent, envL]
/-- the traced paths of `rad.relative_eq` on the input -/
def radRelEq (a b : K) (e m : K) : List (Tr K) :=
    [t_rad_relative_eq_true (envL ([a, b, e, m])), t_rad_relative_eq_false_0 (envL ([a, b, e, m]))]
/-- for every input exactly one of the paths is the one taken -/
theorem rad_relative_eq_exactly_one (a b : K) (e m : K) : Tr.ExactlyOne (radRelEq a b e m) := by
  unfold Tr.ExactlyOne radRelEq
  simp only [List.pairwise_cons, List.mem_cons, List.not_mem_nil, or_false, forall_eq_or_imp, forall_eq, exists_eq_or_imp,
    exists_eq_left, List.Pairwise.nil, and_true, IsEmpty.forall_iff, implies_true, false_imp_iff, exists_false,
    rad_relative_eq_true_consistent, rad_relative_eq_false_0_consistent]
  generalize Approx.relEq a b e m = r0
  cases r0
  · simp
  simp
/-- **`rad.relative_eq` as computed**: exactly one traced path is taken; the path taken returns normally one boolean, the model's
relation; and that is `true` iff the scalar relation WITH THE SAME TOLERANCE ARGUMENTS holds on every component pair -/
theorem code_rad_relative_eq (a b : K) (e m : K) :
    Tr.ExactlyOne (radRelEq a b e m) ∧
    (∀ t ∈ radRelEq a b e m, t.Consistent → t.res = .ok ∧ t.out = [] ∧ t.bools = [angleRelEq a b e m]) ∧
    (angleRelEq a b e m = true ↔ Approx.relEq a b e m = true) := by
  refine ⟨rad_relative_eq_exactly_one a b e m, ?_, Cg.C18.angleRelEq_iff a b e m⟩
  intro t ht
  simp only [radRelEq, List.mem_cons, List.not_mem_nil, or_false] at ht
  rcases ht with rfl | rfl
  · intro hc
    have h0 := (rad_relative_eq_true_consistent a b e m).1 hc
    rw [(Trace.C18Ops.t_rad_relative_eq_true a b e m h0).1]; exact ⟨rfl, rfl, rfl⟩
  · intro hc
    have h0 := (rad_relative_eq_false_0_consistent a b e m).1 hc
    rw [(Trace.C18Ops.t_rad_relative_eq_false_0 a b e m h0).1]; exact ⟨rfl, rfl, rfl⟩

/-! ### `rad.ulps_eq` -/
/-- this path is the one taken iff every component pair is within tolerance -/
theorem rad_ulps_eq_true_consistent (a b : K) (e : K) :
    (t_rad_ulps_eq_true (envL ([a, b, e]))).Consistent ↔ Approx.ulpsEq a b e 4 = true := by
  simp [Tr.Consistent, envL]
/-- this path is the one taken iff component pair `0` is the first that is not within tolerance -/
theorem rad_ulps_eq_false_0_consistent (a b : K) (e : K) :
    (t_rad_ulps_eq_false_0 (envL ([a, b, e]))).Consistent ↔ Approx.ulpsEq a b e 4 = false := by
  simp [Tr.Consistent, envL]
/-- the traced paths of `rad.ulps_eq` on the input -/
def radUlpsEq (a b : K) (e : K) : List (Tr K) :=
    [t_rad_ulps_eq_true (envL ([a, b, e])), t_rad_ulps_eq_false_0 (envL ([a, b, e]))]
/-- for every input exactly one of the paths is the one taken -/
theorem rad_ulps_eq_exactly_one (a b : K) (e : K) : Tr.ExactlyOne (radUlpsEq a b e) := by
  unfold Tr.ExactlyOne radUlpsEq
  simp only [List.pairwise_cons, List.mem_cons, List.not_mem_nil, or_false, forall_eq_or_imp, forall_eq, exists_eq_or_imp,
    exists_eq_left, List.Pairwise.nil, and_true, IsEmpty.forall_iff, implies_true, false_imp_iff, exists_false,
    rad_ulps_eq_true_consistent, rad_ulps_eq_false_0_consistent]
  generalize Approx.ulpsEq a b e 4 = r0
  cases r0
  · simp
  simp
/-- **`rad.ulps_eq` as computed**: exactly one traced path is taken; the path taken returns normally one boolean, the model's
relation; and that is `true` iff the scalar relation WITH THE SAME TOLERANCE ARGUMENTS holds on every component pair -/
theorem code_rad_ulps_eq (a b : K) (e : K) :
    Tr.ExactlyOne (radUlpsEq a b e) ∧
    (∀ t ∈ radUlpsEq a b e, t.Consistent → t.res = .ok ∧ t.out = [] ∧ t.bools = [angleUlpsEq a b e 4]) ∧
    (angleUlpsEq a b e 4 = true ↔ Approx.ulpsEq a b e 4 = true) := by
  refine ⟨rad_ulps_eq_exactly_one a b e, ?_, Cg.C18.angleUlpsEq_iff a b e 4⟩
  intro t ht
  simp only [radUlpsEq, List.mem_cons, List.not_mem_nil, or_false] at ht
  rcases ht with rfl | rfl
  · intro hc
    have h0 := (rad_ulps_eq_true_consistent a b e).1 hc
    rw [(Trace.C18Ops.t_rad_ulps_eq_true a b e h0).1]; exact ⟨rfl, rfl, rfl⟩
  · intro hc
    have h0 := (rad_ulps_eq_false_0_consistent a b e).1 hc
    rw [(Trace.C18Ops.t_rad_ulps_eq_false_0 a b e h0).1]; exact ⟨rfl, rfl, rfl⟩

/-! ### `deg.abs_diff_eq` -/
/-- this path is the one taken iff every component pair is within tolerance -/
theorem deg_abs_diff_eq_true_consistent (a b : K) (e : K) :
    (t_deg_abs_diff_eq_true (envL ([a, b, e]))).Consistent ↔ Approx.absDiffEq a b e = true := by
  simp [Tr.Consistent, envL]
/-- this path is the one taken iff component pair `0` is the first that is not within tolerance -/
theorem deg_abs_diff_eq_false_0_consistent (a b : K) (e : K) :
    (t_deg_abs_diff_eq_false_0 (envL ([a, b, e]))).Consistent ↔ Approx.absDiffEq a b e = false := by
  simp [Tr.Consistent, envL]
/-- the traced paths of `deg.abs_diff_eq` on the input -/
def degAbsDiffEq (a b : K) (e : K) : List (Tr K) :=
    [t_deg_abs_diff_eq_true (envL ([a, b, e])), t_deg_abs_diff_eq_false_0 (envL ([a, b, e]))]
/-- for every input exactly one of the paths is the one taken -/
theorem deg_abs_diff_eq_exactly_one (a b : K) (e : K) : Tr.ExactlyOne (degAbsDiffEq a b e) := by
  unfold Tr.ExactlyOne degAbsDiffEq
  simp only [List.pairwise_cons, List.mem_cons, List.not_mem_nil, or_false, forall_eq_or_imp, forall_eq, exists_eq_or_imp,
    exists_eq_left, List.Pairwise.nil, and_true, IsEmpty.forall_iff, implies_true, false_imp_iff, exists_false,
    deg_abs_diff_eq_true_consistent, deg_abs_diff_eq_false_0_consistent]
  generalize Approx.absDiffEq a b e = r0
  cases r0
  · simp
  simp
/-- **`deg.abs_diff_eq` as computed**: exactly one traced path is taken; the path taken returns normally one boolean, the model's
relation; and that is `true` iff the scalar relation WITH THE SAME TOLERANCE ARGUMENTS holds on every component pair -/
theorem code_deg_abs_diff_eq (a b : K) (e : K) :
    Tr.ExactlyOne (degAbsDiffEq a b e) ∧
    (∀ t ∈ degAbsDiffEq a b e, t.Consistent → t.res = .ok ∧ t.out = [] ∧ t.bools = [angleAbsDiffEq a b e]) ∧
    (angleAbsDiffEq a b e = true ↔ Approx.absDiffEq a b e = true) := by
  refine ⟨deg_abs_diff_eq_exactly_one a b e, ?_, Cg.C18.angleAbsDiffEq_iff a b e⟩
  intro t ht
  simp only [degAbsDiffEq, List.mem_cons, List.not_mem_nil, or_false] at ht
  rcases ht with rfl | rfl
  · intro hc
    have h0 := (deg_abs_diff_eq_true_consistent a b e).1 hc
    rw [(Trace.C18Ops.t_deg_abs_diff_eq_true a b e h0).1]; exact ⟨rfl, rfl, rfl⟩
  · intro hc
    have h0 := (deg_abs_diff_eq_false_0_consistent a b e).1 hc
    rw [(Trace.C18Ops.t_deg_abs_diff_eq_false_0 a b e h0).1]; exact ⟨rfl, rfl, rfl⟩

/-! ### `deg.relative_eq` -/
/-- this path is the one taken iff every component pair is within tolerance -/
theorem deg_relative_eq_true_consistent (a b : K) (e m : K) :
    (t_deg_relative_eq_true (envL ([a, b, e, m]))).Consistent ↔ Approx.relEq a b e m = true := by
  simp [Tr.Consistent, envL]
/-- this path is the one taken iff component pair `0` is the first that is not within tolerance -/
theorem deg_relative_eq_false_0_consistent (a b : K) (e m : K) :
    (t_deg_relative_eq_false_0 (envL ([a, b, e, m]))).Consistent ↔ Approx.relEq a b e m = false := by
  simp [Tr.Consistent, envL]
/-- the traced paths of `deg.relative_eq` on the input -/
def degRelEq (a b : K) (e m : K) : List (Tr K) :=
    [t_deg_relative_eq_true (envL ([a, b, e, m])), t_deg_relative_eq_false_0 (envL ([a, b, e, m]))]
/-- for every input exactly one of the paths is the one taken -/
theorem deg_relative_eq_exactly_one (a b : K) (e m : K) : Tr.ExactlyOne (degRelEq a b e m) := by
  unfold Tr.ExactlyOne degRelEq
  simp only [List.pairwise_cons, List.mem_cons, List.not_mem_nil, or_false, forall_eq_or_imp, forall_eq, exists_eq_or_imp,
    exists_eq_left, List.Pairwise.nil, and_true, IsEmpty.forall_iff, implies_true, false_imp_iff, exists_false,
    deg_relative_eq_true_consistent, deg_relative_eq_false_0_consistent]
  generalize Approx.relEq a b e m = r0
  cases r0
  · simp
  simp
/-- **`deg.relative_eq` as computed**: exactly one traced path is taken; the path taken returns normally one boolean, the model's
relation; and that is `true` iff the scalar relation WITH THE SAME TOLERANCE ARGUMENTS holds on every component pair -/
theorem code_deg_relative_eq (a b : K) (e m : K) :
    Tr.ExactlyOne (degRelEq a b e m) ∧
    (∀ t ∈ degRelEq a b e m, t.Consistent → t.res = .ok ∧ t.out = [] ∧ t.bools = [angleRelEq a b e m]) ∧
    (angleRelEq a b e m = true ↔ Approx.relEq a b e m = true) := by
  refine ⟨deg_relative_eq_exactly_one a b e m, ?_, Cg.C18.angleRelEq_iff a b e m⟩
  intro t ht
  simp only [degRelEq, List.mem_cons, List.not_mem_nil, or_false] at ht
  rcases ht with rfl | rfl
  · intro hc
    have h0 := (deg_relative_eq_true_consistent a b e m).1 hc
    rw [(Trace.C18Ops.t_deg_relative_eq_true a b e m h0).1]; exact ⟨rfl, rfl, rfl⟩
  · intro hc
    have h0 := (deg_relative_eq_false_0_consistent a b e m).1 hc
    rw [(Trace.C18Ops.t_deg_relative_eq_false_0 a b e m h0).1]; exact ⟨rfl, rfl, rfl⟩

/-! ### `deg.ulps_eq` -/
/-- this path is the one taken iff every component pair is within tolerance -/
theorem deg_ulps_eq_true_consistent (a b : K) (e : K) :
    (t_deg_ulps_eq_true (envL ([a, b, e]))).Consistent ↔ Approx.ulpsEq a b e 4 = true := by
  simp [Tr.Consistent, envL]
/-- this path is the one taken iff component pair `0` is the first that is not within tolerance -/
theorem deg_ulps_eq_false_0_consistent (a b : K) (e : K) :
    (t_deg_ulps_eq_false_0 (envL ([a, b, e]))).Consistent ↔ Approx.ulpsEq a b e 4 = false := by
  simp [Tr.Consistent, envL]
/-- the traced paths of `deg.ulps_eq` on the input -/
def degUlpsEq (a b : K) (e : K) : List (Tr K) :=
    [t_deg_ulps_eq_true (envL ([a, b, e])), t_deg_ulps_eq_false_0 (envL ([a, b, e]))]
/-- for every input exactly one of the paths is the one taken -/
theorem deg_ulps_eq_exactly_one (a b : K) (e : K) : Tr.ExactlyOne (degUlpsEq a b e) := by
  unfold Tr.ExactlyOne degUlpsEq
  simp only [List.pairwise_cons, List.mem_cons, List.not_mem_nil, or_false, forall_eq_or_imp, forall_eq, exists_eq_or_imp,
    exists_eq_left, List.Pairwise.nil, and_true, IsEmpty.forall_iff, implies_true, false_imp_iff, exists_false,
    deg_ulps_eq_true_consistent, deg_ulps_eq_false_0_consistent]
  generalize Approx.ulpsEq a b e 4 = r0
  cases r0
  · simp
  simp
/-- **`deg.ulps_eq` as computed**: exactly one traced path is taken; the path taken returns normally one boolean, the model's
relation; and that is `true` iff the scalar relation WITH THE SAME TOLERANCE ARGUMENTS holds on every component pair -/
theorem code_deg_ulps_eq (a b : K) (e : K) :
    Tr.ExactlyOne (degUlpsEq a b e) ∧
    (∀ t ∈ degUlpsEq a b e, t.Consistent → t.res = .ok ∧ t.out = [] ∧ t.bools = [angleUlpsEq a b e 4]) ∧
    (angleUlpsEq a b e 4 = true ↔ Approx.ulpsEq a b e 4 = true) := by
  refine ⟨deg_ulps_eq_exactly_one a b e, ?_, Cg.C18.angleUlpsEq_iff a b e 4⟩
  intro t ht
  simp only [degUlpsEq, List.mem_cons, List.not_mem_nil, or_false] at ht
  rcases ht with rfl | rfl
  · intro hc
    have h0 := (deg_ulps_eq_true_consistent a b e).1 hc
    rw [(Trace.C18Ops.t_deg_ulps_eq_true a b e h0).1]; exact ⟨rfl, rfl, rfl⟩
  · intro hc
    have h0 := (deg_ulps_eq_false_0_consistent a b e).1 hc
    rw [(Trace.C18Ops.t_deg_ulps_eq_false_0 a b e h0).1]; exact ⟨rfl, rfl, rfl⟩

/-! ## default-tolerance macro forms -/
/-- the recording scalar's default tolerances are the scalar type's: `default_epsilon = default_max_relative = 2^-52`,
`default_max_ulps = 4` -/
def DefaultTols (K : Type) [Field K] [Approx K] : Prop :=
  (Approx.eps : K) = eps52 ∧ (Approx.maxRel : K) = eps52 ∧ Approx.maxUlps K = 4

/-! ### `v1.abs_diff_eq_d` -/
/-- **`abs_diff_eq!(a, b)` on `v1` as computed**: the `true` path is the one taken iff every component pair is within the scalar defaults; the path taken (`true`, or `false_0`: the first pair already fails) returns the model's default-tolerance form -/
theorem code_v1_abs_diff_eq_d (hd : DefaultTols K) (a b : V1 K) :
    ((t_v1_abs_diff_eq_d_true (envL (a.toList ++ b.toList))).Consistent ↔ Approx.absDiffEq a.x b.x eps52 = true) ∧
    ((t_v1_abs_diff_eq_d_true (envL (a.toList ++ b.toList))).Consistent → (t_v1_abs_diff_eq_d_true (envL (a.toList ++ b.toList))).bools = [V1.absDiffEqD a b] ∧ V1.absDiffEqD a b = true) ∧
    ((t_v1_abs_diff_eq_d_false_0 (envL (a.toList ++ b.toList))).Consistent → (t_v1_abs_diff_eq_d_false_0 (envL (a.toList ++ b.toList))).bools = [V1.absDiffEqD a b] ∧ V1.absDiffEqD a b = false) := by
  have hm : V1.absDiffEqD a b = V1.absDiffEq a b eps52 := by
    unfold V1.absDiffEqD; simp only [hd.1, hd.2.1, hd.2.2]
  have c1 : (t_v1_abs_diff_eq_d_true (envL (a.toList ++ b.toList))).Consistent ↔ Approx.absDiffEq a.x b.x eps52 = true := by
    simp [Tr.Consistent, envL, eps52, V1.toList]
  have c0 : (t_v1_abs_diff_eq_d_false_0 (envL (a.toList ++ b.toList))).Consistent ↔ Approx.absDiffEq a.x b.x eps52 = false := by
    simp [Tr.Consistent, envL, eps52, V1.toList]
  refine ⟨c1, fun hc => ?_, fun hc => ?_⟩
  · have h0 := c1.1 hc
    have h := Trace.C18OpsD.t_v1_abs_diff_eq_d_true a b h0
    rw [hm, h.1]; exact ⟨rfl, h.2⟩
  · have h0 := c0.1 hc
    have h := Trace.C18OpsD.t_v1_abs_diff_eq_d_false_0 a b h0
    rw [hm, h.1]; exact ⟨rfl, h.2⟩

/-! ### `v1.relative_eq_d` -/
/-- **`relative_eq!(a, b)` on `v1` as computed**: the `true` path is the one taken iff every component pair is within the scalar defaults; the path taken (`true`, or `false_0`: the first pair already fails) returns the model's default-tolerance form -/
theorem code_v1_relative_eq_d (hd : DefaultTols K) (a b : V1 K) :
    ((t_v1_relative_eq_d_true (envL (a.toList ++ b.toList))).Consistent ↔ Approx.relEq a.x b.x eps52 eps52 = true) ∧
    ((t_v1_relative_eq_d_true (envL (a.toList ++ b.toList))).Consistent → (t_v1_relative_eq_d_true (envL (a.toList ++ b.toList))).bools = [V1.relEqD a b] ∧ V1.relEqD a b = true) ∧
    ((t_v1_relative_eq_d_false_0 (envL (a.toList ++ b.toList))).Consistent → (t_v1_relative_eq_d_false_0 (envL (a.toList ++ b.toList))).bools = [V1.relEqD a b] ∧ V1.relEqD a b = false) := by
  have hm : V1.relEqD a b = V1.relEq a b eps52 eps52 := by
    unfold V1.relEqD; simp only [hd.1, hd.2.1, hd.2.2]
  have c1 : (t_v1_relative_eq_d_true (envL (a.toList ++ b.toList))).Consistent ↔ Approx.relEq a.x b.x eps52 eps52 = true := by
    simp [Tr.Consistent, envL, eps52, V1.toList]
  have c0 : (t_v1_relative_eq_d_false_0 (envL (a.toList ++ b.toList))).Consistent ↔ Approx.relEq a.x b.x eps52 eps52 = false := by
    simp [Tr.Consistent, envL, eps52, V1.toList]
  refine ⟨c1, fun hc => ?_, fun hc => ?_⟩
  · have h0 := c1.1 hc
    have h := Trace.C18OpsD.t_v1_relative_eq_d_true a b h0
    rw [hm, h.1]; exact ⟨rfl, h.2⟩
  · have h0 := c0.1 hc
    have h := Trace.C18OpsD.t_v1_relative_eq_d_false_0 a b h0
    rw [hm, h.1]; exact ⟨rfl, h.2⟩

/-! ### `v1.ulps_eq_d` -/
/-- **`ulps_eq!(a, b)` on `v1` as computed**: the `true` path is the one taken iff every component pair is within the scalar defaults; the path taken (`true`, or `false_0`: the first pair already fails) returns the model's default-tolerance form -/
theorem code_v1_ulps_eq_d (hd : DefaultTols K) (a b : V1 K) :
    ((t_v1_ulps_eq_d_true (envL (a.toList ++ b.toList))).Consistent ↔ Approx.ulpsEq a.x b.x eps52 4 = true) ∧
    ((t_v1_ulps_eq_d_true (envL (a.toList ++ b.toList))).Consistent → (t_v1_ulps_eq_d_true (envL (a.toList ++ b.toList))).bools = [V1.ulpsEqD a b] ∧ V1.ulpsEqD a b = true) ∧
    ((t_v1_ulps_eq_d_false_0 (envL (a.toList ++ b.toList))).Consistent → (t_v1_ulps_eq_d_false_0 (envL (a.toList ++ b.toList))).bools = [V1.ulpsEqD a b] ∧ V1.ulpsEqD a b = false) := by
  have hm : V1.ulpsEqD a b = V1.ulpsEq a b eps52 4 := by
    unfold V1.ulpsEqD; simp only [hd.1, hd.2.1, hd.2.2]
  have c1 : (t_v1_ulps_eq_d_true (envL (a.toList ++ b.toList))).Consistent ↔ Approx.ulpsEq a.x b.x eps52 4 = true := by
    simp [Tr.Consistent, envL, eps52, V1.toList]
  have c0 : (t_v1_ulps_eq_d_false_0 (envL (a.toList ++ b.toList))).Consistent ↔ Approx.ulpsEq a.x b.x eps52 4 = false := by
    simp [Tr.Consistent, envL, eps52, V1.toList]
  refine ⟨c1, fun hc => ?_, fun hc => ?_⟩
  · have h0 := c1.1 hc
    have h := Trace.C18OpsD.t_v1_ulps_eq_d_true a b h0
    rw [hm, h.1]; exact ⟨rfl, h.2⟩
  · have h0 := c0.1 hc
    have h := Trace.C18OpsD.t_v1_ulps_eq_d_false_0 a b h0
    rw [hm, h.1]; exact ⟨rfl, h.2⟩

/-! ### `v2.abs_diff_eq_d` -/
/-- **`abs_diff_eq!(a, b)` on `v2` as computed**: the `true` path is the one taken iff every component pair is within the scalar defaults; the path taken (`true`, or `false_0`: the first pair already fails) returns the model's default-tolerance form -/
theorem code_v2_abs_diff_eq_d (hd : DefaultTols K) (a b : V2 K) :
    ((t_v2_abs_diff_eq_d_true (envL (a.toList ++ b.toList))).Consistent ↔ Approx.absDiffEq a.x b.x eps52 = true ∧ Approx.absDiffEq a.y b.y eps52 = true) ∧
    ((t_v2_abs_diff_eq_d_true (envL (a.toList ++ b.toList))).Consistent → (t_v2_abs_diff_eq_d_true (envL (a.toList ++ b.toList))).bools = [V2.absDiffEqD a b] ∧ V2.absDiffEqD a b = true) ∧
    ((t_v2_abs_diff_eq_d_false_0 (envL (a.toList ++ b.toList))).Consistent → (t_v2_abs_diff_eq_d_false_0 (envL (a.toList ++ b.toList))).bools = [V2.absDiffEqD a b] ∧ V2.absDiffEqD a b = false) := by
  have hm : V2.absDiffEqD a b = V2.absDiffEq a b eps52 := by
    unfold V2.absDiffEqD; simp only [hd.1, hd.2.1, hd.2.2]
  have c1 : (t_v2_abs_diff_eq_d_true (envL (a.toList ++ b.toList))).Consistent ↔ Approx.absDiffEq a.x b.x eps52 = true ∧ Approx.absDiffEq a.y b.y eps52 = true := by
    simp [Tr.Consistent, envL, eps52, V2.toList]
  have c0 : (t_v2_abs_diff_eq_d_false_0 (envL (a.toList ++ b.toList))).Consistent ↔ Approx.absDiffEq a.x b.x eps52 = false := by
    simp [Tr.Consistent, envL, eps52, V2.toList]
  refine ⟨c1, fun hc => ?_, fun hc => ?_⟩
  · have ⟨h0, h1⟩ := c1.1 hc
    have h := Trace.C18OpsD.t_v2_abs_diff_eq_d_true a b h0 h1
    rw [hm, h.1]; exact ⟨rfl, h.2⟩
  · have h0 := c0.1 hc
    have h := Trace.C18OpsD.t_v2_abs_diff_eq_d_false_0 a b h0
    rw [hm, h.1]; exact ⟨rfl, h.2⟩

/-! ### `v2.relative_eq_d` -/
/-- **`relative_eq!(a, b)` on `v2` as computed**: the `true` path is the one taken iff every component pair is within the scalar defaults; the path taken (`true`, or `false_0`: the first pair already fails) returns the model's default-tolerance form -/
theorem code_v2_relative_eq_d (hd : DefaultTols K) (a b : V2 K) :
    ((t_v2_relative_eq_d_true (envL (a.toList ++ b.toList))).Consistent ↔ Approx.relEq a.x b.x eps52 eps52 = true ∧ Approx.relEq a.y b.y eps52 eps52 = true) ∧
    ((t_v2_relative_eq_d_true (envL (a.toList ++ b.toList))).Consistent → (t_v2_relative_eq_d_true (envL (a.toList ++ b.toList))).bools = [V2.relEqD a b] ∧ V2.relEqD a b = true) ∧
    ((t_v2_relative_eq_d_false_0 (envL (a.toList ++ b.toList))).Consistent → (t_v2_relative_eq_d_false_0 (envL (a.toList ++ b.toList))).bools = [V2.relEqD a b] ∧ V2.relEqD a b = false) := by
  have hm : V2.relEqD a b = V2.relEq a b eps52 eps52 := by
    unfold V2.relEqD; simp only [hd.1, hd.2.1, hd.2.2]
  have c1 : (t_v2_relative_eq_d_true (envL (a.toList ++ b.toList))).Consistent ↔ Approx.relEq a.x b.x eps52 eps52 = true ∧ Approx.relEq a.y b.y eps52 eps52 = true := by
    simp [Tr.Consistent, envL, eps52, V2.toList]
  have c0 : (t_v2_relative_eq_d_false_0 (envL (a.toList ++ b.toList))).Consistent ↔ Approx.relEq a.x b.x eps52 eps52 = false := by
    simp [Tr.Consistent, envL, eps52, V2.toList]
  refine ⟨c1, fun hc => ?_, fun hc => ?_⟩
  · have ⟨h0, h1⟩ := c1.1 hc
    have h := Trace.C18OpsD.t_v2_relative_eq_d_true a b h0 h1
    rw [hm, h.1]; exact ⟨rfl, h.2⟩
  · have h0 := c0.1 hc
    have h := Trace.C18OpsD.t_v2_relative_eq_d_false_0 a b h0
    rw [hm, h.1]; exact ⟨rfl, h.2⟩

/-! ### `v2.ulps_eq_d` -/
/-- **`ulps_eq!(a, b)` on `v2` as computed**: the `true` path is the one taken iff every component pair is within the scalar defaults; the path taken (`true`, or `false_0`: the first pair already fails) returns the model's default-tolerance form -/
theorem code_v2_ulps_eq_d (hd : DefaultTols K) (a b : V2 K) :
    ((t_v2_ulps_eq_d_true (envL (a.toList ++ b.toList))).Consistent ↔ Approx.ulpsEq a.x b.x eps52 4 = true ∧ Approx.ulpsEq a.y b.y eps52 4 = true) ∧
    ((t_v2_ulps_eq_d_true (envL (a.toList ++ b.toList))).Consistent → (t_v2_ulps_eq_d_true (envL (a.toList ++ b.toList))).bools = [V2.ulpsEqD a b] ∧ V2.ulpsEqD a b = true) ∧
    ((t_v2_ulps_eq_d_false_0 (envL (a.toList ++ b.toList))).Consistent → (t_v2_ulps_eq_d_false_0 (envL (a.toList ++ b.toList))).bools = [V2.ulpsEqD a b] ∧ V2.ulpsEqD a b = false) := by
  have hm : V2.ulpsEqD a b = V2.ulpsEq a b eps52 4 := by
    unfold V2.ulpsEqD; simp only [hd.1, hd.2.1, hd.2.2]
  have c1 : (t_v2_ulps_eq_d_true (envL (a.toList ++ b.toList))).Consistent ↔ Approx.ulpsEq a.x b.x eps52 4 = true ∧ Approx.ulpsEq a.y b.y eps52 4 = true := by
    simp [Tr.Consistent, envL, eps52, V2.toList]
  have c0 : (t_v2_ulps_eq_d_false_0 (envL (a.toList ++ b.toList))).Consistent ↔ Approx.ulpsEq a.x b.x eps52 4 = false := by
    simp [Tr.Consistent, envL, eps52, V2.toList]
  refine ⟨c1, fun hc => ?_, fun hc => ?_⟩
  · have ⟨h0, h1⟩ := c1.1 hc
    have h := Trace.C18OpsD.t_v2_ulps_eq_d_true a b h0 h1
    rw [hm, h.1]; exact ⟨rfl, h.2⟩
  · have h0 := c0.1 hc
    have h := Trace.C18OpsD.t_v2_ulps_eq_d_false_0 a b h0
    rw [hm, h.1]; exact ⟨rfl, h.2⟩

/-! ### `v3.abs_diff_eq_d` -/
/-- **`abs_diff_eq!(a, b)` on `v3` as computed**: the `true` path is the one taken iff every component pair is within the scalar defaults; the path taken (`true`, or `false_0`: the first pair already fails) returns the model's default-tolerance form -/
theorem code_v3_abs_diff_eq_d (hd : DefaultTols K) (a b : V3 K) :
    ((t_v3_abs_diff_eq_d_true (envL (a.toList ++ b.toList))).Consistent ↔ Approx.absDiffEq a.x b.x eps52 = true ∧ Approx.absDiffEq a.y b.y eps52 = true ∧ Approx.absDiffEq a.z b.z eps52 = true) ∧
    ((t_v3_abs_diff_eq_d_true (envL (a.toList ++ b.toList))).Consistent → (t_v3_abs_diff_eq_d_true (envL (a.toList ++ b.toList))).bools = [V3.absDiffEqD a b] ∧ V3.absDiffEqD a b = true) ∧
    ((t_v3_abs_diff_eq_d_false_0 (envL (a.toList ++ b.toList))).Consistent → (t_v3_abs_diff_eq_d_false_0 (envL (a.toList ++ b.toList))).bools = [V3.absDiffEqD a b] ∧ V3.absDiffEqD a b = false) := by
  have hm : V3.absDiffEqD a b = V3.absDiffEq a b eps52 := by
    unfold V3.absDiffEqD; simp only [hd.1, hd.2.1, hd.2.2]
  have c1 : (t_v3_abs_diff_eq_d_true (envL (a.toList ++ b.toList))).Consistent ↔ Approx.absDiffEq a.x b.x eps52 = true ∧ Approx.absDiffEq a.y b.y eps52 = true ∧ Approx.absDiffEq a.z b.z eps52 = true := by
    simp [Tr.Consistent, envL, eps52, V3.toList]
  have c0 : (t_v3_abs_diff_eq_d_false_0 (envL (a.toList ++ b.toList))).Consistent ↔ Approx.absDiffEq a.x b.x eps52 = false := by
    simp [Tr.Consistent, envL, eps52, V3.toList]
  refine ⟨c1, fun hc => ?_, fun hc => ?_⟩
  · have ⟨h0, h1, h2⟩ := c1.1 hc
    have h := Trace.C18OpsD.t_v3_abs_diff_eq_d_true a b h0 h1 h2
    rw [hm, h.1]; exact ⟨rfl, h.2⟩
  · have h0 := c0.1 hc
    have h := Trace.C18OpsD.t_v3_abs_diff_eq_d_false_0 a b h0
    rw [hm, h.1]; exact ⟨rfl, h.2⟩

/-! ### `v3.relative_eq_d` -/
/-- **`relative_eq!(a, b)` on `v3` as computed**: the `true` path is the one taken iff every component pair is within the scalar defaults; the path taken (`true`, or `false_0`: the first pair already fails) returns the model's default-tolerance form -/
theorem code_v3_relative_eq_d (hd : DefaultTols K) (a b : V3 K) :
    ((t_v3_relative_eq_d_true (envL (a.toList ++ b.toList))).Consistent ↔ Approx.relEq a.x b.x eps52 eps52 = true ∧ Approx.relEq a.y b.y eps52 eps52 = true ∧ Approx.relEq a.z b.z eps52 eps52 = true) ∧
    ((t_v3_relative_eq_d_true (envL (a.toList ++ b.toList))).Consistent → (t_v3_relative_eq_d_true (envL (a.toList ++ b.toList))).bools = [V3.relEqD a b] ∧ V3.relEqD a b = true) ∧
    ((t_v3_relative_eq_d_false_0 (envL (a.toList ++ b.toList))).Consistent → (t_v3_relative_eq_d_false_0 (envL (a.toList ++ b.toList))).bools = [V3.relEqD a b] ∧ V3.relEqD a b = false) := by
  have hm : V3.relEqD a b = V3.relEq a b eps52 eps52 := by
    unfold V3.relEqD; simp only [hd.1, hd.2.1, hd.2.2]
  have c1 : (t_v3_relative_eq_d_true (envL (a.toList ++ b.toList))).Consistent ↔ Approx.relEq a.x b.x eps52 eps52 = true ∧ Approx.relEq a.y b.y eps52 eps52 = true ∧ Approx.relEq a.z b.z eps52 eps52 = true := by
    simp [Tr.Consistent, envL, eps52, V3.toList]
  have c0 : (t_v3_relative_eq_d_false_0 (envL (a.toList ++ b.toList))).Consistent ↔ Approx.relEq a.x b.x eps52 eps52 = false := by
    simp [Tr.Consistent, envL, eps52, V3.toList]
  refine ⟨c1, fun hc => ?_, fun hc => ?_⟩
  · have ⟨h0, h1, h2⟩ := c1.1 hc
    have h := Trace.C18OpsD.t_v3_relative_eq_d_true a b h0 h1 h2
    rw [hm, h.1]; exact ⟨rfl, h.2⟩
  · have h0 := c0.1 hc
    have h := Trace.C18OpsD.t_v3_relative_eq_d_false_0 a b h0
    rw [hm, h.1]; exact ⟨rfl, h.2⟩

/-! ### `v3.ulps_eq_d` -/
/-- **`ulps_eq!(a, b)` on `v3` as computed**: the `true` path is the one taken iff every component pair is within the scalar defaults; the path taken (`true`, or `false_0`: the first pair already fails) returns the model's default-tolerance form -/
theorem code_v3_ulps_eq_d (hd : DefaultTols K) (a b : V3 K) :
    ((t_v3_ulps_eq_d_true (envL (a.toList ++ b.toList))).Consistent ↔ Approx.ulpsEq a.x b.x eps52 4 = true ∧ Approx.ulpsEq a.y b.y eps52 4 = true ∧ Approx.ulpsEq a.z b.z eps52 4 = true) ∧
    ((t_v3_ulps_eq_d_true (envL (a.toList ++ b.toList))).Consistent → (t_v3_ulps_eq_d_true (envL (a.toList ++ b.toList))).bools = [V3.ulpsEqD a b] ∧ V3.ulpsEqD a b = true) ∧
    ((t_v3_ulps_eq_d_false_0 (envL (a.toList ++ b.toList))).Consistent → (t_v3_ulps_eq_d_false_0 (envL (a.toList ++ b.toList))).bools = [V3.ulpsEqD a b] ∧ V3.ulpsEqD a b = false) := by
  have hm : V3.ulpsEqD a b = V3.ulpsEq a b eps52 4 := by
    unfold V3.ulpsEqD; simp only [hd.1, hd.2.1, hd.2.2]
  have c1 : (t_v3_ulps_eq_d_true (envL (a.toList ++ b.toList))).Consistent ↔ Approx.ulpsEq a.x b.x eps52 4 = true ∧ Approx.ulpsEq a.y b.y eps52 4 = true ∧ Approx.ulpsEq a.z b.z eps52 4 = true := by
    simp [Tr.Consistent, envL, eps52, V3.toList]
  have c0 : (t_v3_ulps_eq_d_false_0 (envL (a.toList ++ b.toList))).Consistent ↔ Approx.ulpsEq a.x b.x eps52 4 = false := by
    simp [Tr.Consistent, envL, eps52, V3.toList]
  refine ⟨c1, fun hc => ?_, fun hc => ?_⟩
  · have ⟨h0, h1, h2⟩ := c1.1 hc
    have h := Trace.C18OpsD.t_v3_ulps_eq_d_true a b h0 h1 h2
    rw [hm, h.1]; exact ⟨rfl, h.2⟩
  · have h0 := c0.1 hc
    have h := Trace.C18OpsD.t_v3_ulps_eq_d_false_0 a b h0
    rw [hm, h.1]; exact ⟨rfl, h.2⟩

/-! ### `v4.abs_diff_eq_d` -/
/-- **`abs_diff_eq!(a, b)` on `v4` as computed**: the `true` path is the one taken iff every component pair is within the scalar defaults; the path taken (`true`, or `false_0`: the first pair already fails) returns the model's default-tolerance form -/
theorem code_v4_abs_diff_eq_d (hd : DefaultTols K) (a b : V4 K) :
    ((t_v4_abs_diff_eq_d_true (envL (a.toList ++ b.toList))).Consistent ↔ Approx.absDiffEq a.x b.x eps52 = true ∧ Approx.absDiffEq a.y b.y eps52 = true ∧ Approx.absDiffEq a.z b.z eps52 = true ∧ Approx.absDiffEq a.w b.w eps52 = true) ∧
    ((t_v4_abs_diff_eq_d_true (envL (a.toList ++ b.toList))).Consistent → (t_v4_abs_diff_eq_d_true (envL (a.toList ++ b.toList))).bools = [V4.absDiffEqD a b] ∧ V4.absDiffEqD a b = true) ∧
    ((t_v4_abs_diff_eq_d_false_0 (envL (a.toList ++ b.toList))).Consistent → (t_v4_abs_diff_eq_d_false_0 (envL (a.toList ++ b.toList))).bools = [V4.absDiffEqD a b] ∧ V4.absDiffEqD a b = false) := by
  have hm : V4.absDiffEqD a b = V4.absDiffEq a b eps52 := by
    unfold V4.absDiffEqD; simp only [hd.1, hd.2.1, hd.2.2]
  have c1 : (t_v4_abs_diff_eq_d_true (envL (a.toList ++ b.toList))).Consistent ↔ Approx.absDiffEq a.x b.x eps52 = true ∧ Approx.absDiffEq a.y b.y eps52 = true ∧ Approx.absDiffEq a.z b.z eps52 = true ∧ Approx.absDiffEq a.w b.w eps52 = true := by
    simp [Tr.Consistent, envL, eps52, V4.toList]
  have c0 : (t_v4_abs_diff_eq_d_false_0 (envL (a.toList ++ b.toList))).Consistent ↔ Approx.absDiffEq a.x b.x eps52 = false := by
    simp [Tr.Consistent, envL, eps52, V4.toList]
  refine ⟨c1, fun hc => ?_, fun hc => ?_⟩
  · have ⟨h0, h1, h2, h3⟩ := c1.1 hc
    have h := Trace.C18OpsD.t_v4_abs_diff_eq_d_true a b h0 h1 h2 h3
    rw [hm, h.1]; exact ⟨rfl, h.2⟩
  · have h0 := c0.1 hc
    have h := Trace.C18OpsD.t_v4_abs_diff_eq_d_false_0 a b h0
    rw [hm, h.1]; exact ⟨rfl, h.2⟩

/-! ### `v4.relative_eq_d` -/
/-- **`relative_eq!(a, b)` on `v4` as computed**: the `true` path is the one taken iff every component pair is within the scalar defaults; the path taken (`true`, or `false_0`: the first pair already fails) returns the model's default-tolerance form -/
theorem code_v4_relative_eq_d (hd : DefaultTols K) (a b : V4 K) :
    ((t_v4_relative_eq_d_true (envL (a.toList ++ b.toList))).Consistent ↔ Approx.relEq a.x b.x eps52 eps52 = true ∧ Approx.relEq a.y b.y eps52 eps52 = true ∧ Approx.relEq a.z b.z eps52 eps52 = true ∧ Approx.relEq a.w b.w eps52 eps52 = true) ∧
    ((t_v4_relative_eq_d_true (envL (a.toList ++ b.toList))).Consistent → (t_v4_relative_eq_d_true (envL (a.toList ++ b.toList))).bools = [V4.relEqD a b] ∧ V4.relEqD a b = true) ∧
    ((t_v4_relative_eq_d_false_0 (envL (a.toList ++ b.toList))).Consistent → (t_v4_relative_eq_d_false_0 (envL (a.toList ++ b.toList))).bools = [V4.relEqD a b] ∧ V4.relEqD a b = false) := by
  have hm : V4.relEqD a b = V4.relEq a b eps52 eps52 := by
    unfold V4.relEqD; simp only [hd.1, hd.2.1, hd.2.2]
  have c1 : (t_v4_relative_eq_d_true (envL (a.toList ++ b.toList))).Consistent ↔ Approx.relEq a.x b.x eps52 eps52 = true ∧ Approx.relEq a.y b.y eps52 eps52 = true ∧ Approx.relEq a.z b.z eps52 eps52 = true ∧ Approx.relEq a.w b.w eps52 eps52 = true := by
    simp [Tr.Consistent, envL, eps52, V4.toList]
  have c0 : (t_v4_relative_eq_d_false_0 (envL (a.toList ++ b.toList))).Consistent ↔ Approx.relEq a.x b.x eps52 eps52 = false := by
    simp [Tr.Consistent, envL, eps52, V4.toList]
  refine ⟨c1, fun hc => ?_, fun hc => ?_⟩
  · have ⟨h0, h1, h2, h3⟩ := c1.1 hc
    have h := Trace.C18OpsD.t_v4_relative_eq_d_true a b h0 h1 h2 h3
    rw [hm, h.1]; exact ⟨rfl, h.2⟩
  · have h0 := c0.1 hc
    have h := Trace.C18OpsD.t_v4_relative_eq_d_false_0 a b h0
    rw [hm, h.1]; exact ⟨rfl, h.2⟩

/-! ### `v4.ulps_eq_d` -/
/-- **`ulps_eq!(a, b)` on `v4` as computed**: the `true` path is the one taken iff every component pair is within the scalar defaults; the path taken (`true`, or `false_0`: the first pair already fails) returns the model's default-tolerance form -/
theorem code_v4_ulps_eq_d (hd : DefaultTols K) (a b : V4 K) :
    ((t_v4_ulps_eq_d_true (envL (a.toList ++ b.toList))).Consistent ↔ Approx.ulpsEq a.x b.x eps52 4 = true ∧ Approx.ulpsEq a.y b.y eps52 4 = true ∧ Approx.ulpsEq a.z b.z eps52 4 = true ∧ Approx.ulpsEq a.w b.w eps52 4 = true) ∧
    ((t_v4_ulps_eq_d_true (envL (a.toList ++ b.toList))).Consistent → (t_v4_ulps_eq_d_true (envL (a.toList ++ b.toList))).bools = [V4.ulpsEqD a b] ∧ V4.ulpsEqD a b = true) ∧
    ((t_v4_ulps_eq_d_false_0 (envL (a.toList ++ b.toList))).Consistent → (t_v4_ulps_eq_d_false_0 (envL (a.toList ++ b.toList))).bools = [V4.ulpsEqD a b] ∧ V4.ulpsEqD a b = false) := by
  have hm : V4.ulpsEqD a b = V4.ulpsEq a b eps52 4 := by
    unfold V4.ulpsEqD; simp only [hd.1, hd.2.1, hd.2.2]
  have c1 : (t_v4_ulps_eq_d_true (envL (a.toList ++ b.toList))).Consistent ↔ Approx.ulpsEq a.x b.x eps52 4 = true ∧ Approx.ulpsEq a.y b.y eps52 4 = true ∧ Approx.ulpsEq a.z b.z eps52 4 = true ∧ Approx.ulpsEq a.w b.w eps52 4 = true := by
    simp [Tr.Consistent, envL, eps52, V4.toList]
  have c0 : (t_v4_ulps_eq_d_false_0 (envL (a.toList ++ b.toList))).Consistent ↔ Approx.ulpsEq a.x b.x eps52 4 = false := by
    simp [Tr.Consistent, envL, eps52, V4.toList]
  refine ⟨c1, fun hc => ?_, fun hc => ?_⟩
  · have ⟨h0, h1, h2, h3⟩ := c1.1 hc
    have h := Trace.C18OpsD.t_v4_ulps_eq_d_true a b h0 h1 h2 h3
    rw [hm, h.1]; exact ⟨rfl, h.2⟩
  · have h0 := c0.1 hc
    have h := Trace.C18OpsD.t_v4_ulps_eq_d_false_0 a b h0
    rw [hm, h.1]; exact ⟨rfl, h.2⟩

/-! ### `p1.abs_diff_eq_d` -/
/-- **`abs_diff_eq!(a, b)` on `p1` as computed**: the `true` path is the one taken iff every component pair is within the scalar defaults; the path taken (`true`, or `false_0`: the first pair already fails) returns the model's default-tolerance form -/
theorem code_p1_abs_diff_eq_d (hd : DefaultTols K) (a b : P1 K) :
    ((t_p1_abs_diff_eq_d_true (envL (a.toList ++ b.toList))).Consistent ↔ Approx.absDiffEq a.x b.x eps52 = true) ∧
    ((t_p1_abs_diff_eq_d_true (envL (a.toList ++ b.toList))).Consistent → (t_p1_abs_diff_eq_d_true (envL (a.toList ++ b.toList))).bools = [P1.absDiffEqD a b] ∧ P1.absDiffEqD a b = true) ∧
    ((t_p1_abs_diff_eq_d_false_0 (envL (a.toList ++ b.toList))).Consistent → (t_p1_abs_diff_eq_d_false_0 (envL (a.toList ++ b.toList))).bools = [P1.absDiffEqD a b] ∧ P1.absDiffEqD a b = false) := by
  have hm : P1.absDiffEqD a b = P1.absDiffEq a b eps52 := by
    unfold P1.absDiffEqD; simp only [hd.1, hd.2.1, hd.2.2]
  have c1 : (t_p1_abs_diff_eq_d_true (envL (a.toList ++ b.toList))).Consistent ↔ Approx.absDiffEq a.x b.x eps52 = true := by
    simp [Tr.Consistent, envL, eps52, P1.toList]
  have c0 : (t_p1_abs_diff_eq_d_false_0 (envL (a.toList ++ b.toList))).Consistent ↔ Approx.absDiffEq a.x b.x eps52 = false := by
    simp [Tr.Consistent, envL, eps52, P1.toList]
  refine ⟨c1, fun hc => ?_, fun hc => ?_⟩
  · have h0 := c1.1 hc
    have h := Trace.C18OpsD.t_p1_abs_diff_eq_d_true a b h0
    rw [hm, h.1]; exact ⟨rfl, h.2⟩
  · have h0 := c0.1 hc
    have h := Trace.C18OpsD.t_p1_abs_diff_eq_d_false_0 a b h0
    rw [hm, h.1]; exact ⟨rfl, h.2⟩

/-! ### `p1.relative_eq_d` -/
/-- **`relative_eq!(a, b)` on `p1` as computed**: the `true` path is the one taken iff every component pair is within the scalar defaults; the path taken (`true`, or `false_0`: the first pair already fails) returns the model's default-tolerance form -/
theorem code_p1_relative_eq_d (hd : DefaultTols K) (a b : P1 K) :
    ((t_p1_relative_eq_d_true (envL (a.toList ++ b.toList))).Consistent ↔ Approx.relEq a.x b.x eps52 eps52 = true) ∧
    ((t_p1_relative_eq_d_true (envL (a.toList ++ b.toList))).Consistent → (t_p1_relative_eq_d_true (envL (a.toList ++ b.toList))).bools = [P1.relEqD a b] ∧ P1.relEqD a b = true) ∧
    ((t_p1_relative_eq_d_false_0 (envL (a.toList ++ b.toList))).Consistent → (t_p1_relative_eq_d_false_0 (envL (a.toList ++ b.toList))).bools = [P1.relEqD a b] ∧ P1.relEqD a b = false) := by
  have hm : P1.relEqD a b = P1.relEq a b eps52 eps52 := by
    unfold P1.relEqD; simp only [hd.1, hd.2.1, hd.2.2]
  have c1 : (t_p1_relative_eq_d_true (envL (a.toList ++ b.toList))).Consistent ↔ Approx.relEq a.x b.x eps52 eps52 = true := by
    simp [Tr.Consistent, envL, eps52, P1.toList]
  have c0 : (t_p1_relative_eq_d_false_0 (envL (a.toList ++ b.toList))).Consistent ↔ Approx.relEq a.x b.x eps52 eps52 = false := by
    simp [Tr.Consistent, envL, eps52, P1.toList]
  refine ⟨c1, fun hc => ?_, fun hc => ?_⟩
  · have h0 := c1.1 hc
    have h := Trace.C18OpsD.t_p1_relative_eq_d_true a b h0
    rw [hm, h.1]; exact ⟨rfl, h.2⟩
  · have h0 := c0.1 hc
    have h := Trace.C18OpsD.t_p1_relative_eq_d_false_0 a b h0
    rw [hm, h.1]; exact ⟨rfl, h.2⟩

/-! ### `p1.ulps_eq_d` -/
/-- **`ulps_eq!(a, b)` on `p1` as computed**: the `true` path is the one taken iff every component pair is within the scalar defaults; the path taken (`true`, or `false_0`: the first pair already fails) returns the model's default-tolerance form -/
theorem code_p1_ulps_eq_d (hd : DefaultTols K) (a b : P1 K) :
    ((t_p1_ulps_eq_d_true (envL (a.toList ++ b.toList))).Consistent ↔ Approx.ulpsEq a.x b.x eps52 4 = true) ∧
    ((t_p1_ulps_eq_d_true (envL (a.toList ++ b.toList))).Consistent → (t_p1_ulps_eq_d_true (envL (a.toList ++ b.toList))).bools = [P1.ulpsEqD a b] ∧ P1.ulpsEqD a b = true) ∧
    ((t_p1_ulps_eq_d_false_0 (envL (a.toList ++ b.toList))).Consistent → (t_p1_ulps_eq_d_false_0 (envL (a.toList ++ b.toList))).bools = [P1.ulpsEqD a b] ∧ P1.ulpsEqD a b = false) := by
  have hm : P1.ulpsEqD a b = P1.ulpsEq a b eps52 4 := by
    unfold P1.ulpsEqD; simp only [hd.1, hd.2.1, hd.2.2]
  have c1 : (t_p1_ulps_eq_d_true (envL (a.toList ++ b.toList))).Consistent ↔ Approx.ulpsEq a.x b.x eps52 4 = true := by
    simp [Tr.Consistent, envL, eps52, P1.toList]
  have c0 : (t_p1_ulps_eq_d_false_0 (envL (a.toList ++ b.toList))).Consistent ↔ Approx.ulpsEq a.x b.x eps52 4 = false := by
    simp [Tr.Consistent, envL, eps52, P1.toList]
  refine ⟨c1, fun hc => ?_, fun hc => ?_⟩
  · have h0 := c1.1 hc
    have h := Trace.C18OpsD.t_p1_ulps_eq_d_true a b h0
    rw [hm, h.1]; exact ⟨rfl, h.2⟩
  · have h0 := c0.1 hc
    have h := Trace.C18OpsD.t_p1_ulps_eq_d_false_0 a b h0
    rw [hm, h.1]; exact ⟨rfl, h.2⟩

/-! ### `p2.abs_diff_eq_d` -/
/-- **`abs_diff_eq!(a, b)` on `p2` as computed**: the `true` path is the one taken iff every component pair is within the scalar defaults; the path taken (`true`, or `false_0`: the first pair already fails) returns the model's default-tolerance form -/
theorem code_p2_abs_diff_eq_d (hd : DefaultTols K) (a b : P2 K) :
    ((t_p2_abs_diff_eq_d_true (envL (a.toList ++ b.toList))).Consistent ↔ Approx.absDiffEq a.x b.x eps52 = true ∧ Approx.absDiffEq a.y b.y eps52 = true) ∧
    ((t_p2_abs_diff_eq_d_true (envL (a.toList ++ b.toList))).Consistent → (t_p2_abs_diff_eq_d_true (envL (a.toList ++ b.toList))).bools = [P2.absDiffEqD a b] ∧ P2.absDiffEqD a b = true) ∧
    ((t_p2_abs_diff_eq_d_false_0 (envL (a.toList ++ b.toList))).Consistent → (t_p2_abs_diff_eq_d_false_0 (envL (a.toList ++ b.toList))).bools = [P2.absDiffEqD a b] ∧ P2.absDiffEqD a b = false) := by
  have hm : P2.absDiffEqD a b = P2.absDiffEq a b eps52 := by
    unfold P2.absDiffEqD; simp only [hd.1, hd.2.1, hd.2.2]
  have c1 : (t_p2_abs_diff_eq_d_true (envL (a.toList ++ b.toList))).Consistent ↔ Approx.absDiffEq a.x b.x eps52 = true ∧ Approx.absDiffEq a.y b.y eps52 = true := by
    simp [Tr.Consistent, envL, eps52, P2.toList]
  have c0 : (t_p2_abs_diff_eq_d_false_0 (envL (a.toList ++ b.toList))).Consistent ↔ Approx.absDiffEq a.x b.x eps52 = false := by
    simp [Tr.Consistent, envL, eps52, P2.toList]
  refine ⟨c1, fun hc => ?_, fun hc => ?_⟩
  · have ⟨h0, h1⟩ := c1.1 hc
    have h := Trace.C18OpsD.t_p2_abs_diff_eq_d_true a b h0 h1
    rw [hm, h.1]; exact ⟨rfl, h.2⟩
  · have h0 := c0.1 hc
    have h := Trace.C18OpsD.t_p2_abs_diff_eq_d_false_0 a b h0
    rw [hm, h.1]; exact ⟨rfl, h.2⟩

/-! ### `p2.relative_eq_d` -/
/-- **`relative_eq!(a, b)` on `p2` as computed**: the `true` path is the one taken iff every component pair is within the scalar defaults; the path taken (`true`, or `false_0`: the first pair already fails) returns the model's default-tolerance form -/
theorem code_p2_relative_eq_d (hd : DefaultTols K) (a b : P2 K) :
    ((t_p2_relative_eq_d_true (envL (a.toList ++ b.toList))).Consistent ↔ Approx.relEq a.x b.x eps52 eps52 = true ∧ Approx.relEq a.y b.y eps52 eps52 = true) ∧
    ((t_p2_relative_eq_d_true (envL (a.toList ++ b.toList))).Consistent → (t_p2_relative_eq_d_true (envL (a.toList ++ b.toList))).bools = [P2.relEqD a b] ∧ P2.relEqD a b = true) ∧
    ((t_p2_relative_eq_d_false_0 (envL (a.toList ++ b.toList))).Consistent → (t_p2_relative_eq_d_false_0 (envL (a.toList ++ b.toList))).bools = [P2.relEqD a b] ∧ P2.relEqD a b = false) := by
  have hm : P2.relEqD a b = P2.relEq a b eps52 eps52 := by
    unfold P2.relEqD; simp only [hd.1, hd.2.1, hd.2.2]
  have c1 : (t_p2_relative_eq_d_true (envL (a.toList ++ b.toList))).Consistent ↔ Approx.relEq a.x b.x eps52 eps52 = true ∧ Approx.relEq a.y b.y eps52 eps52 = true := by
    simp [Tr.Consistent, envL, eps52, P2.toList]
  have c0 : (t_p2_relative_eq_d_false_0 (envL (a.toList ++ b.toList))).Consistent ↔ Approx.relEq a.x b.x eps52 eps52 = false := by
    simp [Tr.Consistent, envL, eps52, P2.toList]
  refine ⟨c1, fun hc => ?_, fun hc => ?_⟩
  · have ⟨h0, h1⟩ := c1.1 hc
    have h := Trace.C18OpsD.t_p2_relative_eq_d_true a b h0 h1
    rw [hm, h.1]; exact ⟨rfl, h.2⟩
  · have h0 := c0.1 hc
    have h := Trace.C18OpsD.t_p2_relative_eq_d_false_0 a b h0
    rw [hm, h.1]; exact ⟨rfl, h.2⟩

/-! ### `p2.ulps_eq_d` -/
/-- **`ulps_eq!(a, b)` on `p2` as computed**: the `true` path is the one taken iff every component pair is within the scalar defaults; the path taken (`true`, or `false_0`: the first pair already fails) returns the model's default-tolerance form -/
theorem code_p2_ulps_eq_d (hd : DefaultTols K) (a b : P2 K) :
    ((t_p2_ulps_eq_d_true (envL (a.toList ++ b.toList))).Consistent ↔ Approx.ulpsEq a.x b.x eps52 4 = true ∧ Approx.ulpsEq a.y b.y eps52 4 = true) ∧
    ((t_p2_ulps_eq_d_true (envL (a.toList ++ b.toList))).Consistent → (t_p2_ulps_eq_d_true (envL (a.toList ++ b.toList))).bools = [P2.ulpsEqD a b] ∧ P2.ulpsEqD a b = true) ∧
    ((t_p2_ulps_eq_d_false_0 (envL (a.toList ++ b.toList))).Consistent → (t_p2_ulps_eq_d_false_0 (envL (a.toList ++ b.toList))).bools = [P2.ulpsEqD a b] ∧ P2.ulpsEqD a b = false) := by
  have hm : P2.ulpsEqD a b = P2.ulpsEq a b eps52 4 := by
    unfold P2.ulpsEqD; simp only [hd.1, hd.2.1, hd.2.2]
  have c1 : (t_p2_ulps_eq_d_true (envL (a.toList ++ b.toList))).Consistent ↔ Approx.ulpsEq a.x b.x eps52 4 = true ∧ Approx.ulpsEq a.y b.y eps52 4 = true := by
    simp [Tr.Consistent, envL, eps52, P2.toList]
  have c0 : (t_p2_ulps_eq_d_false_0 (envL (a.toList ++ b.toList))).Consistent ↔ Approx.ulpsEq a.x b.x eps52 4 = false := by
    simp [Tr.Consistent, envL, eps52, P2.toList]
  refine ⟨c1, fun hc => ?_, fun hc => ?_⟩
  · have ⟨h0, h1⟩ := c1.1 hc
    have h := Trace.C18OpsD.t_p2_ulps_eq_d_true a b h0 h1
    rw [hm, h.1]; exact ⟨rfl, h.2⟩
  · have h0 := c0.1 hc
    have h := Trace.C18OpsD.t_p2_ulps_eq_d_false_0 a b h0
    rw [hm, h.1]; exact ⟨rfl, h.2⟩

/-! ### `p3.abs_diff_eq_d` -/
/-- **`abs_diff_eq!(a, b)` on `p3` as computed**: the `true` path is the one taken iff every component pair is within the scalar defaults; the path taken (`true`, or `false_0`: the first pair already fails) returns the model's default-tolerance form -/
theorem code_p3_abs_diff_eq_d (hd : DefaultTols K) (a b : P3 K) :
    ((t_p3_abs_diff_eq_d_true (envL (a.toList ++ b.toList))).Consistent ↔ Approx.absDiffEq a.x b.x eps52 = true ∧ Approx.absDiffEq a.y b.y eps52 = true ∧ Approx.absDiffEq a.z b.z eps52 = true) ∧
    ((t_p3_abs_diff_eq_d_true (envL (a.toList ++ b.toList))).Consistent → (t_p3_abs_diff_eq_d_true (envL (a.toList ++ b.toList))).bools = [P3.absDiffEqD a b] ∧ P3.absDiffEqD a b = true) ∧
    ((t_p3_abs_diff_eq_d_false_0 (envL (a.toList ++ b.toList))).Consistent → (t_p3_abs_diff_eq_d_false_0 (envL (a.toList ++ b.toList))).bools = [P3.absDiffEqD a b] ∧ P3.absDiffEqD a b = false) := by
  have hm : P3.absDiffEqD a b = P3.absDiffEq a b eps52 := by
    unfold P3.absDiffEqD; simp only [hd.1, hd.2.1, hd.2.2]
  have c1 : (t_p3_abs_diff_eq_d_true (envL (a.toList ++ b.toList))).Consistent ↔ Approx.absDiffEq a.x b.x eps52 = true ∧ Approx.absDiffEq a.y b.y eps52 = true ∧ Approx.absDiffEq a.z b.z eps52 = true := by
    simp [Tr.Consistent, envL, eps52, P3.toList]
  have c0 : (t_p3_abs_diff_eq_d_false_0 (envL (a.toList ++ b.toList))).Consistent ↔ Approx.absDiffEq a.x b.x eps52 = false := by
    simp [Tr.Consistent, envL, eps52, P3.toList]
  refine ⟨c1, fun hc => ?_, fun hc => ?_⟩
  · have ⟨h0, h1, h2⟩ := c1.1 hc
    have h := Trace.C18OpsD.t_p3_abs_diff_eq_d_true a b h0 h1 h2
    rw [hm, h.1]; exact ⟨rfl, h.2⟩
  · have h0 := c0.1 hc
    have h := Trace.C18OpsD.t_p3_abs_diff_eq_d_false_0 a b h0
    rw [hm, h.1]; exact ⟨rfl, h.2⟩

/-! ### `p3.relative_eq_d` -/
/-- **`relative_eq!(a, b)` on `p3` as computed**: the `true` path is the one taken iff every component pair is within the scalar defaults; the path taken (`true`, or `false_0`: the first pair already fails) returns the model's default-tolerance form -/
theorem code_p3_relative_eq_d (hd : DefaultTols K) (a b : P3 K) :
    ((t_p3_relative_eq_d_true (envL (a.toList ++ b.toList))).Consistent ↔ Approx.relEq a.x b.x eps52 eps52 = true ∧ Approx.relEq a.y b.y eps52 eps52 = true ∧ Approx.relEq a.z b.z eps52 eps52 = true) ∧
    ((t_p3_relative_eq_d_true (envL (a.toList ++ b.toList))).Consistent → (t_p3_relative_eq_d_true (envL (a.toList ++ b.toList))).bools = [P3.relEqD a b] ∧ P3.relEqD a b = true) ∧
    ((t_p3_relative_eq_d_false_0 (envL (a.toList ++ b.toList))).Consistent → (t_p3_relative_eq_d_false_0 (envL (a.toList ++ b.toList))).bools = [P3.relEqD a b] ∧ P3.relEqD a b = false) := by
  have hm : P3.relEqD a b = P3.relEq a b eps52 eps52 := by
    unfold P3.relEqD; simp only [hd.1, hd.2.1, hd.2.2]
  have c1 : (t_p3_relative_eq_d_true (envL (a.toList ++ b.toList))).Consistent ↔ Approx.relEq a.x b.x eps52 eps52 = true ∧ Approx.relEq a.y b.y eps52 eps52 = true ∧ Approx.relEq a.z b.z eps52 eps52 = true := by
    simp [Tr.Consistent, envL, eps52, P3.toList]
  have c0 : (t_p3_relative_eq_d_false_0 (envL (a.toList ++ b.toList))).Consistent ↔ Approx.relEq a.x b.x eps52 eps52 = false := by
    simp [Tr.Consistent, envL, eps52, P3.toList]
  refine ⟨c1, fun hc => ?_, fun hc => ?_⟩
  · have ⟨h0, h1, h2⟩ := c1.1 hc
    have h := Trace.C18OpsD.t_p3_relative_eq_d_true a b h0 h1 h2
    rw [hm, h.1]; exact ⟨rfl, h.2⟩
  · have h0 := c0.1 hc
    have h := Trace.C18OpsD.t_p3_relative_eq_d_false_0 a b h0
    rw [hm, h.1]; exact ⟨rfl, h.2⟩

/-! ### `p3.ulps_eq_d` -/
/-- **`ulps_eq!(a, b)` on `p3` as computed**: the `true` path is the one taken iff every component pair is within the scalar defaults; the path taken (`true`, or `false_0`: the first pair already fails) returns the model's default-tolerance form -/
theorem code_p3_ulps_eq_d (hd : DefaultTols K) (a b : P3 K) :
    ((t_p3_ulps_eq_d_true (envL (a.toList ++ b.toList))).Consistent ↔ Approx.ulpsEq a.x b.x eps52 4 = true ∧ Approx.ulpsEq a.y b.y eps52 4 = true ∧ Approx.ulpsEq a.z b.z eps52 4 = true) ∧
    ((t_p3_ulps_eq_d_true (envL (a.toList ++ b.toList))).Consistent → (t_p3_ulps_eq_d_true (envL (a.toList ++ b.toList))).bools = [P3.ulpsEqD a b] ∧ P3.ulpsEqD a b = true) ∧
    ((t_p3_ulps_eq_d_false_0 (envL (a.toList ++ b.toList))).Consistent → (t_p3_ulps_eq_d_false_0 (envL (a.toList ++ b.toList))).bools = [P3.ulpsEqD a b] ∧ P3.ulpsEqD a b = false) := by
  have hm : P3.ulpsEqD a b = P3.ulpsEq a b eps52 4 := by
    unfold P3.ulpsEqD; simp only [hd.1, hd.2.1, hd.2.2]
  have c1 : (t_p3_ulps_eq_d_true (envL (a.toList ++ b.toList))).Consistent ↔ Approx.ulpsEq a.x b.x eps52 4 = true ∧ Approx.ulpsEq a.y b.y eps52 4 = true ∧ Approx.ulpsEq a.z b.z eps52 4 = true := by
    simp [Tr.Consistent, envL, eps52, P3.toList]
  have c0 : (t_p3_ulps_eq_d_false_0 (envL (a.toList ++ b.toList))).Consistent ↔ Approx.ulpsEq a.x b.x eps52 4 = false := by
    simp [Tr.Consistent, envL, eps52, P3.toList]
  refine ⟨c1, fun hc => ?_, fun hc => ?_⟩
  · have ⟨h0, h1, h2⟩ := c1.1 hc
    have h := Trace.C18OpsD.t_p3_ulps_eq_d_true a b h0 h1 h2
    rw [hm, h.1]; exact ⟨rfl, h.2⟩
  · have h0 := c0.1 hc
    have h := Trace.C18OpsD.t_p3_ulps_eq_d_false_0 a b h0
    rw [hm, h.1]; exact ⟨rfl, h.2⟩

/-! ### `m2.abs_diff_eq_d` -/
/-- **`abs_diff_eq!(a, b)` on `m2` as computed**: the `true` path is the one taken iff every component pair is within the MATRIX default epsilon `Lits.matEps`; the path taken (`true`, or `false_0`: the first pair already fails) returns the model's default-tolerance form -/
theorem code_m2_abs_diff_eq_d (hd : DefaultTols K) (a b : M2 K) :
    ((t_m2_abs_diff_eq_d_true (envL (a.toList ++ b.toList))).Consistent ↔ Approx.absDiffEq a.x.x b.x.x Lits.matEps = true ∧ Approx.absDiffEq a.x.y b.x.y Lits.matEps = true ∧ Approx.absDiffEq a.y.x b.y.x Lits.matEps = true ∧ Approx.absDiffEq a.y.y b.y.y Lits.matEps = true) ∧
    ((t_m2_abs_diff_eq_d_true (envL (a.toList ++ b.toList))).Consistent → (t_m2_abs_diff_eq_d_true (envL (a.toList ++ b.toList))).bools = [M2.absDiffEqD a b] ∧ M2.absDiffEqD a b = true) ∧
    ((t_m2_abs_diff_eq_d_false_0 (envL (a.toList ++ b.toList))).Consistent → (t_m2_abs_diff_eq_d_false_0 (envL (a.toList ++ b.toList))).bools = [M2.absDiffEqD a b] ∧ M2.absDiffEqD a b = false) := by
  have hm : M2.absDiffEqD a b = M2.absDiffEq a b Lits.matEps := by
    unfold M2.absDiffEqD; simp only [hd.1, hd.2.1, hd.2.2]
  have c1 : (t_m2_abs_diff_eq_d_true (envL (a.toList ++ b.toList))).Consistent ↔ Approx.absDiffEq a.x.x b.x.x Lits.matEps = true ∧ Approx.absDiffEq a.x.y b.x.y Lits.matEps = true ∧ Approx.absDiffEq a.y.x b.y.x Lits.matEps = true ∧ Approx.absDiffEq a.y.y b.y.y Lits.matEps = true := by
    simp [Tr.Consistent, envL, eps52, M2.toList, V2.toList]
  have c0 : (t_m2_abs_diff_eq_d_false_0 (envL (a.toList ++ b.toList))).Consistent ↔ Approx.absDiffEq a.x.x b.x.x Lits.matEps = false := by
    simp [Tr.Consistent, envL, eps52, M2.toList, V2.toList]
  refine ⟨c1, fun hc => ?_, fun hc => ?_⟩
  · have ⟨h0, h1, h2, h3⟩ := c1.1 hc
    have h := Trace.C18OpsD.t_m2_abs_diff_eq_d_true a b h0 h1 h2 h3
    rw [hm, h.1]; exact ⟨rfl, h.2⟩
  · have h0 := c0.1 hc
    have h := Trace.C18OpsD.t_m2_abs_diff_eq_d_false_0 a b h0
    rw [hm, h.1]; exact ⟨rfl, h.2⟩

/-! ### `m2.relative_eq_d` -/
/-- **`relative_eq!(a, b)` on `m2` as computed**: the `true` path is the one taken iff every component pair is within the MATRIX default epsilon `Lits.matEps`; the path taken (`true`, or `false_0`: the first pair already fails) returns the model's default-tolerance form -/
theorem code_m2_relative_eq_d (hd : DefaultTols K) (a b : M2 K) :
    ((t_m2_relative_eq_d_true (envL (a.toList ++ b.toList))).Consistent ↔ Approx.relEq a.x.x b.x.x Lits.matEps eps52 = true ∧ Approx.relEq a.x.y b.x.y Lits.matEps eps52 = true ∧ Approx.relEq a.y.x b.y.x Lits.matEps eps52 = true ∧ Approx.relEq a.y.y b.y.y Lits.matEps eps52 = true) ∧
    ((t_m2_relative_eq_d_true (envL (a.toList ++ b.toList))).Consistent → (t_m2_relative_eq_d_true (envL (a.toList ++ b.toList))).bools = [M2.relEqD a b] ∧ M2.relEqD a b = true) ∧
    ((t_m2_relative_eq_d_false_0 (envL (a.toList ++ b.toList))).Consistent → (t_m2_relative_eq_d_false_0 (envL (a.toList ++ b.toList))).bools = [M2.relEqD a b] ∧ M2.relEqD a b = false) := by
  have hm : M2.relEqD a b = M2.relEq a b Lits.matEps eps52 := by
    unfold M2.relEqD; simp only [hd.1, hd.2.1, hd.2.2]
  have c1 : (t_m2_relative_eq_d_true (envL (a.toList ++ b.toList))).Consistent ↔ Approx.relEq a.x.x b.x.x Lits.matEps eps52 = true ∧ Approx.relEq a.x.y b.x.y Lits.matEps eps52 = true ∧ Approx.relEq a.y.x b.y.x Lits.matEps eps52 = true ∧ Approx.relEq a.y.y b.y.y Lits.matEps eps52 = true := by
    simp [Tr.Consistent, envL, eps52, M2.toList, V2.toList]
  have c0 : (t_m2_relative_eq_d_false_0 (envL (a.toList ++ b.toList))).Consistent ↔ Approx.relEq a.x.x b.x.x Lits.matEps eps52 = false := by
    simp [Tr.Consistent, envL, eps52, M2.toList, V2.toList]
  refine ⟨c1, fun hc => ?_, fun hc => ?_⟩
  · have ⟨h0, h1, h2, h3⟩ := c1.1 hc
    have h := Trace.C18OpsD.t_m2_relative_eq_d_true a b h0 h1 h2 h3
    rw [hm, h.1]; exact ⟨rfl, h.2⟩
  · have h0 := c0.1 hc
    have h := Trace.C18OpsD.t_m2_relative_eq_d_false_0 a b h0
    rw [hm, h.1]; exact ⟨rfl, h.2⟩

/-! ### `m2.ulps_eq_d` -/
/-- **`ulps_eq!(a, b)` on `m2` as computed**: the `true` path is the one taken iff every component pair is within the MATRIX default epsilon `Lits.matEps`; the path taken (`true`, or `false_0`: the first pair already fails) returns the model's default-tolerance form -/
theorem code_m2_ulps_eq_d (hd : DefaultTols K) (a b : M2 K) :
    ((t_m2_ulps_eq_d_true (envL (a.toList ++ b.toList))).Consistent ↔ Approx.ulpsEq a.x.x b.x.x Lits.matEps 4 = true ∧ Approx.ulpsEq a.x.y b.x.y Lits.matEps 4 = true ∧ Approx.ulpsEq a.y.x b.y.x Lits.matEps 4 = true ∧ Approx.ulpsEq a.y.y b.y.y Lits.matEps 4 = true) ∧
    ((t_m2_ulps_eq_d_true (envL (a.toList ++ b.toList))).Consistent → (t_m2_ulps_eq_d_true (envL (a.toList ++ b.toList))).bools = [M2.ulpsEqD a b] ∧ M2.ulpsEqD a b = true) ∧
    ((t_m2_ulps_eq_d_false_0 (envL (a.toList ++ b.toList))).Consistent → (t_m2_ulps_eq_d_false_0 (envL (a.toList ++ b.toList))).bools = [M2.ulpsEqD a b] ∧ M2.ulpsEqD a b = false) := by
  have hm : M2.ulpsEqD a b = M2.ulpsEq a b Lits.matEps 4 := by
    unfold M2.ulpsEqD; simp only [hd.1, hd.2.1, hd.2.2]
  have c1 : (t_m2_ulps_eq_d_true (envL (a.toList ++ b.toList))).Consistent ↔ Approx.ulpsEq a.x.x b.x.x Lits.matEps 4 = true ∧ Approx.ulpsEq a.x.y b.x.y Lits.matEps 4 = true ∧ Approx.ulpsEq a.y.x b.y.x Lits.matEps 4 = true ∧ Approx.ulpsEq a.y.y b.y.y Lits.matEps 4 = true := by
    simp [Tr.Consistent, envL, eps52, M2.toList, V2.toList]
  have c0 : (t_m2_ulps_eq_d_false_0 (envL (a.toList ++ b.toList))).Consistent ↔ Approx.ulpsEq a.x.x b.x.x Lits.matEps 4 = false := by
    simp [Tr.Consistent, envL, eps52, M2.toList, V2.toList]
  refine ⟨c1, fun hc => ?_, fun hc => ?_⟩
  · have ⟨h0, h1, h2, h3⟩ := c1.1 hc
    have h := Trace.C18OpsD.t_m2_ulps_eq_d_true a b h0 h1 h2 h3
    rw [hm, h.1]; exact ⟨rfl, h.2⟩
  · have h0 := c0.1 hc
    have h := Trace.C18OpsD.t_m2_ulps_eq_d_false_0 a b h0
    rw [hm, h.1]; exact ⟨rfl, h.2⟩

/-! ### `m3.abs_diff_eq_d` -/
/-- **`abs_diff_eq!(a, b)` on `m3` as computed**: the `true` path is the one taken iff every component pair is within the MATRIX default epsilon `Lits.matEps`; the path taken (`true`, or `false_0`: the first pair already fails) returns the model's default-tolerance form -/
theorem code_m3_abs_diff_eq_d (hd : DefaultTols K) (a b : M3 K) :
    ((t_m3_abs_diff_eq_d_true (envL (a.toList ++ b.toList))).Consistent ↔ Approx.absDiffEq a.x.x b.x.x Lits.matEps = true ∧ Approx.absDiffEq a.x.y b.x.y Lits.matEps = true ∧ Approx.absDiffEq a.x.z b.x.z Lits.matEps = true ∧ Approx.absDiffEq a.y.x b.y.x Lits.matEps = true ∧ Approx.absDiffEq a.y.y b.y.y Lits.matEps = true ∧ Approx.absDiffEq a.y.z b.y.z Lits.matEps = true ∧ Approx.absDiffEq a.z.x b.z.x Lits.matEps = true ∧ Approx.absDiffEq a.z.y b.z.y Lits.matEps = true ∧ Approx.absDiffEq a.z.z b.z.z Lits.matEps = true) ∧
    ((t_m3_abs_diff_eq_d_true (envL (a.toList ++ b.toList))).Consistent → (t_m3_abs_diff_eq_d_true (envL (a.toList ++ b.toList))).bools = [M3.absDiffEqD a b] ∧ M3.absDiffEqD a b = true) ∧
    ((t_m3_abs_diff_eq_d_false_0 (envL (a.toList ++ b.toList))).Consistent → (t_m3_abs_diff_eq_d_false_0 (envL (a.toList ++ b.toList))).bools = [M3.absDiffEqD a b] ∧ M3.absDiffEqD a b = false) := by
  have hm : M3.absDiffEqD a b = M3.absDiffEq a b Lits.matEps := by
    unfold M3.absDiffEqD; simp only [hd.1, hd.2.1, hd.2.2]
  have c1 : (t_m3_abs_diff_eq_d_true (envL (a.toList ++ b.toList))).Consistent ↔ Approx.absDiffEq a.x.x b.x.x Lits.matEps = true ∧ Approx.absDiffEq a.x.y b.x.y Lits.matEps = true ∧ Approx.absDiffEq a.x.z b.x.z Lits.matEps = true ∧ Approx.absDiffEq a.y.x b.y.x Lits.matEps = true ∧ Approx.absDiffEq a.y.y b.y.y Lits.matEps = true ∧ Approx.absDiffEq a.y.z b.y.z Lits.matEps = true ∧ Approx.absDiffEq a.z.x b.z.x Lits.matEps = true ∧ Approx.absDiffEq a.z.y b.z.y Lits.matEps = true ∧ Approx.absDiffEq a.z.z b.z.z Lits.matEps = true := by
    simp [Tr.Consistent, envL, eps52, M3.toList, V3.toList]
  have c0 : (t_m3_abs_diff_eq_d_false_0 (envL (a.toList ++ b.toList))).Consistent ↔ Approx.absDiffEq a.x.x b.x.x Lits.matEps = false := by
    simp [Tr.Consistent, envL, eps52, M3.toList, V3.toList]
  refine ⟨c1, fun hc => ?_, fun hc => ?_⟩
  · have ⟨h0, h1, h2, h3, h4, h5, h6, h7, h8⟩ := c1.1 hc
    have h := Trace.C18OpsD.t_m3_abs_diff_eq_d_true a b h0 h1 h2 h3 h4 h5 h6 h7 h8
    rw [hm, h.1]; exact ⟨rfl, h.2⟩
  · have h0 := c0.1 hc
    have h := Trace.C18OpsD.t_m3_abs_diff_eq_d_false_0 a b h0
    rw [hm, h.1]; exact ⟨rfl, h.2⟩

/-! ### `m3.relative_eq_d` -/
/-- **`relative_eq!(a, b)` on `m3` as computed**: the `true` path is the one taken iff every component pair is within the MATRIX default epsilon `Lits.matEps`; the path taken (`true`, or `false_0`: the first pair already fails) returns the model's default-tolerance form -/
theorem code_m3_relative_eq_d (hd : DefaultTols K) (a b : M3 K) :
    ((t_m3_relative_eq_d_true (envL (a.toList ++ b.toList))).Consistent ↔ Approx.relEq a.x.x b.x.x Lits.matEps eps52 = true ∧ Approx.relEq a.x.y b.x.y Lits.matEps eps52 = true ∧ Approx.relEq a.x.z b.x.z Lits.matEps eps52 = true ∧ Approx.relEq a.y.x b.y.x Lits.matEps eps52 = true ∧ Approx.relEq a.y.y b.y.y Lits.matEps eps52 = true ∧ Approx.relEq a.y.z b.y.z Lits.matEps eps52 = true ∧ Approx.relEq a.z.x b.z.x Lits.matEps eps52 = true ∧ Approx.relEq a.z.y b.z.y Lits.matEps eps52 = true ∧ Approx.relEq a.z.z b.z.z Lits.matEps eps52 = true) ∧
    ((t_m3_relative_eq_d_true (envL (a.toList ++ b.toList))).Consistent → (t_m3_relative_eq_d_true (envL (a.toList ++ b.toList))).bools = [M3.relEqD a b] ∧ M3.relEqD a b = true) ∧
    ((t_m3_relative_eq_d_false_0 (envL (a.toList ++ b.toList))).Consistent → (t_m3_relative_eq_d_false_0 (envL (a.toList ++ b.toList))).bools = [M3.relEqD a b] ∧ M3.relEqD a b = false) := by
  have hm : M3.relEqD a b = M3.relEq a b Lits.matEps eps52 := by
    unfold M3.relEqD; simp only [hd.1, hd.2.1, hd.2.2]
  have c1 : (t_m3_relative_eq_d_true (envL (a.toList ++ b.toList))).Consistent ↔ Approx.relEq a.x.x b.x.x Lits.matEps eps52 = true ∧ Approx.relEq a.x.y b.x.y Lits.matEps eps52 = true ∧ Approx.relEq a.x.z b.x.z Lits.matEps eps52 = true ∧ Approx.relEq a.y.x b.y.x Lits.matEps eps52 = true ∧ Approx.relEq a.y.y b.y.y Lits.matEps eps52 = true ∧ Approx.relEq a.y.z b.y.z Lits.matEps eps52 = true ∧ Approx.relEq a.z.x b.z.x Lits.matEps eps52 = true ∧ Approx.relEq a.z.y b.z.y Lits.matEps eps52 = true ∧ Approx.relEq a.z.z b.z.z Lits.matEps eps52 = true := by
    simp [Tr.Consistent, envL, eps52, M3.toList, V3.toList]
  have c0 : (t_m3_relative_eq_d_false_0 (envL (a.toList ++ b.toList))).Consistent ↔ Approx.relEq a.x.x b.x.x Lits.matEps eps52 = false := by
    simp [Tr.Consistent, envL, eps52, M3.toList, V3.toList]
  refine ⟨c1, fun hc => ?_, fun hc => ?_⟩
  · have ⟨h0, h1, h2, h3, h4, h5, h6, h7, h8⟩ := c1.1 hc
    have h := Trace.C18OpsD.t_m3_relative_eq_d_true a b h0 h1 h2 h3 h4 h5 h6 h7 h8
    rw [hm, h.1]; exact ⟨rfl, h.2⟩
  · have h0 := c0.1 hc
    have h := Trace.C18OpsD.t_m3_relative_eq_d_false_0 a b h0
    rw [hm, h.1]; exact ⟨rfl, h.2⟩

/-! ### `m3.ulps_eq_d` -/
/-- **`ulps_eq!(a, b)` on `m3` as computed**: the `true` path is the one taken iff every component pair is within the MATRIX default epsilon `Lits.matEps`; the path taken (`true`, or `false_0`: the first pair already fails) returns the model's default-tolerance form -/
theorem code_m3_ulps_eq_d (hd : DefaultTols K) (a b : M3 K) :
    ((t_m3_ulps_eq_d_true (envL (a.toList ++ b.toList))).Consistent ↔ Approx.ulpsEq a.x.x b.x.x Lits.matEps 4 = true ∧ Approx.ulpsEq a.x.y b.x.y Lits.matEps 4 = true ∧ Approx.ulpsEq a.x.z b.x.z Lits.matEps 4 = true ∧ Approx.ulpsEq a.y.x b.y.x Lits.matEps 4 = true ∧ Approx.ulpsEq a.y.y b.y.y Lits.matEps 4 = true ∧ Approx.ulpsEq a.y.z b.y.z Lits.matEps 4 = true ∧ Approx.ulpsEq a.z.x b.z.x Lits.matEps 4 = true ∧ Approx.ulpsEq a.z.y b.z.y Lits.matEps 4 = true ∧ Approx.ulpsEq a.z.z b.z.z Lits.matEps 4 = true) ∧
    ((t_m3_ulps_eq_d_true (envL (a.toList ++ b.toList))).Consistent → (t_m3_ulps_eq_d_true (envL (a.toList ++ b.toList))).bools = [M3.ulpsEqD a b] ∧ M3.ulpsEqD a b = true) ∧
    ((t_m3_ulps_eq_d_false_0 (envL (a.toList ++ b.toList))).Consistent → (t_m3_ulps_eq_d_false_0 (envL (a.toList ++ b.toList))).bools = [M3.ulpsEqD a b] ∧ M3.ulpsEqD a b = false) := by
  have hm : M3.ulpsEqD a b = M3.ulpsEq a b Lits.matEps 4 := by
    unfold M3.ulpsEqD; simp only [hd.1, hd.2.1, hd.2.2]
  have c1 : (t_m3_ulps_eq_d_true (envL (a.toList ++ b.toList))).Consistent ↔ Approx.ulpsEq a.x.x b.x.x Lits.matEps 4 = true ∧ Approx.ulpsEq a.x.y b.x.y Lits.matEps 4 = true ∧ Approx.ulpsEq a.x.z b.x.z Lits.matEps 4 = true ∧ Approx.ulpsEq a.y.x b.y.x Lits.matEps 4 = true ∧ Approx.ulpsEq a.y.y b.y.y Lits.matEps 4 = true ∧ Approx.ulpsEq a.y.z b.y.z Lits.matEps 4 = true ∧ Approx.ulpsEq a.z.x b.z.x Lits.matEps 4 = true ∧ Approx.ulpsEq a.z.y b.z.y Lits.matEps 4 = true ∧ Approx.ulpsEq a.z.z b.z.z Lits.matEps 4 = true := by
    simp [Tr.Consistent, envL, eps52, M3.toList, V3.toList]
  have c0 : (t_m3_ulps_eq_d_false_0 (envL (a.toList ++ b.toList))).Consistent ↔ Approx.ulpsEq a.x.x b.x.x Lits.matEps 4 = false := by
    simp [Tr.Consistent, envL, eps52, M3.toList, V3.toList]
  refine ⟨c1, fun hc => ?_, fun hc => ?_⟩
  · have ⟨h0, h1, h2, h3, h4, h5, h6, h7, h8⟩ := c1.1 hc
    have h := Trace.C18OpsD.t_m3_ulps_eq_d_true a b h0 h1 h2 h3 h4 h5 h6 h7 h8
    rw [hm, h.1]; exact ⟨rfl, h.2⟩
  · have h0 := c0.1 hc
    have h := Trace.C18OpsD.t_m3_ulps_eq_d_false_0 a b h0
    rw [hm, h.1]; exact ⟨rfl, h.2⟩

/-! ### `m4.abs_diff_eq_d` -/
/-- **`abs_diff_eq!(a, b)` on `m4` as computed**: the `true` path is the one taken iff every component pair is within the MATRIX default epsilon `Lits.matEps`; the path taken (`true`, or `false_0`: the first pair already fails) returns the model's default-tolerance form -/
theorem code_m4_abs_diff_eq_d (hd : DefaultTols K) (a b : M4 K) :
    ((t_m4_abs_diff_eq_d_true (envL (a.toList ++ b.toList))).Consistent ↔ Approx.absDiffEq a.x.x b.x.x Lits.matEps = true ∧ Approx.absDiffEq a.x.y b.x.y Lits.matEps = true ∧ Approx.absDiffEq a.x.z b.x.z Lits.matEps = true ∧ Approx.absDiffEq a.x.w b.x.w Lits.matEps = true ∧ Approx.absDiffEq a.y.x b.y.x Lits.matEps = true ∧ Approx.absDiffEq a.y.y b.y.y Lits.matEps = true ∧ Approx.absDiffEq a.y.z b.y.z Lits.matEps = true ∧ Approx.absDiffEq a.y.w b.y.w Lits.matEps = true ∧ Approx.absDiffEq a.z.x b.z.x Lits.matEps = true ∧ Approx.absDiffEq a.z.y b.z.y Lits.matEps = true ∧ Approx.absDiffEq a.z.z b.z.z Lits.matEps = true ∧ Approx.absDiffEq a.z.w b.z.w Lits.matEps = true ∧ Approx.absDiffEq a.w.x b.w.x Lits.matEps = true ∧ Approx.absDiffEq a.w.y b.w.y Lits.matEps = true ∧ Approx.absDiffEq a.w.z b.w.z Lits.matEps = true ∧ Approx.absDiffEq a.w.w b.w.w Lits.matEps = true) ∧
    ((t_m4_abs_diff_eq_d_true (envL (a.toList ++ b.toList))).Consistent → (t_m4_abs_diff_eq_d_true (envL (a.toList ++ b.toList))).bools = [M4.absDiffEqD a b] ∧ M4.absDiffEqD a b = true) ∧
    ((t_m4_abs_diff_eq_d_false_0 (envL (a.toList ++ b.toList))).Consistent → (t_m4_abs_diff_eq_d_false_0 (envL (a.toList ++ b.toList))).bools = [M4.absDiffEqD a b] ∧ M4.absDiffEqD a b = false) := by
  have hm : M4.absDiffEqD a b = M4.absDiffEq a b Lits.matEps := by
    unfold M4.absDiffEqD; simp only [hd.1, hd.2.1, hd.2.2]
  have c1 : (t_m4_abs_diff_eq_d_true (envL (a.toList ++ b.toList))).Consistent ↔ Approx.absDiffEq a.x.x b.x.x Lits.matEps = true ∧ Approx.absDiffEq a.x.y b.x.y Lits.matEps = true ∧ Approx.absDiffEq a.x.z b.x.z Lits.matEps = true ∧ Approx.absDiffEq a.x.w b.x.w Lits.matEps = true ∧ Approx.absDiffEq a.y.x b.y.x Lits.matEps = true ∧ Approx.absDiffEq a.y.y b.y.y Lits.matEps = true ∧ Approx.absDiffEq a.y.z b.y.z Lits.matEps = true ∧ Approx.absDiffEq a.y.w b.y.w Lits.matEps = true ∧ Approx.absDiffEq a.z.x b.z.x Lits.matEps = true ∧ Approx.absDiffEq a.z.y b.z.y Lits.matEps = true ∧ Approx.absDiffEq a.z.z b.z.z Lits.matEps = true ∧ Approx.absDiffEq a.z.w b.z.w Lits.matEps = true ∧ Approx.absDiffEq a.w.x b.w.x Lits.matEps = true ∧ Approx.absDiffEq a.w.y b.w.y Lits.matEps = true ∧ Approx.absDiffEq a.w.z b.w.z Lits.matEps = true ∧ Approx.absDiffEq a.w.w b.w.w Lits.matEps = true := by
    simp [Tr.Consistent, envL, eps52, M4.toList, V4.toList]
  have c0 : (t_m4_abs_diff_eq_d_false_0 (envL (a.toList ++ b.toList))).Consistent ↔ Approx.absDiffEq a.x.x b.x.x Lits.matEps = false := by
    simp [Tr.Consistent, envL, eps52, M4.toList, V4.toList]
  refine ⟨c1, fun hc => ?_, fun hc => ?_⟩
  · have ⟨h0, h1, h2, h3, h4, h5, h6, h7, h8, h9, h10, h11, h12, h13, h14, h15⟩ := c1.1 hc
    have h := Trace.C18OpsD.t_m4_abs_diff_eq_d_true a b h0 h1 h2 h3 h4 h5 h6 h7 h8 h9 h10 h11 h12 h13 h14 h15
    rw [hm, h.1]; exact ⟨rfl, h.2⟩
  · have h0 := c0.1 hc
    have h := Trace.C18OpsD.t_m4_abs_diff_eq_d_false_0 a b h0
    rw [hm, h.1]; exact ⟨rfl, h.2⟩

/-! ### `m4.relative_eq_d` -/
/-- **`relative_eq!(a, b)` on `m4` as computed**: the `true` path is the one taken iff every component pair is within the MATRIX default epsilon `Lits.matEps`; the path taken (`true`, or `false_0`: the first pair already fails) returns the model's default-tolerance form -/
theorem code_m4_relative_eq_d (hd : DefaultTols K) (a b : M4 K) :
    ((t_m4_relative_eq_d_true (envL (a.toList ++ b.toList))).Consistent ↔ Approx.relEq a.x.x b.x.x Lits.matEps eps52 = true ∧ Approx.relEq a.x.y b.x.y Lits.matEps eps52 = true ∧ Approx.relEq a.x.z b.x.z Lits.matEps eps52 = true ∧ Approx.relEq a.x.w b.x.w Lits.matEps eps52 = true ∧ Approx.relEq a.y.x b.y.x Lits.matEps eps52 = true ∧ Approx.relEq a.y.y b.y.y Lits.matEps eps52 = true ∧ Approx.relEq a.y.z b.y.z Lits.matEps eps52 = true ∧ Approx.relEq a.y.w b.y.w Lits.matEps eps52 = true ∧ Approx.relEq a.z.x b.z.x Lits.matEps eps52 = true ∧ Approx.relEq a.z.y b.z.y Lits.matEps eps52 = true ∧ Approx.relEq a.z.z b.z.z Lits.matEps eps52 = true ∧ Approx.relEq a.z.w b.z.w Lits.matEps eps52 = true ∧ Approx.relEq a.w.x b.w.x Lits.matEps eps52 = true ∧ Approx.relEq a.w.y b.w.y Lits.matEps eps52 = true ∧ Approx.relEq a.w.z b.w.z Lits.matEps eps52 = true ∧ Approx.relEq a.w.w b.w.w Lits.matEps eps52 = true) ∧
    ((t_m4_relative_eq_d_true (envL (a.toList ++ b.toList))).Consistent → (t_m4_relative_eq_d_true (envL (a.toList ++ b.toList))).bools = [M4.relEqD a b] ∧ M4.relEqD a b = true) ∧
    ((t_m4_relative_eq_d_false_0 (envL (a.toList ++ b.toList))).Consistent → (t_m4_relative_eq_d_false_0 (envL (a.toList ++ b.toList))).bools = [M4.relEqD a b] ∧ M4.relEqD a b = false) := by
  have hm : M4.relEqD a b = M4.relEq a b Lits.matEps eps52 := by
    unfold M4.relEqD; simp only [hd.1, hd.2.1, hd.2.2]
  have c1 : (t_m4_relative_eq_d_true (envL (a.toList ++ b.toList))).Consistent ↔ Approx.relEq a.x.x b.x.x Lits.matEps eps52 = true ∧ Approx.relEq a.x.y b.x.y Lits.matEps eps52 = true ∧ Approx.relEq a.x.z b.x.z Lits.matEps eps52 = true ∧ Approx.relEq a.x.w b.x.w Lits.matEps eps52 = true ∧ Approx.relEq a.y.x b.y.x Lits.matEps eps52 = true ∧ Approx.relEq a.y.y b.y.y Lits.matEps eps52 = true ∧ Approx.relEq a.y.z b.y.z Lits.matEps eps52 = true ∧ Approx.relEq a.y.w b.y.w Lits.matEps eps52 = true ∧ Approx.relEq a.z.x b.z.x Lits.matEps eps52 = true ∧ Approx.relEq a.z.y b.z.y Lits.matEps eps52 = true ∧ Approx.relEq a.z.z b.z.z Lits.matEps eps52 = true ∧ Approx.relEq a.z.w b.z.w Lits.matEps eps52 = true ∧ Approx.relEq a.w.x b.w.x Lits.matEps eps52 = true ∧ Approx.relEq a.w.y b.w.y Lits.matEps eps52 = true ∧ Approx.relEq a.w.z b.w.z Lits.matEps eps52 = true ∧ Approx.relEq a.w.w b.w.w Lits.matEps eps52 = true := by
    simp [Tr.Consistent, envL, eps52, M4.toList, V4.toList]
  have c0 : (t_m4_relative_eq_d_false_0 (envL (a.toList ++ b.toList))).Consistent ↔ Approx.relEq a.x.x b.x.x Lits.matEps eps52 = false := by
    simp [Tr.Consistent, envL, eps52, M4.toList, V4.toList]
  refine ⟨c1, fun hc => ?_, fun hc => ?_⟩
  · have ⟨h0, h1, h2, h3, h4, h5, h6, h7, h8, h9, h10, h11, h12, h13, h14, h15⟩ := c1.1 hc
    have h := Trace.C18OpsD.t_m4_relative_eq_d_true a b h0 h1 h2 h3 h4 h5 h6 h7 h8 h9 h10 h11 h12 h13 h14 h15
    rw [hm, h.1]; exact ⟨rfl, h.2⟩
  · have h0 := c0.1 hc
    have h := Trace.C18OpsD.t_m4_relative_eq_d_false_0 a b h0
    rw [hm, h.1]; exact ⟨rfl, h.2⟩

/-! ### `m4.ulps_eq_d` -/
/-- **`ulps_eq!(a, b)` on `m4` as computed**: the `true` path is the one taken iff every component pair is within the MATRIX default epsilon `Lits.matEps`; the path taken (`true`, or `false_0`: the first pair already fails) returns the model's default-tolerance form -/
theorem code_m4_ulps_eq_d (hd : DefaultTols K) (a b : M4 K) :
    ((t_m4_ulps_eq_d_true (envL (a.toList ++ b.toList))).Consistent ↔ Approx.ulpsEq a.x.x b.x.x Lits.matEps 4 = true ∧ Approx.ulpsEq a.x.y b.x.y Lits.matEps 4 = true ∧ Approx.ulpsEq a.x.z b.x.z Lits.matEps 4 = true ∧ Approx.ulpsEq a.x.w b.x.w Lits.matEps 4 = true ∧ Approx.ulpsEq a.y.x b.y.x Lits.matEps 4 = true ∧ Approx.ulpsEq a.y.y b.y.y Lits.matEps 4 = true ∧ Approx.ulpsEq a.y.z b.y.z Lits.matEps 4 = true ∧ Approx.ulpsEq a.y.w b.y.w Lits.matEps 4 = true ∧ Approx.ulpsEq a.z.x b.z.x Lits.matEps 4 = true ∧ Approx.ulpsEq a.z.y b.z.y Lits.matEps 4 = true ∧ Approx.ulpsEq a.z.z b.z.z Lits.matEps 4 = true ∧ Approx.ulpsEq a.z.w b.z.w Lits.matEps 4 = true ∧ Approx.ulpsEq a.w.x b.w.x Lits.matEps 4 = true ∧ Approx.ulpsEq a.w.y b.w.y Lits.matEps 4 = true ∧ Approx.ulpsEq a.w.z b.w.z Lits.matEps 4 = true ∧ Approx.ulpsEq a.w.w b.w.w Lits.matEps 4 = true) ∧
    ((t_m4_ulps_eq_d_true (envL (a.toList ++ b.toList))).Consistent → (t_m4_ulps_eq_d_true (envL (a.toList ++ b.toList))).bools = [M4.ulpsEqD a b] ∧ M4.ulpsEqD a b = true) ∧
    ((t_m4_ulps_eq_d_false_0 (envL (a.toList ++ b.toList))).Consistent → (t_m4_ulps_eq_d_false_0 (envL (a.toList ++ b.toList))).bools = [M4.ulpsEqD a b] ∧ M4.ulpsEqD a b = false) := by
  have hm : M4.ulpsEqD a b = M4.ulpsEq a b Lits.matEps 4 := by
    unfold M4.ulpsEqD; simp only [hd.1, hd.2.1, hd.2.2]
  have c1 : (t_m4_ulps_eq_d_true (envL (a.toList ++ b.toList))).Consistent ↔ Approx.ulpsEq a.x.x b.x.x Lits.matEps 4 = true ∧ Approx.ulpsEq a.x.y b.x.y Lits.matEps 4 = true ∧ Approx.ulpsEq a.x.z b.x.z Lits.matEps 4 = true ∧ Approx.ulpsEq a.x.w b.x.w Lits.matEps 4 = true ∧ Approx.ulpsEq a.y.x b.y.x Lits.matEps 4 = true ∧ Approx.ulpsEq a.y.y b.y.y Lits.matEps 4 = true ∧ Approx.ulpsEq a.y.z b.y.z Lits.matEps 4 = true ∧ Approx.ulpsEq a.y.w b.y.w Lits.matEps 4 = true ∧ Approx.ulpsEq a.z.x b.z.x Lits.matEps 4 = true ∧ Approx.ulpsEq a.z.y b.z.y Lits.matEps 4 = true ∧ Approx.ulpsEq a.z.z b.z.z Lits.matEps 4 = true ∧ Approx.ulpsEq a.z.w b.z.w Lits.matEps 4 = true ∧ Approx.ulpsEq a.w.x b.w.x Lits.matEps 4 = true ∧ Approx.ulpsEq a.w.y b.w.y Lits.matEps 4 = true ∧ Approx.ulpsEq a.w.z b.w.z Lits.matEps 4 = true ∧ Approx.ulpsEq a.w.w b.w.w Lits.matEps 4 = true := by
    simp [Tr.Consistent, envL, eps52, M4.toList, V4.toList]
  have c0 : (t_m4_ulps_eq_d_false_0 (envL (a.toList ++ b.toList))).Consistent ↔ Approx.ulpsEq a.x.x b.x.x Lits.matEps 4 = false := by
    simp [Tr.Consistent, envL, eps52, M4.toList, V4.toList]
  refine ⟨c1, fun hc => ?_, fun hc => ?_⟩
  · have ⟨h0, h1, h2, h3, h4, h5, h6, h7, h8, h9, h10, h11, h12, h13, h14, h15⟩ := c1.1 hc
    have h := Trace.C18OpsD.t_m4_ulps_eq_d_true a b h0 h1 h2 h3 h4 h5 h6 h7 h8 h9 h10 h11 h12 h13 h14 h15
    rw [hm, h.1]; exact ⟨rfl, h.2⟩
  · have h0 := c0.1 hc
    have h := Trace.C18OpsD.t_m4_ulps_eq_d_false_0 a b h0
    rw [hm, h.1]; exact ⟨rfl, h.2⟩

/-! ### `q.abs_diff_eq_d` -/
/-- **`abs_diff_eq!(a, b)` on `q` as computed**: the `true` path is the one taken iff every component pair is within the scalar defaults; the path taken (`true`, or `false_0`: the first pair already fails) returns the model's default-tolerance form -/
theorem code_q_abs_diff_eq_d (hd : DefaultTols K) (a b : Quat K) :
    ((t_q_abs_diff_eq_d_true (envL (a.toList ++ b.toList))).Consistent ↔ Approx.absDiffEq a.s b.s eps52 = true ∧ Approx.absDiffEq a.v.x b.v.x eps52 = true ∧ Approx.absDiffEq a.v.y b.v.y eps52 = true ∧ Approx.absDiffEq a.v.z b.v.z eps52 = true) ∧
    ((t_q_abs_diff_eq_d_true (envL (a.toList ++ b.toList))).Consistent → (t_q_abs_diff_eq_d_true (envL (a.toList ++ b.toList))).bools = [Quat.absDiffEqD a b] ∧ Quat.absDiffEqD a b = true) ∧
    ((t_q_abs_diff_eq_d_false_0 (envL (a.toList ++ b.toList))).Consistent → (t_q_abs_diff_eq_d_false_0 (envL (a.toList ++ b.toList))).bools = [Quat.absDiffEqD a b] ∧ Quat.absDiffEqD a b = false) := by
  have hm : Quat.absDiffEqD a b = Quat.absDiffEq a b eps52 := by
    unfold Quat.absDiffEqD; simp only [hd.1, hd.2.1, hd.2.2]
  have c1 : (t_q_abs_diff_eq_d_true (envL (a.toList ++ b.toList))).Consistent ↔ Approx.absDiffEq a.s b.s eps52 = true ∧ Approx.absDiffEq a.v.x b.v.x eps52 = true ∧ Approx.absDiffEq a.v.y b.v.y eps52 = true ∧ Approx.absDiffEq a.v.z b.v.z eps52 = true := by
    simp [Tr.Consistent, envL, eps52, Quat.toList, V3.toList]
  have c0 : (t_q_abs_diff_eq_d_false_0 (envL (a.toList ++ b.toList))).Consistent ↔ Approx.absDiffEq a.s b.s eps52 = false := by
    simp [Tr.Consistent, envL, eps52, Quat.toList, V3.toList]
  refine ⟨c1, fun hc => ?_, fun hc => ?_⟩
  · have ⟨h0, h1, h2, h3⟩ := c1.1 hc
    have h := Trace.C18OpsD.t_q_abs_diff_eq_d_true a b h0 h1 h2 h3
    rw [hm, h.1]; exact ⟨rfl, h.2⟩
  · have h0 := c0.1 hc
    have h := Trace.C18OpsD.t_q_abs_diff_eq_d_false_0 a b h0
    rw [hm, h.1]; exact ⟨rfl, h.2⟩

/-! ### `q.relative_eq_d` -/
/-- **`relative_eq!(a, b)` on `q` as computed**: the `true` path is the one taken iff every component pair is within the scalar defaults; the path taken (`true`, or `false_0`: the first pair already fails) returns the model's default-tolerance form -/
theorem code_q_relative_eq_d (hd : DefaultTols K) (a b : Quat K) :
    ((t_q_relative_eq_d_true (envL (a.toList ++ b.toList))).Consistent ↔ Approx.relEq a.s b.s eps52 eps52 = true ∧ Approx.relEq a.v.x b.v.x eps52 eps52 = true ∧ Approx.relEq a.v.y b.v.y eps52 eps52 = true ∧ Approx.relEq a.v.z b.v.z eps52 eps52 = true) ∧
    ((t_q_relative_eq_d_true (envL (a.toList ++ b.toList))).Consistent → (t_q_relative_eq_d_true (envL (a.toList ++ b.toList))).bools = [Quat.relEqD a b] ∧ Quat.relEqD a b = true) ∧
    ((t_q_relative_eq_d_false_0 (envL (a.toList ++ b.toList))).Consistent → (t_q_relative_eq_d_false_0 (envL (a.toList ++ b.toList))).bools = [Quat.relEqD a b] ∧ Quat.relEqD a b = false) := by
  have hm : Quat.relEqD a b = Quat.relEq a b eps52 eps52 := by
    unfold Quat.relEqD; simp only [hd.1, hd.2.1, hd.2.2]
  have c1 : (t_q_relative_eq_d_true (envL (a.toList ++ b.toList))).Consistent ↔ Approx.relEq a.s b.s eps52 eps52 = true ∧ Approx.relEq a.v.x b.v.x eps52 eps52 = true ∧ Approx.relEq a.v.y b.v.y eps52 eps52 = true ∧ Approx.relEq a.v.z b.v.z eps52 eps52 = true := by
    simp [Tr.Consistent, envL, eps52, Quat.toList, V3.toList]
  have c0 : (t_q_relative_eq_d_false_0 (envL (a.toList ++ b.toList))).Consistent ↔ Approx.relEq a.s b.s eps52 eps52 = false := by
    simp [Tr.Consistent, envL, eps52, Quat.toList, V3.toList]
  refine ⟨c1, fun hc => ?_, fun hc => ?_⟩
  · have ⟨h0, h1, h2, h3⟩ := c1.1 hc
    have h := Trace.C18OpsD.t_q_relative_eq_d_true a b h0 h1 h2 h3
    rw [hm, h.1]; exact ⟨rfl, h.2⟩
  · have h0 := c0.1 hc
    have h := Trace.C18OpsD.t_q_relative_eq_d_false_0 a b h0
    rw [hm, h.1]; exact ⟨rfl, h.2⟩

/-! ### `q.ulps_eq_d` -/
/-- **`ulps_eq!(a, b)` on `q` as computed**: the `true` path is the one taken iff every component pair is within the scalar defaults; the path taken (`true`, or `false_0`: the first pair already fails) returns the model's default-tolerance form -/
theorem code_q_ulps_eq_d (hd : DefaultTols K) (a b : Quat K) :
    ((t_q_ulps_eq_d_true (envL (a.toList ++ b.toList))).Consistent ↔ Approx.ulpsEq a.s b.s eps52 4 = true ∧ Approx.ulpsEq a.v.x b.v.x eps52 4 = true ∧ Approx.ulpsEq a.v.y b.v.y eps52 4 = true ∧ Approx.ulpsEq a.v.z b.v.z eps52 4 = true) ∧
    ((t_q_ulps_eq_d_true (envL (a.toList ++ b.toList))).Consistent → (t_q_ulps_eq_d_true (envL (a.toList ++ b.toList))).bools = [Quat.ulpsEqD a b] ∧ Quat.ulpsEqD a b = true) ∧
    ((t_q_ulps_eq_d_false_0 (envL (a.toList ++ b.toList))).Consistent → (t_q_ulps_eq_d_false_0 (envL (a.toList ++ b.toList))).bools = [Quat.ulpsEqD a b] ∧ Quat.ulpsEqD a b = false) := by
  have hm : Quat.ulpsEqD a b = Quat.ulpsEq a b eps52 4 := by
    unfold Quat.ulpsEqD; simp only [hd.1, hd.2.1, hd.2.2]
  have c1 : (t_q_ulps_eq_d_true (envL (a.toList ++ b.toList))).Consistent ↔ Approx.ulpsEq a.s b.s eps52 4 = true ∧ Approx.ulpsEq a.v.x b.v.x eps52 4 = true ∧ Approx.ulpsEq a.v.y b.v.y eps52 4 = true ∧ Approx.ulpsEq a.v.z b.v.z eps52 4 = true := by
    simp [Tr.Consistent, envL, eps52, Quat.toList, V3.toList]
  have c0 : (t_q_ulps_eq_d_false_0 (envL (a.toList ++ b.toList))).Consistent ↔ Approx.ulpsEq a.s b.s eps52 4 = false := by
    simp [Tr.Consistent, envL, eps52, Quat.toList, V3.toList]
  refine ⟨c1, fun hc => ?_, fun hc => ?_⟩
  · have ⟨h0, h1, h2, h3⟩ := c1.1 hc
    have h := Trace.C18OpsD.t_q_ulps_eq_d_true a b h0 h1 h2 h3
    rw [hm, h.1]; exact ⟨rfl, h.2⟩
  · have h0 := c0.1 hc
    have h := Trace.C18OpsD.t_q_ulps_eq_d_false_0 a b h0
    rw [hm, h.1]; exact ⟨rfl, h.2⟩

/-! ### `rad.abs_diff_eq_d` -/
/-- **`abs_diff_eq!(a, b)` on `rad` as computed**: the `true` path is the one taken iff every component pair is within the scalar defaults; the path taken (`true`, or `false_0`: the first pair already fails) returns the model's default-tolerance form -/
theorem code_rad_abs_diff_eq_d (hd : DefaultTols K) (a b : K) :
    ((t_rad_abs_diff_eq_d_true (envL ([a, b]))).Consistent ↔ Approx.absDiffEq a b eps52 = true) ∧
    ((t_rad_abs_diff_eq_d_true (envL ([a, b]))).Consistent → (t_rad_abs_diff_eq_d_true (envL ([a, b]))).bools = [angleAbsDiffEqD a b] ∧ angleAbsDiffEqD a b = true) ∧
    ((t_rad_abs_diff_eq_d_false_0 (envL ([a, b]))).Consistent → (t_rad_abs_diff_eq_d_false_0 (envL ([a, b]))).bools = [angleAbsDiffEqD a b] ∧ angleAbsDiffEqD a b = false) := by
  have hm : angleAbsDiffEqD a b = angleAbsDiffEq a b eps52 := by
    unfold angleAbsDiffEqD; simp only [hd.1, hd.2.1, hd.2.2]
  have c1 : (t_rad_abs_diff_eq_d_true (envL ([a, b]))).Consistent ↔ Approx.absDiffEq a b eps52 = true := by
    simp [Tr.Consistent, envL, eps52]
  have c0 : (t_rad_abs_diff_eq_d_false_0 (envL ([a, b]))).Consistent ↔ Approx.absDiffEq a b eps52 = false := by
    simp [Tr.Consistent, envL, eps52]
  refine ⟨c1, fun hc => ?_, fun hc => ?_⟩
  · have h0 := c1.1 hc
    have h := Trace.C18OpsD.t_rad_abs_diff_eq_d_true a b h0
    rw [hm, h.1]; exact ⟨rfl, h.2⟩
  · have h0 := c0.1 hc
    have h := Trace.C18OpsD.t_rad_abs_diff_eq_d_false_0 a b h0
    rw [hm, h.1]; exact ⟨rfl, h.2⟩

/-! ### `rad.relative_eq_d` -/
/-- **`relative_eq!(a, b)` on `rad` as computed**: the `true` path is the one taken iff every component pair is within the scalar defaults; the path taken (`true`, or `false_0`: the first pair already fails) returns the model's default-tolerance form -/
theorem code_rad_relative_eq_d (hd : DefaultTols K) (a b : K) :
    ((t_rad_relative_eq_d_true (envL ([a, b]))).Consistent ↔ Approx.relEq a b eps52 eps52 = true) ∧
    ((t_rad_relative_eq_d_true (envL ([a, b]))).Consistent → (t_rad_relative_eq_d_true (envL ([a, b]))).bools = [angleRelEqD a b] ∧ angleRelEqD a b = true) ∧
    ((t_rad_relative_eq_d_false_0 (envL ([a, b]))).Consistent → (t_rad_relative_eq_d_false_0 (envL ([a, b]))).bools = [angleRelEqD a b] ∧ angleRelEqD a b = false) := by
  have hm : angleRelEqD a b = angleRelEq a b eps52 eps52 := by
    unfold angleRelEqD; simp only [hd.1, hd.2.1, hd.2.2]
  have c1 : (t_rad_relative_eq_d_true (envL ([a, b]))).Consistent ↔ Approx.relEq a b eps52 eps52 = true := by
    simp [Tr.Consistent, envL, eps52]
  have c0 : (t_rad_relative_eq_d_false_0 (envL ([a, b]))).Consistent ↔ Approx.relEq a b eps52 eps52 = false := by
    simp [Tr.Consistent, envL, eps52]
  refine ⟨c1, fun hc => ?_, fun hc => ?_⟩
  · have h0 := c1.1 hc
    have h := Trace.C18OpsD.t_rad_relative_eq_d_true a b h0
    rw [hm, h.1]; exact ⟨rfl, h.2⟩
  · have h0 := c0.1 hc
    have h := Trace.C18OpsD.t_rad_relative_eq_d_false_0 a b h0
    rw [hm, h.1]; exact ⟨rfl, h.2⟩

/-! ### `rad.ulps_eq_d` -/
/-- **`ulps_eq!(a, b)` on `rad` as computed**: the `true` path is the one taken iff every component pair is within the scalar defaults; the path taken (`true`, or `false_0`: the first pair already fails) returns the model's default-tolerance form -/
theorem code_rad_ulps_eq_d (hd : DefaultTols K) (a b : K) :
    ((t_rad_ulps_eq_d_true (envL ([a, b]))).Consistent ↔ Approx.ulpsEq a b eps52 4 = true) ∧
    ((t_rad_ulps_eq_d_true (envL ([a, b]))).Consistent → (t_rad_ulps_eq_d_true (envL ([a, b]))).bools = [angleUlpsEqD a b] ∧ angleUlpsEqD a b = true) ∧
    ((t_rad_ulps_eq_d_false_0 (envL ([a, b]))).Consistent → (t_rad_ulps_eq_d_false_0 (envL ([a, b]))).bools = [angleUlpsEqD a b] ∧ angleUlpsEqD a b = false) := by
  have hm : angleUlpsEqD a b = angleUlpsEq a b eps52 4 := by
    unfold angleUlpsEqD; simp only [hd.1, hd.2.1, hd.2.2]
  have c1 : (t_rad_ulps_eq_d_true (envL ([a, b]))).Consistent ↔ Approx.ulpsEq a b eps52 4 = true := by
    simp [Tr.Consistent, envL, eps52]
  have c0 : (t_rad_ulps_eq_d_false_0 (envL ([a, b]))).Consistent ↔ Approx.ulpsEq a b eps52 4 = false := by
    simp [Tr.Consistent, envL, eps52]
  refine ⟨c1, fun hc => ?_, fun hc => ?_⟩
  · have h0 := c1.1 hc
    have h := Trace.C18OpsD.t_rad_ulps_eq_d_true a b h0
    rw [hm, h.1]; exact ⟨rfl, h.2⟩
  · have h0 := c0.1 hc
    have h := Trace.C18OpsD.t_rad_ulps_eq_d_false_0 a b h0
    rw [hm, h.1]; exact ⟨rfl, h.2⟩

/-! ### `deg.abs_diff_eq_d` -/
/-- **`abs_diff_eq!(a, b)` on `deg` as computed**: the `true` path is the one taken iff every component pair is within the scalar defaults; the path taken (`true`, or `false_0`: the first pair already fails) returns the model's default-tolerance form -/
theorem code_deg_abs_diff_eq_d (hd : DefaultTols K) (a b : K) :
    ((t_deg_abs_diff_eq_d_true (envL ([a, b]))).Consistent ↔ Approx.absDiffEq a b eps52 = true) ∧
    ((t_deg_abs_diff_eq_d_true (envL ([a, b]))).Consistent → (t_deg_abs_diff_eq_d_true (envL ([a, b]))).bools = [angleAbsDiffEqD a b] ∧ angleAbsDiffEqD a b = true) ∧
    ((t_deg_abs_diff_eq_d_false_0 (envL ([a, b]))).Consistent → (t_deg_abs_diff_eq_d_false_0 (envL ([a, b]))).bools = [angleAbsDiffEqD a b] ∧ angleAbsDiffEqD a b = false) := by
  have hm : angleAbsDiffEqD a b = angleAbsDiffEq a b eps52 := by
    unfold angleAbsDiffEqD; simp only [hd.1, hd.2.1, hd.2.2]
  have c1 : (t_deg_abs_diff_eq_d_true (envL ([a, b]))).Consistent ↔ Approx.absDiffEq a b eps52 = true := by
    simp [Tr.Consistent, envL, eps52]
  have c0 : (t_deg_abs_diff_eq_d_false_0 (envL ([a, b]))).Consistent ↔ Approx.absDiffEq a b eps52 = false := by
    simp [Tr.Consistent, envL, eps52]
  refine ⟨c1, fun hc => ?_, fun hc => ?_⟩
  · have h0 := c1.1 hc
    have h := Trace.C18OpsD.t_deg_abs_diff_eq_d_true a b h0
    rw [hm, h.1]; exact ⟨rfl, h.2⟩
  · have h0 := c0.1 hc
    have h := Trace.C18OpsD.t_deg_abs_diff_eq_d_false_0 a b h0
    rw [hm, h.1]; exact ⟨rfl, h.2⟩

/-! ### `deg.relative_eq_d` -/
/-- **`relative_eq!(a, b)` on `deg` as computed**: the `true` path is the one taken iff every component pair is within the scalar defaults; the path taken (`true`, or `false_0`: the first pair already fails) returns the model's default-tolerance form -/
theorem code_deg_relative_eq_d (hd : DefaultTols K) (a b : K) :
    ((t_deg_relative_eq_d_true (envL ([a, b]))).Consistent ↔ Approx.relEq a b eps52 eps52 = true) ∧
    ((t_deg_relative_eq_d_true (envL ([a, b]))).Consistent → (t_deg_relative_eq_d_true (envL ([a, b]))).bools = [angleRelEqD a b] ∧ angleRelEqD a b = true) ∧
    ((t_deg_relative_eq_d_false_0 (envL ([a, b]))).Consistent → (t_deg_relative_eq_d_false_0 (envL ([a, b]))).bools = [angleRelEqD a b] ∧ angleRelEqD a b = false) := by
  have hm : angleRelEqD a b = angleRelEq a b eps52 eps52 := by
    unfold angleRelEqD; simp only [hd.1, hd.2.1, hd.2.2]
  have c1 : (t_deg_relative_eq_d_true (envL ([a, b]))).Consistent ↔ Approx.relEq a b eps52 eps52 = true := by
    simp [Tr.Consistent, envL, eps52]
  have c0 : (t_deg_relative_eq_d_false_0 (envL ([a, b]))).Consistent ↔ Approx.relEq a b eps52 eps52 = false := by
    simp [Tr.Consistent, envL, eps52]
  refine ⟨c1, fun hc => ?_, fun hc => ?_⟩
  · have h0 := c1.1 hc
    have h := Trace.C18OpsD.t_deg_relative_eq_d_true a b h0
    rw [hm, h.1]; exact ⟨rfl, h.2⟩
  · have h0 := c0.1 hc
    have h := Trace.C18OpsD.t_deg_relative_eq_d_false_0 a b h0
    rw [hm, h.1]; exact ⟨rfl, h.2⟩

/-! ### `deg.ulps_eq_d` -/
/-- **`ulps_eq!(a, b)` on `deg` as computed**: the `true` path is the one taken iff every component pair is within the scalar defaults; the path taken (`true`, or `false_0`: the first pair already fails) returns the model's default-tolerance form -/
theorem code_deg_ulps_eq_d (hd : DefaultTols K) (a b : K) :
    ((t_deg_ulps_eq_d_true (envL ([a, b]))).Consistent ↔ Approx.ulpsEq a b eps52 4 = true) ∧
    ((t_deg_ulps_eq_d_true (envL ([a, b]))).Consistent → (t_deg_ulps_eq_d_true (envL ([a, b]))).bools = [angleUlpsEqD a b] ∧ angleUlpsEqD a b = true) ∧
    ((t_deg_ulps_eq_d_false_0 (envL ([a, b]))).Consistent → (t_deg_ulps_eq_d_false_0 (envL ([a, b]))).bools = [angleUlpsEqD a b] ∧ angleUlpsEqD a b = false) := by
  have hm : angleUlpsEqD a b = angleUlpsEq a b eps52 4 := by
    unfold angleUlpsEqD; simp only [hd.1, hd.2.1, hd.2.2]
  have c1 : (t_deg_ulps_eq_d_true (envL ([a, b]))).Consistent ↔ Approx.ulpsEq a b eps52 4 = true := by
    simp [Tr.Consistent, envL, eps52]
  have c0 : (t_deg_ulps_eq_d_false_0 (envL ([a, b]))).Consistent ↔ Approx.ulpsEq a b eps52 4 = false := by
    simp [Tr.Consistent, envL, eps52]
  refine ⟨c1, fun hc => ?_, fun hc => ?_⟩
  · have h0 := c1.1 hc
    have h := Trace.C18OpsD.t_deg_ulps_eq_d_true a b h0
    rw [hm, h.1]; exact ⟨rfl, h.2⟩
  · have h0 := c0.1 hc
    have h := Trace.C18OpsD.t_deg_ulps_eq_d_false_0 a b h0
    rw [hm, h.1]; exact ⟨rfl, h.2⟩

end ops
end Cg.E2E.C18
