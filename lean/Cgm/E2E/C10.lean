import Cgm.Trace.C10
import Cgm.Props.C10
/-!
# C10, end to end: the projection matrices as the code computes them (see `Cgm/E2E/C02.lean`)
-/
set_option linter.unusedSectionVars false
namespace Cg.E2E.C10
open Cg Cg.Gen.C10
variable {K : Type} [Field K] [LinearOrder K] [IsStrictOrderedRing K] [Approx K] [Transc K] [FRem K] [Lits K]

/-- `ortho(l,r,b,t,n,f)` as computed maps the box `[l,r] x [b,t] x [-n,-f]` affinely onto `[-1,1]^3`, near to -1 and far to +1 -/
theorem code_ortho (l r b t n f : K) (hx : r - l ≠ 0) (hy : t - b ≠ 0) (hz : f - n ≠ 0) :
    ∃ m : M4 K, t_ortho (envL [l, r, b, t, n, f]) = .okS m.toList ∧
      (∀ x y z, m.transformPoint ⟨x, y, z⟩ = ⟨(2 * x - (r + l)) / (r - l), (2 * y - (t + b)) / (t - b), (-2 * z - (f + n)) / (f - n)⟩) ∧
      m.transformPoint ⟨l, b, -n⟩ = ⟨-1, -1, -1⟩ ∧ m.transformPoint ⟨r, t, -f⟩ = ⟨1, 1, 1⟩ :=
  ⟨ortho l r b t n f, Trace.C10.t_ortho l r b t n f, fun x y z => C10.ortho_affine l r b t n f x y z,
    (C10.ortho_corners l r b t n f hx hy hz).1, (C10.ortho_corners l r b t n f hx hy hz).2.1⟩

/-- `frustum(l,r,b,t,n,f)` on the accepted path (all three comparisons true) maps, after division by `w = -z`, the near-plane
rectangle and its similar far-plane rectangle onto the z = -1 and z = +1 faces of the cube -/
theorem code_frustum (l r b t n f : K) (h1 : l ≤ r) (h2 : b ≤ t) (h3 : n ≤ f)
    (hx : r - l ≠ 0) (hy : t - b ≠ 0) (hz : f - n ≠ 0) (hn : n ≠ 0) (hf : f ≠ 0) :
    ∃ m : M4 K, t_frustum_ok (envL [l, r, b, t, n, f]) = .okG m.toList [.le l r true, .le b t true, .le n f true] ∧
      (∀ x y z : K, (m * P3.toHomogeneous (⟨x, y, z⟩ : P3 K)).w = -z) ∧
      m.transformPoint ⟨l, b, -n⟩ = ⟨-1, -1, -1⟩ ∧ m.transformPoint ⟨r, t, -n⟩ = ⟨1, 1, -1⟩ ∧
      m.transformPoint ⟨l * (f / n), b * (f / n), -f⟩ = ⟨-1, -1, 1⟩ := by
  have hs := C10.frustum_some l r b t n f ⟨h1, h2, h3⟩
  have hk := Trace.C10.t_frustum_ok l r b t n f h1 h2 h3
  rw [hs] at hk
  have hfc := C10.frustum_faces l r b t n f hx hy hz hn hf
  exact ⟨frustumMat l r b t n f, hk, fun x y z => C10.frustum_w l r b t n f x y z, hfc.1, hfc.2.1, hfc.2.2.1⟩

/-- parameters violating the stated precondition panic: the kernel of each rejecting path is a panic (no output list) and the
comparisons it records are the precondition's, with the outcomes listed.  The three equalities hold for every input (each kernel
is a closed term; the premises of the implications are logically unused and only name the path); that a path is the one taken
exactly when its comparisons come out as recorded is `frustum_bad_*_consistent` / `code_frustum_panics_iff`, `E2E/C10g.lean`.
That the model returns no matrix on these paths is the second conjunct of `Trace.C10.t_frustum_bad_*`, not restated here -/
theorem code_frustum_rejects (l r b t n f : K) :
    (¬ l ≤ r → t_frustum_bad_lr (envL [l, r, b, t, n, f]) = .panicG [.le l r false]) ∧
    (l ≤ r → ¬ b ≤ t → t_frustum_bad_bt (envL [l, r, b, t, n, f]) = .panicG [.le l r true, .le b t false]) ∧
    (l ≤ r → b ≤ t → ¬ n ≤ f → t_frustum_bad_nf (envL [l, r, b, t, n, f]) = .panicG [.le l r true, .le b t true, .le n f false]) :=
  ⟨fun h => (Trace.C10.t_frustum_bad_lr l r b t n f h).1, fun h1 h2 => (Trace.C10.t_frustum_bad_bt l r b t n f h1 h2).1,
    fun h1 h2 h3 => (Trace.C10.t_frustum_bad_nf l r b t n f h1 h2 h3).1⟩
end Cg.E2E.C10
