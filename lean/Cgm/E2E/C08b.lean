import Cgm.E2E.C08
import Cgm.Props.C08b
import Cgm.Props.C08c
import Cgm.Lemmas.RealApprox
/-!
# C08 (continued), end to end: `inverse_transform` as the code computes it, stated with the property's bound on the scale
(`|scale| > 1e-6`) instead of the raw `approx` hypotheses, and `Matrix4::inverse_transform` undoing affine transforms
-/
set_option linter.unusedSectionVars false
namespace Cg.E2E.C08
open Cg Cg.Gen.C08 Cg.Trace.C08

section anyApprox
variable [FRem ℝ] [Lits ℝ] [Approx ℝ]

/-- for any `approx` relations meeting `ApproxSpec` with a bound `δ ≤ 1e-6`: a scale with `|scale| > 1e-6` takes the path on
which `ulps_eq!(scale, 0)` is false, and `inverse_transform()` as computed is the transform that undoes `t` on points and
vectors, with unit rotation, and whose matrix is `Matrix4::invert` of `t`'s matrix -/
theorem code_dq_inverse_of_scale {δ : ℝ} (S : ApproxSpec ℝ δ) (hδ : δ ≤ 1e-6) (t : DQ ℝ) (ht : t.rot.magnitude2 = 1)
    (hs : 1e-6 < |t.scale|) :
    ∃ i : DQ ℝ, t_dq_inverse_transform_some (envL (flq t)) = .okG (flq i) [.ulps t.scale 0 eps52 4 false] ∧
      i.rot.magnitude2 = 1 ∧
      (∀ p, i.transformPointV quatOps (t.transformPointV quatOps p) = p) ∧
      (∀ v, i.transformVector quatOps (t.transformVector quatOps v) = v) ∧
      (t.toM4 quatOps).invert = some (i.toM4 quatOps) ∧
      (∀ v : V3 ℝ, t_dq_inverse_transform_vector (envL (flq t ++ (t.transformVector quatOps v).toList)) =
        .okG v.toList [.ulps t.scale 0 eps52 4 false]) := by
  obtain ⟨hz, hne⟩ := C08.scale_guards S hδ hs
  obtain ⟨i, hi, hu, h1, h2, h3, -⟩ := C08.inverse_undoes3 quatOps _ C08.quatLaws t ht hz hne
  obtain ⟨j, hj, hm⟩ := C08.toM4_inverse quatOps _ C08.quatLaws t ht hz hne
  have hij : i = j := by rw [hi] at hj; injection hj
  have hk := Trace.C08.t_dq_inverse_transform_some t hz
  rw [hi] at hk
  refine ⟨i, hk, hu, h1, h2, by rw [hij]; exact hm, fun v => ?_⟩
  have hv := Trace.C08.t_dq_inverse_transform_vector t (t.transformVector quatOps v) hz
  rw [h3 v] at hv
  exact hv

/-- a zero scale takes the other path (`ulps_eq!(0, 0)` is true), on which the code returns `None` -/
theorem code_dq_inverse_zero {δ : ℝ} (S : ApproxSpec ℝ δ) (t : DQ ℝ) (h0 : t.scale = 0) :
    ulpsEqD t.scale 0 = true ∧ t_dq_inverse_transform_none (envL (flq t)) = .noneG [.ulps t.scale 0 eps52 4 true] ∧
      t.inverseTransform quatOps = .none :=
  ⟨by rw [h0]; exact S.ulpsEqD_zero_zero, Trace.C08.t_dq_inverse_transform_none t,
    (C08.inverse_none_of_scale_zero3 quatOps S t h0).1⟩
end anyApprox

section concrete
open scoped Cg.RealApprox
variable [FRem ℝ] [Lits ℝ]

/-- with the real `approx` relations (`ulps_eq!(s, 0)` iff `|s| ≤ 2^-52`): for a unit rotation and `|scale| > 1e-6` the
inverse as computed undoes the transform; moreover the traced point/vector kernels applied to the traced inverse and the
traced image return the original point/vector -/
theorem code_dq_inverse_real (t : DQ ℝ) (ht : t.rot.magnitude2 = 1) (hs : 1e-6 < |t.scale|) :
    ∃ i : DQ ℝ, t_dq_inverse_transform_some (envL (flq t)) = .okG (flq i) [.ulps t.scale 0 eps52 4 false] ∧
      i.rot.magnitude2 = 1 ∧
      (∀ p, i.transformPointV quatOps (t.transformPointV quatOps p) = p) ∧
      (∀ v, i.transformVector quatOps (t.transformVector quatOps v) = v) ∧
      (t.toM4 quatOps).invert = some (i.toM4 quatOps) ∧
      (∀ p : P3 ℝ, t_dq_transform_point (envL (flq i ++ (t_dq_transform_point (envL (flq t ++ p.toList))).out)) = .okS p.toList) ∧
      (∀ v : V3 ℝ, t_dq_transform_vector (envL (flq i ++ (t_dq_transform_vector (envL (flq t ++ v.toList))).out)) =
        .okS v.toList) := by
  obtain ⟨i, hk, hu, h1, h2, hm, -⟩ := code_dq_inverse_of_scale realApproxSpec_1em6 le_rfl t ht hs
  refine ⟨i, hk, hu, h1, h2, hm, fun p => ?_, fun v => ?_⟩
  · rw [Trace.C08.t_dq_transform_point t p]
    show t_dq_transform_point (envL (flq i ++ (P3.fromVec (Decomposed.transformPointV quatOps t p.toVec)).toList)) = _
    rw [Trace.C08.t_dq_transform_point i]
    have e : (P3.fromVec (Decomposed.transformPointV quatOps t p.toVec)).toVec = Decomposed.transformPointV quatOps t p.toVec := rfl
    rw [e, h1]
    rfl
  · rw [Trace.C08.t_dq_transform_vector t v]
    show t_dq_transform_vector (envL (flq i ++ (Decomposed.transformVector quatOps t v).toList)) = _
    rw [Trace.C08.t_dq_transform_vector i, h2]

/-- the two paths with the real relations, in the property's vocabulary: `|scale| ≤ 2^-52` is exactly the `None` path -/
theorem code_dq_inverse_path_iff (t : DQ ℝ) : ulpsEqD t.scale 0 = true ↔ |t.scale| ≤ eps52R := real_ulpsEqD_zero t.scale

/-- the hypotheses are satisfiable: scale 2, identity rotation -/
example : (Quat.one : Quat ℝ).magnitude2 = 1 ∧ (1e-6 : ℝ) < |(2 : ℝ)| := by
  refine ⟨by simp [Quat.one, Quat.magnitude2, Quat.dot, Quat.fromSv, V3.dot], ?_⟩
  rw [abs_of_pos (by norm_num : (0 : ℝ) < 2)]; norm_num
end concrete

section matrix
variable [FRem ℝ] [Lits ℝ] [Approx ℝ]

/-- `Matrix4::inverse_transform()` as computed, on the path where its only comparison `det == 0` is false, for an **affine**
matrix: the traced result is an affine matrix that undoes the transform on points and on vectors, in both orders; and the
traced `transform_point` / `transform_vector` of the traced inverse applied to the traced image return the original -/
theorem code_m4_inverse_undoes (a : M4 ℝ) (hd : a.det ≠ 0) (ha : Cg.C08.M4.Affine a) :
    ∃ i : M4 ℝ, t_m4_inverse_transform_some (envL a.toList) = .okG i.toList [.eq a.det 0 false] ∧ Cg.C08.M4.Affine i ∧
      a * i = M4.one ∧ i * a = M4.one ∧
      (∀ p : P3 ℝ, i.transformPoint (a.transformPoint p) = p ∧ a.transformPoint (i.transformPoint p) = p) ∧
      (∀ v : V3 ℝ, i.transformVector (a.transformVector v) = v ∧ a.transformVector (i.transformVector v) = v) ∧
      (∀ p : P3 ℝ, t_m4_transform_point (envL (i.toList ++ (t_m4_transform_point (envL (a.toList ++ p.toList))).out)) =
        .okS p.toList) ∧
      (∀ v : V3 ℝ, t_m4_transform_vector (envL (i.toList ++ (t_m4_transform_vector (envL (a.toList ++ v.toList))).out)) =
        .okS v.toList) := by
  obtain ⟨i, hi⟩ := Cg.C02.M4.invert_some_of_det_ne a hd
  have hi' : a.inverseTransform = some i := hi
  have hk := Trace.C08.t_m4_inverse_transform_some a hd
  rw [hi'] at hk
  have hsp := Cg.C02.M4.invert_spec a i hi
  have hu := fun p v => Cg.C08.M4.inverseTransform_undoes a i hi' ha p v
  refine ⟨i, hk, (hu ⟨0, 0, 0⟩ ⟨0, 0, 0⟩).2.2.2.2, hsp.1, hsp.2, fun p => ⟨(hu p ⟨0, 0, 0⟩).1, (hu p ⟨0, 0, 0⟩).2.2.1⟩,
    fun v => ⟨(hu ⟨0, 0, 0⟩ v).2.1, (hu ⟨0, 0, 0⟩ v).2.2.2.1⟩, fun p => ?_, fun v => ?_⟩
  · rw [Trace.C08.t_m4_transform_point a p]
    show t_m4_transform_point (envL (i.toList ++ (a.transformPoint p).toList)) = _
    rw [Trace.C08.t_m4_transform_point i, (hu p ⟨0, 0, 0⟩).1]
  · rw [Trace.C08.t_m4_transform_vector a v]
    show t_m4_transform_vector (envL (i.toList ++ (a.transformVector v).toList)) = _
    rw [Trace.C08.t_m4_transform_vector i, (hu ⟨0, 0, 0⟩ v).2.1]

/-- the hypotheses are satisfiable: a translation by (1, 2, 3) scaled by 2 -/
example : (M4.new 2 0 0 0 0 2 0 0 0 0 2 0 1 2 3 1 : M4 ℝ).det ≠ 0 ∧ Cg.C08.M4.Affine (M4.new 2 0 0 0 0 2 0 0 0 0 2 0 1 2 3 1 : M4 ℝ) := by
  refine ⟨?_, rfl, rfl, rfl, rfl⟩
  norm_num [M4.new, M4.det, M4.detSubProc]
end matrix
end Cg.E2E.C08
