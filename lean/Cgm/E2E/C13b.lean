import Cgm.E2E.C13
import Cgm.Props.C13b
/-!
# C13 (continued), end to end, unconditionally over the reals: with `%` instantiated by the truncating remainder
(`Cgm/Lemmas/RealInst2.lean`, which meets `FRemSpec`) and the literals by their exact values (full turn `360` resp. `2π`), the
clauses about `normalize`, `normalize_signed`, `opposite` and `bisect` as the code computes them need no hypothesis on `%`
-/
set_option linter.unusedSectionVars false
namespace Cg.E2E.C13
open Cg Cg.Gen.C13

/-! ## `Deg` (full turn 360) -/

/-- `Deg::normalize(a)` as computed, on each of its three paths: in `[0, 360)`, a whole number of turns from `a` -/
theorem code_deg_normalize_real (a : ℝ) :
    ∃ r : ℝ, (0 < FRem.frem a (360 : ℝ) → t_deg_normalize_pos (envL [a]) = .okG [r] [.cmp (FRem.frem a 360) 0 .gt]) ∧
      (FRem.frem a (360 : ℝ) < 0 → t_deg_normalize_neg (envL [a]) = .okG [r] [.cmp (FRem.frem a 360) 0 .lt]) ∧
      (FRem.frem a (360 : ℝ) = 0 → t_deg_normalize_zero (envL [a]) = .okG [r] [.cmp (FRem.frem a 360) 0 .eq]) ∧
      0 ≤ r ∧ r < 360 ∧ ∃ k : ℤ, r = a + k * 360 :=
  code_deg_normalize C13.fremSpec_real a

/-- `Deg::normalize_signed(a)` as computed, on each of its four traced paths: in `(-180, 180]`, a whole number of turns from `a` -/
theorem code_deg_normalize_signed_real (a : ℝ) :
    ∃ r : ℝ,
      (0 < FRem.frem a (360 : ℝ) → (360 : ℝ) / 2 < FRem.frem a 360 → t_deg_normalize_signed_hi (envL [a]) =
        .okG [r] [.cmp (FRem.frem a 360) 0 .gt, .cmp (360 / 2) (FRem.frem a 360) .lt]) ∧
      (0 < FRem.frem a (360 : ℝ) → FRem.frem a 360 < (360 : ℝ) / 2 → t_deg_normalize_signed_lo (envL [a]) =
        .okG [r] [.cmp (FRem.frem a 360) 0 .gt, .cmp (360 / 2) (FRem.frem a 360) .gt]) ∧
      (FRem.frem a (360 : ℝ) < 0 → (360 : ℝ) / 2 < FRem.frem a 360 + 360 → t_deg_normalize_signed_neg_hi (envL [a]) =
        .okG [r] [.cmp (FRem.frem a 360) 0 .lt, .cmp (360 / 2) (FRem.frem a 360 + 360) .lt]) ∧
      (FRem.frem a (360 : ℝ) < 0 → FRem.frem a 360 + 360 < (360 : ℝ) / 2 → t_deg_normalize_signed_neg_lo (envL [a]) =
        .okG [r] [.cmp (FRem.frem a 360) 0 .lt, .cmp (360 / 2) (FRem.frem a 360 + 360) .gt]) ∧
      -180 < r ∧ r ≤ 180 ∧ ∃ k : ℤ, r = a + k * 360 :=
  ⟨Angle.normalizeSigned degFull a, fun h h2 => Trace.C13.t_deg_normalize_signed_hi a h h2,
    fun h h2 => Trace.C13.t_deg_normalize_signed_lo a h h2, fun h h2 => Trace.C13.t_deg_normalize_signed_neg_hi a h h2,
    fun h h2 => Trace.C13.t_deg_normalize_signed_neg_lo a h h2, C13.deg_normalizeSigned a⟩

/-- `Deg::opposite(a)` as computed (both traced paths) is `normalize(a + 180)`: in `[0, 360)` and half a turn plus whole turns
from `a` -/
theorem code_deg_opposite_real (a : ℝ) :
    ∃ r : ℝ, (0 < FRem.frem (a + 360 / 2) (360 : ℝ) → t_deg_opposite (envL [a]) =
        .okG [r] [.cmp (FRem.frem (a + 360 / 2) 360) 0 .gt]) ∧
      (FRem.frem (a + 360 / 2) (360 : ℝ) < 0 → t_deg_opposite_neg (envL [a]) =
        .okG [r] [.cmp (FRem.frem (a + 360 / 2) 360) 0 .lt]) ∧
      r = Angle.normalize (degFull : ℝ) (a + 180) ∧ 0 ≤ r ∧ r < 360 ∧ ∃ k : ℤ, r = a + 180 + k * 360 := by
  obtain ⟨-, h0, h1, k, hk⟩ := C13.opposite_spec_real (degFull : ℝ) a C13.degFull_pos
  rw [C13.degFull_real] at h0 h1 hk
  refine ⟨Angle.opposite degFull a, fun h => Trace.C13.t_deg_opposite a h, fun h => Trace.C13.t_deg_opposite_neg a h,
    C13.deg_opposite a, ?_, ?_, k, ?_⟩
  · rw [C13.degFull_real]; exact h0
  · rw [C13.degFull_real]; exact h1
  · rw [C13.degFull_real, hk]; norm_num

/-- `Deg::bisect(a, b)` as computed (non-wrapping and wrapping path): equal signed distances to `a` and `b`, at most 90°
from each, in `[0, 360)` -/
theorem code_deg_bisect_real (a b : ℝ) :
    ∃ r : ℝ,
      (0 < FRem.frem (b - a) (360 : ℝ) → FRem.frem (b - a) 360 < (360 : ℝ) / 2 →
        0 < FRem.frem (a + FRem.frem (b - a) 360 * (1 / 2)) (360 : ℝ) →
        t_deg_bisect_near (envL [a, b]) = .okG [r]
          [.cmp (FRem.frem (b - a) 360) 0 .gt, .cmp (360 / 2) (FRem.frem (b - a) 360) .gt,
           .cmp (FRem.frem (a + FRem.frem (b - a) 360 * (1 / 2)) 360) 0 .gt]) ∧
      (0 < FRem.frem (b - a) (360 : ℝ) → (360 : ℝ) / 2 < FRem.frem (b - a) 360 →
        0 < FRem.frem (a + (FRem.frem (b - a) 360 - 360) * (1 / 2)) (360 : ℝ) →
        t_deg_bisect_wrap (envL [a, b]) = .okG [r]
          [.cmp (FRem.frem (b - a) 360) 0 .gt, .cmp (360 / 2) (FRem.frem (b - a) 360) .lt,
           .cmp (FRem.frem (a + (FRem.frem (b - a) 360 - 360) * (1 / 2)) 360) 0 .gt]) ∧
      Angle.normalizeSigned (degFull : ℝ) (r - a) = Angle.normalizeSigned (degFull : ℝ) (b - r) ∧
      |Angle.normalizeSigned (degFull : ℝ) (r - a)| ≤ 90 ∧ 0 ≤ r ∧ r < 360 :=
  ⟨Angle.bisect degFull a b, fun h h2 h3 => Trace.C13.t_deg_bisect_near a b h h2 h3,
    fun h h2 h3 => Trace.C13.t_deg_bisect_wrap a b h h2 h3, C13.deg_bisect a b⟩

/-! ## `Rad` (full turn `2π`) -/

/-- `Rad::normalize(a)` as computed (both traced paths): in `[0, 2π)`, a whole number of turns from `a` -/
theorem code_rad_normalize_real (a : ℝ) :
    ∃ r : ℝ, (0 < FRem.frem a (Lits.radFull : ℝ) → t_rad_normalize_pos (envL [a]) =
        .okG [r] [.cmp (FRem.frem a Lits.radFull) 0 .gt]) ∧
      (FRem.frem a (Lits.radFull : ℝ) < 0 → t_rad_normalize_neg (envL [a]) =
        .okG [r] [.cmp (FRem.frem a Lits.radFull) 0 .lt]) ∧
      0 ≤ r ∧ r < 2 * Real.pi ∧ ∃ k : ℤ, r = a + k * (2 * Real.pi) :=
  ⟨Angle.normalize Lits.radFull a, fun h => Trace.C13.t_rad_normalize_pos a h, fun h => Trace.C13.t_rad_normalize_neg a h,
    C13.rad_normalize a⟩

/-- `Rad::normalize_signed(a)` as computed (both traced paths): in `(-π, π]`, a whole number of turns from `a` -/
theorem code_rad_normalize_signed_real (a : ℝ) :
    ∃ r : ℝ,
      (0 < FRem.frem a (Lits.radFull : ℝ) → (Lits.radFull : ℝ) / 2 < FRem.frem a Lits.radFull →
        t_rad_normalize_signed_hi (envL [a]) = .okG [r]
          [.cmp (FRem.frem a Lits.radFull) 0 .gt, .cmp (Lits.radFull / 2) (FRem.frem a Lits.radFull) .lt]) ∧
      (0 < FRem.frem a (Lits.radFull : ℝ) → FRem.frem a Lits.radFull < (Lits.radFull : ℝ) / 2 →
        t_rad_normalize_signed_lo (envL [a]) = .okG [r]
          [.cmp (FRem.frem a Lits.radFull) 0 .gt, .cmp (Lits.radFull / 2) (FRem.frem a Lits.radFull) .gt]) ∧
      -Real.pi < r ∧ r ≤ Real.pi ∧ ∃ k : ℤ, r = a + k * (2 * Real.pi) :=
  ⟨Angle.normalizeSigned Lits.radFull a, fun h h2 => Trace.C13.t_rad_normalize_signed_hi a h h2,
    fun h h2 => Trace.C13.t_rad_normalize_signed_lo a h h2, C13.rad_normalizeSigned a⟩

/-- `Rad::opposite(a)` as computed is `normalize(a + π)`: in `[0, 2π)`, half a turn plus whole turns from `a` -/
theorem code_rad_opposite_real (a : ℝ) (h : 0 < FRem.frem (a + Lits.radFull / 2) (Lits.radFull : ℝ)) :
    ∃ r : ℝ, t_rad_opposite (envL [a]) = .okG [r] [.cmp (FRem.frem (a + Lits.radFull / 2) Lits.radFull) 0 .gt] ∧
      r = Angle.normalize (Lits.radFull : ℝ) (a + Real.pi) ∧ 0 ≤ r ∧ r < 2 * Real.pi ∧
      ∃ k : ℤ, r = a + Real.pi + k * (2 * Real.pi) := by
  obtain ⟨-, h0, h1, k, hk⟩ := C13.opposite_spec_real (Lits.radFull : ℝ) a C13.radFull_pos
  refine ⟨Angle.opposite Lits.radFull a, Trace.C13.t_rad_opposite a h, C13.rad_opposite a, h0, ?_, k, ?_⟩
  · rw [C13.radFull_real] at h1; exact h1
  · rw [hk, C13.radFull_real]; ring

/-- the constants and conversions as computed, with the exact literal values: a full turn is `360°` = `2π rad`, and converting
back and forth is the identity -/
theorem code_conversions_real (a : ℝ) :
    t_deg_full_turn (envL ([] : List ℝ)) = .okS [(360 : ℝ)] ∧ t_rad_full_turn (envL ([] : List ℝ)) = .okS [2 * Real.pi] ∧
    (∃ d : ℝ, t_rad_to_deg (envL [a]) = .okS [d] ∧ t_deg_to_rad (envL [d]) = .okS [a]) ∧
    (∃ r : ℝ, t_deg_to_rad (envL [a]) = .okS [r] ∧ t_rad_to_deg (envL [r]) = .okS [a]) ∧
    t_rad_to_deg (envL [2 * Real.pi]) = .okS [(360 : ℝ)] ∧ t_deg_to_rad (envL [(360 : ℝ)]) = .okS [2 * Real.pi] := by
  obtain ⟨r1, r2⟩ := C13.roundtrip_real a
  obtain ⟨-, f2, -, f4⟩ := C13.full_turn_real
  refine ⟨by rw [Trace.C13Auto.t_deg_full_turn, C13.degFull_eq], by rw [Trace.C13Auto.t_rad_full_turn]; rfl,
    ⟨radToDeg a, Trace.C13.t_rad_to_deg a, by rw [Trace.C13.t_deg_to_rad, r1]⟩,
    ⟨degToRad a, Trace.C13.t_deg_to_rad a, by rw [Trace.C13.t_rad_to_deg, r2]⟩,
    by rw [Trace.C13.t_rad_to_deg, f2], by rw [Trace.C13.t_deg_to_rad, f4]⟩

/-! ## the path conditions in terms of the input, and concrete runs -/

/-- over the reals `a % T = a` when `|a| < T` -/
theorem frem_small (a T : ℝ) (hT : 0 < T) (h : |a| < T) : (FRem.frem a T : ℝ) = a := by
  obtain ⟨h1, h2⟩ := abs_lt.mp h
  rw [frem_real, fremF_eq]
  have : truncF (a / T) = 0 := by
    unfold truncF
    split_ifs with hs
    · rw [Int.floor_eq_zero_iff]
      exact ⟨hs, by rw [div_lt_one hT]; exact h2⟩
    · rw [Int.ceil_eq_zero_iff]
      exact ⟨by rw [lt_div_iff₀ hT]; linarith, (not_le.mp hs).le⟩
  rw [this]; simp

/-- the remainder has the sign of the dividend: the `neg` paths are taken only by negative angles, the `pos` paths only by
positive ones -/
theorem path_sign (a T : ℝ) : ((FRem.frem a T : ℝ) < 0 → a < 0) ∧ (0 < (FRem.frem a T : ℝ) → 0 < a) := by
  obtain ⟨s1, s2⟩ := fremR_sign a T
  exact ⟨fun h => by by_contra hc; linarith [s1 (not_lt.mp hc)], fun h => by by_contra hc; linarith [s2 (not_lt.mp hc)]⟩

/-- concrete runs: `normalize(-30°) = 330°` on the `neg` path, `normalize_signed(270°) = -90°` on the `hi` path, and
`bisect(10°, 50°) = 30°` on the non-wrapping path -/
theorem code_concrete_runs :
    t_deg_normalize_neg (envL [(-30 : ℝ)]) = .okG [330] [.cmp (-30) 0 .lt] ∧
    t_deg_normalize_signed_hi (envL [(270 : ℝ)]) = .okG [-90] [.cmp 270 0 .gt, .cmp (360 / 2) 270 .lt] ∧
    t_deg_bisect_near (envL [(10 : ℝ), 50]) = .okG [30] [.cmp 40 0 .gt, .cmp (360 / 2) 40 .gt, .cmp 30 0 .gt] := by
  have e1 : (FRem.frem (-30) 360 : ℝ) = -30 := frem_small _ _ (by norm_num) (by rw [abs_lt]; constructor <;> norm_num)
  have e2 : (FRem.frem 270 360 : ℝ) = 270 := frem_small _ _ (by norm_num) (by rw [abs_lt]; constructor <;> norm_num)
  have e3 : (FRem.frem (50 - 10) 360 : ℝ) = 40 := by
    rw [frem_small _ _ (by norm_num) (by rw [abs_lt]; constructor <;> norm_num)]; norm_num
  have e4 : (FRem.frem (10 + 40 * (1 / 2)) 360 : ℝ) = 30 := by
    rw [frem_small _ _ (by norm_num) (by rw [abs_lt]; constructor <;> norm_num)]; norm_num
  refine ⟨?_, ?_, ?_⟩
  · have h := Trace.C13.t_deg_normalize_neg (-30 : ℝ) (by rw [e1]; norm_num)
    rw [e1, C13.degFull_real, C13.normalize_neg30] at h
    exact h
  · have h := Trace.C13.t_deg_normalize_signed_hi (270 : ℝ) (by rw [e2]; norm_num) (by rw [e2]; norm_num)
    rw [e2, C13.degFull_real, C13.normalizeSigned_270] at h
    exact h
  · have h := Trace.C13.t_deg_bisect_near (10 : ℝ) 50 (by rw [e3]; norm_num) (by rw [e3]; norm_num)
      (by rw [e3, e4]; norm_num)
    rw [e3, e4, C13.degFull_real, C13.bisect_10_50] at h
    exact h
end Cg.E2E.C13
